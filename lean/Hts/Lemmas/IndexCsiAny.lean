/-
Representability (`CWF`) of a CSI index after ANY sequence of `csi.Index.Add` calls: no sortedness, no
hypothesis that placed records have `0 ≤ start < stop` (the code does not check it), rejected calls included
(a call rejected for position order has already entered its bin).  Only sizes of the input are assumed.

* `reg2bin_lt_binLimit_any`: the bin number `csi.reg2bin` computes for ANY start position that `validIndexPos`
  accepts (`-1 ≤ start < 2^(minShift+3·depth)`; any stop whatsoever) is below the bin limit of the geometry,
  depth ≤ 10.  (`-1 >> s = -1` gives the last bin of the level above; an empty or reversed interval gives a bin
  of the geometry as well.)
* `CIdxRepr`: the representation invariant kept by every `Add`, whatever it returns.
* `csi_any_cwf`: hence `CWF`; with the pigeonhole `nodup_length_le` the bin count is at most the bin limit.
-/
import Hts.Lemmas.IndexCsiRepr
namespace Hts.Model.IndexIO
open Hts.Model.Index Hts.Model.Csi
open Hts.Spec.Coord (levelOffset levelOffset_succ pow8_pos)

/-! ### the bin number of any accepted position -/

theorem int_shr_bounds (beg : Int) (s k : Nat) (h0 : -1 ≤ beg) (h1 : beg < (2 : Int) ^ (s + k)) :
    -1 ≤ beg >>> s ∧ beg >>> s < (2 : Int) ^ k := by
  rw [Int.shiftRight_eq_div_pow]
  have hp : (0 : Int) < ((2 ^ s : Nat) : Int) := by
    have := Nat.pow_pos (n := s) (show 0 < 2 by omega)
    omega
  constructor
  · apply Int.le_ediv_of_mul_le hp
    omega
  · apply Int.ediv_lt_of_lt_mul hp
    have : ((2 ^ s : Nat) : Int) = (2 : Int) ^ s := by rw [Int.natCast_pow]; rfl
    rw [this, ← Int.pow_add, Nat.add_comm]
    exact h1

/-- the loop of `csi.reg2bin`, entered at `level` with the running offset of that level, returns a bin number
of the levels `0 … level` for every `beg` in `[-1, 2^(s+3·level))`, whatever `e` is -/
theorem reg2binLoop_lt_any (beg e : Int) (h0 : -1 ≤ beg) : ∀ level s, level ≤ 10 →
    beg < (2 : Int) ^ (s + 3 * level) →
    Hts.Model.Coord.reg2binLoop beg e level s (levelOffset level) < levelOffset (level + 1) := by
  intro level
  induction level with
  | zero => intro s _ _; simp [Hts.Model.Coord.reg2binLoop, levelOffset]
  | succ level ih =>
    intro s hl hb
    unfold Hts.Model.Coord.reg2binLoop
    have hlo := Hts.Model.Coord.levelOffset_lt (level + 2) (by omega)
    have hsucc : levelOffset (level + 2) = levelOffset (level + 1) + 8 ^ (level + 1) := levelOffset_succ (level + 1)
    have hsucc0 := levelOffset_succ level
    have hp := pow8_pos level
    have h8 : 8 ^ (level + 1) = 8 * 8 ^ level := by rw [Nat.pow_succ]; omega
    show _ < levelOffset (level + 2)
    obtain ⟨hx0, hx1⟩ := int_shr_bounds beg s (3 * (level + 1)) h0 hb
    have e8 : (2 : Int) ^ (3 * (level + 1)) = ((8 ^ (level + 1) : Nat) : Int) := by
      rw [Hts.Model.Coord.pow8_eq, Int.natCast_pow]; rfl
    rw [e8] at hx1
    generalize beg >>> s = x at *
    generalize e >>> s = y at *
    split
    · unfold Hts.Model.Coord.u32
      omega
    · rw [Hts.Model.Coord.shl1u32_eq level (by omega)]
      have : (levelOffset (level + 1) + 4294967296 - 8 ^ level) % 4294967296 = levelOffset level := by
        omega
      rw [this]
      have := ih (s + 3) (by omega) (by
        have : s + 3 + 3 * level = s + 3 * (level + 1) := by omega
        rw [this]; exact hb)
      omega

/-- `csi.reg2bin` of ANY start position accepted by `validIndexPos` (and any stop) is below the bin limit of
the geometry (depth ≤ 10) -/
theorem reg2bin_lt_binLimit_any (ms d : Nat) (hd : d ≤ 10) (start stop : Int) (h0 : -1 ≤ start)
    (h1 : start < (2 : Int) ^ (ms + 3 * d)) : Hts.Model.Coord.reg2bin start stop ms d < csiBinLimit d := by
  have hlim : csiBinLimit d = levelOffset (d + 1) := by
    unfold csiBinLimit Hts.Spec.Coord.levelOffset
    have hp : 2 ^ ((d + 1) * 3) = 8 ^ (d + 1) := by rw [Hts.Model.Coord.pow8_eq]; congr 1; omega
    rw [hp]
    have := Hts.Model.Coord.levelOffset_lt (d + 1) (by omega)
    unfold Hts.Spec.Coord.levelOffset at this
    omega
  rw [hlim]
  unfold Hts.Model.Coord.reg2bin
  rw [Hts.Model.Coord.csiT0_eq d hd]
  exact reg2binLoop_lt_any start (stop - 1) h0 d ms hd h1

end Hts.Model.IndexIO

namespace Hts.Model.Csi
open Hts.Model.Index Hts.Model.IndexIO

/-! ### the representation invariant kept by every `Add` -/

/-- a bin whose fields fit the format (`P` = the range of a virtual offset): number below the bin limit `L`, at most `n` records and chunks -/
structure CBinRepr (P : Int → Prop) (L n : Nat) (b : CBin) : Prop where
  bin : b.bin < L
  left : P b.left
  records : b.records ≤ n
  chunks : b.chunks.length ≤ n
  offs : ∀ c, c ∈ b.chunks → P c.b ∧ P c.e

structure CRefRepr (P : Int → Prop) (L n : Nat) (r : CRef) : Prop where
  nodup : (r.bins.map (·.bin)).Nodup
  len : r.bins.length ≤ n
  bins : ∀ b, b ∈ r.bins → CBinRepr P L n b
  stats : ∀ s, r.stats = some s → P s.chunk.b ∧ P s.chunk.e ∧ s.mapped ≤ n ∧ s.unmapped ≤ n

/-- the invariant after `n` calls of `Add` (accepted or not) with reference ids below `R` on an index that
started unsorted: never marked sorted, at most `R` references, every counter at most `n` -/
structure CIdxRepr (P : Int → Prop) (L R n : Nat) (i : CIndex) : Prop where
  flag : i.isSorted = false
  nrefs : i.refs.length ≤ R
  um : ∀ m, i.unmapped = some m → m ≤ n
  refs : ∀ r, r ∈ i.refs → CRefRepr P L n r

theorem CBinRepr.mono {P : Int → Prop} {L n m : Nat} {b : CBin} (h : CBinRepr P L n b) (hnm : n ≤ m) : CBinRepr P L m b :=
  ⟨h.bin, h.left, by have := h.records; omega, by have := h.chunks; omega, h.offs⟩

theorem CRefRepr.mono {P : Int → Prop} {L n m : Nat} {r : CRef} (h : CRefRepr P L n r) (hnm : n ≤ m) : CRefRepr P L m r :=
  ⟨h.nodup, by have := h.len; omega, fun b hb => (h.bins b hb).mono hnm,
   fun s hs => by obtain ⟨a, b, c, d⟩ := h.stats s hs; exact ⟨a, b, by omega, by omega⟩⟩

theorem cRefRepr_empty (P : Int → Prop) (L n : Nat) : CRefRepr P L n emptyRef :=
  ⟨by simp [emptyRef], by simp [emptyRef], by intro b hb; simp [emptyRef] at hb,
   by intro s hs; simp [emptyRef] at hs⟩

theorem extendChunks_offs (P : Int → Prop) (cs : List Chunk) (c : Chunk) (hc : P c.b ∧ P c.e)
    (h : ∀ x, x ∈ cs → P x.b ∧ P x.e) : ∀ x, x ∈ extendChunks cs c → P x.b ∧ P x.e := by
  induction cs with
  | nil => intro x hx; simp [extendChunks] at hx; subst hx; exact hc
  | cons y ys ih =>
    intro x hx
    unfold extendChunks at hx
    split at hx
    · rcases List.mem_cons.1 hx with rfl | hx
      · exact ⟨(h y List.mem_cons_self).1, hc.2⟩
      · exact h x (List.mem_cons_of_mem _ hx)
    · rcases List.mem_cons.1 hx with rfl | hx
      · exact h _ List.mem_cons_self
      · exact ih (fun z hz => h z (List.mem_cons_of_mem _ hz)) x hx

theorem addBin_binRepr (P : Int → Prop) (L n : Nat) (bins : List CBin) (bin : Nat) (c : Chunk) (hbin : bin < L)
    (hc : P c.b ∧ P c.e) (h : ∀ b, b ∈ bins → CBinRepr P L n b) :
    ∀ b, b ∈ (addBin bins bin c).1 → CBinRepr P L (n + 1) b := by
  induction bins with
  | nil =>
    intro b hb
    have : b = ⟨bin, c.b, 1, [c]⟩ := by simpa [addBin] using hb
    subst this
    exact ⟨hbin, hc.1, by simp, by simp, by intro x hx; simp at hx; subst hx; exact hc⟩
  | cons b0 bs ih =>
    intro b hb
    by_cases heq : b0.bin = bin
    · subst heq
      simp only [addBin, if_true] at hb
      rcases List.mem_cons.1 hb with rfl | hb
      · have h0 := h b0 List.mem_cons_self
        refine ⟨h0.bin, h0.left, ?_, ?_, extendChunks_offs P _ _ hc h0.offs⟩
        · show b0.records + 1 ≤ n + 1
          have := h0.records; omega
        · show (extendChunks b0.chunks c).length ≤ n + 1
          have := extendChunks_length_le b0.chunks c; have := h0.chunks; omega
      · exact (h b (List.mem_cons_of_mem _ hb)).mono (by omega)
    · simp only [addBin, heq, if_false] at hb
      rcases List.mem_cons.1 hb with rfl | hb
      · exact (h _ List.mem_cons_self).mono (by omega)
      · exact ih (fun z hz => h z (List.mem_cons_of_mem _ hz)) b hb

theorem addBin_length_le (bins : List CBin) (bin : Nat) (c : Chunk) :
    (addBin bins bin c).1.length ≤ bins.length + 1 := by
  rcases addBin_nums bins bin c with ⟨h1, _⟩ | ⟨h1, _⟩
  · have := congrArg List.length h1; simp at this; omega
  · have := congrArg List.length h1; simp at this; omega

theorem addStats_repr (P : Int → Prop) (n : Nat) (st : Option Stats) (c : Chunk) (mapped : Bool) (hc : P c.b ∧ P c.e)
    (h : ∀ s, st = some s → P s.chunk.b ∧ P s.chunk.e ∧ s.mapped ≤ n ∧ s.unmapped ≤ n) :
    P (addStats st c mapped).chunk.b ∧ P (addStats st c mapped).chunk.e ∧
      (addStats st c mapped).mapped ≤ n + 1 ∧ (addStats st c mapped).unmapped ≤ n + 1 := by
  unfold addStats
  cases st with
  | none => cases mapped <;> simp <;> exact ⟨hc.1, hc.2⟩
  | some s0 =>
    obtain ⟨a, _, c1, d1⟩ := h s0 rfl
    cases mapped <;> simp <;> exact ⟨a, hc.2, by omega⟩

theorem addRef_repr (P : Int → Prop) (L n : Nat) (ref : CRef) (last : Int) (bin : Nat) (r : CRec) (hbin : bin < L)
    (hc : P r.chunk.b ∧ P r.chunk.e) (h : CRefRepr P L n ref) :
    CRefRepr P L (n + 1) (addRef ref last bin r).1 := by
  have hb := addBin_binRepr P L n ref.bins bin r.chunk hbin hc h.bins
  have hn := addBin_nodup ref.bins bin r.chunk h.nodup
  have hl := addBin_length_le ref.bins bin r.chunk
  have hlen := h.len
  unfold addRef
  split
  · exact ⟨hn, by show (addBin ref.bins bin r.chunk).1.length ≤ n + 1; omega, hb,
      fun s hs => by obtain ⟨a, b, c, d⟩ := h.stats s hs; exact ⟨a, b, by omega, by omega⟩⟩
  · refine ⟨hn, by show (addBin ref.bins bin r.chunk).1.length ≤ n + 1; omega, hb, ?_⟩
    intro s hs
    have : s = addStats ref.stats r.chunk r.mapped := by
      simpa using hs.symm
    subst this
    exact addStats_repr P n ref.stats r.chunk r.mapped hc h.stats

/-- the four shapes of the index after one `Add` -/
theorem add_shape (binOf : Int → Int → Nat → Nat → Nat) (i : CIndex) (r : CRec) :
    (add binOf i r).1 = i ∨
    (add binOf i r).1 = { i with unmapped := some (umCount i.unmapped + 1) } ∨
    (add binOf i r).1 = { i with unmapped := some (umCount i.unmapped) } ∨
    (validPos i.minShift i.depth r.start = true ∧ 0 ≤ r.rid ∧
      ∃ ref last, (padded i.refs r.rid.toNat)[r.rid.toNat]? = some ref ∧
        (add binOf i r).1 =
          { i with refs := (padded i.refs r.rid.toNat).set r.rid.toNat
                      (addRef ref last (binOf r.start r.stop i.minShift i.depth) r).1,
                    unmapped := some (umCount i.unmapped),
                    isSorted := i.isSorted && (addRef ref last (binOf r.start r.stop i.minShift i.depth) r).2.2.1,
                    lastRecord := (addRef ref last (binOf r.start r.stop i.minShift i.depth) r).2.1 }) := by
  unfold add
  split
  · left; rfl
  · rename_i hv
    simp only [Bool.not_eq_true', Bool.and_eq_false_iff, not_or, Bool.not_eq_false] at hv
    split
    · right; left; rfl
    · split
      · right; right; left; rfl
      · rename_i hr0
        dsimp only
        split
        · right; right; left; rfl
        · have hp' : (if decide (r.rid.toNat ≥ i.refs.length) = true then
                i.refs ++ List.replicate (r.rid.toNat + 1 - i.refs.length) emptyRef else i.refs)
              = padded i.refs r.rid.toNat := rfl
          rw [hp']
          split
          · right; right; left; rfl
          · rename_i ref href
            right; right; right
            exact ⟨hv.1, by omega, ref, _, href, rfl⟩

theorem add_geom (binOf : Int → Int → Nat → Nat → Nat) (i : CIndex) (r : CRec) :
    (add binOf i r).1.minShift = i.minShift ∧ (add binOf i r).1.depth = i.depth := by
  rcases add_shape binOf i r with h | h | h | ⟨_, _, ref, last, _, h⟩ <;> rw [h] <;> exact ⟨rfl, rfl⟩

theorem padded_mem (refs : List CRef) (rid : Nat) (x : CRef) (h : x ∈ padded refs rid) :
    x ∈ refs ∨ x = emptyRef := by
  unfold padded at h
  split at h
  · rcases List.mem_append.1 h with h | h
    · exact Or.inl h
    · exact Or.inr (List.eq_of_mem_replicate h)
  · exact Or.inl h

/-- one `Add`, whatever it answers, keeps the invariant -/
theorem add_repr (P : Int → Prop) (binOf : Int → Int → Nat → Nat → Nat) (L R n : Nat) (i : CIndex) (r : CRec)
    (hbin : validPos i.minShift i.depth r.start = true → binOf r.start r.stop i.minShift i.depth < L)
    (hc : P r.chunk.b ∧ P r.chunk.e) (hrid : r.rid < (R : Int)) (h : CIdxRepr P L R n i) :
    CIdxRepr P L R (n + 1) (add binOf i r).1 := by
  have hum : umCount i.unmapped ≤ n := by
    cases hu : i.unmapped with
    | none => simp [umCount]
    | some m => simpa [umCount] using h.um m hu
  have hrefs : ∀ x, x ∈ i.refs → CRefRepr P L (n + 1) x := fun x hx => (h.refs x hx).mono (by omega)
  rcases add_shape binOf i r with e | e | e | ⟨hv, h0, ref, last, href, e⟩ <;> rw [e]
  · exact ⟨h.flag, h.nrefs, fun m hm => by have := h.um m hm; omega, hrefs⟩
  · exact ⟨h.flag, h.nrefs, fun m hm => by simp at hm; omega, hrefs⟩
  · exact ⟨h.flag, h.nrefs, fun m hm => by simp at hm; omega, hrefs⟩
  · refine ⟨by show (i.isSorted && _) = false; rw [h.flag]; rfl, ?_, fun m hm => by simp at hm; omega, ?_⟩
    · show ((padded i.refs r.rid.toNat).set _ _).length ≤ R
      rw [List.length_set, padded_length]
      have := h.nrefs
      omega
    · intro x hx
      have hx' : x ∈ (padded i.refs r.rid.toNat).set r.rid.toNat
          (addRef ref last (binOf r.start r.stop i.minShift i.depth) r).1 := hx
      have hpad : ∀ y, y ∈ padded i.refs r.rid.toNat → CRefRepr P L n y := by
        intro y hy
        rcases padded_mem _ _ _ hy with hy | rfl
        · exact h.refs y hy
        · exact cRefRepr_empty P L n
      rcases List.mem_or_eq_of_mem_set hx' with hx' | rfl
      · exact (hpad x hx').mono (by omega)
      · exact addRef_repr P L n ref last _ r (hbin hv) hc (hpad ref (List.mem_of_getElem? href))

/-- every sequence of `Add` calls keeps the invariant -/
theorem addAll_repr (P : Int → Prop) (binOf : Int → Int → Nat → Nat → Nat) (L R : Nat) : ∀ (recs : List CRec) (n : Nat) (i : CIndex),
    (∀ r, r ∈ recs → (validPos i.minShift i.depth r.start = true → binOf r.start r.stop i.minShift i.depth < L) ∧
      P r.chunk.b ∧ P r.chunk.e ∧ r.rid < (R : Int)) →
    CIdxRepr P L R n i → CIdxRepr P L R (n + recs.length) (addAll binOf i recs).1 := by
  intro recs
  induction recs with
  | nil => intro n i _ h; exact h
  | cons r rs ih =>
    intro n i hr h
    obtain ⟨h1, h2, h3, h4⟩ := hr r List.mem_cons_self
    have step := add_repr P binOf L R n i r h1 ⟨h2, h3⟩ h4 h
    obtain ⟨g1, g2⟩ := add_geom binOf i r
    have := ih (n + 1) (add binOf i r).1
      (by intro x hx; rw [g1, g2]; exact hr x (List.mem_cons_of_mem _ hx)) step
    simp only [addAll, List.length_cons]
    have e : n + (rs.length + 1) = n + 1 + rs.length := by omega
    rw [e]; exact this

theorem addAll_geom (binOf : Int → Int → Nat → Nat → Nat) : ∀ (recs : List CRec) (i : CIndex),
    (addAll binOf i recs).1.minShift = i.minShift ∧ (addAll binOf i recs).1.depth = i.depth := by
  intro recs
  induction recs with
  | nil => intro i; exact ⟨rfl, rfl⟩
  | cons r rs ih =>
    intro i
    obtain ⟨h1, h2⟩ := ih (add binOf i r).1
    obtain ⟨h3, h4⟩ := add_geom binOf i r
    simp only [addAll]
    exact ⟨by rw [h1, h3], by rw [h2, h4]⟩

theorem exists_rid_bound : ∀ recs : List CRec, ∃ R : Nat, ∀ r, r ∈ recs → r.rid < (R : Int) := by
  intro recs
  induction recs with
  | nil => exact ⟨0, by intro r hr; cases hr⟩
  | cons r rs ih =>
    obtain ⟨R, h⟩ := ih
    refine ⟨R + r.rid.toNat + 1, ?_⟩
    intro x hx
    rcases List.mem_cons.1 hx with rfl | hx
    · omega
    · have := h x hx; omega

/-- a start position accepted by `validIndexPos` lies in `[-1, 2^(minShift+3·depth))`, for every geometry (from a
shift of 64 on nothing is accepted) -/
theorem validPos_range (ms d : Nat) (p : Int) (h : validPos ms d p = true) :
    -1 ≤ p ∧ p < (2 : Int) ^ (ms + 3 * d) := by
  simp only [validPos, Bool.and_eq_true, decide_eq_true_eq] at h
  obtain ⟨h0, h1⟩ := h
  unfold posBound at h1
  split at h1
  · exact ⟨h0, by omega⟩
  · omega

/-- the invariant with the geometry's bin limit, for every sequence of `Add` calls on a fresh index of depth ≤ 10 -/
theorem addAll_repr_reg2bin (P : Int → Prop) (ms d : Nat) (hd : d ≤ 10) (i0 : CIndex)
    (hi0 : i0.refs = [] ∧ i0.unmapped = none ∧ i0.isSorted = false) (hms0 : i0.minShift = ms) (hd0 : i0.depth = d)
    (R : Nat) (recs : List CRec) (hrid : ∀ r, r ∈ recs → r.rid < (R : Int))
    (hoff : ∀ r, r ∈ recs → P r.chunk.b ∧ P r.chunk.e) :
    CIdxRepr P (csiBinLimit d) R recs.length (addAll Hts.Model.Coord.reg2bin i0 recs).1 := by
  have init : CIdxRepr P (csiBinLimit d) R 0 i0 :=
    { flag := hi0.2.2
      nrefs := by rw [hi0.1]; simp
      um := by intro m hm; rw [hi0.2.1] at hm; cases hm
      refs := by intro r hr; rw [hi0.1] at hr; cases hr }
  have := addAll_repr P Hts.Model.Coord.reg2bin (csiBinLimit d) R recs 0 i0
    (by
      intro r hr
      refine ⟨?_, (hoff r hr).1, (hoff r hr).2, hrid r hr⟩
      intro hv
      rw [hms0, hd0] at hv ⊢
      obtain ⟨h0, h1⟩ := validPos_range ms d r.start hv
      exact reg2bin_lt_binLimit_any ms d hd r.start r.stop h0 h1)
    init
  simpa using this

end Hts.Model.Csi

namespace Hts.Model.IndexIO
open Hts.Model.Index Hts.Model.Csi

instance (x : Int) : Decidable (OffOK x) := by unfold OffOK; infer_instance

/-- the bin-count clause `CRefBounds.nb` (what `csi.readBins` checks: at most every bin of the geometry plus the
pseudo-bin), bin numbers pairwise distinct and below the bin limit: for EVERY sequence of `Add` calls on a fresh
index of depth ≤ 10, any minimum shift, no hypothesis on the records -/
theorem csi_any_bin_count (ms d : Nat) (hd : d ≤ 10) (i0 : CIndex)
    (hi0 : i0.refs = [] ∧ i0.unmapped = none ∧ i0.isSorted = false) (hms0 : i0.minShift = ms) (hd0 : i0.depth = d)
    (recs : List CRec) (ref : CRef) (href : ref ∈ (Csi.addAll Hts.Model.Coord.reg2bin i0 recs).1.refs) :
    (ref.bins.map (·.bin)).Nodup ∧ (∀ b, b ∈ ref.bins → b.bin < csiBinLimit d) ∧
      ref.bins.length + (if ref.stats.isSome then 1 else 0) ≤ csiBinLimit d + 1 := by
  obtain ⟨R, hR⟩ := exists_rid_bound recs
  have inv := addAll_repr_reg2bin (fun _ => True) ms d hd i0 hi0 hms0 hd0 R recs hR (fun _ _ => ⟨trivial, trivial⟩)
  have rr := inv.refs ref href
  have hb : ∀ b, b ∈ ref.bins → b.bin < csiBinLimit d := fun b hb => (rr.bins b hb).bin
  have hcount := nodup_length_le (csiBinLimit d) (ref.bins.map (·.bin)) rr.nodup
    (by
      intro x hx
      obtain ⟨bn, hbn, rfl⟩ := List.mem_map.1 hx
      exact hb bn hbn)
  rw [List.length_map] at hcount
  refine ⟨rr.nodup, hb, ?_⟩
  split <;> omega

/-- `CWF` after ANY sequence of `Add` calls on a fresh index, from sizes of the input alone -/
theorem csi_any_cwf (ms d : Nat) (hd : d ≤ 10) (hgeom : ms + 3 * d ≤ 62)
    (i0 : CIndex) (hi0 : i0.refs = [] ∧ i0.unmapped = none ∧ i0.isSorted = false)
    (hms0 : i0.minShift = ms) (hd0 : i0.depth = d) (hver : i0.version = 1 ∨ i0.version = 2)
    (haux : i0.aux.length < 2147483648)
    (recs : List CRec) (hlen : recs.length < 2147483647)
    (hrid : ∀ r, r ∈ recs → r.rid < 2147483647)
    (hoff : ∀ r, r ∈ recs → OffOK r.chunk.b ∧ OffOK r.chunk.e) :
    CWF (Csi.addAll Hts.Model.Coord.reg2bin i0 recs).1 := by
  have inv := addAll_repr_reg2bin OffOK ms d hd i0 hi0 hms0 hd0 2147483647 recs
    (by intro r hr; have := hrid r hr; omega) hoff
  have hfix := Csi.addAll_fixed Hts.Model.Coord.reg2bin recs i0
  obtain ⟨hms', hd'⟩ := addAll_geom Hts.Model.Coord.reg2bin recs i0
  rw [hms0] at hms'
  rw [hd0] at hd'
  refine
    { version := by rw [hfix.1]; exact hver
      minShift := by rw [hms']; omega
      geom := by rw [hms', hd']; exact hgeom
      aux := by rw [hfix.2]; exact haux
      nrefs := by have := inv.nrefs; omega
      bounds := ?_
      flag := by intro hf; rw [inv.flag] at hf; cases hf
      um := by intro n hn; have := inv.um n hn; omega }
  intro ref href
  rw [hfix.1, hd']
  have rr := inv.refs ref href
  obtain ⟨_, hbinlt, hnb⟩ := csi_any_bin_count ms d hd i0 hi0 hms0 hd0 recs ref href
  have hlim := csiBinLimit_lt d (by omega)
  refine { nb := hnb, nb31 := ?_, bins := ?_, stats := ?_ }
  · have := rr.len; split <;> omega
  · intro bn hbn
    have b := rr.bins bn hbn
    have := b.records; have := b.chunks; have := hbinlt bn hbn
    exact ⟨by omega, by omega, b.left, by omega, by omega, b.offs⟩
  · intro s hs
    obtain ⟨a, b, c, e⟩ := rr.stats s hs
    exact ⟨a, b, by omega, by omega⟩

end Hts.Model.IndexIO
