/-
A small labelled transition system of the read-ahead reader (`rd > 1`) WITH a cache, abstracted to what
matters for DESIGN §6 #28: members are numbered 0 … n-1 (the member after i is i+1, n = end of file), the cache is an
LRU list of member numbers, the worker goroutine has a position `wnext`, the channel `working` is a queue of delivered
members, `decs` counts the idle decompressors in `waiting`.

  worker   (reader.go:413-432, nextBlockAt 214-223):  take an idle decompressor; while Peek(wnext) skip to wnext+1;
           decompress wnext, deliver it on `working`; at the end of the file deliver the failing decompressor and park
           on `control`.
  consumer (nextBlock 616-646): want := cur+1; if the cache has it, Get it (hit) and Put the old block;
           otherwise Put the old block (possibly evicting) and take decompressors from `working` until one carries
           `want`; after cap(working) = rd mismatches: panic("bgzf: unexpected block").

`deadlock_witness`: a schedule after which the consumer is waiting on `working`, the worker is parked on `control`,
and no step is enabled.  `unexpected_block_witness`: a schedule that ends in the panic.  Both use a cache of
capacity 1 and rd = 2.  (The implementation itself is exercised by the C03 harness; this file only pins the mechanism.)
-/
namespace Hts.Model.ReadAheadCache

inductive CPc
  | idle
  /-- inside nextBlock, `tries` decompressors already taken from `working` -/
  | scanning (want : Nat) (tries : Nat)
  | panicked
deriving DecidableEq, Repr

structure St where
  n : Nat
  rd : Nat
  cap : Nat
  /-- newest first -/
  cache : List Nat
  cur : Nat
  cpc : CPc
  /-- worker position; `none` = parked on `control` after the end of the file -/
  wnext : Option Nat
  working : List Nat
  decs : Nat
deriving DecidableEq, Repr

inductive Act
  | workerSkip
  | workerLoad
  | consumerNext
  | consumerTake
deriving DecidableEq, Repr

/-- LRU `Put` of a used block (newest first, evict the last when full) -/
def put (cap : Nat) (cache : List Nat) (b : Nat) : List Nat :=
  if cache.contains b then cache
  else if cache.length ≥ cap then b :: cache.dropLast else b :: cache

def step (s : St) : Act → Option St
  | .workerSkip =>
    match s.wnext with
    | some k => if s.decs > 0 ∧ s.cache.contains k then some { s with wnext := some (k + 1) } else none
    | none => none
  | .workerLoad =>
    match s.wnext with
    | some k =>
      if s.decs > 0 ∧ !s.cache.contains k then
        if k < s.n then some { s with working := s.working ++ [k], decs := s.decs - 1, wnext := some (k + 1) }
        else some { s with working := s.working ++ [s.n], decs := s.decs - 1, wnext := none }
      else none
    | none => none
  | .consumerNext =>
    match s.cpc with
    | .idle =>
      let want := s.cur + 1
      if s.cache.contains want then
        some { s with cache := put s.cap (s.cache.filter (· ≠ want)) s.cur, cur := want }
      else some { s with cache := put s.cap s.cache s.cur, cpc := .scanning want 0 }
    | _ => none
  | .consumerTake =>
    match s.cpc with
    | .scanning want tries =>
      if tries ≥ s.rd then some { s with cpc := .panicked }
      else match s.working with
        | [] => none
        | b :: rest =>
          if b = want then some { s with cur := want, cpc := .idle, working := rest, decs := s.decs + 1 }
          else some { s with cpc := .scanning want (tries + 1), working := rest, decs := s.decs + 1 }
    | _ => none

def run (s : St) : List Act → Option St
  | [] => some s
  | a :: as => (step s a).bind (fun s' => run s' as)

/-- no step enabled -/
def stuck (s : St) : Bool :=
  (step s .workerSkip).isNone && (step s .workerLoad).isNone && (step s .consumerNext).isNone &&
    (step s .consumerTake).isNone

/-- 4 members, rd = 2 (two decompressors), LRU of capacity 1 holding member 2; the consumer is at member 0, the
worker is about to look at member 2 (member 1 is already on `working`) -/
def start : St :=
  { n := 4, rd := 2, cap := 1, cache := [2], cur := 0, cpc := .idle, wnext := some 2, working := [1], decs := 1 }

/-- worker: Peek(2) hits → skip; load 3.  consumer: 0→1 (miss; Put(0) evicts member 2; takes 1 from `working`);
worker: end of file, parks.  consumer: 1→2: Get(2) misses (evicted), takes 3 (mismatch), takes the failing
decompressor (mismatch) … -/
def schedule : List Act :=
  [.workerSkip, .workerLoad, .consumerNext, .consumerTake, .workerLoad, .consumerNext, .consumerTake, .consumerTake]

/-- after cap(working) mismatches: panic("bgzf: unexpected block") -/
theorem unexpected_block_witness :
    (run start (schedule ++ [.consumerTake])).map (·.cpc) = some .panicked := by decide

/-- with three decompressors (rd = 3) the same schedule ends in a dead-lock: the consumer waits on `working`
(it has taken 2 < rd decompressors), the worker is parked on `control`, nothing can move -/
theorem deadlock_witness :
    ((run { start with rd := 3, decs := 2 } schedule).map
      (fun s => (s.cpc, s.wnext, s.working, stuck s))) = some (.scanning 2 2, none, [], true) := by decide

/-- … whereas without the eviction (capacity 2) the same worker steps are harmless: the consumer finds member 2
in the cache -/
example :
    ((run { start with cap := 2 } [.workerSkip, .workerLoad, .consumerNext, .consumerTake, .workerLoad, .consumerNext]).map
      (fun s => (s.cur, s.cpc))) = some (2, .idle) := by decide

end Hts.Model.ReadAheadCache
