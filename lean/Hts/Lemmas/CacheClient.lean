/-
Reader-style use of a cache, as a protocol, and what the contract guarantees under it.

The client (the bgzf reader) keeps track of the blocks it *owns*: blocks it allocated, blocks `Get` handed
over, blocks `Put` refused or evicted.  It may overwrite any block it owns with another member (new base,
used flag, next base) and offers only blocks it owns.  It cannot see inside the cache.

For every cache satisfying `Contract`, every reachable state of this protocol is `Coherent`: each indexed
block still carries the base it is indexed under, no indexed block is owned by the client, and block
identities in the cache are distinct.  Consequently `Get`/`Peek` never answer with a block of another base.
FIFO is not an instance: `fifo_client_witness` is a reachable state of the same protocol in which
`Get(0)` returns a block whose base is 100.
-/
import Hts.Lemmas.CacheContract
namespace Hts.Spec.CacheContract
open Hts.Model.Cache

structure Client (σ : Type) where
  cache : σ
  heap : Heap
  owned : List Nat
  /-- next unused block identity -/
  fresh : Nat

def setBlk (h : Heap) (id : Nat) (b : Blk) : Heap := fun i => if i = id then b else h i

/-- which call a step of the protocol makes -/
inductive Lab
  | alloc
  | write
  | put
  | get (k : Int)
  | shrink

/-- one step of the client protocol -/
inductive Step {σ : Type} (o : CacheOps σ) (wf : σ → Prop) : Lab → Client σ → Client σ → Prop
  /-- allocate a new block with arbitrary contents -/
  | alloc (s : Client σ) (b : Blk) :
      Step o wf .alloc s ⟨s.cache, setBlk s.heap s.fresh b, s.fresh :: s.owned, s.fresh + 1⟩
  /-- overwrite an owned block (recycling it for another member, or reading from it) -/
  | write (s : Client σ) (id : Nat) (b : Blk) (hown : id ∈ s.owned) :
      Step o wf .write s ⟨s.cache, setBlk s.heap id b, s.owned, s.fresh⟩
  /-- `Put` of an owned block that is refused: the client keeps it -/
  | putRefused (s : Client σ) (id : Nat) (hint : Option Nat) (c' : σ) (hown : id ∈ s.owned)
      (hp : o.put s.heap s.cache id hint = some (c', .refused)) :
      Step o wf .put s ⟨c', s.heap, s.owned, s.fresh⟩
  /-- `Put` of an owned block that is retained: ownership passes to the cache, an evicted block comes back -/
  | putKept (s : Client σ) (id : Nat) (hint : Option Nat) (c' : σ) (ev : Option Nat) (hown : id ∈ s.owned)
      (hp : o.put s.heap s.cache id hint = some (c', .kept ev)) :
      Step o wf .put s ⟨c', s.heap, s.owned.filter (· ≠ id) ++ ev.toList, s.fresh⟩
  /-- `Get`: a returned block is owned by the client from now on -/
  | get (s : Client σ) (k : Int) :
      Step o wf (.get k) s
        ⟨(o.get s.heap s.cache k).1, s.heap, (o.get s.heap s.cache k).2.toList ++ s.owned, s.fresh⟩
  /-- `Drop`, `Resize(n ≥ 1)`, `Free`: any well-formed state holding a subset of the blocks; dropped blocks
  are garbage (neither indexed nor owned) -/
  | shrink (s : Client σ) (c' : σ) (hwf : wf c') (hsub : ∀ e ∈ o.held c', e ∈ o.held s.cache) :
      Step o wf .shrink s ⟨c', s.heap, s.owned, s.fresh⟩

/-- states reachable by steps that satisfy `P` (a restriction on how the client uses the cache) -/
inductive ReachP {σ : Type} (o : CacheOps σ) (wf : σ → Prop) (P : Lab → Client σ → Prop) (init : σ)
    (h0 : Heap) : Client σ → Prop
  | init : ReachP o wf P init h0 ⟨init, h0, [], 0⟩
  | step {lab : Lab} {s t : Client σ} :
      ReachP o wf P init h0 s → Step o wf lab s t → P lab s → ReachP o wf P init h0 t

/-- all reader-style histories -/
abbrev Reach {σ : Type} (o : CacheOps σ) (wf : σ → Prop) (init : σ) (h0 : Heap) : Client σ → Prop :=
  ReachP o wf (fun _ _ => True) init h0

theorem Reach.init {σ : Type} {o : CacheOps σ} {wf : σ → Prop} {init : σ} {h0 : Heap} :
    Reach o wf init h0 ⟨init, h0, [], 0⟩ := ReachP.init

theorem Reach.step {σ : Type} {o : CacheOps σ} {wf : σ → Prop} {init : σ} {h0 : Heap} {lab : Lab}
    {s t : Client σ} (r : Reach o wf init h0 s) (st : Step o wf lab s t) : Reach o wf init h0 t :=
  ReachP.step r st trivial

/-- what reader-style use preserves -/
structure Coherent {σ : Type} (o : CacheOps σ) (wf : σ → Prop) (s : Client σ) : Prop where
  wf : wf s.cache
  /-- an indexed block still has the base it is indexed under -/
  base : ∀ e ∈ o.held s.cache, (s.heap e.id).base = e.key
  /-- the client owns no indexed block -/
  disj : ∀ e ∈ o.held s.cache, e.id ∉ s.owned
  /-- one index entry per block -/
  ids : ∀ a ∈ o.held s.cache, ∀ b ∈ o.held s.cache, a.id = b.id → a = b
  lt_fresh : (∀ e ∈ o.held s.cache, e.id < s.fresh) ∧ ∀ i ∈ s.owned, i < s.fresh

theorem step_coherent {σ : Type} {o : CacheOps σ} {wf : σ → Prop} (c : Contract o wf)
    {lab : Lab} {s t : Client σ} (inv : Coherent o wf s) (st : Step o wf lab s t) : Coherent o wf t := by
  cases st with
  | alloc s b =>
    refine ⟨inv.wf, ?_, ?_, inv.ids, ?_, ?_⟩
    · intro e he
      have := inv.lt_fresh.1 e he
      simp only [setBlk]
      rw [if_neg (by omega)]
      exact inv.base e he
    · intro e he hm
      rcases List.mem_cons.1 hm with h | h
      · have := inv.lt_fresh.1 e he; omega
      · exact inv.disj e he h
    · intro e he; have := inv.lt_fresh.1 e he; simp only; omega
    · intro i hi
      rcases List.mem_cons.1 hi with h | h
      · simp only; omega
      · have := inv.lt_fresh.2 i h; simp only; omega
  | write s id b hown =>
    refine ⟨inv.wf, ?_, inv.disj, inv.ids, inv.lt_fresh⟩
    intro e he
    have : e.id ≠ id := fun h => inv.disj e he (h ▸ hown)
    simp only [setBlk]
    rw [if_neg this]
    exact inv.base e he
  | putRefused s id hint c' hown hp =>
    have hh := c.put_refused _ _ _ _ _ inv.wf hp
    have hw := c.put_wf _ _ _ _ _ _ inv.wf hp
    refine ⟨hw, ?_, ?_, ?_, ?_, inv.lt_fresh.2⟩ <;> simp only [hh]
    · exact inv.base
    · exact inv.disj
    · exact inv.ids
    · exact inv.lt_fresh.1
  | putKept s id hint c' ev hown hp =>
    have hw := c.put_wf _ _ _ _ _ _ inv.wf hp
    obtain ⟨hnk, hk⟩ := c.put_kept _ _ _ _ _ _ inv.wf hp
    have hid_not_held : ∀ e ∈ o.held s.cache, e.id ≠ id := fun e he h => inv.disj e he (h ▸ hown)
    cases ev with
    | none =>
      simp only at hk
      refine ⟨hw, ?_, ?_, ?_, ?_, ?_⟩
      · intro e he
        rcases (hk e).1 he with h | h
        · rw [h]
        · exact inv.base e h
      · intro e he hm
        simp only [Option.toList, List.append_nil, List.mem_filter, decide_eq_true_eq] at hm
        rcases (hk e).1 he with h | h
        · exact hm.2 (by rw [h])
        · exact inv.disj e h hm.1
      · intro a ha b hb hab
        rcases (hk a).1 ha with h1 | h1 <;> rcases (hk b).1 hb with h2 | h2
        · rw [h1, h2]
        · exact absurd (by rw [← hab, h1]) (hid_not_held b h2)
        · exact absurd (by rw [hab, h2]) (hid_not_held a h1)
        · exact inv.ids a h1 b h2 hab
      · intro e he
        rcases (hk e).1 he with h | h
        · rw [h]; exact inv.lt_fresh.2 id hown
        · exact inv.lt_fresh.1 e h
      · intro i hi
        simp only [Option.toList, List.append_nil, List.mem_filter] at hi
        exact inv.lt_fresh.2 i hi.1
    | some v =>
      simp only at hk
      obtain ⟨kv, hv, hk⟩ := hk
      refine ⟨hw, ?_, ?_, ?_, ?_, ?_⟩
      · intro e he
        rcases (hk e).1 he with h | h
        · rw [h]
        · exact inv.base e h.1
      · intro e he hm
        simp only [Option.toList, List.mem_append, List.mem_filter, decide_eq_true_eq,
          List.mem_singleton] at hm
        rcases (hk e).1 he with h | h
        · rcases hm with hm | hm
          · exact hm.2 (by rw [h])
          · exact hid_not_held _ hv (by rw [← hm, h])
        · rcases hm with hm | hm
          · exact inv.disj e h.1 hm.1
          · exact h.2 (inv.ids e h.1 _ hv hm)
      · intro a ha b hb hab
        rcases (hk a).1 ha with h1 | h1 <;> rcases (hk b).1 hb with h2 | h2
        · rw [h1, h2]
        · exact absurd (by rw [← hab, h1]) (hid_not_held b h2.1)
        · exact absurd (by rw [hab, h2]) (hid_not_held a h1.1)
        · exact inv.ids a h1.1 b h2.1 hab
      · intro e he
        rcases (hk e).1 he with h | h
        · rw [h]; exact inv.lt_fresh.2 id hown
        · exact inv.lt_fresh.1 e h.1
      · intro i hi
        simp only [Option.toList, List.mem_append, List.mem_filter, List.mem_singleton] at hi
        rcases hi with hi | hi
        · exact inv.lt_fresh.2 i hi.1
        · rw [hi]; exact inv.lt_fresh.1 _ hv
  | get s k =>
    have hw := c.get_wf s.heap s.cache k inv.wf
    cases hg : o.get s.heap s.cache k with
    | mk c' r =>
      cases r with
      | none =>
        obtain ⟨hh, _⟩ := c.get_miss _ _ _ _ inv.wf hg
        rw [hg] at hw
        simp only [Option.toList, List.nil_append]
        refine ⟨hw, ?_, ?_, ?_, ?_, inv.lt_fresh.2⟩ <;> simp only [hh]
        · exact inv.base
        · exact inv.disj
        · exact inv.ids
        · exact inv.lt_fresh.1
      | some id =>
        obtain ⟨hm, hk⟩ := c.get_hit _ _ _ _ _ inv.wf hg
        rw [hg] at hw
        simp only [Option.toList, List.singleton_append]
        refine ⟨hw, ?_, ?_, ?_, ?_, ?_⟩
        · intro e he; exact inv.base e ((hk e).1 he).1
        · intro e he hmem
          have ⟨h1, h2⟩ := (hk e).1 he
          rcases List.mem_cons.1 hmem with h | h
          · exact h2 (inv.ids e h1 _ hm h)
          · exact inv.disj e h1 h
        · intro a ha b hb hab
          exact inv.ids a ((hk a).1 ha).1 b ((hk b).1 hb).1 hab
        · intro e he; exact inv.lt_fresh.1 e ((hk e).1 he).1
        · intro i hi
          rcases List.mem_cons.1 hi with h | h
          · rw [h]; exact inv.lt_fresh.1 _ hm
          · exact inv.lt_fresh.2 i h
  | shrink s c' hwf hsub =>
    refine ⟨hwf, ?_, ?_, ?_, ?_, inv.lt_fresh.2⟩
    · intro e he; exact inv.base e (hsub e he)
    · intro e he; exact inv.disj e (hsub e he)
    · intro a ha b hb; exact inv.ids a (hsub a ha) b (hsub b hb)
    · intro e he; exact inv.lt_fresh.1 e (hsub e he)

theorem init_coherent {σ : Type} {o : CacheOps σ} {wf : σ → Prop}
    {init : σ} {h0 : Heap} (hwf : wf init) (hempty : o.held init = []) :
    Coherent o wf ⟨init, h0, [], 0⟩ := by
  refine ⟨hwf, ?_, ?_, ?_, ?_, ?_⟩ <;> simp [hempty]

theorem reach_coherent {σ : Type} {o : CacheOps σ} {wf : σ → Prop} (c : Contract o wf)
    {P : Lab → Client σ → Prop} {init : σ} {h0 : Heap} (hwf : wf init) (hempty : o.held init = [])
    {s : Client σ} (r : ReachP o wf P init h0 s) : Coherent o wf s := by
  induction r with
  | init => exact init_coherent hwf hempty
  | step _ st _ ih => exact step_coherent c ih st

/-- in a coherent state `Get` answers with a block of the requested base, and `Peek` answers for a held
block of that base with that block's next base -/
theorem coherent_get_base {σ : Type} {o : CacheOps σ} {wf : σ → Prop} (c : Contract o wf)
    {s : Client σ} (inv : Coherent o wf s) (k : Int) :
    (∀ c' id, o.get s.heap s.cache k = (c', some id) → (s.heap id).base = k) ∧
    (∀ nx, o.peek s.heap s.cache k = (true, nx) →
      ∃ id, (⟨k, id⟩ : Entry) ∈ o.held s.cache ∧ (s.heap id).base = k ∧ nx = (s.heap id).next) := by
  constructor
  · intro c' id hg
    have := (c.get_hit _ _ _ _ _ inv.wf hg).1
    exact inv.base _ this
  · intro nx hp
    obtain ⟨id, hm, hn⟩ := c.peek_hit _ _ _ _ inv.wf hp
    exact ⟨id, hm, inv.base _ hm, hn⟩

/-! ### FIFO: coherent as long as `Get` never hits a block that is `Used()` -/

/-- the restriction under which FIFO behaves: a `Get` finds no block, or one that has not been read from -/
def FifoSafe : Lab → Client LCache → Prop
  | .get k, s => ∀ e, lookup s.cache.items k = some e → (s.heap e.id).used = false
  | _, _ => True

theorem fifo_get_eq_lru {h : Heap} {c : LCache} {k : Int}
    (hs : ∀ e, lookup c.items k = some e → (h e.id).used = false) :
    LCache.get .fifo h c k = LCache.get .lru h c k := by
  unfold LCache.get
  cases hl : lookup c.items k with
  | none => rfl
  | some e => simp [hs e hl]

theorem fifo_step_is_lru_step {lab : Lab} {s t : Client LCache}
    (st : Step fifoOps LCache.WF lab s t) (safe : FifoSafe lab s) : Step lruOps LCache.WF lab s t := by
  cases st with
  | alloc s b => exact Step.alloc s b
  | write s id b hown => exact Step.write s id b hown
  | putRefused s id hint c' hown hp => exact Step.putRefused s id hint c' hown hp
  | putKept s id hint c' ev hown hp => exact Step.putKept s id hint c' ev hown hp
  | get s k =>
    have e : fifoOps.get s.heap s.cache k = lruOps.get s.heap s.cache k := fifo_get_eq_lru safe
    rw [e]
    exact Step.get s k
  | shrink s c' hwf hsub => exact Step.shrink s c' hwf hsub

theorem coherent_fifo_iff_lru (s : Client LCache) :
    Coherent fifoOps LCache.WF s ↔ Coherent lruOps LCache.WF s :=
  ⟨fun h => ⟨h.wf, h.base, h.disj, h.ids, h.lt_fresh⟩, fun h => ⟨h.wf, h.base, h.disj, h.ids, h.lt_fresh⟩⟩

theorem fifo_reach_coherent_partial {n : Int} (hn : 1 ≤ n) {h0 : Heap} {s : Client LCache}
    (r : ReachP fifoOps LCache.WF FifoSafe (LCache.new n) h0 s) : Coherent fifoOps LCache.WF s := by
  induction r with
  | init => exact init_coherent (LCache.wf_new hn) rfl
  | step _ st safe ih =>
    exact (coherent_fifo_iff_lru _).2
      (step_coherent lru_contract ((coherent_fifo_iff_lru _).1 ih) (fifo_step_is_lru_step st safe))

/-! ### FIFO: the same protocol reaches an incoherent state -/

/-- block 0 = (base 0, used, next 100) -/
def w0 : Blk := ⟨0, true, 100⟩
/-- the same buffer recycled for the member at 100 -/
def w1 : Blk := ⟨100, true, 200⟩

def fifoS1 : Client LCache := ⟨LCache.new 1, setBlk (fun _ => default) 0 w0, [0], 1⟩
def fifoS2 : Client LCache := ⟨⟨1, [⟨0, 0⟩]⟩, fifoS1.heap, [], 1⟩
def fifoS3 : Client LCache := ⟨⟨1, [⟨0, 0⟩]⟩, fifoS1.heap, [0], 1⟩
def fifoS4 : Client LCache := ⟨⟨1, [⟨0, 0⟩]⟩, setBlk fifoS1.heap 0 w1, [0], 1⟩

/-- alloc block 0 (base 0, used); Put → retained; Get(0) → block 0, still indexed; Put → refused (key 0
is present); the owner overwrites its block with the member at 100 -/
theorem fifo_witness_reach :
    Reach fifoOps LCache.WF (LCache.new 1) (fun _ => default) fifoS4 := by
  have r0 : Reach fifoOps LCache.WF (LCache.new 1) (fun _ => default) ⟨LCache.new 1, fun _ => default, [], 0⟩ :=
    Reach.init
  have r1 : Reach fifoOps LCache.WF (LCache.new 1) (fun _ => default) fifoS1 :=
    Reach.step r0 (Step.alloc _ w0)
  have r2 : Reach fifoOps LCache.WF (LCache.new 1) (fun _ => default) fifoS2 := by
    have := Step.putKept (o := fifoOps) (wf := LCache.WF) fifoS1 0 none ⟨1, [⟨0, 0⟩]⟩ none (by decide)
      (by decide)
    exact Reach.step r1 this
  have r3 : Reach fifoOps LCache.WF (LCache.new 1) (fun _ => default) fifoS3 := by
    have := Step.get (o := fifoOps) (wf := LCache.WF) fifoS2 0
    have e : (fifoOps.get fifoS2.heap fifoS2.cache 0) = (⟨1, [⟨0, 0⟩]⟩, some 0) := by decide
    rw [e] at this
    exact Reach.step r2 this
  have r3' : Reach fifoOps LCache.WF (LCache.new 1) (fun _ => default) fifoS3 := by
    have := Step.putRefused (o := fifoOps) (wf := LCache.WF) fifoS3 0 none ⟨1, [⟨0, 0⟩]⟩ (by decide)
      (by decide)
    exact Reach.step r3 this
  exact Reach.step r3' (Step.write fifoS3 0 w1 (by decide))

/-- … and now `Get(0)` returns a block whose base is 100 -/
theorem fifo_witness_wrong_base :
    ∃ c' id, fifoOps.get fifoS4.heap fifoS4.cache 0 = (c', some id) ∧ (fifoS4.heap id).base ≠ 0 :=
  ⟨⟨1, [⟨0, 0⟩]⟩, 0, by decide, by decide⟩

end Hts.Spec.CacheContract
