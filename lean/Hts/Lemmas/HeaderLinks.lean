/-
C07 helper lemmas, part 8: the link table of MergeHeaders.
-/
import Hts.Lemmas.HeaderStep
namespace Hts.Model.Header

theorem mergeInit_refs {w : World} {s0 : Nat} (h : s0 < w.hdrs.length) :
    (mergeInit w s0).refs = w.refs.cloneTab s0 ∧ (mergeInit w s0).nextUri = w.nextUri := by
  obtain ⟨f, hf⟩ : ∃ f, w.hdrs[s0]? = some f := ⟨w.hdrs[s0], by simp [h]⟩
  unfold mergeInit cloneHeader
  simp only [hf]
  split <;> exact ⟨rfl, rfl⟩

/-- the link of every reference of every source: owned by the merged header, same name and length -/
def LinksOk (k : KW RefD) (hn : Nat) (srcs : List Nat) (ls : List (List Nat)) : Prop :=
  ls.length = srcs.length ∧
  ∀ (i s : Nat), srcs[i]? = some s → ∃ l, ls[i]? = some l ∧ l.length = (objsOf k s).length ∧
    ∀ (j : Nat) (x : Obj RefD), (objsOf k s)[j]? = some x →
      ∃ (o : Nat) (y : Obj RefD) (t : Tab) (n : Nat), l[j]? = some o ∧ k.heap[o]? = some y ∧
        y.name = x.name ∧ y.dat.len = x.dat.len ∧ y.owner = some hn ∧
        k.tabs[hn]? = some t ∧ y.id = (n : Int) ∧ t.items[n]? = some o

theorem linksOk_of_has {k : KW RefD} (hk : KInv k) {hn : Nat} {srcs : List Nat} {ls : List (List Nat)}
    (hhas : ∀ s ∈ srcs, ∀ x ∈ objsOf k s, Has k hn x.name x.dat.len)
    (hl : mergeLinks k hn srcs = some ls) : LinksOk k hn srcs ls := by
  unfold mergeLinks at hl
  obtain ⟨h1, h2⟩ := mapM_some_get _ _ _ hl
  refine ⟨h1, ?_⟩
  intro i s hi
  obtain ⟨l, hli, hl'⟩ := h2 i s hi
  obtain ⟨h3, h4⟩ := mapM_some_get _ _ _ hl'
  refine ⟨l, hli, h3, ?_⟩
  intro j x hj
  obtain ⟨o, hlo, hlink⟩ := h4 j x hj
  have hs : s ∈ srcs := List.mem_iff_getElem?.2 ⟨i, hi⟩
  have hx : x ∈ objsOf k s := List.mem_iff_getElem?.2 ⟨j, hj⟩
  obtain ⟨o', y, t, n, e1, e2, e3, e4, e5, e6, e7, e8⟩ := linkOf_of_has hk (hhas s hs x hx)
  rw [hlink] at e1; cases e1
  exact ⟨o, y, t, n, hlo, e2, e3, e4, e5, e6, e7, e8⟩

theorem objsOf_cloneTab {k : KW RefD} (hk : KInv k) {s0 s : Nat} {t : Tab} (ht : k.tabs[s0]? = some t)
    (hs : s < k.tabs.length) : objsOf (k.cloneTab s0) s = objsOf k s := by
  obtain ⟨c1, c2, _⟩ := cloneTab_spec hk ht
  unfold objsOf
  rw [c1 s hs]
  split
  · next t' ht' =>
    apply filterMap_congr'
    intro o ho
    obtain ⟨i, hi⟩ := List.mem_iff_getElem?.1 ho
    obtain ⟨y, hy, _⟩ := (hk.tab s t' ht').own i o hi
    rw [c2 o y hy, hy]
  · rfl

/-- MergeHeaders: the sources are unchanged and every source reference is linked to an owned reference of
the same name and length -/
theorem mergeHeaders_links {w w' : World} (hw : WInv w) {srcs : List Nat} {ls : List (List Nat)}
    (hs : ∀ s ∈ srcs, s < w.hdrs.length) (hm : mergeHeaders w srcs = (w', .ok, ls)) :
    LinksOk w'.refs w.hdrs.length srcs ls ∧ ∀ s ∈ srcs, objsOf w'.refs s = objsOf w.refs s := by
  unfold mergeHeaders at hm
  split at hm
  case h_2 => simp at hm
  next s0 s1 ss =>
  dsimp only at hm
  have hs0 : s0 < w.hdrs.length := hs s0 List.mem_cons_self
  obtain ⟨e1, e2⟩ := mergeInit_refs hs0
  rw [e1, e2] at hm
  have hlr := hw.lr
  obtain ⟨t, ht⟩ : ∃ t, w.refs.tabs[s0]? = some t := ⟨w.refs.tabs[s0], by simp [hlr, hs0]⟩
  have hk0 := kinv_cloneTab hw.refs s0
  obtain ⟨c1, c2, c3⟩ := cloneTab_spec hw.refs ht
  rw [hlr] at c3
  generalize hres : mergeSources (w.refs.cloneTab s0) w.nextUri w.hdrs.length (s1 :: ss) = res at hm
  obtain ⟨k, p, r⟩ := res
  cases r
  case ok =>
    dsimp only at hm
    have hne : ∀ s ∈ s0 :: s1 :: ss, s ≠ w.hdrs.length := fun s hs' e => by have := hs s hs'; omega
    obtain ⟨a, b, c⟩ := mergeSources_spec w.hdrs.length (s1 :: ss) _ _ _ _ hk0 (by simp [hlr]) 
      (fun s hs' => hne s (List.mem_cons_of_mem _ hs')) hres
    have hobj : ∀ s ∈ s0 :: s1 :: ss, objsOf k s = objsOf w.refs s := by
      intro s hs'
      rw [objsOf_frame hk0 b (hne s hs'), objsOf_cloneTab hw.refs ht (by rw [hlr]; exact hs s hs')]
    have hhas : ∀ s ∈ s0 :: s1 :: ss, ∀ x ∈ objsOf k s, Has k w.hdrs.length x.name x.dat.len := by
      intro s hs' x hx
      rcases List.mem_cons.1 hs' with rfl | hs''
      · rw [hobj s hs'] at hx
        exact b.keep _ _ (c3 x hx)
      · exact c s hs'' x hx
    split at hm
    · next ls' hls =>
      cases hm
      exact ⟨linksOk_of_has a hhas hls, hobj⟩
    · simp at hm
  all_goals simp at hm

/-- under the invariant the link table is always found (no index out of range in the link loop) -/
theorem mergeLinks_some {k : KW RefD} (hk : KInv k) {hn : Nat} : ∀ (srcs : List Nat),
    (∀ s ∈ srcs, ∀ x ∈ objsOf k s, Has k hn x.name x.dat.len) → ∃ ls, mergeLinks k hn srcs = some ls := by
  have inner : ∀ (xs : List (Obj RefD)), (∀ x ∈ xs, Has k hn x.name x.dat.len) →
      ∃ l, xs.mapM (fun x => linkOf k hn x.name) = some l := by
    intro xs
    induction xs with
    | nil => intro _; exact ⟨[], rfl⟩
    | cons x xs ih =>
      intro h
      obtain ⟨l, hl⟩ := ih (fun y hy => h y (List.mem_cons_of_mem _ hy))
      obtain ⟨o, _, _, _, ho, _⟩ := linkOf_of_has hk (h x List.mem_cons_self)
      exact ⟨o :: l, by rw [List.mapM_cons]; simp [ho, hl]⟩
  intro srcs
  unfold mergeLinks
  induction srcs with
  | nil => intro _; exact ⟨[], rfl⟩
  | cons s ss ih =>
    intro h
    obtain ⟨ls, hls⟩ := ih (fun s' hs' => h s' (List.mem_cons_of_mem _ hs'))
    obtain ⟨l, hl⟩ := inner (objsOf k s) (h s List.mem_cons_self)
    exact ⟨l :: ls, by rw [List.mapM_cons]; simp [hl, hls]⟩

end Hts.Model.Header
