/-
C19 helper lemmas, part 8: invariants of `NewIndex` / `ReadFrom` on ARBITRARY input (not only well-formed files),
and what `Seq`/`SeqRange` guarantee — together they establish the guard under which `Seq.Read` calls
`endOfLineOffset` (`BasesPerLine > 0`, cursor below `Length`), so the integer division by zero is unreachable for
every index this package builds.
-/
import Hts.Lemmas.FaiRead
set_option linter.unusedVariables false
set_option linter.unusedSimpArgs false
namespace Hts.Lemmas.Fai
open Hts.Model.Fai

/-- a record without bases per line is empty -/
def Sane (r : Record) : Prop := r.basesPerLine = 0 → r.length = 0

def SaneState (st : ScanState) : Prop := Sane st.pending ∧ ∀ R ∈ st.idx, Sane R

theorem mem_set (idx : Index) (r x : Record) (h : x ∈ idx.set r) : x = r ∨ x ∈ idx := by
  induction idx with
  | nil => simp [Index.set] at h; exact Or.inl h
  | cons y ys ih =>
    simp only [Index.set] at h
    split at h
    · rcases List.mem_cons.mp h with h | h
      · exact Or.inl h
      · exact Or.inr (List.mem_cons_of_mem _ h)
    · rcases List.mem_cons.mp h with h | h
      · exact Or.inr (h ▸ List.mem_cons_self)
      · rcases ih h with h | h
        · exact Or.inl h
        · exact Or.inr (List.mem_cons_of_mem _ h)

theorem flush_sane (st : ScanState) (h : SaneState st) :
    Sane (flush st).2 ∧ ∀ R ∈ (flush st).1, Sane R := by
  unfold flush
  split
  · refine ⟨by intro _; rfl, ?_⟩
    intro R hR
    rcases mem_set _ _ _ hR with rfl | hR
    · exact h.1
    · exact h.2 R hR
  · exact h

theorem step_sane (st st' : ScanState) (line : Bytes) (h : SaneState st) (hs : step st line = .ok st') :
    SaneState st' := by
  by_cases h1 : trimSpace line = []
  · simp only [step, h1, if_true] at hs
    cases hs; exact h
  · by_cases h2 : trimSpace line = [GT]
    · simp [step, h1, h2] at hs
    · by_cases h3 : (trimSpace line).head? = some GT
      · -- header line
        have hf := flush_sane st h
        simp only [step, h1, h2, h3, if_false, if_true] at hs
        split at hs
        · cases hs
        · cases hs
          exact ⟨hf.1, hf.2⟩
      · -- sequence line: the trimmed line is not empty, so BasesPerLine becomes positive
        simp only [step, h1, h2, h3, if_false] at hs
        split at hs
        · cases hs
        · split at hs
          · cases hs
          · split at hs
            · cases hs
            · cases hs
              refine ⟨?_, h.2⟩
              intro hb
              simp only at hb
              have hlen : (trimSpace line).length ≠ 0 := by
                intro h0
                exact h1 (List.eq_nil_of_length_eq_zero h0)
              split at hb
              · exact absurd hb hlen
              · rename_i hb0; exact absurd hb hb0

theorem scan_sane_aux (n : Nat) :
    ∀ (bs : Bytes) (st st' : ScanState), bs.length ≤ n → SaneState st → scan st bs = .ok st' → SaneState st' := by
  induction n with
  | zero =>
    intro bs st st' hn h hs
    have : bs = [] := List.eq_nil_of_length_eq_zero (Nat.le_zero.mp hn)
    subst this
    rw [scan] at hs
    cases hs; exact h
  | succ n ih =>
    intro bs st st' hn h hs
    cases bs with
    | nil => rw [scan] at hs; cases hs; exact h
    | cons b bs' =>
      rw [scan] at hs
      split at hs
      · cases hs
      · rename_i st1 hst1
        have hlt := takeLine_snd_length_lt b bs'
        exact ih _ st1 st' (by simp only [List.length_cons] at hn hlt; omega) (step_sane st st1 _ h hst1) hs

/-- Every record of every index `NewIndex` returns — for ANY input bytes — has `BasesPerLine > 0` unless it is
empty. -/
theorem newIndex_sane (fasta : Bytes) (idx : Index) (h : newIndex fasta = .ok idx) : ∀ R ∈ idx, Sane R := by
  unfold newIndex at h
  split at h
  · cases h
  · rename_i st hst
    cases h
    have h0 : SaneState {} := ⟨by intro _; rfl, by intro R hR; simp at hR⟩
    exact (flush_sane st (scan_sane_aux fasta.length fasta {} st (Nat.le_refl _) h0 hst)).2

/-- Every record `ReadFrom` accepts — for ANY text — passed `isValid`. -/
theorem readLines_valid (ls : List Bytes) :
    ∀ (seen out : List RawRecord), (∀ r ∈ seen, r.isValid = true) → readLines seen ls = .ok out →
      ∀ r ∈ out, r.isValid = true := by
  induction ls with
  | nil =>
    intro seen out hseen h
    simp only [readLines] at h
    cases h
    intro r hr
    exact hseen r (List.mem_reverse.mp hr)
  | cons l ls ih =>
    intro seen out hseen h
    simp only [readLines] at h
    split at h
    · cases h
    · split at h
      · cases h
      · rename_i fs _ r hr
        apply ih (r :: seen) out _ h
        intro x hx
        rcases List.mem_cons.mp hx with rfl | hx
        · -- parseRecord only returns valid records
          unfold parseRecord at hr
          split at hr
          · split at hr
            · cases hr
            · split at hr
              · split at hr
                · cases hr; assumption
                · cases hr
              · cases hr
          · cases hr
        · exact hseen x hx

theorem readFrom_valid (text : Bytes) (out : List RawRecord) (h : readFrom text = .ok out) :
    ∀ r ∈ out, r.isValid = true :=
  readLines_valid _ [] out (by intro r hr; simp at hr) h

/-- a valid record has bases per line unless it is empty, and no negative field -/
theorem valid_sane (r : RawRecord) (h : r.isValid = true) :
    0 ≤ r.length ∧ 0 ≤ r.start ∧ 0 ≤ r.basesPerLine ∧ r.basesPerLine ≤ r.bytesPerLine ∧
      (r.basesPerLine = 0 → r.length = 0) := by
  unfold RawRecord.isValid at h
  split at h
  · cases h
  · rename_i hn
    refine ⟨by omega, by omega, by omega, by omega, ?_⟩
    intro hb
    simp only [hb, if_true, decide_eq_true_eq] at h
    exact h

/-- what `File.SeqRange` guarantees about the handle it returns -/
theorem seqRange_bounds (idx : Index) (name : Bytes) (s e : Int) (sq : Seq) (h : seqRange idx name s e = .ok sq) :
    sq.cur ≤ sq.stop ∧ sq.stop ≤ sq.rcd.length ∧ idx.lookup name = some sq.rcd := by
  unfold seqRange at h
  split at h
  · cases h
  · split at h
    · cases h
    · split at h
      · cases h
      · rename_i hn r hr hl
        cases h
        simp only
        refine ⟨by omega, by omega, hr⟩

theorem seqWhole_bounds (idx : Index) (name : Bytes) (sq : Seq) (h : seqWhole idx name = .ok sq) :
    sq.cur ≤ sq.stop ∧ sq.stop ≤ sq.rcd.length ∧ idx.lookup name = some sq.rcd := by
  unfold seqWhole at h
  split at h
  · cases h
  · rename_i r hr
    cases h
    exact ⟨Nat.zero_le _, Nat.le_refl _, hr⟩

theorem lookup_mem (idx : Index) (name : Bytes) (R : Record) (h : idx.lookup name = some R) : R ∈ idx := by
  unfold Index.lookup at h
  exact List.mem_of_find?_eq_some h

/-- `Seq.Read` never divides by zero on a handle whose record is sane and whose end is within the record:
whatever the cursor is (any number of earlier calls, any `Reset`). -/
theorem read_no_div (file : Bytes) (sq : Seq) (hs : Sane sq.rcd) (hstop : sq.stop ≤ sq.rcd.length) (k : Nat) :
    (sq.read file k).err ≠ .panicDiv := by
  unfold Seq.read
  split
  · simp
  · split
    · simp
    · rename_i hk hc
      split
      · rename_i hb
        have := hs hb
        omega
      · -- the loop itself never produces panicDiv
        have : ∀ (n : Nat) pos eol endPos stop cur k acc, stop - cur ≤ n →
            (readLoopG file pos eol endPos stop cur k acc).err ≠ .panicDiv := by
          intro n
          induction n with
          | zero =>
            intro pos eol endPos stop cur k acc hn
            rw [readLoopG_ge _ _ _ _ _ _ _ _ (by omega)]; simp
          | succ n ih =>
            intro pos eol endPos stop cur k acc hn
            by_cases hlt : cur < stop
            · rw [readLoopG_lt _ _ _ _ _ _ _ _ hlt]
              split
              · simp
              · split
                · simp
                · split
                  · simp
                  · split
                    · simp
                    · apply ih
                      omega
            · rw [readLoopG_ge _ _ _ _ _ _ _ _ hlt]; simp
        exact this _ _ _ _ _ _ _ _ (Nat.le_refl _)

end Hts.Lemmas.Fai
