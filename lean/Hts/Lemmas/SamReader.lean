/-
sam.Reader: the reader's lines are the lines of the input, for LF and CRLF line ends, with or without
a final newline.  Core only.
-/
import Hts.Lemmas.SamSplit
import Hts.Spec.SamLine
namespace Hts.Model.SamText

/-- a line end: `\r\n` or `\n` -/
def eol (crlf : Bool) : Bytes := if crlf then [13, 10] else [10]

/-- an input made of lines, each with its own kind of line end; the last line end is present only when
`final` is set -/
def joinLines : List (Bytes × Bool) → Bool → Bytes
  | [], _ => []
  | [p], final => if final then p.1 ++ eol p.2 else p.1
  | p :: q :: rest, final => p.1 ++ eol p.2 ++ joinLines (q :: rest) final

theorem readerLines_nil : readerLines [] = [] := by simp [readerLines, splitOn]

theorem readerLines_append (l rest : Bytes) (h : ∀ c ∈ l, c ≠ 10) :
    readerLines (l ++ 10 :: rest) = l :: readerLines rest := by
  unfold readerLines
  simp only
  rw [splitOn_append_sep 10 l rest h]
  have hne := splitOn_ne_nil 10 rest
  cases hs : splitOn 10 rest with
  | nil => exact absurd hs hne
  | cons a as =>
    simp only [List.getLast?_cons_cons]
    split
    · simp [List.dropLast]
    · rfl

theorem readerLines_single (l : Bytes) (h : ∀ c ∈ l, c ≠ 10) (hne : l ≠ []) : readerLines l = [l] := by
  unfold readerLines
  simp only
  rw [splitOn_no_sep 10 l h]
  simp [hne]

theorem stripCR_cr (l : Bytes) : stripCR (l ++ [13]) = l := by
  unfold stripCR; simp

theorem stripCR_id (l : Bytes) (h : l.getLast? ≠ some 13) : stripCR l = l := by
  unfold stripCR; simp [h]

theorem strip_line (l : Bytes) (crlf : Bool) (h10 : ∀ c ∈ l, c ≠ 10) (h13 : l.getLast? ≠ some 13) :
    ∃ l', (∀ rest, l ++ eol crlf ++ rest = l' ++ 10 :: rest) ∧ (∀ c ∈ l', c ≠ 10) ∧ stripCR l' = l := by
  cases crlf with
  | true =>
    refine ⟨l ++ [13], fun rest => by simp [eol], ?_, stripCR_cr l⟩
    intro c hc
    simp only [List.mem_append, List.mem_singleton] at hc
    rcases hc with hc | rfl
    · exact h10 c hc
    · decide
  | false => exact ⟨l, fun rest => by simp [eol], h10, stripCR_id l h13⟩

/-- the lines the reader parses are the lines of the input -/
theorem reader_lines_strip (ls : List (Bytes × Bool)) (final : Bool)
    (hl : ∀ p ∈ ls, (∀ c ∈ p.1, c ≠ 10) ∧ p.1.getLast? ≠ some 13)
    (hlast : final = false → ∀ p, ls.getLast? = some p → p.1 ≠ []) :
    (readerLines (joinLines ls final)).map stripCR = ls.map (·.1) := by
  induction ls with
  | nil => simp [joinLines, readerLines_nil]
  | cons p rest ih =>
    obtain ⟨h10, h13⟩ := hl p List.mem_cons_self
    obtain ⟨l', hl', hl'10, hstrip⟩ := strip_line p.1 p.2 h10 h13
    cases rest with
    | nil =>
      cases final with
      | true =>
        simp only [joinLines, if_true]
        have := hl' []
        simp only [List.append_nil] at this
        rw [this, readerLines_append l' [] hl'10, readerLines_nil]
        simp [hstrip]
      | false =>
        simp only [joinLines, Bool.false_eq_true, if_false]
        have hne := hlast rfl p (by simp)
        rw [readerLines_single p.1 h10 hne]
        simp [stripCR_id p.1 h13]
    | cons q rest =>
      simp only [joinLines]
      rw [hl', readerLines_append l' _ hl'10]
      simp only [List.map_cons, hstrip]
      rw [ih (fun x hx => hl x (List.mem_cons_of_mem _ hx)) (fun hf x hx => hlast hf x (by
        simpa [List.getLast?_cons_cons] using hx))]
      rfl

/-! ### NewReader: header lines -/

theorem takeLine_append (l rest : Bytes) (h : ∀ c ∈ l, c ≠ 10) : takeLine (l ++ 10 :: rest) = some (l, rest) := by
  induction l with
  | nil => simp [takeLine]
  | cons c l ih =>
    have hc : c ≠ 10 := h c List.mem_cons_self
    simp only [List.cons_append, takeLine, hc, if_false, ih (fun d hd => h d (List.mem_cons_of_mem _ hd))]
    rfl

/-- the text of header lines: each starts with `@`, contains no newline, and is newline-terminated -/
def headerText (hls : List Bytes) : Bytes := hls.flatMap (· ++ [10])

/-- NewReader's split: the header lines go to the header parser, the rest is the record lines -/
theorem splitHeader_spec (hls : List Bytes) (body : Bytes)
    (hl : ∀ l ∈ hls, (∃ rest, l = 64 :: rest) ∧ ∀ c ∈ l, c ≠ 10)
    (hb : ∀ c rest, body = c :: rest → c ≠ 64) : ∀ (fuel : Nat) (acc : Bytes), hls.length < fuel →
    (hls = [] → body = [] → acc ≠ []) →
    splitHeader fuel acc (headerText hls ++ body) = some (acc ++ headerText hls, body) := by
  induction hls with
  | nil =>
    intro fuel acc hf hacc
    cases fuel with
    | zero => omega
    | succ fuel =>
      simp only [headerText, List.flatMap_nil, List.nil_append, List.append_nil, splitHeader]
      cases body with
      | nil =>
        have := hacc rfl rfl
        cases acc with
        | nil => exact absurd rfl this
        | cons a as => simp
      | cons c rest =>
        have := hb c rest rfl
        simp [this]
  | cons l ls ih =>
    intro fuel acc hf _
    cases fuel with
    | zero => omega
    | succ fuel =>
      obtain ⟨⟨lr, hlr⟩, h10⟩ := hl l List.mem_cons_self
      have htxt : headerText (l :: ls) ++ body = l ++ 10 :: (headerText ls ++ body) := by
        simp [headerText]
      have hhead : l ++ 10 :: (headerText ls ++ body) = 64 :: (lr ++ 10 :: (headerText ls ++ body)) := by
        rw [hlr]; rfl
      have ht : takeLine (64 :: (lr ++ 10 :: (headerText ls ++ body))) = some (l, headerText ls ++ body) := by
        rw [← hhead]; exact takeLine_append l _ h10
      rw [htxt, hhead, splitHeader]
      simp only [ne_eq, not_true_eq_false, if_false, ht]
      rw [ih (fun x hx => hl x (List.mem_cons_of_mem _ hx)) fuel (acc ++ l ++ [10]) (by simp at hf; omega)
        (fun _ _ => by simp)]
      simp [headerText]

/-! ### the reader's lines are the specification's lines, for every input -/

open Hts.Spec.SamLine (dropCR linesFrom textLines)

theorem dropCR_eq_stripCR : ∀ l : Bytes, dropCR l = stripCR l
  | [] => by simp [dropCR, stripCR]
  | [c] => by
    by_cases h : c = 13 <;> simp [dropCR, stripCR, h]
  | c :: d :: rest => by
    have ih := dropCR_eq_stripCR (d :: rest)
    simp only [dropCR, ih, stripCR, List.getLast?_cons_cons]
    split <;> simp [List.dropLast]

theorem linesFrom_spec : ∀ (s cur : Bytes), (∀ c ∈ cur, c ≠ 10) →
    linesFrom s cur = (readerLines (cur ++ s)).map stripCR := by
  intro s
  induction s with
  | nil =>
    intro cur hc
    simp only [linesFrom, List.append_nil]
    cases cur with
    | nil => simp [readerLines_nil]
    | cons x xs => simp [readerLines_single (x :: xs) hc (by simp), dropCR_eq_stripCR]
  | cons c rest ih =>
    intro cur hc
    simp only [linesFrom]
    by_cases h : c = 10
    · subst h
      simp only [if_true, readerLines_append cur rest hc, List.map_cons, dropCR_eq_stripCR]
      rw [ih [] (by simp)]
      simp
    · simp only [h, if_false]
      rw [ih (cur ++ [c]) (by
        intro x hx
        simp only [List.mem_append, List.mem_singleton] at hx
        rcases hx with hx | rfl
        · exact hc x hx
        · exact h)]
      simp

/-- the lines the reader parses are the lines of the text, for every input -/
theorem readerLines_textLines (input : Bytes) : (readerLines input).map stripCR = textLines input := by
  unfold textLines
  rw [linesFrom_spec input [] (by simp)]
  simp

end Hts.Model.SamText
