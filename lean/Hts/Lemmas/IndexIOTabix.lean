/-
Round trip of the tabix serialisation: header fields, the NUL-separated name block, then the shared
`internal` index body (Hts.Lemmas.IndexIO).
-/
import Hts.Lemmas.IndexIO
namespace Hts.Model.IndexIO
open Hts.Model.Index Hts.Model.Tabix

/-! ### the name block -/

def nameBlock (names : List Name) : Bytes := names.flatMap (fun nm => nm ++ [0])

theorem nameBlock_length (names : List Name) (acc : Int) :
    names.foldl (fun n nm => n + ((nm.length : Int) + 1)) acc = acc + ((nameBlock names).length : Int) := by
  induction names generalizing acc with
  | nil => simp [nameBlock]
  | cons a as ih =>
    simp only [List.foldl_cons, ih, nameBlock, List.flatMap_cons, List.length_append, List.length_cons,
      List.length_nil]
    unfold nameBlock at ih
    omega

theorem splitNul_ne_nil (bs : Bytes) : splitNul bs ≠ [] := by
  induction bs with
  | nil => simp [splitNul]
  | cons b bs ih =>
    unfold splitNul
    split
    · simp
    · cases h : splitNul bs <;> simp

/-- a name without NUL bytes in front of anything -/
theorem splitNul_append (nm : Name) (h : ∀ b, b ∈ nm → b ≠ 0) (rest : Bytes) :
    splitNul (nm ++ rest) = match splitNul rest with
      | [] => [nm]
      | w :: ws => (nm ++ w) :: ws := by
  induction nm with
  | nil =>
    cases hs : splitNul rest with
    | nil => exact absurd hs (splitNul_ne_nil rest)
    | cons w ws => simp [hs]
  | cons b bs ih =>
    have hb : b ≠ 0 := h b List.mem_cons_self
    have ih' := ih (fun x hx => h x (List.mem_cons_of_mem _ hx))
    simp only [List.cons_append, splitNul, hb, if_false]
    rw [ih']
    cases hs : splitNul rest <;> simp

theorem nameBlock_ne_nil (names : List Name) (h : names ≠ []) : nameBlock names ≠ [] := by
  cases names with
  | nil => exact absurd rfl h
  | cons a as => simp [nameBlock]

theorem nameBlock_getLast (names : List Name) (h : names ≠ []) : (nameBlock names).getLast? = some 0 := by
  induction names with
  | nil => exact absurd rfl h
  | cons a as ih =>
    cases as with
    | nil => simp [nameBlock]
    | cons b bs =>
      have hne : nameBlock (b :: bs) ≠ [] := nameBlock_ne_nil _ (by simp)
      have : nameBlock (a :: b :: bs) = (a ++ [0]) ++ nameBlock (b :: bs) := by simp [nameBlock]
      rw [this, List.getLast?_append, ih (by simp)]
      rfl

/-- splitting the block without its final NUL gives the names back -/
theorem splitNul_nameBlock (names : List Name) (h : names ≠ []) (hn : ∀ nm, nm ∈ names → ∀ b, b ∈ nm → b ≠ 0) :
    splitNul (nameBlock names).dropLast = names := by
  induction names with
  | nil => exact absurd rfl h
  | cons a as ih =>
    have ha := hn a List.mem_cons_self
    cases as with
    | nil =>
      have : (nameBlock [a]).dropLast = a ++ [] := by simp [nameBlock]
      rw [this, splitNul_append a ha]
      simp [splitNul]
    | cons b bs =>
      have hne : nameBlock (b :: bs) ≠ [] := nameBlock_ne_nil _ (by simp)
      have e : nameBlock (a :: b :: bs) = a ++ ([0] ++ nameBlock (b :: bs)) := by simp [nameBlock]
      rw [e, List.dropLast_append_of_ne_nil (by simp), List.dropLast_append_of_ne_nil hne]
      rw [splitNul_append a ha]
      have ih' := ih (by simp) (fun nm hnm => hn nm (List.mem_cons_of_mem _ hnm))
      simp only [List.singleton_append, splitNul, if_true]
      rw [ih']
      simp

/-! ### header -/

/-- what the tabix header can store -/
structure HeaderOK (h : Header) (names : List Name) : Prop where
  format : h.format < 256
  nameCol : -2147483648 ≤ h.nameCol ∧ h.nameCol < 2147483648
  begCol : -2147483648 ≤ h.begCol ∧ h.begCol < 2147483648
  endCol : -2147483648 ≤ h.endCol ∧ h.endCol < 2147483648
  metaChar : -2147483648 ≤ h.metaChar ∧ h.metaChar < 2147483648
  skip : -2147483648 ≤ h.skip ∧ h.skip < 2147483648
  namesLen : (nameBlock names).length < 2147483648
  noNul : ∀ nm, nm ∈ names → ∀ b, b ∈ nm → b ≠ 0

theorem rBytes_append (a rest : Bytes) : rBytes a.length (a ++ rest) = .ok (a, rest) := by
  unfold rBytes
  simp

theorem rTabixHeader_w (h : Header) (names : List Name) (ok : HeaderOK h names) (rest : Bytes) :
    rTabixHeader (wTabixHeader h names ++ rest) = .ok ((h, names), rest) := by
  unfold rTabixHeader wTabixHeader
  have hlen := nameBlock_length names 0
  simp only [Int.zero_add] at hlen
  have hfmt : -2147483648 ≤ (h.format : Int) + (if h.zeroBased then 65536 else 0) ∧
      (h.format : Int) + (if h.zeroBased then 65536 else 0) < 2147483648 := by
    have := ok.format; split <;> omega
  simp only [List.append_assoc]
  rw [rI32_i32 _ hfmt.1 hfmt.2]; simp only
  rw [rI32_i32 _ ok.nameCol.1 ok.nameCol.2]; simp only
  rw [rI32_i32 _ ok.begCol.1 ok.begCol.2]; simp only
  rw [rI32_i32 _ ok.endCol.1 ok.endCol.2]; simp only
  rw [rI32_i32 _ ok.metaChar.1 ok.metaChar.2]; simp only
  rw [rI32_i32 _ ok.skip.1 ok.skip.2]; simp only
  rw [hlen, rI32_i32 _ (by omega) (by have := ok.namesLen; omega)]
  simp only
  have hn0 : ¬ (((nameBlock names).length : Int) < 0) := by omega
  simp only [hn0, if_false, Int.toNat_natCast]
  have hf := ok.format
  have e1 : (((h.format : Int) + (if h.zeroBased then 65536 else 0)) % 256).toNat = h.format := by
    split <;> omega
  have e2 : decide ((((h.format : Int) + (if h.zeroBased then 65536 else 0)) / 65536) % 2 = 1) = h.zeroBased := by
    cases h.zeroBased <;> simp <;> omega
  by_cases hne : names = []
  · subst hne
    simp only [nameBlock, List.flatMap_nil, List.length_nil, Int.natCast_zero, if_true, List.nil_append]
    rw [e1, e2]
  · have hpos : ¬ (((nameBlock names).length : Int) = 0) := by
      have := nameBlock_ne_nil names hne
      have : (nameBlock names).length ≠ 0 := fun h0 => this (List.eq_nil_of_length_eq_zero h0)
      omega
    simp only [hpos, if_false]
    have hb : names.flatMap (fun nm => nm ++ [0]) = nameBlock names := rfl
    rw [hb, rBytes_append]
    simp only [nameBlock_getLast names hne, ne_eq, not_true_eq_false, if_false]
    rw [splitNul_nameBlock names hne ok.noNul]
    rw [e1, e2]

/-! ### the whole file -/

/-- a tabix index the format can represent -/
structure TWF (t : TIndex) : Prop where
  idx : WF t.idx
  hdr : HeaderOK t.hdr t.names
  count : t.names.length = t.idx.refs.length

/-- `read_write` for tabix (also for an index without references and names) -/
theorem readTabix_writeTabix (t : TIndex) (h : TWF t) : readTabix (writeTabix t) = .ok (normTabix t) := by
  unfold readTabix writeTabix
  have hm : rBytes 4 (tbiMagic ++ i32 (t.idx.refs.length : Int) ++ wTabixHeader t.hdr t.names ++ wIndex t.idx) =
      .ok (tbiMagic, i32 (t.idx.refs.length : Int) ++ (wTabixHeader t.hdr t.names ++ wIndex t.idx)) := by
    simp [rBytes, tbiMagic]
  rw [hm]
  simp only [ne_eq, not_true_eq_false, if_false]
  have hn := h.idx.nrefs
  rw [rI32_i32 _ (by omega) (by omega)]
  simp only
  rw [rTabixHeader_w t.hdr t.names h.hdr]
  simp only
  have hc : ¬ ((t.names.length : Int) ≠ (t.idx.refs.length : Int)) := by rw [h.count]; simp
  simp only [hc, if_false]
  rw [rIndex_wIndex t.idx h.idx]
  rfl

theorem writeTabix_norm (t : TIndex) : writeTabix (normTabix t) = writeTabix t := by
  unfold writeTabix normTabix
  simp only [wIndex_norm, norm_refs_length]

end Hts.Model.IndexIO
