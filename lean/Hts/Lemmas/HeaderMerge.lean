/-
C07 helper lemmas, part 6: MergeHeaders keeps the invariant; every source reference is linked to a
reference the merged header owns, with the same name and length.
-/
import Hts.Lemmas.HeaderParse
namespace Hts.Model.Header

theorem mapM_some_get {β γ : Type} (f : β → Option γ) : ∀ (l : List β) (r : List γ), l.mapM f = some r →
    r.length = l.length ∧ ∀ (j : Nat) (a : β), l[j]? = some a → ∃ b, r[j]? = some b ∧ f a = some b := by
  intro l
  induction l with
  | nil => intro r h; simp at h; subst h; simp
  | cons a l ih =>
    intro r h
    rw [List.mapM_cons] at h
    cases hfa : f a with
    | none => simp [hfa] at h
    | some b =>
      cases hl : l.mapM f with
      | none => simp [hfa, hl] at h
      | some bs =>
        simp [hfa, hl] at h; subst h
        obtain ⟨h1, h2⟩ := ih bs hl
        refine ⟨by simp [h1], ?_⟩
        intro j a' hj
        cases j with
        | zero => simp at hj; subst hj; exact ⟨b, by simp, hfa⟩
        | succ j => simp at hj; simpa using h2 j a' hj

theorem filterMap_congr' {β γ : Type} (f g : β → Option γ) : ∀ (l : List β), (∀ a ∈ l, f a = g a) →
    l.filterMap f = l.filterMap g := by
  intro l
  induction l with
  | nil => intro _; rfl
  | cons a l ih =>
    intro h
    simp only [List.filterMap_cons, h a List.mem_cons_self]
    rw [ih (fun a' ha' => h a' (List.mem_cons_of_mem _ ha'))]

theorem equalRefs_name_len {a b : Obj RefD} (h : equalRefs false a b = true) :
    a.name = b.name ∧ a.dat.len = b.dat.len := by
  unfold equalRefs at h
  simp only [Bool.false_eq_true, if_false] at h
  split at h
  · cases h
  · next hc =>
    simp only [not_or] at hc
    exact ⟨Decidable.not_not.1 hc.2.1, Decidable.not_not.1 hc.2.2.1⟩

/-- the header `hn` lists a reference of this name and length -/
def Has (k : KW RefD) (hn : Nat) (n : Bytes) (l : Int) : Prop :=
  ∃ (t : Tab) (i o : Nat) (y : Obj RefD), k.tabs[hn]? = some t ∧ t.items[i]? = some o ∧ k.heap[o]? = some y ∧
    y.name = n ∧ y.dat.len = l

/-- what a successful AddReference of a free reference does -/
theorem addReference_ok_cases {k k' : KW RefD} {h o : Nat} {r : Obj RefD} {t : Tab} (hk : KInv k)
    (hr : k.heap[o]? = some r) (hfree : r.owner = none) (ht : k.tabs[h]? = some t)
    (he : addReference k h o = (k', .ok)) :
    (∃ (i eo : Nat) (er : Obj RefD), t.items[i]? = some eo ∧ k.heap[eo]? = some er ∧ er.name = r.name ∧
        er.dat.len = r.dat.len ∧ (k' = k ∨ k' = k.replace h (i : Int) eo o (inherit r.dat er.dat))) ∨
    (lookup t.seen r.name = none ∧ k' = k.addNewU h o) := by
  have T := hk.tab h t ht
  unfold addReference at he
  simp only [hr, ht] at he
  split at he
  · next dupID hl =>
    obtain ⟨eo, hidx⟩ := T.lookup_idx hl
    obtain ⟨i, er, hv, hi, her, hn, _⟩ := T.lookup_item hl hidx
    simp only [hidx, her] at he
    have hne : (eo == o) = false := by
      have : eo ≠ o := fun e => hk.free_unlisted hr hfree ht (e ▸ hi)
      simpa using this
    rw [hne] at he
    left
    split at he
    · next heq =>
      have := equalRefs_name_len heq
      cases he
      exact ⟨i, eo, er, hi, her, this.1, this.2, Or.inl rfl⟩
    · split at he
      · cases he
      · next hbare =>
        split at he
        · cases he
        · cases he
          have := equalRefs_name_len (by simpa using hbare)
          simp only [bareRef] at this
          subst hv
          exact ⟨i, eo, er, hi, her, this.1.symm, this.2.symm, Or.inr rfl⟩
  · next hl =>
    right
    unfold KW.addNew at he
    simp only [hr] at he
    split at he
    · cases he
    · cases he; exact ⟨hl, rfl⟩

theorem replace_heap {α : Type} {k : KW α} {h eo o : Nat} {s : Int} {r er : Obj α} {t : Tab} (d : α)
    (hr : k.heap[o]? = some r) (her : k.heap[eo]? = some er) (ht : k.tabs[h]? = some t) (hne : o ≠ eo) (q : Nat) :
    (k.replace h s eo o d).heap[q]? =
      if eo = q then some { er with owner := none, id := -1 }
      else if o = q then some { r with owner := some h, id := s, dat := d } else k.heap[q]? := by
  have her1 : (k.heap.set o { r with owner := some h, id := s, dat := d })[eo]? = some er := by
    rw [set_get _ _ _ _ _ hr]; simp only [hne, if_false]; exact her
  simp only [KW.replace, hr, her, ht]
  rw [set_get _ _ _ _ _ her1, set_get _ _ _ _ _ hr]

theorem replace_tabs {α : Type} {k : KW α} {h eo o : Nat} {s : Int} {r er : Obj α} {t : Tab} (d : α)
    (hr : k.heap[o]? = some r) (her : k.heap[eo]? = some er) (ht : k.tabs[h]? = some t) (h' : Nat) :
    (k.replace h s eo o d).tabs[h']? =
      if h = h' then some { t with items := t.items.set s.toNat o } else k.tabs[h']? := by
  simp only [KW.replace, hr, her, ht]
  rw [set_get _ _ _ _ _ ht]

theorem addNewU_heap {α : Type} {k : KW α} {h o : Nat} {x : Obj α} {t : Tab}
    (hx : k.heap[o]? = some x) (ht : k.tabs[h]? = some t) (q : Nat) :
    (k.addNewU h o).heap[q]? =
      if o = q then some { x with owner := some h, id := (t.items.length : Int) } else k.heap[q]? := by
  simp only [KW.addNewU, hx, ht]; rw [set_get _ _ _ _ _ hx]

theorem addNewU_tabs {α : Type} {k : KW α} {h o : Nat} {x : Obj α} {t : Tab}
    (hx : k.heap[o]? = some x) (ht : k.tabs[h]? = some t) (h' : Nat) :
    (k.addNewU h o).tabs[h']? =
      if h = h' then some { items := t.items ++ [o], seen := insert t.seen x.name (t.items.length : Int) }
      else k.tabs[h']? := by
  simp only [KW.addNewU, hx, ht]; rw [set_get _ _ _ _ _ ht]

/-- what the merge loop may change: only the merged header `hn`, which keeps what it has -/
structure MergeRel (k k' : KW RefD) (hn : Nat) : Prop where
  len : k'.tabs.length = k.tabs.length
  /-- tables of other headers are untouched -/
  tabs : ∀ (s : Nat), s ≠ hn → k'.tabs[s]? = k.tabs[s]?
  /-- objects owned by other headers are untouched -/
  heap : ∀ (q : Nat) (y : Obj RefD) (s : Nat), k.heap[q]? = some y → y.owner = some s → s ≠ hn → k'.heap[q]? = some y
  /-- what `hn` had it still has -/
  keep : ∀ (n : Bytes) (l : Int), Has k hn n l → Has k' hn n l

theorem MergeRel.refl (k : KW RefD) (hn : Nat) : MergeRel k k hn :=
  ⟨rfl, fun _ _ => rfl, fun _ _ _ h _ _ => h, fun _ _ h => h⟩

theorem MergeRel.trans {k k' k'' : KW RefD} {hn : Nat} (a : MergeRel k k' hn) (b : MergeRel k' k'' hn) :
    MergeRel k k'' hn :=
  ⟨b.len.trans a.len, fun s hs => (b.tabs s hs).trans (a.tabs s hs),
    fun q y s hy ho hs => b.heap q y s (a.heap q y s hy ho hs) ho hs, fun n l h => b.keep n l (a.keep n l h)⟩

theorem inherit_len (r er : RefD) : (inherit r er).len = r.len := rfl

/-- one step of the merge loop: a free object `o` (new with respect to `k`) is added to `hn` -/
theorem mergeStep_core {k k1 k2 : KW RefD} {o hn : Nat} {t : Tab} {x : Obj RefD}
    (hk1 : KInv k1) (htabs : k1.tabs = k.tabs)
    (hold : ∀ (q : Nat) (y : Obj RefD), k.heap[q]? = some y → k1.heap[q]? = some y ∧ o ≠ q)
    (ho : k1.heap[o]? = some x) (hfree : x.owner = none) (ht : k.tabs[hn]? = some t)
    (he : addReference k1 hn o = (k2, .ok)) :
    KInv k2 ∧ MergeRel k k2 hn ∧ Has k2 hn x.name x.dat.len := by
  have hinv : KInv k2 := by have := kinv_addReference hk1 hn o; rw [he] at this; exact this
  have hlen : k2.tabs.length = k.tabs.length := by
    have := addReference_tabs_len k1 hn o; rw [he, htabs] at this; exact this
  have ht1 : k1.tabs[hn]? = some t := by rw [htabs]; exact ht
  have T1 := hk1.tab hn t ht1
  refine ⟨hinv, ?_⟩
  rcases addReference_ok_cases hk1 ho hfree ht1 he with ⟨i, eo, er, hi, her, hn', hl, hk2 | hk2⟩ | ⟨hnew, hk2⟩
  · -- equal: nothing changes
    subst hk2
    refine ⟨⟨hlen, fun s _ => by rw [htabs], fun q y s hy _ _ => (hold q y hy).1, ?_⟩, ?_⟩
    · rintro n l ⟨t', i', o', y, h1, h2, h3, h4, h5⟩
      exact ⟨t', i', o', y, by rw [htabs]; exact h1, h2, (hold o' y h3).1, h4, h5⟩
    · exact ⟨t, i, eo, er, ht1, hi, her, hn', hl⟩
  · -- replacement
    have hne : o ≠ eo := fun e => hk1.free_unlisted ho hfree ht1 (e ▸ hi)
    have hown := (T1.listed hi her).1
    subst hk2
    have hnew : Has (k1.replace hn (i : Int) eo o (inherit x.dat er.dat)) hn x.name x.dat.len := by
      refine ⟨_, i, o, { x with owner := some hn, id := (i : Int), dat := inherit x.dat er.dat },
        by rw [replace_tabs _ ho her ht1]; exact if_pos rfl, ?_, ?_, rfl, rfl⟩
      · show (t.items.set ((i : Int).toNat) o)[i]? = some o
        rw [Int.toNat_natCast, set_get _ _ _ _ _ hi]; exact if_pos rfl
      · rw [replace_heap _ ho her ht1 hne]; simp only [hne.symm, if_false, if_true]
    refine ⟨⟨hlen, ?_, ?_, ?_⟩, hnew⟩
    · intro s hs
      rw [replace_tabs _ ho her ht1, if_neg (fun e => hs (Eq.symm e)), htabs]
    · intro q y s hy hys hs
      rw [replace_heap _ ho her ht1 hne]
      have h1 : eo ≠ q := by
        intro e; subst e
        rw [(hold eo y hy).1] at her; cases her
        rw [hown] at hys; cases hys; exact hs rfl
      simp only [h1, (hold q y hy).2, if_false]; exact (hold q y hy).1
    · rintro n l ⟨t', i', o', y, h1, h2, h3, h4, h5⟩
      rw [ht] at h1; cases h1
      by_cases e : i = i'
      · subst e; rw [hi] at h2; cases h2
        rw [(hold eo y h3).1] at her; cases her
        rw [← h4, ← h5, hn', hl]; exact hnew
      · refine ⟨_, i', o', y, by rw [replace_tabs _ ho her ht1]; exact if_pos rfl, ?_, ?_, h4, h5⟩
        · show (t.items.set ((i : Int).toNat) o)[i']? = some o'
          rw [Int.toNat_natCast, set_get _ _ _ _ _ hi]; simp only [e, if_false]; exact h2
        · rw [replace_heap _ ho her ht1 hne]
          have h6 : eo ≠ o' := fun e' => e (T1.inj hi (e' ▸ h2))
          simp only [h6, (hold o' y h3).2, if_false]; exact (hold o' y h3).1
  · -- a new name
    subst hk2
    refine ⟨⟨hlen, ?_, ?_, ?_⟩, ?_⟩
    · intro s hs
      rw [addNewU_tabs ho ht1, if_neg (fun e => hs (Eq.symm e)), htabs]
    · intro q y s hy _ _
      rw [addNewU_heap ho ht1]; simp only [(hold q y hy).2, if_false]; exact (hold q y hy).1
    · rintro n l ⟨t', i', o', y, h1, h2, h3, h4, h5⟩
      rw [ht] at h1; cases h1
      refine ⟨_, i', o', y, by rw [addNewU_tabs ho ht1]; exact if_pos rfl, ?_, ?_, h4, h5⟩
      · simp only [snoc_get, get_lt h2, if_true]; exact h2
      · rw [addNewU_heap ho ht1]; simp only [(hold o' y h3).2, if_false]; exact (hold o' y h3).1
    · refine ⟨_, t.items.length, o, { x with owner := some hn, id := (t.items.length : Int) },
        by rw [addNewU_tabs ho ht1]; exact if_pos rfl, by simp, ?_, rfl, rfl⟩
      rw [addNewU_heap ho ht1]; exact if_pos rfl

theorem freshUri_len (p : Nat) (d : RefD) : (freshUri p d).len = d.len := rfl

theorem tab_exists {k : KW RefD} {hn : Nat} (h : hn < k.tabs.length) : ∃ t, k.tabs[hn]? = some t :=
  ⟨k.tabs[hn], by simp [h]⟩

theorem mergeAdd_spec (hn : Nat) : ∀ (xs : List (Obj RefD)) (k : KW RefD) (p : Nat) (k' : KW RefD) (p' : Nat),
    KInv k → hn < k.tabs.length → mergeAdd k p hn xs = (k', p', .ok) →
    KInv k' ∧ MergeRel k k' hn ∧ ∀ x ∈ xs, Has k' hn x.name x.dat.len := by
  intro xs
  induction xs with
  | nil =>
    intro k p k' p' hk _ he
    simp only [mergeAdd] at he; cases he
    exact ⟨hk, MergeRel.refl _ _, fun x hx => by cases hx⟩
  | cons x xs ih =>
    intro k p k' p' hk hlt he
    obtain ⟨t, ht⟩ := tab_exists hlt
    rw [mergeAdd] at he
    dsimp only at he
    generalize he2 : addReference _ hn _ = res at he
    obtain ⟨k2, r⟩ := res
    cases r
    case ok =>
      dsimp only at he
      have hk1 := kinv_alloc hk { x with owner := none, id := -1, dat := freshUri p x.dat } rfl
      obtain ⟨a, b, c⟩ := mergeStep_core (k := k) hk1 rfl
        (fun q y hy => ⟨alloc_old k _ hy, by have := get_lt hy; simp only [KW.alloc]; omega⟩)
        (alloc_heap k _) rfl ht he2
      obtain ⟨a', b', c'⟩ := ih k2 (p + 1) k' p' a (by rw [b.len]; exact hlt) he
      refine ⟨a', b.trans b', ?_⟩
      intro y hy
      rcases List.mem_cons.1 hy with rfl | hy
      · exact b'.keep _ _ c
      · exact c' y hy
    all_goals (simp at he)

theorem objsOf_frame {k k' : KW RefD} {hn s : Nat} (hk : KInv k) (m : MergeRel k k' hn) (hs : s ≠ hn) :
    objsOf k' s = objsOf k s := by
  unfold objsOf
  rw [m.tabs s hs]
  split
  · next t ht =>
    apply filterMap_congr'
    intro o ho
    obtain ⟨i, hi⟩ := List.mem_iff_getElem?.1 ho
    obtain ⟨y, hy, hown, _⟩ := (hk.tab s t ht).own i o hi
    rw [m.heap o y s hy hown hs, hy]
  · rfl

theorem mergeSources_spec (hn : Nat) : ∀ (ss : List Nat) (k : KW RefD) (p : Nat) (k' : KW RefD) (p' : Nat),
    KInv k → hn < k.tabs.length → (∀ s ∈ ss, s ≠ hn) → mergeSources k p hn ss = (k', p', .ok) →
    KInv k' ∧ MergeRel k k' hn ∧ ∀ s ∈ ss, ∀ x ∈ objsOf k' s, Has k' hn x.name x.dat.len := by
  intro ss
  induction ss with
  | nil =>
    intro k p k' p' hk _ _ he
    simp only [mergeSources] at he; cases he
    exact ⟨hk, MergeRel.refl _ _, fun s hs => by cases hs⟩
  | cons s ss ih =>
    intro k p k' p' hk hlt hne he
    rw [mergeSources] at he
    generalize he1 : mergeAdd k p hn (objsOf k s) = res at he
    obtain ⟨k1, p1, r⟩ := res
    cases r
    case ok =>
      dsimp only at he
      obtain ⟨a, b, c⟩ := mergeAdd_spec hn _ k p k1 p1 hk hlt he1
      obtain ⟨a', b', c'⟩ := ih k1 p1 k' p' a (by rw [b.len]; exact hlt)
        (fun s' hs' => hne s' (List.mem_cons_of_mem _ hs')) he
      refine ⟨a', b.trans b', ?_⟩
      intro s' hs' x hx
      rcases List.mem_cons.1 hs' with rfl | hs'
      · have e1 : objsOf k' s' = objsOf k1 s' := objsOf_frame a b' (hne s' List.mem_cons_self)
        have e2 : objsOf k1 s' = objsOf k s' := objsOf_frame hk b (hne s' List.mem_cons_self)
        rw [e1, e2] at hx
        exact b'.keep _ _ (c x hx)
      · exact c' s' hs' x hx
    all_goals (simp at he)

/-- a listed name is found by `linkOf`, at an owned reference of that name -/
theorem linkOf_of_has {k : KW RefD} (hk : KInv k) {hn : Nat} {n : Bytes} {l : Int} (h : Has k hn n l) :
    ∃ (o : Nat) (y : Obj RefD) (t : Tab) (i : Nat), linkOf k hn n = some o ∧ k.heap[o]? = some y ∧ y.name = n ∧
      y.dat.len = l ∧ y.owner = some hn ∧ k.tabs[hn]? = some t ∧ y.id = (i : Int) ∧ t.items[i]? = some o := by
  obtain ⟨t, i, o, y, ht, hi, hy, hn', hl⟩ := h
  have T := hk.tab hn t ht
  have hkn := T.known i o y hi hy
  have hlst := T.listed hi hy
  refine ⟨o, y, t, i, ?_, hy, hn', hl, hlst.1, ht, hlst.2, hi⟩
  unfold linkOf
  simp only [ht, ← hn', hkn, Option.getD_some, idx_nat]; exact hi

/-- the copies made by Header.Clone: the new header has everything the source has; nothing else changes -/
theorem cloneTab_spec {k : KW RefD} (hk : KInv k) {s : Nat} {t : Tab} (ht : k.tabs[s]? = some t) :
    (∀ (s' : Nat), s' < k.tabs.length → (k.cloneTab s).tabs[s']? = k.tabs[s']?) ∧
    (∀ (q : Nat) (y : Obj RefD), k.heap[q]? = some y → (k.cloneTab s).heap[q]? = some y) ∧
    (∀ x ∈ objsOf k s, Has (k.cloneTab s) k.tabs.length x.name x.dat.len) := by
  have T := hk.tab s t ht
  have hlt : ∀ o ∈ t.items, o < k.heap.length := by
    intro o ho
    obtain ⟨i, hi⟩ := List.mem_iff_getElem?.1 ho
    obtain ⟨x, hx, _⟩ := T.own i o hi
    exact get_lt hx
  obtain ⟨h1, h2, h3, h4, h5⟩ := cloneItems_spec k.tabs.length t.items k.heap hlt
  unfold KW.cloneTab
  simp only [ht]
  generalize KW.cloneItems k.tabs.length k.heap t.items = r at h1 h2 h3 h4 h5
  obtain ⟨heap', items'⟩ := r
  simp only at h1 h2 h3 h4 h5 ⊢
  refine ⟨?_, ?_, ?_⟩
  · intro s' hs'; exact List.getElem?_append_left hs'
  · intro q y hy; rw [h3 q (get_lt hy)]; exact hy
  · intro x hx
    unfold objsOf at hx
    simp only [ht] at hx
    obtain ⟨o, ho, hox⟩ := List.mem_filterMap.1 hx
    obtain ⟨i, hi⟩ := List.mem_iff_getElem?.1 ho
    exact ⟨⟨items', t.seen⟩, i, k.heap.length + i, _, by simp, h4 i (get_lt hi), h5 i o x hi hox, rfl, rfl⟩

end Hts.Model.Header
