/-
The Merger model in concatenation mode, the initial heads of the sorted mode, and what NewMerger builds.
-/
import Hts.Lemmas.MergerSorted
namespace Hts.Model.Merger

/-- all records of all sources in source order, tagged and re-linked -/
def delivered (links : Option LinkFn) (srcs : List (Nat × Src)) : List (Nat × Rec) :=
  srcs.flatMap fun p => tagged links p.1 p.2.rest

/-! ### concatenation mode -/

def drainC (links : Option LinkFn) : Nat → List (Nat × Src) → Option Nat → List (Nat × Rec) × Option Term
  | 0, _, _ => ([], none)
  | n + 1, rs, err =>
    match catRead links rs err with
    | (.got id r, st) =>
      let (o, f) := drainC links n st.1 st.2
      ((id, r) :: o, f)
    | (.fin t, _) => ([], some t)

theorem drain_cat (H : Heap) (links : Option LinkFn) :
    ∀ n rs err, drain H n ⟨links, .cat rs err⟩ = drainC links n rs err
  | 0, _, _ => rfl
  | n + 1, rs, err => by
    unfold drain drainC Merger.read
    simp only
    cases h : catRead links rs err with
    | mk o st =>
      cases o with
      | got id r => simp only [drain_cat H links n]
      | fin t => rfl

/-- what concatenation returns: the sources in turn, up to and including the first that fails -/
def catSpec (links : Option LinkFn) : List (Nat × Src) → List (Nat × Rec) × Term
  | [] => ([], .eof)
  | (i, s) :: rest =>
    match s.term with
    | .eof => (tagged links i s.rest ++ (catSpec links rest).1, (catSpec links rest).2)
    | .err e => (tagged links i s.rest, .err e)

def sizeC (rs : List (Nat × Src)) : Nat := (rs.map fun p => p.2.rest.length).sum

theorem drainC_eq (links : Option LinkFn) :
    ∀ n rs, sizeC rs < n → drainC links n rs none = ((catSpec links rs).1, some (catSpec links rs).2)
  | 0 => fun _ h => by omega
  | n + 1 => fun rs => by
    induction rs with
    | nil => intro _; rfl
    | cons p rest ihr =>
      obtain ⟨i, s⟩ := p
      intro hsz
      cases hr : s.rest with
      | nil =>
        have hread : s.read = .stop s.term s.afterStop := by unfold Src.read; rw [hr]
        cases ht : s.term with
        | eof =>
          have hc : catRead links ((i, s) :: rest) none = catRead links rest none := by
            conv => lhs; unfold catRead
            simp only [hread, ht]
          have hd : drainC links (n + 1) ((i, s) :: rest) none = drainC links (n + 1) rest none := by
            unfold drainC; rw [hc]
          have hsz' : sizeC rest < n + 1 := by
            simp only [sizeC, List.map_cons, List.sum_cons, hr, List.length_nil] at hsz
            simpa [sizeC] using hsz
          rw [hd, ihr hsz']
          simp [catSpec, ht, hr, tagged]
        | err e =>
          unfold drainC catRead
          simp only [hread, ht]
          simp [catSpec, ht, hr, tagged]
      | cons r rs' =>
        have hread : s.read = .got r { s with rest := rs' } := by unfold Src.read; rw [hr]
        have hsz' : sizeC ((i, { s with rest := rs' }) :: rest) < n := by
          simp only [sizeC, List.map_cons, List.sum_cons, hr, List.length_cons] at hsz
          simp only [sizeC, List.map_cons, List.sum_cons]
          omega
        unfold drainC catRead
        simp only [hread]
        rw [drainC_eq links n _ hsz']
        cases ht : s.term <;> simp [catSpec, ht, hr, tagged]

theorem catSpec_clean (links : Option LinkFn) :
    ∀ srcs : List (Nat × Src), (∀ p, p ∈ srcs → p.2.term = .eof) → catSpec links srcs = (delivered links srcs, .eof)
  | [], _ => rfl
  | (i, s) :: rest, h => by
    have hs : s.term = .eof := h (i, s) List.mem_cons_self
    have ih := catSpec_clean links rest fun p hp => h p (List.mem_cons_of_mem _ hp)
    simp [catSpec, hs, ih, delivered]

theorem catSpec_prefix (links : Option LinkFn) :
    ∀ srcs : List (Nat × Src), (catSpec links srcs).1 <+: delivered links srcs
  | [] => List.prefix_refl _
  | (i, s) :: rest => by
    unfold catSpec delivered
    simp only [List.flatMap_cons]
    cases s.term with
    | eof => exact (List.prefix_append_right_inj _).2 (catSpec_prefix links rest)
    | err e => exact List.prefix_append _ _

theorem catSpec_eof (links : Option LinkFn) :
    ∀ srcs : List (Nat × Src), (catSpec links srcs).2 = .eof → ∀ p, p ∈ srcs → p.2.term = .eof
  | [], _ => fun p hp => by cases hp
  | (i, s) :: rest, h => by
    unfold catSpec at h
    cases ht : s.term with
    | eof =>
      rw [ht] at h
      intro p hp
      cases hp with
      | head => exact ht
      | tail _ hp => exact catSpec_eof links rest h p hp
    | err e => rw [ht] at h; cases h

theorem catSpec_err (links : Option LinkFn) :
    ∀ (srcs : List (Nat × Src)) (e : Nat), (catSpec links srcs).2 = .err e → ∃ p, p ∈ srcs ∧ p.2.term = .err e
  | [], _, h => by cases h
  | (i, s) :: rest, e, h => by
    unfold catSpec at h
    cases ht : s.term with
    | eof =>
      rw [ht] at h
      obtain ⟨p, hp, hpt⟩ := catSpec_err links rest e h
      exact ⟨p, List.mem_cons_of_mem _ hp, hpt⟩
    | err e' =>
      rw [ht] at h
      simp only [Term.err.injEq] at h
      exact ⟨(i, s), List.mem_cons_self, by rw [ht, h]⟩

/-- with a failing source: everything of the sources in front of the first failing one, what that one
delivers, and its error -/
theorem catSpec_split (links : Option LinkFn) :
    ∀ (srcs : List (Nat × Src)) (e : Nat), (catSpec links srcs).2 = .err e →
      ∃ pre p post, srcs = pre ++ p :: post ∧ (∀ q, q ∈ pre → q.2.term = .eof) ∧ p.2.term = .err e ∧
        (catSpec links srcs).1 = delivered links (pre ++ [p])
  | [], _, h => by cases h
  | (i, s) :: rest, e, h => by
    unfold catSpec at h ⊢
    cases ht : s.term with
    | eof =>
      rw [ht] at h
      obtain ⟨pre, p, post, hsplit, hpre, hp, hout⟩ := catSpec_split links rest e h
      refine ⟨(i, s) :: pre, p, post, by rw [hsplit]; rfl, ?_, hp, ?_⟩
      · intro q hq
        cases hq with
        | head => exact ht
        | tail _ hq => exact hpre q hq
      · simp only [hout]
        simp [delivered]
    | err e' =>
      rw [ht] at h
      simp only [Term.err.injEq] at h
      subst h
      refine ⟨[], (i, s), rest, rfl, ?_, ht, ?_⟩
      · intro q hq; cases hq
      · simp [delivered]

/-- with distinct source ids, the records of source `i` among all delivered records are its own, in order -/
theorem filter_delivered (links : Option LinkFn) :
    ∀ (srcs : List (Nat × Src)), (srcs.map (·.1)).Nodup → ∀ i s, (i, s) ∈ srcs →
      (delivered links srcs).filter (fun p => p.1 == i) = tagged links i s.rest
  | [], _, _, _, h => by cases h
  | (j, t) :: rest, hnd, i, s, h => by
    simp only [List.map_cons, List.nodup_cons, List.mem_map, not_exists, not_and] at hnd
    unfold delivered
    simp only [List.flatMap_cons, List.filter_append]
    have hrest : ∀ k, (∀ q, q ∈ rest → q.1 ≠ k) →
        (List.flatMap (fun p => tagged links p.1 p.2.rest) rest).filter (fun p => p.1 == k) = [] := by
      intro k hk
      rw [List.filter_eq_nil_iff]
      intro p hp
      obtain ⟨q, hq, hpq⟩ := List.mem_flatMap.1 hp
      unfold tagged at hpq
      obtain ⟨r, _, rfl⟩ := List.mem_map.1 hpq
      simpa using hk q hq
    cases h with
    | head =>
      rw [hrest j (fun q hq heq => hnd.1 q hq heq)]
      simp only [List.append_nil]
      rw [List.filter_eq_self]
      intro p hp
      unfold tagged at hp
      obtain ⟨r, _, rfl⟩ := List.mem_map.1 hp
      simp
    | tail _ hmem =>
      have hji : j ≠ i := fun heq => hnd.1 (i, s) hmem heq.symm
      have : (tagged links j t.rest).filter (fun p => p.1 == i) = [] := by
        rw [List.filter_eq_nil_iff]
        intro p hp
        unfold tagged at hp
        obtain ⟨r, _, rfl⟩ := List.mem_map.1 hp
        simpa using hji
      rw [this, List.nil_append]
      exact filter_delivered links rest hnd.2 i s hmem

/-! ### the initial heads of the sorted mode -/

theorem initHeads_pending (links : Option LinkFn) :
    ∀ srcs : List (Nat × Src), heapPending links (initHeads links srcs).1 = delivered links srcs
  | [] => rfl
  | (i, s) :: rest => by
    have ih := initHeads_pending links rest
    unfold initHeads
    cases hr : s.rest with
    | nil =>
      have hread : s.read = .stop s.term s.afterStop := by unfold Src.read; rw [hr]
      simp only [hread]
      cases s.term <;> simp [delivered, tagged, hr] <;> simpa [delivered, tagged] using ih
    | cons r rs =>
      have hread : s.read = .got r { s with rest := rs } := by unfold Src.read; rw [hr]
      simp only [hread]
      simp only [heapPending, List.flatMap_cons, delivered, hr] at ih ⊢
      rw [ih]
      simp [Live.pending, tagged]

/-- every source in the initial heap is one of the given sources, after its first record -/
theorem initHeads_mem (links : Option LinkFn) :
    ∀ (srcs : List (Nat × Src)) (y : Live), y ∈ (initHeads links srcs).1 →
      ∃ s, (y.id, s) ∈ srcs ∧ y.pending links = tagged links y.id s.rest ∧ y.src.term = s.term ∧ s.rest ≠ []
  | [], _, h => by cases h
  | (i, s) :: rest, y, h => by
    unfold initHeads at h
    have ih := initHeads_mem links rest y
    cases hr : s.rest with
    | nil =>
      have hread : s.read = .stop s.term s.afterStop := by unfold Src.read; rw [hr]
      simp only [hread] at h
      have h' : y ∈ (initHeads links rest).1 := by cases ht : s.term <;> simpa [ht] using h
      obtain ⟨s', hs', rest'⟩ := ih h'
      exact ⟨s', List.mem_cons_of_mem _ hs', rest'⟩
    | cons r rs =>
      have hread : s.read = .got r { s with rest := rs } := by unfold Src.read; rw [hr]
      simp only [hread] at h
      cases h with
      | head => exact ⟨s, List.mem_cons_self, by simp [Live.pending, tagged, hr], rfl, by simp [hr]⟩
      | tail _ h' =>
        obtain ⟨s', hs', rest'⟩ := ih h'
        exact ⟨s', List.mem_cons_of_mem _ hs', rest'⟩

/-- every source with a record is in the initial heap -/
theorem initHeads_has (links : Option LinkFn) :
    ∀ (srcs : List (Nat × Src)) (i : Nat) (s : Src), (i, s) ∈ srcs → s.rest ≠ [] →
      ∃ y, y ∈ (initHeads links srcs).1 ∧ y.id = i ∧ y.pending links = tagged links i s.rest ∧ y.src.term = s.term
  | [], _, _, h, _ => by cases h
  | (j, t) :: rest, i, s, h, hne => by
    have hsub : ∀ y, y ∈ (initHeads links rest).1 → y ∈ (initHeads links ((j, t) :: rest)).1 := by
      intro y hy
      rw [initHeads]
      cases t.read with
      | got r s' => exact List.mem_cons_of_mem _ hy
      | stop tt _ => cases tt <;> exact hy
    cases h with
    | head =>
      cases hr : t.rest with
      | nil => exact absurd hr hne
      | cons r rs =>
        have hread : t.read = .got r { t with rest := rs } := by unfold Src.read; rw [hr]
        refine ⟨{ id := j, head := relink links j r, src := { t with rest := rs } }, ?_, rfl, ?_, rfl⟩
        · rw [initHeads]; simp only [hread]; exact List.mem_cons_self
        · simp [Live.pending, tagged]
    | tail _ hmem =>
      obtain ⟨y, hy, rest'⟩ := initHeads_has links rest i s hmem hne
      exact ⟨y, hsub y hy, rest'⟩

theorem initHeads_ids (links : Option LinkFn) :
    ∀ srcs : List (Nat × Src), ((initHeads links srcs).1.map (·.id)).Sublist (srcs.map (·.1))
  | [] => List.Sublist.slnil
  | (i, s) :: rest => by
    have ih := initHeads_ids links rest
    unfold initHeads
    cases s.read with
    | got r s' => exact ih.cons₂ i
    | stop t _ => cases t <;> exact ih.cons i

theorem initHeads_err_some (links : Option LinkFn) :
    ∀ (srcs : List (Nat × Src)) (e : Nat), (initHeads links srcs).2 = some e → ∃ p, p ∈ srcs ∧ p.2.term = .err e
  | [], _, h => by cases h
  | (i, s) :: rest, e, h => by
    unfold initHeads at h
    have ih := initHeads_err_some links rest e
    cases hr : s.rest with
    | nil =>
      have hread : s.read = .stop s.term s.afterStop := by unfold Src.read; rw [hr]
      simp only [hread] at h
      cases ht : s.term with
      | eof =>
        simp only [ht] at h
        obtain ⟨p, hp, hpt⟩ := ih h
        exact ⟨p, List.mem_cons_of_mem _ hp, hpt⟩
      | err e' =>
        simp only [ht, Option.some.injEq] at h
        exact ⟨(i, s), List.mem_cons_self, by rw [ht, h]⟩
    | cons r rs =>
      have hread : s.read = .got r { s with rest := rs } := by unfold Src.read; rw [hr]
      simp only [hread] at h
      obtain ⟨p, hp, hpt⟩ := ih h
      exact ⟨p, List.mem_cons_of_mem _ hp, hpt⟩

theorem initHeads_err_none (links : Option LinkFn) :
    ∀ (srcs : List (Nat × Src)), (initHeads links srcs).2 = none → ∀ p, p ∈ srcs → p.2.rest = [] → p.2.term = .eof
  | [], _, _, hp, _ => by cases hp
  | (i, s) :: rest, h, p, hp, hpr => by
    unfold initHeads at h
    have ih := initHeads_err_none links rest
    cases hr : s.rest with
    | nil =>
      have hread : s.read = .stop s.term s.afterStop := by unfold Src.read; rw [hr]
      simp only [hread] at h
      cases ht : s.term with
      | eof =>
        simp only [ht] at h
        cases hp with
        | head => exact ht
        | tail _ hp => exact ih h p hp hpr
      | err e' => simp [ht] at h
    | cons r rs =>
      have hread : s.read = .got r { s with rest := rs } := by unfold Src.read; rw [hr]
      simp only [hread] at h
      cases hp with
      | head => rw [hr] at hpr; cases hpr
      | tail _ hp => exact ih h p hp hpr

end Hts.Model.Merger
