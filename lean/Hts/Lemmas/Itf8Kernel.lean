/-
Kernel-only proofs (no bv_decide) of `decode (encode v) = (v, len v, true)` for ITF-8 and LTF-8.
Byte-level facts are decided by evaluation over all 256 bytes; the OR/shift chains of `decode` are
turned into sums by `or_step`; the rest is linear arithmetic with literal div/mod (`omega`).
(Generated once by a script, then committed: this file is source.)
-/
import Hts.Model.Itf8
import Hts.Model.Ltf8
import Hts.Lemmas.Bytes
set_option maxHeartbeats 1000000
set_option linter.unusedSimpArgs false
set_option linter.unusedVariables false
namespace Hts.Lemmas.Kernel
open Hts.Lemmas

theorem or_shl (a b k : Nat) (h : a < 2 ^ k) : a ||| b <<< k = a + b * 2 ^ k := by
  rw [Nat.or_comm, ← Nat.shiftLeft_add_eq_or_of_lt h, Nat.shiftLeft_eq]; omega

theorem or_step (w : Nat) (acc x : BitVec w) (k m : Nat) (hacc : acc.toNat < 2 ^ k) (hx : x.toNat < 2 ^ m)
    (hk : k + m ≤ w) : (acc ||| x <<< k).toNat = acc.toNat + x.toNat * 2 ^ k := by
  rw [BitVec.toNat_or, BitVec.toNat_shiftLeft]
  have hlt : x.toNat <<< k < 2 ^ w := by
    rw [Nat.shiftLeft_eq]
    calc x.toNat * 2 ^ k < 2 ^ m * 2 ^ k := Nat.mul_lt_mul_of_pos_right hx (Nat.pow_pos (by omega))
      _ = 2 ^ (m + k) := (Nat.pow_add 2 m k).symm
      _ ≤ 2 ^ w := Nat.pow_le_pow_right (by omega) (by omega)
  rw [Nat.mod_eq_of_lt hlt, or_shl _ _ k hacc]

theorem fb_val_2 : ∀ x : BitVec 8, ((x &&& 0x3f#8 ||| 0x80#8) &&& 0x3f#8).toNat = x.toNat % 64 :=
  byte_forall _ (by decide +kernel)
theorem fb_val_3 : ∀ x : BitVec 8, ((x &&& 0x1f#8 ||| 0xc0#8) &&& 0x1f#8).toNat = x.toNat % 32 :=
  byte_forall _ (by decide +kernel)
theorem fb_val_4 : ∀ x : BitVec 8, ((x &&& 0xf#8 ||| 0xe0#8) &&& 0xf#8).toNat = x.toNat % 16 :=
  byte_forall _ (by decide +kernel)
theorem fb_val_5 : ∀ x : BitVec 8, ((x &&& 0x7#8 ||| 0xf0#8) &&& 0x7#8).toNat = x.toNat % 8 :=
  byte_forall _ (by decide +kernel)
theorem fb_val_6 : ∀ x : BitVec 8, ((x &&& 0x3#8 ||| 0xf8#8) &&& 0x3#8).toNat = x.toNat % 4 :=
  byte_forall _ (by decide +kernel)
theorem fb_val_7 : ∀ x : BitVec 8, ((x &&& 0x1#8 ||| 0xfc#8) &&& 0x1#8).toNat = x.toNat % 2 :=
  byte_forall _ (by decide +kernel)
theorem fb_val_itf5 : ∀ x : BitVec 8, ((x ||| 0xf0#8) &&& 0x0f#8).toNat = x.toNat % 16 :=
  byte_forall _ (by decide +kernel)
theorem nib_val : ∀ x : BitVec 8, (x &&& 0x0f#8).toNat = x.toNat % 16 :=
  byte_forall _ (by decide +kernel)
theorem or_f0_mod16 : ∀ x : BitVec 8, (x ||| 0xf0#8).toNat % 16 = x.toNat % 16 :=
  byte_forall _ (by decide +kernel)

theorem Itf8_w2 : ∀ x : BitVec 8, Hts.Model.Itf8.width (x &&& 0x3f#8 ||| 0x80#8) = 2 :=
  byte_forall _ (by decide +kernel)
theorem Itf8_w3 : ∀ x : BitVec 8, Hts.Model.Itf8.width (x &&& 0x1f#8 ||| 0xc0#8) = 3 :=
  byte_forall _ (by decide +kernel)
theorem Itf8_w4 : ∀ x : BitVec 8, Hts.Model.Itf8.width (x &&& 0x0f#8 ||| 0xe0#8) = 4 :=
  byte_forall _ (by decide +kernel)
theorem Itf8_w5 : ∀ x : BitVec 8, Hts.Model.Itf8.width (x ||| 0xf0#8) = 5 :=
  byte_forall _ (by decide +kernel)
theorem Ltf8_w2 : ∀ x : BitVec 8, Hts.Model.Ltf8.width (x &&& 0x3f#8 ||| 0x80#8) = 2 :=
  byte_forall _ (by decide +kernel)
theorem Ltf8_w3 : ∀ x : BitVec 8, Hts.Model.Ltf8.width (x &&& 0x1f#8 ||| 0xc0#8) = 3 :=
  byte_forall _ (by decide +kernel)
theorem Ltf8_w4 : ∀ x : BitVec 8, Hts.Model.Ltf8.width (x &&& 0xf#8 ||| 0xe0#8) = 4 :=
  byte_forall _ (by decide +kernel)
theorem Ltf8_w5 : ∀ x : BitVec 8, Hts.Model.Ltf8.width (x &&& 0x7#8 ||| 0xf0#8) = 5 :=
  byte_forall _ (by decide +kernel)
theorem Ltf8_w6 : ∀ x : BitVec 8, Hts.Model.Ltf8.width (x &&& 0x3#8 ||| 0xf8#8) = 6 :=
  byte_forall _ (by decide +kernel)
theorem Ltf8_w7 : ∀ x : BitVec 8, Hts.Model.Ltf8.width (x &&& 0x1#8 ||| 0xfc#8) = 7 :=
  byte_forall _ (by decide +kernel)
theorem Itf8_w1 (x : BitVec 8) (h : x.toNat < 128) : Hts.Model.Itf8.width x = 1 := by
  have : x.ult 0x80#8 = true := by simp [BitVec.ult]; omega
  simp [Hts.Model.Itf8.width, this]
theorem Ltf8_w1 (x : BitVec 8) (h : x.toNat < 128) : Hts.Model.Ltf8.width x = 1 := by
  have : x.ult 0x80#8 = true := by simp [BitVec.ult]; omega
  simp [Hts.Model.Ltf8.width, this]
theorem Ltf8_w8 : Hts.Model.Ltf8.width 0xfe#8 = 8 := by decide
theorem Ltf8_w9 : Hts.Model.Ltf8.width 0xff#8 = 9 := by decide


namespace Itf8K
open Hts.Model.Itf8

theorem z_toNat (b : Byte) : (z b).toNat = b.toNat := by
  unfold z; rw [BitVec.toNat_setWidth]; have := b.isLt; omega

theorem vbyte (v : BitVec 32) (s : Nat) : ((v >>> s).setWidth 8).toNat = v.toNat / 2 ^ s % 256 := by
  rw [BitVec.toNat_setWidth, BitVec.toNat_ushiftRight, Nat.shiftRight_eq_div_pow]

theorem vbyte0 (v : BitVec 32) : (v.setWidth 8).toNat = v.toNat % 256 := by
  rw [BitVec.toNat_setWidth]

theorem decode_1 (b0 : Byte) (hw : width b0 = 1) :
    decode [b0] = (z b0, 1, true) := by
  simp [decode, hw]

theorem val_1 (x0 : BitVec 32) (h0 : x0.toNat < 2 ^ 8) :
    (x0).toNat = x0.toNat := by
  rfl

theorem decode_2 (b0 b1 : Byte) (hw : width b0 = 2) :
    decode [b0, b1] = (z b1 ||| z (b0 &&& 0x3f#8) <<< 8, 2, true) := by
  simp [decode, hw]

theorem val_2 (x0 x1 : BitVec 32) (h0 : x0.toNat < 2 ^ 8) (h1 : x1.toNat < 2 ^ 6) :
    (x0 ||| x1 <<< 8).toNat = x0.toNat + x1.toNat * 2 ^ 8 := by
  have e1 := or_step 32 (x0) x1 8 6 h0 h1 (by omega)
  exact e1

theorem decode_3 (b0 b1 b2 : Byte) (hw : width b0 = 3) :
    decode [b0, b1, b2] = (z b2 ||| z b1 <<< 8 ||| z (b0 &&& 0x1f#8) <<< 16, 3, true) := by
  simp [decode, hw]

theorem val_3 (x0 x1 x2 : BitVec 32) (h0 : x0.toNat < 2 ^ 8) (h1 : x1.toNat < 2 ^ 8) (h2 : x2.toNat < 2 ^ 5) :
    (x0 ||| x1 <<< 8 ||| x2 <<< 16).toNat = x0.toNat + x1.toNat * 2 ^ 8 + x2.toNat * 2 ^ 16 := by
  have e1 := or_step 32 (x0) x1 8 8 h0 h1 (by omega)
  have e2 := or_step 32 (x0 ||| x1 <<< 8) x2 16 5 (by rw [e1]; omega) h2 (by omega)
  rw [e1] at e2
  exact e2

theorem decode_4 (b0 b1 b2 b3 : Byte) (hw : width b0 = 4) :
    decode [b0, b1, b2, b3] = (z b3 ||| z b2 <<< 8 ||| z b1 <<< 16 ||| z (b0 &&& 0xf#8) <<< 24, 4, true) := by
  simp [decode, hw]

theorem val_4 (x0 x1 x2 x3 : BitVec 32) (h0 : x0.toNat < 2 ^ 8) (h1 : x1.toNat < 2 ^ 8) (h2 : x2.toNat < 2 ^ 8) (h3 : x3.toNat < 2 ^ 4) :
    (x0 ||| x1 <<< 8 ||| x2 <<< 16 ||| x3 <<< 24).toNat = x0.toNat + x1.toNat * 2 ^ 8 + x2.toNat * 2 ^ 16 + x3.toNat * 2 ^ 24 := by
  have e1 := or_step 32 (x0) x1 8 8 h0 h1 (by omega)
  have e2 := or_step 32 (x0 ||| x1 <<< 8) x2 16 8 (by rw [e1]; omega) h2 (by omega)
  rw [e1] at e2
  have e3 := or_step 32 (x0 ||| x1 <<< 8 ||| x2 <<< 16) x3 24 4 (by rw [e2]; omega) h3 (by omega)
  rw [e2] at e3
  exact e3

theorem decode_5 (b0 b1 b2 b3 b4 : Byte) (hw : width b0 = 5) :
    decode [b0, b1, b2, b3, b4] = (z (b4 &&& 0xf#8) ||| z b3 <<< 4 ||| z b2 <<< 12 ||| z b1 <<< 20 ||| z (b0 &&& 0xf#8) <<< 28, 5, true) := by
  simp [decode, hw]

theorem val_5 (x0 x1 x2 x3 x4 : BitVec 32) (h0 : x0.toNat < 2 ^ 4) (h1 : x1.toNat < 2 ^ 8) (h2 : x2.toNat < 2 ^ 8) (h3 : x3.toNat < 2 ^ 8) (h4 : x4.toNat < 2 ^ 4) :
    (x0 ||| x1 <<< 4 ||| x2 <<< 12 ||| x3 <<< 20 ||| x4 <<< 28).toNat = x0.toNat + x1.toNat * 2 ^ 4 + x2.toNat * 2 ^ 12 + x3.toNat * 2 ^ 20 + x4.toNat * 2 ^ 28 := by
  have e1 := or_step 32 (x0) x1 4 8 h0 h1 (by omega)
  have e2 := or_step 32 (x0 ||| x1 <<< 4) x2 12 8 (by rw [e1]; omega) h2 (by omega)
  rw [e1] at e2
  have e3 := or_step 32 (x0 ||| x1 <<< 4 ||| x2 <<< 12) x3 20 8 (by rw [e2]; omega) h3 (by omega)
  rw [e2] at e3
  have e4 := or_step 32 (x0 ||| x1 <<< 4 ||| x2 <<< 12 ||| x3 <<< 20) x4 28 4 (by rw [e3]; omega) h4 (by omega)
  rw [e3] at e4
  exact e4

theorem decode_encode (v : BitVec 32) : decode (encode v) = (v, len v, true) := by
  have hv := v.isLt
  unfold encode len
  by_cases c1 : v.ult 0x80#32 = true
  · have n1 : v.toNat < 128 := by simpa [BitVec.ult] using c1
    simp only [c1, if_true, if_false, Bool.false_eq_true]
    have hw := Itf8_w1 (v.setWidth 8) (by rw [vbyte0]; omega)
    rw [decode_1 _ hw]
    congr 1
    apply BitVec.eq_of_toNat_eq
    rw [val_1 _ (by rw [z_toNat]; exact BitVec.isLt _)]
    simp only [z_toNat, vbyte0, BitVec.toNat_ushiftRight, Nat.shiftRight_eq_div_pow, vbyte0]
    omega
  have f1 : v.ult 0x80#32 = false := by simpa using c1
  have m1 : 128 ≤ v.toNat := by
    have : ¬ v.toNat < 128 := by simpa [BitVec.ult] using c1
    omega
  by_cases c2 : v.ult 0x4000#32 = true
  · have n2 : v.toNat < 16384 := by simpa [BitVec.ult] using c2
    simp only [f1, c2, if_true, if_false, Bool.false_eq_true]
    have hw := Itf8_w2 ((v >>> 8).setWidth 8)
    rw [decode_2 _ _ hw]
    congr 1
    apply BitVec.eq_of_toNat_eq
    rw [val_2 _ _ (by rw [z_toNat]; exact BitVec.isLt _) (by rw [z_toNat]; first | (rw [fb_val_2]; omega))]
    simp only [z_toNat, vbyte0, BitVec.toNat_ushiftRight, Nat.shiftRight_eq_div_pow, fb_val_2]
    omega
  have f2 : v.ult 0x4000#32 = false := by simpa using c2
  have m2 : 16384 ≤ v.toNat := by
    have : ¬ v.toNat < 16384 := by simpa [BitVec.ult] using c2
    omega
  by_cases c3 : v.ult 0x200000#32 = true
  · have n3 : v.toNat < 2097152 := by simpa [BitVec.ult] using c3
    simp only [f1, f2, c3, if_true, if_false, Bool.false_eq_true]
    have hw := Itf8_w3 ((v >>> 16).setWidth 8)
    rw [decode_3 _ _ _ hw]
    congr 1
    apply BitVec.eq_of_toNat_eq
    rw [val_3 _ _ _ (by rw [z_toNat]; exact BitVec.isLt _) (by rw [z_toNat]; exact BitVec.isLt _) (by rw [z_toNat]; first | (rw [fb_val_3]; omega))]
    simp only [z_toNat, vbyte0, BitVec.toNat_ushiftRight, Nat.shiftRight_eq_div_pow, fb_val_3]
    omega
  have f3 : v.ult 0x200000#32 = false := by simpa using c3
  have m3 : 2097152 ≤ v.toNat := by
    have : ¬ v.toNat < 2097152 := by simpa [BitVec.ult] using c3
    omega
  by_cases c4 : v.ult 0x10000000#32 = true
  · have n4 : v.toNat < 268435456 := by simpa [BitVec.ult] using c4
    simp only [f1, f2, f3, c4, if_true, if_false, Bool.false_eq_true]
    have hw := Itf8_w4 ((v >>> 24).setWidth 8)
    rw [decode_4 _ _ _ _ hw]
    congr 1
    apply BitVec.eq_of_toNat_eq
    rw [val_4 _ _ _ _ (by rw [z_toNat]; exact BitVec.isLt _) (by rw [z_toNat]; exact BitVec.isLt _) (by rw [z_toNat]; exact BitVec.isLt _) (by rw [z_toNat]; first | (rw [fb_val_4]; omega))]
    simp only [z_toNat, vbyte0, BitVec.toNat_ushiftRight, Nat.shiftRight_eq_div_pow, fb_val_4]
    omega
  have f4 : v.ult 0x10000000#32 = false := by simpa using c4
  have m4 : 268435456 ≤ v.toNat := by
    have : ¬ v.toNat < 268435456 := by simpa [BitVec.ult] using c4
    omega
  · skip
    simp only [f1, f2, f3, f4, if_true, if_false, Bool.false_eq_true]
    have hw := Itf8_w5 ((v >>> 28).setWidth 8)
    rw [decode_5 _ _ _ _ _ hw]
    congr 1
    apply BitVec.eq_of_toNat_eq
    rw [val_5 _ _ _ _ _ (by rw [z_toNat]; first | (rw [fb_val_itf5]; omega) | (rw [nib_val]; omega) | (rw [or_f0_mod16]; omega)) (by rw [z_toNat]; exact BitVec.isLt _) (by rw [z_toNat]; exact BitVec.isLt _) (by rw [z_toNat]; exact BitVec.isLt _) (by rw [z_toNat]; first | (rw [fb_val_itf5]; omega) | (rw [nib_val]; omega) | (rw [or_f0_mod16]; omega))]
    simp only [z_toNat, vbyte0, BitVec.toNat_ushiftRight, Nat.shiftRight_eq_div_pow, fb_val_itf5, nib_val, or_f0_mod16]
    omega

end Itf8K

namespace Ltf8K
open Hts.Model.Ltf8

theorem z_toNat (b : Byte) : (z b).toNat = b.toNat := by
  unfold z; rw [BitVec.toNat_setWidth]; have := b.isLt; omega

theorem vbyte (v : BitVec 64) (s : Nat) : ((v >>> s).setWidth 8).toNat = v.toNat / 2 ^ s % 256 := by
  rw [BitVec.toNat_setWidth, BitVec.toNat_ushiftRight, Nat.shiftRight_eq_div_pow]

theorem vbyte0 (v : BitVec 64) : (v.setWidth 8).toNat = v.toNat % 256 := by
  rw [BitVec.toNat_setWidth]

theorem decode_1 (b0 : Byte) (hw : width b0 = 1) :
    decode [b0] = (z b0, 1, true) := by
  simp [decode, hw]

theorem val_1 (x0 : BitVec 64) (h0 : x0.toNat < 2 ^ 8) :
    (x0).toNat = x0.toNat := by
  rfl

theorem decode_2 (b0 b1 : Byte) (hw : width b0 = 2) :
    decode [b0, b1] = (z b1 ||| z (b0 &&& 0x3f#8) <<< 8, 2, true) := by
  simp [decode, hw]

theorem val_2 (x0 x1 : BitVec 64) (h0 : x0.toNat < 2 ^ 8) (h1 : x1.toNat < 2 ^ 6) :
    (x0 ||| x1 <<< 8).toNat = x0.toNat + x1.toNat * 2 ^ 8 := by
  have e1 := or_step 64 (x0) x1 8 6 h0 h1 (by omega)
  exact e1

theorem decode_3 (b0 b1 b2 : Byte) (hw : width b0 = 3) :
    decode [b0, b1, b2] = (z b2 ||| z b1 <<< 8 ||| z (b0 &&& 0x1f#8) <<< 16, 3, true) := by
  simp [decode, hw]

theorem val_3 (x0 x1 x2 : BitVec 64) (h0 : x0.toNat < 2 ^ 8) (h1 : x1.toNat < 2 ^ 8) (h2 : x2.toNat < 2 ^ 5) :
    (x0 ||| x1 <<< 8 ||| x2 <<< 16).toNat = x0.toNat + x1.toNat * 2 ^ 8 + x2.toNat * 2 ^ 16 := by
  have e1 := or_step 64 (x0) x1 8 8 h0 h1 (by omega)
  have e2 := or_step 64 (x0 ||| x1 <<< 8) x2 16 5 (by rw [e1]; omega) h2 (by omega)
  rw [e1] at e2
  exact e2

theorem decode_4 (b0 b1 b2 b3 : Byte) (hw : width b0 = 4) :
    decode [b0, b1, b2, b3] = (z b3 ||| z b2 <<< 8 ||| z b1 <<< 16 ||| z (b0 &&& 0xf#8) <<< 24, 4, true) := by
  simp [decode, hw]

theorem val_4 (x0 x1 x2 x3 : BitVec 64) (h0 : x0.toNat < 2 ^ 8) (h1 : x1.toNat < 2 ^ 8) (h2 : x2.toNat < 2 ^ 8) (h3 : x3.toNat < 2 ^ 4) :
    (x0 ||| x1 <<< 8 ||| x2 <<< 16 ||| x3 <<< 24).toNat = x0.toNat + x1.toNat * 2 ^ 8 + x2.toNat * 2 ^ 16 + x3.toNat * 2 ^ 24 := by
  have e1 := or_step 64 (x0) x1 8 8 h0 h1 (by omega)
  have e2 := or_step 64 (x0 ||| x1 <<< 8) x2 16 8 (by rw [e1]; omega) h2 (by omega)
  rw [e1] at e2
  have e3 := or_step 64 (x0 ||| x1 <<< 8 ||| x2 <<< 16) x3 24 4 (by rw [e2]; omega) h3 (by omega)
  rw [e2] at e3
  exact e3

theorem decode_5 (b0 b1 b2 b3 b4 : Byte) (hw : width b0 = 5) :
    decode [b0, b1, b2, b3, b4] = (z b4 ||| z b3 <<< 8 ||| z b2 <<< 16 ||| z b1 <<< 24 ||| z (b0 &&& 0x7#8) <<< 32, 5, true) := by
  simp [decode, hw]

theorem val_5 (x0 x1 x2 x3 x4 : BitVec 64) (h0 : x0.toNat < 2 ^ 8) (h1 : x1.toNat < 2 ^ 8) (h2 : x2.toNat < 2 ^ 8) (h3 : x3.toNat < 2 ^ 8) (h4 : x4.toNat < 2 ^ 3) :
    (x0 ||| x1 <<< 8 ||| x2 <<< 16 ||| x3 <<< 24 ||| x4 <<< 32).toNat = x0.toNat + x1.toNat * 2 ^ 8 + x2.toNat * 2 ^ 16 + x3.toNat * 2 ^ 24 + x4.toNat * 2 ^ 32 := by
  have e1 := or_step 64 (x0) x1 8 8 h0 h1 (by omega)
  have e2 := or_step 64 (x0 ||| x1 <<< 8) x2 16 8 (by rw [e1]; omega) h2 (by omega)
  rw [e1] at e2
  have e3 := or_step 64 (x0 ||| x1 <<< 8 ||| x2 <<< 16) x3 24 8 (by rw [e2]; omega) h3 (by omega)
  rw [e2] at e3
  have e4 := or_step 64 (x0 ||| x1 <<< 8 ||| x2 <<< 16 ||| x3 <<< 24) x4 32 3 (by rw [e3]; omega) h4 (by omega)
  rw [e3] at e4
  exact e4

theorem decode_6 (b0 b1 b2 b3 b4 b5 : Byte) (hw : width b0 = 6) :
    decode [b0, b1, b2, b3, b4, b5] = (z b5 ||| z b4 <<< 8 ||| z b3 <<< 16 ||| z b2 <<< 24 ||| z b1 <<< 32 ||| z (b0 &&& 0x3#8) <<< 40, 6, true) := by
  simp [decode, hw]

theorem val_6 (x0 x1 x2 x3 x4 x5 : BitVec 64) (h0 : x0.toNat < 2 ^ 8) (h1 : x1.toNat < 2 ^ 8) (h2 : x2.toNat < 2 ^ 8) (h3 : x3.toNat < 2 ^ 8) (h4 : x4.toNat < 2 ^ 8) (h5 : x5.toNat < 2 ^ 2) :
    (x0 ||| x1 <<< 8 ||| x2 <<< 16 ||| x3 <<< 24 ||| x4 <<< 32 ||| x5 <<< 40).toNat = x0.toNat + x1.toNat * 2 ^ 8 + x2.toNat * 2 ^ 16 + x3.toNat * 2 ^ 24 + x4.toNat * 2 ^ 32 + x5.toNat * 2 ^ 40 := by
  have e1 := or_step 64 (x0) x1 8 8 h0 h1 (by omega)
  have e2 := or_step 64 (x0 ||| x1 <<< 8) x2 16 8 (by rw [e1]; omega) h2 (by omega)
  rw [e1] at e2
  have e3 := or_step 64 (x0 ||| x1 <<< 8 ||| x2 <<< 16) x3 24 8 (by rw [e2]; omega) h3 (by omega)
  rw [e2] at e3
  have e4 := or_step 64 (x0 ||| x1 <<< 8 ||| x2 <<< 16 ||| x3 <<< 24) x4 32 8 (by rw [e3]; omega) h4 (by omega)
  rw [e3] at e4
  have e5 := or_step 64 (x0 ||| x1 <<< 8 ||| x2 <<< 16 ||| x3 <<< 24 ||| x4 <<< 32) x5 40 2 (by rw [e4]; omega) h5 (by omega)
  rw [e4] at e5
  exact e5

theorem decode_7 (b0 b1 b2 b3 b4 b5 b6 : Byte) (hw : width b0 = 7) :
    decode [b0, b1, b2, b3, b4, b5, b6] = (z b6 ||| z b5 <<< 8 ||| z b4 <<< 16 ||| z b3 <<< 24 ||| z b2 <<< 32 ||| z b1 <<< 40 ||| z (b0 &&& 0x1#8) <<< 48, 7, true) := by
  simp [decode, hw]

theorem val_7 (x0 x1 x2 x3 x4 x5 x6 : BitVec 64) (h0 : x0.toNat < 2 ^ 8) (h1 : x1.toNat < 2 ^ 8) (h2 : x2.toNat < 2 ^ 8) (h3 : x3.toNat < 2 ^ 8) (h4 : x4.toNat < 2 ^ 8) (h5 : x5.toNat < 2 ^ 8) (h6 : x6.toNat < 2 ^ 1) :
    (x0 ||| x1 <<< 8 ||| x2 <<< 16 ||| x3 <<< 24 ||| x4 <<< 32 ||| x5 <<< 40 ||| x6 <<< 48).toNat = x0.toNat + x1.toNat * 2 ^ 8 + x2.toNat * 2 ^ 16 + x3.toNat * 2 ^ 24 + x4.toNat * 2 ^ 32 + x5.toNat * 2 ^ 40 + x6.toNat * 2 ^ 48 := by
  have e1 := or_step 64 (x0) x1 8 8 h0 h1 (by omega)
  have e2 := or_step 64 (x0 ||| x1 <<< 8) x2 16 8 (by rw [e1]; omega) h2 (by omega)
  rw [e1] at e2
  have e3 := or_step 64 (x0 ||| x1 <<< 8 ||| x2 <<< 16) x3 24 8 (by rw [e2]; omega) h3 (by omega)
  rw [e2] at e3
  have e4 := or_step 64 (x0 ||| x1 <<< 8 ||| x2 <<< 16 ||| x3 <<< 24) x4 32 8 (by rw [e3]; omega) h4 (by omega)
  rw [e3] at e4
  have e5 := or_step 64 (x0 ||| x1 <<< 8 ||| x2 <<< 16 ||| x3 <<< 24 ||| x4 <<< 32) x5 40 8 (by rw [e4]; omega) h5 (by omega)
  rw [e4] at e5
  have e6 := or_step 64 (x0 ||| x1 <<< 8 ||| x2 <<< 16 ||| x3 <<< 24 ||| x4 <<< 32 ||| x5 <<< 40) x6 48 1 (by rw [e5]; omega) h6 (by omega)
  rw [e5] at e6
  exact e6

theorem decode_8 (b0 b1 b2 b3 b4 b5 b6 b7 : Byte) (hw : width b0 = 8) :
    decode [b0, b1, b2, b3, b4, b5, b6, b7] = (z b7 ||| z b6 <<< 8 ||| z b5 <<< 16 ||| z b4 <<< 24 ||| z b3 <<< 32 ||| z b2 <<< 40 ||| z b1 <<< 48, 8, true) := by
  simp [decode, hw]

theorem val_8 (x0 x1 x2 x3 x4 x5 x6 : BitVec 64) (h0 : x0.toNat < 2 ^ 8) (h1 : x1.toNat < 2 ^ 8) (h2 : x2.toNat < 2 ^ 8) (h3 : x3.toNat < 2 ^ 8) (h4 : x4.toNat < 2 ^ 8) (h5 : x5.toNat < 2 ^ 8) (h6 : x6.toNat < 2 ^ 8) :
    (x0 ||| x1 <<< 8 ||| x2 <<< 16 ||| x3 <<< 24 ||| x4 <<< 32 ||| x5 <<< 40 ||| x6 <<< 48).toNat = x0.toNat + x1.toNat * 2 ^ 8 + x2.toNat * 2 ^ 16 + x3.toNat * 2 ^ 24 + x4.toNat * 2 ^ 32 + x5.toNat * 2 ^ 40 + x6.toNat * 2 ^ 48 := by
  have e1 := or_step 64 (x0) x1 8 8 h0 h1 (by omega)
  have e2 := or_step 64 (x0 ||| x1 <<< 8) x2 16 8 (by rw [e1]; omega) h2 (by omega)
  rw [e1] at e2
  have e3 := or_step 64 (x0 ||| x1 <<< 8 ||| x2 <<< 16) x3 24 8 (by rw [e2]; omega) h3 (by omega)
  rw [e2] at e3
  have e4 := or_step 64 (x0 ||| x1 <<< 8 ||| x2 <<< 16 ||| x3 <<< 24) x4 32 8 (by rw [e3]; omega) h4 (by omega)
  rw [e3] at e4
  have e5 := or_step 64 (x0 ||| x1 <<< 8 ||| x2 <<< 16 ||| x3 <<< 24 ||| x4 <<< 32) x5 40 8 (by rw [e4]; omega) h5 (by omega)
  rw [e4] at e5
  have e6 := or_step 64 (x0 ||| x1 <<< 8 ||| x2 <<< 16 ||| x3 <<< 24 ||| x4 <<< 32 ||| x5 <<< 40) x6 48 8 (by rw [e5]; omega) h6 (by omega)
  rw [e5] at e6
  exact e6

theorem decode_9 (b0 b1 b2 b3 b4 b5 b6 b7 b8 : Byte) (hw : width b0 = 9) :
    decode [b0, b1, b2, b3, b4, b5, b6, b7, b8] = (z b8 ||| z b7 <<< 8 ||| z b6 <<< 16 ||| z b5 <<< 24 ||| z b4 <<< 32 ||| z b3 <<< 40 ||| z b2 <<< 48 ||| z b1 <<< 56, 9, true) := by
  simp [decode, hw]

theorem val_9 (x0 x1 x2 x3 x4 x5 x6 x7 : BitVec 64) (h0 : x0.toNat < 2 ^ 8) (h1 : x1.toNat < 2 ^ 8) (h2 : x2.toNat < 2 ^ 8) (h3 : x3.toNat < 2 ^ 8) (h4 : x4.toNat < 2 ^ 8) (h5 : x5.toNat < 2 ^ 8) (h6 : x6.toNat < 2 ^ 8) (h7 : x7.toNat < 2 ^ 8) :
    (x0 ||| x1 <<< 8 ||| x2 <<< 16 ||| x3 <<< 24 ||| x4 <<< 32 ||| x5 <<< 40 ||| x6 <<< 48 ||| x7 <<< 56).toNat = x0.toNat + x1.toNat * 2 ^ 8 + x2.toNat * 2 ^ 16 + x3.toNat * 2 ^ 24 + x4.toNat * 2 ^ 32 + x5.toNat * 2 ^ 40 + x6.toNat * 2 ^ 48 + x7.toNat * 2 ^ 56 := by
  have e1 := or_step 64 (x0) x1 8 8 h0 h1 (by omega)
  have e2 := or_step 64 (x0 ||| x1 <<< 8) x2 16 8 (by rw [e1]; omega) h2 (by omega)
  rw [e1] at e2
  have e3 := or_step 64 (x0 ||| x1 <<< 8 ||| x2 <<< 16) x3 24 8 (by rw [e2]; omega) h3 (by omega)
  rw [e2] at e3
  have e4 := or_step 64 (x0 ||| x1 <<< 8 ||| x2 <<< 16 ||| x3 <<< 24) x4 32 8 (by rw [e3]; omega) h4 (by omega)
  rw [e3] at e4
  have e5 := or_step 64 (x0 ||| x1 <<< 8 ||| x2 <<< 16 ||| x3 <<< 24 ||| x4 <<< 32) x5 40 8 (by rw [e4]; omega) h5 (by omega)
  rw [e4] at e5
  have e6 := or_step 64 (x0 ||| x1 <<< 8 ||| x2 <<< 16 ||| x3 <<< 24 ||| x4 <<< 32 ||| x5 <<< 40) x6 48 8 (by rw [e5]; omega) h6 (by omega)
  rw [e5] at e6
  have e7 := or_step 64 (x0 ||| x1 <<< 8 ||| x2 <<< 16 ||| x3 <<< 24 ||| x4 <<< 32 ||| x5 <<< 40 ||| x6 <<< 48) x7 56 8 (by rw [e6]; omega) h7 (by omega)
  rw [e6] at e7
  exact e7

theorem decode_encode (v : BitVec 64) : decode (encode v) = (v, len v, true) := by
  have hv := v.isLt
  unfold encode len
  by_cases c1 : v.ult 0x80#64 = true
  · have n1 : v.toNat < 128 := by simpa [BitVec.ult] using c1
    simp only [c1, if_true, if_false, Bool.false_eq_true]
    have hw := Ltf8_w1 (v.setWidth 8) (by rw [vbyte0]; omega)
    rw [decode_1 _ hw]
    congr 1
    apply BitVec.eq_of_toNat_eq
    rw [val_1 _ (by rw [z_toNat]; exact BitVec.isLt _)]
    simp only [z_toNat, vbyte0, BitVec.toNat_ushiftRight, Nat.shiftRight_eq_div_pow, vbyte0]
    omega
  have f1 : v.ult 0x80#64 = false := by simpa using c1
  have m1 : 128 ≤ v.toNat := by
    have : ¬ v.toNat < 128 := by simpa [BitVec.ult] using c1
    omega
  by_cases c2 : v.ult 0x4000#64 = true
  · have n2 : v.toNat < 16384 := by simpa [BitVec.ult] using c2
    simp only [f1, c2, if_true, if_false, Bool.false_eq_true]
    have hw := Ltf8_w2 ((v >>> 8).setWidth 8)
    rw [decode_2 _ _ hw]
    congr 1
    apply BitVec.eq_of_toNat_eq
    rw [val_2 _ _ (by rw [z_toNat]; exact BitVec.isLt _) (by rw [z_toNat]; first | (rw [fb_val_2]; omega))]
    simp only [z_toNat, vbyte0, BitVec.toNat_ushiftRight, Nat.shiftRight_eq_div_pow, fb_val_2]
    omega
  have f2 : v.ult 0x4000#64 = false := by simpa using c2
  have m2 : 16384 ≤ v.toNat := by
    have : ¬ v.toNat < 16384 := by simpa [BitVec.ult] using c2
    omega
  by_cases c3 : v.ult 0x200000#64 = true
  · have n3 : v.toNat < 2097152 := by simpa [BitVec.ult] using c3
    simp only [f1, f2, c3, if_true, if_false, Bool.false_eq_true]
    have hw := Ltf8_w3 ((v >>> 16).setWidth 8)
    rw [decode_3 _ _ _ hw]
    congr 1
    apply BitVec.eq_of_toNat_eq
    rw [val_3 _ _ _ (by rw [z_toNat]; exact BitVec.isLt _) (by rw [z_toNat]; exact BitVec.isLt _) (by rw [z_toNat]; first | (rw [fb_val_3]; omega))]
    simp only [z_toNat, vbyte0, BitVec.toNat_ushiftRight, Nat.shiftRight_eq_div_pow, fb_val_3]
    omega
  have f3 : v.ult 0x200000#64 = false := by simpa using c3
  have m3 : 2097152 ≤ v.toNat := by
    have : ¬ v.toNat < 2097152 := by simpa [BitVec.ult] using c3
    omega
  by_cases c4 : v.ult 0x10000000#64 = true
  · have n4 : v.toNat < 268435456 := by simpa [BitVec.ult] using c4
    simp only [f1, f2, f3, c4, if_true, if_false, Bool.false_eq_true]
    have hw := Ltf8_w4 ((v >>> 24).setWidth 8)
    rw [decode_4 _ _ _ _ hw]
    congr 1
    apply BitVec.eq_of_toNat_eq
    rw [val_4 _ _ _ _ (by rw [z_toNat]; exact BitVec.isLt _) (by rw [z_toNat]; exact BitVec.isLt _) (by rw [z_toNat]; exact BitVec.isLt _) (by rw [z_toNat]; first | (rw [fb_val_4]; omega))]
    simp only [z_toNat, vbyte0, BitVec.toNat_ushiftRight, Nat.shiftRight_eq_div_pow, fb_val_4]
    omega
  have f4 : v.ult 0x10000000#64 = false := by simpa using c4
  have m4 : 268435456 ≤ v.toNat := by
    have : ¬ v.toNat < 268435456 := by simpa [BitVec.ult] using c4
    omega
  by_cases c5 : v.ult 0x800000000#64 = true
  · have n5 : v.toNat < 34359738368 := by simpa [BitVec.ult] using c5
    simp only [f1, f2, f3, f4, c5, if_true, if_false, Bool.false_eq_true]
    have hw := Ltf8_w5 ((v >>> 32).setWidth 8)
    rw [decode_5 _ _ _ _ _ hw]
    congr 1
    apply BitVec.eq_of_toNat_eq
    rw [val_5 _ _ _ _ _ (by rw [z_toNat]; exact BitVec.isLt _) (by rw [z_toNat]; exact BitVec.isLt _) (by rw [z_toNat]; exact BitVec.isLt _) (by rw [z_toNat]; exact BitVec.isLt _) (by rw [z_toNat]; first | (rw [fb_val_5]; omega))]
    simp only [z_toNat, vbyte0, BitVec.toNat_ushiftRight, Nat.shiftRight_eq_div_pow, fb_val_5]
    omega
  have f5 : v.ult 0x800000000#64 = false := by simpa using c5
  have m5 : 34359738368 ≤ v.toNat := by
    have : ¬ v.toNat < 34359738368 := by simpa [BitVec.ult] using c5
    omega
  by_cases c6 : v.ult 0x40000000000#64 = true
  · have n6 : v.toNat < 4398046511104 := by simpa [BitVec.ult] using c6
    simp only [f1, f2, f3, f4, f5, c6, if_true, if_false, Bool.false_eq_true]
    have hw := Ltf8_w6 ((v >>> 40).setWidth 8)
    rw [decode_6 _ _ _ _ _ _ hw]
    congr 1
    apply BitVec.eq_of_toNat_eq
    rw [val_6 _ _ _ _ _ _ (by rw [z_toNat]; exact BitVec.isLt _) (by rw [z_toNat]; exact BitVec.isLt _) (by rw [z_toNat]; exact BitVec.isLt _) (by rw [z_toNat]; exact BitVec.isLt _) (by rw [z_toNat]; exact BitVec.isLt _) (by rw [z_toNat]; first | (rw [fb_val_6]; omega))]
    simp only [z_toNat, vbyte0, BitVec.toNat_ushiftRight, Nat.shiftRight_eq_div_pow, fb_val_6]
    omega
  have f6 : v.ult 0x40000000000#64 = false := by simpa using c6
  have m6 : 4398046511104 ≤ v.toNat := by
    have : ¬ v.toNat < 4398046511104 := by simpa [BitVec.ult] using c6
    omega
  by_cases c7 : v.ult 0x2000000000000#64 = true
  · have n7 : v.toNat < 562949953421312 := by simpa [BitVec.ult] using c7
    simp only [f1, f2, f3, f4, f5, f6, c7, if_true, if_false, Bool.false_eq_true]
    have hw := Ltf8_w7 ((v >>> 48).setWidth 8)
    rw [decode_7 _ _ _ _ _ _ _ hw]
    congr 1
    apply BitVec.eq_of_toNat_eq
    rw [val_7 _ _ _ _ _ _ _ (by rw [z_toNat]; exact BitVec.isLt _) (by rw [z_toNat]; exact BitVec.isLt _) (by rw [z_toNat]; exact BitVec.isLt _) (by rw [z_toNat]; exact BitVec.isLt _) (by rw [z_toNat]; exact BitVec.isLt _) (by rw [z_toNat]; exact BitVec.isLt _) (by rw [z_toNat]; first | (rw [fb_val_7]; omega))]
    simp only [z_toNat, vbyte0, BitVec.toNat_ushiftRight, Nat.shiftRight_eq_div_pow, fb_val_7]
    omega
  have f7 : v.ult 0x2000000000000#64 = false := by simpa using c7
  have m7 : 562949953421312 ≤ v.toNat := by
    have : ¬ v.toNat < 562949953421312 := by simpa [BitVec.ult] using c7
    omega
  by_cases c8 : v.ult 0x100000000000000#64 = true
  · have n8 : v.toNat < 72057594037927936 := by simpa [BitVec.ult] using c8
    simp only [f1, f2, f3, f4, f5, f6, f7, c8, if_true, if_false, Bool.false_eq_true]
    have hw := Ltf8_w8
    rw [decode_8 _ _ _ _ _ _ _ _ hw]
    congr 1
    apply BitVec.eq_of_toNat_eq
    rw [val_8 _ _ _ _ _ _ _ (by rw [z_toNat]; exact BitVec.isLt _) (by rw [z_toNat]; exact BitVec.isLt _) (by rw [z_toNat]; exact BitVec.isLt _) (by rw [z_toNat]; exact BitVec.isLt _) (by rw [z_toNat]; exact BitVec.isLt _) (by rw [z_toNat]; exact BitVec.isLt _) (by rw [z_toNat]; exact BitVec.isLt _)]
    simp only [z_toNat, vbyte0, BitVec.toNat_ushiftRight, Nat.shiftRight_eq_div_pow, vbyte0]
    omega
  have f8 : v.ult 0x100000000000000#64 = false := by simpa using c8
  have m8 : 72057594037927936 ≤ v.toNat := by
    have : ¬ v.toNat < 72057594037927936 := by simpa [BitVec.ult] using c8
    omega
  · skip
    simp only [f1, f2, f3, f4, f5, f6, f7, f8, if_true, if_false, Bool.false_eq_true]
    have hw := Ltf8_w9
    rw [decode_9 _ _ _ _ _ _ _ _ _ hw]
    congr 1
    apply BitVec.eq_of_toNat_eq
    rw [val_9 _ _ _ _ _ _ _ _ (by rw [z_toNat]; exact BitVec.isLt _) (by rw [z_toNat]; exact BitVec.isLt _) (by rw [z_toNat]; exact BitVec.isLt _) (by rw [z_toNat]; exact BitVec.isLt _) (by rw [z_toNat]; exact BitVec.isLt _) (by rw [z_toNat]; exact BitVec.isLt _) (by rw [z_toNat]; exact BitVec.isLt _) (by rw [z_toNat]; exact BitVec.isLt _)]
    simp only [z_toNat, vbyte0, BitVec.toNat_ushiftRight, Nat.shiftRight_eq_div_pow, vbyte0]
    omega

end Ltf8K

end Hts.Lemmas.Kernel
