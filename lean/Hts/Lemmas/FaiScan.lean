/-
C19 helper lemmas, part 1: bytes, TrimSpace, the scanner's tokens, and `scan` as a fold of `step` over lines.
-/
import Hts.Model.Fai
import Hts.Spec.Fasta
set_option linter.unusedVariables false
set_option linter.unusedSimpArgs false
namespace Hts.Lemmas.Fai
open Hts.Model.Fai
open Hts.Spec.Fasta (isGraphic isBase isDescByte isBlankByte)

/-! ### byte classes -/

theorem space_of_blank {b : UInt8} (h : isBlankByte b = true) : isSpace b = true := by
  simp only [isBlankByte, isSpace, decide_eq_true_eq] at *; omega

theorem notLF_of_blank {b : UInt8} (h : isBlankByte b = true) : notLF b = true := by
  simp only [isBlankByte, notLF, decide_eq_true_eq] at *; omega

theorem not_space_of_graphic {b : UInt8} (h : isGraphic b = true) : isSpace b = false := by
  simp only [isGraphic, isSpace, decide_eq_true_eq, decide_eq_false_iff_not] at *; omega

theorem notLF_of_graphic {b : UInt8} (h : isGraphic b = true) : notLF b = true := by
  simp only [isGraphic, notLF, decide_eq_true_eq] at *; omega

theorem notSpTab_of_graphic {b : UInt8} (h : isGraphic b = true) : notSpTab b = true := by
  simp only [isGraphic, notSpTab, decide_eq_true_eq] at *; omega

theorem graphic_of_base {b : UInt8} (h : isBase b = true) : isGraphic b = true := by
  simp only [isBase, Bool.and_eq_true] at h; exact h.1

theorem ne_GT_of_base {b : UInt8} (h : isBase b = true) : b ≠ GT := by
  intro hb
  simp only [isBase, Bool.and_eq_true, decide_eq_true_eq] at h
  apply h.2; rw [hb]; rfl

theorem notLF_of_desc {b : UInt8} (h : isDescByte b = true) : notLF b = true := by
  simp only [isDescByte, notLF, decide_eq_true_eq] at *; omega

theorem GT_graphic : isGraphic GT = true := by decide

/-! ### TrimSpace -/

theorem dropWhile_space_cons {x : UInt8} (l : Bytes) (h : isSpace x = false) :
    (x :: l).dropWhile isSpace = x :: l := by
  simp [List.dropWhile, h]

theorem dropWhile_all_space (l : Bytes) (h : ∀ b ∈ l, isSpace b = true) : l.dropWhile isSpace = [] := by
  induction l with
  | nil => rfl
  | cons x xs ih =>
    simp only [List.dropWhile, h x (List.mem_cons_self)]
    exact ih (fun b hb => h b (List.mem_cons_of_mem _ hb))

theorem trimRight_append_space (g t : Bytes) (h : ∀ b ∈ t, isSpace b = true) :
    trimRight (g ++ t) = trimRight g := by
  unfold trimRight
  rw [List.reverse_append]
  congr 1
  have : ∀ (a b : Bytes), (∀ x ∈ a, isSpace x = true) → (a ++ b).dropWhile isSpace = b.dropWhile isSpace := by
    intro a b ha
    induction a with
    | nil => rfl
    | cons x xs ih =>
      simp only [List.cons_append, List.dropWhile, ha x List.mem_cons_self]
      exact ih (fun y hy => ha y (List.mem_cons_of_mem _ hy))
  exact this _ _ (fun x hx => h x (List.mem_reverse.mp hx))

theorem trimRight_snoc (g : Bytes) (x : UInt8) (h : isSpace x = false) : trimRight (g ++ [x]) = g ++ [x] := by
  unfold trimRight
  rw [List.reverse_append]
  simp [List.dropWhile, h]

theorem trimSpace_all_space (l : Bytes) (h : ∀ b ∈ l, isSpace b = true) : trimSpace l = [] := by
  unfold trimSpace; rw [dropWhile_all_space l h]; rfl

/-- a block of non-space bytes followed by white space trims to the block -/
theorem trimSpace_block (g t : Bytes) (hg : ∀ b ∈ g, isSpace b = false) (ht : ∀ b ∈ t, isSpace b = true) :
    trimSpace (g ++ t) = g := by
  cases g with
  | nil => simpa using trimSpace_all_space t ht
  | cons x xs =>
    unfold trimSpace
    rw [List.cons_append, dropWhile_space_cons _ (hg x List.mem_cons_self), ← List.cons_append,
      trimRight_append_space _ _ ht]
    -- x :: xs ends with a non-space byte
    have hne : x :: xs ≠ [] := by simp
    obtain ⟨ys, y, hy⟩ : ∃ ys y, x :: xs = ys ++ [y] := by
      refine ⟨(x :: xs).dropLast, (x :: xs).getLast hne, ?_⟩
      exact (List.dropLast_concat_getLast hne).symm
    rw [hy]
    apply trimRight_snoc
    apply hg; rw [hy]; simp

/-! ### scanner tokens -/

theorem takeWhile_append_stop (l rest : Bytes) (nl : UInt8) (hl : ∀ b ∈ l, notLF b = true) (hnl : notLF nl = false) :
    (l ++ nl :: rest).takeWhile notLF = l ∧ (l ++ nl :: rest).dropWhile notLF = nl :: rest := by
  induction l with
  | nil => simp [List.takeWhile, List.dropWhile, hnl]
  | cons x xs ih =>
    have hx := hl x List.mem_cons_self
    have := ih (fun b hb => hl b (List.mem_cons_of_mem _ hb))
    simp [List.takeWhile, List.dropWhile, hx, this.1, this.2]

theorem takeLine_terminated (l rest : Bytes) (nl : UInt8) (hl : ∀ b ∈ l, notLF b = true) (hnl : notLF nl = false) :
    takeLine (l ++ nl :: rest) = (l ++ [nl], rest) := by
  unfold takeLine
  have := takeWhile_append_stop l rest nl hl hnl
  rw [this.2, this.1]

theorem takeLine_unterminated (l : Bytes) (hl : ∀ b ∈ l, notLF b = true) : takeLine l = (l, []) := by
  unfold takeLine
  have h1 : l.dropWhile notLF = [] := by
    induction l with
    | nil => rfl
    | cons x xs ih =>
      simp only [List.dropWhile, hl x List.mem_cons_self]
      exact ih (fun b hb => hl b (List.mem_cons_of_mem _ hb))
  have h2 : l.takeWhile notLF = l := by
    induction l with
    | nil => rfl
    | cons x xs ih =>
      simp only [List.takeWhile, hl x List.mem_cons_self]
      rw [ih (fun b hb => hl b (List.mem_cons_of_mem _ hb))]
      simp only [List.dropWhile, hl x List.mem_cons_self] at h1
      exact h1
  rw [h1, h2]

theorem notLF_LF : notLF Hts.Spec.Fasta.LF = false := by decide

/-! ### `scan` is `steps` over the lines -/

/-- `step` folded over a list of tokens -/
def steps (st : ScanState) : List Bytes → Except IdxErr ScanState
  | [] => .ok st
  | l :: ls =>
    match step st l with
    | .error e => .error e
    | .ok st' => steps st' ls

theorem steps_append (st : ScanState) (a b : List Bytes) :
    steps st (a ++ b) = match steps st a with
      | .error e => .error e
      | .ok st' => steps st' b := by
  induction a generalizing st with
  | nil => rfl
  | cons l ls ih =>
    simp only [List.cons_append, steps]
    cases step st l with
    | error e => rfl
    | ok st' => exact ih st'

/-- a token ending in LF -/
def Term (l : Bytes) : Prop := ∃ c, (∀ b ∈ c, notLF b = true) ∧ l = c ++ [Hts.Spec.Fasta.LF]

/-- a non-empty last token without LF -/
def Unterm (l : Bytes) : Prop := l ≠ [] ∧ ∀ b ∈ l, notLF b = true

theorem scan_nil (st : ScanState) : scan st [] = .ok st := by
  rw [scan]

theorem scan_term (st : ScanState) (l rest : Bytes) (h : Term l) :
    scan st (l ++ rest) = match step st l with
      | .error e => .error e
      | .ok st' => scan st' rest := by
  obtain ⟨c, hc, rfl⟩ := h
  have htl : takeLine (c ++ Hts.Spec.Fasta.LF :: rest) = (c ++ [Hts.Spec.Fasta.LF], rest) :=
    takeLine_terminated c rest _ hc notLF_LF
  have hne : c ++ [Hts.Spec.Fasta.LF] ++ rest = c ++ Hts.Spec.Fasta.LF :: rest := by simp
  rw [hne]
  cases hcr : c ++ Hts.Spec.Fasta.LF :: rest with
  | nil => simp at hcr
  | cons x xs =>
    rw [scan, ← hcr, htl]
    rfl

theorem scan_unterm (st : ScanState) (l : Bytes) (h : Unterm l) :
    scan st l = step st l := by
  obtain ⟨hne, hl⟩ := h
  have htl := takeLine_unterminated l hl
  cases l with
  | nil => exact absurd rfl hne
  | cons x xs =>
    rw [scan, htl]
    cases step st (x :: xs) with
    | error e => rfl
    | ok st' => simp only [scan_nil]

/-- all tokens terminated -/
theorem scan_lines (st : ScanState) (ls : List Bytes) (rest : Bytes) (h : ∀ l ∈ ls, Term l) :
    scan st (ls.flatten ++ rest) = match steps st ls with
      | .error e => .error e
      | .ok st' => scan st' rest := by
  induction ls generalizing st with
  | nil => simp [steps]
  | cons l ls ih =>
    simp only [List.flatten_cons, List.append_assoc, steps]
    rw [scan_term st l _ (h l List.mem_cons_self)]
    cases step st l with
    | error e => rfl
    | ok st' => exact ih st' (fun x hx => h x (List.mem_cons_of_mem _ hx))

/-- all tokens terminated, except possibly the last one -/
def LinesOK : List Bytes → Prop
  | [] => True
  | [l] => Term l ∨ Unterm l
  | l :: l' :: ls => Term l ∧ LinesOK (l' :: ls)

theorem scan_eq_steps (st : ScanState) (ls : List Bytes) (h : LinesOK ls) :
    scan st ls.flatten = steps st ls := by
  induction ls generalizing st with
  | nil => simp [steps, scan_nil]
  | cons l ls ih =>
    cases ls with
    | nil =>
      simp only [List.flatten_cons, List.flatten_nil, List.append_nil, steps]
      rcases h with h | h
      · have := scan_term st l [] h
        rw [List.append_nil] at this
        rw [this]
        cases step st l with
        | error e => rfl
        | ok st' => simp [scan_nil]
      · rw [scan_unterm st l h]
        cases step st l with
        | error e => rfl
        | ok st' => rfl
    | cons l' ls' =>
      rw [List.flatten_cons, scan_term st l _ h.1]
      simp only [steps]
      cases step st l with
      | error e => rfl
      | ok st' => exact ih st' h.2

end Hts.Lemmas.Fai
