/-
Decimal and hexadecimal text: `showNat`/`showInt`/`showHex` are read back by the model of
strconv.ParseUint / ParseInt / Atoi (base 10 and base 0).  Core only.
-/
import Hts.Model.SamText
namespace Hts.Model.SamText

theorem showNatF_fuel : ∀ f g n, n < f → n < g → showNatF f n = showNatF g n := by
  intro f
  induction f with
  | zero => intro g n h; omega
  | succ f ih =>
    intro g n h hg
    cases g with
    | zero => omega
    | succ g =>
      rw [showNatF, showNatF]
      by_cases hn : n < 10
      · simp [hn]
      · simp only [hn, if_false]
        rw [ih g (n / 10) (by omega) (by omega)]

theorem showNat_unfold (n : Nat) :
    showNat n = if n < 10 then [digitChar n] else showNat (n / 10) ++ [digitChar (n % 10)] := by
  unfold showNat
  rw [showNatF]
  by_cases hn : n < 10
  · simp [hn]
  · simp only [hn, if_false]
    rw [showNatF_fuel n (n / 10 + 1) (n / 10) (by omega) (by omega)]

theorem showHexF_fuel : ∀ f g n, n < f → n < g → showHexF f n = showHexF g n := by
  intro f
  induction f with
  | zero => intro g n h; omega
  | succ f ih =>
    intro g n h hg
    cases g with
    | zero => omega
    | succ g =>
      rw [showHexF, showHexF]
      by_cases hn : n < 16
      · simp [hn]
      · simp only [hn, if_false]
        rw [ih g (n / 16) (by omega) (by omega)]

theorem showHex_unfold (n : Nat) :
    showHex n = if n < 16 then [hexDigitLower n] else showHex (n / 16) ++ [hexDigitLower (n % 16)] := by
  unfold showHex
  rw [showHexF]
  by_cases hn : n < 16
  · simp [hn]
  · simp only [hn, if_false]
    rw [showHexF_fuel n (n / 16 + 1) (n / 16) (by omega) (by omega)]

/-! ### digit characters -/

theorem digitChar_facts : ∀ d, d < 10 →
    digitVal (digitChar d) = some d ∧ isDec (digitChar d) = true ∧ digitChar d ≠ 95 ∧ digitChar d ≠ 9 ∧
    digitChar d ≠ 44 ∧ digitChar d ≠ 43 ∧ digitChar d ≠ 45 ∧ digitChar d ≠ 10 ∧ digitChar d ≠ 13 ∧
    (digitChar d).toNat - 48 = d ∧ (digitChar d = 48 ↔ d = 0) := by decide

theorem hexDigitLower_facts : ∀ d, d < 16 →
    digitVal (hexDigitLower d) = some d ∧ hexDigitLower d ≠ 95 ∧ hexDigitLower d ≠ 9 := by decide

/-- every byte of `showNat n` is a decimal digit -/
theorem showNat_digits (n : Nat) : ∀ c ∈ showNat n, ∃ d, d < 10 ∧ c = digitChar d := by
  induction n using Nat.strongRecOn with
  | _ n ih =>
    intro c hc
    rw [showNat_unfold] at hc
    by_cases hn : n < 10
    · simp only [hn, if_true, List.mem_singleton] at hc
      exact ⟨n, hn, hc⟩
    · simp only [hn, if_false, List.mem_append, List.mem_singleton] at hc
      rcases hc with hc | hc
      · exact ih (n / 10) (by omega) c hc
      · exact ⟨n % 10, by omega, hc⟩

theorem showNat_ne_nil (n : Nat) : showNat n ≠ [] := by
  rw [showNat_unfold]; split <;> simp

theorem showHex_digits (n : Nat) : ∀ c ∈ showHex n, ∃ d, d < 16 ∧ c = hexDigitLower d := by
  induction n using Nat.strongRecOn with
  | _ n ih =>
    intro c hc
    rw [showHex_unfold] at hc
    by_cases hn : n < 16
    · simp only [hn, if_true, List.mem_singleton] at hc
      exact ⟨n, hn, hc⟩
    · simp only [hn, if_false, List.mem_append, List.mem_singleton] at hc
      rcases hc with hc | hc
      · exact ih (n / 16) (by omega) c hc
      · exact ⟨n % 16, by omega, hc⟩

theorem showHex_ne_nil (n : Nat) : showHex n ≠ [] := by
  rw [showHex_unfold]; split <;> simp

/-- the first digit is `0` only for zero -/
theorem showNat_head (n : Nat) : ∃ c rest, showNat n = c :: rest ∧ (c = 48 ↔ n = 0) ∧ isDec c = true := by
  induction n using Nat.strongRecOn with
  | _ n ih =>
    rw [showNat_unfold]
    by_cases hn : n < 10
    · simp only [hn, if_true]
      have := digitChar_facts n hn
      exact ⟨_, [], rfl, this.2.2.2.2.2.2.2.2.2.2, this.2.1⟩
    · simp only [hn, if_false]
      obtain ⟨c, rest, h1, h2, h3⟩ := ih (n / 10) (by omega)
      refine ⟨c, rest ++ [digitChar (n % 10)], by rw [h1]; rfl, ?_, h3⟩
      constructor
      · intro h; have := h2.mp h; omega
      · intro h; omega

/-! ### the digit loop of ParseUint -/

theorem digitsLoop_append (base : Nat) (b0 : Bool) (xs ys : Bytes) : ∀ acc,
    digitsLoop base b0 (xs ++ ys) acc = (digitsLoop base b0 xs acc).bind (digitsLoop base b0 ys) := by
  induction xs with
  | nil => intro acc; simp [digitsLoop]
  | cons c rest ih =>
    intro acc
    simp only [List.cons_append, digitsLoop]
    split
    · exact ih acc
    · split
      · simp
      · split
        · simp
        · exact ih _

theorem digitsLoop_single_dec (b0 : Bool) (d acc : Nat) (hd : d < 10) :
    digitsLoop 10 b0 [digitChar d] acc = some (acc * 10 + d) := by
  have h := digitChar_facts d hd
  simp [digitsLoop, h.1, h.2.2.1]
  omega

theorem digitsLoop_showNat (b0 : Bool) (n : Nat) : digitsLoop 10 b0 (showNat n) 0 = some n := by
  induction n using Nat.strongRecOn with
  | _ n ih =>
    rw [showNat_unfold]
    by_cases hn : n < 10
    · simp only [hn, if_true]
      rw [digitsLoop_single_dec b0 n 0 hn]; simp
    · simp only [hn, if_false]
      rw [digitsLoop_append, ih (n / 10) (by omega)]
      simp only [Option.bind_some]
      rw [digitsLoop_single_dec b0 (n % 10) (n / 10) (by omega)]
      congr 1; omega

theorem digitsLoop_single_hex (b0 : Bool) (d acc : Nat) (hd : d < 16) :
    digitsLoop 16 b0 [hexDigitLower d] acc = some (acc * 16 + d) := by
  have h := hexDigitLower_facts d hd
  simp [digitsLoop, h.1, h.2.1]
  omega

theorem digitsLoop_showHex (b0 : Bool) (n : Nat) : digitsLoop 16 b0 (showHex n) 0 = some n := by
  induction n using Nat.strongRecOn with
  | _ n ih =>
    rw [showHex_unfold]
    by_cases hn : n < 16
    · simp only [hn, if_true]
      rw [digitsLoop_single_hex b0 n 0 hn]; simp
    · simp only [hn, if_false]
      rw [digitsLoop_append, ih (n / 16) (by omega)]
      simp only [Option.bind_some]
      rw [digitsLoop_single_hex b0 (n % 16) (n / 16) (by omega)]
      congr 1; omega

/-! ### ParseUint / ParseInt / Atoi read back what `%d` and `0x%x` print -/

theorem contains_false_of_forall (s : Bytes) (x : UInt8) (h : ∀ c ∈ s, c ≠ x) : s.contains x = false := by
  induction s with
  | nil => rfl
  | cons c rest ih =>
    simp only [List.contains_cons, Bool.or_eq_false_iff]
    refine ⟨?_, ih (fun d hd => h d (List.mem_cons_of_mem _ hd))⟩
    have := h c List.mem_cons_self
    simp [this.symm] 

theorem showNat_no_underscore (n : Nat) : (showNat n).contains 95 = false := by
  apply contains_false_of_forall
  intro c hc
  obtain ⟨d, hd, rfl⟩ := showNat_digits n c hc
  exact (digitChar_facts d hd).2.2.1

theorem basePrefix_of_ne (c : UInt8) (rest : Bytes) (h : c ≠ 48) : basePrefix (c :: rest) = (10, c :: rest) := by
  unfold basePrefix
  split
  · rename_i heq; simp at heq; exact absurd heq.1 h
  · rfl

/-- base 10: `strconv.ParseUint(showNat n, 10, bits)` -/
theorem parseUintGo_showNat_10 (n bits : Nat) (h : n < 2 ^ bits) : parseUintGo (showNat n) 10 bits = some n := by
  unfold parseUintGo
  have hne : (showNat n).isEmpty = false := by
    have := showNat_ne_nil n; cases hs : showNat n <;> simp_all
  simp [hne, digitsLoop_showNat, Nat.not_le.mpr h]

/-- base 0 (prefix detection, underscores): a decimal number without leading zeros reads as itself -/
theorem parseUintGo_showNat_0 (n bits : Nat) (h : n < 2 ^ bits) : parseUintGo (showNat n) 0 bits = some n := by
  unfold parseUintGo
  have hne : (showNat n).isEmpty = false := by
    have := showNat_ne_nil n; cases hs : showNat n <;> simp_all
  obtain ⟨c, rest, hs, hz, _⟩ := showNat_head n
  by_cases hn : n = 0
  · subst hn
    have : showNat 0 = [48] := by rw [showNat_unfold]; rfl
    rw [this]
    simp [basePrefix, digitsLoop]
  · have hc : c ≠ 48 := fun e => hn (hz.mp e)
    have hu := showNat_no_underscore n
    have hd := digitsLoop_showNat true n
    rw [hs] at hu hd ⊢
    have hu' : ¬ (95 = c ∨ 95 ∈ rest) := by simpa using hu
    simp [basePrefix_of_ne c rest hc, hd, hu', Nat.not_le.mpr h]

/-- `0x` + lower-case hex digits, base 0 -/
theorem parseUintGo_hex (n bits : Nat) (h : n < 2 ^ bits) :
    parseUintGo (48 :: 120 :: showHex n) 0 bits = some n := by
  obtain ⟨c, rest, hs⟩ : ∃ c rest, showHex n = c :: rest := by
    have := showHex_ne_nil n; cases hs : showHex n with
    | nil => exact absurd hs this
    | cons c rest => exact ⟨c, rest, rfl⟩
  have hu : (48 :: 120 :: showHex n).contains 95 = false := by
    apply contains_false_of_forall
    intro x hx
    simp only [List.mem_cons] at hx
    rcases hx with rfl | rfl | hx
    · decide
    · decide
    · obtain ⟨d, hd, rfl⟩ := showHex_digits n x hx
      exact (hexDigitLower_facts d hd).2.1
  have hd := digitsLoop_showHex true n
  unfold parseUintGo
  rw [hs] at hu hd ⊢
  have hb : basePrefix (48 :: 120 :: c :: rest) = (16, c :: rest) := by
    simp only [basePrefix, lower, List.drop_succ_cons, List.drop_zero]
    rw [if_neg (by decide), if_neg (by decide), if_pos (by decide)]
  have hu' : ¬ (95 = c ∨ 95 ∈ rest) := by simpa using hu
  simp [hb, hd, hu', Nat.not_le.mpr h]

/-- `strconv.ParseInt(showInt i, base, bits)` for base 10 or 0 -/
theorem parseIntGo_showInt (i : Int) (base bits : Nat) (hb : base = 10 ∨ base = 0) (hbits : 1 ≤ bits)
    (hlo : -(2 ^ (bits - 1) : Int) ≤ i) (hhi : i < (2 ^ (bits - 1) : Int)) :
    parseIntGo (showInt i) base bits = some i := by
  have hpow : (2 : Nat) ^ bits = 2 * 2 ^ (bits - 1) := by
    obtain ⟨k, rfl⟩ : ∃ k, bits = k + 1 := ⟨bits - 1, by omega⟩
    simp [Nat.pow_succ, Nat.mul_comm]
  have hpu : ∀ m : Nat, m < 2 ^ bits → parseUintGo (showNat m) base bits = some m := by
    intro m hm
    rcases hb with rfl | rfl
    · exact parseUintGo_showNat_10 m bits hm
    · exact parseUintGo_showNat_0 m bits hm
  unfold showInt
  by_cases hneg : i < 0
  · simp only [hneg, if_true]
    unfold parseIntGo
    have hm : i.natAbs < 2 ^ bits := by
      have : (i.natAbs : Int) ≤ 2 ^ (bits - 1) := by omega
      have : i.natAbs ≤ 2 ^ (bits - 1) := by exact_mod_cast this
      omega
    simp only [or_true, if_true]
    rw [hpu _ hm]
    have h1 : ¬ (2 ^ (bits - 1) < i.natAbs) := by
      have : (i.natAbs : Int) ≤ 2 ^ (bits - 1) := by omega
      have : i.natAbs ≤ 2 ^ (bits - 1) := by exact_mod_cast this
      omega
    simp [h1]
    omega
  · simp only [hneg, if_false]
    obtain ⟨c, rest, hs, _, hdec⟩ := showNat_head i.toNat
    have hc : c ≠ 43 ∧ c ≠ 45 := by
      have : c ∈ showNat i.toNat := by rw [hs]; exact List.mem_cons_self
      obtain ⟨d, hd, rfl⟩ := showNat_digits _ c this
      exact ⟨(digitChar_facts d hd).2.2.2.2.2.1, (digitChar_facts d hd).2.2.2.2.2.2.1⟩
    have hm : i.toNat < 2 ^ (bits - 1) := by
      have : (i.toNat : Int) < 2 ^ (bits - 1) := by omega
      exact_mod_cast this
    have hp := hpu i.toNat (by omega)
    unfold parseIntGo
    rw [hs] at hp ⊢
    simp only [hc.1, hc.2, false_or, if_false]
    rw [hp]
    simp [Nat.not_le.mpr hm]
    omega

theorem atoi_showInt (i : Int) (hlo : -9223372036854775808 ≤ i) (hhi : i < 9223372036854775808) :
    atoi (showInt i) = some i :=
  parseIntGo_showInt i 10 64 (Or.inl rfl) (by omega) (by simpa using hlo) (by simpa using hhi)

/-- unsigned elements: `strconv.ParseUint(showInt v, 0, bits)` -/
theorem parseUintGo_showInt (v : Int) (bits : Nat) (h0 : 0 ≤ v) (h1 : v < (2 ^ bits : Nat)) :
    parseUintGo (showInt v) 0 bits = some v.toNat := by
  unfold showInt
  simp only [Int.not_lt.mpr h0, if_false]
  exact parseUintGo_showNat_0 _ _ (by omega)

end Hts.Model.SamText
