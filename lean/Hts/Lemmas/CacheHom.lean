/-
Cache homomorphisms: if the cache kind `o'` (states `τ`) is the cache kind `o` (states `σ`) plus bookkeeping that never
influences a result — `π : τ → σ` forgets the bookkeeping and every operation commutes with `π` — then the reader
with `o'` caches does exactly what the reader with the projected `o` caches does: same outputs, same faults, same
blocks.  `StatsRecorder{Cache: inner}` (`recorderOps o`, `π = Prod.fst`) is the instance: its counters are written by
Get/Put and read by nobody.  No contract, no invariant, no hypothesis on the code variant or the file.
-/
import Hts.Model.CachedReader
import Hts.Lemmas.CachedReader
import Hts.Lemmas.CacheSum
namespace Hts.Model.CachedReader
open Hts.Model.Cache Hts.Spec.CacheContract

variable {σ τ : Type}

/-- every operation of `o'` is the operation of `o` on the projected state -/
structure Hom (o' : CacheOps τ) (o : CacheOps σ) (π : τ → σ) : Prop where
  put : ∀ h s id hint, o.put h (π s) id hint = (o'.put h s id hint).map (fun x => (π x.1, x.2))
  get : ∀ h s k, o.get h (π s) k = (π (o'.get h s k).1, (o'.get h s k).2)
  peek : ∀ h s k, o.peek h (π s) k = o'.peek h s k
  held : ∀ s, o.held (π s) = o'.held s

/-- a StatsRecorder is its inner cache plus counters -/
theorem recorder_hom (o : CacheOps σ) : Hom (recorderOps o) o Prod.fst where
  put h s id hint := by
    simp only [recorderOps]
    cases o.put h s.1 id hint with
    | none => rfl
    | some x => rfl
  get _ _ _ := rfl
  peek _ _ _ := rfl
  held _ := rfl

/-- the reader with every cache object projected -/
def Reader.mapC (π : τ → σ) (r : Reader τ) : Reader σ :=
  { heap := r.heap, fresh := r.fresh, cur := r.cur, err := r.err, chunkBegin := r.chunkBegin, chunkEnd := r.chunkEnd,
    blocked := r.blocked, cache := r.cache.map π, hints := r.hints, lent := r.lent, parked := r.parked.map π }

def Op.mapC (π : τ → σ) : Op τ → Op σ
  | .seek a b => .seek a b
  | .read n => .read n
  | .readByte => .readByte
  | .setCache c h => .setCache (c.map π) h
  | .reattach i h => .reattach i h
  | .setBlocked b => .setBlocked b

def mapR (π : τ → σ) {α : Type} : Except Fault (Reader τ × α) → Except Fault (Reader σ × α)
  | .error e => .error e
  | .ok (r, a) => .ok (r.mapC π, a)

def mapR0 (π : τ → σ) : Except Fault (Reader τ) → Except Fault (Reader σ)
  | .error e => .error e
  | .ok r => .ok (r.mapC π)

section
variable {o' : CacheOps τ} {o : CacheOps σ} {π : τ → σ}

@[simp] theorem mapC_hview (r : Reader τ) : (r.mapC π).hview = r.hview := rfl
@[simp] theorem mapC_heap (r : Reader τ) : (r.mapC π).heap = r.heap := rfl
@[simp] theorem mapC_cur (r : Reader τ) : (r.mapC π).cur = r.cur := rfl
@[simp] theorem mapC_err (r : Reader τ) : (r.mapC π).err = r.err := rfl
@[simp] theorem mapC_lent (r : Reader τ) : (r.mapC π).lent = r.lent := rfl
@[simp] theorem mapC_hints (r : Reader τ) : (r.mapC π).hints = r.hints := rfl
@[simp] theorem mapC_blocked (r : Reader τ) : (r.mapC π).blocked = r.blocked := rfl
@[simp] theorem mapC_fresh (r : Reader τ) : (r.mapC π).fresh = r.fresh := rfl
@[simp] theorem mapC_cache (r : Reader τ) : (r.mapC π).cache = r.cache.map π := rfl
theorem mapC_setB (r : Reader τ) (id : Nat) (b : RBlk) : (r.mapC π).setB id b = (r.setB id b).mapC π := rfl
theorem mapC_markLent (r : Reader τ) (b : Bool) (id : Nat) :
    markLent (r.mapC π) b id = (markLent r b id).mapC π := by
  cases b <;> rfl
theorem mapC_curOffset (r : Reader τ) : curOffset (r.mapC π) = curOffset r := rfl

theorem mapR_ite {α : Type} (c : Prop) [Decidable c] (a b : Except Fault (Reader τ × α)) :
    mapR π (if c then a else b) = if c then mapR π a else mapR π b := by split <;> rfl
theorem mapR0_ite (c : Prop) [Decidable c] (a b : Except Fault (Reader τ)) :
    mapR0 π (if c then a else b) = if c then mapR0 π a else mapR0 π b := by split <;> rfl

theorem cachePut_hom (H : Hom o' o π) (r : Reader τ) (c : τ) (b : Option Nat) :
    cachePut o (r.mapC π) (π c) b =
      match cachePut o' r c b with
      | .error e => .error e
      | .ok (r2, c2, back, kept) => .ok (r2.mapC π, π c2, back, kept) := by
  unfold cachePut
  cases b with
  | none => rfl
  | some id =>
    simp only [mapC_heap, mapC_hview, mapC_hints, H.held, H.put]
    split
    · rfl
    · cases o'.put r.hview c id _ with
      | none => rfl
      | some x =>
        obtain ⟨c', res⟩ := x
        cases res with
        | refused => rfl
        | panic => rfl
        | kept ev => cases ev <;> rfl

theorem recycle_hom (H : Hom o' o π) (cfg : Cfg) (r2 : Reader τ) (c2 : τ) (ret : Bool) (back : Option Nat) :
    recycle cfg o (r2.mapC π) (π c2) ret back = recycle cfg o' r2 c2 ret back := by
  unfold recycle
  simp only [mapC_heap, mapC_hview, mapC_lent, H.peek]

theorem cacheSwap_hom (H : Hom o' o π) (cfg : Cfg) (r : Reader τ) (base : Int) :
    cacheSwap cfg o (r.mapC π) base = mapR π (cacheSwap cfg o' r base) := by
  unfold cacheSwap
  cases hc : r.cache with
  | none =>
    simp only [mapC_cache, hc, Option.map_none, mapC_cur, mapC_lent]
    split <;> simp only [mapR, Reader.mapC, hc, Option.map_none]
  | some c =>
    simp only [mapC_cache, hc, Option.map_some, mapC_hview, H.get]
    cases hg : o'.get r.hview c base with
    | mk c1 x =>
      cases x with
      | some id =>
        simp only [H.peek, mapC_heap, mapC_setB, mapC_markLent, cachePut_hom H, mapC_cur]
        cases cachePut o' _ c1 _ with
        | error e => rfl
        | ok v => obtain ⟨r2, c2, bk, kp⟩ := v; rfl
      | none =>
        simp only [cachePut_hom H, mapC_cur]
        cases cachePut o' r c1 r.cur with
        | error e => rfl
        | ok v =>
          obtain ⟨r2, c2, bk, kp⟩ := v
          simp only [recycle_hom H, mapR]
          rfl

theorem peekSkip_hom (H : Hom o' o π) (h : Heap) (c : τ) : ∀ (fuel : Nat) (off : Int),
    peekSkip o h (π c) fuel off = peekSkip o' h c fuel off
  | 0, _ => rfl
  | fuel + 1, off => by
    unfold peekSkip
    simp only [H.peek]
    split
    · exact peekSkip_hom H h c fuel _
    · rfl

theorem skipCached_hom (H : Hom o' o π) (r : Reader τ) (off : Int) :
    skipCached o (r.mapC π) off = skipCached o' r off := by
  unfold skipCached
  cases hc : r.cache with
  | none => simp only [mapC_cache, hc, Option.map_none]
  | some c => simp only [mapC_cache, hc, Option.map_some, mapC_hview, H.held, peekSkip_hom H]

theorem loadAt_hom (cfg : Cfg) (f : File) (r : Reader τ) (off : Int) :
    loadAt cfg f (r.mapC π) off = ((loadAt cfg f r off).1.mapC π, (loadAt cfg f r off).2) := by
  unfold loadAt lazyBlock
  cases hc : r.cur with
  | none =>
    simp only [mapC_cur, hc]
    cases f.find off <;> rfl
  | some id =>
    simp only [mapC_cur, hc]
    cases f.find off <;> rfl

theorem nextBlockAt_hom (H : Hom o' o π) (cfg : Cfg) (f : File) (r : Reader τ) (off : Int) :
    nextBlockAt cfg o f (r.mapC π) off = mapR π (nextBlockAt cfg o' f r off) := by
  unfold nextBlockAt
  rw [skipCached_hom H]
  cases skipCached o' r off with
  | error e => rfl
  | ok off' => simp only [loadAt_hom, mapR]

theorem fetch_hom (H : Hom o' o π) (cfg : Cfg) (f : File) (r : Reader τ) (base : Int) :
    fetch cfg o f (r.mapC π) base = mapR π (fetch cfg o' f r base) := by
  unfold fetch
  rw [cacheSwap_hom H]
  cases cacheSwap cfg o' r base with
  | error e => rfl
  | ok v =>
    obtain ⟨r1, b⟩ := v
    cases b with
    | true => rfl
    | false => simp only [mapR]; exact nextBlockAt_hom H cfg f r1 base

theorem nextBlock_hom (H : Hom o' o π) (cfg : Cfg) (f : File) (r : Reader τ) :
    nextBlock cfg o f (r.mapC π) = mapR π (nextBlock cfg o' f r) := by
  unfold nextBlock
  cases hc : r.cur with
  | none => simp only [mapC_cur, hc]; rfl
  | some id => simp only [mapC_cur, hc, mapC_heap]; exact fetch_hom H cfg f r _

theorem seekFin_hom (r : Reader τ) (file : Int) (blk : Nat) :
    seekFin (r.mapC π) file blk = mapR π (seekFin r file blk) := by
  unfold seekFin
  cases hc : r.cur with
  | none => simp only [mapC_cur, hc]; rfl
  | some id =>
    simp only [mapC_cur, hc, mapC_heap]
    rw [mapR_ite]
    exact ite_congr rfl (fun _ => rfl) (fun _ => rfl)

theorem mapR_ok {α : Type} (r : Reader τ) (a : α) : mapR π (.ok (r, a)) = .ok (r.mapC π, a) := rfl
theorem mapR_err {α : Type} (e : Fault) : mapR π (α := α) (.error e : Except Fault (Reader τ × α)) = .error e := rfl
theorem mapR0_ok (r : Reader τ) : mapR0 π (.ok r) = .ok (r.mapC π) := rfl

theorem seek_hom (H : Hom o' o π) (cfg : Cfg) (f : File) (r : Reader τ) (file : Int) (blk : Nat) :
    seek cfg o f (r.mapC π) file blk = mapR π (seek cfg o' f r file blk) := by
  unfold seek
  cases hc : r.cur with
  | none => simp only [mapC_cur, hc]; rfl
  | some id =>
    simp only [mapC_cur, hc, mapC_heap]
    rw [mapR_ite]
    refine ite_congr rfl (fun _ => ?_) (fun _ => ?_)
    · rw [fetch_hom H]
      cases fetch cfg o' f r file with
      | error e => rfl
      | ok v =>
        obtain ⟨r2, e⟩ := v
        simp only [mapR_ok]
        rw [mapR_ite]
        refine ite_congr rfl (fun _ => ?_) (fun _ => rfl)
        exact seekFin_hom (π := π) { r2 with err := .none } file blk
    · exact seekFin_hom r file blk

theorem skipEmpty_hom (H : Hom o' o π) (cfg : Cfg) (f : File) : ∀ (fuel : Nat) (r : Reader τ),
    skipEmpty cfg o f fuel (r.mapC π) = mapR0 π (skipEmpty cfg o' f fuel r)
  | 0, _ => rfl
  | fuel + 1, r => by
    unfold skipEmpty
    cases hc : r.cur with
    | none => simp only [mapC_cur, hc]; rfl
    | some id =>
      simp only [mapC_cur, hc, mapC_heap]
      rw [mapR0_ite]
      refine ite_congr rfl (fun _ => ?_) (fun _ => rfl)
      rw [nextBlock_hom H]
      cases nextBlock cfg o' f r with
      | error e => rfl
      | ok v =>
        obtain ⟨r1, e⟩ := v
        simp only [mapR_ok]
        rw [mapR0_ite]
        refine ite_congr rfl (fun _ => ?_) (fun _ => rfl)
        exact skipEmpty_hom H cfg f fuel { r1 with err := .none }

theorem readLoop_hom (H : Hom o' o π) (cfg : Cfg) (f : File) :
    ∀ (fuel : Nat) (r : Reader τ) (want : Nat) (acc : List Nat),
    readLoop cfg o f fuel (r.mapC π) want acc = mapR π (readLoop cfg o' f fuel r want acc)
  | 0, _, _, _ => by unfold readLoop; rfl
  | fuel + 1, r, want, acc => by
    unfold readLoop
    simp only [mapC_err]
    rw [mapR_ite]
    refine ite_congr rfl (fun _ => rfl) (fun _ => ?_)
    cases hc : r.cur with
    | none => simp only [mapC_cur, hc]; rfl
    | some id =>
      simp only [mapC_cur, hc, mapC_heap]
      rw [mapR_ite]
      refine ite_congr rfl (fun _ => rfl) (fun _ => ?_)
      rw [mapR_ite]
      refine ite_congr rfl (fun _ => ?_) (fun _ => ?_)
      · simp only [mapC_blocked]
        rw [mapR_ite]
        refine ite_congr rfl (fun _ => rfl) (fun _ => ?_)
        rw [nextBlock_hom H]
        cases nextBlock cfg o' f r with
        | error e => rfl
        | ok v =>
          obtain ⟨r1, e⟩ := v
          simp only [mapR_ok]
          exact readLoop_hom H cfg f fuel { r1 with err := e } want acc
      · rw [mapC_setB]; exact readLoop_hom H cfg f fuel _ _ _

theorem read_hom (H : Hom o' o π) (cfg : Cfg) (f : File) (r : Reader τ) (n : Nat) :
    read cfg o f (r.mapC π) n = mapR π (read cfg o' f r n) := by
  unfold read
  simp only [mapC_err]
  rw [mapR_ite]
  refine ite_congr rfl (fun _ => rfl) (fun _ => ?_)
  rw [skipEmpty_hom H]
  cases skipEmpty cfg o' f (fuelFor f 0) r with
  | error e => rfl
  | ok r1 =>
    simp only [mapR0_ok, mapC_err]
    rw [mapR_ite]
    refine ite_congr rfl (fun _ => rfl) (fun _ => ?_)
    have := readLoop_hom H cfg f (fuelFor f n) { r1 with chunkBegin := curOffset r1 } n []
    erw [this]
    cases readLoop cfg o' f (fuelFor f n) { r1 with chunkBegin := curOffset r1 } n [] with
    | error e => rfl
    | ok v =>
      obtain ⟨r3, bytes, b⟩ := v
      cases b <;> rfl

theorem byteFin_hom (r : Reader τ) : byteFin (r.mapC π) = mapR π (byteFin r) := by
  unfold byteFin
  cases hc : r.cur with
  | none => simp only [mapC_cur, hc]; rfl
  | some id =>
    simp only [mapC_cur, hc, mapC_heap]
    cases (List.drop (r.heap id).pos (r.heap id).data).head? <;> rfl

theorem readByte_hom (H : Hom o' o π) (cfg : Cfg) (f : File) (r : Reader τ) :
    readByte cfg o f (r.mapC π) = mapR π (readByte cfg o' f r) := by
  unfold readByte
  simp only [mapC_err]
  rw [mapR_ite]
  refine ite_congr rfl (fun _ => rfl) (fun _ => ?_)
  rw [skipEmpty_hom H]
  cases skipEmpty cfg o' f (fuelFor f 0) r with
  | error e => rfl
  | ok r1 =>
    simp only [mapR0_ok, mapC_err]
    rw [mapR_ite]
    refine ite_congr rfl (fun _ => rfl) (fun _ => ?_)
    exact byteFin_hom r1

theorem map_eraseIdx' {α β : Type} (g : α → β) : ∀ (l : List α) (i : Nat),
    (l.map g).eraseIdx i = (l.eraseIdx i).map g
  | [], _ => rfl
  | _ :: _, 0 => rfl
  | a :: l, i + 1 => by simp only [List.map_cons, List.eraseIdx_cons_succ, map_eraseIdx' g l i]

theorem step_hom (H : Hom o' o π) (cfg : Cfg) (f : File) (r : Reader τ) (op : Op τ) :
    step cfg o f (r.mapC π) (op.mapC π) = mapR π (step cfg o' f r op) := by
  cases op with
  | seek a b =>
    simp only [step, Op.mapC, seek_hom H]
    cases seek cfg o' f r a b with
    | error e => rfl
    | ok v => obtain ⟨r', e⟩ := v; rfl
  | read n =>
    simp only [step, Op.mapC, read_hom H]
    cases read cfg o' f r n with
    | error e => rfl
    | ok v => obtain ⟨r', bs, e⟩ := v; rfl
  | readByte =>
    simp only [step, Op.mapC, readByte_hom H]
    cases readByte cfg o' f r with
    | error e => rfl
    | ok v => obtain ⟨r', bs, e⟩ := v; rfl
  | setCache c h =>
    simp only [step, Op.mapC, mapR, Reader.mapC, List.map_append, Except.ok.injEq, Prod.mk.injEq, and_true]
    cases r.cache <;> rfl
  | reattach i h =>
    simp only [step, Op.mapC, mapR]
    have e1 : (r.mapC π).parked[i]? = (r.parked[i]?).map π := by simp [Reader.mapC]
    rw [e1]
    cases hp : r.parked[i]? with
    | none =>
      simp only [Option.map_none, Reader.mapC, List.map_append, Except.ok.injEq, Prod.mk.injEq, and_true]
      cases r.cache <;> rfl
    | some c =>
      simp only [Option.map_some, Reader.mapC, List.map_append, Except.ok.injEq, Prod.mk.injEq, and_true,
        map_eraseIdx']
      cases r.cache <;> rfl
  | setBlocked b => rfl

theorem run_hom (H : Hom o' o π) (cfg : Cfg) (f : File) : ∀ (ops : List (Op τ)) (r : Reader τ),
    run cfg o f (r.mapC π) (ops.map (Op.mapC π)) = mapR π (run cfg o' f r ops)
  | [], _ => rfl
  | op :: ops, r => by
    simp only [List.map_cons, run, step_hom H]
    cases step cfg o' f r op with
    | error e => rfl
    | ok v =>
      obtain ⟨r1, out⟩ := v
      simp only [mapR, run_hom H cfg f ops r1]
      cases run cfg o' f r1 ops with
      | error e => rfl
      | ok w => obtain ⟨r2, outs⟩ := w; rfl

theorem newReader_hom (H : Hom o' o π) (cfg : Cfg) (f : File) :
    newReader o cfg f = mapR π (newReader o' cfg f) := by
  unfold newReader
  exact nextBlockAt_hom H cfg f ⟨fun _ => {}, 0, none, .none, (0, 0), (0, 0), false, none, [], none, []⟩ 0

theorem uncached_mapC (ops : List (Op τ)) :
    (ops.map Op.uncached).map (Op.mapC π) = (ops.map (Op.mapC π)).map Op.uncached := by
  simp only [List.map_map]
  apply List.map_congr_left
  intro op _
  cases op <;> rfl

end
/-! ### homomorphisms around sums of cache kinds -/

section Sum
variable {σ₁ σ₂ ρ : Type}

/-- a kind is embedded in every sum it is a summand of -/
theorem inl_hom (o₁ : CacheOps σ₁) (o₂ : CacheOps σ₂) : Hom o₁ (sumOps o₁ o₂) Sum.inl where
  put _ _ _ _ := rfl
  get _ _ _ := rfl
  peek _ _ _ := rfl
  held _ := rfl

theorem inr_hom (o₁ : CacheOps σ₁) (o₂ : CacheOps σ₂) : Hom o₂ (sumOps o₁ o₂) Sum.inr where
  put _ _ _ _ := rfl
  get _ _ _ := rfl
  peek _ _ _ := rfl
  held _ := rfl

/-- two kinds that are both "`o` plus bookkeeping": so is their sum -/
theorem sum_hom {o₁ : CacheOps σ₁} {o₂ : CacheOps σ₂} {o : CacheOps ρ} {π₁ : σ₁ → ρ} {π₂ : σ₂ → ρ}
    (H₁ : Hom o₁ o π₁) (H₂ : Hom o₂ o π₂) : Hom (sumOps o₁ o₂) o (Sum.elim π₁ π₂) where
  put h s id hint := by
    cases s with
    | inl a =>
      simp only [Sum.elim_inl, sumOps, H₁.put, Option.map_map]
      cases o₁.put h a id hint <;> rfl
    | inr b =>
      simp only [Sum.elim_inr, sumOps, H₂.put, Option.map_map]
      cases o₂.put h b id hint <;> rfl
  get h s k := by
    cases s with
    | inl a => exact H₁.get h a k
    | inr b => exact H₂.get h b k
  peek h s k := by
    cases s with
    | inl a => exact H₁.peek h a k
    | inr b => exact H₂.peek h b k
  held s := by
    cases s with
    | inl a => exact H₁.held a
    | inr b => exact H₂.held b

theorem id_hom (o : CacheOps σ) : Hom o o id where
  put h s id' hint := by
    show o.put h s id' hint = _
    cases o.put h s id' hint <;> rfl
  get _ _ _ := rfl
  peek _ _ _ := rfl
  held _ := rfl

/-- the admissibility condition on histories goes along a homomorphism -/
theorem opOK_hom {o' : CacheOps τ} {o : CacheOps σ} {π : τ → σ} (H : Hom o' o π) {wf' : τ → Prop} {wf : σ → Prop}
    (hwf : ∀ s, wf' s → wf (π s)) (op : Op τ) (ok : OpOK o' wf' op) : OpOK o wf (op.mapC π) := by
  cases op with
  | setCache c h =>
    cases c with
    | none => trivial
    | some c => exact ⟨hwf c ok.1, by rw [H.held]; exact ok.2⟩
  | _ => trivial

/-- the part of a history over `σ₁ ⊕ σ₂` that lives in `σ₁` (objects of the other kind are dropped) -/
def Op.left : Op (σ₁ ⊕ σ₂) → Op σ₁
  | .seek a b => .seek a b
  | .read n => .read n
  | .readByte => .readByte
  | .setCache (some (.inl c)) h => .setCache (some c) h
  | .setCache _ h => .setCache none h
  | .reattach i h => .reattach i h
  | .setBlocked b => .setBlocked b

def Op.right : Op (σ₁ ⊕ σ₂) → Op σ₂
  | .seek a b => .seek a b
  | .read n => .read n
  | .readByte => .readByte
  | .setCache (some (.inr c)) h => .setCache (some c) h
  | .setCache _ h => .setCache none h
  | .reattach i h => .reattach i h
  | .setBlocked b => .setBlocked b

theorem left_inl (ops : List (Op (σ₁ ⊕ σ₂)))
    (hl : ∀ c h, Op.setCache (some c) h ∈ ops → ∃ a, c = Sum.inl a) :
    (ops.map Op.left).map (Op.mapC Sum.inl) = ops := by
  rw [List.map_map]
  conv => rhs; rw [← List.map_id ops]
  apply List.map_congr_left
  intro op hop
  cases op with
  | setCache c h =>
    cases c with
    | none => rfl
    | some c => obtain ⟨a, rfl⟩ := hl c h hop; rfl
  | _ => rfl

theorem right_inr (ops : List (Op (σ₁ ⊕ σ₂)))
    (hl : ∀ c h, Op.setCache (some c) h ∈ ops → ∃ b, c = Sum.inr b) :
    (ops.map Op.right).map (Op.mapC Sum.inr) = ops := by
  rw [List.map_map]
  conv => rhs; rw [← List.map_id ops]
  apply List.map_congr_left
  intro op hop
  cases op with
  | setCache c h =>
    cases c with
    | none => rfl
    | some c => obtain ⟨a, rfl⟩ := hl c h hop; rfl
  | _ => rfl

end Sum

end Hts.Model.CachedReader
