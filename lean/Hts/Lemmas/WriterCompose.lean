/-
Composition of the writer LTS (abstract blocks, every wc, every interleaving) with the sequential byte-level
writer model (Hts.Model.BgzfWriter: block splitting; Hts.Model.Member: member rendering).

`absScript` maps a CONCRETE write script (payloads) to the abstract script of the LTS: a `Write` becomes
`write k` with `k` = the number of blocks that call completes in the sequential writer state it runs in, a
`Flush` becomes `flush b` with `b` = "the active block is non-empty" in that state.  The block with submission
number `i` is `(after wops).emitted[i]`, and its compression fails iff `Member.writeBlock` refuses it.
-/
import Hts.Lemmas.WriterLTSComp
import Hts.Lemmas.WriterLTSLive
import Hts.Lemmas.BgzfStream
namespace Hts.Model.WriterCompose
open Hts.Model Hts.Model.Member
open Hts.Model.BgzfWriter (BlockSize blockSize_pos after)

variable {α : Type}

/-- one concrete call, abstracted in the sequential state `s` in which it is made -/
def absOp (s : BgzfWriter.State α) : BgzfWriter.Op α → WriterLTS.Op
  | .write b => .write ((BgzfWriter.write BlockSize blockSize_pos s b).1.emitted.length - s.emitted.length)
  | .flush => .flush (decide (s.active.length ≠ 0))
  | .wait => .wait
  | .close => .close

/-- a concrete script, abstracted along the run of the sequential writer from state `s` -/
def absScriptFrom (s : BgzfWriter.State α) : List (BgzfWriter.Op α) → List WriterLTS.Op
  | [] => []
  | op :: ops => absOp s op :: absScriptFrom (BgzfWriter.step BlockSize blockSize_pos s op).1 ops

def absScript (ops : List (BgzfWriter.Op α)) : List WriterLTS.Op := absScriptFrom BgzfWriter.State.init ops

/-- `writeLoop` only appends to the queue -/
theorem writeLoop_len (bs : Nat) (hbs : 0 < bs) (b a : List α) (e : List (List α)) :
    e.length ≤ (BgzfWriter.writeLoop bs hbs b a e).2.length := by
  fun_induction BgzfWriter.writeLoop bs hbs b a e with
  | case1 a e => exact Nat.le_refl _
  | case2 b a e hb hc n active' hemit ih => simp at ih; omega
  | case3 b a e hb hc n active' hemit ih => exact ih
  | case4 b a e hb hc ih => simp at ih; omega

theorem seqBlocks_closed (op : WriterLTS.Op) (rest : List WriterLTS.Op) :
    WriterLTS.seqBlocks (op :: rest) true = WriterLTS.seqBlocks rest true := by
  cases op <;> simp [WriterLTS.seqBlocks]

/-- the abstract script owes exactly the blocks the sequential writer queues -/
theorem absScript_blocks : ∀ (ops : List (BgzfWriter.Op α)) (s : BgzfWriter.State α),
    WriterLTS.seqBlocks (absScriptFrom s ops) s.closed + s.emitted.length =
      (BgzfWriter.run BlockSize blockSize_pos s ops).1.emitted.length
  | [], s => by simp [absScriptFrom, WriterLTS.seqBlocks, BgzfWriter.run]
  | op :: ops, s => by
    have ih := absScript_blocks ops (BgzfWriter.step BlockSize blockSize_pos s op).1
    simp only [absScriptFrom, BgzfWriter.run]
    cases hc : s.closed with
    | true =>
      rw [seqBlocks_closed]
      have hs : (BgzfWriter.step BlockSize blockSize_pos s op).1 = s := by
        cases op <;> simp [BgzfWriter.step, BgzfWriter.write, BgzfWriter.flush, BgzfWriter.wait, BgzfWriter.close, hc]
      rw [hs, hc] at ih
      rw [hs]; exact ih
    | false =>
      cases op with
      | write b =>
        have hlen := writeLoop_len BlockSize blockSize_pos b s.active s.emitted
        have hcl : (BgzfWriter.step BlockSize blockSize_pos s (.write b)).1.closed = false := by
          simp [BgzfWriter.step, BgzfWriter.write, hc]
        have hem : (BgzfWriter.step BlockSize blockSize_pos s (.write b)).1.emitted =
            (BgzfWriter.writeLoop BlockSize blockSize_pos b s.active s.emitted).2 := by
          simp [BgzfWriter.step, BgzfWriter.write, hc]
        rw [hcl] at ih
        simp only [absOp, WriterLTS.seqBlocks]
        have hem' : (BgzfWriter.write BlockSize blockSize_pos s b).1.emitted =
            (BgzfWriter.writeLoop BlockSize blockSize_pos b s.active s.emitted).2 := by
          simp [BgzfWriter.write, hc]
        rw [hem'] ; rw [hem] at ih
        omega
      | flush =>
        by_cases ha : s.active.length = 0
        · have hs : (BgzfWriter.step BlockSize blockSize_pos s .flush).1 = s := by
            simp [BgzfWriter.step, BgzfWriter.flush, hc, ha]
          rw [hs, hc] at ih
          simp only [absOp, ha, ne_eq, not_true_eq_false, decide_false, WriterLTS.seqBlocks]
          rw [hs]; simpa using ih
        · have hcl : (BgzfWriter.step BlockSize blockSize_pos s .flush).1.closed = false := by
            simp [BgzfWriter.step, BgzfWriter.flush, hc, ha]
          have hem : (BgzfWriter.step BlockSize blockSize_pos s .flush).1.emitted = s.emitted ++ [s.active] := by
            simp [BgzfWriter.step, BgzfWriter.flush, hc, ha]
          rw [hcl, hem] at ih
          simp only [absOp, ha, ne_eq, not_false_eq_true, decide_true, WriterLTS.seqBlocks, if_true]
          simp at ih; omega
      | wait =>
        have hs : (BgzfWriter.step BlockSize blockSize_pos s .wait).1 = s := by simp [BgzfWriter.step, BgzfWriter.wait]
        rw [hs, hc] at ih
        simp only [absOp, WriterLTS.seqBlocks]
        rw [hs]; exact ih
      | close =>
        have hcl : (BgzfWriter.step BlockSize blockSize_pos s .close).1.closed = true := by
          simp [BgzfWriter.step, BgzfWriter.close, hc]
        have hem : (BgzfWriter.step BlockSize blockSize_pos s .close).1.emitted = s.emitted ++ [s.active] := by
          simp [BgzfWriter.step, BgzfWriter.close, hc]
        rw [hcl, hem] at ih
        simp only [absOp, WriterLTS.seqBlocks]
        simp at ih; omega

theorem absScript_blocks_init (ops : List (BgzfWriter.Op α)) :
    WriterLTS.seqBlocks (absScript ops) false = (after ops).emitted.length := by
  have := absScript_blocks ops (BgzfWriter.State.init : BgzfWriter.State α)
  simpa [absScript, after, BgzfWriter.State.init] using this

theorem absScript_hasClose : ∀ (ops : List (BgzfWriter.Op α)) (s : BgzfWriter.State α),
    WriterLTS.hasClose (absScriptFrom s ops) = BgzfWriter.hasClose ops
  | [], _ => by simp [absScriptFrom, WriterLTS.hasClose, BgzfWriter.hasClose]
  | op :: ops, s => by
    have ih := absScript_hasClose ops (BgzfWriter.step BlockSize blockSize_pos s op).1
    simp only [WriterLTS.hasClose] at ih ⊢
    cases op <;> simp [absScriptFrom, absOp, BgzfWriter.hasClose]
    all_goals simpa using ih

/-! ### bytes -/

/-- compression of block `i` of the queue `blocks` fails iff `writeBlock` refuses it -/
def cfaultOf (c : CodecFns) (h : Header) (blocks : List (List Byte)) (i : Nat) : Bool :=
  match blocks[i]? with
  | some p => match writeBlock c h p with
    | .ok _ => false
    | .error _ => true
  | none => false

/-- the bytes the emitter hands to the underlying writer for block `i` -/
def blockBytes (c : CodecFns) (h : Header) (blocks : List (List Byte)) (i : Nat) : List Byte :=
  match blocks[i]? with
  | some p => match writeBlock c h p with
    | .ok m => m
    | .error _ => []
  | none => []

/-- the byte stream the underlying writer has received in LTS state `s`: the delivered blocks in delivery
    order, then the EOF marker if it has been written -/
def deliveredBytes (c : CodecFns) (h : Header) (blocks : List (List Byte)) (s : WriterLTS.State) : List Byte :=
  (s.out.map (blockBytes c h blocks)).flatten ++ (if s.eof then magicBlock else [])

/-- the LTS configuration of a concrete script: `wc` compressors requested, no I/O faults, compression of a
    block fails iff `writeBlock` refuses it, repaired protocol -/
def cfgOf (wc : Nat) (c : CodecFns) (h : Header) (wops : List (BgzfWriter.Op Byte)) : WriterLTS.Cfg :=
  { wc := wc, script := absScript wops, fault := fun _ => false, repaired := true,
    cfault := cfaultOf c h (after wops).emitted }

theorem written_next_fails (c : CodecFns) (h : Header) : ∀ (blocks : List (List Byte)),
    (written c h blocks).length < blocks.length →
    ∃ p e, blocks[(written c h blocks).length]? = some p ∧ writeBlock c h p = .error e
  | [], hl => by simp [written] at hl
  | p :: ps, hl => by
    simp only [written] at hl ⊢
    cases hw : writeBlock c h p with
    | error e => exact ⟨p, e, by simp, hw⟩
    | ok m =>
      rw [hw] at hl
      simp only [List.length_cons, Nat.add_lt_add_iff_right] at hl
      obtain ⟨q, e, h1, h2⟩ := written_next_fails c h ps hl
      exact ⟨q, e, by simpa using h1, h2⟩

theorem written_get (c : CodecFns) (h : Header) (blocks : List (List Byte)) (i : Nat)
    (hi : i < (written c h blocks).length) :
    ∃ p, blocks[i]? = some p ∧ (written c h blocks)[i]? = some p ∧ writeBlock c h p = .ok (mb c h p) := by
  obtain ⟨rest, hr⟩ := written_prefix c h blocks
  have hp : (written c h blocks)[i]? = some (written c h blocks)[i] := List.getElem?_eq_getElem hi
  refine ⟨(written c h blocks)[i], ?_, hp, ?_⟩
  · have : blocks[i]? = (written c h blocks ++ rest)[i]? := congrArg (fun l => l[i]?) hr
    rw [this, List.getElem?_append_left hi]; exact hp
  · exact writeBlock_of_fits c h _ (written_fits c h blocks _ (List.getElem_mem hi))

theorem firstFail_written (c : CodecFns) (h : Header) (blocks : List (List Byte)) :
    WriterLTS.firstFail (cfaultOf c h blocks) blocks.length = (written c h blocks).length := by
  obtain ⟨rest, hr⟩ := written_prefix c h blocks
  have hle : (written c h blocks).length ≤ blocks.length := by
    have := congrArg List.length hr; simp at this; omega
  refine WriterLTS.firstFail_unique _ _ _ hle ?_ ?_
  · intro b hb
    obtain ⟨p, h1, -, h3⟩ := written_get c h blocks b hb
    simp [cfaultOf, h1, h3]
  · intro hlt
    obtain ⟨p, e, h1, h2⟩ := written_next_fails c h blocks hlt
    simp [cfaultOf, h1, h2]

theorem range_bytes (c : CodecFns) (h : Header) (blocks : List (List Byte)) :
    (List.range (written c h blocks).length).map (blockBytes c h blocks) = (written c h blocks).map (mb c h) := by
  apply List.ext_getElem
  · simp
  · intro i h1 h2
    have hi : i < (written c h blocks).length := by simpa using h1
    obtain ⟨p, g1, g2, g3⟩ := written_get c h blocks i hi
    have hp : (written c h blocks)[i] = p := by
      have := List.getElem?_eq_getElem hi
      rw [g2] at this; exact (Option.some.inj this).symm
    simp [blockBytes, g1, g3, hp]

/-- **Composition.**  For every concrete script, every `wc`, every interleaving of the writer LTS (no I/O
    faults; compression fails exactly where `writeBlock` refuses a block): when everything has come to rest the
    bytes delivered to the underlying writer are exactly the sequential model's — `render` of the queued blocks,
    followed by the EOF marker iff the script closes the writer and no block was refused. -/
theorem compose_output (wc : Nat) (c : CodecFns) (h : Header) (wops : List (BgzfWriter.Op Byte)) (s : WriterLTS.State)
    (hreach : WriterLTS.Reachable (cfgOf wc c h wops) s) (hidle : WriterLTS.AllIdle s) :
    deliveredBytes c h (after wops).emitted s =
      (render c h (after wops).emitted).1 ++
        (if BgzfWriter.hasClose wops = true ∧ (render c h (after wops).emitted).2 = none then magicBlock else []) := by
  have hmain := WriterLTS.output_of_idle_cf (cfg := cfgOf wc c h wops) rfl (fun _ => rfl) hreach hidle
  simp only [cfgOf] at hmain
  simp only [absScript_blocks_init, firstFail_written] at hmain
  obtain ⟨hout, heof⟩ := hmain
  simp only [deliveredBytes, hout, range_bytes, render_fst]
  congr 1
  rw [heof]
  have hcl : WriterLTS.hasClose (absScript wops) = BgzfWriter.hasClose wops := absScript_hasClose wops _
  rw [hcl]
  have hiff : ((written c h (after wops).emitted).length = (after wops).emitted.length) ↔
      (render c h (after wops).emitted).2 = none := by
    rw [render_snd_none]
    obtain ⟨rest, hr⟩ := written_prefix c h (after wops).emitted
    constructor
    · intro hl
      have : rest = [] := by
        have := congrArg List.length hr
        simp at this
        exact List.eq_nil_of_length_eq_zero (by omega)
      rw [this] at hr; simpa using hr.symm
    · intro he; rw [he]
  by_cases hc : BgzfWriter.hasClose wops = true <;> by_cases hn : (render c h (after wops).emitted).2 = none
  all_goals simp [hc, hn, hiff]

end Hts.Model.WriterCompose
