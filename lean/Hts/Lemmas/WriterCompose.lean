/-
Composition of the writer LTS (abstract blocks, every wc, every interleaving) with the sequential byte-level
writer model (Hts.Model.BgzfWriter: block splitting; Hts.Model.Member: member rendering).

`absScript` (Hts.Model.WriterAbs) maps a CONCRETE write script (payloads) to the abstract script of the LTS: a `Write` becomes
`write k` with `k` = the number of blocks that call completes in the sequential writer state it runs in, a
`Flush` becomes `flush b` with `b` = "the active block is non-empty" in that state.  The block with submission
number `i` is `(after wops).emitted[i]`, and its compression fails iff `Member.writeBlock` refuses it.
-/
import Hts.Lemmas.WriterLTSComp
import Hts.Lemmas.WriterLTSLive
import Hts.Lemmas.BgzfStream
import Hts.Model.WriterAbs
namespace Hts.Model.WriterCompose
open Hts.Model Hts.Model.Member
open Hts.Model.BgzfWriter (BlockSize blockSize_pos after)

variable {α : Type}

/-- `writeLoop` only appends to the queue -/
theorem writeLoop_len (bs : Nat) (hbs : 0 < bs) (b a : List α) (e : List (List α)) :
    e.length ≤ (BgzfWriter.writeLoop bs hbs b a e).2.length := by
  fun_induction BgzfWriter.writeLoop bs hbs b a e with
  | case1 a e => exact Nat.le_refl _
  | case2 b a e hb hc n active' hemit ih => simp at ih; omega
  | case3 b a e hb hc n active' hemit ih => exact ih
  | case4 b a e hb hc ih => simp at ih; omega

theorem seqBlocks_closed (op : WriterLTS.Op) (rest : List WriterLTS.Op) :
    WriterLTS.seqBlocks (op :: rest) true = WriterLTS.seqBlocks rest true := by
  cases op <;> simp [WriterLTS.seqBlocks]

/-- the abstract script owes exactly the blocks the sequential writer queues -/
theorem absScript_blocks : ∀ (ops : List (BgzfWriter.Op α)) (s : BgzfWriter.State α),
    WriterLTS.seqBlocks (absScriptFrom s ops) s.closed + s.emitted.length =
      (BgzfWriter.run BlockSize blockSize_pos s ops).1.emitted.length
  | [], s => by simp [absScriptFrom, WriterLTS.seqBlocks, BgzfWriter.run]
  | op :: ops, s => by
    have ih := absScript_blocks ops (BgzfWriter.step BlockSize blockSize_pos s op).1
    simp only [absScriptFrom, BgzfWriter.run]
    cases hc : s.closed with
    | true =>
      rw [seqBlocks_closed]
      have hs : (BgzfWriter.step BlockSize blockSize_pos s op).1 = s := by
        cases op <;> simp [BgzfWriter.step, BgzfWriter.write, BgzfWriter.flush, BgzfWriter.wait, BgzfWriter.close, hc]
      rw [hs, hc] at ih
      rw [hs]; exact ih
    | false =>
      cases op with
      | write b =>
        have hlen := writeLoop_len BlockSize blockSize_pos b s.active s.emitted
        have hcl : (BgzfWriter.step BlockSize blockSize_pos s (.write b)).1.closed = false := by
          simp [BgzfWriter.step, BgzfWriter.write, hc]
        have hem : (BgzfWriter.step BlockSize blockSize_pos s (.write b)).1.emitted =
            (BgzfWriter.writeLoop BlockSize blockSize_pos b s.active s.emitted).2 := by
          simp [BgzfWriter.step, BgzfWriter.write, hc]
        rw [hcl] at ih
        simp only [absOp, WriterLTS.seqBlocks]
        have hem' : (BgzfWriter.write BlockSize blockSize_pos s b).1.emitted =
            (BgzfWriter.writeLoop BlockSize blockSize_pos b s.active s.emitted).2 := by
          simp [BgzfWriter.write, hc]
        rw [hem'] ; rw [hem] at ih
        omega
      | flush =>
        by_cases ha : s.active.length = 0
        · have hs : (BgzfWriter.step BlockSize blockSize_pos s .flush).1 = s := by
            simp [BgzfWriter.step, BgzfWriter.flush, hc, ha]
          rw [hs, hc] at ih
          simp only [absOp, ha, ne_eq, not_true_eq_false, decide_false, WriterLTS.seqBlocks]
          rw [hs]; simpa using ih
        · have hcl : (BgzfWriter.step BlockSize blockSize_pos s .flush).1.closed = false := by
            simp [BgzfWriter.step, BgzfWriter.flush, hc, ha]
          have hem : (BgzfWriter.step BlockSize blockSize_pos s .flush).1.emitted = s.emitted ++ [s.active] := by
            simp [BgzfWriter.step, BgzfWriter.flush, hc, ha]
          rw [hcl, hem] at ih
          simp only [absOp, ha, ne_eq, not_false_eq_true, decide_true, WriterLTS.seqBlocks, if_true]
          simp at ih; omega
      | wait =>
        have hs : (BgzfWriter.step BlockSize blockSize_pos s .wait).1 = s := by simp [BgzfWriter.step, BgzfWriter.wait]
        rw [hs, hc] at ih
        simp only [absOp, WriterLTS.seqBlocks]
        rw [hs]; exact ih
      | close =>
        have hcl : (BgzfWriter.step BlockSize blockSize_pos s .close).1.closed = true := by
          simp [BgzfWriter.step, BgzfWriter.close, hc]
        have hem : (BgzfWriter.step BlockSize blockSize_pos s .close).1.emitted = s.emitted ++ [s.active] := by
          simp [BgzfWriter.step, BgzfWriter.close, hc]
        rw [hcl, hem] at ih
        simp only [absOp, WriterLTS.seqBlocks]
        simp at ih; omega

theorem absScript_blocks_init (ops : List (BgzfWriter.Op α)) :
    WriterLTS.seqBlocks (absScript ops) false = (after ops).emitted.length := by
  have := absScript_blocks ops (BgzfWriter.State.init : BgzfWriter.State α)
  simpa [absScript, after, BgzfWriter.State.init] using this

theorem absScript_hasClose : ∀ (ops : List (BgzfWriter.Op α)) (s : BgzfWriter.State α),
    WriterLTS.hasClose (absScriptFrom s ops) = BgzfWriter.hasClose ops
  | [], _ => by simp [absScriptFrom, WriterLTS.hasClose, BgzfWriter.hasClose]
  | op :: ops, s => by
    have ih := absScript_hasClose ops (BgzfWriter.step BlockSize blockSize_pos s op).1
    simp only [WriterLTS.hasClose] at ih ⊢
    cases op <;> simp [absScriptFrom, absOp, BgzfWriter.hasClose]
    all_goals simpa using ih

/-! ### prefixes of a script -/

theorem run_append (bs : Nat) (hbs : 0 < bs) : ∀ (a b : List (BgzfWriter.Op α)) (s : BgzfWriter.State α),
    (BgzfWriter.run bs hbs s (a ++ b)).1 = (BgzfWriter.run bs hbs (BgzfWriter.run bs hbs s a).1 b).1
  | [], b, s => by simp [BgzfWriter.run]
  | op :: a, b, s => by
    simp only [List.cons_append, BgzfWriter.run]
    exact run_append bs hbs a b _

theorem absScriptFrom_append : ∀ (a b : List (BgzfWriter.Op α)) (s : BgzfWriter.State α),
    absScriptFrom s (a ++ b) =
      absScriptFrom s a ++ absScriptFrom (BgzfWriter.run BlockSize blockSize_pos s a).1 b
  | [], b, s => by simp [absScriptFrom, BgzfWriter.run]
  | op :: a, b, s => by
    simp only [List.cons_append, absScriptFrom, BgzfWriter.run]
    rw [absScriptFrom_append a b]

/-- `writeLoop` only appends to the queue (as lists) -/
theorem writeLoop_ext (bs : Nat) (hbs : 0 < bs) (b a : List α) (e : List (List α)) :
    ∃ ext, (BgzfWriter.writeLoop bs hbs b a e).2 = e ++ ext := by
  fun_induction BgzfWriter.writeLoop bs hbs b a e with
  | case1 a e => exact ⟨[], by simp⟩
  | case2 b a e hb hc n active' hemit ih => obtain ⟨x, hx⟩ := ih; exact ⟨[active'] ++ x, by rw [hx]; simp⟩
  | case3 b a e hb hc n active' hemit ih => exact ih
  | case4 b a e hb hc ih => obtain ⟨x, hx⟩ := ih; exact ⟨[a] ++ x, by rw [hx]; simp⟩

theorem step_ext (s : BgzfWriter.State α) (op : BgzfWriter.Op α) :
    ∃ ext, (BgzfWriter.step BlockSize blockSize_pos s op).1.emitted = s.emitted ++ ext := by
  cases op with
  | write b =>
    by_cases hc : s.closed = true
    · exact ⟨[], by simp [BgzfWriter.step, BgzfWriter.write, hc]⟩
    · obtain ⟨x, hx⟩ := writeLoop_ext BlockSize blockSize_pos b s.active s.emitted
      exact ⟨x, by simp [BgzfWriter.step, BgzfWriter.write, hc, hx]⟩
  | flush =>
    simp only [BgzfWriter.step, BgzfWriter.flush]
    split
    · exact ⟨[], by simp⟩
    · split
      · exact ⟨[], by simp⟩
      · exact ⟨[s.active], rfl⟩
  | wait => exact ⟨[], by simp [BgzfWriter.step, BgzfWriter.wait]⟩
  | close =>
    simp only [BgzfWriter.step, BgzfWriter.close]
    split
    · exact ⟨[], by simp⟩
    · exact ⟨[s.active], rfl⟩

/-- the queue after a longer script extends the queue after a prefix of it -/
theorem run_ext : ∀ (ops : List (BgzfWriter.Op α)) (s : BgzfWriter.State α),
    ∃ ext, (BgzfWriter.run BlockSize blockSize_pos s ops).1.emitted = s.emitted ++ ext
  | [], s => ⟨[], by simp [BgzfWriter.run]⟩
  | op :: ops, s => by
    obtain ⟨x, hx⟩ := step_ext s op
    obtain ⟨y, hy⟩ := run_ext ops (BgzfWriter.step BlockSize blockSize_pos s op).1
    exact ⟨x ++ y, by simp only [BgzfWriter.run]; rw [hy, hx]; simp⟩

theorem after_prefix_ext (a b : List (BgzfWriter.Op α)) :
    ∃ ext, (after (a ++ b)).emitted = (after a).emitted ++ ext := by
  simp only [after, run_append]
  exact run_ext b _

theorem seqBlocks_append : ∀ (a b : List WriterLTS.Op) (c : Bool),
    WriterLTS.seqBlocks (a ++ b) c = WriterLTS.seqBlocks a c + WriterLTS.seqBlocks b (c || WriterLTS.hasClose a)
  | [], b, c => by simp [WriterLTS.seqBlocks, WriterLTS.hasClose]
  | op :: a, b, true => by
    simp only [List.cons_append, seqBlocks_closed, Bool.true_or]
    have := seqBlocks_append a b true
    simpa using this
  | op :: a, b, false => by
    have h1 := seqBlocks_append a b false
    have h2 := seqBlocks_append a b true
    cases op <;> simp [WriterLTS.seqBlocks, WriterLTS.hasClose] at h1 h2 ⊢ <;> omega

theorem absScript_take (ops : List (BgzfWriter.Op α)) (k : Nat) :
    (absScript ops).take k = absScript (ops.take k) := by
  have hsplit : absScript ops = absScript (ops.take k) ++
      absScriptFrom (after (ops.take k)) (ops.drop k) := by
    have := absScriptFrom_append (ops.take k) (ops.drop k) (BgzfWriter.State.init : BgzfWriter.State α)
    simpa [absScript, after, List.take_append_drop] using this
  have hlen : (absScript (ops.take k)).length = (ops.take k).length := by
    have : ∀ (l : List (BgzfWriter.Op α)) (s : BgzfWriter.State α), (absScriptFrom s l).length = l.length := by
      intro l; induction l with
      | nil => intro s; rfl
      | cons o l ih => intro s; simp [absScriptFrom, ih]
    exact this _ _
  have htake : (absScript ops).take k = absScript (ops.take k) := by
    rw [hsplit]
    by_cases hk : k ≤ ops.length
    · have : (absScript (ops.take k)).length = k := by rw [hlen]; simp [hk]
      rw [List.take_left' this]
    · have hk' : ops.length ≤ k := by omega
      simp [List.take_of_length_le hk', List.drop_of_length_le hk', absScriptFrom]
      exact List.take_of_length_le (by rw [show absScript ops = absScript (List.take k ops) by
        rw [List.take_of_length_le hk'], hlen]; simp; omega)
  exact htake

/-- blocks owed by the first `k` calls of a script = blocks the sequential writer has queued after them -/
theorem absScript_take_blocks (ops : List (BgzfWriter.Op α)) (k : Nat) :
    WriterLTS.seqBlocks ((absScript ops).take k) false = (after (ops.take k)).emitted.length := by
  rw [absScript_take, absScript_blocks_init]

/-! ### bytes -/

/-- compression of block `i` of the queue `blocks` fails iff `writeBlock` refuses it -/
def cfaultOf (c : CodecFns) (h : Header) (blocks : List (List Byte)) (i : Nat) : Bool :=
  match blocks[i]? with
  | some p => match writeBlock c h p with
    | .ok _ => false
    | .error _ => true
  | none => false

/-- the bytes the emitter hands to the underlying writer for block `i` -/
def blockBytes (c : CodecFns) (h : Header) (blocks : List (List Byte)) (i : Nat) : List Byte :=
  match blocks[i]? with
  | some p => match writeBlock c h p with
    | .ok m => m
    | .error _ => []
  | none => []

/-- the byte stream the underlying writer has received in LTS state `s`: the delivered blocks in delivery
    order, then the EOF marker if it has been written -/
def deliveredBytes (c : CodecFns) (h : Header) (blocks : List (List Byte)) (s : WriterLTS.State) : List Byte :=
  (s.out.map (blockBytes c h blocks)).flatten ++ (if s.eof then magicBlock else [])

/-- the LTS configuration of a concrete script: `wc` compressors requested, no I/O faults, compression of a
    block fails iff `writeBlock` refuses it, repaired protocol -/
def cfgOf (wc : Nat) (c : CodecFns) (h : Header) (wops : List (BgzfWriter.Op Byte)) : WriterLTS.Cfg :=
  { wc := wc, script := absScript wops, fault := fun _ => false, repaired := true,
    cfault := cfaultOf c h (after wops).emitted }

theorem written_next_fails (c : CodecFns) (h : Header) : ∀ (blocks : List (List Byte)),
    (written c h blocks).length < blocks.length →
    ∃ p e, blocks[(written c h blocks).length]? = some p ∧ writeBlock c h p = .error e
  | [], hl => by simp [written] at hl
  | p :: ps, hl => by
    simp only [written] at hl ⊢
    cases hw : writeBlock c h p with
    | error e => exact ⟨p, e, by simp, hw⟩
    | ok m =>
      rw [hw] at hl
      simp only [List.length_cons, Nat.add_lt_add_iff_right] at hl
      obtain ⟨q, e, h1, h2⟩ := written_next_fails c h ps hl
      exact ⟨q, e, by simpa using h1, h2⟩

theorem written_get (c : CodecFns) (h : Header) (blocks : List (List Byte)) (i : Nat)
    (hi : i < (written c h blocks).length) :
    ∃ p, blocks[i]? = some p ∧ (written c h blocks)[i]? = some p ∧ writeBlock c h p = .ok (mb c h p) := by
  obtain ⟨rest, hr⟩ := written_prefix c h blocks
  have hp : (written c h blocks)[i]? = some (written c h blocks)[i] := List.getElem?_eq_getElem hi
  refine ⟨(written c h blocks)[i], ?_, hp, ?_⟩
  · have : blocks[i]? = (written c h blocks ++ rest)[i]? := congrArg (fun l => l[i]?) hr
    rw [this, List.getElem?_append_left hi]; exact hp
  · exact writeBlock_of_fits c h _ (written_fits c h blocks _ (List.getElem_mem hi))

theorem firstFail_written (c : CodecFns) (h : Header) (blocks : List (List Byte)) :
    WriterLTS.firstFail (cfaultOf c h blocks) blocks.length = (written c h blocks).length := by
  obtain ⟨rest, hr⟩ := written_prefix c h blocks
  have hle : (written c h blocks).length ≤ blocks.length := by
    have := congrArg List.length hr; simp at this; omega
  refine WriterLTS.firstFail_unique _ _ _ hle ?_ ?_
  · intro b hb
    obtain ⟨p, h1, -, h3⟩ := written_get c h blocks b hb
    simp [cfaultOf, h1, h3]
  · intro hlt
    obtain ⟨p, e, h1, h2⟩ := written_next_fails c h blocks hlt
    simp [cfaultOf, h1, h2]

theorem range_bytes (c : CodecFns) (h : Header) (blocks : List (List Byte)) :
    (List.range (written c h blocks).length).map (blockBytes c h blocks) = (written c h blocks).map (mb c h) := by
  apply List.ext_getElem
  · simp
  · intro i h1 h2
    have hi : i < (written c h blocks).length := by simpa using h1
    obtain ⟨p, g1, g2, g3⟩ := written_get c h blocks i hi
    have hp : (written c h blocks)[i] = p := by
      have := List.getElem?_eq_getElem hi
      rw [g2] at this; exact (Option.some.inj this).symm
    simp [blockBytes, g1, g3, hp]

/-- **Composition.**  For every concrete script, every `wc`, every interleaving of the writer LTS (no I/O
    faults; compression fails exactly where `writeBlock` refuses a block): when everything has come to rest the
    bytes delivered to the underlying writer are exactly the sequential model's — `render` of the queued blocks,
    followed by the EOF marker iff the script closes the writer and no block was refused. -/
theorem compose_output (wc : Nat) (c : CodecFns) (h : Header) (wops : List (BgzfWriter.Op Byte)) (s : WriterLTS.State)
    (hreach : WriterLTS.Reachable (cfgOf wc c h wops) s) (hidle : WriterLTS.AllIdle s) :
    deliveredBytes c h (after wops).emitted s =
      (render c h (after wops).emitted).1 ++
        (if BgzfWriter.hasClose wops = true ∧ (render c h (after wops).emitted).2 = none then magicBlock else []) := by
  have hmain := WriterLTS.output_of_idle_cf (cfg := cfgOf wc c h wops) rfl (fun _ => rfl) hreach hidle
  simp only [cfgOf] at hmain
  simp only [absScript_blocks_init, firstFail_written] at hmain
  obtain ⟨hout, heof⟩ := hmain
  simp only [deliveredBytes, hout, range_bytes, render_fst]
  congr 1
  rw [heof]
  have hcl : WriterLTS.hasClose (absScript wops) = BgzfWriter.hasClose wops := absScript_hasClose wops _
  rw [hcl]
  have hiff : ((written c h (after wops).emitted).length = (after wops).emitted.length) ↔
      (render c h (after wops).emitted).2 = none := by
    rw [render_snd_none]
    obtain ⟨rest, hr⟩ := written_prefix c h (after wops).emitted
    constructor
    · intro hl
      have : rest = [] := by
        have := congrArg List.length hr
        simp at this
        exact List.eq_nil_of_length_eq_zero (by omega)
      rw [this] at hr; simpa using hr.symm
    · intro he; rw [he]
  by_cases hc : BgzfWriter.hasClose wops = true <;> by_cases hn : (render c h (after wops).emitted).2 = none
  all_goals simp [hc, hn, hiff]

/-! ### durability, in data and in bytes -/

theorem written_all (c : CodecFns) (h : Header) : ∀ (l : List (List Byte)), (∀ p ∈ l, Fits c h p) → written c h l = l
  | [], _ => rfl
  | p :: ps, hf => by
    simp only [written, writeBlock_of_fits c h p (hf p (by simp))]
    rw [written_all c h ps (fun q hq => hf q (by simp [hq]))]

theorem range_getD {β : Type} (l ext : List β) (d : β) :
    (List.range l.length).map (fun i => (l ++ ext).getD i d) = l := by
  apply List.ext_getElem
  · simp
  · intro i h1 h2
    have hi : i < l.length := by simpa using h1
    simp [List.getD, List.getElem?_append_left hi, List.getElem?_eq_getElem hi]

/-- **Durability in bytes.**  Concrete script `wops`, any `wc`, any interleaving (no I/O faults; compression
    failing where `writeBlock` refuses).  If the `(j+1)`-th call to return is a `Wait` returning nil and no `Close`
    is among the first `j+1` calls, then from that moment on:
    * `m` — the count recorded by that return — is the number of blocks the sequential writer has queued after
      those `j+1` calls;
    * the first `m` delivered blocks are blocks `0 … m-1`, their payloads are exactly those queued blocks, and
    * their bytes are exactly the sequential writer's output (`render`) for that prefix of the script. -/
theorem wait_durable_bytes (wc : Nat) (c : CodecFns) (h : Header) (wops : List (BgzfWriter.Op Byte)) (j : Nat)
    (hnc : BgzfWriter.hasClose (wops.take (j + 1)) = false)
    {tr post mid : List WriterLTS.Ev} {m : Nat} {s : WriterLTS.State}
    (hrun : WriterLTS.Run (cfgOf wc c h wops) tr s) (htr : tr = post ++ .ret .wait .ok m :: mid)
    (hmid : WriterLTS.nrets mid = j) :
    m = (after (wops.take (j + 1))).emitted.length ∧ s.out.take m = List.range m ∧
    (s.out.take m).map (fun i => (after wops).emitted.getD i []) = (after (wops.take (j + 1))).emitted ∧
    ((s.out.take m).map (blockBytes c h (after wops).emitted)).flatten =
      (render c h (after (wops.take (j + 1))).emitted).1 := by
  have hrep : (cfgOf wc c h wops).repaired = true := rfl
  have hcl : WriterLTS.hasClose ((cfgOf wc c h wops).script.take (j + 1)) = false := by
    show WriterLTS.hasClose ((absScript wops).take (j + 1)) = false
    rw [absScript_take]
    exact (absScript_hasClose _ _).trans hnc
  have hm := WriterLTS.ret_ok_count hrep hrun htr hmid hcl
  have hm' : m = (after (wops.take (j + 1))).emitted.length := by
    rw [hm]; exact absScript_take_blocks wops (j + 1)
  obtain ⟨hi, hR⟩ := WriterLTS.run_inv hrep hrun
  have hmem : WriterLTS.Ev.ret .wait .ok m ∈ tr := by rw [htr]; simp
  have hle := hR.waitOK m hmem
  have htake := WriterLTS.take_of_prefix hi.pref hle
  obtain ⟨ext, hext⟩ := after_prefix_ext (wops.take (j + 1)) (wops.drop (j + 1))
  rw [List.take_append_drop] at hext
  refine ⟨hm', htake, ?_, ?_⟩
  · rw [htake, hm', hext]; exact range_getD _ _ _
  · -- none of the first m blocks was refused: they are in `out`
    have hok := WriterLTS.reachable_out_ok (WriterLTS.run_reachable hrun)
    have hfit : ∀ p ∈ (after (wops.take (j + 1))).emitted, Fits c h p := by
      intro p hp
      obtain ⟨i, hi', hpi⟩ := List.getElem_of_mem hp
      have hin : i ∈ s.out := by rw [hi.pref]; simp; omega
      have hcf := hok i hin
      have hget : (after wops).emitted[i]? = some p := by
        rw [hext, List.getElem?_append_left hi', List.getElem?_eq_getElem hi', hpi]
      simp only [cfgOf, cfaultOf, hget] at hcf
      cases hw : writeBlock c h p with
      | ok mm => exact (writeBlock_ok_iff c h p).mp ⟨mm, hw⟩
      | error e => rw [hw] at hcf; simp at hcf
    rw [render_fst, written_all c h _ hfit, htake, hm']
    congr 1
    apply List.ext_getElem
    · simp
    · intro i h1 h2
      have hi' : i < (after (wops.take (j + 1))).emitted.length := by simpa using h1
      have hget : (after wops).emitted[i]? = some (after (wops.take (j + 1))).emitted[i] := by
        rw [hext, List.getElem?_append_left hi', List.getElem?_eq_getElem hi']
      simp [blockBytes, hget, writeBlock_of_fits c h _ (hfit _ (List.getElem_mem hi'))]

/-- the data variant: the payloads of the first `m` delivered blocks, followed by what the sequential writer
    still holds in its active block, are exactly the bytes accepted by the first `j+1` calls; after a `Flush`
    the active block is empty, so everything written before the `Flush` has been delivered. -/
theorem wait_durable_data (wc : Nat) (c : CodecFns) (h : Header) (wops : List (BgzfWriter.Op Byte)) (j : Nat)
    (hnc : BgzfWriter.hasClose (wops.take (j + 1)) = false)
    {tr post mid : List WriterLTS.Ev} {m : Nat} {s : WriterLTS.State}
    (hrun : WriterLTS.Run (cfgOf wc c h wops) tr s) (htr : tr = post ++ .ret .wait .ok m :: mid)
    (hmid : WriterLTS.nrets mid = j) :
    ((s.out.take m).map (fun i => (after wops).emitted.getD i [])).flatten ++ (after (wops.take (j + 1))).active =
      BgzfWriter.accepted (wops.take (j + 1)) := by
  obtain ⟨-, -, h3, -⟩ := wait_durable_bytes wc c h wops j hnc hrun htr hmid
  rw [h3]
  exact BgzfWriter.after_held _

theorem accepted_append_noclose : ∀ (a b : List (BgzfWriter.Op α)), BgzfWriter.hasClose a = false →
    BgzfWriter.accepted (a ++ b) = BgzfWriter.accepted a ++ BgzfWriter.accepted b
  | [], b, _ => by simp [BgzfWriter.accepted]
  | op :: a, b, hc => by
    cases op with
    | close => simp [BgzfWriter.hasClose] at hc
    | write x =>
      have : BgzfWriter.hasClose a = false := by simpa [BgzfWriter.hasClose] using hc
      simp [BgzfWriter.accepted, accepted_append_noclose a b this]
    | flush =>
      have : BgzfWriter.hasClose a = false := by simpa [BgzfWriter.hasClose] using hc
      simp [BgzfWriter.accepted, accepted_append_noclose a b this]
    | wait =>
      have : BgzfWriter.hasClose a = false := by simpa [BgzfWriter.hasClose] using hc
      simp [BgzfWriter.accepted, accepted_append_noclose a b this]

theorem after_flush_wait_active (pre : List (BgzfWriter.Op α)) (hnc : BgzfWriter.hasClose pre = false) :
    (after (pre ++ [.flush, .wait])).active = [] := by
  have hcl : (after pre).closed = false := by rw [BgzfWriter.after_closed, hnc]
  simp only [after, run_append] at hcl ⊢
  simp only [BgzfWriter.run, BgzfWriter.step, BgzfWriter.flush, BgzfWriter.wait, hcl, Bool.false_eq_true, if_false]
  split
  · rename_i h0; exact List.eq_nil_of_length_eq_zero h0
  · rfl

end Hts.Model.WriterCompose
