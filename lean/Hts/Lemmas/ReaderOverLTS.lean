/-
The byte-level consumer over the read-ahead protocol (Model/ReaderOverLTS.lean): run with the sequential
blocks it is the reader model of C02; run over the protocol it gets the sequential blocks on every path.
-/
import Hts.Model.ReaderOverLTS
import Hts.Lemmas.ReaderLTSFile
import Hts.Lemmas.ReaderLTSExact
namespace Hts.Model.ReadAhead
open Hts.Model.Bgzf
open Hts.Spec.Flat (Offset Chunk)

theorem Prog.seq_bind {α β : Type} (F : File) (p : Prog α) (f : α → Prog β) (c : Blk) :
    (p.bind f).seq F c = (f (p.seq F c).1).seq F (p.seq F c).2 := by
  induction p generalizing c with
  | done a => rfl
  | call cl k ih => simp only [Prog.bind, Prog.seq]; exact ih _ _

/-- The identity of a byte-level block is what a load at its base gives. -/
def IdOK (F : File) (b : Block) : Prop := Exact (chainOf F) (blkOf b)

theorem blockOf_load (F : File) (b0 : Block) (e : Nat) :
    blockOf F ⟨some e, chainOf F e⟩ = Block.load F b0 e := by
  simp only [blockOf, chainOf, Block.load, payloadOf, failErr]
  cases hm : memberAt F e with
  | ok m => simp [hm]
  | eof => simp [hm]
  | bad => simp [hm]

theorem idOK_load {F : File} (hwf : WF F) (b0 : Block) (e : Nat) : IdOK F (Block.load F b0 e).1 := by
  unfold IdOK; rw [blkOf_load hwf]; simp [Exact]

theorem respond_next {F : File} (hwf : WF F) {b : Block} (hid : IdOK F b) :
    blockOf F (seqNext (chainOf F) (blkOf b) .next) = Block.load F b b.nextBase ∧
    seqNext (chainOf F) (blkOf b) .next = blkOf (Block.load F b b.nextBase).1 := by
  by_cases hd : b.hasData = true
  · have h1 : seqNext (chainOf F) (blkOf b) .next = ⟨some b.nextBase, chainOf F b.nextBase⟩ := by
      simp [seqNext, blkOf, hd]
    rw [h1, blkOf_load hwf]; exact ⟨blockOf_load F b _, rfl⟩
  · have hd' : b.hasData = false := by simpa using hd
    have hh : b.hsize = 0 := by simpa [Block.hasData] using hd'
    have h1 : seqNext (chainOf F) (blkOf b) .next = ⟨some b.base, none⟩ := by
      simp [seqNext, blkOf, hd']
    have hc : chainOf F b.base = none := by
      have := hid; simp only [IdOK, Exact, blkOf, hd'] at this; simpa using this.symm
    have hnb : b.nextBase = b.base := by simp [Block.nextBase, hh]
    rw [h1, hnb, blkOf_load hwf, hc]
    refine ⟨?_, rfl⟩
    rw [← hc]; exact blockOf_load F b _

theorem respond_seek_slow {F : File} {b : Block} {off : Nat} (h : off ≠ b.base ∨ b.hasData = false) :
    seqNext (chainOf F) (blkOf b) (.seek off) = ⟨some off, chainOf F off⟩ := by
  have hn : ¬ ((blkOf b).base = some off ∧ good (blkOf b) = true) := by
    rintro ⟨h1, h2⟩
    rcases h with h | h
    · simp [blkOf] at h1; exact h h1.symm
    · simp [blkOf, good, h] at h2
  simp only [seqNext, hn, if_false]

theorem respond_seek_fast {F : File} {b : Block} {off : Nat} (h : ¬ (off ≠ b.base ∨ b.hasData = false)) :
    seqNext (chainOf F) (blkOf b) (.seek off) = blkOf b := by
  have h1 : off = b.base := by
    apply Classical.byContradiction; intro hh; exact h (Or.inl hh)
  have h2 : b.hasData = true := by
    cases hd : b.hasData with
    | true => rfl
    | false => exact absurd (Or.inr hd) h
  simp [seqNext, blkOf, good, h1, h2]

theorem blkOf_read (b : Block) (n : Nat) : blkOf (b.read n).2.2 = blkOf b := by
  unfold Block.read; split <;> rfl

theorem blkOf_readByte (b : Block) : blkOf b.readByte.2.2 = blkOf b := by
  unfold Block.readByte; split <;> rfl

theorem blkOf_seek (b : Block) (k : Nat) : blkOf (b.seek k) = blkOf b := rfl


/-- The reader is over `F` and its current block's identity is that of a load at its base. -/
def Tracks (F : File) (r : Reader) : Prop := r.file = F ∧ IdOK F r.cur

theorem gNextBlock_seq {F : File} (hwf : WF F) {r : Reader} (hr : Tracks F r) :
    (gNextBlock r).seq F (blkOf r.cur) = (r.nextBlock, blkOf r.nextBlock.1.cur) ∧ Tracks F r.nextBlock.1 := by
  have h := respond_next hwf hr.2
  obtain ⟨hf, -⟩ := hr
  subst hf
  simp only [gNextBlock, Prog.seq, Reader.nextBlock]
  rw [h.1, h.2]
  exact ⟨rfl, rfl, idOK_load hwf _ _⟩

theorem gSkipEmpty_seq {F : File} (hwf : WF F) : ∀ (fuel : Nat) (r : Reader), Tracks F r →
    (gSkipEmpty fuel r).seq F (blkOf r.cur) = (r.skipEmpty fuel, blkOf (r.skipEmpty fuel).cur) ∧
    Tracks F (r.skipEmpty fuel) := by
  intro fuel
  induction fuel with
  | zero => intro r hr; exact ⟨rfl, hr⟩
  | succ fuel ih =>
    intro r hr
    simp only [gSkipEmpty, Reader.skipEmpty]
    split
    · have hn := gNextBlock_seq hwf hr
      rw [Prog.seq_bind, hn.1]
      rcases hnb : r.nextBlock with ⟨r', e⟩
      rw [hnb] at hn
      cases e with
      | some e => exact ⟨rfl, hn.2⟩
      | none => exact ih { r' with err := none } hn.2
    · exact ⟨rfl, hr⟩

theorem tracks_cur_read {F : File} {rf : File} {rc : Block} {rl : Chunk} {re re' : Option Err} {rb : Bool}
    (h : Tracks F ⟨rf, rc, rl, re, rb⟩) (n : Nat) (rl' : Chunk) :
    Tracks F ⟨rf, (rc.read n).2.2, rl', re', rb⟩ :=
  ⟨h.1, by have := h.2; unfold IdOK at *; simp only [blkOf_read]; exact this⟩

theorem gReadLoop_seq {F : File} (hwf : WF F) : ∀ (fuel : Nat) (r : Reader) (want : Nat), Tracks F r →
    (gReadLoop fuel r want).seq F (blkOf r.cur) =
      (r.readLoop fuel want, blkOf (r.readLoop fuel want).1.cur) ∧
    Tracks F (r.readLoop fuel want).1 := by
  intro fuel
  induction fuel with
  | zero => intro r want hr; exact ⟨rfl, hr⟩
  | succ fuel ih =>
    intro r want hr
    obtain ⟨rf, rc, rl, re, rb⟩ := r
    simp only [gReadLoop, Reader.readLoop]
    split
    · have hb : blkOf (rc.read want).2.2 = blkOf rc := blkOf_read rc want
      have ht := fun re' rl' => tracks_cur_read (re' := re') hr want rl'
      rcases hrd : rc.read want with ⟨out, eof, b⟩
      rw [hrd] at hb ht
      simp only at hb ht
      cases eof with
      | false =>
        simp only
        have := ih ⟨rf, b, rl, re, rb⟩ (want - out.length) (ht re rl)
        simp only [hb] at this
        rw [Prog.seq_bind, this.1]
        exact ⟨rfl, this.2⟩
      | true =>
        simp only
        by_cases h0 : want - out.length = 0
        · simp only [h0, if_true, Prog.seq, Reader.setEnd, hb]
          exact ⟨trivial, ht _ _⟩
        · simp only [h0, if_false]
          cases rb with
          | true =>
            simp only [if_true, Prog.seq, Reader.setEnd, hb]
            exact ⟨trivial, ht _ _⟩
          | false =>
            simp only [Bool.false_eq_true, if_false]
            have hn := gNextBlock_seq hwf (ht (some Err.eof) rl)
            simp only [hb] at hn
            rw [Prog.seq_bind, hn.1]
            rcases hnb : (⟨rf, b, rl, some Err.eof, false⟩ : Reader).nextBlock with ⟨r', e⟩
            rw [hnb] at hn
            cases e with
            | some e => exact ⟨rfl, hn.2⟩
            | none =>
              simp only
              have := ih { r' with err := none } (want - out.length) hn.2
              rw [Prog.seq_bind, this.1]
              exact ⟨rfl, this.2⟩
    · exact ⟨rfl, hr⟩

theorem gRead_seq {F : File} (hwf : WF F) {r : Reader} (hr : Tracks F r) (n : Nat) :
    (gRead r n).seq F (blkOf r.cur) = (r.read n, blkOf (r.read n).1.cur) ∧ Tracks F (r.read n).1 := by
  simp only [gRead, Reader.read]
  cases he : r.err with
  | some e => exact ⟨rfl, hr⟩
  | none =>
    simp only
    have hs := gSkipEmpty_seq hwf r.skipFuel r hr
    rw [Prog.seq_bind, hs.1]
    simp only
    generalize r.skipEmpty r.skipFuel = r1 at hs ⊢
    obtain ⟨rf, rc, rl, re, rb⟩ := r1
    cases re with
    | some e => exact ⟨rfl, hs.2⟩
    | none => exact gReadLoop_seq hwf _ ⟨rf, rc, ⟨rc.tx, rl.fin⟩, none, rb⟩ n ⟨hs.2.1, hs.2.2⟩

theorem gReadByte_seq {F : File} (hwf : WF F) {r : Reader} (hr : Tracks F r) :
    (gReadByte r).seq F (blkOf r.cur) = (r.readByte, blkOf r.readByte.1.cur) ∧ Tracks F r.readByte.1 := by
  simp only [gReadByte, Reader.readByte]
  cases he : r.err with
  | some e => exact ⟨rfl, hr⟩
  | none =>
    simp only
    have hs := gSkipEmpty_seq hwf r.skipFuel r hr
    rw [Prog.seq_bind, hs.1]
    simp only
    generalize r.skipEmpty r.skipFuel = r1 at hs ⊢
    obtain ⟨rf, rc, rl, re, rb⟩ := r1
    cases re with
    | some e => exact ⟨rfl, hs.2⟩
    | none =>
      simp only
      have hb : blkOf rc.readByte.2.2 = blkOf rc := blkOf_readByte rc
      have ht : ∀ re' rl', Tracks F ⟨rf, rc.readByte.2.2, rl', re', rb⟩ := fun re' rl' =>
        ⟨hs.2.1, by have := hs.2.2; unfold IdOK at *; simp only [hb]; exact this⟩
      rcases hrd : rc.readByte with ⟨c, eof, b⟩
      rw [hrd] at hb ht
      simp only at hb ht
      cases eof with
      | false => simp only [Prog.seq, Reader.setEnd, hb]; exact ⟨trivial, ht _ _⟩
      | true =>
        simp only
        cases rb with
        | true => simp only [if_true, Prog.seq, Reader.setEnd, hb]; exact ⟨trivial, ht _ _⟩
        | false =>
          simp only [Bool.false_eq_true, if_false]
          have hn := gNextBlock_seq hwf (ht (some Err.eof) ⟨rc.tx, rl.fin⟩)
          simp only [hb] at hn
          rw [Prog.seq_bind, hn.1]
          exact ⟨rfl, hn.2⟩

theorem gSeek_seq {F : File} (hwf : WF F) {r : Reader} (hr : Tracks F r) (off : Offset) :
    (gSeek r off).seq F (blkOf r.cur) = (r.seek off, blkOf (r.seek off).1.cur) ∧ Tracks F (r.seek off).1 := by
  obtain ⟨hf, hid⟩ := hr
  subst hf
  simp only [gSeek, Reader.seek]
  split
  · rename_i h
    have h1 := respond_seek_slow (F := r.file) h
    simp only [Prog.seq, h1, blockOf_load r.file r.cur]
    have hl := blkOf_load hwf r.cur off.file
    have hi := idOK_load hwf r.cur off.file
    rcases hld : Block.load r.file r.cur off.file with ⟨b, e⟩
    rw [hld] at hl hi
    simp only at hl hi
    cases e with
    | some e => simp only [Prog.seq, hl]; exact ⟨trivial, rfl, hi⟩
    | none => simp only [Prog.seq]; exact ⟨by rw [← hl]; rfl, rfl, hi⟩
  · rename_i h
    have h1 := respond_seek_fast (F := r.file) h
    simp only [Prog.seq, h1]
    exact ⟨rfl, rfl, hid⟩

theorem gStep_seq {F : File} (hwf : WF F) {r : Reader} (hr : Tracks F r) (op : Hts.Spec.Flat.Op) :
    (gStep r op).seq F (blkOf r.cur) = (r.step op, blkOf (r.step op).1.cur) ∧ Tracks F (r.step op).1 := by
  cases op with
  | read n =>
    have h := gRead_seq hwf hr n
    simp only [gStep, Reader.step, Prog.seq_bind, h.1]
    exact ⟨rfl, h.2⟩
  | readByte =>
    have h := gReadByte_seq hwf hr
    simp only [gStep, Reader.step, Prog.seq_bind, h.1]
    exact ⟨rfl, h.2⟩
  | seek o =>
    have h := gSeek_seq hwf hr o
    simp only [gStep, Reader.step, Prog.seq_bind, h.1]
    exact ⟨rfl, h.2⟩
  | setBlocked b => exact ⟨rfl, hr⟩

/-- Run with the sequential blocks, the program of a history is `Reader.run`. -/
theorem gRun_seq {F : File} (hwf : WF F) : ∀ (ops : List Hts.Spec.Flat.Op) (r : Reader), Tracks F r →
    ((gRun r ops).seq F (blkOf r.cur)).1 = r.run ops := by
  intro ops
  induction ops with
  | nil => intro r _; rfl
  | cons op ops ih =>
    intro r hr
    have h := gStep_seq hwf hr op
    simp only [gRun, Reader.run, Prog.seq_bind, h.1]
    rw [ih _ h.2]
    rfl

/-- Run with the sequential blocks, an adaptive client's program is the client over the sequential reader. -/
theorem client_seq {α : Type} {F : File} (hwf : WF F) (c : Client α) : ∀ (r : Reader), Tracks F r →
    ((c.prog r).seq F (blkOf r.cur)).1 = c.run r := by
  induction c with
  | done a => intro r _; rfl
  | op o k ih =>
    intro r hr
    have h := gStep_seq hwf hr o
    simp only [Client.prog, Client.run, Prog.seq_bind, h.1]
    exact ih _ _ _ h.2

end Hts.Model.ReadAhead
