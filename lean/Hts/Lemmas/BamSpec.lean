/-
Model vs specification: the bytes written for a well-formed record are `Spec.layout` of the record's semantic reading
(`view`): little-endian fields, CIGAR words, 4-bit packing, qualities, every aux type (bytes → typed value → the
specification's bytes), the computed block size.  Also: `sam.NewSeq` packs as the specification says.
-/
import Hts.Lemmas.BamRecord
import Hts.Model.BamView
import Hts.Lemmas.Bytes
namespace Hts.Model.Bam
open Hts.Spec.Bam (Elem AuxValue Alignment le twos)

theorem byteOf_mod (n : Nat) : BitVec.ofNat 8 (n % 256) = byteOf n := by
  apply BitVec.eq_of_toNat_eq; simp [byteOf]

theorem le1 (n : Nat) : le 1 n = [byteOf n] := by simp [le, byteOf_mod]
theorem le2 (n : Nat) : le 2 n = putU16 n := by simp [le, byteOf_mod, putU16]
theorem le4 (n : Nat) : le 4 n = putU32 n := by
  simp only [le, byteOf_mod, putU32, Nat.div_div_eq_div_mul]

theorem int32_eq (x : Int) : Hts.Spec.Bam.int32 x = putI32 x := by
  simp only [Hts.Spec.Bam.int32, le4, twos, putI32]
  rfl


theorem fromLE_lt (bs : List Byte) : fromLE bs < 256 ^ bs.length := by
  induction bs with
  | nil => simp [fromLE]
  | cons b bs ih =>
    have := b.isLt
    simp only [fromLE, List.length_cons, Nat.pow_succ]
    omega

/-- bytes → value → bytes -/
theorem le_fromLE (bs : List Byte) : le bs.length (fromLE bs) = bs := by
  induction bs with
  | nil => rfl
  | cons b bs ih =>
    have := b.isLt
    have h1 : (b.toNat + 256 * fromLE bs) % 256 = b.toNat := by omega
    have h2 : (b.toNat + 256 * fromLE bs) / 256 = fromLE bs := by omega
    simp only [fromLE, List.length_cons, le, h1, h2, ih, BitVec.ofNat_toNat, BitVec.setWidth_eq]

theorem elem_roundtrip (e : Elem) (bs : List Byte) (h : bs.length = e.width) :
    le e.width (twos e.width (elemVal e bs)) = bs := by
  have hlt := fromLE_lt bs
  have key : twos e.width (elemVal e bs) = fromLE bs := by
    rw [h] at hlt
    cases e <;> simp only [Elem.width, elemVal, Elem.signed, sgn, twos] at * <;>
      (try split) <;> omega
  rw [key, ← h, le_fromLE]


theorem readElems_spec (e : Elem) : ∀ (n : Nat) (bs : List Byte) (vs : List Int),
    readElems e n bs = some vs →
      vs.length = n ∧ vs.flatMap (fun v => le e.width (twos e.width v)) = bs := by
  intro n
  induction n with
  | zero =>
    intro bs vs h
    cases bs with
    | nil => simp only [readElems, Option.some.injEq] at h; subst h; simp
    | cons b bs => simp [readElems] at h
  | succ n ih =>
    intro bs vs h
    simp only [readElems] at h
    split at h
    · simp at h
    · rename_i hl
      cases hr : readElems e n (bs.drop e.width) with
      | none => simp [hr] at h
      | some ws =>
        simp only [hr, Option.map_some, Option.some.injEq] at h
        subst h
        obtain ⟨h1, h2⟩ := ih _ _ hr
        refine ⟨by simp [h1], ?_⟩
        have ht : (bs.take e.width).length = e.width := by simp; omega
        simp only [List.flatMap_cons, h2, elem_roundtrip e _ ht, List.take_append_drop]

theorem readElems_exists (e : Elem) : ∀ (n : Nat) (bs : List Byte), bs.length = n * e.width →
    ∃ vs, readElems e n bs = some vs := by
  intro n
  induction n with
  | zero =>
    intro bs h
    have : bs = [] := by cases bs with | nil => rfl | cons _ _ => simp at h
    subst this; exact ⟨[], rfl⟩
  | succ n ih =>
    intro bs h
    have hl : ¬ bs.length < e.width := by rw [h, Nat.succ_mul]; omega
    obtain ⟨ws, hw⟩ := ih (bs.drop e.width) (by simp only [List.length_drop, h, Nat.succ_mul]; omega)
    exact ⟨elemVal e (bs.take e.width) :: ws, by simp only [readElems, hl, ↓reduceIte, hw, Option.map_some]⟩

theorem elemOfLetter_of_width {t : Byte} {w : Nat} (h : elemWidth t = some w) :
    ∃ e, elemOfLetter t = some e ∧ e.width = w ∧ e.letter = t := by
  unfold elemWidth at h
  split at h
  · rename_i hc; simp only [Bool.or_eq_true, beq_iff_eq] at hc
    simp only [Option.some.injEq] at h; subst h
    rcases hc with rfl | rfl
    · exact ⟨.c, rfl, rfl, rfl⟩
    · exact ⟨.C, rfl, rfl, rfl⟩
  split at h
  · rename_i hc; simp only [Bool.or_eq_true, beq_iff_eq] at hc
    simp only [Option.some.injEq] at h; subst h
    rcases hc with rfl | rfl
    · exact ⟨.s, rfl, rfl, rfl⟩
    · exact ⟨.S, rfl, rfl, rfl⟩
  split at h
  · rename_i hc; simp only [Bool.or_eq_true, beq_iff_eq] at hc
    simp only [Option.some.injEq] at h; subst h
    rcases hc with (rfl | rfl) | rfl
    · exact ⟨.i, rfl, rfl, rfl⟩
    · exact ⟨.I, rfl, rfl, rfl⟩
    · exact ⟨.f, rfl, rfl, rfl⟩
  · simp at h


theorem auxView_cons3 (t0 t1 t : Byte) (v : List Byte) :
    auxView (t0 :: t1 :: t :: v) =
      (if t == 65#8 then
        match v with
        | [c] => some ((t0, t1), .char c)
        | _ => none
      else if t == 90#8 then some ((t0, t1), .str v)
      else if t == 72#8 then some ((t0, t1), .hex (hexEnc v))
      else if t == 66#8 then
        match v with
        | sub :: n0 :: n1 :: n2 :: n3 :: elems =>
          match elemOfLetter sub with
          | none => none
          | some e => (readElems e (getU32 n0 n1 n2 n3) elems).map (fun vs => ((t0, t1), .arr e vs))
        | _ => none
      else
        match elemOfLetter t with
        | none => none
        | some e => if v.length == e.width then some ((t0, t1), .num e (elemVal e v)) else none) := rfl

/-- aux field: the bytes `buildAux` writes are the specification's encoding of the value the field stands for -/
theorem auxView_spec (a : List Byte) (h : auxOK a = true) :
    ∃ t0 t1 v, auxView a = some ((t0, t1), v) ∧ Hts.Spec.Bam.auxBytes t0 t1 v = encAux a := by
  match a, h with
  | t0 :: t1 :: t :: v, h =>
    rw [auxOK_cons3] at h
    have hg : (t0 :: t1 :: t :: v).getD 2 0#8 = t := rfl
    refine ⟨t0, t1, ?_⟩
    rw [auxView_cons3]
    split at h
    · -- 'A'
      rename_i hA
      have hA' : t = 65#8 := by simpa using hA
      subst hA'
      have hv : v.length = 1 := by simpa using h
      match v, hv with
      | [c], _ => exact ⟨.char c, rfl, by rw [encAux_other _ _ _ _ rfl]; rfl⟩
    split at h
    · -- 'Z'
      rename_i hA hZ
      have hZ' : t = 90#8 := by simpa using hZ
      subst hZ'
      exact ⟨.str v, rfl, by rw [encAux_Z]; simp [Hts.Spec.Bam.auxBytes]⟩
    split at h
    · -- 'H': the value is the hex-digit text of the in-memory bytes
      rename_i hA hZ hH
      have hH' : t = 72#8 := by simpa using hH
      subst hH'
      exact ⟨.hex (hexEnc v), rfl, by rw [encAux_H]; simp [Hts.Spec.Bam.auxBytes]⟩
    split at h
    · -- 'B'
      rename_i _ _ _ hB
      have hB' : t = 66#8 := by simpa using hB
      subst hB'
      split at h
      · rename_i sub n0 n1 n2 n3 elems
        split at h
        · rename_i w hw
          have hl : elems.length = getU32 n0 n1 n2 n3 * w := by simpa using h
          obtain ⟨e, he, hew, hel⟩ := elemOfLetter_of_width hw
          obtain ⟨vs, hvs⟩ := readElems_exists e (getU32 n0 n1 n2 n3) elems (by rw [hew]; exact hl)
          obtain ⟨hn, hb⟩ := readElems_spec e _ _ _ hvs
          refine ⟨.arr e vs, by simp [he, hvs], ?_⟩
          rw [encAux_other _ _ _ _ rfl]
          simp only [Hts.Spec.Bam.auxBytes, hn, le4, putU32_get, hb, hel,
            List.append_nil, List.cons_append, List.nil_append]
        · simp at h
      · simp at h
    · -- c C s S i I f
      rename_i hA hZ hH hB
      split at h
      · rename_i w hw
        have hv : v.length = w := by simpa using h
        obtain ⟨e, he, hew, hel⟩ := elemOfLetter_of_width hw
        have hz := (elemWidth_notZH hw).1
        refine ⟨.num e (elemVal e v), ?_, ?_⟩
        · simp [hA, hZ, hH, hB, he, hv, hew]
        · rw [encAux_other _ _ _ _ hz]
          simp only [Hts.Spec.Bam.auxBytes, elem_roundtrip e v (by rw [hv, hew]), hel,
            List.append_nil, List.cons_append, List.nil_append]
      · simp at h


theorem auxViews_spec (as : List (List Byte)) (h : ∀ a ∈ as, auxOK a = true) :
    ∃ xs, auxViews as = some xs ∧
      xs.flatMap (fun tv => Hts.Spec.Bam.auxBytes tv.1.1 tv.1.2 tv.2) = encAuxAll as := by
  induction as with
  | nil => exact ⟨[], rfl, rfl⟩
  | cons a as ih =>
    obtain ⟨t0, t1, v, hv, hb⟩ := auxView_spec a (h a (by simp))
    obtain ⟨xs, hx, hxs⟩ := ih (fun b hb => h b (by simp [hb]))
    refine ⟨((t0, t1), v) :: xs, by simp [auxViews, hv, hx], ?_⟩
    simp only [List.flatMap_cons, hb, hxs, encAuxAll]

/-- the unused low nibble of an odd-length packed sequence is zero (what `sam.NewSeq` produces) -/
def padOK : Nat → List Byte → Bool
  | 0, _ => true
  | 1, d :: _ => d.toNat % 16 == 0
  | n + 2, _ :: ds => padOK n ds
  | _, [] => true

/-- packed sequence: doublets → codes → the specification's packing gives the doublets back -/
theorem codes_spec : ∀ (n : Nat) (seq : List Byte), seq.length = (n + 1) / 2 → padOK n seq = true →
    ∃ cs, codes n seq = some cs ∧ cs.length = n ∧ Hts.Spec.Bam.packSeq cs = seq
  | 0, seq, hl, _ => by
    have : seq = [] := by cases seq with | nil => rfl | cons _ _ => simp at hl
    subst this; exact ⟨[], rfl, rfl, rfl⟩
  | 1, seq, hl, hp => by
    match seq, hl with
    | [d], _ =>
      have hd : d.toNat % 16 = 0 := by simpa [padOK] using hp
      refine ⟨[d.toNat / 16], rfl, rfl, ?_⟩
      simp only [Hts.Spec.Bam.packSeq]
      congr 1
      apply BitVec.eq_of_toNat_eq
      have := d.isLt
      simp; omega
  | n + 2, seq, hl, hp => by
    match seq, hl with
    | [], hl => simp only [List.length_nil] at hl; omega
    | d :: ds, hl =>
      have hl' : ds.length = (n + 1) / 2 := by simp only [List.length_cons] at hl; omega
      obtain ⟨cs, hc, hn, hpk⟩ := codes_spec n ds hl' (by simpa [padOK] using hp)
      refine ⟨d.toNat / 16 :: d.toNat % 16 :: cs, by simp [codes, hc], by simp [hn], ?_⟩
      simp only [Hts.Spec.Bam.packSeq, hpk]
      congr 1
      apply BitVec.eq_of_toNat_eq
      have := d.isLt
      simp; omega

theorem cigar_spec (cs : List (BitVec 32)) :
    (cs.map (fun c => (cigarLen c, cigarType c))).flatMap (fun c => le 4 (c.1 * 16 + c.2)) = cigarBytes cs := by
  induction cs with
  | nil => rfl
  | cons c cs ih =>
    have : cigarLen c * 16 + cigarType c = c.toNat := by simp only [cigarLen, cigarType]; omega
    simp only [List.map_cons, List.flatMap_cons]
    rw [ih, le4, this]
    rfl


theorem putI32_natCast (n : Nat) (h : n < 4294967296) : putI32 (n : Int) = putU32 n := by
  simp only [putI32]
  congr 1
  omega

/-- every well-formed record has a semantic reading, and the fields after the length prefix are the
specification's layout of that reading -/
theorem view_body {n : Nat} {r : Record} (h : WF n r) (hp : padOK r.seqLen r.seq = true) (bin : Nat) :
    ∃ a, view bin r = some a ∧ Hts.Spec.Bam.body a = bodyOf bin (encAuxAll r.aux) r := by
  obtain ⟨cs, hc, hcn, hpk⟩ := codes_spec r.seqLen r.seq h.seq_len hp
  obtain ⟨xs, hx, hxs⟩ := auxViews_spec r.aux h.aux_ok
  let a : Alignment :=
      { refID := refID r.ref, pos := r.pos, mapq := r.mapq.toNat, bin := bin, flag := r.flags.toNat,
        nextRefID := refID r.mateRef, nextPos := r.matePos, tlen := r.tempLen, readName := r.name,
        cigar := r.cigar.map (fun c => (cigarLen c, cigarType c)), seq := cs, qual := r.qual, aux := xs }
  refine ⟨a, by simp only [view, hc, hx, a], ?_⟩
  have hq : Hts.Spec.Bam.qualField a = qualBytes r := by
    simp only [Hts.Spec.Bam.qualField, qualBytes, hcn, a]
    cases r.qual <;> rfl
  have hsl : putU32 r.seqLen = putI32 (r.seqLen : Int) := (putI32_natCast _ (by have := seqLen_lt h; omega)).symm
  simp only [Hts.Spec.Bam.body, hq]
  simp only [a, cigar_spec, hpk, hxs, hcn, List.length_map]
  simp only [int32_eq, le1, le2, le4, hsl, byteOf_of_toNat, bodyOf,
    List.append_assoc, List.cons_append, List.nil_append]

/-- ENCODE IS SPEC: the bytes `Writer.Write` produces are `Spec.layout` of the record's semantic reading, the bin
field being the one the writer computed -/
theorem encodeRecord_is_layout {n : Nat} {r : Record} (h : WF n r) (hp : padOK r.seqLen r.seq = true) :
    ∃ bin a, recordBin r = bin ∧ view bin r = some a ∧ encodeRecord r = .ok (Hts.Spec.Bam.layout a) := by
  obtain ⟨bin, hb, he⟩ := encodeRecord_ok h
  obtain ⟨a, ha, hbody⟩ := view_body h hp bin
  refine ⟨bin, a, hb, ha, ?_⟩
  have hlt := recLen_lt h
  have hl := recLen_eq h bin
  have := putI32_natCast (recLen r (encAuxAll r.aux)) (by omega)
  rw [he, Hts.Spec.Bam.layout, hbody, le4, this, hl]


theorem le_length (w n : Nat) : (le w n).length = w := by
  induction w generalizing n with
  | zero => rfl
  | succ w ih => simp [le, ih]

/-- the bin field occupies bytes 14 and 15 of the layout and nothing else depends on it -/
theorem layout_except_bin (a : Alignment) (b : Nat) :
    ∃ pre post, pre.length = 14 ∧ Hts.Spec.Bam.layout a = pre ++ le 2 a.bin ++ post ∧
      Hts.Spec.Bam.layout { a with bin := b } = pre ++ le 2 b ++ post := by
  have hlen : (Hts.Spec.Bam.body { a with bin := b }).length = (Hts.Spec.Bam.body a).length := by
    simp only [Hts.Spec.Bam.body, Hts.Spec.Bam.qualField, List.length_append, le_length]
  refine ⟨le 4 (Hts.Spec.Bam.body a).length ++ Hts.Spec.Bam.int32 a.refID ++ Hts.Spec.Bam.int32 a.pos ++
      le 1 (a.readName.length + 1) ++ le 1 a.mapq, ?_, ?_, ?_, ?_⟩
  rotate_left
  · simp only [List.length_append, le_length, Hts.Spec.Bam.int32]
  · simp only [Hts.Spec.Bam.layout, Hts.Spec.Bam.body, List.append_assoc]
    rfl
  · rw [Hts.Spec.Bam.layout, hlen]
    simp only [Hts.Spec.Bam.body, Hts.Spec.Bam.qualField, List.append_assoc]

/-- `sam.NewSeq` packs exactly as the specification says -/
theorem contract_eq_packSeq (s : List Byte) : contract s = Hts.Spec.Bam.packSeq (s.map n16) := by
  match s with
  | [] => rfl
  | [a] => rfl
  | a :: b :: rest =>
    simp only [contract, List.map_cons, Hts.Spec.Bam.packSeq, contract_eq_packSeq rest]
    rfl

theorem contract_length : ∀ s : List Byte, (contract s).length = (s.length + 1) / 2
  | [] => rfl
  | [_] => by simp [contract]
  | _ :: _ :: rest => by simp only [contract, List.length_cons, contract_length rest]; omega

theorem n16_lt : ∀ b : Byte, n16 b < 16 := Hts.Lemmas.byte_forall _ (by decide +kernel)

theorem contract_padOK : ∀ s : List Byte, padOK s.length (contract s) = true
  | [] => rfl
  | [a] => by
    have := n16_lt a
    simp only [List.length_cons, List.length_nil, contract, padOK, byteOf, BitVec.toNat_ofNat, beq_iff_eq]
    omega
  | _ :: _ :: rest => by simp only [List.length_cons, contract, padOK, contract_padOK rest]

end Hts.Model.Bam
