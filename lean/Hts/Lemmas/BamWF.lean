/-
Well-formedness of records for the BAM codec: exactly what the BAM format can represent (SAMv1 §4.2), stated on the
in-memory record.  Definitions only (the predicate is decidable field by field; see the example in Props/C05).
-/
import Hts.Model.BamRecord
namespace Hts.Model.Bam

/-- width in bytes of a numeric aux / array element type letter: c C s S i I f -/
def elemWidth (t : Byte) : Option Nat :=
  if t == 99#8 || t == 67#8 then some 1
  else if t == 115#8 || t == 83#8 then some 2
  else if t == 105#8 || t == 73#8 || t == 102#8 then some 4
  else none

/-- A well-formed in-memory aux field (`sam.Aux`): two tag bytes, a type letter and a payload of the size the type
demands: `A c C` 1 byte, `s S` 2, `i I f` 4; `Z` any bytes but the whole field free of NUL (the payload is stored
without its terminator); `H` ANY bytes (the decoded byte array; it is written as hex digits), tag bytes not NUL; `B` a sub-type among `c C s S i I f`, a 32-bit count and exactly count × width payload bytes. -/
def auxOK (a : List Byte) : Bool :=
  match a with
  | t0 :: t1 :: t :: v =>
    if t == 65#8 then v.length == 1
    else if t == 90#8 then !a.contains 0#8
    else if t == 72#8 then t0 != 0#8 && t1 != 0#8
    else if t == 66#8 then
      match v with
      | sub :: n0 :: n1 :: n2 :: n3 :: elems =>
        match elemWidth sub with
        | some w => elems.length == getU32 n0 n1 n2 n3 * w
        | none => false
      | _ => false
    else
      match elemWidth t with
      | some w => v.length == w
      | none => false
  | _ => false

def inInt32 (x : Int) : Prop := -2147483648 ≤ x ∧ x < 2147483648

instance (x : Int) : Decidable (inInt32 x) := by unfold inInt32; infer_instance

/-- size of one aux field as written: `Z` gets its NUL back, `H` is two digits per payload byte and a NUL -/
def auxSize1 (a : List Byte) : Nat :=
  if a.getD 2 0#8 == 72#8 then a.length + (a.length - 3) + 1
  else if a.getD 2 0#8 == 90#8 then a.length + 1
  else a.length

/-- total size of the aux block as written -/
def auxSize (as : List (List Byte)) : Nat := (as.map auxSize1).sum

/-- The records the BAM format can represent, for a header with `nrefs` references. -/
structure WF (nrefs : Nat) (r : Record) : Prop where
  nrefs_ok : nrefs < 2147483648
  name_len : 1 ≤ r.name.length ∧ r.name.length ≤ 254
  name_nonul : 0#8 ∉ r.name
  ref_ok : ∀ i, r.ref = some i → i < nrefs
  mate_ok : ∀ i, r.mateRef = some i → i < nrefs
  pos_ok : inInt32 r.pos
  matePos_ok : inInt32 r.matePos
  tempLen_ok : inInt32 r.tempLen
  cigar_count : r.cigar.length ≤ 65535
  seq_len : r.seq.length = (r.seqLen + 1) / 2
  qual_len : ∀ q, r.qual = some q → q.length = r.seqLen
  aux_ok : ∀ a ∈ r.aux, auxOK a = true
  size_ok : 32 + r.name.length + 1 + r.cigar.length * 4 + r.seq.length + r.seqLen + auxSize r.aux < 2147483648

end Hts.Model.Bam
