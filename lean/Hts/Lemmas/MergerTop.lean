/-
What NewMerger builds and what reading it to the end returns, in terms of the inputs.
-/
import Hts.Lemmas.MergerCat
namespace Hts.Model.Merger

/-- m.refLinks: nil for a single source -/
def linksOf (linkFn : LinkFn) (inputs : List Input) : Option LinkFn :=
  if inputs.length = 1 then none else some linkFn

/-- the sources with their ids 0, 1, … -/
def srcsOf (inputs : List Input) : List (Nat × Src) := enumFrom 0 (inputs.map (·.src))

/-- m.less: chosen by the sort order of the first header -/
def lessOf (custom : Option Less) : List Input → Option Less
  | [] => none
  | i0 :: _ => chooseLess i0.so custom

/-- all records the inputs deliver, in input order, tagged with their input and re-linked -/
def deliveredBy (linkFn : LinkFn) (inputs : List Input) : List (Nat × Rec) :=
  delivered (linksOf linkFn inputs) (srcsOf inputs)

/-- the heap and the kept error after NewMerger read the first record of every input -/
abbrev initHeap (linkFn : LinkFn) (inputs : List Input) : List Live :=
  (initHeads (linksOf linkFn inputs) (srcsOf inputs)).1

abbrev initErr (linkFn : LinkFn) (inputs : List Input) : Option Nat :=
  (initHeads (linksOf linkFn inputs) (srcsOf inputs)).2

/-- the laws assumed of the link table (sam.MergeHeaders, property C07): reference `x` of source `i` is
linked to a reference of the merged header with the same name.  For a single source (`links = none`)
the merged header is the source header. -/
def LinksOK (srcRefs : List (List Name)) (merged : List Name) (links : Option LinkFn) : Prop :=
  ∀ (i : Nat) (names : List Name), srcRefs[i]? = some names → ∀ x : Nat, x < names.length →
    (match links with | none => x | some l => l i x) < merged.length ∧
    merged[(match links with | none => x | some l => l i x)]? = names[x]?

theorem enumFrom_ge {α : Type} : ∀ (k : Nat) (l : List α) (p : Nat × α), p ∈ enumFrom k l → k ≤ p.1
  | _, [], _, h => by cases h
  | k, a :: as, p, h => by
    cases h with
    | head => exact Nat.le_refl _
    | tail _ h => exact Nat.le_of_succ_le (enumFrom_ge (k + 1) as p h)

theorem enumFrom_nodup {α : Type} : ∀ (k : Nat) (l : List α), ((enumFrom k l).map (·.1)).Nodup
  | _, [] => List.nodup_nil
  | k, a :: as => by
    simp only [enumFrom, List.map_cons, List.nodup_cons, List.mem_map, not_exists, not_and]
    refine ⟨fun p hp heq => ?_, enumFrom_nodup (k + 1) as⟩
    have := enumFrom_ge (k + 1) as p hp
    omega

theorem mem_enumFrom {α : Type} : ∀ (k : Nat) (l : List α) (i : Nat) (a : α),
    (i, a) ∈ enumFrom k l ↔ k ≤ i ∧ l[i - k]? = some a
  | _, [], _, _ => by simp [enumFrom]
  | k, b :: bs, i, a => by
    simp only [enumFrom, List.mem_cons, Prod.mk.injEq, mem_enumFrom (k + 1) bs i a]
    constructor
    · rintro (⟨rfl, rfl⟩ | ⟨hle, hget⟩)
      · simp
      · refine ⟨by omega, ?_⟩
        have : i - k = (i - (k + 1)) + 1 := by omega
        rw [this]; simpa using hget
    · rintro ⟨hle, hget⟩
      by_cases hik : i = k
      · subst hik; simp at hget; exact Or.inl ⟨rfl, hget.symm⟩
      · right
        refine ⟨by omega, ?_⟩
        have : i - k = (i - (k + 1)) + 1 := by omega
        rw [this] at hget; simpa using hget

theorem srcsOf_nodup (inputs : List Input) : ((srcsOf inputs).map (·.1)).Nodup := enumFrom_nodup 0 _

/-- source `i` of the merger is the `i`-th input -/
theorem mem_srcsOf (inputs : List Input) (i : Nat) (s : Src) :
    (i, s) ∈ srcsOf inputs ↔ ∃ inp, inputs[i]? = some inp ∧ inp.src = s := by
  unfold srcsOf
  rw [mem_enumFrom]
  simp

theorem srcsOf_term (inputs : List Input) (p : Nat × Src) (hp : p ∈ srcsOf inputs) :
    ∃ inp, inp ∈ inputs ∧ inp.src = p.2 := by
  obtain ⟨i, s⟩ := p
  obtain ⟨inp, hget, hs⟩ := (mem_srcsOf inputs i s).1 hp
  exact ⟨inp, List.mem_of_getElem? hget, hs⟩

theorem srcsOf_of_mem (inputs : List Input) (inp : Input) (h : inp ∈ inputs) : ∃ i, (i, inp.src) ∈ srcsOf inputs := by
  obtain ⟨i, hi, hget⟩ := List.mem_iff_getElem.1 h
  exact ⟨i, (mem_srcsOf inputs i inp.src).2 ⟨inp, by rw [List.getElem?_eq_getElem hi, hget], rfl⟩⟩

/-- what a successful NewMerger holds (`merged = some linkFn`: MergeHeaders succeeded) -/
theorem newMerger_ok {custom : Option Less} {linkFn : LinkFn} {inputs : List Input} {m : Merger}
    (h : newMerger custom (some linkFn) inputs = .ok m) :
    m.links = linksOf linkFn inputs ∧
    m.mode = (match lessOf custom inputs with
      | none => .cat (srcsOf inputs) none
      | some less => .sorted less (initHeads (linksOf linkFn inputs) (srcsOf inputs)).1
          (initHeads (linksOf linkFn inputs) (srcsOf inputs)).2) := by
  unfold newMerger at h
  cases inputs with
  | nil => cases h
  | cons i0 tl =>
    simp only at h
    split at h
    · simp only [lessOf]
      have hlinks : (if (i0 :: tl).length = 1 then some none else (some linkFn).map some) =
          some (linksOf linkFn (i0 :: tl)) := by
        unfold linksOf; split <;> rfl
      rw [hlinks] at h
      simp only at h
      cases hc : chooseLess i0.so custom with
      | none =>
        simp only [hc, Except.ok.injEq] at h
        subst h
        exact ⟨rfl, rfl⟩
      | some less =>
        simp only [hc, Except.ok.injEq] at h
        subst h
        exact ⟨rfl, rfl⟩
    · cases h

/-- for a single input the answer of MergeHeaders is not consulted -/
theorem newMerger_single (custom : Option Less) (merged merged' : Option LinkFn) (i0 : Input) :
    newMerger custom merged [i0] = newMerger custom merged' [i0] := by
  unfold newMerger
  simp

theorem size_sorted (links : Option LinkFn) (less : Less) (heap : List Live) (err : Option Nat) :
    (⟨links, .sorted less heap err⟩ : Merger).size = (heapPending links heap).length := by
  unfold Merger.size heapPending
  simp only
  induction heap with
  | nil => rfl
  | cons y ys ih =>
    simp only [List.map_cons, List.sum_cons, List.flatMap_cons, List.length_append, ih]
    simp [Live.pending, tagged]
    omega

/-- reading a merger in concatenation mode to its end -/
theorem readAll_cat (H : Heap) {custom : Option Less} {linkFn : LinkFn} {inputs : List Input} {m : Merger}
    (hm : newMerger custom (some linkFn) inputs = .ok m) (hl : lessOf custom inputs = none) :
    m.readAll H = ((catSpec (linksOf linkFn inputs) (srcsOf inputs)).1,
                    some (catSpec (linksOf linkFn inputs) (srcsOf inputs)).2) := by
  obtain ⟨h1, h2⟩ := newMerger_ok hm
  rw [hl] at h2
  obtain ⟨links, mode⟩ := m
  simp only at h1 h2
  subst h1 h2
  unfold Merger.readAll
  rw [drain_cat]
  exact drainC_eq _ _ _ (Nat.lt_succ_self _)

/-- reading a merger in sorted mode to its end -/
theorem readAll_sorted (H : Heap) {custom : Option Less} {linkFn : LinkFn} {inputs : List Input} {m : Merger}
    {less : Less} (hm : newMerger custom (some linkFn) inputs = .ok m) (hl : lessOf custom inputs = some less) :
    ∃ n, (heapPending (linksOf linkFn inputs) (initHeap linkFn inputs)).length < n ∧
      m.readAll H = drainS H (linksOf linkFn inputs) less n (initHeap linkFn inputs) (initErr linkFn inputs) := by
  obtain ⟨h1, h2⟩ := newMerger_ok hm
  rw [hl] at h2
  obtain ⟨links, mode⟩ := m
  simp only at h1 h2
  subst h1 h2
  unfold Merger.readAll
  rw [drain_sorted, size_sorted]
  exact ⟨_, Nat.lt_succ_self _, rfl⟩

theorem mem_delivered (links : Option LinkFn) (srcs : List (Nat × Src)) (p : Nat × Rec) :
    p ∈ delivered links srcs ↔ ∃ i s r, (i, s) ∈ srcs ∧ r ∈ s.rest ∧ p = (i, relink links i r) := by
  unfold delivered tagged
  simp only [List.mem_flatMap, List.mem_map]
  constructor
  · rintro ⟨⟨i, s⟩, hq, r, hr, rfl⟩
    exact ⟨i, s, r, hq, hr, rfl⟩
  · rintro ⟨i, s, r, hq, hr, rfl⟩
    exact ⟨(i, s), hq, r, hr, rfl⟩

/-! ### after the final error -/

theorem catRead_fin_again (links : Option LinkFn) :
    ∀ (rs : List (Nat × Src)) (err : Option Nat) (st : List (Nat × Src) × Option Nat) (t : Term),
      catRead links rs err = (.fin t, st) → catRead links st.1 st.2 = (.fin t, st)
  | [], err, st, t, h => by
    simp only [catRead, Prod.mk.injEq, Out.fin.injEq] at h
    obtain ⟨rfl, rfl⟩ := h
    rfl
  | (id, s) :: rest, err, st, t, h => by
    unfold catRead at h
    cases hr : s.read with
    | got r s' => rw [hr] at h; simp at h
    | stop tt s' =>
      rw [hr] at h
      cases tt with
      | eof => exact catRead_fin_again links rest err st t h
      | err e =>
        simp only [Prod.mk.injEq, Out.fin.injEq] at h
        obtain ⟨rfl, rfl⟩ := h
        rfl

/-- once `Read` has returned an error it keeps returning that error and no record -/
theorem read_fin_again (H : Heap) (m m' : Merger) (t : Term) (h : m.read H = (.fin t, m')) :
    m'.read H = (.fin t, m') := by
  obtain ⟨links, mode⟩ := m
  cases mode with
  | cat rs err =>
    unfold Merger.read at h
    simp only at h
    cases hc : catRead links rs err with
    | mk o st =>
      rw [hc] at h
      simp only [Prod.mk.injEq] at h
      obtain ⟨rfl, rfl⟩ := h
      unfold Merger.read
      simp only [catRead_fin_again links rs err st t hc]
  | sorted less heap err =>
    unfold Merger.read at h
    simp only at h
    have hs : sortedRead H links less heap err = (.fin t, (heap, err)) := by
      unfold sortedRead at h ⊢
      cases hp : H.pop (heapLess less) heap with
      | none =>
        rw [hp] at h
        simp only [Prod.mk.injEq] at h
        rw [h.1]
      | some xr =>
        rw [hp] at h
        obtain ⟨x, rest⟩ := xr
        simp only at h
        cases hr : x.src.read with
        | got r s' => rw [hr] at h; simp at h
        | stop tt _ => rw [hr] at h; cases tt <;> simp at h
    rw [hs] at h
    simp only [Prod.mk.injEq] at h
    obtain ⟨_, rfl⟩ := h
    unfold Merger.read
    simp only [hs]

/-! ### when NewMerger fails -/

theorem newMerger_noSource (custom : Option Less) (merged : Option LinkFn) (inputs : List Input) :
    newMerger custom merged inputs = .error .noSource ↔ inputs = [] := by
  unfold newMerger
  cases inputs with
  | nil => simp
  | cons i0 tl =>
    simp only
    split
    · split
      · simp
      · cases chooseLess i0.so custom <;> simp
    · simp

theorem newMerger_mismatch (custom : Option Less) (merged : Option LinkFn) (inputs : List Input) :
    newMerger custom merged inputs = .error .sortOrderMismatch ↔
      ∃ i0 tl, inputs = i0 :: tl ∧ ∃ inp, inp ∈ inputs ∧ inp.so ≠ i0.so := by
  unfold newMerger
  cases inputs with
  | nil => simp
  | cons i0 tl =>
    simp only
    split
    · rename_i hall
      have hno : ¬ ∃ inp, inp ∈ i0 :: tl ∧ inp.so ≠ i0.so := by
        rintro ⟨inp, hinp, hne⟩
        have := List.all_eq_true.1 hall inp hinp
        exact hne (by simpa using this)
      constructor
      · intro h
        split at h
        · cases h
        · cases hc : chooseLess i0.so custom <;> simp [hc] at h
      · rintro ⟨j0, tl', heq, hex⟩
        simp only [List.cons.injEq] at heq
        obtain ⟨rfl, rfl⟩ := heq
        exact absurd hex hno
    · rename_i hall
      simp only [true_iff]
      refine ⟨i0, tl, rfl, ?_⟩
      simp only [List.all_eq_true, beq_iff_eq] at hall
      obtain ⟨inp, hinp⟩ := Classical.not_forall.1 hall
      obtain ⟨hmem, hne⟩ := Classical.not_imp.1 hinp
      exact ⟨inp, hmem, hne⟩

/-- the third failure: sam.MergeHeaders rejected the headers (two or more inputs that agree on the sort order) -/
theorem newMerger_headerMerge (custom : Option Less) (merged : Option LinkFn) (inputs : List Input) :
    newMerger custom merged inputs = .error .headerMerge ↔
      merged = none ∧ 2 ≤ inputs.length ∧ ∃ i0 tl, inputs = i0 :: tl ∧ ∀ inp, inp ∈ inputs → inp.so = i0.so := by
  unfold newMerger
  cases inputs with
  | nil => simp
  | cons i0 tl =>
    simp only
    split
    · rename_i hall
      have hsame : ∀ inp, inp ∈ i0 :: tl → inp.so = i0.so := by
        intro inp hinp
        simpa using List.all_eq_true.1 hall inp hinp
      by_cases h1 : (i0 :: tl).length = 1
      · simp only [h1, if_true]
        cases chooseLess i0.so custom <;> simp <;> intros <;> omega
      · simp only [h1, if_false]
        cases merged with
        | none =>
          simp only [Option.map_none, true_and, true_iff]
          refine ⟨?_, i0, tl, rfl, hsame⟩
          simp only [List.length_cons] at h1 ⊢
          omega
        | some l =>
          simp only [Option.map_some]
          cases chooseLess i0.so custom <;> simp
    · rename_i hall
      constructor
      · intro h; cases h
      rintro ⟨_, _, j0, tl', heq, hsame⟩
      simp only [List.cons.injEq] at heq
      obtain ⟨rfl, rfl⟩ := heq
      exfalso
      apply hall
      rw [List.all_eq_true]
      intro inp hinp
      simpa using hsame inp hinp

/-! ### sortedness can be checked on neighbours -/

def AdjSorted {α : Type} (lt : α → α → Bool) : List α → Prop
  | [] => True
  | [_] => True
  | a :: b :: rest => lt b a = false ∧ AdjSorted lt (b :: rest)

theorem adjSorted_iff {α : Type} (lt : α → α → Bool) (sw : StrictWeak lt) :
    ∀ l : List α, AdjSorted lt l ↔ SortedBy lt l
  | [] => by simp [AdjSorted, SortedBy]
  | [a] => by simp [AdjSorted, SortedBy]
  | a :: b :: rest => by
    have ih := adjSorted_iff lt sw (b :: rest)
    unfold AdjSorted
    rw [ih]
    unfold SortedBy
    constructor
    · rintro ⟨hba, hs⟩
      refine List.pairwise_cons.2 ⟨?_, hs⟩
      intro c hc
      cases hc with
      | head => exact hba
      | tail _ hc => exact sw.negTrans _ _ _ ((List.pairwise_cons.1 hs).1 c hc) hba
    · intro h
      obtain ⟨h1, h2⟩ := List.pairwise_cons.1 h
      exact ⟨h1 b List.mem_cons_self, h2⟩

end Hts.Model.Merger
