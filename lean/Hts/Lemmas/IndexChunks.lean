/-
Completeness of `internal.Index.Chunks` (model: Hts.Model.Index): from what a reference index knows
about its records (`RefCover`) to "the answer contains a chunk that encloses the record's chunk".
Contains `sorted_tiles_le`, the reason why the linear-index pruning stays safe although `sort()`
reorders the tile array.
-/
import Hts.Lemmas.IndexAddAll
namespace Hts.Model.Index

/-! ### sorting -/

theorem leOff_trans (a b c : Int) : leOff a b = true → leOff b c = true → leOff a c = true := by
  simp only [leOff, decide_eq_true_eq]; omega
theorem leOff_total (a b : Int) : (leOff a b || leOff b a) = true := by
  simp only [leOff, Bool.or_eq_true, decide_eq_true_eq]; omega
theorem leChunk_trans (a b c : Chunk) : leChunk a b = true → leChunk b c = true → leChunk a c = true := by
  simp only [leChunk, decide_eq_true_eq]; omega
theorem leChunk_total (a b : Chunk) : (leChunk a b || leChunk b a) = true := by
  simp only [leChunk, Bool.or_eq_true, decide_eq_true_eq]; omega
theorem leBin_trans (a b c : Bin) : leBin a b = true → leBin b c = true → leBin a c = true := by
  simp only [leBin, decide_eq_true_eq]; omega
theorem leBin_total (a b : Bin) : (leBin a b || leBin b a) = true := by
  simp only [leBin, Bool.or_eq_true, decide_eq_true_eq]; omega

/-- sorted by begin (what `sort.Sort(byBeginOffset(…))` establishes) -/
def SortedB (cs : List Chunk) : Prop := cs.Pairwise (fun a b => a.b ≤ b.b)

theorem sortChunks_sorted (cs : List Chunk) : SortedB (sortChunks cs) := by
  have := List.pairwise_mergeSort leChunk_trans leChunk_total cs
  unfold SortedB sortChunks
  exact this.imp (by intro a b h; simpa [leChunk] using h)

theorem mem_sortChunks {cs : List Chunk} {c : Chunk} : c ∈ sortChunks cs ↔ c ∈ cs :=
  (List.mergeSort_perm cs leChunk).mem_iff

/-- `sorted_tiles_le`: if every entry of the tile array up to position `k` is at most `B`, then after
sorting the array the entry at position `k` is at most `B`.  (Sorting moves the zero entries of
sparse tiles to the front and so shifts every recorded offset to a later tile; an entry can only get
smaller at its position.) -/
theorem sorted_tiles_le (l : List Int) (k : Nat) (B : Int) (hk : k < l.length)
    (hpre : ∀ j v, j ≤ k → l[j]? = some v → v ≤ B) :
    ∀ v, (l.mergeSort leOff)[k]? = some v → v ≤ B := by
  intro v hv
  let s := l.mergeSort leOff
  have hperm : s.Perm l := List.mergeSort_perm l leOff
  have hsorted : s.Pairwise (fun a b => a ≤ b) :=
    (List.pairwise_mergeSort leOff_trans leOff_total l).imp (by intro a b h; simpa [leOff] using h)
  let p : Int → Bool := fun x => decide (x ≤ B)
  -- at least k+1 entries of l are ≤ B
  have h1 : k + 1 ≤ List.countP p l := by
    have hsplit : l = l.take (k + 1) ++ l.drop (k + 1) := (List.take_append_drop (k + 1) l).symm
    have hall : List.countP p (l.take (k + 1)) = (l.take (k + 1)).length := by
      rw [List.countP_eq_length]
      intro a ha
      obtain ⟨j, hj, hja⟩ := List.mem_take_iff_getElem.1 ha
      have hjk : j ≤ k := by
        have : j < min (k + 1) l.length := hj
        omega
      have hlt : j < l.length := by
        have : j < min (k + 1) l.length := hj
        omega
      have : l[j]? = some a := by rw [List.getElem?_eq_some_iff]; exact ⟨hlt, hja⟩
      simpa [p] using hpre j a hjk this
    have hlen : (l.take (k + 1)).length = k + 1 := by rw [List.length_take]; omega
    rw [hsplit, List.countP_append, hall, hlen]
    omega
  -- if s[k] > B, at most k entries of s are ≤ B
  rcases Int.lt_or_le B v with hgt | hle
  · exfalso
    have hsplit : s = s.take k ++ s.drop k := (List.take_append_drop k s).symm
    have h2 : List.countP p (s.take k) ≤ k := by
      have := @List.countP_le_length _ p (s.take k)
      rw [List.length_take] at this
      omega
    have h3 : List.countP p (s.drop k) = 0 := by
      rw [List.countP_eq_zero]
      intro a ha
      obtain ⟨j, hj⟩ := List.mem_iff_getElem?.1 ha
      rw [List.getElem?_drop] at hj
      have hva : v ≤ a := by
        rcases Nat.eq_zero_or_pos j with h0 | hpos
        · subst h0
          have : s[k]? = some a := by simpa using hj
          have hv' : s[k]? = some v := hv
          rw [hv'] at this; cases this; exact Int.le_refl _
        · obtain ⟨hk1, hk2⟩ := List.getElem?_eq_some_iff.1 hv
          obtain ⟨hj1, hj2⟩ := List.getElem?_eq_some_iff.1 hj
          have := (List.pairwise_iff_getElem.1 hsorted) k (k + j) hk1 hj1 (by omega)
          rw [hk2, hj2] at this; exact this
      simp only [p, decide_eq_true_eq]
      omega
    have h4 : List.countP p s = List.countP p l := hperm.countP_eq p
    have h5 : List.countP p s ≤ k := by
      rw [hsplit, List.countP_append, h3]; omega
    omega
  · exact hle

/-! ### looking a bin up -/

/-- in a list sorted by bin number with pairwise distinct numbers the scan finds the bin -/
theorem findBin_sorted (L : List Bin) (x : Bin) (hs : L.Pairwise (fun a b => a.bin ≤ b.bin))
    (hn : (L.map (·.bin)).Nodup) (hx : x ∈ L) : findBin L x.bin = some x := by
  unfold findBin
  cases hf : L.find? (fun y => decide (y.bin ≥ x.bin)) with
  | none =>
    rw [List.find?_eq_none] at hf
    exact absurd (by simp) (hf x hx)
  | some y =>
    obtain ⟨hy, as, bs, hL, has⟩ := List.find?_eq_some_iff_append.1 hf
    simp only [decide_eq_true_eq] at hy
    simp only
    rw [hL] at hx hs hn
    have hxy : x = y := by
      rcases List.mem_append.1 hx with h | h
      · have := has x h
        simp at this
      · rcases List.mem_cons.1 h with h | h
        · exact h
        · exfalso
          have hyx : y.bin ≤ x.bin := by
            have := (List.pairwise_append.1 hs).2.1
            exact (List.pairwise_cons.1 this).1 x h
          have heq : y.bin = x.bin := by omega
          rw [List.map_append, List.map_cons] at hn
          have hn2 := (List.nodup_append.1 hn).2.1
          have := (List.nodup_cons.1 hn2).1
          exact this (by rw [heq]; exact List.mem_map.2 ⟨x, h, rfl⟩)
    subst hxy
    simp

/-- the bins of a sorted reference -/
theorem sortRef_bins_spec (ref : RefIndex) (hn : (ref.bins.map (·.bin)).Nodup) (bn : Bin) (hb : bn ∈ ref.bins) :
    findBin (sortRef ref).bins bn.bin = some ⟨bn.bin, sortChunks bn.chunks⟩ := by
  have hperm := List.mergeSort_perm ref.bins leBin
  have hsorted : (ref.bins.mergeSort leBin).Pairwise (fun a b => a.bin ≤ b.bin) :=
    (List.pairwise_mergeSort leBin_trans leBin_total ref.bins).imp (by intro a b h; simpa [leBin] using h)
  let f : Bin → Bin := fun b => { b with chunks := sortChunks b.chunks }
  have hL : (sortRef ref).bins = (ref.bins.mergeSort leBin).map f := rfl
  rw [hL]
  have hx : f bn ∈ (ref.bins.mergeSort leBin).map f := List.mem_map.2 ⟨bn, hperm.mem_iff.2 hb, rfl⟩
  have := findBin_sorted ((ref.bins.mergeSort leBin).map f) (f bn)
    (by rw [List.pairwise_map]; exact hsorted)
    (by
      rw [List.map_map]
      have : ((fun b : Bin => b.bin) ∘ f) = (fun b : Bin => b.bin) := rfl
      rw [this]
      exact (hperm.map _).nodup_iff.2 hn)
    hx
  exact this

/-! ### the tile loop -/

theorem tileHit_first (ivs : List Int) (beg stop : Int) (ce t : Int) (hb : 0 ≤ beg) (hq : beg ≤ stop)
    (ht : ivs[tileOf beg]? = some t) (hce : ce > t) : tileHit ivs (tileOf beg) beg stop ce = true := by
  unfold tileHit
  have hlt : tileOf beg < ivs.length := (List.getElem?_eq_some_iff.1 ht).1
  have hdrop : ivs.drop (tileOf beg) = t :: ivs.drop (tileOf beg + 1) := by
    rw [List.drop_eq_getElem_cons hlt]
    congr 1
    exact (List.getElem?_eq_some_iff.1 ht).2
  rw [hdrop]
  unfold tileLoop
  have h1 : ((tileOf beg : Nat) : Int) * (tileWidth : Nat) ≤ beg := by
    rw [tileOf_eq]; unfold tileWidth; omega
  have h2 : beg ≤ ((tileOf beg : Nat) : Int) * (tileWidth : Nat) + (tileWidth : Nat) := by
    rw [tileOf_eq]; unfold tileWidth; omega
  simp only [Bool.false_and, Bool.false_eq_true, if_false]
  have c1 : decide (((tileOf beg : Nat) : Int) * (tileWidth : Nat) + (tileWidth : Nat) ≥ beg) = true := by
    simp only [decide_eq_true_eq]; omega
  have c2 : decide (((tileOf beg : Nat) : Int) * (tileWidth : Nat) ≤ stop) = true := by
    simp only [decide_eq_true_eq]; omega
  have c3 : decide (ce > t) = true := by simp only [decide_eq_true_eq]; exact hce
  simp only [c1, c2, c3, Bool.and_self, if_true]

/-! ### one reference -/

/-- what completeness needs to know about a reference index (kept by `MergeChunks`) -/
structure RefCover (ref : RefIndex) (h : List Rec) : Prop where
  bins : ∀ r, r ∈ h → ∃ bn, bn ∈ ref.bins ∧ bn.bin = r.bin ∧ coveredBy bn.chunks r.chunk
  nodup : (ref.bins.map (·.bin)).Nodup
  tilesLen : ∀ r, r ∈ h → lastTile r.start r.stop < ref.intervals.length
  tilesLe : ∀ r, r ∈ h → ∀ k v, k ≤ lastTile r.start r.stop → ref.intervals[k]? = some v → v ≤ r.chunk.b

theorem RefInv.cover {ref : RefIndex} {h : List Rec} (inv : RefInv ref h) : RefCover ref h :=
  { bins := by
      intro r hr
      obtain ⟨bn, h1, h2, h3⟩ := inv.bins r hr
      exact ⟨bn, h1, h2, r.chunk, h3, Int.le_refl _, Int.le_refl _⟩
    nodup := inv.nodup
    tilesLen := inv.tilesLen
    tilesLe := inv.tilesLe }

/-- the candidate list of a sorted reference contains a chunk enclosing the chunk of every record
that overlaps the query, provided the record's bin is among the candidate bins -/
theorem candidates_complete (ref : RefIndex) (h : List Rec) (cov : RefCover ref h) (r : Rec) (hr : r ∈ h)
    (hce : r.chunk.b < r.chunk.e) (hpos : 0 ≤ r.start ∧ r.start < r.stop)
    (beg stop : Int) (bins : List Nat) (hb : 0 ≤ beg) (hq : beg < stop) (hov : beg < r.stop)
    (hbin : r.bin ∈ bins) :
    tileOf beg < (sortRef ref).intervals.length ∧
      coveredBy (candidates (sortRef ref) (tileOf beg) beg stop bins) r.chunk := by
  have hlen := cov.tilesLen r hr
  have hiv : tileOf beg ≤ lastTile r.start r.stop := by
    unfold lastTile
    simp only [hpos.2, if_true]
    exact tileOf_mono (by omega)
  have hslen : (sortRef ref).intervals.length = ref.intervals.length :=
    (List.mergeSort_perm ref.intervals leOff).length_eq
  refine ⟨by rw [hslen]; omega, ?_⟩
  obtain ⟨bn, hbn, hbb, c, hc, hc1, hc2⟩ := cov.bins r hr
  have hfind := sortRef_bins_spec ref cov.nodup bn hbn
  obtain ⟨t, ht⟩ : ∃ t, (sortRef ref).intervals[tileOf beg]? = some t :=
    ⟨_, (List.getElem?_eq_some_iff).2 ⟨by rw [hslen]; omega, rfl⟩⟩
  have htle : t ≤ r.chunk.b :=
    sorted_tiles_le ref.intervals (tileOf beg) r.chunk.b (by omega)
      (fun j v hj hv => cov.tilesLe r hr j v (by omega) hv) t ht
  have hhit : tileHit (sortRef ref).intervals (tileOf beg) beg stop c.e = true :=
    tileHit_first _ beg stop c.e t hb (by omega) ht (by omega)
  refine ⟨c, ?_, hc1, hc2⟩
  unfold candidates
  rw [List.mem_flatMap]
  refine ⟨r.bin, hbin, ?_⟩
  rw [← hbb, hfind]
  simp only
  rw [List.mem_filter]
  exact ⟨mem_sortChunks.2 hc, hhit⟩

/-! ### the whole index -/

/-- what completeness needs to know about the index -/
structure IdxCover (i : Index) (hist : List Rec) : Prop where
  flag : i.isSorted = false
  ridLt : ∀ a, a ∈ hist → 0 ≤ a.rid ∧ a.rid < (i.refs.length : Int)
  refCover : ∀ j ref, i.refs[j]? = some ref → RefCover ref (onRef hist j)

theorem IdxInv.cover {i : Index} {hist : List Rec} (inv : IdxInv i hist) : IdxCover i hist :=
  { flag := inv.flag
    ridLt := inv.ridLt
    refCover := fun j ref h => (inv.refInv j ref h).cover }

/-- `Chunks` on an index that covers its records: the answer is not an error and contains a chunk
that encloses the chunk of every record overlapping the query -/
theorem chunks_complete_cover (i : Index) (hist : List Rec) (cov : IdxCover i hist) (r : Rec) (hr : r ∈ hist)
    (hce : r.chunk.b < r.chunk.e) (hpos : 0 ≤ r.start ∧ r.start < r.stop)
    (beg stop : Int) (bins : List Nat) (hb : 0 ≤ beg) (hq : beg < stop) (hov : beg < r.stop)
    (hbin : r.bin ∈ bins) :
    ∃ cs, chunks i r.rid beg stop bins = .ok cs ∧ SortedB cs ∧ coveredBy cs r.chunk := by
  obtain ⟨h0, hlt⟩ := cov.ridLt r hr
  have hlt' : r.rid.toNat < i.refs.length := by omega
  obtain ⟨ref, href⟩ : ∃ ref, i.refs[r.rid.toNat]? = some ref :=
    ⟨_, (List.getElem?_eq_some_iff).2 ⟨hlt', rfl⟩⟩
  have hcov := cov.refCover _ _ href
  have hmem : r ∈ onRef hist r.rid.toNat := by
    unfold onRef; rw [List.mem_filter]; exact ⟨hr, by simp; omega⟩
  obtain ⟨hlen, c, hc, henc⟩ := candidates_complete ref _ hcov r hmem hce hpos beg stop bins hb hq hov hbin
  have hsort : (sort i).refs[r.rid.toNat]? = some (sortRef ref) := by
    unfold sort
    simp only [cov.flag, Bool.false_eq_true, if_false, List.getElem?_map, href, Option.map_some]
  have htd : beg.tdiv (tileWidth : Nat) = ((tileOf beg : Nat) : Int) := by
    unfold tileOf
    rw [Int.toNat_of_nonneg]
    rw [Int.tdiv_eq_ediv_of_nonneg hb]; unfold tileWidth; omega
  refine ⟨sortChunks (candidates (sortRef ref) (tileOf beg) beg stop bins), ?_, sortChunks_sorted _,
    c, mem_sortChunks.2 hc, henc⟩
  unfold chunks
  have hn : ¬ (r.rid < 0 ∨ r.rid ≥ (i.refs.length : Int)) := by omega
  simp only [hn, if_false, hsort, htd]
  have h1 : ¬ ((tileOf beg : Nat) : Int) ≥ ((sortRef ref).intervals.length : Int) := by omega
  have h2 : ¬ ((tileOf beg : Nat) : Int) < 0 := by omega
  simp only [h1, h2, if_false, Int.toNat_natCast]

end Hts.Model.Index
