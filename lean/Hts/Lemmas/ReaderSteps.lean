/-
`Seek`, `ReadByte`, `NewReader` and whole histories: the reader model refines the flat specification.
-/
import Hts.Lemmas.ReaderSim
namespace Hts.Model.Bgzf
open Hts.Spec.Flat

/-- In a well-formed file the compressed offset determines the split. -/
theorem split_unique {pre pre' post post' : File} {m m' : Member}
    (hwf : WF (pre ++ m :: post)) (he : pre ++ m :: post = pre' ++ m' :: post')
    (hc : csum pre = csum pre') : pre = pre' ∧ m = m' ∧ post = post' := by
  induction pre generalizing pre' with
  | nil =>
    cases pre' with
    | nil => simpa using he
    | cons a pre' =>
      simp only [List.nil_append, List.cons_append, List.cons.injEq] at he
      have := (hwf m (by simp)).1
      simp only [csum] at hc
      rw [he.1] at this; omega
  | cons a pre ih =>
    cases pre' with
    | nil =>
      simp only [List.nil_append, List.cons_append, List.cons.injEq] at he
      have := (hwf a (by simp)).1
      simp only [csum] at hc; omega
    | cons a' pre' =>
      simp only [List.cons_append, List.cons.injEq] at he
      have hw : WF (pre ++ m :: post) := (WF.cons hwf).2.2
      simp only [csum, he.1] at hc
      have := ih hw he.2 (by omega)
      exact ⟨by rw [he.1, this.1], this.2⟩

theorem csum_lt_of_split (pre post : File) (m : Member) (hwf : WF (pre ++ m :: post)) :
    csum pre < csum (pre ++ m :: post) := by
  have := (hwf m (by simp)).1
  simp [csum]; omega

theorem sim_seek {F : File} (hwf : WF F) {r : Reader} {s : State} (h : Sim F r s) (o : Offset) (p : Nat)
    (hs : seekTarget (layoutOf F) o = some p) :
    (r.seek o).2 = none ∧ Sim F (r.seek o).1 { s with pos := p, last := ⟨o, o⟩ } := by
  obtain ⟨pre', m', post', hF, ho, hb, hp⟩ := seekTarget_some F o p hwf hs
  have hlen : m'.data.length < 65536 := (WF.mid (hF ▸ hwf)).2
  have hmod : o.block % 65536 = o.block := Nat.mod_eq_of_lt (by omega)
  have hwpre : WF pre' := (hF ▸ hwf : WF (pre' ++ m' :: post')).append_left
  have hmem : memberAt F o.file = .ok m' := by
    rw [ho, hF]; simp only []
    rw [memberAt_split pre' (m' :: post') hwpre, memberAt_zero_cons]
  obtain ⟨hfile, hblk, hlast, hpos⟩ := h
  have hofile : o.file = csum pre' := by rw [ho]
  by_cases hne : o.file ≠ r.cur.base
  · -- another block: load it
    have hseek : r.seek o = (({ r with cur := ⟨o.file, m'.csize, m'.data, o.block, ⟨o.file, o.block⟩⟩, err := none, lastChunk := ⟨o, o⟩ } : Reader), none) := by
      simp [Reader.seek, hne, Block.load, hfile, hmem, Block.seek, hmod]
    rw [hseek]
    refine ⟨rfl, hfile, hblk, rfl, Or.inl ⟨pre', m', post', o.block, ⟨hfile, hF, by simp [hofile], hb, rfl⟩, hp⟩⟩
  · -- the current block
    have heq : o.file = r.cur.base := by omega
    rcases hpos with ⟨pre, m, post, k, hat, _⟩ | ⟨heof, _⟩
    · have hd : r.cur.hasData = true := by
        have := (WF.mid (hat.split ▸ hwf)).1
        rw [hat.cur]; simp [Block.hasData]; omega
      have hseek : r.seek o = (({ r with cur := r.cur.seek o.block, err := none, lastChunk := ⟨o, o⟩ } : Reader), none) := by
        simp [Reader.seek, heq, hd]
      rw [hseek]
      have hcs : csum pre = csum pre' := by
        have := hat.cur; rw [this] at heq; simp at heq; omega
      have hu := split_unique (hat.split ▸ hwf) (hat.split.symm.trans hF) hcs
      obtain ⟨rfl, rfl, rfl⟩ := hu
      refine ⟨rfl, hfile, hblk, rfl, Or.inl ⟨pre, m, post, o.block, ⟨hfile, hF, ?_, hb, rfl⟩, hp⟩⟩
      simp [Block.seek, hat.cur, hmod]
    · exfalso
      have := heof.base
      have hlt := csum_lt_of_split pre' post' m' (hF ▸ hwf)
      rw [← hF] at hlt; omega

theorem Block.readByte_mk_lt (base hsize : Nat) (data : List UInt8) (k tf tb : Nat) (h : k < data.length) :
    (Block.mk base hsize data k ⟨tf, tb⟩).readByte =
      (data[k], false, ⟨base, hsize, data, k + 1, ⟨tf, (tb + 1) % 65536⟩⟩) := by
  unfold Block.readByte
  simp only []
  rw [List.drop_eq_getElem_cons h]

theorem readByte_eq_read {F : File} (hwf : WF F) {r : Reader}
    (hs : (∃ pre m post k, At F r pre m post k) ∨ AtEOF F r) :
    r.readByte = ((r.read 1).1, (r.read 1).2.1.headD 0, (r.read 1).2.2) := by
  rcases hs with ⟨pre, m, post, k, hat⟩ | heof
  · have ⟨hfr, hcan⟩ := skip_canon hwf hat
    rcases hcan with ⟨pre1, m1, post1, k1, hat1, hk1, _, _⟩ | ⟨heof1, _, _⟩
    · have hlen : m1.data.length < 65536 := (WF.mid (hat1.split ▸ hwf)).2
      rw [read_skip_ok r 1 hat.err hat1.err]
      generalize hr1 : r.skipEmpty r.skipFuel = r1 at *
      obtain ⟨rf, rc, rl, re, rb⟩ := r1
      obtain ⟨hf, hs, hc, hle, he⟩ := hat1
      simp only at hf hc he
      subst hc he
      have hd : m1.data.drop k1 = m1.data[k1] :: m1.data.drop (k1 + 1) := List.drop_eq_getElem_cons hk1
      have hmod : (k1 + 1) % 65536 = k1 + 1 := Nat.mod_eq_of_lt (by omega)
      have hL : r.readByte = (⟨rf, ⟨csum pre1, m1.csize, m1.data, k1 + 1, ⟨csum pre1, k1 + 1⟩⟩,
          ⟨⟨csum pre1, k1⟩, ⟨csum pre1, k1 + 1⟩⟩, none, rb⟩, m1.data[k1], none) := by
        simp only [Reader.readByte, hat.err, hr1, Block.readByte_mk_lt _ _ _ _ _ _ hk1, Reader.setEnd, hmod]
      have h2 : At F (⟨rf, ⟨csum pre1, m1.csize, m1.data, k1, ⟨csum pre1, k1⟩⟩, ⟨⟨csum pre1, k1⟩, rl.fin⟩, none, rb⟩ : Reader)
          pre1 m1 post1 k1 := ⟨hf, hs, rfl, hle, rfl⟩
      rw [hL]
      simp only []
      rw [show 2 * rf.length + 3 = (2 * rf.length + 1) + 2 by omega, readLoop_within hwf h2 1 _ (by omega) (by omega)]
      simp only [Reader.adv, Reader.setEnd, hd, List.take_succ_cons, List.take_zero, List.headD_cons]
    · have he1 : (r.skipEmpty r.skipFuel).err = some .eof := heof1.err
      rw [read_skip_err r 1 .eof hat.err he1]
      simp [Reader.readByte, hat.err, he1]
  · rw [read_err r 1 .eof heof.err]
    simp [Reader.readByte, heof.err]

theorem sim_readByte {F : File} (hwf : WF F) {r : Reader} {s : State} (h : Sim F r s) :
    r.readByte.2.1 = (Hts.Spec.Flat.readByte (flatOf F) s).1 ∧
    r.readByte.2.2 = errOf (Hts.Spec.Flat.readByte (flatOf F) s).2.1 ∧
    Sim F r.readByte.1 (Hts.Spec.Flat.readByte (flatOf F) s).2.2 := by
  have hs : (∃ pre m post k, At F r pre m post k) ∨ AtEOF F r := by
    rcases h.pos with ⟨pre, m, post, k, hat, _⟩ | ⟨heof, _⟩
    · exact Or.inl ⟨pre, m, post, k, hat⟩
    · exact Or.inr heof
  rw [readByte_eq_read hwf hs]
  have ⟨h1, h2, h3⟩ := sim_read hwf h 1
  simp only [Hts.Spec.Flat.readByte]
  exact ⟨by rw [h1], h2, h3⟩

theorem sim_setBlocked {F : File} {r : Reader} {s : State} (h : Sim F r s) (b : Bool) :
    Sim F (r.setBlocked b) (setBlocked s b) := by
  obtain ⟨hfile, hblk, hlast, hpos⟩ := h
  refine ⟨hfile, rfl, hlast, ?_⟩
  rcases hpos with ⟨pre, m, post, k, hat, hp⟩ | ⟨heof, hp⟩
  · exact Or.inl ⟨pre, m, post, k, ⟨hat.file, hat.split, hat.cur, hat.le, hat.err⟩, hp⟩
  · exact Or.inr ⟨⟨heof.file, heof.err, heof.base, heof.tx⟩, hp⟩

theorem sim_new {F : File} {r0 : Reader} (h : Reader.new F = .ok r0) : Sim F r0 init := by
  cases F with
  | nil => simp [Reader.new, memberAt] at h
  | cons m post =>
    simp only [Reader.new, memberAt_zero_cons, Except.ok.injEq] at h
    subst h
    exact ⟨rfl, rfl, rfl, Or.inl ⟨[], m, post, 0, ⟨rfl, rfl, rfl, Nat.zero_le _, rfl⟩, rfl⟩⟩

/-- A seek is valid when it goes to a block start plus an offset up to the block's length. -/
def OpValid (L : Layout) : Op → Prop
  | .seek o => (seekTarget L o).isSome
  | _ => True

theorem sim_step {F : File} (hwf : WF F) {r : Reader} {s : State} (h : Sim F r s) (op : Op)
    (hv : OpValid (layoutOf F) op) :
    (r.step op).2.bytes = (step (flatOf F) s op).2.bytes ∧
    (r.step op).2.err = errOf (step (flatOf F) s op).2.eof ∧
    (r.step op).1.lastChunk = (step (flatOf F) s op).2.last ∧
    Sim F (r.step op).1 (step (flatOf F) s op).1 := by
  cases op with
  | read n =>
    have ⟨h1, h2, h3⟩ := sim_read hwf h n
    exact ⟨h1, h2, h3.last, h3⟩
  | readByte =>
    have ⟨h1, h2, h3⟩ := sim_readByte hwf h
    exact ⟨by simp only [Reader.step, step]; rw [h1], h2, h3.last, h3⟩
  | seek o =>
    simp only [OpValid, Option.isSome_iff_exists] at hv
    obtain ⟨p, hp⟩ := hv
    have ⟨h1, h2⟩ := sim_seek hwf h o p hp
    have hsk : Hts.Spec.Flat.seek (flatOf F) s o = some { s with pos := p, last := ⟨o, o⟩ } := by
      simp [Hts.Spec.Flat.seek, flatOf, hp]
    have hst : step (flatOf F) s (.seek o) = ({ s with pos := p, last := ⟨o, o⟩ }, ⟨[], false, ⟨o, o⟩⟩) := by
      simp [step, hsk]
    rw [hst]
    exact ⟨rfl, by simpa [errOf, Reader.step] using h1, h2.last, h2⟩
  | setBlocked b =>
    have := sim_setBlocked h b
    exact ⟨rfl, rfl, h.last, this⟩

/-- What is observed of an operation of the model: bytes, error, `LastChunk()`. -/
def Reader.observe (p : Out × Reader) : List UInt8 × Option Err × Chunk := (p.1.bytes, p.1.err, p.2.lastChunk)

def observeFlat (o : Obs) : List UInt8 × Option Err × Chunk := (o.bytes, errOf o.eof, o.last)

theorem validOps_cons {L : Layout} {op : Op} {ops : List Op} (h : ValidOps L (op :: ops)) :
    OpValid L op ∧ ValidOps L ops := by
  cases op <;> simp_all [ValidOps, OpValid]

theorem run_refines {F : File} (hwf : WF F) (ops : List Op) :
    ∀ (r : Reader) (s : State), Sim F r s → ValidOps (layoutOf F) ops →
      (r.run ops).map Reader.observe = (run (flatOf F) s ops).map observeFlat := by
  induction ops with
  | nil => intro r s _ _; rfl
  | cons op ops ih =>
    intro r s h hv
    have ⟨hv1, hv2⟩ := validOps_cons hv
    have ⟨h1, h2, h3, h4⟩ := sim_step hwf h op hv1
    simp only [Reader.run, run, List.map_cons, List.cons.injEq]
    refine ⟨?_, ih _ _ h4 hv2⟩
    simp only [Reader.observe, observeFlat, h1, h2, h3]

/-- The state the model is in after a history is still a representation of the flat state. -/
def Reader.after (r : Reader) : List Op → Reader
  | [] => r
  | op :: ops => Reader.after (r.step op).1 ops

def stateAfter (F : FlatFile) (s : State) : List Op → State
  | [] => s
  | op :: ops => stateAfter F (step F s op).1 ops

theorem sim_after {F : File} (hwf : WF F) (ops : List Op) :
    ∀ (r : Reader) (s : State), Sim F r s → ValidOps (layoutOf F) ops →
      Sim F (r.after ops) (stateAfter (flatOf F) s ops) := by
  induction ops with
  | nil => intro r s h _; exact h
  | cons op ops ih =>
    intro r s h hv
    have ⟨hv1, hv2⟩ := validOps_cons hv
    exact ih _ _ (sim_step hwf h op hv1).2.2.2 hv2

end Hts.Model.Bgzf
