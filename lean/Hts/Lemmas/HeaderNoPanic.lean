/-
C07 helper lemmas, part 18: on a consistent world no operation panics (after C11's repairs of the line parsers).
-/
import Hts.Lemmas.HeaderApi
namespace Hts.Model.Header

theorem hexDecode16_no_overflow : ∀ (m : Nat) (v : Bytes) (n : Nat) (acc : Bytes), v.length ≤ m → v.length + 2 * n ≤ 32 →
    hexDecode16 v n acc ≠ .overflow := by
  intro m
  induction m using Nat.strongRecOn with
  | _ m ih =>
    intro v n acc hm hl
    match v with
    | [] => simp [hexDecode16]
    | [_] => simp [hexDecode16]
    | a :: b :: rest =>
      simp only [hexDecode16]
      split
      · simp only [List.length_cons] at hl hm
        have : ¬ n ≥ 16 := by omega
        simp only [this, if_false]
        exact ih (m - 2) (by omega) rest (n + 1) _ (by omega) (by omega)
      · simp

theorem refAssign_no_panic (E : Ext) (p : Nat) (a : RefV) (t : Tag) (v : Bytes) : refAssign E p a t v ≠ .panic := by
  unfold refAssign
  repeat' split
  all_goals first
    | (intro h; cases h; done)
    | (next h => exact absurd h (hexDecode16_no_overflow v.length v 0 [] (Nat.le_refl _) (by omega)))

theorem rgAssign_no_panic (E : Ext) (known : Bytes → Bool) (a : RgV) (t : Tag) (v : Bytes) :
    rgAssign E known a t v ≠ .panic := by
  unfold rgAssign
  repeat' split
  all_goals (intro h; cases h)

theorem pgAssign_no_panic (known : Bytes → Bool) (a : PgV) (t : Tag) (v : Bytes) : pgAssign known a t v ≠ .panic := by
  unfold pgAssign
  repeat' split
  all_goals (intro h; cases h)

theorem fieldLoop_no_panic {β : Type} (assign : β → Tag → Bytes → PR β) (ha : ∀ b t v, assign b t v ≠ .panic) :
    ∀ (xs : List Bytes) (a : FAcc β), fieldLoop assign a xs ≠ .panic := by
  intro xs
  induction xs with
  | nil => intro a h; simp [fieldLoop] at h
  | cons x xs ih =>
    intro a
    rw [fieldLoop]
    split
    · intro h; cases h
    · split
      · intro h; cases h
      · split
        · exact ih _
        · intro h; cases h
        · next hp => exact absurd hp (ha _ _ _)

theorem hdFields_no_panic : ∀ (xs : List Bytes) (f : HdrF), (hdFields f xs).2 ≠ .panic := by
  intro xs
  induction xs with
  | nil => intro f; simp [hdFields]
  | cons x xs ih =>
    intro f
    rw [hdFields]
    split
    · simp
    · repeat' split
      all_goals first
        | exact ih _
        | simp

theorem headerLine_no_panic (f : HdrF) (l : Bytes) : (headerLine f l).2 ≠ .panic := by
  unfold headerLine
  split
  · next x xs _ =>
    have := hdFields_no_panic (x :: xs) f
    generalize hdFields f (x :: xs) = r at this
    obtain ⟨f', r'⟩ := r
    cases r' <;> simp_all
    split <;> simp
  · simp

theorem referenceLine_no_panic (E : Ext) {k : KW RefD} (hk : KInv k) (p h : Nat) (l : Bytes) :
    (referenceLine E k p h l).2 ≠ .panic := by
  unfold referenceLine
  split
  case h_2 => simp
  have hfl := fieldLoop_no_panic (refAssign E p) (refAssign_no_panic E p)
  split
  · next hp => exact absurd hp (hfl _ _)
  · simp
  dsimp only
  split
  · simp
  next t ht =>
  have T := hk.tab h t ht
  split
  · simp
  split
  · next dupID hl =>
    obtain ⟨eo, he⟩ := T.lookup_idx hl
    obtain ⟨i, er, _, _, her, _⟩ := T.lookup_item hl he
    simp only [he, her]
    split
    · simp
    · split <;> simp
  · simp

theorem readGroupLine_no_panic (E : Ext) (k : KW RgD) (h : Nat) (l : Bytes) : (readGroupLine E k h l).2 ≠ .panic := by
  unfold readGroupLine
  split
  · next t _ _ =>
    split
    · next hp => exact absurd hp (fieldLoop_no_panic _ (rgAssign_no_panic E _) _ _)
    · simp
    · dsimp only; split <;> simp
  · simp
  · simp

theorem programLine_no_panic (k : KW PgD) (h : Nat) (l : Bytes) : (programLine k h l).2 ≠ .panic := by
  unfold programLine
  split
  · next t _ _ =>
    split
    · next hp => exact absurd hp (fieldLoop_no_panic _ (pgAssign_no_panic _) _ _)
    · simp
    · dsimp only; split <;> simp
  · simp
  · simp

theorem commentLine_no_panic (f : HdrF) (l : Bytes) : (commentLine f l).2 ≠ .panic := by
  unfold commentLine; split <;> simp

theorem parseLine_no_panic (E : Ext) {w : World} (hw : WInv w) (h : Nat) (l : Bytes) : (parseLine E w h l).2 ≠ .panic := by
  unfold parseLine
  split
  · split
    · exact headerLine_no_panic _ _
    · split
      · exact referenceLine_no_panic E hw.refs _ _ _
      · split
        · exact readGroupLine_no_panic E _ _ _
        · split
          · exact programLine_no_panic _ _ _
          · split
            · exact commentLine_no_panic _ _
            · simp
  · simp
  · simp

theorem parseLines_no_panic (E : Ext) (h : Nat) : ∀ (ls : List Bytes) (w : World), WInv w →
    (parseLines E w h ls).2 ≠ .panic := by
  intro ls
  induction ls with
  | nil => intro w _; simp [parseLines]
  | cons l ls ih =>
    intro w hw
    rw [parseLines]
    split
    · exact ih w hw
    · have h1 := winv_parseLine E hw h (dropCR l)
      have h2 := parseLine_no_panic E hw h (dropCR l)
      generalize parseLine E w h (dropCR l) = r at h1 h2
      obtain ⟨w', r'⟩ := r
      cases r'
      case ok => exact ih w' h1
      all_goals simp_all

theorem unmarshalText_no_panic (E : Ext) {w : World} (hw : WInv w) (h : Nat) (text : Bytes) :
    (unmarshalText E w h text).2 ≠ .panic := parseLines_no_panic E h _ w hw

theorem addBinRefs_no_panic (h : Nat) : ∀ (rs : List (Bytes × Int)) (k : KW RefD) (i : Nat), KInv k →
    (addBinRefs k h i rs).2 ≠ .panic := by
  intro rs
  induction rs with
  | nil => intro k i _; simp [addBinRefs]
  | cons r rs ih =>
    intro k i hk
    obtain ⟨nm, l⟩ := r
    rw [addBinRefs]
    dsimp only
    have hk1 := kinv_alloc hk { owner := none, id := (i : Int), name := nm, dat := { len := l } } rfl
    have h1 := kinv_addReference hk1 h (k.alloc { owner := none, id := (i : Int), name := nm, dat := { len := l } }).2
    have h2 := addReference_no_panic hk1 h (k.alloc { owner := none, id := (i : Int), name := nm, dat := { len := l } }).2
    generalize addReference _ h _ = res at h1 h2
    obtain ⟨k2, r⟩ := res
    cases r
    case ok => exact ih k2 (i + 1) h1
    all_goals simp_all

theorem decodeBinary_no_panic (E : Ext) {w : World} (hw : WInv w) (h : Nat) (b : Bytes) :
    (decodeBinary E w h b).2 ≠ .panic := by
  unfold decodeBinary
  split
  case h_2 => simp
  split
  · simp
  split
  · simp
  split
  · simp
  rename_i text b' _
  have h1 := winv_unmarshalText E hw h text
  have h2 := unmarshalText_no_panic E hw h text
  generalize unmarshalText E w h text = res at h1 h2
  obtain ⟨w1, r⟩ := res
  cases r
  case ok =>
    dsimp only
    split
    · simp
    split
    · simp
    split
    · simp
    next rs _ => exact addBinRefs_no_panic h rs w1.refs 0 h1.refs
  all_goals simp_all

theorem newHeader_no_panic (E : Ext) {w : World} (hw : WInv w) (text : Bytes) (refs : List Nat) :
    (newHeader E w text refs).2 ≠ .panic := by
  unfold newHeader
  dsimp only
  have hp := winv_pushHeader hw {}
  split
  · simp
  · next hus =>
    have ht : (pushHeader w {}).refs.tabs[w.hdrs.length]? = some ⟨[], []⟩ := by
      simp [pushHeader, KW.newTab, ← hw.lr]
    obtain ⟨a, b⟩ := kinv_addMany w.hdrs.length refs (pushHeader w {}).refs [] _ hp.refs ht
      (by intro n hn; simp [lookup] at hn) (by simpa using hus)
    have h1 : WInv { pushHeader w {} with refs := refs.foldl (fun k o => k.addNewU w.hdrs.length o) (pushHeader w {}).refs } :=
      ⟨a, hp.rgs, hp.pgs, by simp only; rw [b]; exact hp.lr, hp.lg, hp.lp⟩
    have h2 := unmarshalText_no_panic E h1 w.hdrs.length text
    generalize unmarshalText E _ w.hdrs.length text = res at h2
    obtain ⟨w', r⟩ := res
    cases r <;> simp_all

theorem mergeAdd_no_panic (hn : Nat) : ∀ (xs : List (Obj RefD)) (k : KW RefD) (p : Nat), KInv k →
    (mergeAdd k p hn xs).2.2 ≠ .panic := by
  intro xs
  induction xs with
  | nil => intro k p _; simp [mergeAdd]
  | cons x xs ih =>
    intro k p hk
    rw [mergeAdd]
    dsimp only
    have hk1 := kinv_alloc hk { x with owner := none, id := -1, dat := freshUri p x.dat } rfl
    have h1 := kinv_addReference hk1 hn (k.alloc { x with owner := none, id := -1, dat := freshUri p x.dat }).2
    have h2 := addReference_no_panic hk1 hn (k.alloc { x with owner := none, id := -1, dat := freshUri p x.dat }).2
    generalize addReference _ hn _ = res at h1 h2
    obtain ⟨k2, r⟩ := res
    cases r
    case ok => exact ih k2 (p + 1) h1
    all_goals simp_all

theorem mergeSources_no_panic (hn : Nat) : ∀ (ss : List Nat) (k : KW RefD) (p : Nat), KInv k →
    (mergeSources k p hn ss).2.2 ≠ .panic := by
  intro ss
  induction ss with
  | nil => intro k p _; simp [mergeSources]
  | cons s ss ih =>
    intro k p hk
    rw [mergeSources]
    have h1 := (kinv_mergeAdd hn (objsOf k s) k p hk).1
    have h2 := mergeAdd_no_panic hn (objsOf k s) k p hk
    generalize mergeAdd k p hn (objsOf k s) = res at h1 h2
    obtain ⟨k1, p1, r⟩ := res
    cases r
    case ok => exact ih k1 p1 h1
    all_goals simp_all

theorem mergeHeaders_no_panic {w : World} (hw : WInv w) {srcs : List Nat} (hs : ∀ s ∈ srcs, s < w.hdrs.length) :
    (mergeHeaders w srcs).2.1 ≠ .panic := by
  unfold mergeHeaders
  split
  case h_2 => simp
  next s0 s1 ss =>
  dsimp only
  have hs0 : s0 < w.hdrs.length := hs s0 List.mem_cons_self
  obtain ⟨e1, e2⟩ := mergeInit_refs hs0
  rw [e1, e2]
  have hlr := hw.lr
  obtain ⟨t, ht⟩ : ∃ t, w.refs.tabs[s0]? = some t := ⟨w.refs.tabs[s0], by simp [hlr, hs0]⟩
  have hk0 := kinv_cloneTab hw.refs s0
  obtain ⟨c1, c2, c3⟩ := cloneTab_spec hw.refs ht
  rw [hlr] at c3
  have hnp := mergeSources_no_panic w.hdrs.length (s1 :: ss) (w.refs.cloneTab s0) w.nextUri hk0
  generalize hres : mergeSources (w.refs.cloneTab s0) w.nextUri w.hdrs.length (s1 :: ss) = res at hnp
  obtain ⟨k, p, r⟩ := res
  cases r
  case ok =>
    dsimp only
    have hne : ∀ s ∈ s0 :: s1 :: ss, s ≠ w.hdrs.length := fun s hs' e => by have := hs s hs'; omega
    obtain ⟨a, b, c⟩ := mergeSources_spec w.hdrs.length (s1 :: ss) _ _ _ _ hk0 (by simp [hlr])
      (fun s hs' => hne s (List.mem_cons_of_mem _ hs')) hres
    have hobj : ∀ s ∈ s0 :: s1 :: ss, objsOf k s = objsOf w.refs s := by
      intro s hs'
      rw [objsOf_frame hk0 b (hne s hs'), objsOf_cloneTab hw.refs ht (by rw [hlr]; exact hs s hs')]
    have hhas : ∀ s ∈ s0 :: s1 :: ss, ∀ x ∈ objsOf k s, Has k w.hdrs.length x.name x.dat.len := by
      intro s hs' x hx
      rcases List.mem_cons.1 hs' with rfl | hs''
      · rw [hobj s hs'] at hx
        exact b.keep _ _ (c3 x hx)
      · exact c s hs'' x hx
    obtain ⟨ls, hls⟩ := mergeLinks_some a (s0 :: s1 :: ss) hhas
    rw [hls]
    simp
  all_goals simp_all

theorem live_lt {w : World} {h : Nat} (hl : live w h = true) : h < w.hdrs.length := by
  unfold live at hl
  cases hh : w.hdrs[h]? with
  | none => simp [hh] at hl
  | some f => exact get_lt hh

end Hts.Model.Header
