/-
The faulty sequential reader: the copy loop of Read.
-/
import Hts.Lemmas.FaultSkip
namespace Hts.Model.Bgzf
open Hts.Spec.Flat

/-- What a read delivers under faults: a prefix of the flat bytes at the position; either the reader still
stands inside the file behind those bytes, or the error returned is latched on a failed block. -/
structure ReadRes (F : File) (x x' : FReader) (pos want : Nat) (bytes : List UInt8) (e : Option Err) : Prop where
  bytes_ok : bytes = ((flatBytes F).drop pos).take bytes.length
  le : bytes.length ≤ want
  file : x'.r.file = F
  blocked : x'.r.blocked = x.r.blocked
  noeof : NoEof x.oracle → NoEof x'.oracle
  alive : x'.r.err = none →
    (∃ pre' m' post' k', At F x'.r pre' m' post' k' ∧ flatLen pre' + k' = pos + bytes.length) ∧
    (e = none ∨ (e = some .eof ∧ x.r.blocked = true))
  latched : ∀ e', x'.r.err = some e' → e = some e' ∧ x'.r.cur.hasData = false ∧ (e' = .eof ∨ e' = .other)
  eofEnd : e = some .eof → x.r.blocked = false → NoEof x.oracle → pos + bytes.length = flatLen F

theorem take_drop_flat {F pre post : File} {m : Member} (hF : F = pre ++ m :: post) (k a : Nat)
    (ha : k + a ≤ m.data.length) :
    (m.data.drop k).take a = ((flatBytes F).drop (flatLen pre + k)).take a := by
  rw [hF, flatBytes_drop_split pre post m k (by omega), List.take_append]
  have : a - (m.data.drop k).length = 0 := by simp; omega
  rw [this, List.take_zero, List.append_nil]

theorem ReadRes.prepend {F : File} {x x1 x' : FReader} {pos want : Nat} {out rest : List UInt8}
    {e : Option Err} (h : ReadRes F x1 x' (pos + out.length) (want - out.length) rest e)
    (hout : out = ((flatBytes F).drop pos).take out.length) (hle : out.length ≤ want)
    (hb : x1.r.blocked = x.r.blocked) (ho : x1.oracle = x.oracle) :
    ReadRes F x x' pos want (out ++ rest) e := by
  refine ⟨?_, by simp; have := h.le; omega, h.file, h.blocked.trans hb, by rw [← ho]; exact h.noeof, ?_, h.latched, ?_⟩
  · rw [List.length_append, List.take_add, ← hout]
    congr 1
    rw [List.drop_drop]; exact h.bytes_ok
  · intro he
    have ⟨h1, h2⟩ := h.alive he
    refine ⟨?_, by rw [← hb]; exact h2⟩
    obtain ⟨pre', m', post', k', hat, hp⟩ := h1
    exact ⟨pre', m', post', k', hat, by simp; omega⟩
  · intro he hbl hn
    have := h.eofEnd he (by rw [hb]; exact hbl) (by rw [ho]; exact hn)
    simp; omega

theorem freadLoop_spec {F : File} (hwf : WF F) :
    ∀ (fuel : Nat) (x : FReader) (pre : File) (m : Member) (post : File) (k want : Nat),
      At F x.r pre m post k → 1 ≤ fuel →
      (0 < want → 2 * post.length + (if k < m.data.length then 2 else 1) ≤ fuel) →
      ReadRes F x (x.readLoop fuel want).1 (flatLen pre + k) want (x.readLoop fuel want).2.1
        (x.readLoop fuel want).2.2 := by
  intro fuel
  induction fuel with
  | zero => intro x pre m post k want _ h1 _; omega
  | succ fuel ih =>
    intro x pre m post k want h _ hfuel
    have hm : m.data.length < 65536 := (WF.mid (h.split ▸ hwf)).2
    by_cases hw : 0 < want
    · have hfuel := hfuel hw
      obtain ⟨xr, xo⟩ := x
      obtain ⟨rf, rc, rl, re, rb⟩ := xr
      obtain ⟨hf, hs, hc, hle, he⟩ := h
      simp only at hf hc he
      subst hf hc he
      by_cases hk : k < m.data.length
      · -- inside the member
        simp only [hk, if_true] at hfuel
        have hmod : (k + min want (m.data.length - k)) % 65536 = k + min want (m.data.length - k) :=
          Nat.mod_eq_of_lt (by omega)
        have hl : ((m.data.drop k).take want).length = min want (m.data.length - k) := by simp
        simp only [FReader.readLoop, hw, and_self, if_true, Block.read_mk_lt _ _ _ _ _ _ _ hk, hl, hmod,
          FReader.withR]
        generalize ha : min want (m.data.length - k) = a
        have h1 : At rf (⟨rf, ⟨csum pre, m.csize, m.data, k + a, ⟨csum pre, k + a⟩⟩, rl, none, rb⟩ : Reader)
            pre m post (k + a) := ⟨rfl, hs, rfl, by omega, rfl⟩
        have := ih ⟨⟨rf, ⟨csum pre, m.csize, m.data, k + a, ⟨csum pre, k + a⟩⟩, rl, none, rb⟩, xo⟩
          pre m post (k + a) (want - a) h1 (by omega) (by
            intro hw'
            have : ¬ (k + a < m.data.length) := by omega
            simp only [this, if_false]; omega)
        have hpre := ReadRes.prepend (x := ⟨⟨rf, ⟨csum pre, m.csize, m.data, k, ⟨csum pre, k⟩⟩, rl, none, rb⟩, xo⟩)
          (x1 := ⟨⟨rf, ⟨csum pre, m.csize, m.data, k + a, ⟨csum pre, k + a⟩⟩, rl, none, rb⟩, xo⟩)
          (pos := flatLen pre + k) (want := want) (out := (m.data.drop k).take want)
          (by rw [hl, ha, show flatLen pre + k + a = flatLen pre + (k + a) by omega]; exact this)
          (by rw [hl, ha, ← take_drop_flat hs k a (by omega)]
              rw [List.take_eq_take_iff]; simp; omega)
          (by rw [hl]; omega) rfl rfl
        exact hpre
      · -- at the end of the member
        have hkl : k = m.data.length := by omega
        subst hkl
        have hirr : ¬ (m.data.length < m.data.length) := Nat.lt_irrefl _
        simp only [hirr, if_false] at hfuel
        have hw0 : ¬ (want = 0) := by omega
        cases rb with
        | true =>
          simp only [FReader.readLoop, hw, and_self, if_true, Block.read_mk_ge _ _ _ _ _ _ (Nat.le_refl _),
            List.length_nil, Nat.sub_zero, hw0, if_false, FReader.withR]
          refine ⟨by simp, by simp, rfl, rfl, id, fun _ => ⟨⟨pre, m, post, m.data.length,
            ⟨rfl, hs, rfl, Nat.le_refl _, rfl⟩, by simp⟩, Or.inr ⟨rfl, rfl⟩⟩, ?_, ?_⟩
          · intro e' he'; simp [Reader.setEnd] at he'
          · intro _ hb; cases hb
        | false =>
          have ⟨hor, hnb⟩ := fnextBlock_at (x := ⟨⟨rf, ⟨csum pre, m.csize, m.data, m.data.length,
            ⟨csum pre, m.data.length⟩⟩, rl, some .eof, false⟩, xo⟩) hwf rfl hs rfl
          simp only [FReader.readLoop, hw, and_self, if_true, Block.read_mk_ge _ _ _ _ _ _ (Nat.le_refl _),
            List.length_nil, Nat.sub_zero, hw0, if_false, FReader.withR, Bool.false_eq_true]
          rcases hnb with ⟨m', post', hp, he, hc⟩ | ⟨e, he, hc, hee, heof⟩
          · rcases hx : FReader.nextBlock ⟨⟨rf, ⟨csum pre, m.csize, m.data, m.data.length,
              ⟨csum pre, m.data.length⟩⟩, rl, some .eof, false⟩, xo⟩ with ⟨x', e'⟩
            rw [hx] at hor he hc
            simp only at hor he hc
            subst he
            simp only
            obtain ⟨xr', xo'⟩ := x'
            simp only at hc hor
            subst hc hor
            have h1 : At rf (⟨rf, ⟨csum (pre ++ [m]), m'.csize, m'.data, 0, ⟨csum (pre ++ [m]), 0⟩⟩, rl, none, false⟩ : Reader)
                (pre ++ [m]) m' post' 0 := ⟨rfl, by rw [hs, hp]; simp, rfl, Nat.zero_le _, rfl⟩
            have := ih ⟨⟨rf, ⟨csum (pre ++ [m]), m'.csize, m'.data, 0, ⟨csum (pre ++ [m]), 0⟩⟩, rl, none, false⟩, xo.tail⟩
              (pre ++ [m]) m' post' 0 want h1 (by rw [hp] at hfuel; simp at hfuel; omega) (by
                intro _; rw [hp] at hfuel; simp at hfuel; split <;> omega)
            have hpos : flatLen (pre ++ [m]) + 0 = flatLen pre + m.data.length := by simp [flatLen]
            rw [hpos] at this
            refine ⟨by simpa using this.bytes_ok, by simpa using this.le, this.file, this.blocked,
              fun hn => this.noeof hn.tail, ?_, ?_, ?_⟩
            · intro he
              have ⟨a1, a2⟩ := this.alive he
              exact ⟨by simpa using a1, by simpa using a2⟩
            · simpa using this.latched
            · intro he hb hn
              simpa using this.eofEnd (by simpa using he) rfl hn.tail
          · rcases hx : FReader.nextBlock ⟨⟨rf, ⟨csum pre, m.csize, m.data, m.data.length,
              ⟨csum pre, m.data.length⟩⟩, rl, some .eof, false⟩, xo⟩ with ⟨x', e'⟩
            rw [hx] at hor he hc
            simp only at hor he hc
            subst he
            simp only
            obtain ⟨xr', xo'⟩ := x'
            simp only at hc hor
            subst hc hor
            refine ⟨by simp, by simp, rfl, rfl, fun hn => hn.tail, ?_, ?_, ?_⟩
            · intro he; simp [Reader.setEnd] at he
            · intro e' he'
              simp only [Reader.setEnd, Option.some.injEq] at he'
              subst he'
              exact ⟨rfl, by simp [Reader.setEnd, Block.hasData, Block.failed], hee⟩
            · intro he1 _ hn
              simp only [Reader.setEnd, Option.some.injEq] at he1
              rcases heof he1 with hp | hin
              · rw [hs, hp]; simp [flatLen]
              · exact absurd rfl (hn _ hin)
    · have hw0 : want = 0 := by omega
      subst hw0
      simp only [FReader.readLoop, Nat.lt_irrefl, false_and, if_false, FReader.withR]
      refine ⟨by simp, by simp, h.file, rfl, id, fun _ => ⟨⟨pre, m, post, k, h.setEnd, by simp⟩, Or.inl h.err⟩, ?_, ?_⟩
      · intro e' he'; simp [Reader.setEnd, h.err] at he'
      · intro he; rw [h.err] at he; cases he

end Hts.Model.Bgzf
