/-
C07 helper lemmas, part 5: the line parsers, UnmarshalText, DecodeBinary, NewHeader and Clone keep the
invariant of the whole world.
-/
import Hts.Lemmas.HeaderClone
namespace Hts.Model.Header

/-- the invariant of a world: every kind is consistent and has one table per header -/
structure WInv (w : World) : Prop where
  refs : KInv w.refs
  rgs : KInv w.rgs
  pgs : KInv w.pgs
  lr : w.refs.tabs.length = w.hdrs.length
  lg : w.rgs.tabs.length = w.hdrs.length
  lp : w.pgs.tabs.length = w.hdrs.length

theorem fieldLoop_inv {β : Type} (assign : β → Tag → Bytes → PR β) (P : β → Prop)
    (hstep : ∀ b t v b', assign b t v = .ok b' → P b → P b') :
    ∀ (xs : List Bytes) (a a' : FAcc β), fieldLoop assign a xs = .ok a' → P a.val → P a'.val := by
  intro xs
  induction xs with
  | nil => intro a a' h hp; simp [fieldLoop] at h; subst h; exact hp
  | cons x xs ih =>
    intro a a' h hp
    rw [fieldLoop] at h
    split at h
    · cases h
    · split at h
      · cases h
      · split at h
        · next b hb => exact ih _ _ h (hstep _ _ _ _ hb hp)
        · cases h
        · cases h

theorem rgAssign_unknown (E : Ext) (known : Bytes → Bool) (a a' : RgV) (t : Tag) (v : Bytes)
    (h : rgAssign E known a t v = .ok a') (hp : a.idok = true → known a.name = false) :
    a'.idok = true → known a'.name = false := by
  unfold rgAssign at h
  split at h
  · split at h
    · cases h
    · cases h; intro _; simp_all
  · split at h
    · cases h; simpa using hp
    · cases h

theorem pgAssign_unknown (known : Bytes → Bool) (a a' : PgV) (t : Tag) (v : Bytes)
    (h : pgAssign known a t v = .ok a') (hp : a.idok = true → known a.name = false) :
    a'.idok = true → known a'.name = false := by
  unfold pgAssign at h
  split at h
  · split at h
    · cases h
    · cases h; intro _; simp_all
  · cases h; simpa using hp

theorem kinv_install {α : Type} {k : KW α} (hk : KInv k) {h : Nat} {t : Tab} (ht : k.tabs[h]? = some t)
    (name : Bytes) (d : α) (hnew : lookup t.seen name = none) :
    KInv ((k.alloc { owner := none, id := -1, name := name, dat := d }).1.addNewU h
      (k.alloc { owner := none, id := -1, name := name, dat := d }).2) :=
  kinv_addNewU (kinv_alloc hk _ rfl) (alloc_heap k _) ht rfl hnew

theorem kinv_readGroupLine (E : Ext) {k : KW RgD} (hk : KInv k) (h : Nat) (l : Bytes) :
    KInv (readGroupLine E k h l).1 := by
  unfold readGroupLine
  split
  · next t _ ht =>
    split
    · exact hk
    · exact hk
    · next acc hacc =>
      dsimp only
      split
      · exact hk
      · next hid =>
        refine kinv_install hk ht _ _ ?_
        have := fieldLoop_inv _ (fun (b : RgV) => b.idok = true → (lookup t.seen b.name).isSome = false)
          (fun b t' v b' hb hp => rgAssign_unknown E _ b b' t' v hb hp) _ _ _ hacc (by simp)
        have h2 := this (by simpa using hid)
        cases hl : lookup t.seen acc.val.name with
        | none => rfl
        | some _ => simp [hl] at h2
  · exact hk
  · exact hk

theorem kinv_programLine {k : KW PgD} (hk : KInv k) (h : Nat) (l : Bytes) :
    KInv (programLine k h l).1 := by
  unfold programLine
  split
  · next t _ ht =>
    split
    · exact hk
    · exact hk
    · next acc hacc =>
      dsimp only
      split
      · exact hk
      · next hid =>
        refine kinv_install hk ht _ _ ?_
        have := fieldLoop_inv _ (fun (b : PgV) => b.idok = true → (lookup t.seen b.name).isSome = false)
          (fun b t' v b' hb hp => pgAssign_unknown _ b b' t' v hb hp) _ _ _ hacc (by simp)
        have h2 := this (by simpa using hid)
        cases hl : lookup t.seen acc.val.name with
        | none => rfl
        | some _ => simp [hl] at h2
  · exact hk
  · exact hk

theorem kinv_referenceLine (E : Ext) {k : KW RefD} (hk : KInv k) (p h : Nat) (l : Bytes) :
    KInv (referenceLine E k p h l).1 := by
  unfold referenceLine
  split
  case h_2 => exact hk
  split
  · exact hk
  · exact hk
  next acc hacc =>
  dsimp only
  split
  · exact hk
  next t ht =>
  have T := hk.tab h t ht
  split
  · exact hk
  split
  · next dupID hl =>
    split
    · exact hk
    next eo he =>
    split
    · exact hk
    next er her =>
    split
    · exact hk
    split
    · exact hk
    obtain ⟨i, er', hv, hi, her', hn, _⟩ := T.lookup_item hl he
    rw [her] at her'; cases her'
    subst hv
    exact kinv_replace (kinv_alloc hk _ rfl) _ ht hi (alloc_heap k _) (alloc_old k _ her) rfl hn.symm
  · next hl => exact kinv_install hk ht _ _ hl

theorem readGroupLine_tabs_len (E : Ext) (k : KW RgD) (h : Nat) (l : Bytes) :
    (readGroupLine E k h l).1.tabs.length = k.tabs.length := by
  unfold readGroupLine
  split
  · split
    · rfl
    · rfl
    · dsimp only; split
      · rfl
      · simp [KW.alloc]
  · rfl
  · rfl

theorem programLine_tabs_len (k : KW PgD) (h : Nat) (l : Bytes) :
    (programLine k h l).1.tabs.length = k.tabs.length := by
  unfold programLine
  split
  · split
    · rfl
    · rfl
    · dsimp only; split
      · rfl
      · simp [KW.alloc]
  · rfl
  · rfl

theorem referenceLine_tabs_len (E : Ext) (k : KW RefD) (p h : Nat) (l : Bytes) :
    (referenceLine E k p h l).1.tabs.length = k.tabs.length := by
  unfold referenceLine
  split
  case h_2 => rfl
  split
  · rfl
  · rfl
  dsimp only
  split
  · rfl
  split
  · rfl
  split
  · split
    · rfl
    split
    · rfl
    split
    · rfl
    split
    · rfl
    simp [KW.alloc]
  · simp [KW.alloc]

theorem winv_setHdr {w : World} (hw : WInv w) (h : Nat) (f : HdrF) : WInv (setHdr w h f) := by
  obtain ⟨a, b, c, d, e, g⟩ := hw
  exact ⟨a, b, c, by simpa [setHdr] using d, by simpa [setHdr] using e, by simpa [setHdr] using g⟩

theorem winv_parseLine (E : Ext) {w : World} (hw : WInv w) (h : Nat) (l : Bytes) :
    WInv (parseLine E w h l).1 := by
  unfold parseLine
  split
  · split
    · exact winv_setHdr hw _ _
    · split
      · exact ⟨kinv_referenceLine E hw.refs _ _ _, hw.rgs, hw.pgs,
          by simp only; rw [referenceLine_tabs_len]; exact hw.lr, hw.lg, hw.lp⟩
      · split
        · exact ⟨hw.refs, kinv_readGroupLine E hw.rgs _ _, hw.pgs, hw.lr,
            by simp only; rw [readGroupLine_tabs_len]; exact hw.lg, hw.lp⟩
        · split
          · exact ⟨hw.refs, hw.rgs, kinv_programLine hw.pgs _ _, hw.lr, hw.lg,
              by simp only; rw [programLine_tabs_len]; exact hw.lp⟩
          · split
            · exact winv_setHdr hw _ _
            · exact hw
  · exact hw
  · exact hw

theorem winv_parseLines (E : Ext) (h : Nat) : ∀ (ls : List Bytes) (w : World), WInv w →
    WInv (parseLines E w h ls).1 := by
  intro ls
  induction ls with
  | nil => intro w hw; exact hw
  | cons l ls ih =>
    intro w hw
    rw [parseLines]
    split
    · exact ih w hw
    · split
      · next w' hpl =>
        have := winv_parseLine E hw h (dropCR l)
        rw [hpl] at this
        exact ih w' this
      · next r hr =>
        have := winv_parseLine E hw h (dropCR l)
        exact this

theorem winv_unmarshalText (E : Ext) {w : World} (hw : WInv w) (h : Nat) (text : Bytes) :
    WInv (unmarshalText E w h text).1 := winv_parseLines E h _ w hw

theorem kinv_addBinRefs (h : Nat) : ∀ (rs : List (Bytes × Int)) (k : KW RefD) (i : Nat), KInv k →
    KInv (addBinRefs k h i rs).1 ∧ (addBinRefs k h i rs).1.tabs.length = k.tabs.length := by
  intro rs
  induction rs with
  | nil => intro k i hk; exact ⟨hk, rfl⟩
  | cons r rs ih =>
    intro k i hk
    obtain ⟨nm, l⟩ := r
    rw [addBinRefs]
    dsimp only
    have h1 := kinv_addReference (kinv_alloc hk { owner := none, id := (i : Int), name := nm, dat := { len := l } } rfl) h
      (k.alloc { owner := none, id := (i : Int), name := nm, dat := { len := l } }).2
    have h2 := addReference_tabs_len (k.alloc { owner := none, id := (i : Int), name := nm, dat := { len := l } }).1 h
      (k.alloc { owner := none, id := (i : Int), name := nm, dat := { len := l } }).2
    split
    · next k2 he =>
      rw [he] at h1 h2
      obtain ⟨a, b⟩ := ih k2 (i + 1) h1
      exact ⟨a, by rw [b, h2]; rfl⟩
    · next r hr =>
      exact ⟨h1, by rw [h2]; rfl⟩

theorem winv_decodeBinary (E : Ext) {w : World} (hw : WInv w) (h : Nat) (b : Bytes) :
    WInv (decodeBinary E w h b).1 := by
  unfold decodeBinary
  split
  case h_2 => exact hw
  split
  · exact hw
  split
  · exact hw
  split
  · exact hw
  rename_i text b' _
  have h1 := winv_unmarshalText E hw h text
  generalize unmarshalText E w h text = res at h1
  obtain ⟨w1, r⟩ := res
  cases r
  case ok =>
    dsimp only
    split
    · exact h1
    split
    · exact h1
    split
    · exact h1
    next rs _ =>
    dsimp only
    obtain ⟨a, b⟩ := kinv_addBinRefs h rs w1.refs 0 h1.refs
    exact ⟨a, h1.rgs, h1.pgs, by simp only; rw [b]; exact h1.lr, h1.lg, h1.lp⟩
  all_goals exact h1

theorem winv_pushHeader {w : World} (hw : WInv w) (f : HdrF) : WInv (pushHeader w f) := by
  obtain ⟨a, b, c, d, e, g⟩ := hw
  refine ⟨kinv_newTab a, kinv_newTab b, kinv_newTab c, ?_, ?_, ?_⟩ <;> simp [pushHeader] <;> assumption

theorem winv_markDead {w : World} (hw : WInv w) (h : Nat) : WInv (markDead w h) := by
  unfold markDead; split
  · exact winv_setHdr hw _ _
  · exact hw

theorem winv_cloneHeader {w : World} (hw : WInv w) (h : Nat) : WInv (cloneHeader w h) := by
  unfold cloneHeader; split
  · obtain ⟨a, b, c, d, e, g⟩ := hw
    refine ⟨kinv_cloneTab a h, kinv_cloneTab b h, kinv_cloneTab c h, ?_, ?_, ?_⟩ <;> simp <;> assumption
  · exact winv_pushHeader hw _

/-- the references given to NewHeader are free, with distinct names unknown to the header -/
theorem kinv_addMany (hn : Nat) : ∀ (os : List Nat) (k : KW RefD) (names : List Bytes) (t : Tab), KInv k →
    k.tabs[hn]? = some t → (∀ n, (lookup t.seen n).isSome = true → n ∈ names) → refsUsable k os names = true →
    KInv (os.foldl (fun k o => k.addNewU hn o) k) ∧
      (os.foldl (fun k o => k.addNewU hn o) k).tabs.length = k.tabs.length := by
  intro os
  induction os with
  | nil => intro k names t hk _ _ _; exact ⟨hk, rfl⟩
  | cons o os ih =>
    intro k names t hk ht hsub hus
    rw [refsUsable] at hus
    cases hx : k.heap[o]? with
    | none => simp [hx] at hus
    | some x =>
      simp only [hx, Bool.and_eq_true, Bool.not_eq_true', Bool.or_eq_false_iff, decide_eq_false_iff_not] at hus
      obtain ⟨⟨⟨hfree, _⟩, hnot⟩, hrest⟩ := hus
      have hfree' : x.owner = none := by
        cases ho : x.owner with
        | none => rfl
        | some _ => simp [ho] at hfree
      have hnew : lookup t.seen x.name = none := by
        cases hl : lookup t.seen x.name with
        | none => rfl
        | some v =>
          have := hsub x.name (by simp [hl])
          simp [this] at hnot
      have hk' := kinv_addNewU hk hx ht hfree' hnew
      have ht' : (k.addNewU hn o).tabs[hn]? = some { items := t.items ++ [o], seen := insert t.seen x.name (t.items.length : Int) } := by
        simp only [KW.addNewU, hx, ht, set_get _ _ _ _ _ ht, if_true]
      have hus' : ∀ (os : List Nat) (names' : List Bytes), x.name ∈ names' → refsUsable k os names' = true →
          refsUsable (k.addNewU hn o) os names' = true := by
        intro os
        induction os with
        | nil => intro _ _ _; rfl
        | cons o' os ih' =>
          intro names' hmem h'
          rw [refsUsable] at h' ⊢
          have hheap : (k.addNewU hn o).heap[o']? = if o = o' then some { x with owner := some hn, id := (t.items.length : Int) } else k.heap[o']? := by
            simp only [KW.addNewU, hx, ht, set_get _ _ _ _ _ hx]
          by_cases e : o = o'
          · subst e
            simp only [hx, Bool.and_eq_true, Bool.not_eq_true'] at h'
            have := h'.1.2
            simp [hmem] at this
          · simp only [hheap, e, if_false]
            cases hx' : k.heap[o']? with
            | none => simp [hx'] at h'
            | some x' =>
              simp only [hx', Bool.and_eq_true] at h' ⊢
              exact ⟨h'.1, ih' _ (List.mem_cons_of_mem _ hmem) h'.2⟩
      have := ih (k.addNewU hn o) (x.name :: names) _ hk' ht' ?_ (hus' os _ List.mem_cons_self hrest)
      · simp only [List.foldl_cons]
        exact ⟨this.1, by rw [this.2]; simp⟩
      · intro n hn'
        simp only [lookup_insert] at hn'
        split at hn'
        · next e => rw [← e]; exact List.mem_cons_self
        · exact List.mem_cons_of_mem _ (hsub n hn')

theorem winv_newHeader (E : Ext) {w : World} (hw : WInv w) (text : Bytes) (refs : List Nat) :
    WInv (newHeader E w text refs).1 := by
  unfold newHeader
  dsimp only
  have hp := winv_pushHeader hw {}
  split
  · exact winv_markDead hp _
  · next hus =>
    have hlen : (pushHeader w {}).refs.tabs.length = w.hdrs.length + 1 := by
      simp [pushHeader, hw.lr]
    have ht : (pushHeader w {}).refs.tabs[w.hdrs.length]? = some ⟨[], []⟩ := by
      simp [pushHeader, KW.newTab, ← hw.lr]
    obtain ⟨a, b⟩ := kinv_addMany w.hdrs.length refs (pushHeader w {}).refs [] _ hp.refs ht
      (by intro n hn; simp [lookup] at hn) (by simpa using hus)
    have h1 : WInv { pushHeader w {} with refs := refs.foldl (fun k o => k.addNewU w.hdrs.length o) (pushHeader w {}).refs } :=
      ⟨a, hp.rgs, hp.pgs, by simp only; rw [b]; exact hp.lr, hp.lg, hp.lp⟩
    have h2 := winv_unmarshalText E h1 w.hdrs.length text
    generalize unmarshalText E _ w.hdrs.length text = res at h2
    obtain ⟨w', r⟩ := res
    cases r <;> first | exact h2 | exact winv_markDead h2 _

end Hts.Model.Header
