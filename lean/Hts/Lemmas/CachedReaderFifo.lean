/-
FIFO with the repaired reader (rd = 1): the cached reader refines the uncached one for ALL histories.

`FIFO.Get` leaves a block that has been read from (`Used()`) in its table, so the contract of
Hts.Spec.CacheContract (`get_hit`: ownership passes to the caller) does not hold and the invariant `Inv` of
Hts.Lemmas.CachedReader ("no cache entry is the current block", "caches share no block") is false for FIFO.
What holds instead, on a tree with repair C03-5 (`lentGuard`: the block `Get` returned while the cache kept it
indexed is remembered in `bg.lent` and never recycled), is `FInv`:

* every table entry `(k, id)` of every cache object — attached or detached — refers to an allocated block whose
  content is the member at `k` (`Good`): no indexed block is ever overwritten;
* if the current block is indexed by any cache object, it is the block on loan (`lent`) and it is `Used()`;
* a block indexed by two cache objects is `Used()` (so `Get` never hands out, as the caller's own, a block some
  other table still references);

and the only block `nextBlockAt` decompresses into (`lazyBlock`) is a new one or a current block that no table
references.  `FInv` is proved inductive over Seek / Read / ReadByte / SetCache(new | nil | re-attach) / Blocked,
for every capacity ≥ 1 (`NewFIFO(n)` with `n < 1` is the nil cache), every file with positive member sizes.
-/
import Hts.Lemmas.CachedReader
namespace Hts.Model.CachedReader.Fifo
open Hts.Model.Cache Hts.Spec.CacheContract Hts.Model.CachedReader

/-- all cache objects of the history: the attached one and the detached ones -/
def caches (r : Reader LCache) : List LCache := r.cache.toList ++ r.parked

/-- block `id` is referenced by the table of some cache object -/
def Idx (r : Reader LCache) (id : Nat) : Prop := ∃ c ∈ caches r, ∃ e ∈ c.items, e.id = id

/-- a block that two tables reference has been read from -/
def Share (h : Nat → RBlk) (p q : LCache) : Prop :=
  ∀ e ∈ p.items, ∀ e' ∈ q.items, e.id = e'.id → (h e.id).used = true

theorem Share.symm {h : Nat → RBlk} {p q : LCache} (s : Share h p q) : Share h q p :=
  fun e he e' he' hh => by rw [hh]; exact s e' he' e he hh.symm

/-- the invariant that makes FIFO safe with the repaired reader -/
structure FInv (f : File) (r : Reader LCache) : Prop where
  cur_lt : ∀ id, r.cur = some id → id < r.fresh
  /-- a current block that claims to hold data holds the member of its base -/
  cur_good : ∀ id, r.cur = some id → (r.heap id).hasData = true → Good f (r.heap id).base (r.heap id)
  wf : ∀ c ∈ caches r, c.WF
  /-- every base ↦ block entry of every table maps to a block whose content is the member at that base -/
  ents : ∀ c ∈ caches r, ∀ e ∈ c.items, e.id < r.fresh ∧ Good f e.key (r.heap e.id)
  /-- a current block that a table references is the block on loan, and has been read from -/
  loan : ∀ id, r.cur = some id → Idx r id → r.lent = some id ∧ (r.heap id).used = true
  excl : (caches r).Pairwise (Share r.heap)

/-- `a` is `b` after reading from it / seeking inside it: what a table relies on is unchanged -/
def Keep (a b : RBlk) : Prop :=
  a.base = b.base ∧ a.hasData = b.hasData ∧ a.offFile = b.offFile ∧ a.data = b.data ∧ a.hsize = b.hsize ∧
    (b.used = true → a.used = true)

theorem Keep.refl (a : RBlk) : Keep a a := ⟨rfl, rfl, rfl, rfl, rfl, fun h => h⟩

theorem Keep.of_eq {a b : RBlk} (h : a = b) : Keep a b := h ▸ Keep.refl a

theorem Keep.good {f : File} {k : Int} {a b : RBlk} (h : Keep a b) (g : Good f k b) : Good f k a := by
  obtain ⟨h1, h2, h3, h4, h5, _⟩ := h
  obtain ⟨g1, g2, g3, m, hm, g4, g5⟩ := g
  exact ⟨by rw [h1]; exact g1, by rw [h2]; exact g2, by rw [h3]; exact g3, m, hm, by rw [h4]; exact g4,
    by rw [h5]; exact g5⟩

theorem idx_congr {r R : Reader LCache} (hca : R.cache = r.cache) (hpk : R.parked = r.parked) (id : Nat) :
    Idx R id ↔ Idx r id := by
  unfold Idx caches; rw [hca, hpk]

/-- a step that leaves the cache objects alone and keeps every referenced block -/
theorem FInv.frame {f : File} {r R : Reader LCache} (inv : FInv f r)
    (hca : R.cache = r.cache) (hpk : R.parked = r.parked) (hfresh : r.fresh ≤ R.fresh)
    (hkeep : ∀ j, Idx r j → Keep (R.heap j) (r.heap j))
    (hcur_lt : ∀ id, R.cur = some id → id < R.fresh)
    (hcur_good : ∀ id, R.cur = some id → (R.heap id).hasData = true → Good f (R.heap id).base (R.heap id))
    (hloan : ∀ id, R.cur = some id → Idx r id → R.lent = some id ∧ (R.heap id).used = true) : FInv f R := by
  have hcs : caches R = caches r := by unfold caches; rw [hca, hpk]
  refine ⟨hcur_lt, hcur_good, ?_, ?_, ?_, ?_⟩
  · rw [hcs]; exact inv.wf
  · rw [hcs]
    intro c hc e he
    obtain ⟨a1, a2⟩ := inv.ents c hc e he
    exact ⟨by omega, (hkeep e.id ⟨c, hc, e, he, rfl⟩).good a2⟩
  · intro id hid hidx
    exact hloan id hid ((idx_congr hca hpk id).1 hidx)
  · rw [hcs]
    refine inv.excl.imp_of_mem ?_
    intro p q hp _ s e he e' he' hh
    exact (hkeep e.id ⟨p, hp, e, he, rfl⟩).2.2.2.2.2 (s e he e' he' hh)

theorem FInv.congr {f : File} {r : Reader LCache} (i : FInv f r)
    (R : Reader LCache) (h1 : R.heap = r.heap) (h2 : R.fresh = r.fresh) (h3 : R.cur = r.cur)
    (h4 : R.cache = r.cache) (h5 : R.parked = r.parked := by rfl) (h6 : R.lent = r.lent := by rfl) : FInv f R := by
  refine i.frame h4 h5 (by omega) (fun j _ => Keep.of_eq (by rw [h1])) ?_ ?_ ?_
  · intro id hid; rw [h2]; exact i.cur_lt id (by rw [← h3]; exact hid)
  · intro id hid hd; rw [h1] at hd ⊢; exact i.cur_good id (by rw [← h3]; exact hid) hd
  · intro id hid hidx; rw [h1, h6]; exact i.loan id (by rw [← h3]; exact hid) hidx

theorem FInv.setErr {f : File} {r : Reader LCache} (i : FInv f r) (e : Err) : FInv f { r with err := e } :=
  i.congr _ rfl rfl rfl rfl

theorem FInv.setFields {f : File} {r : Reader LCache} (i : FInv f r)
    (e : Err) (cb ce : Int × Nat) (bl : Bool) :
    FInv f { r with err := e, chunkBegin := cb, chunkEnd := ce, blocked := bl } :=
  i.congr _ rfl rfl rfl rfl

/-- reading from (or seeking inside) the current block keeps the invariant -/
theorem FInv.advance {f : File} {r : Reader LCache} (i : FInv f r) {id : Nat}
    (hc : r.cur = some id) (p q : Nat) (u : Bool) (hu : (r.heap id).used = true → u = true) :
    FInv f (r.setB id { r.heap id with pos := p, offBlock := q, used := u }) := by
  have hk : ∀ j, Keep ((r.setB id { r.heap id with pos := p, offBlock := q, used := u }).heap j) (r.heap j) := by
    intro j
    by_cases hj : j = id
    · subst hj; rw [setB_same]; exact ⟨rfl, rfl, rfl, rfl, rfl, hu⟩
    · rw [setB_other _ _ hj]; exact Keep.refl _
  refine i.frame rfl rfl (Nat.le_refl _) (fun j _ => hk j) i.cur_lt ?_ ?_
  · intro j hj hd
    have : j = id := by simp only [Reader.setB] at hj; rw [hc] at hj; exact (Option.some.inj hj).symm
    subst this
    rw [setB_same] at hd ⊢
    exact i.cur_good j hc hd
  · intro j hj hidx
    have hj' : r.cur = some j := hj
    obtain ⟨a1, a2⟩ := i.loan j hj' hidx
    exact ⟨a1, (hk j).2.2.2.2.2 a2⟩

/-! ### FIFO's Put and Get -/

theorem put_sum {h : Heap} {c : LCache} (w : c.WF) (id : Nat) :
    (c.put h id).1.WF ∧ (c.put h id).2 ≠ .panic ∧
    (∀ e ∈ (c.put h id).1.items, e ∈ c.items ∨ e = ⟨(h id).base, id⟩) ∧
    ((c.put h id).2 = .refused → (c.put h id).1 = c) := by
  refine ⟨LCache.put_wf w id, LCache.put_no_panic w id, ?_, ?_⟩
  · unfold LCache.put
    simp only
    split
    · intro e he; exact Or.inl he
    · split
      · split
        · intro e he; exact Or.inl he
        · cases hl : c.items.getLast? with
          | none => intro e he; exact Or.inl he
          | some d =>
            intro e he
            simp only [List.mem_cons] at he
            rcases he with h1 | h1
            · exact Or.inr h1
            · exact Or.inl ((List.dropLast_sublist _).subset h1)
      · split
        · intro e he
          simp only [List.mem_cons] at he
          rcases he with h1 | h1
          · exact Or.inr h1
          · exact Or.inl h1
        · intro e he
          simp only [List.mem_append, List.mem_singleton] at he
          exact he
  · unfold LCache.put
    simp only
    split
    · intro _; rfl
    · split
      · split
        · intro _; rfl
        · cases hl : c.items.getLast? with
          | none => intro h0; cases h0
          | some d => intro h0; cases h0
      · split <;> (intro h0; cases h0)

theorem fifoOps_put (h : Heap) (c : LCache) (id : Nat) (hint : Option Nat) :
    fifoOps.put h c id hint = some (c.put h id) := rfl

/-- `cachePut` with a FIFO never fails; it leaves the reader alone and changes the table by at most one `Put`
of a block that has data -/
theorem cachePut_fifo (r : Reader LCache) {c : LCache} (w : c.WF) (b : Option Nat) :
    ∃ r2 c2 back ret, cachePut fifoOps r c b = .ok (r2, c2, back, ret) ∧ r2.lent = r.lent ∧ c2.WF ∧
      (∀ e ∈ c2.items, e ∈ c.items ∨
        ∃ id, b = some id ∧ (r.heap id).hasData = true ∧ e = ⟨(r.heap id).base, id⟩) ∧
      (ret = false → c2 = c ∧ back = b) := by
  have p1 := fun id => (put_sum (h := r.hview) w id).1
  have p2 := fun id => (put_sum (h := r.hview) w id).2.1
  have p3 := fun id => (put_sum (h := r.hview) w id).2.2.1
  have p4 := fun id => (put_sum (h := r.hview) w id).2.2.2
  cases b with
  | none => exact ⟨r, c, none, false, rfl, rfl, w, fun e he => Or.inl he, fun _ => ⟨rfl, rfl⟩⟩
  | some id =>
    unfold cachePut
    simp only
    by_cases hd : (r.heap id).hasData = true
    · have hd' : (!(r.heap id).hasData) = false := by rw [hd]; rfl
      simp only [hd', Bool.false_eq_true, if_false]
      simp only [fifoOps_put]
      have hmem : ∀ e ∈ (c.put r.hview id).1.items, e ∈ c.items ∨
          ∃ id', some id = some id' ∧ (r.heap id').hasData = true ∧ e = ⟨(r.heap id').base, id'⟩ := by
        intro e he
        rcases p3 id e he with h1 | h1
        · exact Or.inl h1
        · exact Or.inr ⟨id, rfl, hd, h1⟩
      cases hres : c.put r.hview id with
      | mk c' res =>
        rw [hres] at hmem
        have hw' : c'.WF := by have := p1 id; rw [hres] at this; exact this
        cases res with
        | refused =>
          have : c' = c := by have := p4 id; rw [hres] at this; exact this rfl
          exact ⟨_, _, _, _, rfl, rfl, hw', hmem, fun _ => ⟨this, rfl⟩⟩
        | panic => exact absurd (by rw [hres]) (p2 id)
        | kept ev =>
          cases ev with
          | none => exact ⟨_, _, _, _, rfl, rfl, hw', hmem, fun h0 => Bool.noConfusion h0⟩
          | some v => exact ⟨_, _, _, _, rfl, rfl, hw', hmem, fun h0 => Bool.noConfusion h0⟩
    · have hd' : (!(r.heap id).hasData) = true := by simpa using hd
      simp only [hd', if_true]
      exact ⟨r, c, some id, false, rfl, rfl, w, fun e he => Or.inl he, fun _ => ⟨rfl, rfl⟩⟩

theorem get_fifo_miss {h : Heap} {c : LCache} {k : Int} (hl : lookup c.items k = none) :
    LCache.get .fifo h c k = (c, none) := by
  unfold LCache.get; rw [hl]

/-- `FIFO.Get` of a held key: the block comes back; it leaves the table only if it has not been read from -/
theorem get_fifo_hit {h : Heap} {c : LCache} {k : Int} {e : Entry} (w : c.WF) (hl : lookup c.items k = some e) :
    ∃ c1, LCache.get .fifo h c k = (c1, some e.id) ∧ c1.WF ∧ (∀ x ∈ c1.items, x ∈ c.items) ∧
      (((h e.id).used = true ∧ c1 = c) ∨ ((h e.id).used = false ∧ ∀ x ∈ c1.items, x.key ≠ k)) := by
  have hw := LCache.get_wf (kind := .fifo) (h := h) w k
  unfold LCache.get at hw ⊢
  rw [hl] at hw ⊢
  simp only [true_and] at hw ⊢
  by_cases hu : (h e.id).used = true
  · have hcond : ((h e.id).used = true) := hu
    rw [if_pos hcond] at hw ⊢
    exact ⟨c, rfl, w, fun x hx => hx, Or.inl ⟨hu, rfl⟩⟩
  · have hcond : ¬ ((h e.id).used = true) := hu
    rw [if_neg hcond] at hw ⊢
    refine ⟨_, rfl, hw, fun x hx => (mem_removeKey.1 hx).1, Or.inr ⟨by simpa using hu, ?_⟩⟩
    intro x hx
    exact (mem_removeKey.1 hx).2

theorem peek_fifo {h : Heap} {c : LCache} {k : Int} :
    (LCache.peek h c k).1 = (lookup c.items k).isSome := by
  unfold LCache.peek
  cases lookup c.items k <;> rfl

/-! ### cacheSwap -/

theorem caches_some {r : Reader LCache} {c : LCache} (hc : r.cache = some c) : caches r = c :: r.parked := by
  unfold caches; rw [hc]; rfl

theorem caches_none {r : Reader LCache} (hc : r.cache = none) : caches r = r.parked := by
  unfold caches; rw [hc]; rfl

/-- the attached table changes by (at most) a `Get` and a `Put` of the current block -/
theorem FInv.swap {f : File} {r R : Reader LCache} {c c2 : LCache} (inv : FInv f r) (hc : r.cache = some c)
    (hRc : R.cache = some c2) (hRp : R.parked = r.parked) (hfresh : R.fresh = r.fresh)
    (hkeep : ∀ j, Keep (R.heap j) (r.heap j)) (hw2 : c2.WF)
    (hmem : ∀ x ∈ c2.items, x ∈ c.items ∨
      ∃ y, r.cur = some y ∧ (r.heap y).hasData = true ∧ x = ⟨(r.heap y).base, y⟩)
    (hcur_lt : ∀ id, R.cur = some id → id < r.fresh)
    (hcur_good : ∀ id, R.cur = some id → (R.heap id).hasData = true → Good f (R.heap id).base (R.heap id))
    (hloan : ∀ id, R.cur = some id → Idx R id → R.lent = some id ∧ (R.heap id).used = true) : FInv f R := by
  have hcs : caches r = c :: r.parked := caches_some hc
  have hcsR : caches R = c2 :: r.parked := by rw [caches_some hRc, hRp]
  have hcm : c ∈ caches r := by rw [hcs]; simp
  have hpm : ∀ p ∈ r.parked, p ∈ caches r := by intro p hp; rw [hcs]; simp [hp]
  refine ⟨?_, hcur_good, ?_, ?_, hloan, ?_⟩
  · intro id hid; rw [hfresh]; exact hcur_lt id hid
  · rw [hcsR]
    intro p hp
    rcases List.mem_cons.1 hp with h | h
    · rw [h]; exact hw2
    · exact inv.wf p (hpm p h)
  · rw [hcsR]
    intro p hp e he
    rw [hfresh]
    rcases List.mem_cons.1 hp with h | h
    · subst h
      rcases hmem e he with h1 | ⟨y, hy, hd, h1⟩
      · obtain ⟨a1, a2⟩ := inv.ents c hcm e h1
        exact ⟨a1, (hkeep _).good a2⟩
      · subst h1
        exact ⟨inv.cur_lt y hy, (hkeep _).good (inv.cur_good y hy hd)⟩
    · obtain ⟨a1, a2⟩ := inv.ents p (hpm p h) e he
      exact ⟨a1, (hkeep _).good a2⟩
  · rw [hcsR]
    have hex := inv.excl
    rw [hcs] at hex
    obtain ⟨h1, h2⟩ := List.pairwise_cons.1 hex
    refine List.pairwise_cons.2 ⟨?_, h2.imp ?_⟩
    · intro p hp e he e' he' hh
      apply (hkeep _).2.2.2.2.2
      rcases hmem e he with h3 | ⟨y, hy, hd, h3⟩
      · exact h1 p hp e h3 e' he' hh
      · subst h3
        exact (inv.loan y hy ⟨p, hpm p hp, e', he', hh.symm⟩).2
    · intro p q s e he e' he' hh
      exact (hkeep _).2.2.2.2.2 (s e he e' he' hh)

theorem Good.base_eq {f : File} {k : Int} {b : RBlk} (g : Good f k b) : b.base = k := g.1

/-- `cacheSwap(k)` with a FIFO (or no cache) when the current block is not a data-holding block of base `k`:
it never fails, keeps the invariant, a hit installs the member at `k`, and after a miss the block kept for the
next decompression is referenced by no table -/
theorem cacheSwap_spec {cfg : Cfg} (hlg : cfg.lentGuard = true) {f : File}
    {r : Reader LCache} {k : Int} (inv : FInv f r)
    (hk : ∀ id, r.cur = some id → (r.heap id).hasData = true → (r.heap id).base ≠ k) :
    ∃ r1 hit, cacheSwap cfg fifoOps r k = .ok (r1, hit) ∧
    r1.err = r.err ∧ r1.chunkBegin = r.chunkBegin ∧ r1.chunkEnd = r.chunkEnd ∧ r1.blocked = r.blocked ∧
    FInv f r1 ∧
    (hit = true → ∃ id, r1.cur = some id ∧ Good f k (r1.heap id) ∧ (r1.heap id).pos = 0 ∧
        (r1.heap id).offBlock = 0) ∧
    (hit = false → (∀ id, r1.cur = some id → ¬ Idx r1 id) ∧
        ∀ c1, r1.cache = some c1 → ∀ e ∈ c1.items, e.key ≠ k) := by
  unfold cacheSwap
  cases hc : r.cache with
  | none =>
    simp only
    by_cases hcond : (cfg.lentGuard && r.cur.isSome && r.lent == r.cur) = true
    · rw [if_pos hcond]
      refine ⟨_, _, rfl, rfl, rfl, rfl, rfl, ?_, fun h0 => Bool.noConfusion h0, fun _ => ⟨?_, ?_⟩⟩
      · exact inv.frame hc.symm rfl (Nat.le_refl _) (fun j _ => Keep.refl _) (fun id hid => by cases hid)
          (fun id hid => by cases hid) (fun id hid => by cases hid)
      · intro id hid; cases hid
      · intro c1 h1; simp only at h1; cases h1
    · rw [if_neg hcond]
      refine ⟨_, _, rfl, rfl, rfl, rfl, rfl, inv, fun h0 => Bool.noConfusion h0, fun _ => ⟨?_, ?_⟩⟩
      · intro id hid hidx
        apply hcond
        obtain ⟨a1, _⟩ := inv.loan id hid hidx
        rw [hlg, hid, a1]
        simp
      · intro c1 h1; rw [hc] at h1; cases h1
  | some c =>
    simp only
    have hcs : caches r = c :: r.parked := caches_some hc
    have hcm : c ∈ caches r := by rw [hcs]; simp
    have hpm : ∀ p ∈ r.parked, p ∈ caches r := by intro p hp; rw [hcs]; simp [hp]
    have hwf := inv.wf c hcm
    have hgetdef : fifoOps.get r.hview c k = LCache.get .fifo r.hview c k := rfl
    rw [hgetdef]
    cases hl : lookup c.items k with
    | some e =>
      obtain ⟨hem, hek⟩ := lookup_some hl
      obtain ⟨c1, hg, hw1, hsub, hcase⟩ := get_fifo_hit (h := r.hview) hwf hl
      rw [hg]
      simp only
      obtain ⟨hX_lt, hX_good⟩ := inv.ents c hcm e hem
      rw [hek] at hX_good
      generalize hbl : (cfg.lentGuard && (fifoOps.peek r.hview c1 k).1) = bl
      -- the reader after `blk.seek(0)` and `bg.lent = blk`
      have hkeep0 : ∀ j, Keep ((markLent (r.setB e.id { r.heap e.id with pos := 0, offBlock := 0 }) bl e.id).heap j)
          (r.heap j) := by
        intro j
        rw [markLent_heap]
        by_cases hj : j = e.id
        · subst hj; rw [setB_same]; exact ⟨rfl, rfl, rfl, rfl, rfl, fun h => h⟩
        · rw [setB_other _ _ hj]; exact Keep.refl _
      obtain ⟨r2, c2, back, ret, hp, hlent2, hw2, hmem2, _⟩ :=
        cachePut_fifo (markLent (r.setB e.id { r.heap e.id with pos := 0, offBlock := 0 }) bl e.id) hw1
          (markLent (r.setB e.id { r.heap e.id with pos := 0, offBlock := 0 }) bl e.id).cur
      rw [hp]
      simp only
      obtain ⟨fh, ff, fc, fe, fcb, fce, fbl, fca, fpk⟩ := cachePut_fields hp
      simp only [markLent_heap, markLent_fresh, markLent_cur, markLent_err, markLent_cb, markLent_ce,
        markLent_blocked, markLent_cache, markLent_parked] at ff fc fe fcb fce fbl fca fpk
      have hkeep : ∀ j, Keep (r2.heap j) (r.heap j) := by intro j; rw [fh]; exact hkeep0 j
      have hheap_id : r2.heap e.id = { r.heap e.id with pos := 0, offBlock := 0 } := by
        rw [fh, markLent_heap]; exact setB_same _ _ _
      have hgood_id : Good f k (r2.heap e.id) := (hkeep e.id).good hX_good
      -- entries of the new table
      have hmem : ∀ x ∈ c2.items, x ∈ c.items ∨
          ∃ y, r.cur = some y ∧ (r.heap y).hasData = true ∧ x = ⟨(r.heap y).base, y⟩ := by
        intro x hx
        rcases hmem2 x hx with h1 | ⟨y, hy, hd, h1⟩
        · exact Or.inl (hsub x h1)
        · refine Or.inr ⟨y, by simpa [Reader.setB] using hy, ?_, ?_⟩
          · rw [← (hkeep0 y).2.1]; exact hd
          · rw [h1, (hkeep0 y).1]
      have hmem1 : ∀ x ∈ c2.items, x ∈ c1.items ∨
          ∃ y, r.cur = some y ∧ (r.heap y).hasData = true ∧ x = ⟨(r.heap y).base, y⟩ := by
        intro x hx
        rcases hmem2 x hx with h1 | ⟨y, hy, hd, h1⟩
        · exact Or.inl h1
        · refine Or.inr ⟨y, by simpa [Reader.setB] using hy, ?_, ?_⟩
          · rw [← (hkeep0 y).2.1]; exact hd
          · rw [h1, (hkeep0 y).1]
      refine ⟨_, _, rfl, fe, fcb, fce, fbl, ?_, fun _ => ⟨e.id, rfl, ?_, ?_, ?_⟩, fun h0 => Bool.noConfusion h0⟩
      · refine inv.swap (R := { r2 with cache := some c2, cur := some e.id }) hc rfl fpk ff hkeep hw2 hmem ?_ ?_ ?_
        · intro id hid; simp only [Option.some.injEq] at hid; subst hid; exact hX_lt
        · intro id hid _
          simp only [Option.some.injEq] at hid; subst hid
          simp only
          rw [hgood_id.1]; exact hgood_id
        · intro id hid hidx
          simp only [Option.some.injEq] at hid; subst hid
          simp only
          rcases hcase with ⟨hu, hc1⟩ | ⟨hu, hnk⟩
          · -- the block has been read from: it stays in the table, and is on loan
            have hu' : (r.heap e.id).used = true := hu
            have hpk : (fifoOps.peek r.hview c1 k).1 = true := by
              rw [hc1]
              show (LCache.peek r.hview c k).1 = true
              rw [peek_fifo, hl]; rfl
            rw [hpk, hlg] at hbl
            subst hbl
            refine ⟨?_, (hkeep e.id).2.2.2.2.2 hu'⟩
            rw [hlent2]; rfl
          · -- the block has not been read from: no table references it any more
            exfalso
            have hu' : (r.heap e.id).used = false := hu
            obtain ⟨p, hp', x, hx, hxid⟩ := hidx
            have hcsR : caches ({ r2 with cache := some c2, cur := some e.id } : Reader LCache) = c2 :: r.parked := by
              rw [caches_some (c := c2) rfl]; simp only; rw [fpk]; rfl
            rw [hcsR] at hp'
            rcases List.mem_cons.1 hp' with h | h
            · subst h
              rcases hmem1 x hx with h1 | ⟨y, hy, hd, h1⟩
              · have := (inv.ents c hcm x (hsub x h1)).2
                rw [hxid] at this
                exact hnk x h1 (by rw [← this.1, hX_good.1])
              · subst h1
                simp only at hxid
                exact hk y hy hd (by rw [hxid]; exact hX_good.1)
            · have hex := inv.excl
              rw [hcs] at hex
              have := (List.pairwise_cons.1 hex).1 p h e hem x hx hxid.symm
              rw [hu'] at this; cases this
      · exact hgood_id
      · simp only; rw [hheap_id]
      · simp only; rw [hheap_id]
    | none =>
      rw [get_fifo_miss hl]
      simp only
      have hnokey := lookup_none hl
      obtain ⟨r2, c2, back, ret, hp, hlent2, hw2, hmem2, hret⟩ := cachePut_fifo r hwf r.cur
      rw [hp]
      simp only
      obtain ⟨fh, ff, fc, fe, fcb, fce, fbl, fca, fpk⟩ := cachePut_fields hp
      have hkeep : ∀ j, Keep (r2.heap j) (r.heap j) := by intro j; rw [fh]; exact Keep.refl _
      have hmem : ∀ x ∈ c2.items, x ∈ c.items ∨
          ∃ y, r.cur = some y ∧ (r.heap y).hasData = true ∧ x = ⟨(r.heap y).base, y⟩ := hmem2
      have hcurR : recycle cfg fifoOps r2 c2 ret back = none ∨
          (ret = false ∧ recycle cfg fifoOps r2 c2 ret back = r.cur) := by
        rcases recycle_cases cfg fifoOps r2 c2 ret back with h0 | ⟨h0, h1⟩
        · exact Or.inl h0
        · exact Or.inr ⟨h0, by rw [h1, (hret h0).2]⟩
      have hinv : FInv f { r2 with cache := some c2, cur := recycle cfg fifoOps r2 c2 ret back } := by
        refine inv.swap (R := { r2 with cache := some c2, cur := recycle cfg fifoOps r2 c2 ret back })
          hc rfl fpk ff hkeep hw2 hmem ?_ ?_ ?_
        · intro id hid
          simp only at hid
          rcases hcurR with h0 | ⟨_, h0⟩
          · rw [h0] at hid; cases hid
          · rw [h0] at hid; exact inv.cur_lt id hid
        · intro id hid hd
          simp only at hid hd ⊢
          rcases hcurR with h0 | ⟨_, h0⟩
          · rw [h0] at hid; cases hid
          · rw [h0] at hid; rw [fh] at hd ⊢; exact inv.cur_good id hid hd
        · intro id hid hidx
          simp only at hid ⊢
          rcases hcurR with h0 | ⟨hr0, h0⟩
          · rw [h0] at hid; cases hid
          · rw [h0] at hid
            have hc2 : c2 = c := (hret hr0).1
            have hidx' : Idx r id := by
              obtain ⟨p, hp', x, hx, hxid⟩ := hidx
              refine ⟨p, ?_, x, hx, hxid⟩
              rw [hcs]
              rw [caches_some (r := { r2 with cache := some c2, cur := recycle cfg fifoOps r2 c2 ret back })
                (c := c2) rfl] at hp'
              simp only at hp'
              rw [fpk, hc2] at hp'
              exact hp'
            rw [hlent2, fh]
            exact inv.loan id hid hidx'
      refine ⟨_, _, rfl, fe, fcb, fce, fbl, hinv, fun h0 => Bool.noConfusion h0, fun _ => ⟨?_, ?_⟩⟩
      · intro id hid hidx
        simp only at hid
        have hl2 := (hinv.loan id hid hidx).1
        simp only at hl2
        -- `recycle` does not hand back the block on loan
        unfold recycle at hid
        split at hid
        · cases hid
        · split at hid
          · cases hid
          · rename_i id'
            split at hid
            · cases hid
            · rename_i hnot
              simp only [Option.some.injEq] at hid
              subst hid
              apply hnot
              rw [hlg, hl2]
              simp
      · intro c1 h1 x hx
        simp only [Option.some.injEq] at h1
        subst h1
        rcases hmem x hx with h1 | ⟨y, hy, hd, h1⟩
        · exact hnokey x h1
        · subst h1; exact hk y hy hd

end Hts.Model.CachedReader.Fifo
