/-
FIFO with the repaired reader (rd = 1): the cached reader refines the uncached one for ALL histories.

`FIFO.Get` leaves a block that has been read from (`Used()`) in its table, so the contract of
Hts.Spec.CacheContract (`get_hit`: ownership passes to the caller) does not hold and the invariant `Inv` of
Hts.Lemmas.CachedReader ("no cache entry is the current block", "caches share no block") is false for FIFO.
What holds instead, on a tree with repair C03-5 (`lentGuard`: the block `Get` returned while the cache kept it
indexed is remembered in `bg.lent` and never recycled), is `FInv`:

* every table entry `(k, id)` of every cache object — attached or detached — refers to an allocated block whose
  content is the member at `k` (`Good`): no indexed block is ever overwritten;
* if the current block is indexed by any cache object, it is the block on loan (`lent`) and it is `Used()`;
* a block indexed by two cache objects is `Used()` (so `Get` never hands out, as the caller's own, a block some
  other table still references);

and the only block `nextBlockAt` decompresses into (`lazyBlock`) is a new one or a current block that no table
references.  `FInv` is proved inductive over Seek / Read / ReadByte / SetCache(new | nil | re-attach) / Blocked,
for every capacity ≥ 1 (`NewFIFO(n)` with `n < 1` is the nil cache), every file with positive member sizes.
-/
import Hts.Lemmas.CachedReader
namespace Hts.Model.CachedReaderFifo
open Hts.Model.Cache Hts.Spec.CacheContract Hts.Model.CachedReader

/-- all cache objects of the history: the attached one and the detached ones -/
def caches (r : Reader LCache) : List LCache := r.cache.toList ++ r.parked

/-- block `id` is referenced by the table of some cache object -/
def Idx (r : Reader LCache) (id : Nat) : Prop := ∃ c ∈ caches r, ∃ e ∈ c.items, e.id = id

/-- a block that two tables reference has been read from -/
def Share (h : Nat → RBlk) (p q : LCache) : Prop :=
  ∀ e ∈ p.items, ∀ e' ∈ q.items, e.id = e'.id → (h e.id).used = true

theorem Share.symm {h : Nat → RBlk} {p q : LCache} (s : Share h p q) : Share h q p :=
  fun e he e' he' hh => by rw [hh]; exact s e' he' e he hh.symm

/-- the invariant that makes FIFO safe with the repaired reader -/
structure FInv (f : File) (r : Reader LCache) : Prop where
  cur_lt : ∀ id, r.cur = some id → id < r.fresh
  /-- a current block that claims to hold data holds the member of its base -/
  cur_good : ∀ id, r.cur = some id → (r.heap id).hasData = true → Good f (r.heap id).base (r.heap id)
  wf : ∀ c ∈ caches r, c.WF
  /-- every base ↦ block entry of every table maps to a block whose content is the member at that base -/
  ents : ∀ c ∈ caches r, ∀ e ∈ c.items, e.id < r.fresh ∧ Good f e.key (r.heap e.id)
  /-- a current block that a table references is the block on loan, and has been read from -/
  loan : ∀ id, r.cur = some id → Idx r id → r.lent = some id ∧ (r.heap id).used = true
  excl : (caches r).Pairwise (Share r.heap)

/-- `a` is `b` after reading from it / seeking inside it: what a table relies on is unchanged -/
def Keep (a b : RBlk) : Prop :=
  a.base = b.base ∧ a.hasData = b.hasData ∧ a.offFile = b.offFile ∧ a.data = b.data ∧ a.hsize = b.hsize ∧
    (b.used = true → a.used = true)

theorem Keep.refl (a : RBlk) : Keep a a := ⟨rfl, rfl, rfl, rfl, rfl, fun h => h⟩

theorem Keep.of_eq {a b : RBlk} (h : a = b) : Keep a b := h ▸ Keep.refl a

theorem Keep.good {f : File} {k : Int} {a b : RBlk} (h : Keep a b) (g : Good f k b) : Good f k a := by
  obtain ⟨h1, h2, h3, h4, h5, _⟩ := h
  obtain ⟨g1, g2, g3, m, hm, g4, g5⟩ := g
  exact ⟨by rw [h1]; exact g1, by rw [h2]; exact g2, by rw [h3]; exact g3, m, hm, by rw [h4]; exact g4,
    by rw [h5]; exact g5⟩

theorem idx_congr {r R : Reader LCache} (hca : R.cache = r.cache) (hpk : R.parked = r.parked) (id : Nat) :
    Idx R id ↔ Idx r id := by
  unfold Idx caches; rw [hca, hpk]

/-- a step that leaves the cache objects alone and keeps every referenced block -/
theorem FInv.frame {f : File} {r R : Reader LCache} (inv : FInv f r)
    (hca : R.cache = r.cache) (hpk : R.parked = r.parked) (hfresh : r.fresh ≤ R.fresh)
    (hkeep : ∀ j, Idx r j → Keep (R.heap j) (r.heap j))
    (hcur_lt : ∀ id, R.cur = some id → id < R.fresh)
    (hcur_good : ∀ id, R.cur = some id → (R.heap id).hasData = true → Good f (R.heap id).base (R.heap id))
    (hloan : ∀ id, R.cur = some id → Idx r id → R.lent = some id ∧ (R.heap id).used = true) : FInv f R := by
  have hcs : caches R = caches r := by unfold caches; rw [hca, hpk]
  refine ⟨hcur_lt, hcur_good, ?_, ?_, ?_, ?_⟩
  · rw [hcs]; exact inv.wf
  · rw [hcs]
    intro c hc e he
    obtain ⟨a1, a2⟩ := inv.ents c hc e he
    exact ⟨by omega, (hkeep e.id ⟨c, hc, e, he, rfl⟩).good a2⟩
  · intro id hid hidx
    exact hloan id hid ((idx_congr hca hpk id).1 hidx)
  · rw [hcs]
    refine inv.excl.imp_of_mem ?_
    intro p q hp _ s e he e' he' hh
    exact (hkeep e.id ⟨p, hp, e, he, rfl⟩).2.2.2.2.2 (s e he e' he' hh)

theorem FInv.congr {f : File} {r : Reader LCache} (i : FInv f r)
    (R : Reader LCache) (h1 : R.heap = r.heap) (h2 : R.fresh = r.fresh) (h3 : R.cur = r.cur)
    (h4 : R.cache = r.cache) (h5 : R.parked = r.parked := by rfl) (h6 : R.lent = r.lent := by rfl) : FInv f R := by
  refine i.frame h4 h5 (by omega) (fun j _ => Keep.of_eq (by rw [h1])) ?_ ?_ ?_
  · intro id hid; rw [h2]; exact i.cur_lt id (by rw [← h3]; exact hid)
  · intro id hid hd; rw [h1] at hd ⊢; exact i.cur_good id (by rw [← h3]; exact hid) hd
  · intro id hid hidx; rw [h1, h6]; exact i.loan id (by rw [← h3]; exact hid) hidx

theorem FInv.setErr {f : File} {r : Reader LCache} (i : FInv f r) (e : Err) : FInv f { r with err := e } :=
  i.congr _ rfl rfl rfl rfl

theorem FInv.setFields {f : File} {r : Reader LCache} (i : FInv f r)
    (e : Err) (cb ce : Int × Nat) (bl : Bool) :
    FInv f { r with err := e, chunkBegin := cb, chunkEnd := ce, blocked := bl } :=
  i.congr _ rfl rfl rfl rfl

/-- reading from (or seeking inside) the current block keeps the invariant -/
theorem FInv.advance {f : File} {r : Reader LCache} (i : FInv f r) {id : Nat}
    (hc : r.cur = some id) (p q : Nat) (u : Bool) (hu : (r.heap id).used = true → u = true) :
    FInv f (r.setB id { r.heap id with pos := p, offBlock := q, used := u }) := by
  have hk : ∀ j, Keep ((r.setB id { r.heap id with pos := p, offBlock := q, used := u }).heap j) (r.heap j) := by
    intro j
    by_cases hj : j = id
    · subst hj; rw [setB_same]; exact ⟨rfl, rfl, rfl, rfl, rfl, hu⟩
    · rw [setB_other _ _ hj]; exact Keep.refl _
  refine i.frame rfl rfl (Nat.le_refl _) (fun j _ => hk j) i.cur_lt ?_ ?_
  · intro j hj hd
    have : j = id := by simp only [Reader.setB] at hj; rw [hc] at hj; exact (Option.some.inj hj).symm
    subst this
    rw [setB_same] at hd ⊢
    exact i.cur_good j hc hd
  · intro j hj hidx
    have hj' : r.cur = some j := hj
    obtain ⟨a1, a2⟩ := i.loan j hj' hidx
    exact ⟨a1, (hk j).2.2.2.2.2 a2⟩

/-! ### FIFO's Put and Get -/

theorem put_sum {h : Heap} {c : LCache} (w : c.WF) (id : Nat) :
    (c.put h id).1.WF ∧ (c.put h id).2 ≠ .panic ∧
    (∀ e ∈ (c.put h id).1.items, e ∈ c.items ∨ e = ⟨(h id).base, id⟩) ∧
    ((c.put h id).2 = .refused → (c.put h id).1 = c) := by
  refine ⟨LCache.put_wf w id, LCache.put_no_panic w id, ?_, ?_⟩
  · unfold LCache.put
    simp only
    split
    · intro e he; exact Or.inl he
    · split
      · split
        · intro e he; exact Or.inl he
        · cases hl : c.items.getLast? with
          | none => intro e he; exact Or.inl he
          | some d =>
            intro e he
            simp only [List.mem_cons] at he
            rcases he with h1 | h1
            · exact Or.inr h1
            · exact Or.inl ((List.dropLast_sublist _).subset h1)
      · split
        · intro e he
          simp only [List.mem_cons] at he
          rcases he with h1 | h1
          · exact Or.inr h1
          · exact Or.inl h1
        · intro e he
          simp only [List.mem_append, List.mem_singleton] at he
          exact he
  · unfold LCache.put
    simp only
    split
    · intro _; rfl
    · split
      · split
        · intro _; rfl
        · cases hl : c.items.getLast? with
          | none => intro h0; cases h0
          | some d => intro h0; cases h0
      · split <;> (intro h0; cases h0)

theorem fifoOps_put (h : Heap) (c : LCache) (id : Nat) (hint : Option Nat) :
    fifoOps.put h c id hint = some (c.put h id) := rfl

/-- `cachePut` with a FIFO never fails; it leaves the reader alone and changes the table by at most one `Put`
of a block that has data -/
theorem cachePut_fifo (r : Reader LCache) {c : LCache} (w : c.WF) (b : Option Nat) :
    ∃ r2 c2 back ret, cachePut fifoOps r c b = .ok (r2, c2, back, ret) ∧ r2.lent = r.lent ∧ c2.WF ∧
      (∀ e ∈ c2.items, e ∈ c.items ∨
        ∃ id, b = some id ∧ (r.heap id).hasData = true ∧ e = ⟨(r.heap id).base, id⟩) ∧
      (ret = false → c2 = c ∧ back = b) := by
  have p1 := fun id => (put_sum (h := r.hview) w id).1
  have p2 := fun id => (put_sum (h := r.hview) w id).2.1
  have p3 := fun id => (put_sum (h := r.hview) w id).2.2.1
  have p4 := fun id => (put_sum (h := r.hview) w id).2.2.2
  cases b with
  | none => exact ⟨r, c, none, false, rfl, rfl, w, fun e he => Or.inl he, fun _ => ⟨rfl, rfl⟩⟩
  | some id =>
    unfold cachePut
    simp only
    by_cases hd : (r.heap id).hasData = true
    · have hd' : (!(r.heap id).hasData) = false := by rw [hd]; rfl
      simp only [hd', Bool.false_eq_true, if_false]
      simp only [fifoOps_put]
      have hmem : ∀ e ∈ (c.put r.hview id).1.items, e ∈ c.items ∨
          ∃ id', some id = some id' ∧ (r.heap id').hasData = true ∧ e = ⟨(r.heap id').base, id'⟩ := by
        intro e he
        rcases p3 id e he with h1 | h1
        · exact Or.inl h1
        · exact Or.inr ⟨id, rfl, hd, h1⟩
      cases hres : c.put r.hview id with
      | mk c' res =>
        rw [hres] at hmem
        have hw' : c'.WF := by have := p1 id; rw [hres] at this; exact this
        cases res with
        | refused =>
          have : c' = c := by have := p4 id; rw [hres] at this; exact this rfl
          exact ⟨_, _, _, _, rfl, rfl, hw', hmem, fun _ => ⟨this, rfl⟩⟩
        | panic => exact absurd (by rw [hres]) (p2 id)
        | kept ev =>
          cases ev with
          | none => exact ⟨_, _, _, _, rfl, rfl, hw', hmem, fun h0 => Bool.noConfusion h0⟩
          | some v => exact ⟨_, _, _, _, rfl, rfl, hw', hmem, fun h0 => Bool.noConfusion h0⟩
    · have hd' : (!(r.heap id).hasData) = true := by simpa using hd
      simp only [hd', if_true]
      exact ⟨r, c, some id, false, rfl, rfl, w, fun e he => Or.inl he, fun _ => ⟨rfl, rfl⟩⟩

theorem get_fifo_miss {h : Heap} {c : LCache} {k : Int} (hl : lookup c.items k = none) :
    LCache.get .fifo h c k = (c, none) := by
  unfold LCache.get; rw [hl]

/-- `FIFO.Get` of a held key: the block comes back; it leaves the table only if it has not been read from -/
theorem get_fifo_hit {h : Heap} {c : LCache} {k : Int} {e : Entry} (w : c.WF) (hl : lookup c.items k = some e) :
    ∃ c1, LCache.get .fifo h c k = (c1, some e.id) ∧ c1.WF ∧ (∀ x ∈ c1.items, x ∈ c.items) ∧
      (((h e.id).used = true ∧ c1 = c) ∨ ((h e.id).used = false ∧ ∀ x ∈ c1.items, x.key ≠ k)) := by
  have hw := LCache.get_wf (kind := .fifo) (h := h) w k
  unfold LCache.get at hw ⊢
  rw [hl] at hw ⊢
  simp only [true_and] at hw ⊢
  by_cases hu : (h e.id).used = true
  · have hcond : ((h e.id).used = true) := hu
    rw [if_pos hcond] at hw ⊢
    exact ⟨c, rfl, w, fun x hx => hx, Or.inl ⟨hu, rfl⟩⟩
  · have hcond : ¬ ((h e.id).used = true) := hu
    rw [if_neg hcond] at hw ⊢
    refine ⟨_, rfl, hw, fun x hx => (mem_removeKey.1 hx).1, Or.inr ⟨by simpa using hu, ?_⟩⟩
    intro x hx
    exact (mem_removeKey.1 hx).2

theorem peek_fifo {h : Heap} {c : LCache} {k : Int} :
    (LCache.peek h c k).1 = (lookup c.items k).isSome := by
  unfold LCache.peek
  cases lookup c.items k <;> rfl

/-! ### cacheSwap -/

theorem caches_some {r : Reader LCache} {c : LCache} (hc : r.cache = some c) : caches r = c :: r.parked := by
  unfold caches; rw [hc]; rfl

theorem caches_none {r : Reader LCache} (hc : r.cache = none) : caches r = r.parked := by
  unfold caches; rw [hc]; rfl

/-- the attached table changes by (at most) a `Get` and a `Put` of the current block -/
theorem FInv.swap {f : File} {r R : Reader LCache} {c c2 : LCache} (inv : FInv f r) (hc : r.cache = some c)
    (hRc : R.cache = some c2) (hRp : R.parked = r.parked) (hfresh : R.fresh = r.fresh)
    (hkeep : ∀ j, Keep (R.heap j) (r.heap j)) (hw2 : c2.WF)
    (hmem : ∀ x ∈ c2.items, x ∈ c.items ∨
      ∃ y, r.cur = some y ∧ (r.heap y).hasData = true ∧ x = ⟨(r.heap y).base, y⟩)
    (hcur_lt : ∀ id, R.cur = some id → id < r.fresh)
    (hcur_good : ∀ id, R.cur = some id → (R.heap id).hasData = true → Good f (R.heap id).base (R.heap id))
    (hloan : ∀ id, R.cur = some id → Idx R id → R.lent = some id ∧ (R.heap id).used = true) : FInv f R := by
  have hcs : caches r = c :: r.parked := caches_some hc
  have hcsR : caches R = c2 :: r.parked := by rw [caches_some hRc, hRp]
  have hcm : c ∈ caches r := by rw [hcs]; simp
  have hpm : ∀ p ∈ r.parked, p ∈ caches r := by intro p hp; rw [hcs]; simp [hp]
  refine ⟨?_, hcur_good, ?_, ?_, hloan, ?_⟩
  · intro id hid; rw [hfresh]; exact hcur_lt id hid
  · rw [hcsR]
    intro p hp
    rcases List.mem_cons.1 hp with h | h
    · rw [h]; exact hw2
    · exact inv.wf p (hpm p h)
  · rw [hcsR]
    intro p hp e he
    rw [hfresh]
    rcases List.mem_cons.1 hp with h | h
    · subst h
      rcases hmem e he with h1 | ⟨y, hy, hd, h1⟩
      · obtain ⟨a1, a2⟩ := inv.ents c hcm e h1
        exact ⟨a1, (hkeep _).good a2⟩
      · subst h1
        exact ⟨inv.cur_lt y hy, (hkeep _).good (inv.cur_good y hy hd)⟩
    · obtain ⟨a1, a2⟩ := inv.ents p (hpm p h) e he
      exact ⟨a1, (hkeep _).good a2⟩
  · rw [hcsR]
    have hex := inv.excl
    rw [hcs] at hex
    obtain ⟨h1, h2⟩ := List.pairwise_cons.1 hex
    refine List.pairwise_cons.2 ⟨?_, h2.imp ?_⟩
    · intro p hp e he e' he' hh
      apply (hkeep _).2.2.2.2.2
      rcases hmem e he with h3 | ⟨y, hy, hd, h3⟩
      · exact h1 p hp e h3 e' he' hh
      · subst h3
        exact (inv.loan y hy ⟨p, hpm p hp, e', he', hh.symm⟩).2
    · intro p q s e he e' he' hh
      exact (hkeep _).2.2.2.2.2 (s e he e' he' hh)

/-- `cacheSwap(k)` with a FIFO (or no cache) when the current block is not a data-holding block of base `k`:
it never fails, keeps the invariant, a hit installs the member at `k`, and after a miss the block kept for the
next decompression is referenced by no table -/
theorem cacheSwap_spec {cfg : Cfg} (hlg : cfg.lentGuard = true) {f : File}
    {r : Reader LCache} {k : Int} (inv : FInv f r)
    (hk : ∀ id, r.cur = some id → (r.heap id).hasData = true → (r.heap id).base ≠ k) :
    ∃ r1 hit, cacheSwap cfg fifoOps r k = .ok (r1, hit) ∧
    r1.err = r.err ∧ r1.chunkBegin = r.chunkBegin ∧ r1.chunkEnd = r.chunkEnd ∧ r1.blocked = r.blocked ∧
    FInv f r1 ∧
    (hit = true → ∃ id, r1.cur = some id ∧ Good f k (r1.heap id) ∧ (r1.heap id).pos = 0 ∧
        (r1.heap id).offBlock = 0) ∧
    (hit = false → (∀ id, r1.cur = some id → ¬ Idx r1 id) ∧
        ∀ c1, r1.cache = some c1 → ∀ e ∈ c1.items, e.key ≠ k) := by
  unfold cacheSwap
  cases hc : r.cache with
  | none =>
    simp only
    by_cases hcond : (cfg.lentGuard && r.cur.isSome && r.lent == r.cur) = true
    · rw [if_pos hcond]
      refine ⟨_, _, rfl, rfl, rfl, rfl, rfl, ?_, fun h0 => Bool.noConfusion h0, fun _ => ⟨?_, ?_⟩⟩
      · exact inv.frame hc.symm rfl (Nat.le_refl _) (fun j _ => Keep.refl _) (fun id hid => by cases hid)
          (fun id hid => by cases hid) (fun id hid => by cases hid)
      · intro id hid; cases hid
      · intro c1 h1; simp only at h1; cases h1
    · rw [if_neg hcond]
      refine ⟨_, _, rfl, rfl, rfl, rfl, rfl, inv, fun h0 => Bool.noConfusion h0, fun _ => ⟨?_, ?_⟩⟩
      · intro id hid hidx
        apply hcond
        obtain ⟨a1, _⟩ := inv.loan id hid hidx
        rw [hlg, hid, a1]
        simp
      · intro c1 h1; rw [hc] at h1; cases h1
  | some c =>
    simp only
    have hcs : caches r = c :: r.parked := caches_some hc
    have hcm : c ∈ caches r := by rw [hcs]; simp
    have hpm : ∀ p ∈ r.parked, p ∈ caches r := by intro p hp; rw [hcs]; simp [hp]
    have hwf := inv.wf c hcm
    have hgetdef : fifoOps.get r.hview c k = LCache.get .fifo r.hview c k := rfl
    rw [hgetdef]
    cases hl : lookup c.items k with
    | some e =>
      obtain ⟨hem, hek⟩ := lookup_some hl
      obtain ⟨c1, hg, hw1, hsub, hcase⟩ := get_fifo_hit (h := r.hview) hwf hl
      rw [hg]
      simp only
      obtain ⟨hX_lt, hX_good⟩ := inv.ents c hcm e hem
      rw [hek] at hX_good
      generalize hbl : (cfg.lentGuard && (fifoOps.peek r.hview c1 k).1) = bl
      -- the reader after `blk.seek(0)` and `bg.lent = blk`
      have hkeep0 : ∀ j, Keep ((markLent (r.setB e.id { r.heap e.id with pos := 0, offBlock := 0 }) bl e.id).heap j)
          (r.heap j) := by
        intro j
        rw [markLent_heap]
        by_cases hj : j = e.id
        · subst hj; rw [setB_same]; exact ⟨rfl, rfl, rfl, rfl, rfl, fun h => h⟩
        · rw [setB_other _ _ hj]; exact Keep.refl _
      obtain ⟨r2, c2, back, ret, hp, hlent2, hw2, hmem2, _⟩ :=
        cachePut_fifo (markLent (r.setB e.id { r.heap e.id with pos := 0, offBlock := 0 }) bl e.id) hw1
          (markLent (r.setB e.id { r.heap e.id with pos := 0, offBlock := 0 }) bl e.id).cur
      rw [hp]
      simp only
      obtain ⟨fh, ff, fc, fe, fcb, fce, fbl, fca, fpk⟩ := cachePut_fields hp
      simp only [markLent_heap, markLent_fresh, markLent_cur, markLent_err, markLent_cb, markLent_ce,
        markLent_blocked, markLent_cache, markLent_parked] at ff fc fe fcb fce fbl fca fpk
      have hkeep : ∀ j, Keep (r2.heap j) (r.heap j) := by intro j; rw [fh]; exact hkeep0 j
      have hheap_id : r2.heap e.id = { r.heap e.id with pos := 0, offBlock := 0 } := by
        rw [fh, markLent_heap]; exact setB_same _ _ _
      have hgood_id : Good f k (r2.heap e.id) := (hkeep e.id).good hX_good
      -- entries of the new table
      have hmem : ∀ x ∈ c2.items, x ∈ c.items ∨
          ∃ y, r.cur = some y ∧ (r.heap y).hasData = true ∧ x = ⟨(r.heap y).base, y⟩ := by
        intro x hx
        rcases hmem2 x hx with h1 | ⟨y, hy, hd, h1⟩
        · exact Or.inl (hsub x h1)
        · refine Or.inr ⟨y, by simpa [Reader.setB] using hy, ?_, ?_⟩
          · rw [← (hkeep0 y).2.1]; exact hd
          · rw [h1, (hkeep0 y).1]
      have hmem1 : ∀ x ∈ c2.items, x ∈ c1.items ∨
          ∃ y, r.cur = some y ∧ (r.heap y).hasData = true ∧ x = ⟨(r.heap y).base, y⟩ := by
        intro x hx
        rcases hmem2 x hx with h1 | ⟨y, hy, hd, h1⟩
        · exact Or.inl h1
        · refine Or.inr ⟨y, by simpa [Reader.setB] using hy, ?_, ?_⟩
          · rw [← (hkeep0 y).2.1]; exact hd
          · rw [h1, (hkeep0 y).1]
      refine ⟨_, _, rfl, fe, fcb, fce, fbl, ?_, fun _ => ⟨e.id, rfl, ?_, ?_, ?_⟩, fun h0 => Bool.noConfusion h0⟩
      · refine inv.swap (R := { r2 with cache := some c2, cur := some e.id }) hc rfl fpk ff hkeep hw2 hmem ?_ ?_ ?_
        · intro id hid; simp only [Option.some.injEq] at hid; subst hid; exact hX_lt
        · intro id hid _
          simp only [Option.some.injEq] at hid; subst hid
          simp only
          rw [hgood_id.1]; exact hgood_id
        · intro id hid hidx
          simp only [Option.some.injEq] at hid; subst hid
          simp only
          rcases hcase with ⟨hu, hc1⟩ | ⟨hu, hnk⟩
          · -- the block has been read from: it stays in the table, and is on loan
            have hu' : (r.heap e.id).used = true := hu
            have hpk : (fifoOps.peek r.hview c1 k).1 = true := by
              rw [hc1]
              show (LCache.peek r.hview c k).1 = true
              rw [peek_fifo, hl]; rfl
            rw [hpk, hlg] at hbl
            subst hbl
            refine ⟨?_, (hkeep e.id).2.2.2.2.2 hu'⟩
            rw [hlent2]; rfl
          · -- the block has not been read from: no table references it any more
            exfalso
            have hu' : (r.heap e.id).used = false := hu
            obtain ⟨p, hp', x, hx, hxid⟩ := hidx
            have hcsR : caches ({ r2 with cache := some c2, cur := some e.id } : Reader LCache) = c2 :: r.parked := by
              rw [caches_some (c := c2) rfl]; simp only; rw [fpk]; rfl
            rw [hcsR] at hp'
            rcases List.mem_cons.1 hp' with h | h
            · subst h
              rcases hmem1 x hx with h1 | ⟨y, hy, hd, h1⟩
              · have := (inv.ents c hcm x (hsub x h1)).2
                rw [hxid] at this
                exact hnk x h1 (by rw [← this.1, hX_good.1])
              · subst h1
                simp only at hxid
                exact hk y hy hd (by rw [hxid]; exact hX_good.1)
            · have hex := inv.excl
              rw [hcs] at hex
              have := (List.pairwise_cons.1 hex).1 p h e hem x hx hxid.symm
              rw [hu'] at this; cases this
      · exact hgood_id
      · simp only; rw [hheap_id]
      · simp only; rw [hheap_id]
    | none =>
      rw [get_fifo_miss hl]
      simp only
      have hnokey := lookup_none hl
      obtain ⟨r2, c2, back, ret, hp, hlent2, hw2, hmem2, hret⟩ := cachePut_fifo r hwf r.cur
      rw [hp]
      simp only
      obtain ⟨fh, ff, fc, fe, fcb, fce, fbl, fca, fpk⟩ := cachePut_fields hp
      have hkeep : ∀ j, Keep (r2.heap j) (r.heap j) := by intro j; rw [fh]; exact Keep.refl _
      have hmem : ∀ x ∈ c2.items, x ∈ c.items ∨
          ∃ y, r.cur = some y ∧ (r.heap y).hasData = true ∧ x = ⟨(r.heap y).base, y⟩ := hmem2
      have hcurR : recycle cfg fifoOps r2 c2 ret back = none ∨
          (ret = false ∧ recycle cfg fifoOps r2 c2 ret back = r.cur) := by
        rcases recycle_cases cfg fifoOps r2 c2 ret back with h0 | ⟨h0, h1⟩
        · exact Or.inl h0
        · exact Or.inr ⟨h0, by rw [h1, (hret h0).2]⟩
      have hinv : FInv f { r2 with cache := some c2, cur := recycle cfg fifoOps r2 c2 ret back } := by
        refine inv.swap (R := { r2 with cache := some c2, cur := recycle cfg fifoOps r2 c2 ret back })
          hc rfl fpk ff hkeep hw2 hmem ?_ ?_ ?_
        · intro id hid
          simp only at hid
          rcases hcurR with h0 | ⟨_, h0⟩
          · rw [h0] at hid; cases hid
          · rw [h0] at hid; exact inv.cur_lt id hid
        · intro id hid hd
          simp only at hid hd ⊢
          rcases hcurR with h0 | ⟨_, h0⟩
          · rw [h0] at hid; cases hid
          · rw [h0] at hid; rw [fh] at hd ⊢; exact inv.cur_good id hid hd
        · intro id hid hidx
          simp only at hid ⊢
          rcases hcurR with h0 | ⟨hr0, h0⟩
          · rw [h0] at hid; cases hid
          · rw [h0] at hid
            have hc2 : c2 = c := (hret hr0).1
            have hidx' : Idx r id := by
              obtain ⟨p, hp', x, hx, hxid⟩ := hidx
              refine ⟨p, ?_, x, hx, hxid⟩
              rw [hcs]
              rw [caches_some (r := { r2 with cache := some c2, cur := recycle cfg fifoOps r2 c2 ret back })
                (c := c2) rfl] at hp'
              simp only at hp'
              rw [fpk, hc2] at hp'
              exact hp'
            rw [hlent2, fh]
            exact inv.loan id hid hidx'
      refine ⟨_, _, rfl, fe, fcb, fce, fbl, hinv, fun h0 => Bool.noConfusion h0, fun _ => ⟨?_, ?_⟩⟩
      · intro id hid hidx
        simp only at hid
        have hl2 := (hinv.loan id hid hidx).1
        simp only at hl2
        -- `recycle` does not hand back the block on loan
        unfold recycle at hid
        split at hid
        · cases hid
        · split at hid
          · cases hid
          · rename_i id'
            split at hid
            · cases hid
            · rename_i hnot
              simp only [Option.some.injEq] at hid
              subst hid
              apply hnot
              rw [hlg, hl2]
              simp
      · intro c1 h1 x hx
        simp only [Option.some.injEq] at h1
        subst h1
        rcases hmem x hx with h1 | ⟨y, hy, hd, h1⟩
        · exact hnokey x h1
        · subst h1; exact hk y hy hd

/-! ### nextBlockAt -/

theorem lazyBlock_spec {f : File} {r : Reader LCache} (inv : FInv f r)
    (hn : ∀ id, r.cur = some id → ¬ Idx r id) :
    ∃ r' id, lazyBlock r = (r', id) ∧ r'.cur = some id ∧ id < r'.fresh ∧ r.fresh ≤ r'.fresh ∧ ¬ Idx r id ∧
      (∀ j, j ≠ id → r'.heap j = r.heap j) ∧
      r'.cache = r.cache ∧ r'.err = r.err ∧ r'.chunkBegin = r.chunkBegin ∧ r'.chunkEnd = r.chunkEnd ∧
      r'.blocked = r.blocked ∧ r'.lent = r.lent ∧ r'.parked = r.parked := by
  unfold lazyBlock
  cases hcur : r.cur with
  | some id =>
    exact ⟨r, id, rfl, hcur, inv.cur_lt id hcur, Nat.le_refl _, hn id hcur, fun _ _ => rfl, rfl, rfl, rfl, rfl,
      rfl, rfl, rfl⟩
  | none =>
    refine ⟨_, r.fresh, rfl, rfl, by simp [Reader.setB], by simp [Reader.setB], ?_, ?_, rfl, rfl, rfl, rfl, rfl,
      rfl, rfl⟩
    · rintro ⟨c, hc, e, he, hid⟩
      have := (inv.ents c hc e he).1
      omega
    · intro j hj; simp [Reader.setB, hj]

/-- the decompression step proper: the block it writes into is referenced by no table, so every table entry still
maps to the member at its base; the current block becomes `Loaded` -/
theorem loadAt_spec {cfg : Cfg} (hcfg : cfg.noStale) {f : File} {r : Reader LCache} (off : Int)
    (inv : FInv f r) (hn : ∀ id, r.cur = some id → ¬ Idx r id) :
    ∃ id, (loadAt cfg f r off).1.cur = some id ∧
      Loaded f off ((loadAt cfg f r off).1.heap id) (loadAt cfg f r off).2 ∧
      FInv f (loadAt cfg f r off).1 ∧ (loadAt cfg f r off).1.err = r.err ∧
      (loadAt cfg f r off).1.chunkBegin = r.chunkBegin ∧ (loadAt cfg f r off).1.chunkEnd = r.chunkEnd ∧
      (loadAt cfg f r off).1.blocked = r.blocked ∧ (loadAt cfg f r off).1.cache = r.cache ∧
      (loadAt cfg f r off).1.lent = r.lent := by
  obtain ⟨r', id, hl, hcur, hlt, hfresh, hnot, hheap, hca, he, hcb, hce, hbl, hle, hpk⟩ := lazyBlock_spec inv hn
  obtain ⟨rb1, rb2, rb3⟩ := rebase_facts cfg (r'.heap id) off
  obtain ⟨fb2, fb3, fb4⟩ := failedBlk_facts cfg hcfg (r'.heap id) off
  have hinv : ∀ (b : RBlk), ((b.hasData = true) → Good f b.base b) → FInv f (r'.setB id b) := by
    intro b hb
    refine inv.frame hca hpk hfresh ?_ ?_ ?_ ?_
    · intro j hj
      have hne : j ≠ id := fun h => hnot (h ▸ hj)
      exact Keep.of_eq (by rw [setB_other _ _ hne, hheap _ hne])
    · intro j hj
      have : j = id := by simp only [Reader.setB] at hj; rw [hcur] at hj; exact (Option.some.inj hj).symm
      subst this; exact hlt
    · intro j hj hd
      have : j = id := by simp only [Reader.setB] at hj; rw [hcur] at hj; exact (Option.some.inj hj).symm
      subst this
      rw [setB_same] at hd ⊢
      exact hb hd
    · intro j hj hidx
      have : j = id := by simp only [Reader.setB] at hj; rw [hcur] at hj; exact (Option.some.inj hj).symm
      subst this
      exact absurd hidx hnot
  unfold loadAt
  rw [hl]
  simp only
  cases hm : f.find off with
  | some m =>
    simp only
    refine ⟨id, by simp [Reader.setB, hcur], ?_, ?_, by simp [Reader.setB, he], by simp [Reader.setB, hcb],
      by simp [Reader.setB, hce], by simp [Reader.setB, hbl], by simp [Reader.setB, hca], by simp [Reader.setB, hle]⟩
    · rw [setB_same]
      refine ⟨rb2, rb3, ?_⟩
      rw [hm]
      exact ⟨rfl, ⟨rb1, rfl, rb2, m, hm, rfl, rfl⟩, rfl⟩
    · apply hinv
      intro _
      exact ⟨rfl, rfl, by simp only [rb1, rb2], m, by simp only [rb1]; exact hm, rfl, rfl⟩
  | none =>
    simp only
    refine ⟨id, by simp [Reader.setB, hcur], ?_, ?_, by simp [Reader.setB, he], by simp [Reader.setB, hcb],
      by simp [Reader.setB, hce], by simp [Reader.setB, hbl], by simp [Reader.setB, hca], by simp [Reader.setB, hle]⟩
    · rw [setB_same]
      refine ⟨fb2, fb3, ?_⟩
      rw [hm]
      exact ⟨rfl, fb4⟩
    · apply hinv
      intro hd; rw [fb4] at hd; cases hd

theorem peekSkip_miss {h : Heap} {c : LCache} {off : Int} (hk : ∀ e ∈ c.items, e.key ≠ off) (fuel : Nat) :
    peekSkip fifoOps h c (fuel + 1) off = .ok off := by
  have hl : lookup c.items off = none := by
    unfold lookup
    exact List.find?_eq_none.2 (fun e he => by simp [hk e he])
  have hp : fifoOps.peek h c off = (false, -1) := by
    show LCache.peek h c off = _
    unfold LCache.peek; rw [hl]
  unfold peekSkip
  rw [hp]
  simp

theorem skipCached_miss {r : Reader LCache} {off : Int}
    (hk : ∀ c, r.cache = some c → ∀ e ∈ c.items, e.key ≠ off) : skipCached fifoOps r off = .ok off := by
  unfold skipCached
  cases hc : r.cache with
  | none => rfl
  | some c => exact peekSkip_miss (hk c hc) _

/-! ### fetch -/

/-- `fetch(k)` (cacheSwap, else nextBlockAt) with a FIFO when the current block is not a data-holding block of base
`k`: it returns normally and the current block is `Loaded f k` -/
theorem fetch_spec {cfg : Cfg} (hcfg : cfg.noStale) (hlg : cfg.lentGuard = true) {f : File}
    {r : Reader LCache} {k : Int} (inv : FInv f r)
    (hk : ∀ id, r.cur = some id → (r.heap id).hasData = true → (r.heap id).base ≠ k) :
    ∃ r1 e, fetch cfg fifoOps f r k = .ok (r1, e) ∧
      ∃ id, r1.cur = some id ∧ Loaded f k (r1.heap id) e ∧ FInv f r1 ∧ r1.err = r.err ∧
        r1.chunkBegin = r.chunkBegin ∧ r1.chunkEnd = r.chunkEnd ∧ r1.blocked = r.blocked := by
  obtain ⟨r1, hit, hs, fe, fcb, fce, fbl, inv1, hhit, hmiss⟩ := cacheSwap_spec hlg inv hk
  unfold fetch
  rw [hs]
  cases hit with
  | true =>
    simp only
    obtain ⟨id, hcur, hgood, hpos, hob⟩ := hhit rfl
    refine ⟨_, _, rfl, id, hcur, ?_, inv1, fe, fcb, fce, fbl⟩
    obtain ⟨g1, g2, g3, m, hm, gd, gh⟩ := hgood
    refine ⟨g3, hob, ?_⟩
    rw [hm]
    exact ⟨rfl, ⟨g1, g2, g3, m, hm, gd, gh⟩, hpos⟩
  | false =>
    simp only
    obtain ⟨hn, hnokey⟩ := hmiss rfl
    unfold nextBlockAt
    rw [skipCached_miss hnokey]
    simp only
    obtain ⟨id, hcur, hl, inv2, e2, cb2, ce2, bl2, _, _⟩ := loadAt_spec (cfg := cfg) hcfg k inv1 hn
    exact ⟨_, _, rfl, id, hcur, hl, inv2, e2.trans fe, cb2.trans fcb, ce2.trans fce, bl2.trans fbl⟩

/-! ### simulation -/

/-- results of the FIFO-cached and the uncached run correspond: both succeed with related values, or both stop with
the same fault (no `badHint` escape: FIFO's `Put` ignores the recorded victim) -/
def ExRel2 {α β : Type} (R : α → β → Prop) : Except Fault α → Except Fault β → Prop
  | .ok a, .ok b => R a b
  | .error e, .error e' => e = e'
  | _, _ => False

theorem ExRel2.cases {α β : Type} {R : α → β → Prop} {x : Except Fault α} {y : Except Fault β}
    (h : ExRel2 R x y) :
    False ∨ (∃ a b, x = .ok a ∧ y = .ok b ∧ R a b) ∨ (∃ e, x = .error e ∧ y = .error e) := by
  cases x with
  | error e =>
    cases y with
    | error e' => simp only [ExRel2] at h; subst h; exact Or.inr (Or.inr ⟨_, rfl, rfl⟩)
    | ok b => simp [ExRel2] at h
  | ok a =>
    cases y with
    | error e' => simp [ExRel2] at h
    | ok b => exact Or.inr (Or.inl ⟨a, b, rfl, rfl, h⟩)

theorem ExRel2.same {α β : Type} {R : α → β → Prop} (e : Fault) :
    ExRel2 R (.error e : Except Fault α) (.error e : Except Fault β) := by
  simp [ExRel2]

/-- the part of the simulation that does not mention `err` -/
structure W (f : File) (C U : Reader LCache) : Prop where
  invC : FInv f C
  invU : FInv f U
  /-- the uncached reader has no cache and no block on loan -/
  ucache : U.cache = none ∧ U.lent = none
  cb : C.chunkBegin = U.chunkBegin
  ce : C.chunkEnd = U.chunkEnd
  blocked : C.blocked = U.blocked
  cur : ∃ c u, C.cur = some c ∧ U.cur = some u ∧ BlkEq (C.heap c) (U.heap u)

/-- the relation after `fetch`: same error, related readers, and success exactly when the block has data -/
def FetchRel (f : File) (C U : Reader LCache) :
    Reader LCache × Err → Reader LCache × Err → Prop :=
  fun p q => p.2 = q.2 ∧ W f p.1 q.1 ∧ p.1.err = C.err ∧ q.1.err = U.err ∧
    (∀ c, p.1.cur = some c → ((p.1.heap c).hasData = true ↔ p.2 = .none))

theorem fetch_sim {cfg : Cfg} (hcfg : cfg.noStale) (hlg : cfg.lentGuard = true) {f : File}
    {C U : Reader LCache} {k : Int} (w : W f C U)
    (hkC : ∀ id, C.cur = some id → (C.heap id).hasData = true → (C.heap id).base ≠ k) :
    ExRel2 (FetchRel f C U) (fetch cfg fifoOps f C k) (fetch cfg fifoOps f U k) := by
  obtain ⟨C1, e, hfc, cid, ccur, cl, cinv, ce', ccb, cce, cbl⟩ := fetch_spec hcfg hlg w.invC hkC
  rw [fetch_uncached cfg fifoOps f k w.ucache.1 w.ucache.2, hfc]
  have hnU : ∀ id, U.cur = some id → ¬ Idx U id := by
    intro id hid hidx
    have := (w.invU.loan id hid hidx).1
    rw [w.ucache.2] at this; cases this
  obtain ⟨uid, ucur, ul, uinv, ue, ucb, uce, ubl, uca, ule⟩ := loadAt_spec (cfg := cfg) hcfg k w.invU hnU
  obtain ⟨hee, hbe⟩ := cl.blkEq ul
  refine ⟨hee, ⟨cinv, uinv, ⟨by rw [uca]; exact w.ucache.1, by rw [ule]; exact w.ucache.2⟩, by rw [ccb, ucb]; exact w.cb,
    by rw [cce, uce]; exact w.ce, by rw [cbl, ubl]; exact w.blocked, cid, uid, ccur, ucur, hbe⟩, ce', ue, ?_⟩
  intro c hc
  have : c = cid := by rw [ccur] at hc; exact (Option.some.inj hc).symm
  subst this
  obtain ⟨_, _, l3⟩ := cl
  cases hm : f.find k with
  | some m => rw [hm] at l3; simp only at l3; exact ⟨fun _ => l3.1, fun _ => l3.2.1.2.1⟩
  | none =>
    rw [hm] at l3
    simp only at l3
    constructor
    · intro hd; rw [l3.2] at hd; cases hd
    · intro he; rw [l3.1] at he; split at he <;> cases he

theorem nextBlock_sim {cfg : Cfg}
    (hcfg : cfg.noStale) (hlg : cfg.lentGuard = true) {f : File} (hf : FileOK f) {C U : Reader LCache} (w : W f C U)
    (live : ∀ c, C.cur = some c → (C.heap c).hasData = true) :
    ExRel2 (FetchRel f C U) (nextBlock cfg fifoOps f C) (nextBlock cfg fifoOps f U) := by
  obtain ⟨c, u, hc, hu, hb⟩ := w.cur
  unfold nextBlock
  rw [hc, hu]
  simp only
  rw [← hb.next (live c hc)]
  apply fetch_sim hcfg hlg w
  intro id hid hd
  have : id = c := by rw [hc] at hid; exact (Option.some.inj hid).symm
  subst this
  exact ((w.invC.cur_good id hc hd).next_ne hf).symm

theorem W.setErr {f : File} {C U : Reader LCache} (w : W f C U) (e e' : Err) :
    W f { C with err := e } { U with err := e' } :=
  ⟨w.invC.setErr e, w.invU.setErr e', w.ucache, w.cb, w.ce, w.blocked, w.cur⟩

/-- the simulation relation between the cached and the uncached reader -/
structure S (f : File) (C U : Reader LCache) : Prop where
  w : W f C U
  err : C.err = U.err
  /-- no pending error ⇒ the current block holds data -/
  live : C.err = .none → ∀ c, C.cur = some c → (C.heap c).hasData = true

theorem skipEmpty_sim {cfg : Cfg}
    (hcfg : cfg.noStale) (hlg : cfg.lentGuard = true) {f : File} (hf : FileOK f) (fuel : Nat) {C U : Reader LCache}
    (s : S f C U) (he : C.err = .none) :
    ExRel2 (S f) (skipEmpty cfg fifoOps f fuel C) (skipEmpty cfg fifoOps f fuel U) := by
  induction fuel generalizing C U with
  | zero => unfold skipEmpty; exact ExRel2.same _
  | succ fuel ih =>
    obtain ⟨c, u, hc, hu, hb⟩ := s.w.cur
    unfold skipEmpty
    rw [hc, hu]
    simp only
    rw [← hb.len]
    by_cases hl : (C.heap c).len = 0
    · simp only [hl, if_true]
      have hn := nextBlock_sim hcfg hlg hf s.w (s.live he)
      rcases hn.cases with h1 | ⟨a, b, h1, h2, hr⟩ | ⟨e, h1, h2⟩
      · exact h1.elim
      · rw [h1, h2]
        obtain ⟨C1, e1⟩ := a
        obtain ⟨U1, e2⟩ := b
        obtain ⟨hee, w1, _, _, hiff⟩ := hr
        simp only at hee hiff w1 ⊢
        subst hee
        by_cases hen : e1 = .none
        · simp only [hen, if_true]
          apply ih
          · exact ⟨w1.setErr _ _, rfl, fun _ c' hc' => (hiff c' hc').2 hen⟩
          · rfl
        · simp only [hen, if_false]
          exact ⟨w1.setErr _ _, rfl, fun h0 => absurd h0 hen⟩
      · rw [h1, h2]; exact ExRel2.same _
    · simp only [hl, if_false]
      exact s

/-- results of the copy loop correspond -/
def LoopRel (f : File) :
    Reader LCache × List Nat × Bool → Reader LCache × List Nat × Bool → Prop :=
  fun p q => p.2.1 = q.2.1 ∧ p.2.2 = q.2.2 ∧ S f p.1 q.1 ∧ (p.2.2 = true → p.1.err = .none)

theorem readLoop_sim {cfg : Cfg}
    (hcfg : cfg.noStale) (hlg : cfg.lentGuard = true) {f : File} (hf : FileOK f) (fuel : Nat) {C U : Reader LCache}
    (s : S f C U) (want : Nat) (acc : List Nat) :
    ExRel2 (LoopRel f) (readLoop cfg fifoOps f fuel C want acc) (readLoop cfg fifoOps f fuel U want acc) := by
  induction fuel generalizing C U want acc with
  | zero => unfold readLoop; exact ExRel2.same _
  | succ fuel ih =>
    obtain ⟨c, u, hc, hu, hb⟩ := s.w.cur
    unfold readLoop
    rw [← s.err]
    by_cases hstop : (want = 0 || C.err ≠ .none) = true
    · simp only [hstop, if_true]
      exact ⟨rfl, rfl, s, fun h0 => Bool.noConfusion h0⟩
    · simp only [hstop, if_false]
      have herr : C.err = .none := by
        simp only [Bool.or_eq_true, decide_eq_true_eq, not_or, ne_eq, Decidable.not_not] at hstop
        exact hstop.2
      rw [hc, hu]
      simp only
      have hd : (C.heap c).hasData = true := s.live herr c hc
      have hdu : (U.heap u).hasData = true := by rw [← hb.2.2.1]; exact hd
      have hnd : (!(C.heap c).hasData) = false := by rw [hd]; rfl
      have hndu : (!(U.heap u).hasData) = false := by rw [hdu]; rfl
      simp only [hnd, hndu, Bool.false_eq_true, if_false]
      rw [← hb.len]
      by_cases hl : (C.heap c).len = 0
      · simp only [hl, if_true]
        rw [← s.w.blocked]
        by_cases hbl : C.blocked = true
        · simp only [hbl, if_true]
          exact ⟨rfl, rfl, s, fun _ => herr⟩
        · simp only [hbl, if_false]
          have hn := nextBlock_sim hcfg hlg hf s.w (fun c' hc' => by
            have : c' = c := by rw [hc] at hc'; exact (Option.some.inj hc').symm
            subst this; exact hd)
          rcases hn.cases with h1 | ⟨a, b, h1, h2, hr⟩ | ⟨e, h1, h2⟩
          · exact h1.elim
          · rw [h1, h2]
            obtain ⟨C1, e1⟩ := a
            obtain ⟨U1, e2⟩ := b
            obtain ⟨hee, w1, _, _, hiff⟩ := hr
            simp only at hee hiff w1 ⊢
            subst hee
            apply ih
            exact ⟨w1.setErr _ _, rfl, fun h0 c' hc' => (hiff c' hc').2 h0⟩
          · rw [h1, h2]; exact ExRel2.same _
      · simp only [hl, if_false]
        obtain ⟨_, hdat, hpos, _⟩ := hb.2.2.2 hd
        have hbytes : List.take (min want (C.heap c).len) (List.drop (C.heap c).pos (C.heap c).data) =
            List.take (min want (C.heap c).len) (List.drop (U.heap u).pos (U.heap u).data) := by
          rw [hdat, hpos]
        rw [hbytes]
        apply ih
        refine ⟨⟨s.w.invC.advance hc _ _ true (fun _ => rfl), s.w.invU.advance hu _ _ true (fun _ => rfl), s.w.ucache, s.w.cb, s.w.ce, s.w.blocked,
          c, u, by simp [Reader.setB, hc], by simp [Reader.setB, hu], ?_⟩, s.err, ?_⟩
        · rw [setB_same, setB_same]
          exact hb.advance hd (min want (C.heap c).len) true true
        · intro _ c' hc'
          have : c' = c := by simp only [Reader.setB] at hc'; rw [hc] at hc'; exact (Option.some.inj hc').symm
          subst this
          rw [setB_same]; exact hd

theorem W.curOffset {f : File} {C U : Reader LCache} (w : W f C U) :
    curOffset C = curOffset U := by
  obtain ⟨c, u, hc, hu, hb⟩ := w.cur
  unfold CachedReader.curOffset
  rw [hc, hu]
  exact hb.txOffset

/-- updating the bookkeeping fields in the same way on both sides keeps the weak relation -/
theorem W.setFields {f : File} {C U : Reader LCache} (w : W f C U)
    (e e' : Err) (cb ce : Int × Nat) (bl : Bool) :
    W f { C with err := e, chunkBegin := cb, chunkEnd := ce, blocked := bl }
      { U with err := e', chunkBegin := cb, chunkEnd := ce, blocked := bl } :=
  ⟨w.invC.setFields _ _ _ _, w.invU.setFields _ _ _ _, w.ucache, rfl, rfl, rfl, w.cur⟩

/-- what the caller sees of `Read`/`ReadByte`: bytes and error class, and the readers stay related -/
def OutRel (f : File) :
    Reader LCache × List Nat × ErrClass → Reader LCache × List Nat × ErrClass → Prop :=
  fun p q => p.2.1 = q.2.1 ∧ p.2.2 = q.2.2 ∧ S f p.1 q.1

theorem read_sim {cfg : Cfg}
    (hcfg : cfg.noStale) (hlg : cfg.lentGuard = true) {f : File} (hf : FileOK f) {C U : Reader LCache} (s : S f C U) (n : Nat) :
    ExRel2 (OutRel f) (CachedReader.read cfg fifoOps f C n) (CachedReader.read cfg fifoOps f U n) := by
  unfold CachedReader.read
  by_cases he : C.err = .none
  · have heU : U.err = .none := by rw [← s.err]; exact he
    have hne : ¬ (C.err ≠ .none) := fun h => h he
    have hneU : ¬ (U.err ≠ .none) := fun h => h heU
    simp only [hne, hneU, if_false]
    have h1 := skipEmpty_sim hcfg hlg hf (fuelFor f 0) s he
    rcases h1.cases with e1 | ⟨C1, U1, e1, e2, s1⟩ | ⟨e, e1, e2⟩
    · exact e1.elim
    · rw [e1, e2]
      simp only
      by_cases he1 : C1.err = .none
      · have he1U : U1.err = .none := by rw [← s1.err]; exact he1
        have hne1 : ¬ (C1.err ≠ .none) := fun h => h he1
        have hne1U : ¬ (U1.err ≠ .none) := fun h => h he1U
        simp only [hne1, hne1U, if_false]
        rw [← s1.w.curOffset]
        have s2 : S f { C1 with chunkBegin := curOffset C1 } { U1 with chunkBegin := curOffset C1 } := by
          have := s1.w.setFields C1.err U1.err (curOffset C1) C1.chunkEnd C1.blocked
          refine ⟨⟨this.invC, ?_, s1.w.ucache, rfl, s1.w.ce, s1.w.blocked, s1.w.cur⟩, s1.err, s1.live⟩
          exact s1.w.invU.congr _ rfl rfl rfl rfl
        have h2 := readLoop_sim hcfg hlg hf (fuelFor f n) s2 n []
        rcases h2.cases with e3 | ⟨a, b, e3, e4, r3⟩ | ⟨e, e3, e4⟩
        · exact e3.elim
        · rw [e3, e4]
          obtain ⟨C3, bs, fl⟩ := a
          obtain ⟨U3, bs', fl'⟩ := b
          obtain ⟨hbs, hfl, s3, hflerr⟩ := r3
          simp only at hbs hfl s3 hflerr
          subst hbs hfl
          cases fl with
          | true =>
            simp only
            rw [← s3.w.curOffset]
            refine ⟨rfl, rfl, ⟨?_, rfl, ?_⟩⟩
            · have := s3.w.setFields .none .none C3.chunkBegin (curOffset C3) C3.blocked
              exact ⟨this.invC, s3.w.invU.congr _ rfl rfl rfl rfl, s3.w.ucache, s3.w.cb, rfl, s3.w.blocked, s3.w.cur⟩
            · intro _; exact s3.live (hflerr rfl)
          | false =>
            simp only
            rw [← s3.w.curOffset]
            refine ⟨rfl, by simp only; rw [s3.err], ⟨?_, s3.err, s3.live⟩⟩
            have := s3.w.setFields C3.err U3.err C3.chunkBegin (curOffset C3) C3.blocked
            exact ⟨this.invC, s3.w.invU.congr _ rfl rfl rfl rfl, s3.w.ucache, s3.w.cb, rfl, s3.w.blocked, s3.w.cur⟩
        · rw [e3, e4]; exact ExRel2.same _
      · have hne1 : C1.err ≠ .none := he1
        have hne1U : U1.err ≠ .none := by rw [← s1.err]; exact he1
        rw [if_pos hne1, if_pos hne1U]
        exact ⟨rfl, by simp only; rw [s1.err], s1⟩
    · rw [e1, e2]; exact ExRel2.same _
  · have hne : C.err ≠ .none := he
    have hneU : U.err ≠ .none := by rw [← s.err]; exact he
    rw [if_pos hne, if_pos hneU]
    exact ⟨rfl, by simp only; rw [s.err], s⟩

theorem byteFin_sim {f : File} {C U : Reader LCache} (s : S f C U)
    (he : C.err = .none) : ExRel2 (OutRel f) (byteFin C) (byteFin U) := by
  obtain ⟨c, u, hc, hu, hb⟩ := s.w.cur
  have hd := s.live he c hc
  obtain ⟨hbase, hdat, hpos, hsz⟩ := hb.2.2.2 hd
  unfold byteFin
  rw [hc, hu]
  simp only
  have hh : (List.drop (U.heap u).pos (U.heap u).data).head? =
      (List.drop (C.heap c).pos (C.heap c).data).head? := by rw [hdat, hpos]
  rw [hh]
  cases (List.drop (C.heap c).pos (C.heap c).data).head? with
  | none => exact ExRel2.same _
  | some x =>
    simp only
    refine ⟨rfl, rfl, ⟨⟨?_, ?_, s.w.ucache, ?_, ?_, s.w.blocked, c, u, ?_, ?_, ?_⟩, s.err, ?_⟩⟩
    · exact (s.w.invC.advance hc ((C.heap c).pos + 1) (((C.heap c).offBlock + 1) % 65536) true (fun _ => rfl)).congr _ rfl rfl rfl rfl
    · exact (s.w.invU.advance hu ((U.heap u).pos + 1) (((U.heap u).offBlock + 1) % 65536) true (fun _ => rfl)).congr _ rfl rfl rfl rfl
    · exact hb.txOffset
    · exact (hb.advance hd 1 true true).txOffset
    · simp [Reader.setB, hc]
    · simp [Reader.setB, hu]
    · simp only [setB_same]
      exact hb.advance hd 1 true true
    · intro _ c' hc'
      have : c' = c := by
        simp only [Reader.setB] at hc'; rw [hc] at hc'; exact (Option.some.inj hc').symm
      subst this
      simp only [setB_same]; exact hd

theorem readByte_sim {cfg : Cfg}
    (hcfg : cfg.noStale) (hlg : cfg.lentGuard = true) {f : File} (hf : FileOK f) {C U : Reader LCache} (s : S f C U) :
    ExRel2 (OutRel f) (readByte cfg fifoOps f C) (readByte cfg fifoOps f U) := by
  unfold readByte
  by_cases he : C.err = .none
  · have heU : U.err = .none := by rw [← s.err]; exact he
    have hne : ¬ (C.err ≠ .none) := fun h => h he
    have hneU : ¬ (U.err ≠ .none) := fun h => h heU
    rw [if_neg hne, if_neg hneU]
    have h1 := skipEmpty_sim hcfg hlg hf (fuelFor f 0) s he
    rcases h1.cases with e1 | ⟨C1, U1, e1, e2, s1⟩ | ⟨e, e1, e2⟩
    · exact e1.elim
    · rw [e1, e2]
      simp only
      by_cases he1 : C1.err = .none
      · have he1U : U1.err = .none := by rw [← s1.err]; exact he1
        have hne1 : ¬ (C1.err ≠ .none) := fun h => h he1
        have hne1U : ¬ (U1.err ≠ .none) := fun h => h he1U
        rw [if_neg hne1, if_neg hne1U]
        exact byteFin_sim s1 he1
      · have hne1 : C1.err ≠ .none := he1
        have hne1U : U1.err ≠ .none := by rw [← s1.err]; exact he1
        rw [if_pos hne1, if_pos hne1U]
        exact ⟨rfl, by simp only; rw [s1.err], s1⟩
    · rw [e1, e2]; exact ExRel2.same _
  · have hne : C.err ≠ .none := he
    have hneU : U.err ≠ .none := by rw [← s.err]; exact he
    rw [if_pos hne, if_pos hneU]
    exact ⟨rfl, by simp only; rw [s.err], s⟩

/-- what the caller sees of `Seek` -/
def SeekRel (f : File) :
    Reader LCache × ErrClass → Reader LCache × ErrClass → Prop :=
  fun p q => p.2 = q.2 ∧ S f p.1 q.1

theorem seekFin_sim {f : File} {C U : Reader LCache} (w : W f C U)
    (file : Int) (blk : Nat) :
    ExRel2 (SeekRel f) (seekFin C file blk) (seekFin U file blk) := by
  obtain ⟨c, u, hc, hu, hb⟩ := w.cur
  unfold seekFin
  rw [hc, hu]
  simp only
  by_cases hd : (C.heap c).hasData = true
  · have hdu : (U.heap u).hasData = true := by rw [← hb.2.2.1]; exact hd
    have hn : ¬ ((!(C.heap c).hasData) = true) := by rw [hd]; simp
    have hnu : ¬ ((!(U.heap u).hasData) = true) := by rw [hdu]; simp
    rw [if_neg hn, if_neg hnu]
    refine ⟨rfl, ⟨⟨?_, ?_, w.ucache, rfl, rfl, w.blocked, c, u, ?_, ?_, ?_⟩, rfl, ?_⟩⟩
    · exact (w.invC.advance hc blk (blk % 65536) (C.heap c).used (fun h => h)).congr _ rfl rfl rfl rfl
    · exact (w.invU.advance hu blk (blk % 65536) (U.heap u).used (fun h => h)).congr _ rfl rfl rfl rfl
    · simp [Reader.setB, hc]
    · simp [Reader.setB, hu]
    · simp only [setB_same]
      obtain ⟨h1, h2, h3, h4⟩ := hb
      obtain ⟨h5, h6, h7, h8⟩ := h4 hd
      exact ⟨h1, rfl, h3, fun _ => ⟨h5, h6, rfl, h8⟩⟩
    · intro _ c' hc'
      have : c' = c := by simp only [Reader.setB] at hc'; rw [hc] at hc'; exact (Option.some.inj hc').symm
      subst this
      simp only [setB_same]; exact hd
  · have hdf : (C.heap c).hasData = false := by simpa using hd
    have hduf : (U.heap u).hasData = false := by rw [← hb.2.2.1]; exact hdf
    have hn : (!(C.heap c).hasData) = true := by rw [hdf]; rfl
    have hnu : (!(U.heap u).hasData) = true := by rw [hduf]; rfl
    rw [if_pos hn, if_pos hnu]
    exact ExRel2.same _

theorem seek_sim {cfg : Cfg}
    (hcfg : cfg.noStale) (hlg : cfg.lentGuard = true) {f : File} {C U : Reader LCache} (s : S f C U) (file : Int) (blk : Nat) :
    ExRel2 (SeekRel f) (seek cfg fifoOps f C file blk) (seek cfg fifoOps f U file blk) := by
  obtain ⟨c, u, hc, hu, hb⟩ := s.w.cur
  unfold seek
  rw [hc, hu]
  simp only
  have hcond : (decide (file ≠ (C.heap c).base) || !(C.heap c).hasData) =
      (decide (file ≠ (U.heap u).base) || !(U.heap u).hasData) := by
    rw [← hb.2.2.1]
    cases hd : (C.heap c).hasData with
    | false => simp
    | true => rw [(hb.2.2.2 hd).1]
  rw [← hcond]
  by_cases hcnd : (decide (file ≠ (C.heap c).base) || !(C.heap c).hasData) = true
  · rw [if_pos hcnd, if_pos hcnd]
    have hk : ∀ id, C.cur = some id → (C.heap id).hasData = true → (C.heap id).base ≠ file := by
      intro id hid hd
      have : id = c := by rw [hc] at hid; exact (Option.some.inj hid).symm
      subst this
      simp only [hd, Bool.not_true, Bool.or_false, decide_eq_true_eq] at hcnd
      exact fun h => hcnd h.symm
    have hf := fetch_sim hcfg hlg s.w hk
    rcases hf.cases with e1 | ⟨a, b, e1, e2, r1⟩ | ⟨e, e1, e2⟩
    · exact e1.elim
    · rw [e1, e2]
      obtain ⟨C1, ec⟩ := a
      obtain ⟨U1, eu⟩ := b
      obtain ⟨hee, w1, _, _, _⟩ := r1
      simp only at hee w1 ⊢
      subst hee
      by_cases hen : ec = .none
      · rw [if_pos hen, if_pos hen]
        exact seekFin_sim (w1.setErr .none .none) file blk
      · rw [if_neg hen, if_neg hen]
        exact ⟨rfl, ⟨w1.setErr _ _, rfl, fun h0 => absurd h0 hen⟩⟩
    · rw [e1, e2]; exact ExRel2.same _
  · rw [if_neg hcnd, if_neg hcnd]
    exact seekFin_sim s.w file blk


/-! ### SetCache -/

theorem perm_eraseIdx {α : Type} : ∀ (l : List α) (i : Nat) (c : α), l[i]? = some c → l.Perm (c :: l.eraseIdx i)
  | [], _, _, h => by simp at h
  | a :: t, 0, c, h => by
    simp only [List.getElem?_cons_zero, Option.some.injEq] at h
    subst h
    simp
  | a :: t, i + 1, c, h => by
    simp only [List.getElem?_cons_succ] at h
    simp only [List.eraseIdx_cons_succ]
    exact ((perm_eraseIdx t i c h).cons a).trans (List.Perm.swap c a _)

/-- `SetCache(c)`: the attached cache joins the detached ones -/
theorem perm_recache (c : Option LCache) (cache : Option LCache) (parked : List LCache) :
    (c.toList ++ (parked ++ cache.toList)).Perm (c.toList ++ (cache.toList ++ parked)) :=
  List.Perm.append_left _ List.perm_append_comm

/-- attaching the `i`-th detached cache again -/
theorem perm_reattach {parked : List LCache} {i : Nat} {c : LCache} (h : parked[i]? = some c)
    (cache : Option LCache) :
    ((some c).toList ++ (parked.eraseIdx i ++ cache.toList)).Perm (cache.toList ++ parked) := by
  have h1 := perm_eraseIdx parked i c h
  show (c :: (parked.eraseIdx i ++ cache.toList)).Perm (cache.toList ++ parked)
  have h2 : (c :: (parked.eraseIdx i ++ cache.toList)).Perm (parked ++ cache.toList) :=
    (List.Perm.append_right _ h1).symm
  exact h2.trans List.perm_append_comm

/-- `SetCache` in all its forms: the cache objects are rearranged, empty well-formed ones may join -/
theorem FInv.recache {f : File} {r R : Reader LCache} (inv : FInv f r) {extra : List LCache}
    (h1 : R.heap = r.heap) (h2 : R.fresh = r.fresh) (h3 : R.cur = r.cur) (h4 : R.lent = r.lent)
    (hx : ∀ c ∈ extra, c.WF ∧ fifoOps.held c = [])
    (hp : (caches R).Perm (extra ++ caches r)) : FInv f R := by
  have hxi : ∀ c ∈ extra, c.items = [] := fun c hc => (hx c hc).2
  have hmem : ∀ c, c ∈ caches R ↔ (c ∈ extra ∨ c ∈ caches r) := by
    intro c; rw [hp.mem_iff, List.mem_append]
  have hidx : ∀ id, Idx R id → Idx r id := by
    rintro id ⟨c, hc, e, he, hid⟩
    rcases (hmem c).1 hc with h | h
    · rw [hxi c h] at he; cases he
    · exact ⟨c, h, e, he, hid⟩
  refine ⟨?_, ?_, ?_, ?_, ?_, ?_⟩
  · intro id hid; rw [h2]; exact inv.cur_lt id (by rw [← h3]; exact hid)
  · intro id hid hd; rw [h1] at hd ⊢; exact inv.cur_good id (by rw [← h3]; exact hid) hd
  · intro c hc
    rcases (hmem c).1 hc with h | h
    · exact (hx c h).1
    · exact inv.wf c h
  · intro c hc e he
    rcases (hmem c).1 hc with h | h
    · rw [hxi c h] at he; cases he
    · rw [h1, h2]; exact inv.ents c h e he
  · intro id hid hi
    rw [h1, h4]
    exact inv.loan id (by rw [← h3]; exact hid) (hidx id hi)
  · rw [h1]
    refine List.Pairwise.perm ?_ hp.symm (fun s => Share.symm s)
    refine List.pairwise_append.2 ⟨?_, inv.excl, ?_⟩
    · refine List.Pairwise.imp_of_mem (R := fun _ _ => True) ?_ (List.pairwise_of_forall (fun _ _ => trivial))
      intro p q hp' _ _ e he
      rw [hxi p hp'] at he; cases he
    · intro p hp' q _ e he
      rw [hxi p hp'] at he; cases he

def StepRel (f : File) : Reader LCache × Out → Reader LCache × Out → Prop :=
  fun p q => p.2 = q.2 ∧ S f p.1 q.1

theorem step_sim {cfg : Cfg}
    (hcfg : cfg.noStale) (hlg : cfg.lentGuard = true) {f : File} (hf : FileOK f) {C U : Reader LCache} (s : S f C U)
    (op : Op LCache) (ok : OpOK fifoOps LCache.WF op) :
    ExRel2 (StepRel f) (step cfg fifoOps f C op) (step cfg fifoOps f U op.uncached) := by
  cases op with
  | seek file blk =>
    simp only [step, Op.uncached]
    have h := seek_sim hcfg hlg s file blk
    rcases h.cases with e1 | ⟨a, b, e1, e2, r1⟩ | ⟨e, e1, e2⟩
    · exact e1.elim
    · rw [e1, e2]
      obtain ⟨C1, ec⟩ := a
      obtain ⟨U1, eu⟩ := b
      obtain ⟨hee, s1⟩ := r1
      simp only at hee s1 ⊢
      subst hee
      exact ⟨by simp only [s1.w.cb, s1.w.ce], s1⟩
    · rw [e1, e2]; exact ExRel2.same _
  | read n =>
    simp only [step, Op.uncached]
    have h := read_sim hcfg hlg hf s n
    rcases h.cases with e1 | ⟨a, b, e1, e2, r1⟩ | ⟨e, e1, e2⟩
    · exact e1.elim
    · rw [e1, e2]
      obtain ⟨C1, bs, ec⟩ := a
      obtain ⟨U1, bs', eu⟩ := b
      obtain ⟨hbs, hee, s1⟩ := r1
      simp only at hbs hee s1 ⊢
      subst hbs hee
      exact ⟨by simp only [s1.w.cb, s1.w.ce], s1⟩
    · rw [e1, e2]; exact ExRel2.same _
  | readByte =>
    simp only [step, Op.uncached]
    have h := readByte_sim hcfg hlg hf s
    rcases h.cases with e1 | ⟨a, b, e1, e2, r1⟩ | ⟨e, e1, e2⟩
    · exact e1.elim
    · rw [e1, e2]
      obtain ⟨C1, bs, ec⟩ := a
      obtain ⟨U1, bs', eu⟩ := b
      obtain ⟨hbs, hee, s1⟩ := r1
      simp only at hbs hee s1 ⊢
      subst hbs hee
      exact ⟨by simp only [s1.w.cb, s1.w.ce], s1⟩
    · rw [e1, e2]; exact ExRel2.same _
  | setCache c hints =>
    simp only [step, Op.uncached]
    refine ⟨by simp only [s.w.cb, s.w.ce], ⟨⟨?_, ?_, ⟨rfl, s.w.ucache.2⟩, s.w.cb, s.w.ce, s.w.blocked, s.w.cur⟩,
      s.err, s.live⟩⟩
    · refine s.w.invC.recache (extra := c.toList) rfl rfl rfl rfl ?_ ?_
      · intro c' hc'
        cases c with
        | none => simp at hc'
        | some c0 => simp at hc'; subst hc'; exact ok
      · unfold caches
        simp only
        exact perm_recache _ _ _
    · refine s.w.invU.recache (extra := []) rfl rfl rfl rfl (fun _ h => by cases h) ?_
      unfold caches
      simp only [s.w.ucache.1]
      simp
  | reattach i hints =>
    simp only [step, Op.uncached]
    have hUinv : FInv f { U with cache := none, hints := [], parked := U.parked ++ U.cache.toList } := by
      refine s.w.invU.recache (extra := []) rfl rfl rfl rfl (fun _ h => by cases h) ?_
      unfold caches
      simp only [s.w.ucache.1]
      simp
    cases hget : C.parked[i]? with
    | none =>
      simp only
      refine ⟨by simp only [s.w.cb, s.w.ce], ⟨⟨?_, hUinv, ⟨rfl, s.w.ucache.2⟩, s.w.cb, s.w.ce, s.w.blocked,
        s.w.cur⟩, s.err, s.live⟩⟩
      refine s.w.invC.recache (extra := []) rfl rfl rfl rfl (fun _ h => by cases h) ?_
      unfold caches
      simp only
      exact perm_recache none _ _
    | some c =>
      simp only
      refine ⟨by simp only [s.w.cb, s.w.ce], ⟨⟨?_, hUinv, ⟨rfl, s.w.ucache.2⟩, s.w.cb, s.w.ce, s.w.blocked,
        s.w.cur⟩, s.err, s.live⟩⟩
      refine s.w.invC.recache (extra := []) rfl rfl rfl rfl (fun _ h => by cases h) ?_
      unfold caches
      simp only [List.nil_append]
      exact perm_reattach hget _
  | setBlocked b =>
    simp only [step, Op.uncached]
    refine ⟨by simp only [s.w.cb, s.w.ce], ⟨⟨?_, ?_, s.w.ucache, s.w.cb, s.w.ce, rfl, s.w.cur⟩, s.err, s.live⟩⟩
    · exact s.w.invC.congr _ rfl rfl rfl rfl
    · exact s.w.invU.congr _ rfl rfl rfl rfl

def RunRel (f : File) :
    Reader LCache × List Out → Reader LCache × List Out → Prop :=
  fun p q => p.2 = q.2 ∧ S f p.1 q.1

theorem run_sim {cfg : Cfg}
    (hcfg : cfg.noStale) (hlg : cfg.lentGuard = true) {f : File} (hf : FileOK f) (ops : List (Op LCache))
    (ok : ∀ op ∈ ops, OpOK fifoOps LCache.WF op) {C U : Reader LCache} (s : S f C U) :
    ExRel2 (RunRel f) (run cfg fifoOps f C ops) (run cfg fifoOps f U (ops.map Op.uncached)) := by
  induction ops generalizing C U with
  | nil => exact ⟨rfl, s⟩
  | cons op rest ih =>
    simp only [List.map_cons, run]
    have h := step_sim hcfg hlg hf s op (ok op (by simp))
    rcases h.cases with e1 | ⟨a, b, e1, e2, r1⟩ | ⟨e, e1, e2⟩
    · exact e1.elim
    · rw [e1, e2]
      obtain ⟨C1, o1⟩ := a
      obtain ⟨U1, o2⟩ := b
      obtain ⟨hoo, s1⟩ := r1
      simp only at hoo s1 ⊢
      subst hoo
      have h2 := ih (fun op' h' => ok op' (by simp [h'])) s1
      rcases h2.cases with e3 | ⟨a2, b2, e3, e4, r2⟩ | ⟨e, e3, e4⟩
      · exact e3.elim
      · rw [e3, e4]
        obtain ⟨C2, os1⟩ := a2
        obtain ⟨U2, os2⟩ := b2
        obtain ⟨hos, s2⟩ := r2
        simp only at hos s2 ⊢
        subst hos
        exact ⟨rfl, s2⟩
      · rw [e3, e4]; exact ExRel2.same _
    · rw [e1, e2]; exact ExRel2.same _

/-- the reader right after a successful `NewReader` is related to itself -/
theorem newReader_S {cfg : Cfg} (hcfg : cfg.noStale)
    {f : File} {r : Reader LCache} (h : newReader fifoOps cfg f = .ok (r, .none)) : S f r r := by
  unfold newReader nextBlockAt skipCached at h
  simp only [Except.ok.injEq] at h
  have inv0 : FInv f (⟨fun _ => {}, 0, none, .none, (0, 0), (0, 0), false, none, [], none, []⟩ : Reader LCache) := by
    refine ⟨?_, ?_, ?_, ?_, ?_, ?_⟩
    · intro x hx; simp at hx
    · intro x hx; simp at hx
    · intro c hc; simp [caches] at hc
    · intro c hc; simp [caches] at hc
    · intro x hx; simp at hx
    · simp [caches]
  obtain ⟨id, hcur, hl, inv1, he, _, _, _, hca, hle⟩ := loadAt_spec (cfg := cfg) hcfg 0 inv0
    (fun id hid => by simp at hid)
  rw [h] at hcur hl inv1 he hca hle
  simp only at hcur hl inv1 he hca hle
  refine ⟨⟨inv1, inv1, ⟨hca, hle⟩, rfl, rfl, rfl, id, id, hcur, hcur, BlkEq.refl _⟩, rfl, ?_⟩
  intro _ c hc
  have : c = id := by rw [hcur] at hc; exact (Option.some.inj hc).symm
  subst this
  obtain ⟨_, _, l3⟩ := hl
  cases hm : f.find 0 with
  | some m => rw [hm] at l3; exact l3.2.1.2.1
  | none => rw [hm] at l3; simp only at l3; have := l3.1; split at this <;> cases this

end Hts.Model.CachedReaderFifo
