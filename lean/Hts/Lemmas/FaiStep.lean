/-
C19 helper lemmas, part 2: what `step` does on a blank line, a header line and a sequence line of a
well-formed record.
-/
import Hts.Lemmas.FaiScan
set_option linter.unusedVariables false
set_option linter.unusedSimpArgs false
namespace Hts.Lemmas.Fai
open Hts.Model.Fai
open Hts.Spec.Fasta (isGraphic isBase isDescByte isBlankByte)

theorem trimRight_prefix (u : Bytes) : trimRight u <+: u := by
  unfold trimRight
  have := List.dropWhile_suffix (l := u.reverse) isSpace
  have h2 := List.reverse_prefix.mpr this
  simpa using h2

/-- white space can only be trimmed after a block ending in a non-space byte -/
theorem trimRight_append_nonspace (ys : Bytes) (y : UInt8) (u : Bytes) (hy : isSpace y = false) :
    trimRight (ys ++ [y] ++ u) = ys ++ [y] ++ trimRight u := by
  unfold trimRight
  rw [List.reverse_append, List.dropWhile_append]
  split
  · next h =>
    have h' : List.dropWhile isSpace u.reverse = [] := by simpa using h
    rw [h']
    simp [List.dropWhile, hy]
  · rw [List.reverse_append, List.reverse_reverse]

theorem trimSpace_prefix_block (g u : Bytes) (hne : g ≠ []) (hg : ∀ b ∈ g, isSpace b = false) :
    trimSpace (g ++ u) = g ++ trimRight u := by
  obtain ⟨ys, y, hy⟩ : ∃ ys y, g = ys ++ [y] :=
    ⟨g.dropLast, g.getLast hne, (List.dropLast_concat_getLast hne).symm⟩
  have hys : isSpace y = false := hg y (by rw [hy]; simp)
  unfold trimSpace
  have hd : (g ++ u).dropWhile isSpace = g ++ u := by
    cases g with
    | nil => exact absurd rfl hne
    | cons x xs => exact dropWhile_space_cons _ (hg x List.mem_cons_self)
  rw [hd, hy]
  exact trimRight_append_nonspace ys y u hys

/-! ### blank line -/

theorem step_blank (st : ScanState) (line : Bytes) (h : ∀ b ∈ line, isSpace b = true) :
    step st line = .ok ⟨st.idx, st.pending, st.offset + line.length, true⟩ := by
  unfold step
  simp [trimSpace_all_space line h]

/-! ### header line -/

/-- the description part of a header line: nothing, or a space/tab followed by anything -/
def DescTail (d : Bytes) : Prop := d = [] ∨ ∃ s t, d = s :: t ∧ notSpTab s = false ∧ isSpace s = true

theorem headerName_header (name d t : Bytes) (hne : name ≠ []) (hn : ∀ b ∈ name, isGraphic b = true)
    (hd : DescTail d) (ht : ∀ b ∈ t, isSpace b = true) :
    ∃ v, trimSpace (GT :: (name ++ d) ++ t) = GT :: name ++ v ∧ headerName (GT :: name ++ v) = name := by
  have hg : ∀ b ∈ GT :: name, isSpace b = false := by
    intro b hb
    rcases List.mem_cons.mp hb with rfl | hb
    · decide
    · exact not_space_of_graphic (hn b hb)
  have h1 : GT :: (name ++ d) ++ t = (GT :: name) ++ (d ++ t) := by simp
  refine ⟨trimRight (d ++ t), ?_, ?_⟩
  · rw [h1, trimSpace_prefix_block _ _ (by simp) hg]
  · unfold headerName
    have hp : ∀ a ∈ GT :: name, notSpTab a = true := by
      intro b hb
      rcases List.mem_cons.mp hb with rfl | hb
      · decide
      · exact notSpTab_of_graphic (hn b hb)
    rw [List.takeWhile_append_of_pos hp]
    have hv : (trimRight (d ++ t)).takeWhile notSpTab = [] := by
      obtain ⟨w, hw⟩ := trimRight_prefix (d ++ t)
      rcases hd with rfl | ⟨s, t', rfl, hs, hs2⟩
      · -- no description: everything is white space
        have : trimRight ([] ++ t) = [] := by
          have := trimRight_append_space [] t ht
          simpa [trimRight] using this
        rw [this]; rfl
      · cases hv : trimRight (s :: t' ++ t) with
        | nil => rfl
        | cons x xs =>
          rw [hv] at hw
          have : x = s := by
            simp only [List.cons_append] at hw
            exact (List.cons.inj hw).1
          rw [this]
          simp [List.takeWhile, hs]
    rw [hv]
    simp

theorem step_header (st : ScanState) (name d t : Bytes) (hne : name ≠ [])
    (hn : ∀ b ∈ name, isGraphic b = true) (hd : DescTail d) (ht : ∀ b ∈ t, isSpace b = true) :
    step st (GT :: (name ++ d) ++ t) =
      if (flush st).1.contains name then .error .duplicate
      else .ok ⟨(flush st).1, { (flush st).2 with name := name, start := st.offset + (GT :: (name ++ d) ++ t).length },
                st.offset + (GT :: (name ++ d) ++ t).length, false⟩ := by
  obtain ⟨v, hv, hname⟩ := headerName_header name d t hne hn hd ht
  unfold step
  simp only [hv, hname]
  have h1 : GT :: name ++ v ≠ [] := by simp
  have h2 : GT :: name ++ v ≠ [GT] := by
    cases name with
    | nil => exact absurd rfl hne
    | cons x xs => simp
  have h3 : (GT :: name ++ v).head? = some GT := by simp
  simp only [h1, h2, h3, if_false, if_true]

/-! ### sequence line -/

theorem step_seq (st : ScanState) (c t : Bytes) (hne : c ≠ []) (hc : ∀ b ∈ c, isBase b = true)
    (ht : ∀ b ∈ t, isSpace b = true) (hw : st.wantDescLine = false) :
    step st (c ++ t) =
      if st.pending.bytesPerLine ≠ 0 ∧ (c ++ t).length > st.pending.bytesPerLine then .error .longLine
      else if st.pending.basesPerLine ≠ 0 ∧ c.length > st.pending.basesPerLine then .error .longLine
      else .ok ⟨st.idx,
        ⟨st.pending.name, st.pending.length + c.length, st.pending.start,
          if st.pending.basesPerLine = 0 then c.length else st.pending.basesPerLine,
          if st.pending.bytesPerLine = 0 then (c ++ t).length else st.pending.bytesPerLine⟩,
        st.offset + (c ++ t).length,
        decide (st.pending.bytesPerLine ≠ 0 ∧ (c ++ t).length < st.pending.bytesPerLine) ||
          decide (st.pending.basesPerLine ≠ 0 ∧ c.length < st.pending.basesPerLine)⟩ := by
  have hb : trimSpace (c ++ t) = c :=
    trimSpace_block c t (fun b hb => not_space_of_graphic (graphic_of_base (hc b hb))) ht
  obtain ⟨x, xs, rfl⟩ : ∃ x xs, c = x :: xs := by
    cases c with
    | nil => exact absurd rfl hne
    | cons x xs => exact ⟨x, xs, rfl⟩
  have hx : x ≠ GT := ne_GT_of_base (hc x List.mem_cons_self)
  unfold step
  simp only [hb]
  have h1 : x :: xs ≠ [] := by simp
  have h2 : x :: xs ≠ [GT] := by
    intro h; exact hx (List.cons.inj h).1
  have h3 : ¬ ((x :: xs).head? = some GT) := by
    simp only [List.head?_cons, Option.some.injEq]; exact hx
  simp only [h1, h2, h3, hw, if_false, Bool.false_eq_true]

end Hts.Lemmas.Fai
