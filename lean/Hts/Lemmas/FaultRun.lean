/-
The faulty sequential reader: every operation of every valid history is correct at the tracked position.
-/
import Hts.Lemmas.FaultOps
namespace Hts.Model.Bgzf
open Hts.Spec.Flat

/-- What one operation may return when the reader stands at logical position `pos` (meaningful while no
error is latched) — under any faults:
* a `Read`/`ReadByte` issued while an error is latched returns nothing and that error again (sticky, as
  `bg.err` in Go), and changes nothing;
* otherwise the bytes returned are the bytes of the flat copy at `pos` (`ReadRes.bytes_ok`), at most as many as
  asked for; an error is either latched or, in Blocked mode, the `io.EOF` of a block end; `io.EOF` outside
  Blocked mode means the end of the data, unless the source itself reported a clean end of input at a member
  start (`ReadRes.eofEnd`);
* a `Seek` either succeeds (no error latched afterwards) or latches the error it returns. -/
def FaultStepOK (F : File) (x : FReader) (pos : Nat) (op : Op) (out : Out) (x' : FReader) : Prop :=
  match op with
  | .read n =>
    (∀ e, x.r.err = some e → out.bytes = [] ∧ out.err = some e ∧ x' = x) ∧
    (x.r.err = none → ReadRes F x x' pos n out.bytes out.err)
  | .readByte =>
    (∀ e, x.r.err = some e → out.bytes = [] ∧ out.err = some e ∧ x' = x) ∧
    (x.r.err = none → ReadRes F x x' pos 1 out.bytes out.err)
  | .seek _ =>
    out.bytes = [] ∧ (out.err = none → x'.r.err = none) ∧
    (∀ e, out.err = some e → x'.r.err = some e ∧ (e = .eof ∨ e = .other)) ∧
    (out.err = some .eof → ¬ NoEof x.oracle)
  | .setBlocked _ => out.bytes = [] ∧ out.err = none ∧ x'.r.err = x.r.err

/-- The logical position after an operation: advanced by the bytes returned; set by a successful `Seek`. -/
def nextPos (L : Layout) (pos : Nat) (op : Op) (out : Out) : Nat :=
  match op with
  | .seek o => if out.err = none then (seekTarget L o).getD pos else pos
  | _ => pos + out.bytes.length

/-- Every operation of a history is `FaultStepOK` at the position tracked through the bytes returned and the
successful seeks. -/
def RunOK (F : File) : FReader → Nat → List Op → Prop
  | _, _, [] => True
  | x, pos, op :: ops =>
    FaultStepOK F x pos op (x.step op).2 (x.step op).1 ∧
    RunOK F (x.step op).1 (nextPos (layoutOf F) pos op (x.step op).2) ops

theorem fstep_ok {F : File} (hwf : WF F) {x : FReader} {pos : Nat} (hi : FInv F x pos) (op : Op)
    (hv : OpValid (layoutOf F) op) :
    FaultStepOK F x pos op (x.step op).2 (x.step op).1 ∧
    FInv F (x.step op).1 (nextPos (layoutOf F) pos op (x.step op).2) := by
  cases op with
  | read n =>
    have ⟨h1, h2⟩ := fread_spec hwf hi n
    cases he : x.r.err with
    | some e =>
      have hst : x.step (.read n) = (x, ⟨[], some e⟩) := by simp [FReader.step, h1 e he]
      rw [hst]
      refine ⟨?_, by simpa [nextPos] using hi⟩
      show (∀ e', x.r.err = some e' → ([] : List UInt8) = [] ∧ some e = some e' ∧ x = x) ∧ (x.r.err = none → _)
      exact ⟨fun e' he' => ⟨rfl, (by rw [he] at he'; exact he'), rfl⟩, fun h => (by rw [he] at h; cases h)⟩
    | none =>
      have := h2 he
      refine ⟨?_, this.inv⟩
      show (∀ e', x.r.err = some e' → _) ∧ (x.r.err = none → _)
      exact ⟨fun e' he' => (by rw [he] at he'; cases he'), fun _ => this⟩
  | readByte =>
    have ⟨h1, h2⟩ := freadByte_spec hwf hi
    cases he : x.r.err with
    | some e =>
      have hst : x.step .readByte = (x, ⟨[], some e⟩) := by simp [FReader.step, h1 e he]
      rw [hst]
      refine ⟨?_, by simpa [nextPos] using hi⟩
      show (∀ e', x.r.err = some e' → ([] : List UInt8) = [] ∧ some e = some e' ∧ x = x) ∧ (x.r.err = none → _)
      exact ⟨fun e' he' => ⟨rfl, (by rw [he] at he'; exact he'), rfl⟩, fun h => (by rw [he] at h; cases h)⟩
    | none =>
      have := h2 he
      refine ⟨?_, this.inv⟩
      show (∀ e', x.r.err = some e' → _) ∧ (x.r.err = none → _)
      exact ⟨fun e' he' => (by rw [he] at he'; cases he'), fun _ => this⟩
  | seek o =>
    simp only [OpValid, Option.isSome_iff_exists] at hv
    obtain ⟨p, hp⟩ := hv
    have ⟨h1, h2, _, _, h5⟩ := fseek_spec hwf hi o p hp
    refine ⟨?_, ?_⟩
    · show ([] : List UInt8) = [] ∧ ((x.seek o).2 = none → _) ∧ (∀ e, (x.seek o).2 = some e → _) ∧ _
      exact ⟨rfl, fun h => (h1 h).2, fun e he => (h2 e he).2, h5⟩
    · show FInv F (x.seek o).1 (if (x.seek o).2 = none then (seekTarget (layoutOf F) o).getD pos else pos)
      cases he : (x.seek o).2 with
      | none => simpa [hp] using (h1 he).1
      | some e =>
        have := (h2 e he).1
        simp only [reduceCtorEq, if_false]
        exact ⟨this.file, fun h => (by rw [(h2 e he).2.1] at h; cases h), this.dead⟩
  | setBlocked b =>
    refine ⟨?_, ?_⟩
    · show ([] : List UInt8) = [] ∧ (none : Option Err) = none ∧ _
      exact ⟨rfl, rfl, rfl⟩
    · show FInv F (x.withR fun r => r.setBlocked b) (pos + 0)
      refine ⟨hi.file, fun h => ?_, hi.dead⟩
      obtain ⟨pre, m, post, k, hat, hp⟩ := hi.alive h
      exact ⟨pre, m, post, k, ⟨hat.file, hat.split, hat.cur, hat.le, hat.err⟩, hp⟩

theorem frun_ok {F : File} (hwf : WF F) (ops : List Op) :
    ∀ (x : FReader) (pos : Nat), FInv F x pos → ValidOps (layoutOf F) ops → RunOK F x pos ops := by
  induction ops with
  | nil => intro _ _ _ _; trivial
  | cons op ops ih =>
    intro x pos hi hv
    have ⟨hv1, hv2⟩ := validOps_cons hv
    have ⟨h1, h2⟩ := fstep_ok hwf hi op hv1
    exact ⟨h1, ih _ _ h2 hv2⟩

theorem finv_new {F : File} {r0 : Reader} (h : Reader.new F = .ok r0) (oracle : List LoadFault) :
    FInv F ⟨r0, oracle⟩ 0 := by
  have hs := sim_new h
  refine ⟨hs.file, fun _ => ?_, fun e he => ?_⟩
  · rcases hs.pos with ⟨pre, m, post, k, hat, hp⟩ | ⟨heof, _⟩
    · exact ⟨pre, m, post, k, hat, by simpa [init] using hp⟩
    · have := heof.err; simp_all
  · rcases hs.pos with ⟨pre, m, post, k, hat, hp⟩ | ⟨heof, _⟩
    · have := hat.err; simp only at he; rw [this] at he; cases he
    · cases F with
      | nil => simp [Reader.new, memberAt] at h
      | cons m post =>
        simp only [Reader.new, memberAt_zero_cons, Except.ok.injEq] at h
        subst h; cases he

end Hts.Model.Bgzf
