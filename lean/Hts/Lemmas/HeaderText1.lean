/-
C07 helper lemmas, part 10: splitting, decimal and hexadecimal round trips, the generic field loop on
rendered fields.
-/
import Hts.Lemmas.HeaderView
namespace Hts.Model.Header

/-- no tab, line feed or carriage return -/
def Clean (s : Bytes) : Prop := ∀ c ∈ s, c ≠ 9 ∧ c ≠ 10 ∧ c ≠ 13
def CleanTag (t : Tag) : Prop := (t.1 ≠ 9 ∧ t.1 ≠ 10 ∧ t.1 ≠ 13) ∧ (t.2 ≠ 9 ∧ t.2 ≠ 10 ∧ t.2 ≠ 13)
instance (t : Tag) : Decidable (CleanTag t) := by unfold CleanTag; infer_instance

/-- a rendered field without its leading tab -/
def fieldOf (tv : Tag × Bytes) : Bytes := tv.1.1 :: tv.1.2 :: 58 :: tv.2

theorem fieldBytes_eq (tv : Tag × Bytes) : fieldBytes tv = 9 :: fieldOf tv := rfl

theorem splitOn_notin (sep : Nat) : ∀ (a : Bytes), sep ∉ a → splitOn sep a = [a] := by
  intro a
  induction a with
  | nil => intro _; rfl
  | cons c cs ih =>
    intro h
    have h1 : c ≠ sep := fun e => h (e ▸ List.mem_cons_self)
    have h2 : sep ∉ cs := fun e => h (List.mem_cons_of_mem _ e)
    simp [splitOn, h1, ih h2]

theorem splitOn_append (sep : Nat) (b : Bytes) : ∀ (a : Bytes), sep ∉ a →
    splitOn sep (a ++ sep :: b) = a :: splitOn sep b := by
  intro a
  induction a with
  | nil => intro _; simp [splitOn]
  | cons c cs ih =>
    intro h
    have h1 : c ≠ sep := fun e => h (e ▸ List.mem_cons_self)
    have h2 : sep ∉ cs := fun e => h (List.mem_cons_of_mem _ e)
    simp [splitOn, h1, ih h2]

theorem splitOnce_append (sep : Nat) (b : Bytes) : ∀ (a : Bytes), sep ∉ a →
    splitOnce sep (a ++ sep :: b) = [a, b] := by
  intro a
  induction a with
  | nil => intro _; simp [splitOnce]
  | cons c cs ih =>
    intro h
    have h1 : c ≠ sep := fun e => h (e ▸ List.mem_cons_self)
    have h2 : sep ∉ cs := fun e => h (List.mem_cons_of_mem _ e)
    simp [splitOnce, h1, ih h2]

theorem splitOn_fields (rec : Bytes) (hrec : 9 ∉ rec) : ∀ (ts : Tags), (∀ tv ∈ ts, 9 ∉ fieldOf tv) →
    splitOn 9 (rec ++ ts.flatMap fieldBytes) = rec :: ts.map fieldOf := by
  intro ts
  induction ts generalizing rec with
  | nil => intro _; simp [splitOn_notin 9 rec hrec]
  | cons tv ts ih =>
    intro h
    simp only [List.flatMap_cons, fieldBytes_eq, List.map_cons]
    rw [show rec ++ (9 :: fieldOf tv ++ ts.flatMap fieldBytes) = rec ++ 9 :: (fieldOf tv ++ ts.flatMap fieldBytes) by simp]
    rw [splitOn_append 9 _ rec hrec, ih (fieldOf tv) (h tv List.mem_cons_self) (fun tv' h' => h tv' (List.mem_cons_of_mem _ h'))]

theorem splitOn_lines : ∀ (ls : List Bytes), (∀ l ∈ ls, 10 ∉ l) →
    splitOn 10 (ls.flatMap (· ++ [10])) = ls ++ [[]] := by
  intro ls
  induction ls with
  | nil => intro _; rfl
  | cons l ls ih =>
    intro h
    simp only [List.flatMap_cons, List.append_assoc, List.cons_append, List.nil_append]
    rw [splitOn_append 10 _ l (h l List.mem_cons_self), ih (fun l' h' => h l' (List.mem_cons_of_mem _ h'))]

/-! ### decimal -/

theorem parseDigits_snoc (a : Bytes) (c : Nat) : parseDigits (a ++ [c]) = parseDigits a * 10 + (c - 48) := by
  simp [parseDigits, List.foldl_append]

theorem decDigitsF_spec : ∀ (f n : Nat), n ≤ f → parseDigits (decDigitsF f n) = n ∧
    (decDigitsF f n).all isDigit = true ∧ ∃ c cs, decDigitsF f n = c :: cs ∧ isDigit c = true := by
  intro f
  induction f with
  | zero =>
    intro n hn
    have : n = 0 := by omega
    subst this
    exact ⟨by simp [decDigitsF, parseDigits], by simp [decDigitsF, isDigit], 48, [], rfl, by simp [isDigit]⟩
  | succ f ih =>
    intro n hn
    rw [decDigitsF]
    split
    · next hlt =>
      refine ⟨by simp [parseDigits], by simp [isDigit]; omega, 48 + n, [], rfl, by simp [isDigit]; omega⟩
    · next hge =>
      obtain ⟨h1, h2, c, cs, h3, h4⟩ := ih (n / 10) (by omega)
      refine ⟨?_, ?_, c, cs ++ [48 + n % 10], by rw [h3]; rfl, h4⟩
      · rw [parseDigits_snoc, h1]; omega
      · rw [List.all_append, h2]; simp [isDigit]; omega

theorem decDigits_spec (n : Nat) : parseDigits (decDigits n) = n ∧ (decDigits n).all isDigit = true ∧
    ∃ c cs, decDigits n = c :: cs ∧ isDigit c = true := decDigitsF_spec n n (Nat.le_refl n)

theorem atoi_dec (i : Int) : atoi (dec i) = some i := by
  obtain ⟨h1, h2, c, cs, h3, h4⟩ := decDigits_spec i.natAbs
  have hd : atoiDigits (decDigits i.natAbs) = some i.natAbs := by
    unfold atoiDigits
    rw [h2, h3]; simp only [List.isEmpty_cons, Bool.false_or, Bool.not_true, Bool.false_eq_true, if_false]
    rw [← h3, h1]
  unfold dec
  split
  · next hneg =>
    simp only [atoi, hd]
    show some (-(i.natAbs : Int)) = some i
    congr 1; omega
  · next hpos =>
    have hc1 : c ≠ 45 := by intro e; subst e; simp [isDigit] at h4
    have hc2 : c ≠ 43 := by intro e; subst e; simp [isDigit] at h4
    rw [atoi.eq_3]
    · simp only [hd]
      show some ((i.natAbs : Nat) : Int) = some i
      congr 1; omega
    · intro r e; rw [h3] at e; cases e; exact hc1 rfl
    · intro r e; rw [h3] at e; cases e; exact hc2 rfl

theorem dec_clean (i : Int) : Clean (dec i) := by
  obtain ⟨_, h2, _⟩ := decDigits_spec i.natAbs
  have : ∀ c ∈ decDigits i.natAbs, c ≠ 9 ∧ c ≠ 10 ∧ c ≠ 13 := by
    intro c hc
    have := List.all_eq_true.1 h2 c hc
    simp [isDigit] at this; omega
  unfold dec
  split
  · intro c hc
    rcases List.mem_cons.1 hc with rfl | hc
    · decide
    · exact this c hc
  · exact this

/-! ### hexadecimal -/

theorem hexVal_hexDigit : ∀ n, n < 16 → hexVal (hexDigit n) = some n := by decide

theorem hexDigit_clean : ∀ n, n < 16 → hexDigit n ≠ 9 ∧ hexDigit n ≠ 10 ∧ hexDigit n ≠ 13 := by decide

theorem hexDecode16_enc : ∀ (bs : Bytes) (n : Nat) (acc : Bytes), (∀ b ∈ bs, b < 256) → n + bs.length ≤ 16 →
    hexDecode16 (hexEnc bs) n acc = .ok (acc.reverse ++ bs) := by
  intro bs
  induction bs with
  | nil => intro n acc _ _; simp [hexEnc, hexDecode16]
  | cons b bs ih =>
    intro n acc hb hn
    have hb' := hb b List.mem_cons_self
    simp only [hexEnc, List.flatMap_cons, List.cons_append, List.nil_append, hexDecode16]
    rw [hexVal_hexDigit _ (by omega), hexVal_hexDigit _ (by omega)]
    simp only [List.length_cons] at hn
    have : ¬ n ≥ 16 := by omega
    simp only [this, if_false]
    have ih' := ih (n + 1) ((b / 16 % 16 * 16 + b % 16) :: acc) (fun b' h' => hb b' (List.mem_cons_of_mem _ h')) (by omega)
    simp only [hexEnc] at ih'
    rw [ih']
    have : b / 16 % 16 * 16 + b % 16 = b := by omega
    simp [this]

theorem hexEnc_length (bs : Bytes) : (hexEnc bs).length = 2 * bs.length := by
  induction bs with
  | nil => rfl
  | cons b bs ih =>
    simp only [hexEnc, List.flatMap_cons, List.length_append, List.length_cons, List.length_nil] at ih ⊢
    omega

theorem hexEnc_clean (bs : Bytes) : Clean (hexEnc bs) := by
  intro c hc
  simp only [hexEnc, List.mem_flatMap] at hc
  obtain ⟨b, _, hc⟩ := hc
  simp only [List.mem_cons, List.not_mem_nil, or_false] at hc
  rcases hc with rfl | rfl
  · exact hexDigit_clean _ (Nat.mod_lt _ (by omega))
  · exact hexDigit_clean _ (Nat.mod_lt _ (by omega))

/-! ### the field loop on rendered fields -/

/-- the field loop without byte parsing and duplicate check -/
def loopVal {β : Type} (assign : β → Tag → Bytes → PR β) : β → Tags → PR β
  | b, [] => .ok b
  | b, (t, v) :: ts =>
    match assign b t v with
    | .ok b' => loopVal assign b' ts
    | .err => .err
    | .panic => .panic

theorem loopVal_append {β : Type} (assign : β → Tag → Bytes → PR β) : ∀ (ts1 ts2 : Tags) (b : β),
    loopVal assign b (ts1 ++ ts2) =
      match loopVal assign b ts1 with
      | .ok b' => loopVal assign b' ts2
      | .err => .err
      | .panic => .panic := by
  intro ts1
  induction ts1 with
  | nil => intro ts2 b; rfl
  | cons tv ts1 ih =>
    intro ts2 b
    obtain ⟨t, v⟩ := tv
    simp only [List.cons_append, loopVal]
    cases assign b t v with
    | ok b' => exact ih ts2 b'
    | err => rfl
    | panic => rfl

theorem parseField_fieldOf (tv : Tag × Bytes) : parseField (fieldOf tv) = .ok tv.1 tv.2 := by
  simp [fieldOf, parseField]

theorem fieldLoop_fields {β : Type} (assign : β → Tag → Bytes → PR β) : ∀ (ts : Tags) (b b' : β) (seen : List Tag),
    (ts.map (·.1)).Nodup → (∀ tv ∈ ts, tv.1 ∉ seen) → loopVal assign b ts = .ok b' →
    ∃ seen', fieldLoop assign ⟨b, seen⟩ (ts.map fieldOf) = .ok ⟨b', seen'⟩ := by
  intro ts
  induction ts with
  | nil => intro b b' seen _ _ h; simp [loopVal] at h; subst h; exact ⟨seen, rfl⟩
  | cons tv ts ih =>
    intro b b' seen hnd hns h
    obtain ⟨t, v⟩ := tv
    simp only [List.map_cons, List.nodup_cons] at hnd
    simp only [loopVal] at h
    have hts : t ∉ seen := hns (t, v) List.mem_cons_self
    simp only [List.map_cons, fieldLoop, parseField_fieldOf]
    have : seen.contains t = false := by simpa using hts
    simp only [this, Bool.false_eq_true, if_false]
    cases ha : assign b t v with
    | ok b1 =>
      rw [ha] at h
      refine ih b1 b' (t :: seen) hnd.2 ?_ h
      intro tv' htv' hc
      rcases List.mem_cons.1 hc with e | hc
      · exact hnd.1 (e ▸ List.mem_map_of_mem htv')
      · exact hns tv' (List.mem_cons_of_mem _ htv') hc
    | err => rw [ha] at h; cases h
    | panic => rw [ha] at h; cases h

end Hts.Model.Header
