/-
C07 helper lemmas, part 19 (for C05): DecodeBinary reading the header block from the front of a longer stream.
`decodeBinaryR` returns what follows the block; its first two components are `decodeBinary`; on the encoding of a
well-formed view followed by any bytes it returns that view and exactly those bytes.
-/
import Hts.Lemmas.HeaderNoPanic
namespace Hts.Model.Header

theorem readRefRecordsR_fst : ∀ (n : Nat) (b : Bytes), (readRefRecordsR n b).map (·.1) = readRefRecords n b := by
  intro n
  induction n with
  | zero => intro b; rfl
  | succ n ih =>
    intro b
    rw [readRefRecordsR, readRefRecords]
    cases rd32 b with
    | none => rfl
    | some p =>
      obtain ⟨lName, b1⟩ := p
      dsimp only
      split
      · rfl
      · cases rdN lName.toNat b1 with
        | none => rfl
        | some q =>
          obtain ⟨nm, b2⟩ := q
          dsimp only
          split
          · rfl
          · cases rd32 b2 with
            | none => rfl
            | some r =>
              obtain ⟨lRef, b3⟩ := r
              dsimp only
              rw [← ih b3]
              cases readRefRecordsR n b3 with
              | none => rfl
              | some s => rfl

/-- `decodeBinaryR` is `decodeBinary` plus the unread bytes -/
theorem decodeBinaryR_eq (E : Ext) (w : World) (h : Nat) (b : Bytes) :
    ((decodeBinaryR E w h b).1, (decodeBinaryR E w h b).2.1) = decodeBinary E w h b := by
  unfold decodeBinaryR decodeBinary
  split
  case h_2 => rfl
  cases rd32 _ with
  | none => rfl
  | some p =>
    obtain ⟨lText, b1⟩ := p
    dsimp only
    split
    · rfl
    · cases rdN lText.toNat b1 with
      | none => rfl
      | some q =>
        obtain ⟨text, b2⟩ := q
        dsimp only
        generalize unmarshalText E w h text = res
        obtain ⟨w1, r⟩ := res
        cases r
        case ok =>
          dsimp only
          cases rd32 b2 with
          | none => rfl
          | some s =>
            obtain ⟨nRef, b3⟩ := s
            dsimp only
            split
            · rfl
            · rw [← readRefRecordsR_fst]
              cases readRefRecordsR nRef.toNat b3 with
              | none => rfl
              | some t => rfl
        all_goals rfl

theorem readRef_oneR (name : Bytes) (len : Int) (rest : Bytes) (n : Nat) (h1 : (name.length : Int) + 1 < 2147483648)
    (h2 : -2147483648 ≤ len ∧ len < 2147483648) :
    readRefRecordsR (n + 1) (le32 ((name.length : Int) + 1) ++ (name ++ 0 :: (le32 len ++ rest))) =
      (readRefRecordsR n rest).map (fun p => ((name, len) :: p.1, p.2)) := by
  rw [readRefRecordsR, rd32_le32 _ (by omega)]
  have hpos : ¬ ((name.length : Int) + 1 < 1) := by omega
  have hlen : ((name.length : Int) + 1).toNat = name.length + 1 := by omega
  simp only [hpos, if_false, hlen, rdN_name]
  have hlast : (name ++ [0]).getLast? = some 0 := by simp
  simp only [hlast, ne_eq, not_true_eq_false, if_false, rd32_le32 _ h2, List.dropLast_concat]
  cases readRefRecordsR n rest with
  | none => rfl
  | some p => rfl

theorem readRefRecordsR_enc (rest : Bytes) : ∀ (rs : List (Int × Bytes × RefD)),
    (∀ r ∈ rs, (r.2.1.length : Int) + 1 < 2147483648 ∧ validLen r.2.2.len = true) →
    readRefRecordsR rs.length
        ((rs.flatMap fun x => le32 (x.2.1.length + 1) ++ (x.2.1 ++ 0 :: le32 x.2.2.len)) ++ rest) =
      some (rs.map (fun x => (x.2.1, x.2.2.len)), rest) := by
  intro rs
  induction rs with
  | nil => intro _; rfl
  | cons r rs ih =>
    intro h
    obtain ⟨h1, h2⟩ := h r List.mem_cons_self
    simp only [validLen, Bool.and_eq_true, decide_eq_true_eq] at h2
    simp only [List.length_cons, List.flatMap_cons, List.append_assoc, List.cons_append]
    rw [readRef_oneR _ _ _ _ h1 (by omega), ih (fun r' h' => h r' (List.mem_cons_of_mem _ h'))]
    rfl

/-- the framing law on views: decoding `encodeView v ++ rest` into a fresh header gives a header with view `v`
and leaves exactly `rest` -/
theorem decodeBinaryR_frame_view (E : Ext) (w : World) (hw : WInv w) (v : View) (wf : WFView E v)
    (hs1 : ((marshalView v).length : Int) < 2147483648) (hs2 : (v.refs.length : Int) < 2147483648)
    (hs3 : ∀ r ∈ v.refs, (r.2.1.length : Int) + 1 < 2147483648) (rest : Bytes) :
    ∃ w', decodeBinaryR E (pushHeader w {}) w.hdrs.length (encodeView v ++ rest) = (w', .ok, rest) ∧ WInv w' ∧
      view w' w.hdrs.length = v := by
  obtain ⟨w1, hu, hw1, hv1, hl1⟩ := text_roundtrip_view E w hw v wf
  unfold encodeView decodeBinaryR
  simp only [List.cons_append, List.nil_append, List.append_assoc]
  rw [rd32_le32 _ (by omega)]
  have hneg : ¬ (((marshalView v).length : Int) < 0) := by omega
  simp only [hneg, if_false, Int.toNat_natCast]
  rw [rdN_append _ _ (by intro e; simp only [List.append_eq_nil_iff] at e; exact absurd e.2.1 (by simp [le32]))]
  simp only [hu]
  rw [rd32_le32 _ (by omega)]
  have hneg2 : ¬ ((v.refs.length : Int) < 0) := by omega
  simp only [hneg2, if_false, Int.toNat_natCast]
  rw [readRefRecordsR_enc rest v.refs (fun r hr => ⟨hs3 r hr, (wf.refs r hr).1.len⟩)]
  simp only
  have hlt : w.hdrs.length < w1.refs.tabs.length := by rw [hw1.lr, hl1]; omega
  obtain ⟨k', h1, h2, h3, h4⟩ := addBinRefs_same w.hdrs.length (v.refs.map fun x => (x.2.1, x.2.2.len)) w1.refs 0
    hw1.refs hlt (by
      intro j r hj
      rw [List.getElem?_map] at hj
      cases hvj : v.refs[j]? with
      | none => simp [hvj] at hj
      | some x =>
        simp [hvj] at hj; subst hj
        have hid := wf.idr j x hvj
        have hv1r : v.refs = (items w1.refs w.hdrs.length).map fun x => (x.1, x.2.1, normRef x.2.2) := by
          rw [← hv1]; rfl
        rw [hv1r, List.getElem?_map] at hvj
        cases hij : (items w1.refs w.hdrs.length)[j]? with
        | none => simp [hij] at hvj
        | some y =>
          simp [hij] at hvj; subst hvj
          refine ⟨y.2.2, ?_, by simp [normRef]⟩
          simp only [Nat.zero_add]
          simp only at hid
          rw [← hid]
          exact hij)
  rw [h1]
  refine ⟨_, rfl, ⟨h2, hw1.rgs, hw1.pgs, by simp only; rw [h3]; exact hw1.lr, hw1.lg, hw1.lp⟩, ?_⟩
  rw [← hv1]
  unfold view
  simp only [h4]

end Hts.Model.Header

namespace Hts.Model.Header

/-- the framing law for a header of a consistent world whose contents are API-built with canonical URIs and whose
sizes fit the int32 fields: DecodeBinary on `MarshalBinary(h) ++ rest` yields a header exposing the same values and
leaves exactly `rest` unread -/
theorem decodeBinaryR_frame (E : Ext) (w : World) (hw : WInv w) (h : Nat) (hh : h < w.hdrs.length)
    (api : ApiBuilt E (view w h)) (uc : UriCanon E (view w h))
    (hs1 : ((marshalText w h).length : Int) < 2147483648) (hs2 : ((view w h).refs.length : Int) < 2147483648)
    (hs3 : ∀ r ∈ (view w h).refs, (r.2.1.length : Int) + 1 < 2147483648) (rest : Bytes) :
    ∃ w', decodeBinaryR E (pushHeader w {}) w.hdrs.length (marshalBinary w h ++ rest) = (w', .ok, rest) ∧ WInv w' ∧
      view w' w.hdrs.length = view w h :=
  decodeBinaryR_frame_view E w hw (view w h) (wfview_of E hw hh api uc) hs1 hs2 hs3 rest

end Hts.Model.Header
