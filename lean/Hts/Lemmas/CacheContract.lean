/-
Which caches satisfy the abstract contract of Hts.Spec.CacheContract:
LRU and Random do; a StatsRecorder around a conforming cache does; FIFO does not (`Get` of a used block
leaves it indexed).
-/
import Hts.Lemmas.Cache
import Hts.Spec.CacheContract
namespace Hts.Spec.CacheContract
open Hts.Model.Cache

theorem eq_of_key_eq {items : List Entry} (hn : KeysNodup items) {x y : Entry}
    (hx : x ∈ items) (hy : y ∈ items) (hk : x.key = y.key) : x = y := by
  have h1 := lookup_of_mem hn hx
  have h2 := lookup_of_mem hn hy
  rw [hk, h2] at h1
  exact (Option.some.inj h1).symm

theorem mem_removeKey_iff {items : List Entry} (hn : KeysNodup items) {e : Entry} (he : e ∈ items)
    (x : Entry) : x ∈ removeKey items e.key ↔ (x ∈ items ∧ x ≠ e) := by
  rw [mem_removeKey]
  constructor
  · rintro ⟨h1, h2⟩
    exact ⟨h1, fun h => h2 (by rw [h])⟩
  · rintro ⟨h1, h2⟩
    exact ⟨h1, fun h => h2 (eq_of_key_eq hn h1 he h)⟩

theorem mem_dropLast_iff {items : List Entry} (hn : KeysNodup items) {d : Entry}
    (hl : items.getLast? = some d) (x : Entry) : x ∈ items.dropLast ↔ (x ∈ items ∧ x ≠ d) := by
  have hsplit : items = items.dropLast ++ [d] := by
    have hne : items ≠ [] := by intro h0; simp [h0] at hl
    have h1 := List.dropLast_concat_getLast hne
    have h2 : items.getLast hne = d := by
      have := List.getLast?_eq_some_getLast hne
      rw [hl] at this
      exact (Option.some.inj this).symm
    rw [h2] at h1
    exact h1.symm
  have hpw : KeysNodup (items.dropLast ++ [d]) := by rw [← hsplit]; exact hn
  have hnot : ∀ a ∈ items.dropLast, a.key ≠ d.key := by
    intro a ha
    exact (List.pairwise_append.1 hpw).2.2 a ha d (by simp)
  constructor
  · intro hx
    refine ⟨(List.dropLast_sublist _).subset hx, fun h => ?_⟩
    exact hnot x hx (by rw [h])
  · rintro ⟨h1, h2⟩
    rw [hsplit] at h1
    rcases List.mem_append.1 h1 with h | h
    · exact h
    · simp at h; exact absurd h h2

theorem getLast?_mem {items : List Entry} {d : Entry} (hl : items.getLast? = some d) : d ∈ items :=
  List.mem_of_getLast? hl

/-! ### LRU -/

theorem lru_contract : Contract lruOps LCache.WF where
  get_wf h s k w := LCache.get_wf w k
  put_wf h s id hint s' r w hp := by
    simp only [lruOps, Option.some.injEq] at hp
    have := LCache.put_wf (h := h) w id
    rw [hp] at this
    exact this
  put_no_panic h s id hint s' w hp := by
    simp only [lruOps, Option.some.injEq] at hp
    exact LCache.put_no_panic (h := h) w id (by rw [hp])
  get_hit h s k s' id w hg := by
    simp only [lruOps, LCache.get] at hg ⊢
    cases hl : lookup s.items k with
    | none => simp [hl] at hg
    | some e =>
      simp [hl] at hg
      obtain ⟨h1, h2⟩ := hg
      obtain ⟨hm, hk⟩ := lookup_some hl
      have he : e = ⟨k, id⟩ := by cases e; simp_all
      subst h1
      refine ⟨he ▸ hm, fun x => ?_⟩
      have := mem_removeKey_iff w.nodup hm x
      rw [hk, he] at this
      exact this
  get_miss h s k s' w hg := by
    simp only [lruOps, LCache.get] at hg ⊢
    cases hl : lookup s.items k with
    | none =>
      simp [hl] at hg
      subst hg
      exact ⟨rfl, lookup_none hl⟩
    | some e => simp [hl] at hg
  put_refused h s id hint s' w hp := by
    simp only [lruOps, Option.some.injEq] at hp ⊢
    unfold LCache.put at hp
    simp only at hp
    repeat' split at hp
    all_goals simp_all
    all_goals (first | (rw [← hp.1]) | skip)
  put_kept h s id hint s' ev w hp := by
    simp only [lruOps, Option.some.injEq] at hp ⊢
    unfold LCache.put at hp
    simp only at hp
    split at hp
    · simp at hp
    · rename_i hk
      have hk' : hasKey s.items (h id).base = false := by simpa using hk
      refine ⟨hasKey_false.1 hk', ?_⟩
      split at hp
      · split at hp
        · simp at hp
        · cases hl : s.items.getLast? with
          | none => simp [hl] at hp
          | some d =>
            simp [hl] at hp
            obtain ⟨h1, h2⟩ := hp
            subst h1 h2
            refine ⟨d.key, getLast?_mem hl, fun x => ?_⟩
            simp only [List.mem_cons]
            rw [mem_dropLast_iff w.nodup hl]
      · split at hp
        · simp at hp
          obtain ⟨h1, h2⟩ := hp
          subst h1 h2
          intro x
          simp [List.mem_cons]
        · simp at hp
          obtain ⟨h1, h2⟩ := hp
          subst h1 h2
          intro x
          simp [List.mem_append]
          exact or_comm
  peek_hit h s k nx w hp := by
    simp only [lruOps, LCache.peek] at hp ⊢
    cases hl : lookup s.items k with
    | none => simp [hl] at hp
    | some e =>
      simp [hl] at hp
      obtain ⟨hm, hk⟩ := lookup_some hl
      exact ⟨e.id, by cases e; simp_all, hp.symm⟩
  peek_miss h s k nx w hp := by
    simp only [lruOps, LCache.peek] at hp ⊢
    cases hl : lookup s.items k with
    | none =>
      simp [hl] at hp
      exact ⟨hp.symm, lookup_none hl⟩
    | some e => simp [hl] at hp
  keys_distinct s w := w.nodup

/-! ### Random -/

theorem random_contract : Contract randomOps RCache.WF where
  get_wf h s k w := RCache.get_wf w k
  put_wf h s id hint s' r w hp := RCache.put_wf w hp
  put_no_panic h s id hint s' w := RCache.put_no_panic
  get_hit h s k s' id w hg := by
    simp only [randomOps, RCache.get] at hg ⊢
    cases hl : lookup s.items k with
    | none => simp [hl] at hg
    | some e =>
      simp [hl] at hg
      obtain ⟨h1, h2⟩ := hg
      obtain ⟨hm, hk⟩ := lookup_some hl
      have he : e = ⟨k, id⟩ := by cases e; simp_all
      subst h1
      refine ⟨he ▸ hm, fun x => ?_⟩
      have := mem_removeKey_iff w.nodup hm x
      rw [hk, he] at this
      exact this
  get_miss h s k s' w hg := by
    simp only [randomOps, RCache.get] at hg ⊢
    cases hl : lookup s.items k with
    | none =>
      simp [hl] at hg
      subst hg
      exact ⟨rfl, lookup_none hl⟩
    | some e => simp [hl] at hg
  put_refused h s id hint s' w hp := by
    simp only [randomOps] at hp ⊢
    unfold RCache.put at hp
    simp only at hp
    repeat' split at hp
    all_goals simp_all
    all_goals (first | (rw [← hp.1]) | skip)
  put_kept h s id hint s' ev w hp := by
    simp only [randomOps] at hp ⊢
    unfold RCache.put at hp
    simp only at hp
    split at hp
    · simp at hp
    · rename_i hk
      have hk' : hasKey s.items (h id).base = false := by simpa using hk
      refine ⟨hasKey_false.1 hk', ?_⟩
      split at hp
      · split at hp
        · simp at hp
        · split at hp
          · rename_i hemp
            have : s.items = [] := by simpa using hemp
            simp at hp
            obtain ⟨h1, h2⟩ := hp
            subst h1 h2
            intro x
            simp [this]
          · split at hp
            · simp at hp
            · split at hp
              · simp at hp
              · rename_i v e hf
                split at hp
                · simp at hp
                · simp at hp
                  obtain ⟨h1, h2⟩ := hp
                  subst h1 h2
                  have hmem := List.mem_of_find?_eq_some hf
                  refine ⟨e.key, hmem, fun x => ?_⟩
                  simp only [List.mem_cons]
                  rw [mem_removeKey_iff w.nodup hmem]
      · simp at hp
        obtain ⟨h1, h2⟩ := hp
        subst h1 h2
        intro x
        simp [List.mem_cons]
  peek_hit h s k nx w hp := by
    simp only [randomOps, RCache.peek] at hp ⊢
    cases hl : lookup s.items k with
    | none => simp [hl] at hp
    | some e =>
      simp [hl] at hp
      obtain ⟨hm, hk⟩ := lookup_some hl
      exact ⟨e.id, by cases e; simp_all, hp.symm⟩
  peek_miss h s k nx w hp := by
    simp only [randomOps, RCache.peek] at hp ⊢
    cases hl : lookup s.items k with
    | none =>
      simp [hl] at hp
      exact ⟨hp.symm, lookup_none hl⟩
    | some e => simp [hl] at hp
  keys_distinct s w := w.nodup

/-! ### StatsRecorder -/

theorem recorder_contract {σ : Type} {o : CacheOps σ} {wf : σ → Prop} (c : Contract o wf) :
    Contract (recorderOps o) (fun s => wf s.1) where
  get_wf h s k w := by
    simp only [recorderOps]
    exact c.get_wf h s.1 k w
  put_wf h s id hint s' r w hp := by
    simp only [recorderOps, Option.map_eq_some_iff] at hp
    obtain ⟨⟨c', r'⟩, h1, h2⟩ := hp
    simp only [Prod.mk.injEq] at h2
    rw [← h2.1]
    exact c.put_wf h s.1 id hint c' r' w h1
  put_no_panic h s id hint s' w hp := by
    simp only [recorderOps, Option.map_eq_some_iff] at hp
    obtain ⟨⟨c', r'⟩, h1, h2⟩ := hp
    simp only [Prod.mk.injEq] at h2
    rw [h2.2] at h1
    exact c.put_no_panic h s.1 id hint c' w h1
  get_hit h s k s' id w hg := by
    have hg' : (((o.get h s.1 k).1, s.2.onGet (o.get h s.1 k).2), (o.get h s.1 k).2) = (s', some id) := hg
    show _ ∈ o.held s.1 ∧ ∀ e, e ∈ o.held s'.1 ↔ _
    cases hx : o.get h s.1 k with
    | mk c' r =>
      rw [hx] at hg'
      simp only [Prod.mk.injEq] at hg'
      obtain ⟨h1, h2⟩ := hg'
      subst h2
      rw [← h1]
      exact c.get_hit h s.1 k c' id w hx
  get_miss h s k s' w hg := by
    have hg' : (((o.get h s.1 k).1, s.2.onGet (o.get h s.1 k).2), (o.get h s.1 k).2) = (s', none) := hg
    show o.held s'.1 = o.held s.1 ∧ _
    cases hx : o.get h s.1 k with
    | mk c' r =>
      rw [hx] at hg'
      simp only [Prod.mk.injEq] at hg'
      obtain ⟨h1, h2⟩ := hg'
      subst h2
      rw [← h1]
      exact c.get_miss h s.1 k c' w hx
  put_refused h s id hint s' w hp := by
    simp only [recorderOps, Option.map_eq_some_iff] at hp ⊢
    obtain ⟨⟨c', r'⟩, h1, h2⟩ := hp
    simp only [Prod.mk.injEq] at h2
    rw [h2.2] at h1
    rw [← h2.1]
    exact c.put_refused h s.1 id hint c' w h1
  put_kept h s id hint s' ev w hp := by
    simp only [recorderOps, Option.map_eq_some_iff] at hp ⊢
    obtain ⟨⟨c', r'⟩, h1, h2⟩ := hp
    simp only [Prod.mk.injEq] at h2
    rw [h2.2] at h1
    rw [← h2.1]
    exact c.put_kept h s.1 id hint c' ev w h1
  peek_hit h s k nx w hp := c.peek_hit h s.1 k nx w hp
  peek_miss h s k nx w hp := c.peek_miss h s.1 k nx w hp
  keys_distinct s w := c.keys_distinct s.1 w

/-! ### FIFO breaks `get_hit` -/

/-- block 0: base 0, used -/
def witnessHeap : Heap := fun _ => ⟨0, true, 10⟩

/-- a FIFO of capacity 1 holding the used block 0 under key 0 -/
def witnessFifo : LCache := ⟨1, [⟨0, 0⟩]⟩

theorem witnessFifo_wf : witnessFifo.WF :=
  ⟨by decide, by decide, List.pairwise_singleton _ _⟩

theorem witnessFifo_reachable : (LCache.new 1).put witnessHeap 0 = (witnessFifo, .kept none) := by
  decide

/-- `FIFO.Get` hands out the used block and keeps it indexed -/
theorem fifo_get_keeps_used :
    fifoOps.get witnessHeap witnessFifo 0 = (witnessFifo, some 0) := by decide

theorem fifo_not_contract : ¬ Contract fifoOps LCache.WF := by
  intro c
  have := (c.get_hit witnessHeap witnessFifo 0 witnessFifo 0 witnessFifo_wf fifo_get_keeps_used).2 ⟨0, 0⟩
  simp [fifoOps, witnessFifo] at this

end Hts.Spec.CacheContract
