/-
C07 helper lemmas, part 20: a predicate on (name, data) of every object of a kind is kept by the generic
operations (they copy, move and renumber objects but only SetName, Clone-with-map and replace touch name or data).
-/
import Hts.Lemmas.HeaderFrame
namespace Hts.Model.Header
variable {α : Type}

/-- every object of the heap satisfies `P name data` -/
def DH (P : Bytes → α → Prop) (heap : List (Obj α)) : Prop :=
  ∀ (o : Nat) (x : Obj α), heap[o]? = some x → P x.name x.dat

theorem dh_set {P : Bytes → α → Prop} {heap : List (Obj α)} (h : DH P heap) (o : Nat) (y : Obj α)
    (hy : P y.name y.dat) : DH P (heap.set o y) := by
  intro q x hq
  rw [List.getElem?_set] at hq
  split at hq
  · split at hq
    · cases hq; exact hy
    · cases hq
  · exact h q x hq

theorem dh_snoc {P : Bytes → α → Prop} {heap : List (Obj α)} (h : DH P heap) (y : Obj α)
    (hy : P y.name y.dat) : DH P (heap ++ [y]) := by
  intro q x hq
  rw [snoc_get] at hq
  split at hq
  · exact h q x hq
  · split at hq
    · cases hq; exact hy
    · cases hq

theorem dh_shift {P : Bytes → α → Prop} : ∀ (os : List Nat) (heap : List (Obj α)) (seen : Seen),
    DH P heap → DH P (KW.shift heap seen os).1 := by
  intro os
  induction os with
  | nil => intro heap seen h; exact h
  | cons o os ih =>
    intro heap seen h
    unfold KW.shift
    cases hx : heap[o]? with
    | none => exact ih heap seen h
    | some x => exact ih _ _ (dh_set h o _ (h o x hx))

theorem dh_cloneItems {P : Bytes → α → Prop} (hn : Nat) : ∀ (os : List Nat) (heap : List (Obj α)),
    DH P heap → DH P (KW.cloneItems hn heap os).1 := by
  intro os
  induction os with
  | nil => intro heap h; exact h
  | cons o os ih =>
    intro heap h
    unfold KW.cloneItems
    cases hx : heap[o]? with
    | none => exact ih heap h
    | some x => exact ih _ (dh_snoc h _ (h o x hx))

theorem dh_alloc {P : Bytes → α → Prop} {k : KW α} (h : DH P k.heap) (x : Obj α) (hx : P x.name x.dat) :
    DH P (k.alloc x).1.heap := dh_snoc h x hx

theorem dh_newTab {P : Bytes → α → Prop} {k : KW α} (h : DH P k.heap) : DH P k.newTab.heap := h

theorem dh_addNewU {P : Bytes → α → Prop} {k : KW α} (h : DH P k.heap) (hn o : Nat) : DH P (k.addNewU hn o).heap := by
  unfold KW.addNewU
  split
  · next x t hx _ => exact dh_set h o _ (h o x hx)
  · exact h

theorem dh_addNew {P : Bytes → α → Prop} {k : KW α} (h : DH P k.heap) (hn o : Nat) : DH P (k.addNew hn o).1.heap := by
  unfold KW.addNew
  split
  · split
    · exact h
    · exact dh_addNewU h hn o
  · exact h

theorem dh_addUniq {P : Bytes → α → Prop} {k : KW α} (h : DH P k.heap) (hn o : Nat) : DH P (k.addUniq hn o).1.heap := by
  unfold KW.addUniq
  split
  · split
    · exact h
    · exact dh_addNew h hn o
  · exact h

theorem dh_remove {P : Bytes → α → Prop} {k : KW α} (h : DH P k.heap) (hn o : Nat) : DH P (k.remove hn o).1.heap := by
  unfold KW.remove
  split
  case h_2 => exact h
  next x t hx ht =>
  split
  · exact h
  have h1 := dh_shift (t.items.drop (x.id.toNat + 1)) k.heap (erase t.seen x.name) h
  dsimp only
  split
  · next x1 hx1 => exact dh_set h1 o _ (h1 o x1 hx1)
  · exact h1

theorem dh_setName {P : Bytes → α → Prop} {k : KW α} (h : DH P k.heap) (o : Nat) (n : Bytes)
    (hren : ∀ name d, P name d → P n d) : DH P (k.setName o n).1.heap := by
  unfold KW.setName
  split
  · exact h
  next x hx =>
  split
  · exact dh_set h o _ (hren _ _ (h o x hx))
  · split
    · exact h
    · split
      · split <;> exact h
      · exact dh_set h o _ (hren _ _ (h o x hx))

theorem dh_cloneObj {P : Bytes → α → Prop} {k : KW α} (h : DH P k.heap) (o : Nat) (f : α → α)
    (hf : ∀ name d, P name d → P name (f d)) : DH P (k.cloneObj o f).1.heap := by
  unfold KW.cloneObj
  split
  · next x hx => exact dh_snoc h _ (hf _ _ (h o x hx))
  · exact h

theorem dh_cloneTab {P : Bytes → α → Prop} {k : KW α} (h : DH P k.heap) (s : Nat) : DH P (k.cloneTab s).heap := by
  unfold KW.cloneTab
  split
  · next t _ =>
    have := dh_cloneItems k.tabs.length t.items k.heap h
    generalize KW.cloneItems k.tabs.length k.heap t.items = r at this
    obtain ⟨heap', items'⟩ := r
    exact this
  · exact h

theorem dh_replace {P : Bytes → α → Prop} {k : KW α} (h : DH P k.heap) (hn : Nat) (slot : Int) (eo o : Nat) (d : α)
    (hd : ∀ r, k.heap[o]? = some r → P r.name d) : DH P (k.replace hn slot eo o d).heap := by
  unfold KW.replace
  split
  · next r er t hr her _ => exact dh_set (dh_set h o _ (hd r hr)) eo _ (h eo er her)
  · exact h

theorem dh_foldl_addNewU {P : Bytes → α → Prop} (hn : Nat) : ∀ (os : List Nat) (k : KW α), DH P k.heap →
    DH P (os.foldl (fun k o => k.addNewU hn o) k).heap := by
  intro os
  induction os with
  | nil => intro k h; exact h
  | cons o os ih => intro k h; exact ih _ (dh_addNewU h hn o)

theorem objsOf_mem {k : KW α} {s : Nat} {x : Obj α} (hx : x ∈ objsOf k s) : ∃ (o : Nat), k.heap[o]? = some x := by
  unfold objsOf at hx
  split at hx
  · obtain ⟨o, _, ho⟩ := List.mem_filterMap.1 hx; exact ⟨o, ho⟩
  · cases hx

theorem items_mem {k : KW α} {s : Nat} {e : Int × Bytes × α} (he : e ∈ items k s) :
    ∃ (o : Nat) (x : Obj α), k.heap[o]? = some x ∧ e = (x.id, x.name, x.dat) := by
  unfold items at he
  split at he
  · obtain ⟨o, _, ho⟩ := List.mem_filterMap.1 he
    cases hx : k.heap[o]? with
    | none => simp [hx] at ho
    | some x => simp [hx] at ho; exact ⟨o, x, hx, ho.symm⟩
  · cases he

end Hts.Model.Header
