/-
Lemmas for the BAI reader model (C11).  Core Lean only.
-/
import Hts.Lemmas.Decoders
import Hts.Model.DecodersIndex
namespace Hts.Model.Decoders
open Outcome (ok err)

theorem take?_total (k : Nat) (s : Bytes) : (take? k s).isPanic = false := by
  unfold take?; split <;> rfl

theorem rdI32_total (s : Bytes) : (rdI32 s).isPanic = false := by
  unfold rdI32
  exact bind_total _ _ (take?_total 4 s) (fun v _ => rfl)

theorem rdU32_total (s : Bytes) : (rdU32 s).isPanic = false := by
  unfold rdU32
  exact bind_total _ _ (take?_total 4 s) (fun v _ => rfl)

theorem skip_total (k : Nat) (s : Bytes) : (skip k s).isPanic = false := by
  unfold skip
  exact bind_total _ _ (take?_total k s) (fun v _ => rfl)

theorem readRecords_total (size : Nat) : ∀ (cnt : Nat) (s : Bytes), (readRecords size cnt s).isPanic = false := by
  intro cnt
  induction cnt with
  | zero => intro s; rfl
  | succ cnt ih =>
    intro s
    unfold readRecords
    have := skip_total size s
    cases h : skip size s with
    | ok r => exact ih r
    | err => rfl
    | panic p => rw [h] at this; simp at this

theorem makeLen_pos (site : String) (n : Int) (h : ¬ n < 0) : makeLen site n = ok n.toNat := by
  unfold makeLen; rw [if_neg h]

theorem readChunksM_total (n : Int) (s : Bytes) : (readChunksM n s).isPanic = false := by
  unfold readChunksM
  split
  · rfl
  · split
    · rfl
    · rename_i h
      rw [bind_ok _ _ _ (makeLen_pos _ n h)]
      exact bind_total _ _ (readRecords_total 16 _ s) (fun v _ => rfl)

theorem readIntervalsM_total (s : Bytes) : (readIntervalsM s).isPanic = false := by
  unfold readIntervalsM
  apply bind_total _ _ (rdI32_total s)
  intro v _
  obtain ⟨n, s'⟩ := v
  simp only
  split
  · rfl
  · split
    · rfl
    · rename_i h
      rw [bind_ok _ _ _ (makeLen_pos _ n h)]
      exact bind_total _ _ (readRecords_total 8 _ s') (fun v _ => rfl)

theorem readBinsLoop_total : ∀ (remaining : Nat) (lenBins : Int) (s : Bytes) (acc : BinsAcc),
    (remaining : Int) ≤ lenBins → (readBinsLoop remaining lenBins s acc).isPanic = false := by
  intro remaining
  induction remaining with
  | zero => intro lenBins s acc _; rfl
  | succ remaining ih =>
    intro lenBins s acc hinv
    unfold readBinsLoop
    have h1 := rdU32_total s
    cases e1 : rdU32 s with
    | err => rfl
    | panic p => rw [e1] at h1; simp at h1
    | ok v1 =>
      obtain ⟨bin, s1⟩ := v1
      simp only
      have h2 := rdI32_total s1
      cases e2 : rdI32 s1 with
      | err => rfl
      | panic p => rw [e2] at h2; simp at h2
      | ok v2 =>
        obtain ⟨n, s2⟩ := v2
        simp only
        split
        · split
          · rfl
          · have h3 := skip_total 32 s2
            cases e3 : skip 32 s2 with
            | err => rfl
            | panic p => rw [e3] at h3; simp at h3
            | ok s3 =>
              simp only
              rw [if_neg (by omega)]
              exact ih _ _ _ (by omega)
        · have h3 := readChunksM_total n s2
          cases e3 : readChunksM n s2 with
          | err => rfl
          | panic p => rw [e3] at h3; simp at h3
          | ok v3 =>
            obtain ⟨cnt, s3⟩ := v3
            simp only
            exact ih _ _ _ (by omega)

theorem readBinsM_total (s : Bytes) : (readBinsM s).isPanic = false := by
  unfold readBinsM
  apply bind_total _ _ (rdI32_total s)
  intro v _
  obtain ⟨n, s'⟩ := v
  simp only
  split
  · rfl
  · split
    · rfl
    · rename_i h
      rw [bind_ok _ _ _ (makeLen_pos _ n h)]
      apply readBinsLoop_total
      omega

theorem readRefsLoop_total : ∀ (cnt : Nat) (s : Bytes) (len : Nat), (readRefsLoop cnt s len).isPanic = false := by
  intro cnt
  induction cnt with
  | zero => intro s len; rfl
  | succ cnt ih =>
    intro s len
    unfold readRefsLoop
    have h1 := readBinsM_total s
    cases e1 : readBinsM s with
    | err => rfl
    | panic p => rw [e1] at h1; simp at h1
    | ok v1 =>
      obtain ⟨b, s1⟩ := v1
      simp only
      have h2 := readIntervalsM_total s1
      cases e2 : readIntervalsM s1 with
      | err => rfl
      | panic p => rw [e2] at h2; simp at h2
      | ok v2 =>
        obtain ⟨ni, s2⟩ := v2
        simp only
        exact ih _ _

theorem readIndexBody_total (n : Int) (s : Bytes) (base : Nat) : (readIndexBody n s base).isPanic = false := by
  unfold readIndexBody
  split
  · rfl
  · rename_i h
    rw [bind_ok _ _ _ (makeLen_pos _ n h)]
    apply bind_total _ _ (readRefsLoop_total _ s base)
    intro v _
    obtain ⟨len, rest⟩ := v
    simp only
    split
    · rfl
    · split <;> rfl

theorem readBAI_total' (s : Bytes) : (readBAI s).isPanic = false := by
  unfold readBAI
  apply bind_total _ _ (take?_total 4 s)
  intro v _
  obtain ⟨magic, s1⟩ := v
  simp only
  split
  · rfl
  · apply bind_total _ _ (rdI32_total s1)
    intro v _
    obtain ⟨n, s2⟩ := v
    exact readIndexBody_total _ _ _

theorem take?_length (k : Nat) (s a b : Bytes) (h : take? k s = ok (a, b)) : a.length = k := by
  unfold take? at h
  split at h
  · cases h
  · cases h
    rw [List.length_take]; omega

theorem readNames_total (s : Bytes) : (readNames s).isPanic = false := by
  unfold readNames
  apply bind_total _ _ (rdI32_total s)
  intro v _
  obtain ⟨lnm, s4⟩ := v
  simp only
  split
  · rfl
  · split
    · rfl
    · rename_i hl hz
      rw [bind_ok _ _ _ (makeLen_pos _ lnm hl)]
      apply bind_total _ _ (take?_total _ s4)
      intro v hv
      obtain ⟨names, s5⟩ := v
      simp only
      have hlen := take?_length _ _ _ _ hv
      have hidx : (indexInt "tabix.readTabixHeader:names[len(names)-1]" names ((names.length : Int) - 1)).isPanic = false := by
        unfold indexInt
        rw [if_neg (by omega)]
        apply index_total
        omega
      apply bind_total _ _ hidx
      intro last _
      split
      · rfl
      · rw [bind_ok _ _ _ (sliceTo_of_le _ names _ (by omega))]
        rfl

theorem readTabix_total' (s : Bytes) : (readTabix s).isPanic = false := by
  unfold readTabix
  apply bind_total _ _ (take?_total 4 s)
  intro v _
  obtain ⟨magic, s1⟩ := v
  simp only
  split
  · rfl
  · apply bind_total _ _ (rdI32_total s1)
    intro v _
    obtain ⟨n, s2⟩ := v
    simp only
    apply bind_total _ _ (skip_total 24 s2)
    intro s3 _
    apply bind_total _ _ (readNames_total s3)
    intro v _
    obtain ⟨nNames, lnm, s4⟩ := v
    simp only
    split
    · rfl
    · exact readIndexBody_total _ _ _

end Hts.Model.Decoders
