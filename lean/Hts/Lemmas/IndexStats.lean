/-
Statistics kept by `Add` (per-reference mapped/unmapped counts and chunk span, the unplaced count, the
reference count) equal the true counts of the records added (C15, `stats_true`).
-/
import Hts.Lemmas.IndexAddAll
namespace Hts.Model.Index

/-- the true statistics of the records of one reference, `h` in the order they were added: span from
the first record's chunk begin to the last record's chunk end, number of mapped and of unmapped
records -/
def specStats (h : List Rec) : Option Stats :=
  match h.head?, h.getLast? with
  | some first, some last =>
    some ⟨⟨first.chunk.b, last.chunk.e⟩, h.countP (·.mapped), h.countP (fun r => !r.mapped)⟩
  | _, _ => none

theorem statsOf_spec : ∀ h : List Rec, statsOf h = specStats h.reverse := by
  intro h
  induction h with
  | nil => rfl
  | cons r older ih =>
    simp only [statsOf, ih, List.reverse_cons]
    cases hrev : older.reverse with
    | nil =>
      cases hm : r.mapped <;> simp [specStats, addStats, hm]
    | cons first rest =>
      have hne : first :: rest ≠ [] := by simp
      have hl : (first :: rest).getLast? = some ((first :: rest).getLast hne) := List.getLast?_eq_some_getLast hne
      have hl2 : (first :: (rest ++ [r])).getLast? = some r := by
        rw [← List.cons_append]; exact List.getLast?_concat
      cases hm : r.mapped <;>
        simp [specStats, addStats, hm, hl, hl2, List.countP_append, List.countP_cons] <;> omega

/-- the unplaced counter after one `Add` of an in-range record, whatever the result -/
theorem add_unmapped (i : Index) (r : Rec) (hv : validPos r.start = true ∧ validPos r.stop = true) :
    (add i r).1.unmapped = some (umCount i.unmapped + (if r.placed then 0 else 1)) := by
  unfold add
  simp only [hv.1, hv.2, Bool.and_self, Bool.not_true, Bool.false_eq_true, if_false]
  cases hp : r.placed
  · simp
  · simp only [Bool.not_true, Bool.false_eq_true, if_false, if_true, Nat.add_zero]
    split
    · rfl
    · split
      · rfl
      · split <;> rfl

theorem addAll_unmapped : ∀ (recs : List Rec) (i : Index),
    (∀ r, r ∈ recs → validPos r.start = true ∧ validPos r.stop = true) → recs ≠ [] →
    (addAll i recs).1.unmapped = some (umCount i.unmapped + recs.countP (fun r => !r.placed)) := by
  intro recs
  induction recs with
  | nil => intro i _ h; exact absurd rfl h
  | cons r rs ih =>
    intro i hv _
    have h1 := add_unmapped i r (hv r List.mem_cons_self)
    simp only [addAll]
    cases rs with
    | nil =>
      simp only [addAll, h1, List.countP_cons, List.countP_nil]
      cases r.placed <;> simp
    | cons r2 rs2 =>
      rw [ih (add i r).1 (fun x hx => hv x (List.mem_cons_of_mem _ hx)) (by simp), h1]
      simp only [umCount, List.countP_cons]
      cases r.placed <;> simp <;> omega

end Hts.Model.Index
