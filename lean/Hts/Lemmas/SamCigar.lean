/-
CIGAR text: `ParseCigar` reads back what `Cigar.String` prints, for every CIGAR of operations 0..9 with
28-bit lengths.  Core only.
-/
import Hts.Lemmas.SamDec
import Hts.Lemmas.SamSplit
namespace Hts.Model.SamText
open Hts.Model.Coord (CigarOp)

/-! ### CIGAR text -/

theorem opLetter_facts : ∀ t, t ≤ 9 →
    isDec (opLetter t) = false ∧ opOfLetter (opLetter t) = t ∧ opLetter t ≠ 9 ∧ opLetter t ≠ 42 ∧ opLetter t ≠ 10 := by
  decide

theorem showNat_foldl (m : Nat) : (showNat m).foldl (fun n d => n * 10 + (d.toNat - 48)) 0 = m := by
  induction m using Nat.strongRecOn with
  | _ m ih =>
    rw [showNat_unfold]
    by_cases hm : m < 10
    · simp only [hm, if_true, List.foldl_cons, List.foldl_nil]
      have := (digitChar_facts m hm).2.2.2.2.2.2.2.2.2.1
      omega
    · simp only [hm, if_false, List.foldl_append, List.foldl_cons, List.foldl_nil]
      rw [ih (m / 10) (by omega)]
      have := (digitChar_facts (m % 10) (by omega)).2.2.2.2.2.2.2.2.2.1
      omega

theorem showNat_length_le : ∀ k m, m < 10 ^ (k + 1) → (showNat m).length ≤ k + 1 := by
  intro k
  induction k with
  | zero => intro m h; rw [showNat_unfold]; simp at h; simp [h]
  | succ k ih =>
    intro m h
    rw [showNat_unfold]
    by_cases hm : m < 10
    · simp [hm]
    · simp only [hm, if_false, List.length_append, List.length_singleton]
      have : m / 10 < 10 ^ (k + 1) := by
        rw [Nat.pow_succ] at h; omega
      have := ih (m / 10) this
      omega

theorem cigarAtoi_showNat (m : Nat) (h : m < 268435456) : cigarAtoi (showNat m) = some m := by
  unfold cigarAtoi
  have := showNat_length_le 8 m (by omega)
  rw [if_neg (by omega), showNat_foldl]

theorem emitOps_single (op m : Nat) (h : m < 268435456) :
    emitOps op (m : Int) = some ([⟨op, m⟩], (m : Int) - 268435455) := by
  unfold emitOps maxOpLen
  simp only [Int.toNat_natCast]
  rw [if_neg (by omega)]
  by_cases hm : m = 0
  · subst hm; simp [List.range_succ]
  · have : (m + 268435455 - 1) / 268435455 = 1 := by omega
    simp only [hm, if_false, this]
    simp [List.range_succ]
    omega

theorem parseCigarLoop_digits (ds rest : Bytes) (h : ∀ c ∈ ds, isDec c = true) : ∀ cur op n,
    parseCigarLoop (ds ++ rest) cur op n = parseCigarLoop rest (cur ++ ds) op n := by
  induction ds with
  | nil => intro cur op n; simp
  | cons c ds ih =>
    intro cur op n
    simp only [List.cons_append]
    rw [parseCigarLoop]
    simp only [h c List.mem_cons_self, if_true]
    rw [ih (fun d hd => h d (List.mem_cons_of_mem _ hd))]
    simp

theorem showNat_isDec (m : Nat) : ∀ c ∈ showNat m, isDec c = true := by
  intro c hc
  obtain ⟨d, hd, rfl⟩ := showNat_digits m c hc
  exact (digitChar_facts d hd).2.1

/-- the loop of ParseCigar reads back every operation of a printed CIGAR, whatever `op` and `n` hold -/
theorem parseCigarLoop_format (c : List CigarOp) (h : ∀ co ∈ c, co.typ ≤ 9 ∧ co.len < 268435456) : ∀ op n,
    parseCigarLoop (c.flatMap fun co => showNat co.len ++ [opLetter co.typ]) [] op n = .ok c := by
  induction c with
  | nil => intro op n; simp [parseCigarLoop]
  | cons co rest ih =>
    intro op n
    obtain ⟨ht, hl⟩ := h co List.mem_cons_self
    have hf := opLetter_facts co.typ ht
    simp only [List.flatMap_cons, List.append_assoc, List.singleton_append]
    rw [parseCigarLoop_digits _ _ (showNat_isDec co.len)]
    rw [parseCigarLoop]
    simp only [hf.1, Bool.false_eq_true, if_false, List.nil_append, cigarAtoi_showNat co.len hl, hf.2.1]
    rw [if_neg (by omega), emitOps_single co.typ co.len hl]
    simp only
    rw [ih (fun x hx => h x (List.mem_cons_of_mem _ hx))]
    rfl

theorem formatCigar_ne_star (c : List CigarOp) (hne : c ≠ []) :
    (c.flatMap fun co => showNat co.len ++ [opLetter co.typ]) ≠ [42] := by
  cases c with
  | nil => exact absurd rfl hne
  | cons co rest =>
    obtain ⟨d, tl, hs, _, hdec⟩ := showNat_head co.len
    simp only [List.flatMap_cons, hs, List.cons_append]
    intro heq
    have : d = 42 := by injection heq
    subst this
    exact absurd hdec (by decide)

/-- CIGAR round trip: `ParseCigar(c.String()) = c` -/
theorem parseCigar_formatCigar (c : List CigarOp) (h : ∀ co ∈ c, co.typ ≤ 9 ∧ co.len < 268435456) :
    parseCigar (formatCigar c) = .ok c := by
  unfold parseCigar formatCigar
  cases c with
  | nil => simp
  | cons co rest =>
    simp only [List.isEmpty_cons, Bool.false_eq_true, if_false]
    rw [if_neg (formatCigar_ne_star (co :: rest) (by simp))]
    exact parseCigarLoop_format (co :: rest) h 0 0

theorem formatCigar_no_tab (c : List CigarOp) (h : ∀ co ∈ c, co.typ ≤ 9) : ∀ x ∈ formatCigar c, x ≠ 9 := by
  unfold formatCigar
  intro x hx
  split at hx
  · simp at hx; subst hx; decide
  · simp only [List.mem_flatMap, List.mem_append, List.mem_singleton] at hx
    obtain ⟨co, hco, hx | hx⟩ := hx
    · obtain ⟨d, hd, rfl⟩ := showNat_digits _ x hx
      exact (digitChar_facts d hd).2.2.2.1
    · subst hx; exact (opLetter_facts co.typ (h co hco)).2.2.1

end Hts.Model.SamText
