/-
The sum of two cache kinds is a cache kind (audit M-7): a value of `σ₁ ⊕ σ₂` is "a cache object of kind 1 or
of kind 2".  If both kinds satisfy `Contract`, so does the sum; instantiating the C03 theorems with a sum lets
ONE history attach an LRU, then a Random, then a StatsRecorder (each `SetCache` carries its own object).
-/
import Hts.Lemmas.CacheContract
namespace Hts.Spec.CacheContract
open Hts.Model.Cache

def sumOps {σ₁ σ₂ : Type} (o₁ : CacheOps σ₁) (o₂ : CacheOps σ₂) : CacheOps (σ₁ ⊕ σ₂) where
  put h s id hint :=
    match s with
    | .inl a => (o₁.put h a id hint).map (fun x => (.inl x.1, x.2))
    | .inr b => (o₂.put h b id hint).map (fun x => (.inr x.1, x.2))
  get h s k :=
    match s with
    | .inl a => (.inl (o₁.get h a k).1, (o₁.get h a k).2)
    | .inr b => (.inr (o₂.get h b k).1, (o₂.get h b k).2)
  peek h s k :=
    match s with
    | .inl a => o₁.peek h a k
    | .inr b => o₂.peek h b k
  held s :=
    match s with
    | .inl a => o₁.held a
    | .inr b => o₂.held b

def sumWF {σ₁ σ₂ : Type} (wf₁ : σ₁ → Prop) (wf₂ : σ₂ → Prop) : σ₁ ⊕ σ₂ → Prop
  | .inl a => wf₁ a
  | .inr b => wf₂ b

theorem sum_contract {σ₁ σ₂ : Type} {o₁ : CacheOps σ₁} {o₂ : CacheOps σ₂} {wf₁ : σ₁ → Prop}
    {wf₂ : σ₂ → Prop} (c₁ : Contract o₁ wf₁) (c₂ : Contract o₂ wf₂) :
    Contract (sumOps o₁ o₂) (sumWF wf₁ wf₂) where
  get_wf h s k w := by
    cases s with
    | inl a => exact c₁.get_wf h a k w
    | inr b => exact c₂.get_wf h b k w
  put_wf h s id hint s' r w hp := by
    cases s with
    | inl a =>
      simp only [sumOps, Option.map_eq_some_iff] at hp
      obtain ⟨⟨c', r'⟩, h1, h2⟩ := hp
      simp only [Prod.mk.injEq] at h2
      rw [← h2.1]
      exact c₁.put_wf h a id hint c' r' w h1
    | inr b =>
      simp only [sumOps, Option.map_eq_some_iff] at hp
      obtain ⟨⟨c', r'⟩, h1, h2⟩ := hp
      simp only [Prod.mk.injEq] at h2
      rw [← h2.1]
      exact c₂.put_wf h b id hint c' r' w h1
  put_no_panic h s id hint s' w hp := by
    cases s with
    | inl a =>
      simp only [sumOps, Option.map_eq_some_iff] at hp
      obtain ⟨⟨c', r'⟩, h1, h2⟩ := hp
      simp only [Prod.mk.injEq] at h2
      rw [h2.2] at h1
      exact c₁.put_no_panic h a id hint c' w h1
    | inr b =>
      simp only [sumOps, Option.map_eq_some_iff] at hp
      obtain ⟨⟨c', r'⟩, h1, h2⟩ := hp
      simp only [Prod.mk.injEq] at h2
      rw [h2.2] at h1
      exact c₂.put_no_panic h b id hint c' w h1
  get_hit h s k s' id w hg := by
    cases s with
    | inl a =>
      have hg' : ((Sum.inl (o₁.get h a k).1 : σ₁ ⊕ σ₂), (o₁.get h a k).2) = (s', some id) := hg
      simp only [Prod.mk.injEq] at hg'
      obtain ⟨h1, h2⟩ := hg'
      subst h1
      exact c₁.get_hit h a k _ id w (Prod.ext rfl h2)
    | inr b =>
      have hg' : ((Sum.inr (o₂.get h b k).1 : σ₁ ⊕ σ₂), (o₂.get h b k).2) = (s', some id) := hg
      simp only [Prod.mk.injEq] at hg'
      obtain ⟨h1, h2⟩ := hg'
      subst h1
      exact c₂.get_hit h b k _ id w (Prod.ext rfl h2)
  get_miss h s k s' w hg := by
    cases s with
    | inl a =>
      have hg' : ((Sum.inl (o₁.get h a k).1 : σ₁ ⊕ σ₂), (o₁.get h a k).2) = (s', none) := hg
      simp only [Prod.mk.injEq] at hg'
      obtain ⟨h1, h2⟩ := hg'
      subst h1
      exact c₁.get_miss h a k _ w (Prod.ext rfl h2)
    | inr b =>
      have hg' : ((Sum.inr (o₂.get h b k).1 : σ₁ ⊕ σ₂), (o₂.get h b k).2) = (s', none) := hg
      simp only [Prod.mk.injEq] at hg'
      obtain ⟨h1, h2⟩ := hg'
      subst h1
      exact c₂.get_miss h b k _ w (Prod.ext rfl h2)
  put_refused h s id hint s' w hp := by
    cases s with
    | inl a =>
      simp only [sumOps, Option.map_eq_some_iff] at hp
      obtain ⟨⟨c', r'⟩, h1, h2⟩ := hp
      simp only [Prod.mk.injEq] at h2
      rw [h2.2] at h1
      rw [← h2.1]
      exact c₁.put_refused h a id hint c' w h1
    | inr b =>
      simp only [sumOps, Option.map_eq_some_iff] at hp
      obtain ⟨⟨c', r'⟩, h1, h2⟩ := hp
      simp only [Prod.mk.injEq] at h2
      rw [h2.2] at h1
      rw [← h2.1]
      exact c₂.put_refused h b id hint c' w h1
  put_kept h s id hint s' ev w hp := by
    cases s with
    | inl a =>
      simp only [sumOps, Option.map_eq_some_iff] at hp
      obtain ⟨⟨c', r'⟩, h1, h2⟩ := hp
      simp only [Prod.mk.injEq] at h2
      rw [h2.2] at h1
      rw [← h2.1]
      exact c₁.put_kept h a id hint c' ev w h1
    | inr b =>
      simp only [sumOps, Option.map_eq_some_iff] at hp
      obtain ⟨⟨c', r'⟩, h1, h2⟩ := hp
      simp only [Prod.mk.injEq] at h2
      rw [h2.2] at h1
      rw [← h2.1]
      exact c₂.put_kept h b id hint c' ev w h1
  peek_hit h s k nx w hp := by
    cases s with
    | inl a => exact c₁.peek_hit h a k nx w hp
    | inr b => exact c₂.peek_hit h b k nx w hp
  peek_miss h s k nx w hp := by
    cases s with
    | inl a => exact c₁.peek_miss h a k nx w hp
    | inr b => exact c₂.peek_miss h b k nx w hp
  keys_distinct s w := by
    cases s with
    | inl a => exact c₁.keys_distinct a w
    | inr b => exact c₂.keys_distinct b w

end Hts.Spec.CacheContract
