/-
C19 helper lemmas, part 6: the .fai text form — `readFrom (writeTo idx)` gives the index back.
-/
import Hts.Model.Fai
set_option linter.unusedVariables false
set_option linter.unusedSimpArgs false
namespace Hts.Lemmas.Fai
open Hts.Model.Fai

/-! ### decimal numbers -/

theorem digit_toNat (d : Nat) (h : d < 10) : (digit d).toNat = 48 + d := by
  unfold digit
  rw [UInt8.toNat_ofNat']
  omega

theorem digitVal_digit (d : Nat) (h : d < 10) : digitVal (digit d) = some d := by
  unfold digitVal
  rw [digit_toNat d h]
  have : 48 ≤ 48 + d ∧ 48 + d ≤ 57 := by omega
  simp only [this, and_self, if_true]
  congr 1; omega

theorem readDigits_append (a b : Bytes) (acc : Nat) :
    readDigits (a ++ b) acc = (readDigits a acc).bind (readDigits b) := by
  induction a generalizing acc with
  | nil => rfl
  | cons x xs ih =>
    simp only [List.cons_append, readDigits]
    cases digitVal x with
    | none => rfl
    | some d => exact ih _

theorem showNat_lt (n : Nat) (h : n < 10) : showNat n = [digit n] := by
  rw [showNat]; simp [h]

theorem showNat_ge (n : Nat) (h : ¬ n < 10) : showNat n = showNat (n / 10) ++ [digit (n % 10)] := by
  rw [showNat]; simp [h]

/-- a byte that is a decimal digit -/
def IsDigit (b : UInt8) : Prop := 48 ≤ b.toNat ∧ b.toNat ≤ 57

theorem showNat_spec (n : Nat) :
    readDigits (showNat n) 0 = some n ∧ showNat n ≠ [] ∧ ∀ b ∈ showNat n, IsDigit b := by
  induction n using Nat.strongRecOn with
  | _ n ih =>
    by_cases h : n < 10
    · rw [showNat_lt n h]
      refine ⟨?_, by simp, ?_⟩
      · simp [readDigits, digitVal_digit n h]
      · intro b hb
        simp only [List.mem_singleton] at hb
        rw [hb]; unfold IsDigit; rw [digit_toNat n h]; omega
    · rw [showNat_ge n h]
      obtain ⟨h1, h2, h3⟩ := ih (n / 10) (by omega)
      have hd : n % 10 < 10 := Nat.mod_lt _ (by omega)
      refine ⟨?_, by simp, ?_⟩
      · rw [readDigits_append, h1]
        simp only [Option.bind, readDigits, digitVal_digit _ hd]
        congr 1; omega
      · intro b hb
        rcases List.mem_append.mp hb with hb | hb
        · exact h3 b hb
        · simp only [List.mem_singleton] at hb
          rw [hb]; unfold IsDigit; rw [digit_toNat _ hd]; omega

theorem readNat_showNat (n : Nat) : readNat (showNat n) = some n := by
  unfold readNat
  simp [(showNat_spec n).2.1, (showNat_spec n).1]

/-- decimal formatting and `strconv.ParseInt` round trip for values of Go's `int` range -/
theorem readInt_showNat (n : Nat) (h : n < 2 ^ 63) : readInt (showNat n) = some (n : Int) := by
  obtain ⟨_, hne, hd⟩ := showNat_spec n
  cases hs : showNat n with
  | nil => exact absurd hs hne
  | cons c rest =>
    have hc : IsDigit c := hd c (by rw [hs]; simp)
    unfold IsDigit at hc
    unfold readInt
    have h1 : ¬ c.toNat = 45 := by omega
    have h2 : ¬ c.toNat = 43 := by omega
    simp only [h1, h2, if_false]
    rw [← hs, readNat_showNat]
    simp [h]

/-! ### splitting -/

theorem splitOn_ne_nil (sep : UInt8) (l : Bytes) : splitOn sep l ≠ [] := by
  induction l with
  | nil => simp [splitOn]
  | cons b bs ih =>
    simp only [splitOn]
    split
    · simp
    · split <;> simp

theorem splitOn_no_sep (sep : UInt8) (a : Bytes) (h : sep ∉ a) : splitOn sep a = [a] := by
  induction a with
  | nil => rfl
  | cons b bs ih =>
    have hb : ¬ b = sep := fun e => h (by rw [e]; simp)
    have := ih (fun hm => h (List.mem_cons_of_mem _ hm))
    simp [splitOn, hb, this]

theorem splitOn_append_sep (sep : UInt8) (a rest : Bytes) (h : sep ∉ a) :
    splitOn sep (a ++ sep :: rest) = a :: splitOn sep rest := by
  induction a with
  | nil => simp [splitOn]
  | cons b bs ih =>
    have hb : ¬ b = sep := fun e => h (by rw [e]; simp)
    have := ih (fun hm => h (List.mem_cons_of_mem _ hm))
    simp [splitOn, hb, this]

/-! ### one line of the text -/

/-- `writeRec` without the final LF -/
def lineOf (r : Record) : Bytes :=
  r.name ++ TAB :: (showNat r.length ++ TAB :: (showNat r.start ++ TAB ::
    (showNat r.basesPerLine ++ TAB :: showNat r.bytesPerLine)))

theorem writeRec_eq (r : Record) : writeRec r = lineOf r ++ [LF] := by
  simp [writeRec, lineOf]

/-- bytes allowed in a name for the text form to be readable: no tab, no line feed, no double quote -/
def NameOK (name : Bytes) : Prop := TAB ∉ name ∧ LF ∉ name ∧ DQ ∉ name

theorem digits_no (n : Nat) (x : UInt8) (hx : ¬ IsDigit x) : x ∉ showNat n :=
  fun hm => hx ((showNat_spec n).2.2 x hm)

theorem not_digit_TAB : ¬ IsDigit TAB := by unfold IsDigit; decide
theorem not_digit_LF : ¬ IsDigit LF := by unfold IsDigit; decide
theorem not_digit_DQ : ¬ IsDigit DQ := by unfold IsDigit; decide
theorem not_digit_CR : ¬ IsDigit CR := by unfold IsDigit; decide

theorem lineOf_no_LF (r : Record) (h : NameOK r.name) : LF ∉ lineOf r := by
  unfold lineOf
  simp only [List.mem_append, List.mem_cons, not_or]
  have hd := fun n => digits_no n LF not_digit_LF
  have : ¬ LF = TAB := by decide
  exact ⟨h.2.1, this, hd _, this, hd _, this, hd _, this, hd _⟩

theorem lineOf_ne_nil (r : Record) : lineOf r ≠ [] := by
  unfold lineOf
  cases r.name <;> simp

theorem dropCR_lineOf (r : Record) : dropCR (lineOf r) = lineOf r := by
  -- the last byte is a digit
  obtain ⟨_, hne, hd⟩ := showNat_spec r.bytesPerLine
  obtain ⟨ys, y, hy⟩ : ∃ ys y, showNat r.bytesPerLine = ys ++ [y] :=
    ⟨_, _, (List.dropLast_concat_getLast hne).symm⟩
  have hyd : IsDigit y := hd y (by rw [hy]; simp)
  have hyc : ¬ y = CR := fun e => not_digit_CR (e ▸ hyd)
  have : ∃ pre, lineOf r = pre ++ [y] := by
    refine ⟨r.name ++ TAB :: (showNat r.length ++ TAB :: (showNat r.start ++ TAB ::
      (showNat r.basesPerLine ++ TAB :: ys))), ?_⟩
    unfold lineOf; rw [hy]; simp
  obtain ⟨pre, hpre⟩ := this
  rw [hpre]
  unfold dropCR
  simp [hyc]

theorem splitOn_LF_lines (ls : List Record) (h : ∀ r ∈ ls, NameOK r.name) :
    splitOn LF ((ls.map writeRec).flatten) = ls.map lineOf ++ [[]] := by
  induction ls with
  | nil => rfl
  | cons r rs ih =>
    simp only [List.map_cons, List.flatten_cons, writeRec_eq, List.append_assoc, List.cons_append,
      List.nil_append]
    rw [splitOn_append_sep LF _ _ (lineOf_no_LF r (h r List.mem_cons_self))]
    rw [ih (fun x hx => h x (List.mem_cons_of_mem _ hx))]

theorem csvLines_writeTo (ls : List Record) (h : ∀ r ∈ ls, NameOK r.name) :
    csvLines ((ls.map writeRec).flatten) = ls.map lineOf := by
  unfold csvLines
  rw [splitOn_LF_lines ls h]
  simp only [List.map_append, List.map_map, List.map_cons, List.map_nil, List.filter_append]
  have h1 : (List.map (dropCR ∘ lineOf) ls).filter (fun x => decide (x ≠ [])) = ls.map lineOf := by
    clear h
    induction ls with
    | nil => rfl
    | cons r rs ih =>
      simp only [List.map_cons, Function.comp, dropCR_lineOf, List.filter_cons, lineOf_ne_nil, ne_eq,
        not_false_eq_true, decide_true, if_true]
      rw [← ih]
  rw [h1]
  simp [dropCR]

theorem splitOn_TAB_lineOf (r : Record) (h : NameOK r.name) :
    splitOn TAB (lineOf r) =
      [r.name, showNat r.length, showNat r.start, showNat r.basesPerLine, showNat r.bytesPerLine] := by
  have hd := fun n => digits_no n TAB not_digit_TAB
  unfold lineOf
  rw [splitOn_append_sep TAB _ _ h.1, splitOn_append_sep TAB _ _ (hd _), splitOn_append_sep TAB _ _ (hd _),
    splitOn_append_sep TAB _ _ (hd _), splitOn_no_sep TAB _ (hd _)]

theorem check_ok (fs : List Bytes) (h : ∀ f ∈ fs, DQ ∉ f) : csvFields.check fs = .ok () := by
  induction fs with
  | nil => rfl
  | cons f rest ih =>
    have hf := h f List.mem_cons_self
    have h1 : ¬ (f.head? = some DQ) := by
      intro hh
      cases f with
      | nil => simp at hh
      | cons x xs =>
        simp only [List.head?_cons, Option.some.injEq] at hh
        exact hf (by rw [hh]; simp)
    have h2 : f.contains DQ = false := by
      simp only [List.contains_eq_mem, decide_eq_false_iff_not]; exact hf
    simp only [csvFields.check, h1, h2, if_false, Bool.false_eq_true]
    exact ih (fun g hg => h g (List.mem_cons_of_mem _ hg))

theorem csvFields_lineOf (r : Record) (h : NameOK r.name) :
    csvFields (lineOf r) =
      .ok [r.name, showNat r.length, showNat r.start, showNat r.basesPerLine, showNat r.bytesPerLine] := by
  unfold csvFields
  simp only [splitOn_TAB_lineOf r h]
  have hd := fun n => digits_no n DQ not_digit_DQ
  rw [check_ok]
  · simp
  · intro f hf
    simp only [List.mem_cons, List.not_mem_nil, or_false] at hf
    rcases hf with rfl | rfl | rfl | rfl | rfl
    · exact h.2.2
    all_goals exact hd _

/-- the numeric fields fit Go's `int` -/
def Small (r : Record) : Prop :=
  r.length < 2 ^ 63 ∧ r.start < 2 ^ 63 ∧ r.basesPerLine < 2 ^ 63 ∧ r.bytesPerLine < 2 ^ 63

theorem parseRecord_lineOf (seen : List RawRecord) (r : Record) (hs : Small r)
    (hv : r.toRaw.isValid = true) (hnew : ∀ x ∈ seen, x.name ≠ r.name) :
    parseRecord seen [r.name, showNat r.length, showNat r.start, showNat r.basesPerLine,
      showNat r.bytesPerLine] = .ok r.toRaw := by
  unfold parseRecord
  have : seen.any (fun x => x.name == r.name) = false := by
    simp only [List.any_eq_false, beq_iff_eq]; exact hnew
  simp only [this, Bool.false_eq_true, if_false, readInt_showNat _ hs.1, readInt_showNat _ hs.2.1,
    readInt_showNat _ hs.2.2.1, readInt_showNat _ hs.2.2.2]
  have hv' : (RawRecord.mk r.name (r.length : Int) (r.start : Int) (r.basesPerLine : Int)
      (r.bytesPerLine : Int)).isValid = true := hv
  simp only [hv', if_true]
  rfl

theorem readLines_lines (ls : List Record) :
    ∀ (seen : List RawRecord), (∀ r ∈ ls, NameOK r.name) → (∀ r ∈ ls, Small r) →
      (∀ r ∈ ls, r.toRaw.isValid = true) →
      (ls.map (·.name)).Nodup → (∀ r ∈ ls, ∀ x ∈ seen, x.name ≠ r.name) →
      readLines seen (ls.map lineOf) = .ok (seen.reverse ++ ls.map Record.toRaw) := by
  induction ls with
  | nil => intro seen _ _ _ _ _; simp [readLines]
  | cons r rs ih =>
    intro seen hn hs hv hd hnew
    simp only [List.map_cons, readLines, csvFields_lineOf r (hn r List.mem_cons_self)]
    rw [parseRecord_lineOf seen r (hs r List.mem_cons_self) (hv r List.mem_cons_self)
      (hnew r List.mem_cons_self)]
    simp only
    simp only [List.map_cons, List.nodup_cons, List.mem_map, not_exists, not_and] at hd
    rw [ih (r.toRaw :: seen) (fun x hx => hn x (List.mem_cons_of_mem _ hx))
      (fun x hx => hs x (List.mem_cons_of_mem _ hx)) (fun x hx => hv x (List.mem_cons_of_mem _ hx)) hd.2]
    · simp
    · intro x hx y hy
      rcases List.mem_cons.mp hy with rfl | hy
      · exact fun e => hd.1 x hx e.symm
      · exact hnew x (List.mem_cons_of_mem _ hx) y hy

/-! ### sorting by start -/

theorem insertByStart_perm (r : Record) (l : List Record) : (insertByStart r l).Perm (r :: l) := by
  induction l with
  | nil => exact List.Perm.refl _
  | cons x xs ih =>
    simp only [insertByStart]
    split
    · exact List.Perm.refl _
    · exact ((List.Perm.cons x ih).trans (List.Perm.swap r x xs))

theorem sortByStart_perm (l : List Record) : (sortByStart l).Perm l := by
  induction l with
  | nil => exact List.Perm.refl _
  | cons x xs ih =>
    simp only [sortByStart, List.foldr_cons]
    exact (insertByStart_perm x _).trans (List.Perm.cons x ih)

/-- an index whose starts already increase is written in its own order -/
theorem sortByStart_sorted (l : List Record) (h : l.Pairwise (fun a b => a.start < b.start)) :
    sortByStart l = l := by
  induction l with
  | nil => rfl
  | cons x xs ih =>
    rw [List.pairwise_cons] at h
    simp only [sortByStart, List.foldr_cons]
    have := ih h.2
    simp only [sortByStart] at this
    rw [this]
    cases xs with
    | nil => rfl
    | cons y ys =>
      simp only [insertByStart, h.1 y List.mem_cons_self, if_true]

/-- A representable index: what a Go `Index` built by this package always satisfies, apart from the
double quote; `valid` is the record check `ReadFrom` performs (`Record.isValid`). -/
structure IndexOK (idx : Index) : Prop where
  nodup : (idx.map (·.name)).Nodup
  names : ∀ r ∈ idx, NameOK r.name
  small : ∀ r ∈ idx, Small r
  valid : ∀ r ∈ idx, r.toRaw.isValid = true

theorem readFrom_writeTo (idx : Index) (h : IndexOK idx) :
    readFrom (writeTo idx) = .ok ((sortByStart idx).map Record.toRaw) := by
  have hp := sortByStart_perm idx
  unfold readFrom writeTo
  rw [csvLines_writeTo _ (fun r hr => h.names r (hp.mem_iff.mp hr))]
  rw [readLines_lines _ [] (fun r hr => h.names r (hp.mem_iff.mp hr)) (fun r hr => h.small r (hp.mem_iff.mp hr))
    (fun r hr => h.valid r (hp.mem_iff.mp hr))
    ((hp.map (·.name)).nodup_iff.mpr h.nodup) (by intro _ _ x hx; simp at hx)]
  simp

end Hts.Lemmas.Fai
