/-
Aux field codec: every well-formed aux field written by `buildAux` is read back as itself by one turn of the
`parseAux` loop (one lemma per family: fixed width, NUL-terminated, array), hence the aux list round trip.
-/
import Hts.Lemmas.BamBytes
import Hts.Lemmas.BamWF
import Hts.Lemmas.Bytes
namespace Hts.Model.Bam

/-! ### hex digits -/

theorem unhex_hexDigit : ∀ n : Fin 16, unhex (hexDigit n.val) = some n.val := by decide

theorem hexDigit_ne_zero : ∀ n : Fin 16, (hexDigit n.val == 0#8) = false := by decide

theorem hexEnc_length (v : List Byte) : (hexEnc v).length = 2 * v.length := by
  induction v with
  | nil => rfl
  | cons b bs ih => simp only [hexEnc, List.length_cons, ih]; omega

theorem hexEnc_noZero (v : List Byte) : (hexEnc v).contains 0#8 = false := by
  induction v with
  | nil => rfl
  | cons b bs ih =>
    have h1 := hexDigit_ne_zero ⟨b.toNat / 16, by have := b.isLt; omega⟩
    have h2 := hexDigit_ne_zero ⟨b.toNat % 16, by omega⟩
    simp only [hexEnc, List.contains_cons, ih, Bool.or_false]
    simp only [beq_eq_false_iff_ne, ne_eq] at h1 h2 ⊢
    simp only [Bool.or_eq_false_iff, beq_eq_false_iff_ne, ne_eq]
    exact ⟨fun e => h1 e.symm, fun e => h2 e.symm⟩

/-- H payload: digits → bytes inverts bytes → digits -/
theorem hexDec_hexEnc (v : List Byte) : hexDec (hexEnc v) = .ok v := by
  induction v with
  | nil => rfl
  | cons b bs ih =>
    have hb := b.isLt
    have h1 := unhex_hexDigit ⟨b.toNat / 16, by omega⟩
    have h2 := unhex_hexDigit ⟨b.toNat % 16, by omega⟩
    simp only at h1 h2
    have hv : byteOf (b.toNat / 16 * 16 + b.toNat % 16) = b := by
      have : b.toNat / 16 * 16 + b.toNat % 16 = b.toNat := by omega
      rw [this, byteOf_of_toNat]
    simp only [hexEnc, hexDec, h1, h2, ih, hv]


theorem hexDec_err : ∀ (l : List Byte) (e : Fault), hexDec l = .error e → e = .errAuxHexDigit
  | [], e, h => by simp [hexDec] at h
  | [_], e, h => by simp [hexDec] at h
  | a :: b :: rest, e, h => by
    simp only [hexDec] at h
    split at h
    · split at h
      · rename_i f hf
        cases h
        exact hexDec_err rest _ hf
      · cases h
    · cases h; rfl

theorem decodeHex_err (f : List Byte) (e : Fault) (h : decodeHex f = .error e) :
    e = .errAuxHexOdd ∨ e = .errAuxHexDigit := by
  unfold decodeHex at h
  split at h
  · cases h; exact Or.inl rfl
  · split at h
    · rename_i e' he
      cases h
      exact Or.inr (hexDec_err _ _ he)
    · cases h

/-- one aux field as written (`encAuxT` on the field's own type byte) -/
def encAux (a : List Byte) : List Byte := encAuxT (a.getD 2 0#8) a

theorem encAux_H (t0 t1 : Byte) (v : List Byte) :
    encAux (t0 :: t1 :: 72#8 :: v) = t0 :: t1 :: 72#8 :: (hexEnc v ++ [0#8]) := by
  simp [encAux, encAuxT]

theorem encAux_Z (t0 t1 : Byte) (v : List Byte) :
    encAux (t0 :: t1 :: 90#8 :: v) = t0 :: t1 :: 90#8 :: (v ++ [0#8]) := by
  simp [encAux, encAuxT]

theorem encAux_other (t0 t1 t : Byte) (v : List Byte) (h : isZH t = false) :
    encAux (t0 :: t1 :: t :: v) = t0 :: t1 :: t :: v := by
  simp only [isZH, Bool.or_eq_false_iff] at h
  simp [encAux, encAuxT, h.1, h.2]

def encAuxAll (as : List (List Byte)) : List Byte := as.flatMap encAux

theorem auxOK_length {a : List Byte} (h : auxOK a = true) : 3 ≤ a.length := by
  match a, h with
  | _ :: _ :: _ :: _, _ => simp

theorem buildAux_ok (as : List (List Byte)) (h : ∀ a ∈ as, auxOK a = true) :
    buildAux as = .ok (encAuxAll as) := by
  induction as with
  | nil => rfl
  | cons a as ih =>
    have ha := h a (by simp)
    have ih' := ih (fun b hb => h b (by simp [hb]))
    match a, ha with
    | t0 :: t1 :: t :: v, _ =>
      simp [buildAux, ih', encAuxAll, encAux]

theorem indexZero_append (a rest : List Byte) (h : a.contains 0#8 = false) :
    indexZero (a ++ 0#8 :: rest) = some a.length := by
  induction a with
  | nil => simp [indexZero]
  | cons x xs ih =>
    simp only [List.contains_cons, Bool.or_eq_false_iff] at h
    have hx : (x == 0#8) = false := by
      have := h.1
      simp only [beq_eq_false_iff_ne, ne_eq] at this ⊢
      exact fun e => this e.symm
    simp [indexZero, hx, ih h.2]


theorem elemWidth_jumps {t : Byte} {w : Nat} (h : elemWidth t = some w) : jumps t = (w : Int) ∧ 0 < w := by
  unfold elemWidth at h
  split at h
  · rename_i hc; simp only [Bool.or_eq_true, beq_iff_eq] at hc
    rcases hc with rfl | rfl <;> (simp_all [jumps]; omega)
  split at h
  · rename_i hc; simp only [Bool.or_eq_true, beq_iff_eq] at hc
    rcases hc with rfl | rfl <;> (simp_all [jumps]; omega)
  split at h
  · rename_i hc; simp only [Bool.or_eq_true, beq_iff_eq] at hc
    rcases hc with (rfl | rfl) | rfl <;> (simp_all [jumps]; omega)
  · simp at h

theorem elemWidth_notZH {t : Byte} {w : Nat} (h : elemWidth t = some w) : isZH t = false ∧ (t == 66#8) = false ∧ (t == 65#8) = false := by
  unfold elemWidth at h
  split at h
  · rename_i hc; simp only [Bool.or_eq_true, beq_iff_eq] at hc
    rcases hc with rfl | rfl <;> decide
  split at h
  · rename_i hc; simp only [Bool.or_eq_true, beq_iff_eq] at hc
    rcases hc with rfl | rfl <;> decide
  split at h
  · rename_i hc; simp only [Bool.or_eq_true, beq_iff_eq] at hc
    rcases hc with (rfl | rfl) | rfl <;> decide
  · simp at h

theorem elemWidth_isElemType {t : Byte} {w : Nat} (h : elemWidth t = some w) : isElemType t = true := by
  unfold elemWidth at h
  split at h
  · rename_i hc; simp only [Bool.or_eq_true, beq_iff_eq] at hc
    rcases hc with rfl | rfl <;> rfl
  split at h
  · rename_i hc; simp only [Bool.or_eq_true, beq_iff_eq] at hc
    rcases hc with rfl | rfl <;> rfl
  split at h
  · rename_i hc; simp only [Bool.or_eq_true, beq_iff_eq] at hc
    rcases hc with (rfl | rfl) | rfl <;> rfl
  · simp at h

/-- a fixed-width field is consumed whole -/
theorem parse_fixed (fuel : Nat) (t0 t1 t : Byte) (v rest : List Byte) (acc : List (List Byte)) (w : Nat)
    (hj : jumps t = (w : Int)) (hw : 0 < w) (hv : v.length = w) :
    parseAuxFuel (fuel + 1) (t0 :: t1 :: t :: (v ++ rest)) acc = parseAuxFuel fuel rest ((t0 :: t1 :: t :: v) :: acc) := by
  have hpos : jumps t > 0 := by omega
  have hn : (jumps t).toNat + 3 = w + 3 := by omega
  have hlen : ¬ ((t0 :: t1 :: t :: (v ++ rest)).length < w + 3) := by simp; omega
  have hd : (t0 :: t1 :: t :: (v ++ rest)).drop (w + 3) = rest := by
    simp [← hv]
  have ht : (t0 :: t1 :: t :: (v ++ rest)).take (w + 3) = t0 :: t1 :: t :: v := by
    simp [← hv]
  simp only [parseAuxFuel, hpos, ↓reduceIte, hn, hlen, hd, ht]


/-- a `Z` field is consumed up to and including its NUL; the NUL is not part of the field -/
theorem parse_z (fuel : Nat) (t0 t1 : Byte) (v rest : List Byte) (acc : List (List Byte))
    (hz : (t0 :: t1 :: 90#8 :: v).contains 0#8 = false) :
    parseAuxFuel (fuel + 1) (t0 :: t1 :: 90#8 :: (v ++ 0#8 :: rest)) acc
      = parseAuxFuel fuel rest ((t0 :: t1 :: 90#8 :: v) :: acc) := by
  have hj : jumps 90#8 = -1 := rfl
  have ht : isZH 90#8 = true := rfl
  have hi := indexZero_append (t0 :: t1 :: 90#8 :: v) rest hz
  simp only [List.cons_append] at hi
  have hd : (t0 :: t1 :: 90#8 :: (v ++ 0#8 :: rest)).drop ((t0 :: t1 :: 90#8 :: v).length + 1) = rest := by
    simp
  have htk : (t0 :: t1 :: 90#8 :: (v ++ 0#8 :: rest)).take ((t0 :: t1 :: 90#8 :: v).length)
      = t0 :: t1 :: 90#8 :: v := by
    simp
  have hk : ¬ ((t0 :: t1 :: 90#8 :: v).length < 3) := by simp
  have h72 : (90#8 == 72#8) = false := rfl
  simp only [parseAuxFuel, hj, ht, hi, hk, hd, htk, h72]
  simp

/-- an `H` field: the digits up to the NUL are consumed and decoded back into the in-memory bytes -/
theorem parse_h (fuel : Nat) (t0 t1 : Byte) (v rest : List Byte) (acc : List (List Byte))
    (h0 : t0 ≠ 0#8) (h1 : t1 ≠ 0#8) :
    parseAuxFuel (fuel + 1) (t0 :: t1 :: 72#8 :: (hexEnc v ++ 0#8 :: rest)) acc
      = parseAuxFuel fuel rest ((t0 :: t1 :: 72#8 :: v) :: acc) := by
  have hj : jumps 72#8 = -1 := rfl
  have ht : isZH 72#8 = true := rfl
  have hz : (t0 :: t1 :: 72#8 :: hexEnc v).contains 0#8 = false := by
    have := hexEnc_noZero v
    simp only [List.contains_cons, this, Bool.or_false, Bool.or_eq_false_iff, beq_eq_false_iff_ne, ne_eq]
    exact ⟨fun e => h0 e.symm, fun e => h1 e.symm, by decide⟩
  have hi := indexZero_append (t0 :: t1 :: 72#8 :: hexEnc v) rest hz
  simp only [List.cons_append] at hi
  have hd : (t0 :: t1 :: 72#8 :: (hexEnc v ++ 0#8 :: rest)).drop ((t0 :: t1 :: 72#8 :: hexEnc v).length + 1)
      = rest := by
    simp
  have htk : (t0 :: t1 :: 72#8 :: (hexEnc v ++ 0#8 :: rest)).take ((t0 :: t1 :: 72#8 :: hexEnc v).length)
      = t0 :: t1 :: 72#8 :: hexEnc v := by
    simp
  have hk : ¬ ((t0 :: t1 :: 72#8 :: hexEnc v).length < 3) := by simp
  have hdec : decodeHex (t0 :: t1 :: 72#8 :: hexEnc v) = .ok (t0 :: t1 :: 72#8 :: v) := by
    have hl := hexEnc_length v
    have hodd : ((hexEnc v).length % 2 == 1) = false := by
      simp only [hl, beq_eq_false_iff_ne, ne_eq]; omega
    simp [decodeHex, hodd, hexDec_hexEnc]
  have h72 : (72#8 == 72#8) = true := rfl
  simp only [parseAuxFuel, hj, ht, hi, hk, hd, htk, h72, hdec]
  simp

/-- an array is consumed whole -/
theorem parse_b (fuel : Nat) (t0 t1 sub n0 n1 n2 n3 : Byte) (elems rest : List Byte) (acc : List (List Byte)) (w : Nat)
    (hw : elemWidth sub = some w) (hl : elems.length = getU32 n0 n1 n2 n3 * w) :
    parseAuxFuel (fuel + 1) (t0 :: t1 :: 66#8 :: sub :: n0 :: n1 :: n2 :: n3 :: (elems ++ rest)) acc
      = parseAuxFuel fuel rest ((t0 :: t1 :: 66#8 :: sub :: n0 :: n1 :: n2 :: n3 :: elems) :: acc) := by
  obtain ⟨hj, hw0⟩ := elemWidth_jumps hw
  have hjv : (getU32 n0 n1 n2 n3 : Int) * jumps sub + 8 = ((elems.length + 8 : Nat) : Int) := by
    rw [hj, ← Int.natCast_mul, ← hl]; omega
  have hB : jumps 66#8 = -1 := rfl
  have hzh : isZH 66#8 = false := rfl
  have hlen : ((t0 :: t1 :: 66#8 :: sub :: n0 :: n1 :: n2 :: n3 :: (elems ++ rest)).length : Int)
      = ((elems.length + 8 : Nat) : Int) + rest.length := by
    simp only [List.length_cons, List.length_append]; omega
  have hd : (t0 :: t1 :: 66#8 :: sub :: n0 :: n1 :: n2 :: n3 :: (elems ++ rest)).drop (elems.length + 8) = rest := by
    simp
  have htk : (t0 :: t1 :: 66#8 :: sub :: n0 :: n1 :: n2 :: n3 :: (elems ++ rest)).take (elems.length + 8)
      = t0 :: t1 :: 66#8 :: sub :: n0 :: n1 :: n2 :: n3 :: elems := by
    simp
  have c1 : ¬ (((elems.length + 8 : Nat) : Int) < 0) := by omega
  have c2 : ¬ (((elems.length + 8 : Nat) : Int) + (rest.length : Int) < ((elems.length + 8 : Nat) : Int)) := by omega
  have c3 : (((elems.length + 8 : Nat) : Int) == 0) = false := by
    simp only [beq_eq_false_iff_ne, ne_eq]; omega
  have he : isElemType sub = true := elemWidth_isElemType hw
  simp only [parseAuxFuel, hB, hzh, he, hjv, hlen, Int.toNat_natCast, hd, htk]
  simp
  intro h
  omega


theorem auxOK_cons3 (t0 t1 t : Byte) (v : List Byte) :
    auxOK (t0 :: t1 :: t :: v) =
      (if t == 65#8 then v.length == 1
       else if t == 90#8 then !(t0 :: t1 :: t :: v).contains 0#8
       else if t == 72#8 then t0 != 0#8 && t1 != 0#8
       else if t == 66#8 then
         match v with
         | sub :: n0 :: n1 :: n2 :: n3 :: elems =>
           match elemWidth sub with
           | some w => elems.length == getU32 n0 n1 n2 n3 * w
           | none => false
         | _ => false
       else
         match elemWidth t with
         | some w => v.length == w
         | none => false) := rfl

/-- aux field codec: one well-formed field written by `buildAux` is read back as itself by one turn of the loop -/
theorem parse_step (fuel : Nat) (a rest : List Byte) (acc : List (List Byte)) (h : auxOK a = true) :
    parseAuxFuel (fuel + 1) (encAux a ++ rest) acc = parseAuxFuel fuel rest (a :: acc) := by
  match a, h with
  | t0 :: t1 :: t :: v, h =>
    rw [auxOK_cons3] at h
    split at h
    · -- 'A'
      rename_i hA
      have hA' : t = 65#8 := by simpa using hA
      subst hA'
      have hv : v.length = 1 := by simpa using h
      rw [encAux_other _ _ _ _ rfl]
      exact parse_fixed fuel t0 t1 65#8 v rest acc 1 rfl (by omega) hv
    split at h
    · -- 'Z'
      rename_i _ hZ
      have hZ' : t = 90#8 := by simpa using hZ
      subst hZ'
      have hz : (t0 :: t1 :: 90#8 :: v).contains 0#8 = false := by simpa using h
      rw [encAux_Z]
      simp only [List.cons_append, List.append_assoc]
      exact parse_z fuel t0 t1 v rest acc hz
    split at h
    · -- 'H'
      rename_i _ _ hH
      have hH' : t = 72#8 := by simpa using hH
      subst hH'
      simp only [Bool.and_eq_true, bne_iff_ne, ne_eq] at h
      rw [encAux_H]
      simp only [List.cons_append, List.append_assoc]
      exact parse_h fuel t0 t1 v rest acc h.1 h.2
    split at h
    · -- 'B'
      rename_i _ _ _ hB
      have hB' : t = 66#8 := by simpa using hB
      subst hB'
      rw [encAux_other _ _ _ _ rfl]
      split at h
      · rename_i sub n0 n1 n2 n3 elems
        split at h
        · rename_i w hw
          have hl : elems.length = getU32 n0 n1 n2 n3 * w := by simpa using h
          simp only [List.cons_append]
          exact parse_b fuel t0 t1 sub n0 n1 n2 n3 elems rest acc w hw hl
        · simp at h
      · simp at h
    · -- c C s S i I f
      split at h
      · rename_i w hw
        have hv : v.length = w := by simpa using h
        obtain ⟨hj, hw0⟩ := elemWidth_jumps hw
        have hz := (elemWidth_notZH hw).1
        rw [encAux_other _ _ _ _ hz]
        exact parse_fixed fuel t0 t1 t v rest acc w hj hw0 hv
      · simp at h

/-- aux list codec: `parseAux ∘ buildAux = id` on well-formed fields (any sufficient fuel, any accumulator) -/
theorem parseAuxFuel_encAuxAll (as : List (List Byte)) (h : ∀ a ∈ as, auxOK a = true) :
    ∀ (fuel : Nat) (acc : List (List Byte)), as.length < fuel →
      parseAuxFuel fuel (encAuxAll as) acc = .ok (acc.reverse ++ as) := by
  induction as with
  | nil =>
    intro fuel acc hf
    match fuel, hf with
    | f + 1, _ => simp [encAuxAll, parseAuxFuel]
  | cons a as ih =>
    intro fuel acc hf
    match fuel, hf with
    | f + 1, hf =>
      have ha := h a (by simp)
      have e : encAuxAll (a :: as) = encAux a ++ encAuxAll as := by simp [encAuxAll]
      rw [e, parse_step f a _ acc ha, ih (fun b hb => h b (by simp [hb])) f (a :: acc) (by simpa using hf)]
      simp

theorem encAux_length (a : List Byte) (h : 3 ≤ a.length) : (encAux a).length = auxSize1 a := by
  match a, h with
  | t0 :: t1 :: t :: v, _ =>
    have hg : (t0 :: t1 :: t :: v).getD 2 0#8 = t := rfl
    simp only [encAux, encAuxT, auxSize1, hg]
    split
    · simp [hexEnc_length]; omega
    · split <;> simp

theorem encAux_length_pos (a : List Byte) (h : auxOK a = true) : 0 < (encAux a).length := by
  have h3 := auxOK_length h
  rw [encAux_length a h3]
  simp only [auxSize1]
  split
  · omega
  · split <;> omega

theorem encAuxAll_length_ge (as : List (List Byte)) (h : ∀ a ∈ as, auxOK a = true) :
    as.length ≤ (encAuxAll as).length := by
  induction as with
  | nil => simp
  | cons a as ih =>
    have := encAux_length_pos a (h a (by simp))
    have := ih (fun b hb => h b (by simp [hb]))
    simp only [encAuxAll, List.flatMap_cons, List.length_append, List.length_cons] at *
    omega

theorem parseAux_encAuxAll (as : List (List Byte)) (h : ∀ a ∈ as, auxOK a = true) :
    parseAux (encAuxAll as) = .ok as := by
  have := parseAuxFuel_encAuxAll as h ((encAuxAll as).length + 1) [] (by have := encAuxAll_length_ge as h; omega)
  simpa [parseAux] using this

theorem encAuxAll_length (as : List (List Byte)) (h : ∀ a ∈ as, auxOK a = true) :
    (encAuxAll as).length = auxSize as := by
  induction as with
  | nil => rfl
  | cons a as ih =>
    have ih' := ih (fun b hb => h b (by simp [hb]))
    have ha := encAux_length a (auxOK_length (h a (by simp)))
    simp only [encAuxAll, List.flatMap_cons, List.length_append, auxSize, List.map_cons, List.sum_cons] at *
    rw [ih', ha]

end Hts.Model.Bam
