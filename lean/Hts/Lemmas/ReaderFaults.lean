import Hts.Model.ReaderFaults
namespace Hts.Model.ReaderFaults

theorem readAll_prefix (cut : Option Nat) (kind : FaultKind) :
    ∀ (off : Nat) (ms : List Member), ∃ rest, flat ms = (readAll cut kind off ms).1 ++ rest
  | off, [] => by
    refine ⟨[], ?_⟩
    simp only [readAll]
    split
    · split <;> rfl
    · rfl
  | off, m :: ms => by
    simp only [readAll]
    split
    · obtain ⟨rest, hr⟩ := readAll_prefix cut kind (off + m.csize) ms
      refine ⟨rest, ?_⟩
      simp only [flat, List.map_cons, List.flatten_cons] at hr ⊢
      rw [hr, List.append_assoc]
    · refine ⟨flat (m :: ms), ?_⟩
      split
      · split <;> rfl
      · rfl

/-- a clean end is reported only with all data delivered, or (truncated source) with the cut on a member
    boundary and exactly the members before it delivered -/
theorem readAll_eof (cut : Option Nat) (kind : FaultKind) :
    ∀ (off : Nat) (ms : List Member), (readAll cut kind off ms).2 = .eof →
      (readAll cut kind off ms).1 = flat ms ∨
      (kind = .eof ∧ ∃ p, cut = some p ∧ p ∈ boundaries off ms)
  | off, [], _ => by
    left
    simp only [readAll]
    split
    · split <;> rfl
    · rfl
  | off, m :: ms, h => by
    simp only [readAll] at h ⊢
    split at h
    · rename_i hav
      simp only [hav, if_true]
      rcases readAll_eof cut kind (off + m.csize) ms h with ih | ⟨hk, p, hp, hm⟩
      · left
        simp only [ih, flat, List.map_cons, List.flatten_cons]
      · right
        exact ⟨hk, p, hp, by simp [boundaries, hm]⟩
    · rename_i hav
      right
      split at h
      · rename_i p
        split at h
        · rename_i hpo
          exact ⟨rfl, p, rfl, by simp [boundaries, hpo]⟩
        · cases h
      · cases h

/-- an error-kind fault at or before the end of the file is never swallowed -/
theorem readAll_err_reported (p : Nat) :
    ∀ (off : Nat) (ms : List Member), p ≤ fileEnd off ms → (readAll (some p) .err off ms).2 = .err
  | off, [], h2 => by
    simp only [fileEnd] at h2
    simp [readAll, h2]
  | off, m :: ms, h2 => by
    simp only [readAll]
    split
    · exact readAll_err_reported p (off + m.csize) ms (by simpa [fileEnd] using h2)
    · rfl

theorem readAllLen_eq (cut : Option Nat) (kind : FaultKind) :
    ∀ (off : Nat) (ms : List Member),
      readAllLen cut kind off (ms.map fun m => (m.csize, m.payload.length)) =
        ((readAll cut kind off ms).1.length, (readAll cut kind off ms).2)
  | off, [] => by
    simp only [List.map_nil, readAllLen, readAll]
    split
    · split <;> rfl
    · rfl
  | off, m :: ms => by
    simp only [List.map_cons, readAllLen, readAll]
    split
    · simp [readAllLen_eq cut kind (off + m.csize) ms]
    · split
      · split <;> rfl
      · rfl

end Hts.Model.ReaderFaults
