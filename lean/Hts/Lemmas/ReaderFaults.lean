import Hts.Model.ReaderFaults
