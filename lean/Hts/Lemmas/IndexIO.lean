/-
Round trip of the BAI serialisation (model: Hts.Model.IndexIO): reading what was written gives the
canonical form `norm i`; little-endian integer lemmas; the parser lemmas shared with tabix and CSI.
-/
import Hts.Lemmas.IndexChunks
import Hts.Model.IndexIO
namespace Hts.Model.IndexIO
open Hts.Model.Index

/-! ### little-endian integers -/

theorem rU32_le32 (n : Nat) (h : n < 4294967296) (rest : Bytes) : rU32 (le32 n ++ rest) = .ok (n, rest) := by
  have hb : ∀ i, (byteAt n i).toNat = n / 256 ^ i % 256 := by intro i; simp [byteAt]
  simp only [le32, List.cons_append, List.nil_append, rU32, hb]
  congr 2
  omega

theorem rI32_i32 (x : Int) (h1 : -2147483648 ≤ x) (h2 : x < 2147483648) (rest : Bytes) :
    rI32 (i32 x ++ rest) = .ok (x, rest) := by
  unfold rI32 i32
  rw [rU32_le32 _ (by omega)]
  simp only [signed32]
  congr 2
  split <;> omega

theorem rI32_le32 (n : Nat) (h : n < 2147483648) (rest : Bytes) : rI32 (le32 n ++ rest) = .ok ((n : Int), rest) := by
  unfold rI32
  rw [rU32_le32 _ (by omega)]
  simp [signed32, h]

theorem rU64_le64 (n : Nat) (h : n < 18446744073709551616) (rest : Bytes) :
    rU64 (le64 n ++ rest) = .ok (n, rest) := by
  unfold rU64 le64
  rw [List.append_assoc, rU32_le32 _ (by omega)]
  simp only
  rw [rU32_le32 _ (by omega)]
  simp only
  congr 2
  omega

/-- an offset that fits the signed 64-bit `vOffset` -/
def OffOK (x : Int) : Prop := -9223372036854775808 ≤ x ∧ x < 9223372036854775808

theorem rOff_i64 (x : Int) (h : OffOK x) (rest : Bytes) : rOff (i64 x ++ rest) = .ok (x, rest) := by
  unfold rOff i64
  rw [rU64_le64 _ (by unfold OffOK at h; omega)]
  simp only [signed64]
  congr 2
  unfold OffOK at h
  split <;> omega

/-! ### repetition -/

theorem rep_flatMap {α : Type} (p : P α) (w : α → Bytes) : ∀ (xs : List α) (rest : Bytes),
    (∀ x, x ∈ xs → ∀ rest', p (w x ++ rest') = .ok (x, rest')) →
    rep p xs.length (xs.flatMap w ++ rest) = .ok (xs, rest) := by
  intro xs
  induction xs with
  | nil => intro rest _; rfl
  | cons x xs ih =>
    intro rest h
    simp only [List.length_cons, List.flatMap_cons, List.append_assoc, rep]
    rw [h x List.mem_cons_self]
    simp only
    rw [ih rest (fun y hy => h y (List.mem_cons_of_mem _ hy))]

theorem counted_flatMap {α : Type} (p : P α) (w : α → Bytes) (xs : List α) (rest : Bytes)
    (h : ∀ x, x ∈ xs → ∀ rest', p (w x ++ rest') = .ok (x, rest')) :
    counted (xs.length : Int) p (xs.flatMap w ++ rest) = .ok (xs, rest) := by
  unfold counted
  have : ¬ ((xs.length : Int) < 0) := by omega
  simp only [this, if_false, Int.toNat_natCast]
  exact rep_flatMap p w xs rest h

/-- the same when the value read back is a function of the value written -/
theorem rep_map_flatMap {α β : Type} (p : P β) (w : α → Bytes) (f : α → β) : ∀ (xs : List α) (rest : Bytes),
    (∀ x, x ∈ xs → ∀ rest', p (w x ++ rest') = .ok (f x, rest')) →
    rep p xs.length (xs.flatMap w ++ rest) = .ok (xs.map f, rest) := by
  intro xs
  induction xs with
  | nil => intro rest _; rfl
  | cons x xs ih =>
    intro rest h
    simp only [List.length_cons, List.flatMap_cons, List.append_assoc, rep, List.map_cons]
    rw [h x List.mem_cons_self]
    simp only
    rw [ih rest (fun y hy => h y (List.mem_cons_of_mem _ hy))]

theorem counted_map_flatMap {α β : Type} (p : P β) (w : α → Bytes) (f : α → β) (xs : List α) (rest : Bytes)
    (h : ∀ x, x ∈ xs → ∀ rest', p (w x ++ rest') = .ok (f x, rest')) :
    counted (xs.length : Int) p (xs.flatMap w ++ rest) = .ok (xs.map f, rest) := by
  unfold counted
  have : ¬ ((xs.length : Int) < 0) := by omega
  simp only [this, if_false, Int.toNat_natCast]
  exact rep_map_flatMap p w f xs rest h

theorem rBytes_append' (a rest : Bytes) : rBytes a.length (a ++ rest) = .ok (a, rest) := by
  unfold rBytes
  simp

/-! ### well-formedness -/

/-- sizes and ranges that the format can store (independent of the order of bins, chunks and tiles) -/
structure RefBounds (r : RefIndex) : Prop where
  nb : r.bins.length + (if r.stats.isSome then 1 else 0) < 2147483648
  bins : ∀ b, b ∈ r.bins → b.bin < 4294967296 ∧ b.bin ≠ statsDummyBin ∧ b.chunks.length < 2147483648 ∧
    ∀ c, c ∈ b.chunks → OffOK c.b ∧ OffOK c.e
  stats : ∀ s, r.stats = some s →
    OffOK s.chunk.b ∧ OffOK s.chunk.e ∧ s.mapped < 18446744073709551616 ∧ s.unmapped < 18446744073709551616
  ivlen : r.intervals.length < 2147483648
  ivs : ∀ v, v ∈ r.intervals → OffOK v

/-- the order `sort()` and the readers establish -/
structure RefSorted (r : RefIndex) : Prop where
  bins : r.bins.Pairwise (fun a b => leBin a b = true)
  chunks : ∀ b, b ∈ r.bins → b.chunks.Pairwise (fun a b => leChunk a b = true)
  ivs : r.intervals.Pairwise (fun a b => leOff a b = true)

/-- an index the formats can represent, with a truthful `IsSorted` flag -/
structure WF (i : Index) : Prop where
  nrefs : i.refs.length < 2147483648
  bounds : ∀ r, r ∈ i.refs → RefBounds r
  flag : i.isSorted = true → ∀ r, r ∈ i.refs → RefSorted r
  um : ∀ n, i.unmapped = some n → n < 18446744073709551616

theorem sortRef_sorted (r : RefIndex) : RefSorted (sortRef r) :=
  { bins := by
      show ((r.bins.mergeSort leBin).map _).Pairwise _
      rw [List.pairwise_map]
      exact (List.pairwise_mergeSort leBin_trans leBin_total r.bins).imp (by intro a b h; exact h)
    chunks := by
      intro b hb
      obtain ⟨b0, _, rfl⟩ := List.mem_map.1 hb
      exact List.pairwise_mergeSort leChunk_trans leChunk_total _
    ivs := List.pairwise_mergeSort leOff_trans leOff_total _ }

theorem sortRef_bounds (r : RefIndex) (h : RefBounds r) : RefBounds (sortRef r) :=
  { nb := by
      show ((r.bins.mergeSort leBin).map _).length + (if r.stats.isSome then 1 else 0) < _
      rw [List.length_map, (List.mergeSort_perm r.bins leBin).length_eq]; exact h.nb
    bins := by
      intro b hb
      obtain ⟨b0, hb0, rfl⟩ := List.mem_map.1 hb
      have hb0' := (List.mergeSort_perm r.bins leBin).mem_iff.1 hb0
      obtain ⟨h1, h2, h3, h4⟩ := h.bins b0 hb0'
      refine ⟨h1, h2, ?_, ?_⟩
      · show (sortChunks b0.chunks).length < _
        unfold sortChunks; rw [(List.mergeSort_perm _ _).length_eq]; exact h3
      · intro c hc; exact h4 c (mem_sortChunks.1 hc)
    stats := h.stats
    ivlen := by
      show (r.intervals.mergeSort leOff).length < _
      rw [(List.mergeSort_perm _ _).length_eq]; exact h.ivlen
    ivs := by
      intro v hv
      exact h.ivs v ((List.mergeSort_perm r.intervals leOff).mem_iff.1 hv) }

theorem sort_refs_ok (i : Index) (h : WF i) : ∀ r, r ∈ (sort i).refs → RefBounds r ∧ RefSorted r := by
  intro r hr
  unfold sort at hr
  split at hr
  · rename_i hf; exact ⟨h.bounds r hr, h.flag hf r hr⟩
  · obtain ⟨r0, hr0, rfl⟩ := List.mem_map.1 hr
    exact ⟨sortRef_bounds r0 (h.bounds r0 hr0), sortRef_sorted r0⟩

/-! ### `internal.ReadIndex ∘ internal.WriteIndex` -/

theorem rChunk_wChunk (c : Chunk) (h : OffOK c.b ∧ OffOK c.e) (rest : Bytes) :
    rChunk (wChunk c ++ rest) = .ok (c, rest) := by
  unfold rChunk wChunk
  rw [List.append_assoc, rOff_i64 _ h.1]
  simp only
  rw [rOff_i64 _ h.2]

theorem rChunks_wChunks (cs : List Chunk) (hlen : cs.length < 2147483648)
    (hok : ∀ c, c ∈ cs → OffOK c.b ∧ OffOK c.e) (hs : cs.Pairwise (fun a b => leChunk a b = true)) (rest : Bytes) :
    rChunks (cs.length : Int) (cs.flatMap wChunk ++ rest) = .ok (cs, rest) := by
  unfold rChunks
  cases cs with
  | nil => simp
  | cons c cs' =>
    have hne : ¬ (((c :: cs').length : Nat) : Int) = 0 := by simp; omega
    simp only [hne, if_false]
    rw [counted_flatMap rChunk wChunk (c :: cs') rest (fun x hx rest' => rChunk_wChunk x (hok x hx) rest')]
    simp only [sortChunks]
    rw [List.mergeSort_of_pairwise hs]

theorem rStatsBody_w (s : Stats)
    (h : OffOK s.chunk.b ∧ OffOK s.chunk.e ∧ s.mapped < 18446744073709551616 ∧ s.unmapped < 18446744073709551616)
    (rest : Bytes) : rStatsBody (wStatsBody s ++ rest) = .ok (s, rest) := by
  unfold rStatsBody wStatsBody
  have : i64 s.chunk.b ++ i64 s.chunk.e ++ le64 s.mapped ++ le64 s.unmapped ++ rest =
      wChunk s.chunk ++ (le64 s.mapped ++ (le64 s.unmapped ++ rest)) := by
    simp [wChunk, List.append_assoc]
  rw [this, rChunk_wChunk _ ⟨h.1, h.2.1⟩]
  simp only
  rw [rU64_le64 _ h.2.2.1]
  simp only
  rw [rU64_le64 _ h.2.2.2]

/-- the loop of `readBins` over the bins written by `writeBins` -/
theorem rBinLoop_bins (dummy : Nat) : ∀ (bins : List Bin) (k : Nat) (acc : List Bin) (st : Option Stats)
    (tail : Bytes),
    (∀ b, b ∈ bins → b.bin < 4294967296 ∧ b.bin ≠ dummy ∧ b.chunks.length < 2147483648 ∧
      (∀ c, c ∈ b.chunks → OffOK c.b ∧ OffOK c.e) ∧ b.chunks.Pairwise (fun a b => leChunk a b = true)) →
    rBinLoop dummy (bins.length + k) acc st (bins.flatMap wBin ++ tail) =
      rBinLoop dummy k (bins.reverse ++ acc) st tail := by
  intro bins
  induction bins with
  | nil => intro k acc st tail _; simp
  | cons b bs ih =>
    intro k acc st tail h
    obtain ⟨h1, h2, h3, h4, h5⟩ := h b List.mem_cons_self
    have hlen : (b :: bs).length + k = (bs.length + k) + 1 := by simp; omega
    rw [hlen]
    conv => lhs; unfold rBinLoop
    have hbytes : (b :: bs).flatMap wBin ++ tail =
        le32 b.bin ++ (i32 b.chunks.length ++ (b.chunks.flatMap wChunk ++ (bs.flatMap wBin ++ tail))) := by
      simp [wBin, wChunks, List.append_assoc]
    rw [hbytes, rU32_le32 _ h1]
    simp only
    rw [rI32_i32 _ (by omega) (by omega)]
    simp only [h2, if_false]
    rw [rChunks_wChunks _ h3 h4 h5]
    simp only
    rw [ih k (⟨b.bin, b.chunks⟩ :: acc) st tail (fun x hx => h x (List.mem_cons_of_mem _ hx))]
    simp

theorem rBinLoop_stats (s : Stats)
    (h : OffOK s.chunk.b ∧ OffOK s.chunk.e ∧ s.mapped < 18446744073709551616 ∧ s.unmapped < 18446744073709551616)
    (acc : List Bin) (st : Option Stats) (rest : Bytes) :
    rBinLoop statsDummyBin 1 acc st (wStats s ++ rest) = .ok ((acc.reverse, some s), rest) := by
  unfold rBinLoop wStats
  have : le32 statsDummyBin ++ le32 2 ++ wStatsBody s ++ rest =
      le32 statsDummyBin ++ (le32 2 ++ (wStatsBody s ++ rest)) := by simp [List.append_assoc]
  rw [this, rU32_le32 _ (by decide)]
  simp only
  rw [rI32_le32 2 (by decide)]
  simp only [if_true]
  have h2 : ¬ ((2 : Nat) : Int) ≠ 2 := by simp
  simp only [h2, if_false]
  rw [rStatsBody_w s h]
  simp [rBinLoop]

theorem rBins_wBins (r : RefIndex) (hb : RefBounds r) (hs : RefSorted r) (rest : Bytes) :
    rBins (wBins r.bins r.stats ++ rest) = .ok ((r.bins, r.stats), rest) := by
  have hbins : ∀ b, b ∈ r.bins → b.bin < 4294967296 ∧ b.bin ≠ statsDummyBin ∧ b.chunks.length < 2147483648 ∧
      (∀ c, c ∈ b.chunks → OffOK c.b ∧ OffOK c.e) ∧ b.chunks.Pairwise (fun a b => leChunk a b = true) := by
    intro b hbm
    obtain ⟨h1, h2, h3, h4⟩ := hb.bins b hbm
    exact ⟨h1, h2, h3, h4, hs.chunks b hbm⟩
  have hnb := hb.nb
  unfold rBins wBins
  cases hst : r.stats with
  | some s =>
    simp only [hst, Option.isSome_some, if_true] at hnb
    simp only
    have : i32 ((r.bins.length : Int) + 1) ++ r.bins.flatMap wBin ++ wStats s ++ rest =
        i32 ((r.bins.length : Int) + 1) ++ (r.bins.flatMap wBin ++ (wStats s ++ rest)) := by
      simp [List.append_assoc]
    rw [this, rI32_i32 _ (by omega) (by omega)]
    have h0 : ¬ ((r.bins.length : Int) + 1 = 0) := by omega
    have h1 : ¬ ((r.bins.length : Int) + 1 < 0) := by omega
    simp only [h0, h1, if_false]
    have hn : ((r.bins.length : Int) + 1).toNat = r.bins.length + 1 := by omega
    rw [hn, rBinLoop_bins statsDummyBin r.bins 1 [] none _ hbins]
    rw [rBinLoop_stats s (hb.stats s hst)]
    simp only [List.append_nil, List.reverse_reverse]
    rw [List.mergeSort_of_pairwise hs.bins]
  | none =>
    simp only [hst, Option.isSome_none, Bool.false_eq_true, if_false, Nat.add_zero] at hnb
    simp only
    have : i32 (r.bins.length : Int) ++ r.bins.flatMap wBin ++ rest =
        i32 (r.bins.length : Int) ++ (r.bins.flatMap wBin ++ rest) := by simp [List.append_assoc]
    rw [this, rI32_i32 _ (by omega) (by omega)]
    cases hbl : r.bins with
    | nil => simp
    | cons b bs =>
      rw [← hbl]
      have h0 : ¬ ((r.bins.length : Int) = 0) := by rw [hbl]; simp; omega
      have h1 : ¬ ((r.bins.length : Int) < 0) := by omega
      simp only [h0, h1, if_false, Int.toNat_natCast]
      have := rBinLoop_bins statsDummyBin r.bins 0 [] none rest hbins
      rw [Nat.add_zero] at this
      rw [this]
      simp only [rBinLoop, List.append_nil, List.reverse_reverse]
      rw [List.mergeSort_of_pairwise hs.bins]

theorem rIntervals_w (ivs : List Int) (hlen : ivs.length < 2147483648) (hok : ∀ v, v ∈ ivs → OffOK v)
    (hs : ivs.Pairwise (fun a b => leOff a b = true)) (rest : Bytes) :
    rIntervals (wIntervals ivs ++ rest) = .ok (ivs, rest) := by
  unfold rIntervals wIntervals
  rw [List.append_assoc, rI32_i32 _ (by omega) (by omega)]
  simp only
  cases ivs with
  | nil => simp
  | cons v vs =>
    have hne : ¬ (((v :: vs).length : Nat) : Int) = 0 := by simp; omega
    simp only [hne, if_false]
    rw [counted_flatMap rOff i64 (v :: vs) rest (fun x hx rest' => rOff_i64 x (hok x hx) rest')]
    simp only
    rw [List.mergeSort_of_pairwise hs]

theorem rRef_wRef (r : RefIndex) (hb : RefBounds r) (hs : RefSorted r) (rest : Bytes) :
    rRef (wRef r ++ rest) = .ok (r, rest) := by
  unfold rRef wRef
  rw [List.append_assoc, rBins_wBins r hb hs]
  simp only
  rw [rIntervals_w _ hb.ivlen hb.ivs hs.ivs]

theorem rUnmapped_w (um : Option Nat) (h : ∀ n, um = some n → n < 18446744073709551616) :
    rUnmapped (wUnmapped um) = .ok um := by
  cases um with
  | none => rfl
  | some n =>
    unfold rUnmapped wUnmapped
    have hne : (le64 n).isEmpty = false := by simp [le64, le32]
    simp only [hne, Bool.false_eq_true, if_false]
    have := rU64_le64 n (h n rfl) []
    rw [List.append_nil] at this
    rw [this]

/-- `internal.ReadIndex(r, n)` on the output of `internal.WriteIndex` -/
theorem rIndex_wIndex (i : Index) (h : WF i) :
    rIndex (i.refs.length : Int) (wIndex i) = .ok (norm i) := by
  unfold rIndex wIndex
  have hlen : (sort i).refs.length = i.refs.length := by
    unfold sort; split <;> simp
  have hrefs := sort_refs_ok i h
  rw [← hlen, counted_flatMap rRef wRef (sort i).refs _
    (fun r hr rest' => rRef_wRef r (hrefs r hr).1 (hrefs r hr).2 rest')]
  simp only
  rw [rUnmapped_w _ h.um]
  rfl

/-! ### canonical form -/

theorem sort_norm (i : Index) : sort (norm i) = norm i := by simp [sort, norm]

theorem norm_refs_length (i : Index) : (norm i).refs.length = i.refs.length := by
  unfold norm sort; split <;> simp

theorem wIndex_norm (i : Index) : wIndex (norm i) = wIndex i := by
  unfold wIndex; rw [sort_norm]; rfl

theorem norm_norm (i : Index) : norm (norm i) = norm i := by
  have h := sort_norm i
  show ({ refs := (sort (norm i)).refs, unmapped := (norm i).unmapped, isSorted := true, lastRecord := maxInt } : Index) = _
  rw [h]; rfl

/-- `Chunks` does not see the difference between an index and its canonical form -/
theorem chunks_norm (i : Index) (rid beg stop : Int) (bins : List Nat) :
    chunks (norm i) rid beg stop bins = chunks i rid beg stop bins := by
  unfold chunks
  rw [sort_norm, norm_refs_length]
  rfl

/-- sorting keeps the statistics of every reference -/
theorem norm_stats (i : Index) (j : Nat) :
    ((norm i).refs[j]?).map (·.stats) = (i.refs[j]?).map (·.stats) := by
  unfold norm sort
  split
  · rfl
  · simp only [List.getElem?_map]
    cases i.refs[j]? <;> rfl

/-- an index whose flag says "not sorted" only has to be representable -/
theorem wf_of_unsorted (i : Index) (hf : i.isSorted = false) (hn : i.refs.length < 2147483648)
    (hb : ∀ r, r ∈ i.refs → RefBounds r) (hu : ∀ n, i.unmapped = some n → n < 18446744073709551616) : WF i :=
  { nrefs := hn, bounds := hb, flag := (by intro h; rw [hf] at h; cases h), um := hu }

/-- the canonical form is well-formed again (so it can be written and read any number of times) -/
theorem wf_norm (i : Index) (h : WF i) : WF (norm i) :=
  { nrefs := by rw [norm_refs_length]; exact h.nrefs
    bounds := fun r hr => (sort_refs_ok i h r hr).1
    flag := fun _ r hr => (sort_refs_ok i h r hr).2
    um := h.um }

/-! ### BAI -/

theorem writeBai_norm (i : Index) : writeBai (norm i) = writeBai i := by
  unfold writeBai; rw [wIndex_norm, norm_refs_length]

/-- `read_write` for BAI: every well-formed index (also one without references) reads back as its
canonical form -/
theorem readBai_writeBai (i : Index) (h : WF i) : readBai (writeBai i) = .ok (norm i) := by
  unfold readBai writeBai
  have hm : rBytes 4 (baiMagic ++ i32 (i.refs.length : Int) ++ wIndex i) =
      .ok (baiMagic, i32 (i.refs.length : Int) ++ wIndex i) := by
    simp [rBytes, baiMagic]
  rw [hm]
  simp only [ne_eq, not_true_eq_false, if_false]
  have hn := h.nrefs
  rw [rI32_i32 _ (by omega) (by omega)]
  simp only
  rw [rIndex_wIndex i h]

end Hts.Model.IndexIO
