/-
Writer LTS: block accounting against the sequential writer, fault-free runs, script position of a trace.
-/
import Hts.Lemmas.WriterLTSRun
namespace Hts.Model.WriterLTS

variable {cfg : Cfg} {s t : State} {e : Option Ev}

/-- blocks the current call will still submit (if no error intervenes) -/
def pcRem : ApiPc → Nat
  | .wLoop k => k
  | .wSub k => k + 1
  | .wTake k => k
  | .fChk b => if b then 1 else 0
  | .fSwap => 1
  | .cEnq => 1
  | _ => 0

def inClose : ApiPc → Bool
  | .cEnq => true
  | .cTake => true
  | .cComp => true
  | _ => false

/-- the rest of the script runs on a closed writer -/
def restClosed (s : State) : Bool := s.closed || inClose s.api

structure Acc (cfg : Cfg) (s : State) : Prop where
  blocks : s.err = false →
    s.submitted + pcRem s.api + seqBlocks s.script (restClosed s) = seqBlocks cfg.script false
  close : hasClose cfg.script = (restClosed s || hasClose s.script)

theorem seqBlocks_entry (op : Op) (rest : List Op) (c : Bool) :
    seqBlocks (op :: rest) c = pcRem (entry op c) + seqBlocks rest (c || inClose (entry op c)) := by
  cases op <;> cases c <;> simp [seqBlocks, entry, pcRem, inClose]

theorem hasClose_entry (op : Op) (rest : List Op) (c : Bool) :
    (c || hasClose (op :: rest)) = ((c || inClose (entry op c)) || hasClose rest) := by
  cases op <;> cases c <;> simp [entry, inClose, hasClose]

theorem acc_init (cfg : Cfg) : Acc cfg (init cfg) :=
  ⟨by intro _; simp [init, pcRem, restClosed, inClose], by simp [init, restClosed, inClose]⟩

theorem api_acc (ha : Acc cfg s) (h : apiStep cfg s = some (e, t)) : Acc cfg t := by
  obtain ⟨h1, h2⟩ := ha
  unfold apiStep at h
  step_cases h
  all_goals simp only [restClosed] at h1 h2
  all_goals first
    | (rename_i hapi _ _ _ hs
       simp only [hapi, hs, pcRem, inClose, Bool.or_false, Nat.add_zero] at h1 h2
       refine ⟨fun he => ?_, ?_⟩
       · simp only [restClosed]
         rw [← h1 he, seqBlocks_entry]; omega
       · simp only [restClosed]
         rw [h2]; exact hasClose_entry _ _ _)
    | (refine ⟨fun he => ?_, ?_⟩
       · simp only [] at he
         first
           | (simp at he; done)
           | (have h1' := h1 he; simp_all [restClosed, pcRem, inClose]; done)
           | (have h1' := h1 he; simp_all [restClosed, pcRem, inClose]; omega)
       · simp_all [restClosed, inClose])

theorem em_acc (ha : Acc cfg s) (h : emStep cfg s = some (e, t)) : Acc cfg t := by
  obtain ⟨f1, f2, f3, f4, f5, f6, f7⟩ := em_frame h
  have hm := em_mono h
  refine ⟨fun he => ?_, ?_⟩
  · have hs : s.err = false := by
      cases hs : s.err with
      | false => rfl
      | true => have := hm.err hs; simp [he] at this
    have := ha.blocks hs
    simpa [restClosed, f1, f2, f5, f6] using this
  · simpa [restClosed, f1, f2, f5] using ha.close

theorem next_acc {l : Label} (ha : Acc cfg s) (h : next cfg s l = some (e, t)) : Acc cfg t := by
  refine next_cases h (api_acc ha) (em_acc ha) ?_ ?_
  · intro i q _ _ ht; rw [ht]; exact ⟨ha.blocks, ha.close⟩
  · intro it _ _ _ ht; rw [ht]; exact ⟨ha.blocks, ha.close⟩

theorem reachable_acc (h : Reachable cfg s) : Acc cfg s := by
  induction h with
  | init => exact acc_init cfg
  | step _ hst ih =>
    obtain ⟨l, e, hn⟩ := hst
    exact next_acc ih hn

/-! ### runs without faults never latch an error -/

theorem nofault_next (hnf : ∀ i, cfg.fault i = false) (hcf : ∀ b, cfg.cfault b = false) {l : Label} (hw : wedged s = false)
    (h : next cfg s l = some (e, t)) : wedged t = false := by
  refine next_cases h ?_ ?_ ?_ ?_
  · intro h
    unfold apiStep at h
    step_cases h
    all_goals simp_all [wedged]
  · intro h
    unfold emStep at h
    step_cases h
    all_goals simp_all [wedged, emFailed]
  · intro i q _ _ ht; rw [ht]; simpa [wedged] using hw
  · intro it hem _ _ ht; rw [ht]; simp_all [wedged, emFailed]

theorem nofault_reachable (hnf : ∀ i, cfg.fault i = false) (hcf : ∀ b, cfg.cfault b = false) (h : Reachable cfg s) :
    wedged s = false := by
  induction h with
  | init => rfl
  | step _ hst ih =>
    obtain ⟨l, e, hn⟩ := hst
    exact nofault_next hnf hcf ih hn

theorem output_of_idle (hr : cfg.repaired = true) (hnf : ∀ i, cfg.fault i = false) (hcf : ∀ b, cfg.cfault b = false)
    (h : Reachable cfg s)
    (hidle : AllIdle s) : s.out = List.range (seqBlocks cfg.script false) ∧ s.eof = hasClose cfg.script := by
  have hi := reachable_inv hr h
  have ha := reachable_acc h
  have hw := nofault_reachable hnf hcf h
  have he : s.err = false := by
    simp only [wedged, Bool.or_eq_false_iff] at hw; exact hw.1
  obtain ⟨⟨hapi, hs⟩, hq, hp, hem⟩ := hidle
  have hb := ha.blocks he
  simp only [hapi, hs, pcRem, seqBlocks, Nat.add_zero] at hb
  have ho := pend_zero_out hi hp he
  refine ⟨?_, ?_⟩
  · rw [← hb, ← ho]; exact hi.pref
  · have hc := ha.close
    simp only [restClosed, hapi, inClose, hs, hasClose, List.contains_nil, Bool.or_false] at hc
    simp only [hasClose] at hc ⊢
    rw [hc]
    cases hcl : s.closed with
    | true => exact hi.eofOK hcl he (by simp [hapi]) (by simp [hapi])
    | false =>
      cases hf : s.eof with
      | false => rfl
      | true => have := hi.eofClosed hf; simp [hcl] at this

/-! ### position of the API goroutine in the script, from the trace -/

def isCall : Ev → Bool
  | .call _ => true
  | _ => false

def isRet : Ev → Bool
  | .ret _ _ _ => true
  | _ => false

def ncalls (tr : List Ev) : Nat := (tr.filter isCall).length
def nrets (tr : List Ev) : Nat := (tr.filter isRet).length

structure Pos (cfg : Cfg) (tr : List Ev) (s : State) : Prop where
  script : s.script = cfg.script.drop (ncalls tr)
  bal : nrets tr + (if s.api = .idle then 0 else 1) = ncalls tr
  closedBy : restClosed s = true → Op.close ∈ cfg.script.take (ncalls tr)

theorem entry_ne_idle (op : Op) (c : Bool) : entry op c ≠ .idle := by
  cases op <;> cases c <;> simp [entry]

/-- a step that is neither a call nor a return keeps the script and the idle-ness of the API goroutine -/
theorem quiet_step {l : Label} (h : next cfg s l = some (e, t))
    (hc : ∀ op, e ≠ some (.call op)) (hr : ∀ op r m, e ≠ some (.ret op r m)) :
    t.script = s.script ∧ (t.api = .idle ↔ s.api = .idle) ∧ (restClosed t = true → restClosed s = true) := by
  refine next_cases h ?_ ?_ ?_ ?_
  · intro h
    unfold apiStep at h
    step_cases h
    all_goals first
      | (exact absurd rfl (hc _))
      | (exact absurd rfl (hr _ _ _))
      | simp_all [restClosed, inClose]
  · intro h
    obtain ⟨f1, f2, -, -, f5, -, -⟩ := em_frame h
    simp [restClosed, f1, f2, f5]
  · intro i q _ _ ht; rw [ht]; simp [restClosed]
  · intro it _ _ _ ht; rw [ht]; simp [restClosed]

theorem ret_not_idle {l : Label} {op : Op} {r : Res} {m : Nat}
    (h : next cfg s l = some (some (.ret op r m), t)) : s.api ≠ .idle := by
  intro ha
  refine next_cases h ?_ ?_ ?_ ?_
  · intro h
    simp only [apiStep, ha] at h
    split at h <;> simp at h
  · intro h
    unfold emStep at h
    step_cases h
  · intro i q _ he; simp at he
  · intro it _ _ he; simp at he

theorem ret_frame {l : Label} {ev : Ev} (h : next cfg s l = some (some ev, t)) (hev : isRet ev = true) :
    t.api = .idle ∧ t.script = s.script ∧ t.closed = s.closed := by
  refine next_cases h ?_ ?_ ?_ ?_
  · intro h
    unfold apiStep at h
    step_cases h
    all_goals first
      | (simp [isRet] at hev; done)
      | simp
  · intro h
    unfold emStep at h
    step_cases h
    all_goals simp [isRet] at hev
  · intro i q _ he; simp at he
  · intro it _ _ he; simp at he

theorem mem_take_succ {α} {a : α} {l : List α} {n : Nat} (h : a ∈ l.take n) : a ∈ l.take (n + 1) := by
  induction l generalizing n with
  | nil => simp at h
  | cons x l ih =>
    cases n with
    | zero => simp at h
    | succ n =>
      simp only [List.take_succ_cons, List.mem_cons] at h ⊢
      rcases h with h | h
      · exact .inl h
      · exact .inr (ih h)

theorem drop_cons_mem {α} {a : α} {l rest : List α} {n : Nat} (h : l.drop n = a :: rest) :
    l.drop (n + 1) = rest ∧ a ∈ l.take (n + 1) := by
  induction l generalizing n with
  | nil => simp at h
  | cons x l ih =>
    cases n with
    | zero => simp at h; simp [h.1, h.2]
    | succ n =>
      simp only [List.drop_succ_cons] at h
      have := ih h
      simp only [List.drop_succ_cons, List.take_succ_cons, List.mem_cons]
      exact ⟨this.1, .inr this.2⟩

theorem pos_step {tr : List Ev} (hp : Pos cfg tr s) {l : Label} (h : next cfg s l = some (e, t)) :
    Pos cfg (e.toList ++ tr) t := by
  cases e with
  | none =>
    obtain ⟨q1, q2, q3⟩ := quiet_step h (by simp) (by simp)
    simp only [Option.toList_none, List.nil_append]
    refine ⟨q1 ▸ hp.script, ?_, fun hc => hp.closedBy (q3 hc)⟩
    have := hp.bal
    by_cases hs : s.api = .idle
    · simpa [hs, q2.2 hs] using this
    · have : ¬ t.api = .idle := fun ht => hs (q2.1 ht)
      simp_all
  | some ev =>
    simp only [Option.toList_some, List.singleton_append]
    cases ev with
    | uw b ok =>
      obtain ⟨q1, q2, q3⟩ := quiet_step h (by simp) (by simp)
      have hn : ncalls (.uw b ok :: tr) = ncalls tr := by simp [ncalls, isCall]
      have hr : nrets (.uw b ok :: tr) = nrets tr := by simp [nrets, isRet]
      refine ⟨by rw [hn, q1]; exact hp.script, ?_, fun hc => hn ▸ hp.closedBy (q3 hc)⟩
      rw [hn, hr]
      have := hp.bal
      by_cases hs : s.api = .idle
      · simpa [hs, q2.2 hs] using this
      · have : ¬ t.api = .idle := fun ht => hs (q2.1 ht)
        simp_all
    | call op =>
      obtain ⟨c1, c2, c3, c4, c5, c6, c7, c8, c9⟩ := call_step h rfl
      have hn : ncalls (.call op :: tr) = ncalls tr + 1 := by
        simp only [ncalls]; rw [List.filter_cons_of_pos (by rfl)]; rfl
      have hr : nrets (.call op :: tr) = nrets tr := by simp [nrets, isRet]
      have hd := hp.script
      rw [c2] at hd
      obtain ⟨d1, d2⟩ := drop_cons_mem hd.symm
      refine ⟨by rw [hn, d1], ?_, ?_⟩
      · rw [hn, hr]
        have := hp.bal
        simp only [c1, if_true] at this
        have hne : t.api ≠ .idle := by rw [c3]; exact entry_ne_idle _ _
        simp only [hne, if_false]; omega
      · intro hc
        rw [hn]
        simp only [restClosed, c8, c3, Bool.or_eq_true] at hc
        rcases hc with hc | hc
        · exact mem_take_succ (hp.closedBy (by simp [restClosed, hc]))
        · have : op = .close := by
            cases op <;> cases hcl : s.closed <;> simp [entry, inClose, hcl] at hc
            rfl
          exact this ▸ d2
    | ret op r m =>
      have hni := ret_not_idle h
      have hn : ncalls (.ret op r m :: tr) = ncalls tr := by simp [ncalls, isCall]
      have hr : nrets (.ret op r m :: tr) = nrets tr + 1 := by
        simp only [nrets]; rw [List.filter_cons_of_pos (by rfl)]; rfl
      have hfr := ret_frame h (ev := .ret op r m) rfl
      obtain ⟨r1, r2, r3⟩ := hfr
      refine ⟨by rw [hn, r2]; exact hp.script, ?_, ?_⟩
      · rw [hn, hr]
        have := hp.bal
        simp only [hni, if_false] at this
        simp [r1]; omega
      · intro hc
        rw [hn]
        refine hp.closedBy ?_
        simp only [restClosed, r1, r3, inClose, Bool.or_false] at hc
        simp [restClosed, hc]

theorem run_pos {tr : List Ev} (h : Run cfg tr s) : Pos cfg tr s := by
  induction h with
  | init => exact ⟨by simp [init, ncalls], by simp [init, ncalls, nrets], by simp [init, restClosed, inClose]⟩
  | step _ hn ih => exact pos_step ih hn

theorem run_acc {tr : List Ev} (h : Run cfg tr s) : Acc cfg s := reachable_acc (run_reachable h)

/-- the `Wait` return that follows exactly two earlier returns (those of `Write` and `Flush`) in a script
    `Write(k blocks); Flush; Wait; …` reports exactly the `k+1` blocks of that data as submitted -/
theorem third_ret_count (hr : cfg.repaired = true) {k : Nat} {rest : List Op}
    (hs : cfg.script = .write k :: .flush true :: .wait :: rest) {tr : List Ev} (h : Run cfg tr s) :
    ∀ {post mid : List Ev} {m : Nat}, tr = post ++ .ret .wait .ok m :: mid → nrets mid = 2 → m = k + 1 := by
  induction h with
  | init => intro post mid m h; simp at h
  | @step tr0 s0 l e t0 hrun hn ih =>
    intro post mid m htr hnr
    cases e with
    | none => exact ih (by simpa using htr) hnr
    | some ev =>
      simp only [Option.toList_some, List.singleton_append] at htr
      cases post with
      | cons x post =>
        simp only [List.cons_append, List.cons.injEq] at htr
        exact ih htr.2 hnr
      | nil =>
        simp only [List.nil_append, List.cons.injEq] at htr
        obtain ⟨hev, hmid⟩ := htr
        subst hmid
        obtain ⟨hi, hR⟩ := run_inv hr hrun
        have hp := run_pos hrun
        have ha := run_acc hrun
        subst hev
        have hni := ret_not_idle hn
        obtain ⟨h1, h2, -, -, -, -, -, -, -, -, -, h12, -, -⟩ := ret_step hi hn rfl
        have hnc : ncalls tr0 = 3 := by
          have := hp.bal
          simp only [hni, if_false] at this
          omega
        have hscript : s0.script = rest := by
          rw [hp.script, hnc, hs]; rfl
        have herr : s0.err = false := by
          cases he : s0.err with
          | false => rfl
          | true => exact absurd rfl (h12 he)
        have hnotc : restClosed s0 = false := by
          cases hc : restClosed s0 with
          | false => rfl
          | true =>
            have := hp.closedBy hc
            rw [hnc, hs] at this
            simp at this
        have hapi : pcRem s0.api = 0 := by
          have hcur := hi.cur
          have hw : s0.cur = .wait := h2.symm
          cases hapi : s0.api <;> simp only [hapi, pcOp, hw] at hcur <;>
            first | rfl | (simp at hcur; done) | (cases hcur; done)
        have := ha.blocks herr
        rw [hscript, hnotc, hapi, hs] at this
        simp only [seqBlocks, if_true] at this
        omega

end Hts.Model.WriterLTS
