/-
Writer LTS: facts about runs (observable traces): durability after Wait/Close, error latch, no write after a
failed write, no library thread after Close.
-/
import Hts.Lemmas.WriterLTSInv
namespace Hts.Model.WriterLTS

variable {cfg : Cfg} {s t : State} {e : Option Ev}

/-! ### monotone quantities -/

structure Mono (s t : State) : Prop where
  out : s.out.length ≤ t.out.length
  sub : s.submitted ≤ t.submitted
  err : s.err = true → t.err = true
  closed : s.closed = true → t.closed = true
  eof : s.eof = true → t.eof = true

theorem api_mono (h : apiStep cfg s = some (e, t)) : Mono s t := by
  unfold apiStep at h
  step_cases h
  all_goals (constructor <;> simp <;> try omega)

theorem em_mono (h : emStep cfg s = some (e, t)) : Mono s t := by
  unfold emStep at h
  step_cases h
  all_goals (constructor <;> simp)

theorem next_mono {l : Label} (h : next cfg s l = some (e, t)) : Mono s t := by
  refine next_cases h api_mono em_mono ?_ ?_
  · intro i q _ _ ht; rw [ht]; constructor <;> simp
  · intro it _ _ _ ht; rw [ht]; constructor <;> simp

/-! ### what an observable event says about the step that emitted it -/

def apiAfterCloseRet : ApiPc → Bool
  | .idle => true
  | .retClosed => true
  | .wtChk => true
  | .wtBlock => true
  | .cRet => true
  | _ => false

theorem pend_zero_out (hi : Inv cfg s) (hp : s.pending = 0) (he : s.err = false) : s.out.length = s.submitted := by
  have h1 := hi.pend
  have hq : s.queue = [] := by
    cases hq : s.queue with
    | nil => rfl
    | cons a q => simp [hq] at h1; omega
  have hem : emPend s.em = 0 := by omega
  have hrep := hi.rep
  have hw : wedged s = false := by
    cases hs : s.em <;> simp_all [wedged, emFailed, emPend]
  have := (hi.order hw).2
  cases hs : s.em <;> simp_all [unwritten, emUnwritten, emPend]

theorem closed_done_out (hi : Inv cfg s) (hd : s.em = .done) (he : s.err = false) : s.out.length = s.submitted := by
  have hq := (hi.emDone hd).2
  have hw : wedged s = false := by simp [wedged, he, hd, emFailed]
  have := (hi.order hw).2
  simpa [unwritten, hd, emUnwritten, hq] using this

/-- a `ret` event is emitted by an API step; the state facts it carries -/
theorem ret_step (hi : Inv cfg s) {l : Label} {ev : Ev} {op : Op} {r : Res} {m : Nat}
    (h : next cfg s l = some (some ev, t)) (hev : ev = .ret op r m) :
    m = s.submitted ∧ op = s.cur ∧ t.submitted = s.submitted ∧ t.out = s.out ∧ t.err = s.err ∧
    t.closed = s.closed ∧ t.eof = s.eof ∧ t.em = s.em ∧ t.api = .idle ∧ t.script = s.script ∧
    (r = .err → s.err = true) ∧ (s.err = true → r ≠ .ok) ∧
    (op = .wait → r = .ok → s.out.length = s.submitted) ∧
    (op = .close → s.closed = true ∧ r = resOf s.err ∧ (r = .ok → s.out.length = s.submitted ∧ s.eof = true)) := by
  have hcur := hi.cur
  refine next_cases h ?_ ?_ ?_ ?_
  · intro h
    unfold apiStep at h
    step_cases h
    all_goals first
      | (simp at hev; done)
      | (simp only [Ev.ret.injEq] at hev
         obtain ⟨h1, h2, h3⟩ := hev
         subst h1 h2 h3
         simp_all [pcOp, resOf])
    all_goals clear h
    all_goals first
      | (rcases hcur with ⟨k, hk⟩ | hk | hk <;> simp [hk]; done)
      | (obtain ⟨k, hk⟩ := hcur; simp [hk]; done)
      | (rcases hcur with hk | hk <;> simp [hk]; done)
      | (intro he; exact pend_zero_out hi ‹s.pending = 0› he)
      | (have hc : s.closed = true := hi.needsClosed (by simp [*, apiNeedsClosed])
         refine ⟨hc, fun he => ?_⟩
         have hd := hi.joined hc (by simp [*])
         exact ⟨closed_done_out hi hd he, hi.eofOK hc he (by simp [*]) (by simp [*])⟩)
  · intro h
    unfold emStep at h
    step_cases h
    all_goals simp at hev
  · intro i q _ he; simp at he
  · intro it _ _ he; simp at he

/-- an underlying write is only issued while no failure is known; a failed one wedges the writer -/
theorem uw_step (hr : cfg.repaired = true) (hi : Inv cfg s) {l : Label} {ev : Ev} {b : Option Nat} {ok : Bool}
    (h : next cfg s l = some (some ev, t)) (hev : ev = .uw b ok) :
    wedged s = false ∧ (ok = false → wedged t = true) := by
  refine next_cases h ?_ ?_ ?_ ?_
  · intro h
    have hd : s.api = .cEof → s.em = .done := fun ha =>
      hi.joined (hi.needsClosed (by simp [ha, apiNeedsClosed])) (by simp [ha])
    unfold apiStep at h
    step_cases h
    all_goals first
      | (simp at hev; done)
      | (simp only [Ev.uw.injEq] at hev
         obtain ⟨h1, h2⟩ := hev
         subst h1 h2
         have := hd ‹_›
         simp_all [wedged, emFailed])
  · intro h
    unfold emStep at h
    step_cases h
    all_goals first
      | (simp at hev; done)
      | (simp only [Ev.uw.injEq] at hev
         obtain ⟨h1, h2⟩ := hev
         subst h1 h2
         simp_all [wedged, emFailed])
  · intro i q _ he; simp at he
  · intro it _ _ he; simp at he

theorem wedged_mono (hr : cfg.repaired = true) (hi : Inv cfg s) {l : Label}
    (h : next cfg s l = some (e, t)) (hw : wedged s = true) : wedged t = true := by
  refine next_cases h ?_ ?_ ?_ ?_
  · intro h
    unfold apiStep at h
    step_cases h
    all_goals simp_all [wedged]
  · intro h
    have := hi.rep
    unfold emStep at h
    step_cases h
    all_goals simp_all [wedged, emFailed]
  · intro i q _ _ ht; rw [ht]; simpa [wedged] using hw
  · intro it hem _ _ ht; rw [ht]; simp_all [wedged, emFailed]

theorem call_step {l : Label} {ev : Ev} {op : Op}
    (h : next cfg s l = some (some ev, t)) (hev : ev = .call op) :
    s.api = .idle ∧ s.script = op :: t.script ∧ t.api = entry op s.closed ∧ t.cur = op ∧
    t.submitted = s.submitted ∧ t.out = s.out ∧ t.err = s.err ∧ t.closed = s.closed ∧ t.em = s.em := by
  refine next_cases h ?_ ?_ ?_ ?_
  · intro h
    unfold apiStep at h
    step_cases h
    all_goals first
      | (simp at hev; done)
      | (simp only [Ev.call.injEq] at hev; subst hev; simp_all)
  · intro h
    unfold emStep at h
    step_cases h
    all_goals simp at hev
  · intro i q _ he; simp at he
  · intro it _ _ he; simp at he

theorem afterCloseRet_step {l : Label} (hc : s.closed = true) (ha : apiAfterCloseRet s.api = true)
    (h : next cfg s l = some (e, t)) : apiAfterCloseRet t.api = true ∧ t.submitted = s.submitted := by
  refine next_cases h ?_ ?_ ?_ ?_
  · intro h
    unfold apiStep at h
    step_cases h
    all_goals first
      | (rename_i op _ _; cases op <;> simp_all [apiAfterCloseRet, entry]; done)
      | simp_all [apiAfterCloseRet]
  · intro h
    obtain ⟨f1, _, _, _, _, f6, _⟩ := em_frame h
    rw [f1, f6]; exact ⟨ha, rfl⟩
  · intro i q _ _ ht; rw [ht]; exact ⟨ha, rfl⟩
  · intro it _ _ _ ht; rw [ht]; exact ⟨ha, rfl⟩

/-! ### trace invariants -/

/-- the `submitted` counts recorded by return events are non-decreasing in time (the trace is newest first)
    and bounded by `b` -/
def TrOK : List Ev → Nat → Prop
  | [], _ => True
  | .ret _ _ m :: tr, b => m ≤ b ∧ TrOK tr m
  | .call _ :: tr, b => TrOK tr b
  | .uw _ _ :: tr, b => TrOK tr b

theorem TrOK_mono : ∀ {tr : List Ev} {b b' : Nat}, TrOK tr b → b ≤ b' → TrOK tr b'
  | [], _, _, _, _ => trivial
  | .ret _ _ m :: tr, b, b', h, hb => ⟨Nat.le_trans h.1 hb, h.2⟩
  | .call _ :: tr, b, b', h, hb => TrOK_mono (tr := tr) h hb
  | .uw _ _ :: tr, b, b', h, hb => TrOK_mono (tr := tr) h hb

structure RInv (cfg : Cfg) (tr : List Ev) (s : State) : Prop where
  trok : TrOK tr s.submitted
  waitOK : ∀ m, .ret .wait .ok m ∈ tr → m ≤ s.out.length
  closeOK : ∀ m, .ret .close .ok m ∈ tr → m ≤ s.out.length ∧ s.eof = true
  closeRet : ∀ r m, .ret .close r m ∈ tr → s.closed = true ∧ apiAfterCloseRet s.api = true ∧ m = s.submitted
  failed : ∀ b, .uw b false ∈ tr → wedged s = true
  errRet : ∀ op m, .ret op .err m ∈ tr → s.err = true

theorem rinv_tau (hr : cfg.repaired = true) (hi : Inv cfg s) {tr : List Ev} (hR : RInv cfg tr s) {l : Label}
    (h : next cfg s l = some (e, t)) : RInv cfg tr t := by
  have hm := next_mono h
  refine ⟨TrOK_mono hR.trok hm.sub, ?_, ?_, ?_, ?_, ?_⟩
  · intro m hmem; exact Nat.le_trans (hR.waitOK m hmem) hm.out
  · intro m hmem
    have := hR.closeOK m hmem
    exact ⟨Nat.le_trans this.1 hm.out, hm.eof this.2⟩
  · intro r m hmem
    obtain ⟨h1, h2, h3⟩ := hR.closeRet r m hmem
    have := afterCloseRet_step h1 h2 h
    exact ⟨hm.closed h1, this.1, by omega⟩
  · intro b hmem; exact wedged_mono hr hi h (hR.failed b hmem)
  · intro op m hmem; exact hm.err (hR.errRet op m hmem)

theorem rinv_step (hr : cfg.repaired = true) (hi : Inv cfg s) {tr : List Ev} (hR : RInv cfg tr s) {l : Label}
    (h : next cfg s l = some (e, t)) : RInv cfg (e.toList ++ tr) t := by
  have hT := rinv_tau hr hi hR h
  cases e with
  | none => simpa using hT
  | some ev =>
    simp only [Option.toList_some, List.singleton_append]
    cases ev with
    | call op =>
      refine ⟨hT.trok, ?_, ?_, ?_, ?_, ?_⟩
      · intro m hmem; simp at hmem; exact hT.waitOK m hmem
      · intro m hmem; simp at hmem; exact hT.closeOK m hmem
      · intro r m hmem; simp at hmem; exact hT.closeRet r m hmem
      · intro b hmem; simp at hmem; exact hT.failed b hmem
      · intro op' m hmem; simp at hmem; exact hT.errRet op' m hmem
    | uw b ok =>
      have hu := uw_step hr hi h rfl
      refine ⟨hT.trok, ?_, ?_, ?_, ?_, ?_⟩
      · intro m hmem; simp at hmem; exact hT.waitOK m hmem
      · intro m hmem; simp at hmem; exact hT.closeOK m hmem
      · intro r m hmem; simp at hmem; exact hT.closeRet r m hmem
      · intro b' hmem
        simp only [List.mem_cons, Ev.uw.injEq] at hmem
        rcases hmem with ⟨_, hok⟩ | hmem
        · exact hu.2 hok.symm
        · exact hT.failed b' hmem
      · intro op' m hmem; simp at hmem; exact hT.errRet op' m hmem
    | ret op r m =>
      obtain ⟨h1, h2, h3, h4, h5, h6, h7, h8, h9, h10, h11, h12, h13, h14⟩ := ret_step hi h rfl
      refine ⟨⟨by omega, by rw [h1]; exact hR.trok⟩, ?_, ?_, ?_, ?_, ?_⟩
      · intro m' hmem
        simp only [List.mem_cons, Ev.ret.injEq] at hmem
        rcases hmem with ⟨ho, hr', hm'⟩ | hmem
        · have := h13 ho.symm hr'.symm
          rw [h4]; omega
        · exact hT.waitOK m' hmem
      · intro m' hmem
        simp only [List.mem_cons, Ev.ret.injEq] at hmem
        rcases hmem with ⟨ho, hr', hm'⟩ | hmem
        · have := (h14 ho.symm).2.2 hr'.symm
          rw [h4, h7]; exact ⟨by omega, this.2⟩
        · exact hT.closeOK m' hmem
      · intro r' m' hmem
        simp only [List.mem_cons, Ev.ret.injEq] at hmem
        rcases hmem with ⟨ho, hr', hm'⟩ | hmem
        · have := (h14 ho.symm).1
          rw [h6, h9, h3]; exact ⟨this, rfl, by omega⟩
        · exact hT.closeRet r' m' hmem
      · intro b hmem; simp at hmem; exact hT.failed b hmem
      · intro op' m' hmem
        simp only [List.mem_cons, Ev.ret.injEq] at hmem
        rcases hmem with ⟨ho, hr', hm'⟩ | hmem
        · rw [h5]; exact h11 hr'.symm
        · exact hT.errRet op' m' hmem

theorem rinv_init (cfg : Cfg) : RInv cfg [] (init cfg) :=
  ⟨trivial, by simp, by simp, by simp, by simp, by simp⟩

theorem run_inv (hr : cfg.repaired = true) {tr : List Ev} (h : Run cfg tr s) : Inv cfg s ∧ RInv cfg tr s := by
  induction h with
  | init => exact ⟨inv_init cfg, rinv_init cfg⟩
  | step _ hn ih => exact ⟨inv_next hr ih.1 hn, rinv_step hr ih.1 ih.2 hn⟩

/-! ### consequences for traces -/

def isApiEv : Ev → Bool
  | .uw _ _ => false
  | _ => true

theorem TrOK_filter : ∀ {tr : List Ev} {b : Nat}, TrOK tr b → TrOK (tr.filter isApiEv) b
  | [], _, _ => trivial
  | .ret _ _ m :: tr, b, h => by
    simp only [List.filter_cons, isApiEv, if_true]
    exact ⟨h.1, TrOK_filter h.2⟩
  | .call _ :: tr, b, h => by
    simp only [List.filter_cons, isApiEv, if_true]
    exact TrOK_filter (tr := tr) h
  | .uw _ _ :: tr, b, h => by
    simp only [List.filter_cons, isApiEv]
    exact TrOK_filter (tr := tr) h

theorem TrOK_suffix : ∀ {a l : List Ev} {b : Nat}, TrOK (a ++ l) b → ∃ b', TrOK l b'
  | [], _, b, h => ⟨b, h⟩
  | .ret _ _ m :: a, l, b, h => TrOK_suffix (a := a) h.2
  | .call _ :: a, l, b, h => TrOK_suffix (a := a) (l := l) (b := b) h
  | .uw _ _ :: a, l, b, h => TrOK_suffix (a := a) (l := l) (b := b) h

/-- every return recorded before a `Wait` that returned nil has its blocks delivered -/
theorem wait_durable (hr : cfg.repaired = true) {tr : List Ev} (h : Run cfg tr s)
    {post mid pre : List Ev} {op : Op} {r : Res} {m m' : Nat}
    (htr : tr.filter isApiEv = post ++ .ret .wait .ok m' :: (mid ++ .ret op r m :: pre)) :
    m ≤ m' ∧ m' ≤ s.out.length := by
  obtain ⟨hi, hR⟩ := run_inv hr h
  have hmem : Ev.ret .wait .ok m' ∈ tr := by
    have : Ev.ret .wait .ok m' ∈ tr.filter isApiEv := by rw [htr]; simp
    exact (List.mem_filter.1 this).1
  refine ⟨?_, hR.waitOK m' hmem⟩
  have h1 := TrOK_filter hR.trok
  rw [htr] at h1
  obtain ⟨b', h2⟩ := TrOK_suffix h1
  obtain ⟨b'', h3⟩ := TrOK_suffix (a := mid) h2.2
  have := h3.1
  -- b'' ≤ m' along `mid`
  have hb : ∀ {mid : List Ev} {x : Nat}, TrOK (mid ++ .ret op r m :: pre) x → m ≤ x := by
    intro mid
    induction mid with
    | nil => intro x hx; exact hx.1
    | cons ev mid ih =>
      intro x hx
      cases ev with
      | ret _ _ k => exact Nat.le_trans (ih hx.2) hx.1
      | call _ => exact ih hx
      | uw _ _ => exact ih hx
  exact hb h2.2

theorem take_of_prefix {out : List Nat} {m : Nat} (hp : out = List.range out.length) (hm : m ≤ out.length) :
    out.take m = List.range m := by
  have := List.take_range (i := m) (n := out.length)
  rw [← hp] at this
  rw [this, Nat.min_eq_left hm]

theorem close_err_after_failure (hr : cfg.repaired = true) {tr : List Ev} (h : Run cfg tr s) :
    ∀ {post mid : List Ev} {r : Res} {m : Nat} {b : Option Nat},
      tr = post ++ .ret .close r m :: mid → .uw b false ∈ mid → r = .err := by
  induction h with
  | init => intro post mid r m b h; simp at h
  | @step tr0 s0 l e t0 hrun hn ih =>
    intro post mid r m b htr hmem
    cases e with
    | none => exact ih (by simpa using htr) hmem
    | some ev =>
      simp only [Option.toList_some, List.singleton_append] at htr
      cases post with
      | cons x post =>
        simp only [List.cons_append, List.cons.injEq] at htr
        exact ih htr.2 hmem
      | nil =>
        simp only [List.nil_append, List.cons.injEq] at htr
        obtain ⟨hev, hmid⟩ := htr
        obtain ⟨hi, hR⟩ := run_inv hr hrun
        have hw := hR.failed b (hmid ▸ hmem)
        obtain ⟨-, -, -, -, -, -, -, -, -, -, -, -, -, h14⟩ := ret_step hi hn hev
        obtain ⟨hc, hres, -⟩ := h14 rfl
        -- at Close's return the emitter has finished, so the failure is latched
        have hapi : s0.api ≠ .cJoin := by
          intro ha
          have := next_cases hn (P := False)
            (by intro h'; simp only [apiStep, ha] at h'; split at h' <;> simp at h')
            (by intro h'
                unfold emStep at h'
                step_cases h'
                all_goals simp at hev)
            (by intro i q _ he; simp at he)
            (by intro it _ _ he; simp at he)
          exact this
        have hd := hi.joined hc hapi
        have : s0.err = true := by simpa [wedged, hd, emFailed] using hw
        simp [hres, this, resOf]

theorem no_write_after_failure (hr : cfg.repaired = true) {tr : List Ev} (h : Run cfg tr s) :
    ∀ {post mid : List Ev} {b : Option Nat},
      tr = post ++ .uw b false :: mid → ∀ b' ok, .uw b' ok ∉ post := by
  induction h with
  | init => intro post mid b h; simp at h
  | @step tr0 s0 l e t0 hrun hn ih =>
    intro post mid b htr b' ok hmem
    cases e with
    | none => exact ih (by simpa using htr) b' ok hmem
    | some ev =>
      simp only [Option.toList_some, List.singleton_append] at htr
      cases post with
      | nil => simp at hmem
      | cons x post =>
        simp only [List.cons_append, List.cons.injEq] at htr
        obtain ⟨hx, htr⟩ := htr
        simp only [List.mem_cons] at hmem
        rcases hmem with hm | hm
        · obtain ⟨hi, hR⟩ := run_inv hr hrun
          have hw : wedged s0 = true := hR.failed b (by rw [htr]; simp)
          have := (uw_step hr hi hn (hx.trans hm.symm)).1
          simp [hw] at this
        · exact ih htr b' ok hm

theorem error_sticky (hr : cfg.repaired = true) {tr : List Ev} (h : Run cfg tr s) :
    ∀ {post mid : List Ev} {op : Op} {m : Nat},
      tr = post ++ .ret op .err m :: mid → ∀ op' r' m', .ret op' r' m' ∈ post → r' ≠ .ok := by
  induction h with
  | init => intro post mid op m h; simp at h
  | @step tr0 s0 l e t0 hrun hn ih =>
    intro post mid op m htr op' r' m' hmem
    cases e with
    | none => exact ih (by simpa using htr) op' r' m' hmem
    | some ev =>
      simp only [Option.toList_some, List.singleton_append] at htr
      cases post with
      | nil => simp at hmem
      | cons x post =>
        simp only [List.cons_append, List.cons.injEq] at htr
        obtain ⟨hx, htr⟩ := htr
        simp only [List.mem_cons] at hmem
        rcases hmem with hm | hm
        · obtain ⟨hi, hR⟩ := run_inv hr hrun
          have he : s0.err = true := hR.errRet op m (by rw [htr]; simp)
          obtain ⟨-, -, -, -, -, -, -, -, -, -, -, h12, -, -⟩ := ret_step hi hn (hx.trans hm.symm)
          exact h12 he
        · exact ih htr op' r' m' hm

end Hts.Model.WriterLTS
