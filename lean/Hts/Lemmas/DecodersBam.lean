/-
The explicit-indexing BAM reader of Hts.Model.DecodersBam computes exactly C05's `Hts.Model.Bam` model
(buffer operations, `readCigarOps`, `decodeBody`), so no index, slice or `make` of `bam.buffer`,
`readCigarOps`, `newBuffer` and `Reader.Read` can panic.  Core Lean only.
-/
import Hts.Lemmas.Decoders
import Hts.Model.DecodersBam
namespace Hts.Model.Decoders
open Outcome (ok err)
open Hts.Model.Bam (Byte Buf getU16 getU32 toI32 Record Omit)

theorem unsafeBytesIdx_eq (b : Buf) (n : Nat) : unsafeBytesIdx b (n : Int) = ok (b.unsafeBytes n) := by
  unfold unsafeBytesIdx Buf.unsafeBytes
  split
  · rfl
  · split
    · rename_i h; rw [if_pos (by omega)]
    · rename_i h
      rw [if_neg (by omega), if_neg (by omega)]
      rw [sliceTo_of_le _ _ _ (by omega)]
      simp

theorem readU8Idx_eq (b : Buf) : readU8Idx b = ok b.readU8 := by
  unfold readU8Idx Buf.readU8
  obtain ⟨data, e⟩ := b
  cases e with
  | true => rfl
  | false =>
    cases data with
    | nil => rfl
    | cons x rest => simp [index]

theorem readU16Idx_eq (b : Buf) : readU16Idx b = ok b.readU16 := by
  unfold readU16Idx Buf.readU16
  obtain ⟨data, e⟩ := b
  cases e with
  | true => rfl
  | false =>
    match data with
    | [] => rfl
    | [_] => rfl
    | x :: y :: rest =>
      simp only [Bool.false_eq_true, if_false, List.length_cons]
      rw [if_neg (by omega)]
      have h := unsafeBytesIdx_eq ⟨x :: y :: rest, false⟩ 2
      simp only [Buf.unsafeBytes, Bool.false_eq_true, if_false, List.length_cons] at h
      rw [if_neg (by omega)] at h
      rw [show (2 : Int) = ((2 : Nat) : Int) from rfl, bind_ok _ _ _ h]
      simp [u16Of, index, bind_ok, pure_eq_ok]

theorem readI32Idx_eq (b : Buf) : readI32Idx b = ok b.readI32 := by
  unfold readI32Idx Buf.readI32
  obtain ⟨data, e⟩ := b
  cases e with
  | true => rfl
  | false =>
    match data with
    | [] => rfl
    | [_] => rfl
    | [_, _] => rfl
    | [_, _, _] => rfl
    | x :: y :: z :: w :: rest =>
      simp only [Bool.false_eq_true, if_false, List.length_cons]
      rw [if_neg (by omega)]
      have h := unsafeBytesIdx_eq ⟨x :: y :: z :: w :: rest, false⟩ 4
      simp only [Buf.unsafeBytes, Bool.false_eq_true, if_false, List.length_cons] at h
      rw [if_neg (by omega)] at h
      rw [show (4 : Int) = ((4 : Nat) : Int) from rfl, bind_ok _ _ _ h]
      simp [u32Of, index, bind_ok, pure_eq_ok]

theorem readCigarLoop_eq : ∀ (k : Nat) (rem : List Byte), rem.length / 4 = k →
    readCigarLoop k rem = ok (Hts.Model.Bam.readCigarOps rem) := by
  intro k
  induction k with
  | zero =>
    intro rem h
    unfold readCigarLoop
    match rem with
    | [] => rfl
    | [_] => rfl
    | [_, _] => rfl
    | [_, _, _] => rfl
    | _ :: _ :: _ :: _ :: rest => simp only [List.length_cons] at h; omega
  | succ k ih =>
    intro rem h
    match rem with
    | [] => simp at h
    | [_] => simp at h
    | [_, _] => simp at h
    | [_, _, _] => simp at h
    | x :: y :: z :: w :: rest =>
      unfold readCigarLoop
      have hk : rest.length / 4 = k := by simp only [List.length_cons] at h; omega
      simp [slice, u32Of, index, Hts.Model.Bam.readCigarOps, ih rest hk]

theorem readCigarOpsIdx_eq (cb : List Byte) : readCigarOpsIdx cb = ok (Hts.Model.Bam.readCigarOps cb) :=
  readCigarLoop_eq _ cb rfl

theorem indexInt_range (site : String) (n : Nat) (i : Int) (h0 : ¬ i < -1) (hm : i ≠ -1) (h1 : ¬ i ≥ (n : Int)) :
    indexInt site (List.range n) i = ok i.toNat := by
  unfold indexInt
  rw [if_neg (by omega)]
  rw [index_of_lt _ _ _ (by simp only [List.length_range]; omega)]
  simp

theorem linkRefsIdx_eq (nrefs : Nat) (refID nextRefID : Int) (r : Record) :
    linkRefsIdx nrefs refID nextRefID r = liftE (Hts.Model.Bam.linkRefs nrefs refID nextRefID r) := by
  unfold linkRefsIdx Hts.Model.Bam.linkRefs
  split
  · rfl
  · rename_i hr
    simp only [Bool.and_eq_true, bne_iff_ne, ne_eq, Bool.or_eq_true, decide_eq_true_eq, not_and, not_or] at hr
    by_cases hm : refID = -1
    · subst hm
      simp only [beq_self_eq_true, if_true, pure_eq_ok, bind_ok _ _ _ rfl]
      split
      · split
        · rfl
        · split
          · rfl
          · rename_i hn1 hne hn
            simp only [Bool.or_eq_true, decide_eq_true_eq, not_or] at hn
            simp only [bne_iff_ne, ne_eq] at hn1
            rw [bind_ok _ _ _ (indexInt_range _ nrefs nextRefID hn.1 hn1 hn.2)]
            rfl
      · rfl
    · have hb : (refID == -1) = false := by simpa using hm
      have hr' := hr hm
      simp only [hb, Bool.false_eq_true, if_false]
      rw [bind_ok _ _ _ (indexInt_range _ nrefs refID hr'.1 hm hr'.2)]
      simp only [pure_eq_ok, bind_ok _ _ _ rfl]
      split
      · split
        · rfl
        · split
          · rfl
          · rename_i hn1 hne hn
            simp only [Bool.or_eq_true, decide_eq_true_eq, not_or] at hn
            simp only [bne_iff_ne, ne_eq] at hn1
            rw [bind_ok _ _ _ (indexInt_range _ nrefs nextRefID hn.1 hn1 hn.2)]
            rfl
      · rfl

theorem finishIdx_eq (nrefs : Nat) (refID nextRefID : Int) (b : Buf) (r : Record) :
    finishIdx nrefs refID nextRefID b r = liftE (Hts.Model.Bam.finish nrefs refID nextRefID b r) := by
  unfold finishIdx Hts.Model.Bam.finish
  split
  · rfl
  · exact linkRefsIdx_eq _ _ _ _


theorem ok_bind {α β} (v : α) (f : α → Outcome β) : (ok v >>= f) = f v := rfl

theorem unsafeBytesIdx_eq' (b : Buf) (n : Int) (h : 0 ≤ n) : unsafeBytesIdx b n = ok (b.unsafeBytes n.toNat) := by
  have := unsafeBytesIdx_eq b n.toNat
  rwa [Int.toNat_of_nonneg h] at this

theorem liftE_bind_parse (x : Except Hts.Model.Bam.Fault (List (List Byte))) (f : List (List Byte) → Outcome Record)
    (g : List (List Byte) → Except Hts.Model.Bam.Fault Record) (h : ∀ a, f a = liftE (g a)) :
    (liftE x >>= f) = liftE (match x with | .error e => .error e | .ok a => g a) := by
  cases x with
  | error e => rfl
  | ok a => exact h a

theorem decodeBodyIdx_eq (om : Omit) (nrefs : Nat) (body : List Byte) :
    decodeBodyIdx om nrefs body = liftE (Hts.Model.Bam.decodeBody om nrefs body) := by
  unfold decodeBodyIdx Hts.Model.Bam.decodeBody
  simp only [readI32Idx_eq, readU8Idx_eq, readU16Idx_eq, ok_bind]
  rcases Buf.readI32 ⟨body, false⟩ with ⟨refID, b1⟩
  simp only
  rcases b1.readI32 with ⟨pos, b2⟩
  simp only
  rcases b2.readU8 with ⟨nLen, b3⟩
  simp only
  rcases b3.readU8 with ⟨mapq, b4⟩
  simp only
  rcases (b4.discard 2).readU16 with ⟨nCigar, b5⟩
  simp only
  rcases b5.readU16 with ⟨flags, b6⟩
  simp only
  rcases b6.readI32 with ⟨lSeq, b7⟩
  simp only
  rcases b7.readI32 with ⟨nextRefID, b8⟩
  simp only
  rcases b8.readI32 with ⟨matePos, b9⟩
  simp only
  rcases b9.readI32 with ⟨tempLen, b10⟩
  simp only
  by_cases hn : nLen.toNat < 1
  · simp only [if_pos hn]; rfl
  · simp only [if_neg hn]
    have e1 : unsafeBytesIdx b10 ((nLen.toNat : Int) - 1) = ok (b10.unsafeBytes (nLen.toNat - 1)) := by
      have := unsafeBytesIdx_eq' b10 ((nLen.toNat : Int) - 1) (by omega)
      rwa [show ((nLen.toNat : Int) - 1).toNat = nLen.toNat - 1 from by omega] at this
    rw [e1, ok_bind]
    have e2 : ∀ b : Buf, unsafeBytesIdx b ((nCigar : Int) * 4) = ok (b.unsafeBytes (nCigar * 4)) := by
      intro b
      have := unsafeBytesIdx_eq' b ((nCigar : Int) * 4) (by omega)
      rwa [show ((nCigar : Int) * 4).toNat = nCigar * 4 from by omega] at this
    rw [e2, ok_bind, readCigarOpsIdx_eq, ok_bind]
    cases om with
    | all => simp only; exact finishIdx_eq _ _ _ _ _
    | none =>
      simp only
      by_cases hl : lSeq < 0
      · simp only [if_pos hl]; rfl
      · simp only [if_neg hl]
        have e3 : ∀ b : Buf, unsafeBytesIdx b (lSeq / 2 + lSeq % 2) = ok (b.unsafeBytes (lSeq.toNat / 2 + lSeq.toNat % 2)) := by
          intro b
          have := unsafeBytesIdx_eq' b (lSeq / 2 + lSeq % 2) (by omega)
          rwa [show (lSeq / 2 + lSeq % 2).toNat = lSeq.toNat / 2 + lSeq.toNat % 2 from by omega] at this
        have e4 : ∀ b : Buf, unsafeBytesIdx b lSeq = ok (b.unsafeBytes lSeq.toNat) :=
          fun b => unsafeBytesIdx_eq' b lSeq (by omega)
        rw [e3, ok_bind, e4, ok_bind, unsafeBytesIdx_eq, ok_bind]
        apply liftE_bind_parse
        intro a
        exact finishIdx_eq _ _ _ _ _
    | aux =>
      simp only
      by_cases hl : lSeq < 0
      · simp only [if_pos hl]; rfl
      · simp only [if_neg hl]
        have e3 : ∀ b : Buf, unsafeBytesIdx b (lSeq / 2 + lSeq % 2) = ok (b.unsafeBytes (lSeq.toNat / 2 + lSeq.toNat % 2)) := by
          intro b
          have := unsafeBytesIdx_eq' b (lSeq / 2 + lSeq % 2) (by omega)
          rwa [show (lSeq / 2 + lSeq % 2).toNat = lSeq.toNat / 2 + lSeq.toNat % 2 from by omega] at this
        have e4 : ∀ b : Buf, unsafeBytesIdx b lSeq = ok (b.unsafeBytes lSeq.toNat) :=
          fun b => unsafeBytesIdx_eq' b lSeq (by omega)
        rw [e3, ok_bind, e4, ok_bind]
        exact finishIdx_eq _ _ _ _ _


theorem liftE_total {α : Type} (x : Except Hts.Model.Bam.Fault α) : (liftE x).isPanic = false := by
  cases x <;> rfl

/-- `Reader.Read` with explicit indexing never panics, on any record buffer -/
theorem decodeBodyIdx_total (om : Omit) (nrefs : Nat) (body : List Byte) :
    (decodeBodyIdx om nrefs body).isPanic = false := by
  rw [decodeBodyIdx_eq]; exact liftE_total _

/-- `newBuffer`: `make([]byte, size)` only with `size > 4096 ≥ 0`, `br.buf[:size]` only with `0 < size ≤ 4096` -/
theorem newBufferIdx_total (x y z w : Byte) : (newBufferIdx x y z w).isPanic = false := by
  unfold newBufferIdx
  simp only
  split
  · rfl
  · split
    · rfl
    · split
      · rename_i h0 hneg hbig
        unfold makeLen
        rw [if_neg hneg]; rfl
      · rename_i h0 hneg hbig
        rw [sliceTo_of_le _ _ _ (by simp only [List.length_replicate]; omega)]
        rfl

end Hts.Model.Decoders
