/-
Reader vs specification, independent of the writer: for every alignment the BAM format can represent
(`Spec.Alignment.Valid`), the reader turns `Spec.layout` of it into the record that stands for it (`ofAlignment`).
-/
import Hts.Lemmas.BamSpec
import Hts.Lemmas.BamStream
namespace Hts.Model.Bam
open Hts.Spec.Bam (Elem AuxValue Alignment le twos)

/-- the bytes a string of hex digits stands for (`[]` past the first non-digit; total on valid values) -/
def hexBytes (s : List Byte) : List Byte :=
  match hexDec s with
  | .ok bs => bs
  | .error _ => []

/-- the in-memory `sam.Aux` of a typed value: `Z` without its NUL, `H` as the DECODED bytes of its digit string -/
def auxMem (t0 t1 : Byte) : AuxValue → List Byte
  | .char c => [t0, t1, 65#8, c]
  | .num t v => [t0, t1, t.letter] ++ le t.width (twos t.width v)
  | .str s => [t0, t1, 90#8] ++ s
  | .hex s => [t0, t1, 72#8] ++ hexBytes s
  | .arr t vs => [t0, t1, 66#8, t.letter] ++ le 4 vs.length ++ vs.flatMap (fun v => le t.width (twos t.width v))

def optRef (x : Int) : Option Nat := if x < 0 then none else some x.toNat

/-- the record that stands for a specification-level alignment: what a reader has to return for its layout -/
def ofAlignment (a : Alignment) : Record :=
  { name := a.readName, ref := optRef a.refID, pos := a.pos, mapq := BitVec.ofNat 8 a.mapq,
    cigar := a.cigar.map (fun c => BitVec.ofNat 32 (c.1 * 16 + c.2)), flags := BitVec.ofNat 16 a.flag,
    mateRef := optRef a.nextRefID, matePos := a.nextPos, tempLen := a.tlen, seqLen := a.seq.length,
    seq := Hts.Spec.Bam.packSeq a.seq, qual := a.qual, aux := a.aux.map (fun tv => auxMem tv.1.1 tv.1.2 tv.2) }

theorem letter_notZH (t : Elem) : isZH t.letter = false ∧ (t.letter == 66#8) = false ∧ (t.letter == 65#8) = false := by
  cases t <;> decide

theorem elemWidth_letter (t : Elem) : elemWidth t.letter = some t.width := by
  cases t <;> rfl

/-- an upper-case hex digit is the digit `hexEnc` writes for its value -/
theorem hexDigit_unhex : ∀ c : Byte, Hts.Spec.Bam.isHexDigit c = true →
    ∃ n, n < 16 ∧ unhex c = some n ∧ hexDigit n = c :=
  Hts.Lemmas.byte_forall _ (by decide +kernel)

/-- H payload: digits → bytes → digits, for a valid digit string -/
theorem hexEnc_hexBytes : ∀ (s : List Byte), s.length % 2 = 0 → (∀ c ∈ s, Hts.Spec.Bam.isHexDigit c = true) →
    hexDec s = .ok (hexBytes s) ∧ hexEnc (hexBytes s) = s
  | [], _, _ => ⟨rfl, rfl⟩
  | [_], h, _ => by simp at h
  | a :: b :: rest, h, hd => by
    obtain ⟨n, hn, ha, han⟩ := hexDigit_unhex a (hd a (by simp))
    obtain ⟨m, hm, hb, hbm⟩ := hexDigit_unhex b (hd b (by simp))
    obtain ⟨ih1, ih2⟩ := hexEnc_hexBytes rest (by simp only [List.length_cons] at h; omega)
      (fun c hc => hd c (by simp [hc]))
    have hdec : hexDec (a :: b :: rest) = .ok (byteOf (n * 16 + m) :: hexBytes rest) := by
      simp only [hexDec, ha, hb, ih1]
    have hbytes : hexBytes (a :: b :: rest) = byteOf (n * 16 + m) :: hexBytes rest := by
      simp only [hexBytes, hdec]
    refine ⟨by rw [hbytes]; exact hdec, ?_⟩
    have h1 : (byteOf (n * 16 + m)).toNat / 16 = n := by rw [byteOf_toNat]; omega
    have h2 : (byteOf (n * 16 + m)).toNat % 16 = m := by rw [byteOf_toNat]; omega
    rw [hbytes]
    simp only [hexEnc, h1, h2, han, hbm, ih2]

theorem encAux_auxMem (t0 t1 : Byte) (v : AuxValue) (hv : v.Valid) :
    encAux (auxMem t0 t1 v) = Hts.Spec.Bam.auxBytes t0 t1 v := by
  cases v with
  | char c => rw [auxMem, encAux_other _ _ _ _ rfl]; rfl
  | num t x =>
    have := (letter_notZH t).1
    simp only [auxMem, List.cons_append, List.nil_append]
    rw [encAux_other _ _ _ _ this]; rfl
  | str s => simp only [auxMem, List.cons_append, List.nil_append]; rw [encAux_Z]; simp [Hts.Spec.Bam.auxBytes]
  | hex s =>
    have h2 := (hexEnc_hexBytes s hv.1 hv.2).2
    simp only [auxMem, List.cons_append, List.nil_append]
    rw [encAux_H, h2]; simp [Hts.Spec.Bam.auxBytes]
  | arr t vs =>
    simp only [auxMem, List.cons_append, List.nil_append]
    rw [encAux_other _ _ _ _ rfl]; simp [Hts.Spec.Bam.auxBytes]

theorem flatMap_le_length (w : Nat) (vs : List Int) :
    (vs.flatMap (fun v => le w (twos w v))).length = vs.length * w := by
  induction vs with
  | nil => simp
  | cons v vs ih => simp only [List.flatMap_cons, List.length_append, le_length, ih, List.length_cons]; rw [Nat.succ_mul]; omega

theorem auxOK_auxMem (t0 t1 : Byte) (v : AuxValue) (hv : v.Valid) (h0 : t0 ≠ 0#8) (h1 : t1 ≠ 0#8) :
    auxOK (auxMem t0 t1 v) = true := by
  cases v with
  | char c => simp [auxMem, auxOK_cons3]
  | num t x =>
    obtain ⟨hz, hb, ha⟩ := letter_notZH t
    have hz' : (t.letter == 90#8) = false ∧ (t.letter == 72#8) = false := by simpa [isZH] using hz
    simp [auxMem, auxOK_cons3, ha, hb, hz'.1, hz'.2, elemWidth_letter, le_length]
  | str s =>
    have hs : 0#8 ∉ s := hv
    simp [auxMem, auxOK_cons3, hs, Ne.symm h0, Ne.symm h1]
  | hex s =>
    simp [auxMem, auxOK_cons3, h0, h1]
  | arr t vs =>
    have hl : vs.length < 4294967296 := hv.1
    have hle : le 4 vs.length = putU32 vs.length := le4 _
    have hfl := flatMap_le_length t.width vs
    simp only [auxMem, hle, putU32, List.cons_append, List.nil_append, auxOK_cons3]
    simp only [elemWidth_letter, getU32_put, Nat.mod_eq_of_lt hl, hfl]
    simp


theorem packSeq_length : ∀ cs : List Nat, (Hts.Spec.Bam.packSeq cs).length = (cs.length + 1) / 2
  | [] => rfl
  | [_] => by simp [Hts.Spec.Bam.packSeq]
  | _ :: _ :: rest => by simp only [Hts.Spec.Bam.packSeq, List.length_cons, packSeq_length rest]; omega

theorem packSeq_padOK : ∀ cs : List Nat, (∀ c ∈ cs, c < 16) → padOK cs.length (Hts.Spec.Bam.packSeq cs) = true
  | [], _ => rfl
  | [a], h => by
    have := h a (by simp)
    simp only [List.length_cons, List.length_nil, Hts.Spec.Bam.packSeq, padOK, BitVec.toNat_ofNat, beq_iff_eq]
    omega
  | _ :: _ :: rest, h => by
    simp only [List.length_cons, Hts.Spec.Bam.packSeq, padOK]
    exact packSeq_padOK rest (fun c hc => h c (by simp [hc]))

theorem refID_optRef (x : Int) (h : -1 ≤ x) : refID (optRef x) = x := by
  unfold optRef
  split
  · simp only [refID]; omega
  · simp only [refID]; omega

theorem cigarBytes_ofAlignment (cg : List (Nat × Nat)) (h : ∀ c ∈ cg, c.1 < 268435456 ∧ c.2 ≤ 8) :
    cigarBytes (cg.map (fun c => BitVec.ofNat 32 (c.1 * 16 + c.2))) = cg.flatMap (fun c => le 4 (c.1 * 16 + c.2)) := by
  induction cg with
  | nil => rfl
  | cons c cg ih =>
    have hc := h c (by simp)
    have : (BitVec.ofNat 32 (c.1 * 16 + c.2)).toNat = c.1 * 16 + c.2 := by
      simp only [BitVec.toNat_ofNat]; omega
    have ih' := ih (fun d hd => h d (by simp [hd]))
    simp only [cigarBytes, List.map_cons, List.flatMap_cons, this, le4] at ih' ⊢
    rw [ih']

theorem encAuxAll_map (xs : List ((Byte × Byte) × AuxValue)) (hv : ∀ tv ∈ xs, tv.2.Valid) :
    encAuxAll (xs.map (fun tv => auxMem tv.1.1 tv.1.2 tv.2))
      = xs.flatMap (fun tv => Hts.Spec.Bam.auxBytes tv.1.1 tv.1.2 tv.2) := by
  induction xs with
  | nil => rfl
  | cons x xs ih =>
    have ih' := ih (fun tv htv => hv tv (by simp [htv]))
    simp only [encAuxAll, List.map_cons, List.flatMap_cons] at ih' ⊢
    rw [ih', encAux_auxMem _ _ _ (hv x (by simp))]

theorem auxOK_ofAlignment {n : Nat} {a : Alignment} (h : a.Valid n) :
    ∀ x ∈ (ofAlignment a).aux, auxOK x = true := by
  intro x hx
  simp only [ofAlignment, List.mem_map] at hx
  obtain ⟨tv, htv, rfl⟩ := hx
  obtain ⟨hv, h0, h1⟩ := h.aux tv htv
  exact auxOK_auxMem _ _ _ hv h0 h1

/-- the specification's record body is the writer's field sequence for the record standing for the alignment -/
theorem body_ofAlignment {n : Nat} {a : Alignment} (h : a.Valid n) :
    Hts.Spec.Bam.body a = bodyOf a.bin (encAuxAll (ofAlignment a).aux) (ofAlignment a) := by
  have hq : Hts.Spec.Bam.qualField a = qualBytes (ofAlignment a) := by
    simp only [Hts.Spec.Bam.qualField, qualBytes, ofAlignment]
    cases a.qual <;> rfl
  have hfl : (BitVec.ofNat 16 a.flag).toNat = a.flag := by
    have := h.flag; simp only [BitVec.toNat_ofNat]; omega
  have hsz := h.size
  have hsl : a.seq.length < 4294967296 := by
    have : (Hts.Spec.Bam.qualField a).length ≤ (Hts.Spec.Bam.body a).length := by
      simp only [Hts.Spec.Bam.body, List.length_append]; omega
    have hql : (Hts.Spec.Bam.qualField a).length = a.seq.length := by
      simp only [Hts.Spec.Bam.qualField]
      cases hqq : a.qual with
      | none => simp
      | some q => simpa using h.qual q hqq
    omega
  simp only [Hts.Spec.Bam.body, hq]
  simp only [ofAlignment, bodyOf, int32_eq, le1, le2, le4, refID_optRef _ h.refID.1, refID_optRef _ h.nextRefID.1, hfl,
    cigarBytes_ofAlignment _ h.cigar.2, encAuxAll_map _ (fun tv htv => (h.aux tv htv).1), putI32_natCast _ hsl, List.length_map, List.append_assoc,
    List.cons_append, List.nil_append, byteOf]


theorem optRef_lt {n : Nat} {x : Int} (h : x < n) : ∀ i, optRef x = some i → i < n := by
  intro i hi
  unfold optRef at hi
  split at hi
  · cases hi
  · simp only [Option.some.injEq] at hi; omega

/-- the record standing for a valid alignment is well-formed -/
theorem wf_ofAlignment {n : Nat} {a : Alignment} (h : a.Valid n) : WF n (ofAlignment a) where
  nrefs_ok := h.nrefs_lt
  name_len := ⟨h.name.1, h.name.2.1⟩
  name_nonul := h.name.2.2
  ref_ok := optRef_lt h.refID.2
  mate_ok := optRef_lt h.nextRefID.2
  pos_ok := h.pos
  matePos_ok := h.nextPos
  tempLen_ok := h.tlen
  cigar_count := by simpa [ofAlignment] using h.cigar.1
  seq_len := by simp [ofAlignment, packSeq_length]
  qual_len := h.qual
  aux_ok := auxOK_ofAlignment h
  size_ok := by
    have hb := body_ofAlignment h
    have hs := h.size
    rw [hb, bodyOf_length, encAuxAll_length _ (auxOK_ofAlignment h)] at hs
    have hq : (qualBytes (ofAlignment a)).length = (ofAlignment a).seqLen := by
      simp only [qualBytes, ofAlignment]
      cases hqq : a.qual with
      | none => simp
      | some q => simpa using h.qual q hqq
    omega

/-- READER vs SPECIFICATION: for every alignment the format can represent, the reader turns the specification's
layout of it (whoever wrote it, whatever the bin field holds) into the record that stands for the alignment. -/
theorem readRecord_layout (om : Omit) {n : Nat} {a : Alignment} (h : a.Valid n) (rest : List Byte) :
    readRecord om n (Hts.Spec.Bam.layout a ++ rest) = .record (expected om (ofAlignment a)) rest := by
  have hwf := wf_ofAlignment h
  have hb := body_ofAlignment h
  have hsz := h.size
  have hpos : 0 < (Hts.Spec.Bam.body a).length := by
    rw [hb, bodyOf_length]; omega
  have hput : le 4 (Hts.Spec.Bam.body a).length = putI32 ((Hts.Spec.Bam.body a).length : Int) := by
    rw [le4, putI32_natCast _ (by omega)]
  rw [Hts.Spec.Bam.layout, hput, List.append_assoc, readRecord_frame om n _ rest hpos hsz, hb,
    decodeBody_bodyOf om n _ a.bin hwf]
  cases om <;> rfl

end Hts.Model.Bam
