/-
Writer LTS with the compression-failure oracle `cfg.cfault`: a block whose compression fails is never
delivered, Close reports it, and (without I/O faults) the delivered blocks are exactly the blocks before the
first one whose compression fails.
-/
import Hts.Lemmas.WriterLTSAcc
namespace Hts.Model.WriterLTS

variable {cfg : Cfg} {s t : State} {e : Option Ev}

/-- no block whose compression failed is ever delivered (either protocol variant) -/
theorem next_out_ok {l : Label} (ho : ∀ b ∈ s.out, cfg.cfault b = false) (h : next cfg s l = some (e, t)) :
    ∀ b ∈ t.out, cfg.cfault b = false := by
  refine next_cases h ?_ ?_ ?_ ?_
  · intro h
    unfold apiStep at h
    step_cases h <;> exact ho
  · intro h
    unfold emStep at h
    step_cases h
    all_goals first
      | exact ho
      | (intro b hb
         simp only [List.mem_append, List.mem_singleton] at hb
         rcases hb with hb | hb
         · exact ho b hb
         · subst hb; simp_all)
  · intro i q _ _ ht; rw [ht]; exact ho
  · intro it _ _ _ ht; rw [ht]; exact ho

theorem reachable_out_ok (h : Reachable cfg s) : ∀ b ∈ s.out, cfg.cfault b = false := by
  induction h with
  | init => intro b hb; simp [init] at hb
  | step _ hst ih =>
    obtain ⟨l, e, hn⟩ := hst
    exact next_out_ok ih hn

/-- `Close` returns nil or the latched error, never ErrClosed -/
theorem close_res (hr : cfg.repaired = true) {tr : List Ev} (h : Run cfg tr s) :
    ∀ {r : Res} {m : Nat}, .ret .close r m ∈ tr → r = .ok ∨ r = .err := by
  induction h with
  | init => intro r m h; simp at h
  | @step tr0 s0 l e t0 hrun hn ih =>
    intro r m hmem
    cases e with
    | none => exact ih (by simpa using hmem)
    | some ev =>
      simp only [Option.toList_some, List.singleton_append, List.mem_cons] at hmem
      rcases hmem with hm | hm
      · obtain ⟨hi, -⟩ := run_inv hr hrun
        obtain ⟨-, -, -, -, -, -, -, -, -, -, -, -, -, h14⟩ := ret_step hi hn hm.symm
        have := (h14 rfl).2.1
        rw [this]; unfold resOf; split <;> simp
      · exact ih hm

/-- if the compression of any block submitted before `Close` returned has failed, `Close` returns an error -/
theorem close_err_after_cfault (hr : cfg.repaired = true) {tr : List Ev} (h : Run cfg tr s) {r : Res} {m b : Nat}
    (hmem : .ret .close r m ∈ tr) (hb : b < m) (hc : cfg.cfault b = true) : r = .err := by
  rcases close_res hr h hmem with hk | hk
  · exfalso
    subst hk
    obtain ⟨hi, hR⟩ := run_inv hr h
    obtain ⟨h1, -⟩ := hR.closeOK m hmem
    have hin : b ∈ s.out := by
      rw [hi.pref]; simp; omega
    have := reachable_out_ok (run_reachable h) b hin
    simp [hc] at this
  · exact hk

/-! ### how many blocks have been submitted when a call returns nil -/

/-- a call that returns nil owes no more blocks and has seen a clear latch -/
theorem ret_ok_pcRem {l : Label} {ev : Ev} {op : Op} {m : Nat}
    (h : next cfg s l = some (some ev, t)) (hev : ev = .ret op .ok m) : pcRem s.api = 0 ∧ s.err = false := by
  refine next_cases h ?_ ?_ ?_ ?_
  · intro h
    unfold apiStep at h
    step_cases h
    all_goals first
      | (simp at hev; done)
      | (simp only [Ev.ret.injEq] at hev
         obtain ⟨h1, h2, h3⟩ := hev
         simp_all [pcRem, resOf])
  · intro h
    unfold emStep at h
    step_cases h
    all_goals simp at hev
  · intro i q _ he; simp at he
  · intro it _ _ he; simp at he

/-- When the `(j+1)`-th call to return returns nil and no `Close` is among the first `j+1` calls of the script,
    the number of blocks submitted so far is exactly what those `j+1` calls owe. -/
theorem ret_ok_count (hr : cfg.repaired = true) {tr : List Ev} (h : Run cfg tr s) :
    ∀ {post mid : List Ev} {op : Op} {m j : Nat}, tr = post ++ .ret op .ok m :: mid → nrets mid = j →
      hasClose (cfg.script.take (j + 1)) = false → m = seqBlocks (cfg.script.take (j + 1)) false := by
  induction h with
  | init => intro post mid op m j h; simp at h
  | @step tr0 s0 l e t0 hrun hn ih =>
    intro post mid op m j htr hnr hnc
    cases e with
    | none => exact ih (by simpa using htr) hnr hnc
    | some ev =>
      simp only [Option.toList_some, List.singleton_append] at htr
      cases post with
      | cons x post =>
        simp only [List.cons_append, List.cons.injEq] at htr
        exact ih htr.2 hnr hnc
      | nil =>
        simp only [List.nil_append, List.cons.injEq] at htr
        obtain ⟨hev, hmid⟩ := htr
        subst hmid
        obtain ⟨hi, -⟩ := run_inv hr hrun
        have hp := run_pos hrun
        have ha := run_acc hrun
        have hni : s0.api ≠ .idle := by subst hev; exact ret_not_idle hn
        obtain ⟨h1, -, -, -, -, -, -, -, -, -, -, -, -, -⟩ := ret_step hi hn hev
        obtain ⟨hpc, herr⟩ := ret_ok_pcRem hn hev
        have hnc' : ncalls tr0 = j + 1 := by
          have := hp.bal
          simp only [hni, if_false] at this
          omega
        have hnotc : restClosed s0 = false := by
          cases hc : restClosed s0 with
          | false => rfl
          | true =>
            have := hp.closedBy hc
            rw [hnc'] at this
            have hh : hasClose (cfg.script.take (j + 1)) = true := by
              simp only [hasClose]; simpa using this
            rw [hh] at hnc; cases hnc
        have hb := ha.blocks herr
        rw [hp.script, hnc', hnotc, hpc] at hb
        -- split the script at j+1
        have hsplit : seqBlocks cfg.script false =
            seqBlocks (cfg.script.take (j + 1)) false + seqBlocks (cfg.script.drop (j + 1)) false := by
          have : ∀ (a b : List Op), hasClose a = false →
              seqBlocks (a ++ b) false = seqBlocks a false + seqBlocks b false := by
            intro a
            induction a with
            | nil => intro b _; simp [seqBlocks]
            | cons o a iha =>
              intro b hcl
              cases o with
              | close => simp [hasClose] at hcl
              | write k =>
                have : hasClose a = false := by simpa [hasClose] using hcl
                simp only [List.cons_append, seqBlocks, iha b this]; omega
              | flush f =>
                have : hasClose a = false := by simpa [hasClose] using hcl
                simp only [List.cons_append, seqBlocks, iha b this]; omega
              | wait =>
                have : hasClose a = false := by simpa [hasClose] using hcl
                simp only [List.cons_append, seqBlocks, iha b this]
          have := this (cfg.script.take (j + 1)) (cfg.script.drop (j + 1)) hnc
          rwa [List.take_append_drop] at this
        omega

/-! ### whatever fails, no more blocks are submitted than the script owes -/

def SubLe (cfg : Cfg) (s : State) : Prop :=
  s.submitted + pcRem s.api + seqBlocks s.script (restClosed s) ≤ seqBlocks cfg.script false

theorem next_suble {l : Label} (ha : SubLe cfg s) (h : next cfg s l = some (e, t)) : SubLe cfg t := by
  unfold SubLe at ha ⊢
  refine next_cases h ?_ ?_ ?_ ?_
  · intro h
    unfold apiStep at h
    step_cases h
    all_goals simp only [restClosed] at ha
    all_goals first
      | (rename_i hapi _ _ _ hs
         simp only [hapi, hs, pcRem, inClose, Bool.or_false, Nat.add_zero] at ha
         simp only [restClosed]
         rw [seqBlocks_entry] at ha; omega)
      | (simp_all [restClosed, pcRem, inClose]; done)
      | (simp_all [restClosed, pcRem, inClose]; omega)
  · intro h
    obtain ⟨f1, f2, -, -, f5, f6, -⟩ := em_frame h
    simpa [restClosed, f1, f2, f5, f6] using ha
  · intro i q _ _ ht; rw [ht]; exact ha
  · intro it _ _ _ ht; rw [ht]; exact ha

theorem reachable_suble (h : Reachable cfg s) : SubLe cfg s := by
  induction h with
  | init => simp [SubLe, init, pcRem, restClosed, inClose]
  | step _ hst ih =>
    obtain ⟨l, e, hn⟩ := hst
    exact next_suble ih hn

/-! ### no I/O faults: what is delivered when compression may fail -/

structure CInv (cfg : Cfg) (s : State) : Prop where
  /-- once wedged, the block that would be delivered next is a submitted one whose compression failed -/
  stuck : wedged s = true → cfg.cfault s.out.length = true ∧ s.out.length < s.submitted
  eofOK : s.eof = true → s.err = false ∧ s.em = .done

theorem cinv_next (hr : cfg.repaired = true) (hnf : ∀ i, cfg.fault i = false) (hi : Inv cfg s) (hc : CInv cfg s)
    {l : Label} (h : next cfg s l = some (e, t)) : CInv cfg t := by
  obtain ⟨c1, c2⟩ := hc
  have hord := hi.order
  have hjoin := hi.joined
  have hneed := hi.needsClosed
  have hdone := hi.emDone
  refine next_cases h ?_ ?_ ?_ ?_
  · intro h
    unfold apiStep at h
    step_cases h
    all_goals first
      | exact ⟨c1, c2⟩
      | (constructor <;> simp_all [wedged, apiNeedsClosed]; done)
      | (refine ⟨?_, ?_⟩
         · intro hw
           have := c1 (by simpa [wedged] using hw)
           exact ⟨this.1, by simp only; omega⟩
         · intro he; have := c2 he; simp_all)
  · intro h
    cases hem : s.em with
    | recv =>
      simp only [emStep, hem] at h
      step_cases h
      all_goals (refine ⟨?_, ?_⟩ <;> simp_all [wedged, emFailed])
    | hold it =>
      simp only [emStep, hem, hr, Bool.true_and, ↓reduceIte] at h
      have hblk : wedged s = false → it.blk = s.out.length ∧ s.out.length < s.submitted := by
        intro hw
        obtain ⟨h1, h2⟩ := hord hw
        simp only [unwritten, hem, emUnwritten, List.singleton_append, List.map_cons, List.length_cons,
          List.range'_succ, List.cons.injEq] at h1 h2
        exact ⟨h1.1, by omega⟩
      step_cases h
      · -- compression failed
        refine ⟨fun _ => ?_, fun he => ?_⟩
        · cases hw : wedged s with
          | true => exact c1 hw
          | false =>
            obtain ⟨hb1, hb2⟩ := hblk hw
            exact ⟨by rw [← hb1]; assumption, hb2⟩
        · have := c2 he; simp_all
      · refine ⟨fun _ => ?_, fun he => ?_⟩
        · exact c1 (by simp_all [wedged])
        · have := c2 he; simp_all
      · simp_all
      · refine ⟨fun hw => ?_, fun he => ?_⟩
        · simp_all [wedged, emFailed]
        · have := c2 he; simp_all
    | failed it =>
      simp only [emStep, hem, hr, if_true] at h
      step_cases h
      refine ⟨fun _ => c1 (by simp [wedged, hem, emFailed]), fun he => ?_⟩
      have := c2 he; simp_all
    | latch it => exact absurd hem (hi.rep it).1
    | rel it =>
      simp only [emStep, hem] at h
      step_cases h
      refine ⟨fun hw => c1 (by simpa [wedged, hem, emFailed] using hw), fun he => ?_⟩
      have := c2 he; simp_all
    | push it =>
      simp only [emStep, hem] at h
      step_cases h
      refine ⟨fun hw => c1 (by simpa [wedged, hem, emFailed] using hw), fun he => ?_⟩
      have := c2 he; simp_all
    | pushx it => exact absurd hem (hi.rep it).2
    | done => simp [emStep, hem] at h
  · intro i q _ _ ht; rw [ht]; exact ⟨by simpa [wedged] using c1, c2⟩
  · intro it hem _ _ ht
    rw [ht]
    refine ⟨fun hw => c1 (by simpa [wedged, hem, emFailed] using hw), fun he => ?_⟩
    have := c2 he; simp_all

theorem reachable_cinv (hr : cfg.repaired = true) (hnf : ∀ i, cfg.fault i = false) (h : Reachable cfg s) :
    CInv cfg s := by
  induction h with
  | init => exact ⟨by simp [init, wedged, emFailed], by simp [init]⟩
  | step hs hst ih =>
    obtain ⟨l, e, hn⟩ := hst
    exact cinv_next hr hnf (reachable_inv hr hs) ih hn

/-- the first block (in submission order) among the first `n` whose compression fails, else `n` -/
def firstFail (cf : Nat → Bool) : Nat → Nat
  | 0 => 0
  | n + 1 => if firstFail cf n < n then firstFail cf n else if cf n then n else n + 1

theorem firstFail_le (cf : Nat → Bool) : ∀ n, firstFail cf n ≤ n
  | 0 => Nat.le_refl _
  | n + 1 => by
    have := firstFail_le cf n
    simp only [firstFail]; split
    · omega
    · split <;> omega

theorem firstFail_spec (cf : Nat → Bool) : ∀ n,
    (∀ b, b < firstFail cf n → cf b = false) ∧ (firstFail cf n < n → cf (firstFail cf n) = true)
  | 0 => ⟨fun b hb => by simp [firstFail] at hb, fun h => by simp [firstFail] at h⟩
  | n + 1 => by
    obtain ⟨h1, h2⟩ := firstFail_spec cf n
    have hle := firstFail_le cf n
    simp only [firstFail]
    split
    · rename_i hlt; exact ⟨h1, fun _ => h2 hlt⟩
    · rename_i hge
      have heq : firstFail cf n = n := by omega
      split
      · rename_i hcf; exact ⟨fun b hb => h1 b (by omega), fun _ => hcf⟩
      · rename_i hcf
        refine ⟨fun b hb => ?_, fun h => by omega⟩
        by_cases hb' : b < n
        · exact h1 b (by omega)
        · have : b = n := by omega
          subst this; simpa using hcf

/-- characterisation: `k ≤ n`, nothing fails below `k`, and `k` fails unless `k = n` -/
theorem firstFail_unique (cf : Nat → Bool) (n k : Nat) (hk : k ≤ n) (h1 : ∀ b, b < k → cf b = false)
    (h2 : k < n → cf k = true) : firstFail cf n = k := by
  obtain ⟨g1, g2⟩ := firstFail_spec cf n
  have hle := firstFail_le cf n
  by_cases hlt : firstFail cf n < k
  · have := h1 _ hlt
    have := g2 (by omega)
    simp_all
  · by_cases hgt : k < firstFail cf n
    · have := g1 _ hgt
      have := h2 (by omega)
      simp_all
    · omega

/-- Without I/O faults, when everything has come to rest: the delivered blocks are exactly the blocks
    `0 … f-1` where `f` is the first block whose compression fails among those the script would submit
    (all of them if none fails); the EOF marker is written iff the script closes the writer and no compression
    failed.  Independent of schedule, completion order and `wc`. -/
theorem output_of_idle_cf (hr : cfg.repaired = true) (hnf : ∀ i, cfg.fault i = false) (h : Reachable cfg s)
    (hidle : AllIdle s) :
    s.out = List.range (firstFail cfg.cfault (seqBlocks cfg.script false)) ∧
    s.eof = (hasClose cfg.script && decide (firstFail cfg.cfault (seqBlocks cfg.script false) = seqBlocks cfg.script false)) := by
  have hi := reachable_inv hr h
  have ha := reachable_acc h
  have hc := reachable_cinv hr hnf h
  have hok := reachable_out_ok h
  obtain ⟨⟨hapi, hs⟩, hq, hp, hem⟩ := hidle
  have hpref := hi.pref
  have hlow : ∀ b, b < s.out.length → cfg.cfault b = false := fun b hb =>
    hok b (by rw [hpref]; simp; exact hb)
  cases hw : wedged s with
  | false =>
    have he : s.err = false := by
      simp only [wedged, Bool.or_eq_false_iff] at hw; exact hw.1
    have hb := ha.blocks he
    simp only [hapi, hs, pcRem, seqBlocks, Nat.add_zero] at hb
    have ho := pend_zero_out hi hp he
    have hff : firstFail cfg.cfault (seqBlocks cfg.script false) = seqBlocks cfg.script false :=
      firstFail_unique _ _ _ (Nat.le_refl _) (fun b hb' => hlow b (by omega)) (fun h => by omega)
    refine ⟨by rw [hff, ← hb, ← ho]; exact hpref, ?_⟩
    rw [hff]
    simp only [decide_true, Bool.and_true]
    have hcl := ha.close
    simp only [restClosed, hapi, inClose, hs, hasClose, List.contains_nil, Bool.or_false] at hcl
    simp only [hasClose]
    rw [hcl]
    cases hcd : s.closed with
    | true => exact hi.eofOK hcd he (by simp [hapi]) (by simp [hapi])
    | false =>
      cases hf : s.eof with
      | false => rfl
      | true => have := hi.eofClosed hf; simp [hcd] at this
  | true =>
    have hcf := hc.stuck hw
    -- the failing block is one the script submits: it was submitted
    have hlt : s.out.length < seqBlocks cfg.script false := by
      have := reachable_suble h
      unfold SubLe at this
      omega
    have hff : firstFail cfg.cfault (seqBlocks cfg.script false) = s.out.length :=
      firstFail_unique _ _ _ (by omega) hlow (fun _ => hcf.1)
    refine ⟨by rw [hff]; exact hpref, ?_⟩
    have hne : ¬ s.out.length = seqBlocks cfg.script false := by omega
    rw [hff]
    simp only [hne, decide_false, Bool.and_false]
    cases hf : s.eof with
    | false => rfl
    | true =>
      have := hc.eofOK hf
      simp [wedged, this.1, this.2, emFailed] at hw

end Hts.Model.WriterLTS
