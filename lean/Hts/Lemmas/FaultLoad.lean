/-
The faulty sequential reader (Model/BgzfReaderFaults.lean): what one load attempt can do.
-/
import Hts.Model.BgzfReaderFaults
import Hts.Lemmas.ReaderProps
namespace Hts.Model.Bgzf
open Hts.Spec.Flat

/-- The oracle never makes the source report a clean end of input where a member starts. -/
def NoEof (o : List LoadFault) : Prop := ∀ f ∈ o, f ≠ LoadFault.eof

theorem NoEof.tail {o : List LoadFault} (h : NoEof o) : NoEof o.tail :=
  fun f hf => h f (List.mem_of_mem_tail hf)

/-- What one load attempt can do from a position inside the file. -/
inductive LoadOut (F : File) (x : FReader) (base : Nat) (res : FReader × Option Err) : Prop where
  | loaded (m' : Member) (hm : memberAt F base = .ok m') (he : res.2 = none)
      (hc : res.1.r = { x.r with cur := ⟨base, m'.csize, m'.data, 0, ⟨base, 0⟩⟩ })
  | realEof (hm : memberAt F base = .eof) (he : res.2 = some .eof)
      (hc : res.1.r = { x.r with cur := Block.failed base })
  | bad (hm : memberAt F base = .bad) (he : res.2 = some .other)
      (hc : res.1.r = { x.r with cur := Block.failed base })
  | faultErr (he : res.2 = some .other) (hc : res.1.r = { x.r with cur := Block.failed base })
  | faultEof (ho : LoadFault.eof ∈ x.oracle) (he : res.2 = some .eof)
      (hc : res.1.r = { x.r with cur := Block.failed base })

theorem loadAt_out {F : File} (x : FReader) (base : Nat) (hf : x.r.file = F) :
    LoadOut F x base (x.loadAt base) ∧ (x.loadAt base).1.oracle = x.oracle.tail := by
  have hload : ∀ rest, LoadOut F x base
      (let (b, e) := x.r.cur.load x.r.file base; ((⟨{ x.r with cur := b }, rest⟩ : FReader), e)) := by
    intro rest
    simp only [Block.load]
    cases hm : memberAt x.r.file base with
    | ok m' => exact .loaded m' (hf ▸ hm) rfl rfl
    | eof => exact .realEof (hf ▸ hm) rfl rfl
    | bad => exact .bad (hf ▸ hm) rfl rfl
  unfold FReader.loadAt
  cases ho : x.oracle with
  | nil => exact ⟨by simpa using hload [], by simp⟩
  | cons f rest =>
    cases f with
    | ok => exact ⟨by simpa using hload rest, by simp⟩
    | err => exact ⟨.faultErr rfl rfl, by simp⟩
    | eof => exact ⟨.faultEof (by simp [ho]) rfl rfl, by simp⟩

theorem memberAt_next {F pre post : File} {m : Member} (hwf : WF F) (hF : F = pre ++ m :: post) :
    memberAt F (csum pre + m.csize) = memberAt post 0 := by
  have hw : WF (pre ++ [m]) := by
    have : pre ++ m :: post = (pre ++ [m]) ++ post := by simp
    rw [hF, this] at hwf; exact hwf.append_left
  have := memberAt_split (pre ++ [m]) post hw
  simp only [List.append_assoc, List.cons_append, List.nil_append, csum_append, csum, Nat.add_zero] at this
  rw [hF]; exact this

/-- `nextBlock` from a position inside the file: the next member, or a failed block with `io.EOF` (the real end,
or a source truncated here) or another error (a fault). -/
theorem fnextBlock_at {F : File} (hwf : WF F) {x : FReader} {pre : File} {m : Member} {post : File} {k : Nat}
    {tx : Offset} (hfile : x.r.file = F) (hsplit : F = pre ++ m :: post)
    (hcur : x.r.cur = ⟨csum pre, m.csize, m.data, k, tx⟩) :
    x.nextBlock.1.oracle = x.oracle.tail ∧
    ((∃ m' post', post = m' :: post' ∧ x.nextBlock.2 = none ∧
        x.nextBlock.1.r = { x.r with cur := ⟨csum (pre ++ [m]), m'.csize, m'.data, 0, ⟨csum (pre ++ [m]), 0⟩⟩ }) ∨
     (∃ e, x.nextBlock.2 = some e ∧ x.nextBlock.1.r = { x.r with cur := Block.failed (csum pre + m.csize) } ∧
        (e = .eof ∨ e = .other) ∧ (e = .eof → post = [] ∨ LoadFault.eof ∈ x.oracle))) := by
  have hb : x.r.cur.nextBase = csum pre + m.csize := by rw [hcur]; rfl
  have ⟨hout, hor⟩ := loadAt_out x (csum pre + m.csize) hfile
  have hm := memberAt_next hwf hsplit
  unfold FReader.nextBlock
  rw [hb]
  refine ⟨hor, ?_⟩
  cases hout with
  | loaded m' hm' he hc =>
    rw [hm] at hm'
    cases post with
    | nil => simp [memberAt] at hm'
    | cons m'' post' =>
      simp only [memberAt_zero_cons, Load.ok.injEq] at hm'
      subst hm'
      exact Or.inl ⟨m'', post', rfl, he, by rw [hc]; simp [csum]⟩
  | realEof hm' he hc =>
    rw [hm] at hm'
    cases post with
    | nil => exact Or.inr ⟨.eof, he, hc, Or.inl rfl, fun _ => Or.inl rfl⟩
    | cons m'' post' => simp [memberAt] at hm'
  | bad hm' he hc =>
    rw [hm] at hm'
    cases post <;> simp [memberAt] at hm'
  | faultErr he hc => exact Or.inr ⟨.other, he, hc, Or.inr rfl, fun h => by cases h⟩
  | faultEof ho he hc => exact Or.inr ⟨.eof, he, hc, Or.inl rfl, fun _ => Or.inr ho⟩

end Hts.Model.Bgzf
