/-
Operation histories of the caches and what holds after every history:
well-formedness (`Len ≤ Cap`, one node per key) for all capacities ≥ 1, and Random's drop facts.
-/
import Hts.Lemmas.Cache
namespace Hts.Model.Cache

/-! ### LRU / FIFO histories -/

inductive LOp
  | put (id : Nat)
  | get (k : Int)
  | peek (k : Int)
  | drop (n : Int)
  | resize (n : Int)
  | free (n : Int)
deriving DecidableEq, Repr

/-- the property quantifies over capacities ≥ 1: `Resize` to a smaller value is outside it -/
def LOp.ok : LOp → Prop
  | .resize n => 1 ≤ n
  | _ => True

namespace LCache

def step (kind : Kind) (h : Heap) (c : LCache) : LOp → LCache
  | .put id => (c.put h id).1
  | .get k => (c.get kind h k).1
  | .peek _ => c
  | .drop n => c.drop n
  | .resize n => c.resize n
  | .free n => (c.free n).1

/-- a history: each call sees the heap as it is at that moment (blocks may change between calls) -/
def run (kind : Kind) (c : LCache) : List (Heap × LOp) → LCache
  | [] => c
  | (h, op) :: rest => run kind (c.step kind h op) rest

theorem step_wf {kind : Kind} {h : Heap} {c : LCache} (w : c.WF) {op : LOp} (ok : op.ok) :
    (c.step kind h op).WF := by
  cases op with
  | put id => exact put_wf w id
  | get k => exact get_wf w k
  | peek k => exact w
  | drop n => exact drop_wf w n
  | resize n => exact resize_wf w ok
  | free n => exact free_wf w n

theorem run_wf {kind : Kind} {c : LCache} (w : c.WF) (hist : List (Heap × LOp))
    (ok : ∀ x ∈ hist, x.2.ok) : (c.run kind hist).WF := by
  induction hist generalizing c with
  | nil => exact w
  | cons x rest ih =>
    obtain ⟨h, op⟩ := x
    exact ih (step_wf w (ok (h, op) (by simp))) (fun y hy => ok y (by simp [hy]))

end LCache

/-! ### Random -/

open RCache in
theorem nodupB_cons {x : Nat} {xs : List Nat} (h : nodupB (x :: xs) = true) :
    x ∉ xs ∧ nodupB xs = true := by
  simp [nodupB] at h
  exact ⟨h.1, h.2⟩

open RCache in
/-- removing the entries whose id is among `victims` (distinct, all present) removes at least that many -/
theorem filter_victims_length (items : List Entry) (victims : List Nat)
    (hn : nodupB victims = true) (hsub : ∀ v ∈ victims, v ∈ items.map (·.id)) :
    (items.filter (fun e => !victims.contains e.id)).length + victims.length ≤ items.length := by
  induction victims generalizing items with
  | nil => simpa using List.length_filter_le _ items
  | cons v vs ih =>
    obtain ⟨hv, hn'⟩ := nodupB_cons hn
    let items' := items.filter (fun e => e.id != v)
    have h1 : items'.length + 1 ≤ items.length := by
      have : v ∈ items.map (·.id) := hsub v (by simp)
      obtain ⟨e, he, hev⟩ := List.mem_map.1 this
      have : items'.length < items.length := by
        apply List.length_filter_lt_length_iff_exists.2
        exact ⟨e, he, by simp [hev]⟩
      omega
    have h2 : ∀ w ∈ vs, w ∈ items'.map (·.id) := by
      intro w hw
      have : w ∈ items.map (·.id) := hsub w (by simp [hw])
      obtain ⟨e, he, hew⟩ := List.mem_map.1 this
      refine List.mem_map.2 ⟨e, ?_, hew⟩
      simp only [items', List.mem_filter]
      refine ⟨he, ?_⟩
      have : e.id ≠ v := by rw [hew]; intro h; exact hv (h ▸ hw)
      simpa using this
    have h3 := ih items' hn' h2
    have h4 : items.filter (fun e => !(v :: vs).contains e.id) =
        items'.filter (fun e => !vs.contains e.id) := by
      simp only [items', List.filter_filter]
      congr 1
      funext e
      by_cases hev : e.id = v <;> simp [hev, Bool.and_comm]
    rw [h4]
    simp only [List.length_cons]
    omega

namespace RCache

theorem dropItems_facts {h : Heap} {items items' : List Entry} {n : Int} {victims : List Nat}
    (hd : dropItems h items n victims = some items') :
    List.Sublist items' items ∧
    (items'.length : Int) ≤ items.length - min (max n 0) items.length ∧
    (∀ e ∈ items, e ∉ items' → e.id ∈ victims) ∧
    ((∀ v ∈ victims, (h v).used = false) ∨ (∀ e ∈ items', (h e.id).used = true)) := by
  unfold dropItems at hd
  split at hd
  · rename_i hok
    cases hd
    simp only [dropOk, Bool.and_eq_true, List.all_eq_true, beq_iff_eq, Bool.or_eq_true,
      Bool.not_eq_eq_eq_not, Bool.not_true] at hok
    obtain ⟨⟨⟨hsub, hnd⟩, hlen⟩, hpol⟩ := hok
    refine ⟨List.filter_sublist, ?_, ?_, ?_⟩
    · have := filter_victims_length items victims hnd
        (fun v hv => by simpa using hsub v hv)
      rw [hlen] at this
      split at this <;> omega
    · intro e he hne
      simp only [List.mem_filter, not_and, Bool.not_eq_true', Bool.not_eq_false] at hne
      simpa using hne he
    · rcases hpol with hp | hp
      · exact Or.inl (fun v hv => by simpa using hp v hv)
      · refine Or.inr (fun e he => ?_)
        simp only [List.mem_filter, Bool.not_eq_true', ] at he
        rcases hp e he.1 with h1 | h1
        · exact h1
        · rw [h1] at he; simp at he
  · cases hd

inductive ROp
  | put (id : Nat) (hint : Option Nat)
  | get (k : Int)
  | peek (k : Int)
  | drop (n : Int) (victims : List Nat)
  | resize (n : Int) (victims : List Nat)
  | free (n : Int) (victims : List Nat)

def ROp.ok : ROp → Prop
  | .resize n _ => 1 ≤ n
  | _ => True

/-- `none`: the recorded choice of victims is not one the code can make -/
def step (h : Heap) (c : RCache) : ROp → Option RCache
  | .put id hint => (c.put h id hint).map (·.1)
  | .get k => some (c.get k).1
  | .peek _ => some c
  | .drop n vs => c.drop h n vs
  | .resize n vs => c.resize h n vs
  | .free n vs => (c.free h n vs).map (·.1)

def run (c : RCache) : List (Heap × ROp) → Option RCache
  | [] => some c
  | (h, op) :: rest => (c.step h op).bind (fun c' => run c' rest)

theorem drop_wf {h : Heap} {c c' : RCache} (w : c.WF) {n : Int} {vs : List Nat}
    (hd : c.drop h n vs = some c') : c'.WF := by
  simp only [drop, Option.map_eq_some_iff] at hd
  obtain ⟨it, h1, h2⟩ := hd
  subst h2
  obtain ⟨hs, hl, _⟩ := dropItems_facts h1
  exact ⟨w.cap_pos, by have := w.len_le; simp only; omega, w.nodup.sublist hs⟩

theorem resize_wf {h : Heap} {c c' : RCache} (w : c.WF) {n : Int} (hn : 1 ≤ n) {vs : List Nat}
    (hd : c.resize h n vs = some c') : c'.WF := by
  unfold resize at hd
  split at hd
  · simp only [Option.map_eq_some_iff] at hd
    obtain ⟨it, h1, h2⟩ := hd
    subst h2
    obtain ⟨hs, hl, _⟩ := dropItems_facts h1
    exact ⟨hn, by simp only; omega, w.nodup.sublist hs⟩
  · split at hd
    · cases hd
      exact ⟨hn, by simp only; omega, w.nodup⟩
    · cases hd

theorem free_wf {h : Heap} {c c' : RCache} {b : Bool} (w : c.WF) {n : Int} {vs : List Nat}
    (hd : c.free h n vs = some (c', b)) : c'.WF := by
  unfold free at hd
  simp only at hd
  split at hd
  · split at hd
    · cases hd; exact w
    · cases hd
  · simp only [Option.map_eq_some_iff] at hd
    obtain ⟨c'', h1, h2⟩ := hd
    cases h2
    exact drop_wf w h1

theorem step_wf {h : Heap} {c c' : RCache} (w : c.WF) {op : ROp} (ok : op.ok)
    (hs : c.step h op = some c') : c'.WF := by
  cases op with
  | put id hint =>
    simp only [step, Option.map_eq_some_iff] at hs
    obtain ⟨⟨c'', r⟩, h1, h2⟩ := hs
    subst h2
    exact put_wf w h1
  | get k => simp only [step, Option.some.injEq] at hs; subst hs; exact get_wf w k
  | peek k => simp only [step, Option.some.injEq] at hs; subst hs; exact w
  | drop n vs => exact drop_wf w hs
  | resize n vs => exact resize_wf w ok hs
  | free n vs =>
    simp only [step, Option.map_eq_some_iff] at hs
    obtain ⟨⟨c'', b⟩, h1, h2⟩ := hs
    subst h2
    exact free_wf w h1

theorem run_wf {c c' : RCache} (w : c.WF) (hist : List (Heap × ROp))
    (ok : ∀ x ∈ hist, x.2.ok) (hr : c.run hist = some c') : c'.WF := by
  induction hist generalizing c with
  | nil => simp only [run, Option.some.injEq] at hr; subst hr; exact w
  | cons x rest ih =>
    obtain ⟨h, op⟩ := x
    simp only [run, Option.bind_eq_some_iff] at hr
    obtain ⟨c1, h1, h2⟩ := hr
    exact ih (step_wf w (ok (h, op) (by simp)) h1) (fun y hy => ok y (by simp [hy])) h2

/-- Random's eviction: the victim is a held block, and a used block goes only when no unused block is held -/
theorem put_evicts_unused_first {h : Heap} {c c' : RCache} {id v : Nat} {hint : Option Nat}
    (hp : c.put h id hint = some (c', .kept (some v))) :
    (∃ e ∈ c.items, e.id = v) ∧ (c.items.length : Int) = c.cap ∧
    ((∃ e ∈ c.items, (h e.id).used = false) → (h v).used = false) := by
  unfold put at hp
  simp only at hp
  split at hp
  · simp at hp
  · split at hp
    · rename_i hfull
      split at hp
      · simp at hp
      · split at hp
        · simp at hp
        · split at hp
          · simp at hp
          · split at hp
            · simp at hp
            · rename_i w e hf
              split at hp
              · simp at hp
              · rename_i hpol
                simp only [Option.some.injEq, Prod.mk.injEq, PutRes.kept.injEq] at hp
                obtain ⟨_, hv⟩ := hp
                subst hv
                refine ⟨⟨e, List.mem_of_find?_eq_some hf, rfl⟩, hfull, ?_⟩
                rintro ⟨e', he', hu⟩
                cases hused : (h e.id).used with
                | false => rfl
                | true =>
                  exfalso
                  apply hpol
                  simp only [hused, anyUnused, Bool.true_and, List.any_eq_true, Bool.not_eq_eq_eq_not,
                    Bool.not_true]
                  exact ⟨e', he', hu⟩
    · simp at hp

end RCache

end Hts.Model.Cache
