/-
Lemmas for Hts.Model.CramDec: no partial operation of the CRAM readers yields `panic`.
-/
import Hts.Model.CramDec
import Hts.Lemmas.Decoders
namespace Hts.Model.CramDec
open Hts.Model.Decoders
open Hts.Model.Decoders.Outcome (ok err)

/-! ### Outcome.bind -/

theorem bind_noPanic {α β} (x : Outcome α) (f : α → Outcome β) (hx : x.isPanic = false)
    (hf : ∀ v, x = ok v → (f v).isPanic = false) : (x >>= f).isPanic = false := by
  cases x with
  | ok v => exact hf v rfl
  | err => rfl
  | panic s => cases hx

theorem bind_eq_ok {α β} (x : Outcome α) (f : α → Outcome β) (w : β) (h : (x >>= f) = ok w) :
    ∃ v, x = ok v ∧ f v = ok w := by
  cases x with
  | ok v => exact ⟨v, rfl, h⟩
  | err => cases h
  | panic s => cases h

/-! ### readFull -/

theorem readFull_len (r : St) (n : Nat) (r' : St) (got : Bytes) (h : readFull r n = (r', got, true)) :
    got.length = n := by
  unfold readFull at h
  split at h
  · cases h; simp_all
  · split at h
    · cases h
    · split at h
      · cases h
        rw [List.length_take]; omega
      · cases h

theorem readFull_len_le (r : St) (n : Nat) : (readFull r n).2.1.length ≤ n := by
  unfold readFull
  split
  · simp
  · split
    · simp
    · split
      · simp only [List.length_take]; omega
      · simp only; omega

/-- an unfailed reader after a successful read of at least one byte stays unfailed -/
theorem readFull_failed (r : St) (n : Nat) (r' : St) (got : Bytes) (h : readFull r n = (r', got, true))
    (hf : r.failed = false) : r'.failed = false := by
  unfold readFull at h
  split at h
  · cases h; exact hf
  · split at h
    · cases h
    · split at h
      · cases h; exact hf
      · cases h

theorem pad_length (n : Nat) (got : Bytes) (h : got.length ≤ n) : (pad n got).length = n := by
  unfold pad
  rw [List.length_append, List.length_replicate]; omega

theorem uint32LE_pad (site : String) (got : Bytes) (h : got.length ≤ 4) :
    uint32LE site (pad 4 got) = ok (u32le (pad 4 got)) := by
  unfold uint32LE
  rw [pad_length 4 got h]
  rfl

theorem sliceI_ok {α} (site : String) (l : List α) (lo hi : Int) (h0 : 0 ≤ lo) (h1 : lo ≤ hi)
    (h2 : hi ≤ l.length) : sliceI site l lo hi = ok ((l.take hi.toNat).drop lo.toNat) := by
  unfold sliceI
  rw [if_neg (by omega)]
  exact slice_of_le site l _ _ (by omega) (by omega)

/-! ### the number readers -/

/-- what `readNum` needs of a codec: a one-byte input that does not decode announces a width between 1
and the size of the array; every value lies in `[lo, hi)` -/
structure NumDec.Good (D : NumDec) (lo hi : Int) : Prop where
  buf : 1 ≤ D.bufLen
  width : ∀ b : List (BitVec 8), b.length = 1 → (D.dec b).2.2 = false → 1 ≤ (D.dec b).2.1 ∧ (D.dec b).2.1 ≤ D.bufLen
  range : ∀ b, lo ≤ (D.dec b).1 ∧ (D.dec b).1 < hi
  zero : lo ≤ 0 ∧ 0 < hi

theorem readNum_spec (D : NumDec) (lo hi : Int) (hD : D.Good lo hi) (r : St) :
    ∃ r' v, readNum D r = ok (r', v) ∧ lo ≤ v ∧ v < hi := by
  unfold readNum
  rcases h1 : readFull r 1 with ⟨r1, got, b⟩
  cases b
  · exact ⟨r1, 0, rfl, hD.zero.1, hD.zero.2⟩
  · simp only
    have hg : got.length = 1 := readFull_len r 1 r1 got h1
    have hbl : (pad D.bufLen got).length = D.bufLen := pad_length _ _ (by have := hD.buf; omega)
    have ht : (bv ((pad D.bufLen got).take 1)).length = 1 := by
      unfold bv
      rw [List.length_map, List.length_take, hbl]
      have := hD.buf; omega
    rcases h2 : D.dec (bv ((pad D.bufLen got).take 1)) with ⟨i, n, k⟩
    cases k
    · simp only
      have hw := hD.width _ ht (by rw [h2])
      rw [h2] at hw
      simp only at hw
      rw [sliceI_ok _ _ 1 n (by omega) hw.1 (by rw [hbl]; exact hw.2)]
      simp only
      rcases h3 : readFull r1 (List.drop (1 : Int).toNat (List.take n.toNat (pad D.bufLen got))).length with ⟨r2, more, b⟩
      cases b
      · exact ⟨r2, 0, rfl, hD.zero.1, hD.zero.2⟩
      · simp only
        have hm := readFull_len _ _ _ _ h3
        rw [List.length_drop, List.length_take, hbl] at hm
        have hn : n.toNat ≤ D.bufLen := by omega
        rw [sliceI_ok _ _ 0 n (by omega) (by omega) (by
          rw [List.length_append, List.length_append, List.length_take, List.length_drop, hbl, hm]
          simp only [Int.toNat_one]
          omega)]
        simp only
        rcases h4 : D.dec (bv (List.drop (0 : Int).toNat (List.take n.toNat
            (List.take 1 (pad D.bufLen got) ++ more ++ List.drop (1 + more.length) (pad D.bufLen got))))) with ⟨i', n', k'⟩
        have hr := hD.range (bv (List.drop (0 : Int).toNat (List.take n.toNat
            (List.take 1 (pad D.bufLen got) ++ more ++ List.drop (1 + more.length) (pad D.bufLen got)))))
        rw [h4] at hr
        cases k'
        · exact ⟨_, i', rfl, hr.1, hr.2⟩
        · exact ⟨_, i', rfl, hr.1, hr.2⟩
    · have hr := hD.range (bv ((pad D.bufLen got).take 1))
      rw [h2] at hr
      exact ⟨r1, i, rfl, hr.1, hr.2⟩

theorem itf8_decode_width (x : BitVec 8) : (Hts.Model.Itf8.decode [x]).2.1 = Hts.Model.Itf8.width x := by
  unfold Hts.Model.Itf8.decode
  simp only [List.length_cons, List.length_nil, List.getD_cons_zero]
  generalize Hts.Model.Itf8.width x = n
  simp only [apply_ite Prod.snd, apply_ite Prod.fst, ite_self]
  simp

theorem ltf8_decode_width (x : BitVec 8) : (Hts.Model.Ltf8.decode [x]).2.1 = Hts.Model.Ltf8.width x := by
  unfold Hts.Model.Ltf8.decode
  simp only [List.length_cons, List.length_nil, List.getD_cons_zero]
  generalize Hts.Model.Ltf8.width x = n
  simp only [apply_ite Prod.snd, apply_ite Prod.fst, ite_self]
  simp

theorem itf8Dec_good : itf8Dec.Good (-2147483648) 2147483648 where
  buf := by decide
  width := by
    intro b hb hk
    match b, hb with
    | [x], _ =>
      have hw : 1 ≤ Hts.Model.Itf8.width x ∧ Hts.Model.Itf8.width x ≤ 5 := by
        unfold Hts.Model.Itf8.width; repeat' split
        all_goals omega
      simp only [itf8Dec, itf8_decode_width]
      exact hw
  range := by
    intro b
    have h1 := BitVec.toInt_lt (x := (Hts.Model.Itf8.decode b).1)
    have h2 := BitVec.le_toInt (x := (Hts.Model.Itf8.decode b).1)
    simp only [itf8Dec]
    omega
  zero := by omega

theorem ltf8Dec_good : ltf8Dec.Good (-9223372036854775808) 9223372036854775808 where
  buf := by decide
  width := by
    intro b hb hk
    match b, hb with
    | [x], _ =>
      have hw : 1 ≤ Hts.Model.Ltf8.width x ∧ Hts.Model.Ltf8.width x ≤ 9 := by
        unfold Hts.Model.Ltf8.width; repeat' split
        all_goals omega
      simp only [ltf8Dec, ltf8_decode_width]
      exact hw
  range := by
    intro b
    have h1 := BitVec.toInt_lt (x := (Hts.Model.Ltf8.decode b).1)
    have h2 := BitVec.le_toInt (x := (Hts.Model.Ltf8.decode b).1)
    simp only [ltf8Dec]
    omega
  zero := by omega

theorem readNum_total (D : NumDec) (lo hi : Int) (hD : D.Good lo hi) (r : St) : (readNum D r).isPanic = false := by
  obtain ⟨r', v, h, _⟩ := readNum_spec D lo hi hD r
  rw [h]; rfl


@[simp] theorem ok_bind {α β} (v : α) (f : α → Outcome β) : ((ok v : Outcome α) >>= f) = f v := rfl
@[simp] theorem err_bind {α β} (f : α → Outcome β) : ((err : Outcome α) >>= f) = err := rfl

/-! ### itf8slice -/

theorem sliceCount_spec (r : St) :
    ∃ r' o, sliceCount r = ok (r', o) ∧ ∀ n, o = some n → 0 < n ∧ n < 2147483648 := by
  unfold sliceCount
  obtain ⟨r1, v, h, hlo, hhi⟩ := readNum_spec itf8Dec _ _ itf8Dec_good r
  rw [h]
  dsimp only
  split
  · exact ⟨_, none, rfl, fun n hn => by cases hn⟩
  · split
    · exact ⟨_, none, rfl, fun n hn => by cases hn⟩
    · split
      · exact ⟨_, none, rfl, fun n hn => by cases hn⟩
      · unfold makeLen
        rw [if_neg (by omega)]
        refine ⟨_, some v.toNat, rfl, ?_⟩
        intro n hn
        cases hn
        omega

theorem sliceLoop_spec : ∀ (k n i : Nat) (r : St) (acc : List Int), i + k ≤ n →
    ∃ r' l, sliceLoop k n i r acc = ok (r', l)
  | 0, _, _, r, acc, _ => ⟨r, acc, rfl⟩
  | k + 1, n, i, r, acc, hk => by
    unfold sliceLoop
    obtain ⟨r1, v, h, _, _⟩ := readNum_spec itf8Dec _ _ itf8Dec_good r
    rw [h]
    dsimp only
    unfold indexLen
    rw [if_pos (by omega)]
    dsimp only
    split
    · unfold sliceLenTo
      rw [if_pos (by omega)]
      exact ⟨_, _, rfl⟩
    · exact sliceLoop_spec k n (i + 1) r1 (acc ++ [v]) (by omega)

theorem readSlice32_spec (r : St) : ∃ r' l, readSlice32 r = ok (r', l) := by
  unfold readSlice32
  obtain ⟨r1, o, h, _⟩ := sliceCount_spec r
  rw [h]
  cases o with
  | none => exact ⟨_, _, rfl⟩
  | some n => exact sliceLoop_spec n n 0 r1 [] (by omega)

/-! ### definition, container, block -/

theorem readDefinition_total' (s : Bytes) : (readDefinition s).isPanic = false := by
  unfold readDefinition
  rcases h : readFull { src := s } 26 with ⟨r1, got, b⟩
  cases b
  · rfl
  · have hg := readFull_len _ _ _ _ h
    dsimp only
    rw [slice_of_le _ _ 0 4 (by omega) (by rw [List.length_take]; omega)]
    dsimp only
    split <;> rfl

theorem readContainer_total' (crc32 : Bytes → Nat) (s : Bytes) : (readContainer crc32 s).isPanic = false := by
  unfold readContainer
  rcases h0 : readFull { src := s } 4 with ⟨r0, got, b⟩
  have hg : got.length ≤ 4 := by
    have := readFull_len_le { src := s } 4
    rw [h0] at this
    exact this
  dsimp only
  rw [uint32LE_pad _ _ hg, ok_bind]
  obtain ⟨r1, v1, e1, _, _⟩ := readNum_spec itf8Dec _ _ itf8Dec_good r0
  rw [e1, ok_bind]; dsimp only
  obtain ⟨r2, v2, e2, _, _⟩ := readNum_spec itf8Dec _ _ itf8Dec_good r1
  rw [e2, ok_bind]; dsimp only
  obtain ⟨r3, v3, e3, _, _⟩ := readNum_spec itf8Dec _ _ itf8Dec_good r2
  rw [e3, ok_bind]; dsimp only
  obtain ⟨r4, v4, e4, _, _⟩ := readNum_spec itf8Dec _ _ itf8Dec_good r3
  rw [e4, ok_bind]; dsimp only
  obtain ⟨r5, v5, e5, _, _⟩ := readNum_spec ltf8Dec _ _ ltf8Dec_good r4
  rw [e5, ok_bind]; dsimp only
  obtain ⟨r6, v6, e6, _, _⟩ := readNum_spec ltf8Dec _ _ ltf8Dec_good r5
  rw [e6, ok_bind]; dsimp only
  obtain ⟨r7, v7, e7, _, _⟩ := readNum_spec itf8Dec _ _ itf8Dec_good r6
  rw [e7, ok_bind]; dsimp only
  obtain ⟨r8, l8, e8⟩ := readSlice32_spec r7
  rw [e8, ok_bind]; dsimp only
  rcases h9 : readFull r8 4 with ⟨r9, got2, b⟩
  cases b
  · rfl
  · dsimp only
    have hg2 := readFull_len _ _ _ _ h9
    rw [uint32LE_pad _ _ (by omega), ok_bind]
    split
    · rfl
    · split <;> rfl

theorem blockHeader_spec (s : Bytes) :
    blockHeader s = err ∨ ∃ r h, blockHeader s = ok (r, h) ∧ 0 ≤ h.compressedSize ∧
      h.compressedSize < 2147483648 ∧ (h.method = 0 → h.compressedSize = h.rawSize) := by
  unfold blockHeader
  rcases h0 : readFull { src := s } 2 with ⟨r0, got, b⟩
  have hg : got.length ≤ 2 := by
    have := readFull_len_le { src := s } 2
    rw [h0] at this
    exact this
  have hp : (pad 4 got).length = 4 := pad_length 4 got (by omega)
  dsimp only
  rw [index_of_lt _ _ 0 (by omega), ok_bind, index_of_lt _ _ 1 (by omega), ok_bind]
  obtain ⟨r1, v1, e1, _, _⟩ := readNum_spec itf8Dec _ _ itf8Dec_good r0
  rw [e1, ok_bind]; dsimp only
  obtain ⟨r2, v2, e2, l2, u2⟩ := readNum_spec itf8Dec _ _ itf8Dec_good r1
  rw [e2, ok_bind]; dsimp only
  obtain ⟨r3, v3, e3, _, _⟩ := readNum_spec itf8Dec _ _ itf8Dec_good r2
  rw [e3, ok_bind]; dsimp only
  split
  · left; rfl
  · rename_i hne
    split
    · left; rfl
    · right
      refine ⟨_, _, rfl, by dsimp only; omega, u2, ?_⟩
      intro hm
      by_cases hq : v2 = v3
      · exact hq
      · exact absurd ⟨hm, hq⟩ hne

theorem readBlock_spec (crc32 : Bytes → Nat) (s : Bytes) :
    readBlock crc32 s = err ∨ ∃ b rest, readBlock crc32 s = ok (b, rest) ∧
      (b.data.length : Int) = b.compressedSize ∧ b.compressedSize < 2147483648 := by
  unfold readBlock
  rcases blockHeader_spec s with h | ⟨r, hd, e, h0, h1, _⟩
  · rw [h]; left; rfl
  · rw [e, ok_bind]
    dsimp only
    unfold makeLen
    rw [if_neg (by omega), ok_bind]
    rcases h4 : readFull r hd.compressedSize.toNat with ⟨r4, data, b⟩
    cases b
    · left; rfl
    · dsimp only
      have hd4 := readFull_len _ _ _ _ h4
      rcases h5 : readFull r4 4 with ⟨r5, got, b⟩
      cases b
      · left; rfl
      · dsimp only
        have hg := readFull_len _ _ _ _ h5
        rw [uint32LE_pad _ _ (by omega), ok_bind]
        split
        · left; rfl
        · right
          refine ⟨_, _, rfl, ?_, h1⟩
          dsimp only
          omega

/-! ### slice header, Block.Value -/

theorem readSliceHdr_spec (s : Bytes) : ∃ h, readSliceHdr s = ok h := by
  unfold readSliceHdr
  obtain ⟨r1, v1, e1, _, _⟩ := readNum_spec itf8Dec _ _ itf8Dec_good { src := s }
  rw [e1, ok_bind]; dsimp only
  obtain ⟨r2, v2, e2, _, _⟩ := readNum_spec itf8Dec _ _ itf8Dec_good r1
  rw [e2, ok_bind]; dsimp only
  obtain ⟨r3, v3, e3, _, _⟩ := readNum_spec itf8Dec _ _ itf8Dec_good r2
  rw [e3, ok_bind]; dsimp only
  obtain ⟨r4, v4, e4, _, _⟩ := readNum_spec itf8Dec _ _ itf8Dec_good r3
  rw [e4, ok_bind]; dsimp only
  obtain ⟨r5, v5, e5, _, _⟩ := readNum_spec ltf8Dec _ _ ltf8Dec_good r4
  rw [e5, ok_bind]; dsimp only
  obtain ⟨r6, v6, e6, _, _⟩ := readNum_spec itf8Dec _ _ itf8Dec_good r5
  rw [e6, ok_bind]; dsimp only
  obtain ⟨r7, l7, e7⟩ := readSlice32_spec r6
  rw [e7, ok_bind]; dsimp only
  obtain ⟨r8, v8, e8, _, _⟩ := readNum_spec itf8Dec _ _ itf8Dec_good r7
  rw [e8, ok_bind]; dsimp only
  rcases h9 : readFull r8 16 with ⟨r9, got, b⟩
  cases b <;> exact ⟨_, rfl⟩

theorem expandBlockdata_spec (X : Expanders) (m : Nat) (d : Bytes) :
    expandBlockdata X m d = err ∨ ∃ e, expandBlockdata X m d = ok e ∧ (e = d ∨ X.expand m d = some e) := by
  unfold expandBlockdata
  split
  · exact .inr ⟨d, rfl, .inl rfl⟩
  · split
    · split
      · rename_i e he
        exact .inr ⟨e, rfl, .inr he⟩
      · exact .inl rfl
    · exact .inl rfl

theorem blockValue_total' (X : Expanders) (b : Block)
    (hX : ∀ m d e, X.expand m d = some e → e.length < 4294967296) (hb : b.data.length < 4294967296) :
    (blockValue X b).isPanic = false := by
  have hexp : ∀ e, expandBlockdata X b.method b.data = ok e → e.length < 4294967296 := by
    intro e he
    rcases expandBlockdata_spec X b.method b.data with h | ⟨e', h, h' | h'⟩
    · rw [h] at he; cases he
    · rw [h] at he; cases he; rw [h']; exact hb
    · rw [h] at he; cases he; exact hX _ _ _ h'
  unfold blockValue
  split
  · rcases expandBlockdata_spec X b.method b.data with h | ⟨e, h, _⟩
    · rw [h]; rfl
    · have hl := hexp e h
      rw [h, ok_bind]
      split
      · rfl
      · rw [sliceTo_of_le _ _ 4 (by omega), ok_bind]
        unfold uint32LE
        rw [if_neg (by rw [List.length_take]; omega), ok_bind]
        generalize u32le (List.take 4 e) = n
        split
        · rfl
        · rw [slice_of_le _ _ 4 _ (by omega) (by omega), ok_bind]
          rfl
  · split
    · obtain ⟨h, e⟩ := readSliceHdr_spec b.data
      rw [e]; rfl
    · split
      · rcases expandBlockdata_spec X b.method b.data with h | ⟨e, h, _⟩
        · rw [h]; rfl
        · rw [h]; rfl
      · rfl


/-- with repair C11-23 (`4+uint64(end)`) no size hypothesis is needed -/
theorem blockValue_total_all (X : Expanders) (b : Block) : (blockValue X b).isPanic = false := by
  unfold blockValue
  split
  · rcases expandBlockdata_spec X b.method b.data with h | ⟨e, h, _⟩
    · rw [h]; rfl
    · rw [h, ok_bind]
      split
      · rfl
      · rw [sliceTo_of_le _ _ 4 (by omega), ok_bind]
        unfold uint32LE
        rw [if_neg (by rw [List.length_take]; omega), ok_bind]
        generalize u32le (List.take 4 e) = n
        split
        · rfl
        · rw [slice_of_le _ _ 4 _ (by omega) (by omega), ok_bind]
          rfl
  · split
    · obtain ⟨h, e⟩ := readSliceHdr_spec b.data
      rw [e]; rfl
    · split
      · rcases expandBlockdata_spec X b.method b.data with h | ⟨e, h, _⟩
        · rw [h]; rfl
        · rw [h]; rfl
      · rfl

end Hts.Model.CramDec
