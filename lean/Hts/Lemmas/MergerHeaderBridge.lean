/-
Bridge between the two statements about the link table of sam.MergeHeaders:
`Hts.Model.Header.LinksOk` (property C07, proved of the model of MergeHeaders over a heap of reference
objects) implies `Hts.Model.Merger.LinksOK` (the law property C18 assumes of its link function), for the
link function that reads the ID of the linked reference object.
-/
import Hts.Lemmas.HeaderLinks
import Hts.Lemmas.MergerTop
namespace Hts.Model.Merger
open Hts.Model.Header

theorem filterMap_all_some {α β : Type} (f : α → Option β) :
    ∀ (l : List α), (∀ (i : Nat) (o : α), l[i]? = some o → ∃ y, f o = some y) →
      ∀ (n : Nat) (o : α) (y : β), l[n]? = some o → f o = some y → (l.filterMap f)[n]? = some y
  | [], _, n, o, y, h, _ => by simp at h
  | a :: as, hall, n, o, y, h, hf => by
    obtain ⟨ya, hya⟩ := hall 0 a rfl
    rw [List.filterMap_cons_some hya]
    cases n with
    | zero =>
      simp only [List.getElem?_cons_zero, Option.some.injEq] at h
      subst h
      rw [hya] at hf
      simp [hf]
    | succ n =>
      simp only [List.getElem?_cons_succ] at h ⊢
      exact filterMap_all_some f as (fun i o' hi => hall (i + 1) o' (by simpa using hi)) n o y h hf

/-- names of the references a header lists, in header order -/
def refNames (k : KW RefD) (h : Nat) : List Name := (objsOf k h).map (·.name)

/-- m.refLinks[i][x].ID(): the ID of the reference object the link table points to -/
def linkFnOf (k : KW RefD) (ls : List (List Nat)) : LinkFn := fun i x =>
  match ls[i]? with
  | some l =>
    match l[x]? with
    | some o => (match k.heap[o]? with | some y => y.id.toNat | none => 0)
    | none => 0
  | none => 0

/-- C07's theorem about MergeHeaders gives the law C18 assumes -/
theorem linksOK_of_header_LinksOk {k : KW RefD} (hk : KInv k) {hn : Nat} {srcs : List Nat} {ls : List (List Nat)}
    (h : Hts.Model.Header.LinksOk k hn srcs ls) :
    LinksOK (srcs.map (refNames k)) (refNames k hn) (some (linkFnOf k ls)) := by
  intro i names hnames x hx
  simp only [List.getElem?_map, Option.map_eq_some_iff] at hnames
  obtain ⟨s, hs, rfl⟩ := hnames
  obtain ⟨l, hl, _, hlinks⟩ := h.2 i s hs
  have hx' : x < (objsOf k s).length := by simpa [refNames] using hx
  obtain ⟨o, y, t, n, hlo, hy, hname, _, _, ht, hid, hitem⟩ := hlinks x (objsOf k s)[x] (by simp [hx'])
  have hfn : linkFnOf k ls i x = n := by
    unfold linkFnOf
    simp only [hl, hlo, hy, hid]
    simp
  simp only [hfn]
  have hmerged : (refNames k hn)[n]? = some y.name := by
    unfold refNames objsOf
    simp only [ht, List.getElem?_map]
    rw [filterMap_all_some (fun o => k.heap[o]?) t.items
      (fun i o hi => by obtain ⟨z, hz, _⟩ := (hk.tab hn t ht).own i o hi; exact ⟨z, hz⟩) n o y hitem hy]
    rfl
  refine ⟨?_, ?_⟩
  · exact (List.getElem?_eq_some_iff.1 hmerged).1
  · rw [hmerged, hname]
    simp [refNames, hx']

end Hts.Model.Merger
