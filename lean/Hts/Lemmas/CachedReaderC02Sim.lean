/-
The uncached baseline of C03 IS C02's reader (general simulation).

`Hts.Model.CachedReader` run with no cache attached (heap of blocks with identities, `Int` offsets, `Except Fault`)
and `Hts.Model.Bgzf.Reader` (one block value, `Nat` offsets, fuel errors) are two independently written models of
bgzf/reader.go.  This file relates them by a simulation relation `R` between their states and proves, for every
well-formed file and every valid history, that they return the same bytes, error class and `LastChunk`.
The two models use different loop bounds; the loop lemmas say "whenever C02's loop ends without hitting ITS bound,
the C03 loop started with at least that much fuel (+1) ends in the related state", and C02's own theorems
(`sim_step`) say that its bounds are never hit on valid histories.
-/
import Hts.Model.CachedReader
import Hts.Lemmas.ReaderSteps
namespace Hts.Model.CachedReader.C02
open Hts.Model.Cache Hts.Spec.CacheContract Hts.Model.CachedReader
open Hts.Model.Bgzf (memberAt csum WF)

abbrev BFile := Hts.Model.Bgzf.File
abbrev BReader := Hts.Model.Bgzf.Reader
abbrev BBlock := Hts.Model.Bgzf.Block
abbrev BErr := Hts.Model.Bgzf.Err

variable {σ : Type}

def nat8 (l : List UInt8) : List Nat := l.map (·.toNat)

@[simp] theorem nat8_length (l : List UInt8) : (nat8 l).length = l.length := by simp [nat8]

/-- the C03 file (members with absolute offsets) of a C02 file (members in order) -/
def membersFrom (base : Nat) : BFile → File
  | [] => []
  | m :: rest => ⟨(base : Int), (m.csize : Int), nat8 m.data⟩ :: membersFrom (base + m.csize) rest

def ofB (F : BFile) : File := membersFrom 0 F

theorem find_membersFrom (F : BFile) (hwf : WF F) (base off : Nat) :
    match memberAt F off with
    | .ok m => File.find (membersFrom base F) ((base + off : Nat) : Int) =
        some ⟨((base + off : Nat) : Int), (m.csize : Int), nat8 m.data⟩
    | .eof => File.find (membersFrom base F) ((base + off : Nat) : Int) = none ∧ off = csum F
    | .bad => True := by
  induction F generalizing base off with
  | nil =>
    cases off with
    | zero => simp [memberAt, membersFrom, File.find, csum]
    | succ n => simp [memberAt]
  | cons m rest ih =>
    have ⟨hc, _, hw⟩ := Hts.Model.Bgzf.WF.cons hwf
    by_cases h0 : off = 0
    · subst h0
      simp [memberAt, membersFrom, File.find]
    · by_cases h1 : off < m.csize
      · simp [memberAt, h0, h1]
      · have ih' := ih hw (base + m.csize) (off - m.csize)
        have e : base + m.csize + (off - m.csize) = base + off := by omega
        rw [e] at ih'
        have hne : ((base : Int) == ((base + off : Nat) : Int)) = false := by
          simp only [beq_eq_false_iff_ne, ne_eq]
          omega
        simp only [memberAt, h0, h1, if_false, membersFrom, File.find, List.find?_cons, hne]
        revert ih'
        cases memberAt rest (off - m.csize) with
        | ok m' => intro ih'; exact ih'
        | eof => intro ih'; exact ⟨ih'.1, by simp only [csum]; omega⟩
        | bad => intro _; trivial

theorem len_membersFrom (F : BFile) (base : Nat) (hne : F ≠ []) :
    File.len (membersFrom base F) = ((base + csum F : Nat) : Int) := by
  induction F generalizing base with
  | nil => exact absurd rfl hne
  | cons m rest ih =>
    cases rest with
    | nil => simp [membersFrom, File.len, csum]
    | cons m2 rest2 =>
      have := ih (base + m.csize) (by simp)
      simp only [membersFrom, File.len, List.getLast?_cons_cons] at this ⊢
      rw [this]
      simp only [csum]
      omega

theorem len_ofB (F : BFile) : File.len (ofB F) = (csum F : Int) := by
  cases F with
  | nil => simp [ofB, membersFrom, File.len, csum]
  | cons m rest => simpa [ofB] using len_membersFrom (m :: rest) 0 (by simp)

theorem memberAt_ok_mem {F : BFile} {off : Nat} {m : Hts.Model.Bgzf.Member} (h : memberAt F off = .ok m) :
    m ∈ F := by
  induction F generalizing off with
  | nil => cases off <;> simp [memberAt] at h
  | cons a rest ih =>
    simp only [memberAt] at h
    split at h
    · cases h; simp
    · split at h
      · cases h
      · exact List.mem_cons_of_mem _ (ih h)

/-- a C03 block and the C02 block it stands for -/
structure BlkRel (F : BFile) (c : RBlk) (b : BBlock) : Prop where
  base : c.base = (b.base : Int)
  offFile : c.offFile = (b.tx.file : Int)
  offBlock : c.offBlock = b.tx.block
  pos : c.pos = b.pos
  kind : (c.hasData = true ∧ b.hsize ≠ 0 ∧ c.hsize = (b.hsize : Int) ∧ c.data = nat8 b.data ∧
            b.pos ≤ b.data.length ∧ b.data.length < 65536 ∧ b.tx.block = b.pos ∧
            memberAt F b.base = .ok ⟨b.data, b.hsize⟩)
         ∨ (c.hasData = false ∧ b.hsize = 0 ∧ c.hsize = -1)

/-- everything of the two reader states except the sticky error -/
structure Core (F : BFile) (C : Reader σ) (B : BReader) : Prop where
  file : B.file = F
  cache : C.cache = none
  lent : C.lent = none
  cur : ∃ id, C.cur = some id ∧ BlkRel F (C.heap id) B.cur
  blocked : C.blocked = B.blocked
  cb : C.chunkBegin = ((B.lastChunk.bgn.file : Int), B.lastChunk.bgn.block)
  ce : C.chunkEnd = ((B.lastChunk.fin.file : Int), B.lastChunk.fin.block)

theorem BlkRel.len {F : BFile} {c : RBlk} {b : BBlock} (h : BlkRel F c b) (hd : b.hsize ≠ 0) :
    c.len = b.len ∧ c.hasData = true ∧ c.data = nat8 b.data := by
  rcases h.kind with k | k
  · refine ⟨?_, k.1, k.2.2.2.1⟩
    simp only [RBlk.len, k.1, if_true, k.2.2.2.1, nat8_length, h.pos, Hts.Model.Bgzf.Block.len]
  · exact absurd k.2.1 hd

theorem txOffset_small (c : RBlk) (h : c.data.length < 65536) : c.txOffset = (c.offFile, c.offBlock) := by
  have hl : ¬ (65535 < c.data.length) := by omega
  simp [RBlk.txOffset, hl]

/-- blocks of C02's well-formed files hold fewer than 65536 bytes: the reported position is the plain offset -/
theorem BlkRel.txOffset {F : BFile} {c : RBlk} {b : BBlock} (h : BlkRel F c b) :
    c.txOffset = (c.offFile, c.offBlock) := by
  rcases h.kind with k | k
  · have hl : ¬ (65535 < c.data.length) := by rw [k.2.2.2.1, nat8_length]; have := k.2.2.2.2.2.1; omega
    simp [RBlk.txOffset, hl]
  · simp [RBlk.txOffset, k.1]

/-- make the member at `off` current: `Block.load` of C02 against `fetch` of C03 without a cache -/
theorem fetch_sim {cfg : Cfg} (hcfg : cfg.failReset = true) (o : CacheOps σ) {F : BFile} (hwf : WF F)
    {C : Reader σ} {B : BReader} (c : Core F C B) (off : Nat) :
    match B.cur.load B.file off with
    | (b', none) => ∃ C', fetch cfg o (ofB F) C (off : Int) = .ok (C', .none) ∧
        Core F C' { B with cur := b' } ∧ C'.err = C.err ∧ b'.hsize ≠ 0 ∧ b'.base = off
    | (b', some .eof) => ∃ C', fetch cfg o (ofB F) C (off : Int) = .ok (C', .eof) ∧
        Core F C' { B with cur := b' } ∧ C'.err = C.err
    | _ => True := by
  obtain ⟨id, hid, hb⟩ := c.cur
  have hswap : cacheSwap cfg o C (off : Int) = .ok (C, false) := by
    simp [cacheSwap, c.cache, c.lent, hid]
  have hskip : skipCached o C (off : Int) = .ok (off : Int) := by simp [skipCached, c.cache]
  have hlazy : lazyBlock C = (C, id) := by simp [lazyBlock, hid]
  have hfind := find_membersFrom F hwf 0 off
  simp only [Nat.zero_add] at hfind
  simp only [Hts.Model.Bgzf.Block.load, c.file]
  cases hm : memberAt F off with
  | ok m =>
    rw [hm] at hfind
    have hmem := memberAt_ok_mem hm
    have hm2 := hwf m hmem
    refine ⟨C.setB id { rebase cfg (C.heap id) (off : Int) with
        hsize := (m.csize : Int), data := nat8 m.data, pos := 0, hasData := true }, ?_, ?_, rfl, ?_, rfl⟩
    · simp only [fetch, hswap, nextBlockAt, hskip, loadAt, hlazy]
      have : File.find (ofB F) (off : Int) = some ⟨(off : Int), (m.csize : Int), nat8 m.data⟩ := hfind
      simp only [this]
    · refine ⟨rfl, c.cache, c.lent, ⟨id, hid, ?_⟩, c.blocked, c.cb, c.ce⟩
      have hh : (C.setB id { rebase cfg (C.heap id) (off : Int) with
          hsize := (m.csize : Int), data := nat8 m.data, pos := 0, hasData := true }).heap id =
          { rebase cfg (C.heap id) (off : Int) with
            hsize := (m.csize : Int), data := nat8 m.data, pos := 0, hasData := true } := by
        simp [Reader.setB]
      rw [hh]
      refine ⟨?_, ?_, ?_, rfl, Or.inl ⟨rfl, by simp only; omega, rfl, rfl, Nat.zero_le _, hm2.2, rfl, hm⟩⟩ <;>
        (simp only [rebase]; split <;> rfl)
    · simp only; omega
  | eof =>
    rw [hm] at hfind
    refine ⟨C.setB id (failedBlk cfg (rebase cfg (C.heap id) (off : Int)) (off : Int)), ?_, ?_, rfl⟩
    · simp only [fetch, hswap, nextBlockAt, hskip, loadAt, hlazy]
      have : File.find (ofB F) (off : Int) = none := hfind.1
      have hge : (off : Int) ≥ File.len (ofB F) := by rw [len_ofB, hfind.2]; exact Int.le_refl _
      simp only [this, hge, if_true]
    · refine ⟨rfl, c.cache, c.lent, ⟨id, hid, ?_⟩, c.blocked, c.cb, c.ce⟩
      have hh : (C.setB id (failedBlk cfg (rebase cfg (C.heap id) (off : Int)) (off : Int))).heap id =
          failedBlk cfg (rebase cfg (C.heap id) (off : Int)) (off : Int) := by simp [Reader.setB]
      rw [hh]
      simp only [failedBlk, hcfg, if_true, Hts.Model.Bgzf.Block.failed]
      exact ⟨rfl, rfl, rfl, rfl, Or.inr ⟨rfl, rfl, rfl⟩⟩
  | bad => trivial

theorem Core.withErr {F : BFile} {C : Reader σ} {B : BReader} (c : Core F C B) (x : Err) (y : Option BErr) :
    Core F { C with err := x } { B with err := y } :=
  ⟨c.file, c.cache, c.lent, c.cur, c.blocked, c.cb, c.ce⟩

theorem nextBlock_sim {cfg : Cfg} (hcfg : cfg.failReset = true) (o : CacheOps σ) {F : BFile} (hwf : WF F)
    {C : Reader σ} {B : BReader} (c : Core F C B) (hd : B.cur.hsize ≠ 0) :
    match B.nextBlock with
    | (B', none) => ∃ C', nextBlock cfg o (ofB F) C = .ok (C', .none) ∧ Core F C' B' ∧ C'.err = C.err ∧
        B'.err = B.err ∧ B'.cur.hsize ≠ 0
    | (B', some .eof) => ∃ C', nextBlock cfg o (ofB F) C = .ok (C', .eof) ∧ Core F C' B' ∧ C'.err = C.err ∧
        B'.err = B.err
    | _ => True := by
  obtain ⟨id, hid, hb⟩ := c.cur
  have hnext : (C.heap id).next = ((B.cur.nextBase : Nat) : Int) := by
    rcases hb.kind with k | k
    · simp only [RBlk.next, hb.base, k.2.2.1, Hts.Model.Bgzf.Block.nextBase]
      omega
    · exact absurd k.2.1 hd
  have hf := fetch_sim hcfg o hwf c B.cur.nextBase
  have hnb : B.nextBlock = ({ B with cur := (B.cur.load B.file B.cur.nextBase).1 },
      (B.cur.load B.file B.cur.nextBase).2) := rfl
  have hcn : nextBlock cfg o (ofB F) C = fetch cfg o (ofB F) C ((B.cur.nextBase : Nat) : Int) := by
    simp only [nextBlock, hid, hnext]
  rw [hnb, hcn]
  revert hf
  cases B.cur.load B.file B.cur.nextBase with
  | mk b' e =>
    cases e with
    | none =>
      intro hf
      obtain ⟨C', h1, h2, h3, h4, _⟩ := hf
      exact ⟨C', h1, h2, h3, rfl, h4⟩
    | some e =>
      cases e <;> intro hf <;> try trivial
      obtain ⟨C', h1, h2, h3⟩ := hf
      exact ⟨C', h1, h2, h3, rfl⟩

theorem skipEmpty_sim {cfg : Cfg} (hcfg : cfg.failReset = true) (o : CacheOps σ) {F : BFile} (hwf : WF F) :
    ∀ (n : Nat) (C : Reader σ) (B : BReader), Core F C B → B.cur.hsize ≠ 0 → C.err = .none → B.err = none →
      ((B.skipEmpty n).err = none ∨ (B.skipEmpty n).err = some .eof) → ∀ m, n ≤ m →
      ∃ C', skipEmpty cfg o (ofB F) m C = .ok C' ∧ Core F C' (B.skipEmpty n) ∧
        ((C'.err = .none ∧ (B.skipEmpty n).err = none ∧ (B.skipEmpty n).cur.hsize ≠ 0 ∧
            (B.skipEmpty n).cur.len ≠ 0) ∨
          (C'.err = .eof ∧ (B.skipEmpty n).err = some .eof)) := by
  intro n
  induction n with
  | zero =>
    intro C B _ _ _ _ hres
    simp [Hts.Model.Bgzf.Reader.skipEmpty] at hres
  | succ n ih =>
    intro C B c hd hce hbe hres m hm
    obtain ⟨id, hid, hb⟩ := c.cur
    have hlen := hb.len hd
    cases m with
    | zero => omega
    | succ m =>
      by_cases hl : B.cur.len = 0
      · have hcl : (C.heap id).len = 0 := by rw [hlen.1]; exact hl
        have nb := nextBlock_sim hcfg o hwf c hd
        simp only [Hts.Model.Bgzf.Reader.skipEmpty, hl, if_true] at hres ⊢
        simp only [skipEmpty, hid, hcl, if_true]
        revert nb hres
        cases B.nextBlock with
        | mk B' e =>
          cases e with
          | none =>
            intro nb hres
            obtain ⟨C', h1, h2, _, _, h5⟩ := nb
            simp only [h1, if_true]
            exact ih { C' with err := .none } { B' with err := none } (h2.withErr _ _) h5 rfl rfl hres m
              (by omega)
          | some e =>
            cases e <;> intro nb hres <;> try (simp at hres)
            obtain ⟨C', h1, h2, _, _⟩ := nb
            simp only [h1]
            exact ⟨{ C' with err := .eof }, by simp, h2.withErr _ _, Or.inr (by simp)⟩
      · have hcl : (C.heap id).len ≠ 0 := by rw [hlen.1]; exact hl
        simp only [Hts.Model.Bgzf.Reader.skipEmpty, hl, if_false]
        simp only [skipEmpty, hid, hcl, if_false]
        exact ⟨C, rfl, c, Or.inl ⟨hce, hbe, hd, hl⟩⟩

theorem bReadLoop_exhausted (B : BReader) (want n : Nat) (hw : 0 < want) (hbe : B.err = none)
    (hp : B.cur.data.length ≤ B.cur.pos) :
    B.readLoop (n + 1) want =
      if B.blocked then (({ B with err := none } : BReader).setEnd, [], some .eof) else
        match B.nextBlock with
        | (B', some e) => (({ B' with err := some e } : BReader).setEnd, [], some e)
        | (B', none) => ({ B' with err := none } : BReader).readLoop n want := by
  have hnb : ({ B with cur := B.cur, err := some .eof } : BReader).nextBlock =
      ({ B.nextBlock.1 with err := some .eof }, B.nextBlock.2) := rfl
  have hw0 : want ≠ 0 := by omega
  simp only [Hts.Model.Bgzf.Reader.readLoop, hw, hbe, and_self, if_true, Hts.Model.Bgzf.Block.read, hp, List.length_nil, Nat.sub_zero, hw0,
    if_false]
  split
  · rfl
  · rw [hnb]
    cases B.nextBlock with
    | mk B' e => cases e <;> simp

theorem bReadLoop_data (B : BReader) (want n : Nat) (hw : 0 < want) (hbe : B.err = none)
    (hp : ¬ B.cur.data.length ≤ B.cur.pos) :
    B.readLoop (n + 1) want =
      ((({ B with cur := { B.cur with
            pos := B.cur.pos + ((B.cur.data.drop B.cur.pos).take want).length,
            tx := ⟨B.cur.tx.file, (B.cur.tx.block + ((B.cur.data.drop B.cur.pos).take want).length) % 65536⟩ } } : BReader).readLoop n
          (want - ((B.cur.data.drop B.cur.pos).take want).length)).1,
        (B.cur.data.drop B.cur.pos).take want ++
        (({ B with cur := { B.cur with
            pos := B.cur.pos + ((B.cur.data.drop B.cur.pos).take want).length,
            tx := ⟨B.cur.tx.file, (B.cur.tx.block + ((B.cur.data.drop B.cur.pos).take want).length) % 65536⟩ } } : BReader).readLoop n
          (want - ((B.cur.data.drop B.cur.pos).take want).length)).2.1,
        (({ B with cur := { B.cur with
            pos := B.cur.pos + ((B.cur.data.drop B.cur.pos).take want).length,
            tx := ⟨B.cur.tx.file, (B.cur.tx.block + ((B.cur.data.drop B.cur.pos).take want).length) % 65536⟩ } } : BReader).readLoop n
          (want - ((B.cur.data.drop B.cur.pos).take want).length)).2.2) := by
  simp only [Hts.Model.Bgzf.Reader.readLoop, hw, hbe, and_self, if_true, Hts.Model.Bgzf.Block.read, hp, if_false]

theorem cReadLoop_exhausted (cfg : Cfg) (o : CacheOps σ) (f : File) (C : Reader σ) (want m : Nat) (acc : List Nat)
    (id : Nat) (hw : want ≠ 0) (hce : C.err = .none) (hid : C.cur = some id) (hd : (C.heap id).hasData = true)
    (hl : (C.heap id).len = 0) :
    readLoop cfg o f (m + 1) C want acc =
      if C.blocked then .ok (C, acc, true) else
        match nextBlock cfg o f C with
        | .error e => .error e
        | .ok (r1, e) => readLoop cfg o f m { r1 with err := e } want acc := by
  rw [readLoop]
  simp only [hw, hce, hid, hd, hl]
  simp only [decide_false, ne_eq, not_true_eq_false, Bool.or_self, Bool.false_eq_true, if_false, Bool.not_true]
  by_cases hbk : C.blocked = true
  · simp [hbk]
  · simp only [hbk, if_false]
    cases nextBlock cfg o f C with
    | error e => rfl
    | ok p => rfl

theorem cReadLoop_data (cfg : Cfg) (o : CacheOps σ) (f : File) (C : Reader σ) (want m : Nat) (acc : List Nat)
    (id : Nat) (hw : want ≠ 0) (hce : C.err = .none) (hid : C.cur = some id) (hd : (C.heap id).hasData = true)
    (hl : (C.heap id).len ≠ 0) :
    readLoop cfg o f (m + 1) C want acc =
      readLoop cfg o f m
        (C.setB id { C.heap id with pos := (C.heap id).pos + min want (C.heap id).len,
                                    offBlock := ((C.heap id).offBlock + min want (C.heap id).len) % 65536, used := true })
        (want - min want (C.heap id).len)
        (acc ++ ((C.heap id).data.drop (C.heap id).pos).take (min want (C.heap id).len)) := by
  rw [readLoop]
  simp only [hw, hce, hid, hd, hl]
  simp

/-- what `Read` does with the result of its copy loop -/
def finish (C : Reader σ) (flag : Bool) : Reader σ :=
  if flag then { C with err := .none, chunkEnd := curOffset C } else { C with chunkEnd := curOffset C }

def ErrRel (x : Err) (y : Option BErr) : Prop := (x = .none ∧ y = none) ∨ (x = .eof ∧ y = some .eof)

def clsB : Option BErr → ErrClass
  | none => .ok
  | some .eof => .eof
  | _ => .err

theorem Core.fin {F : BFile} {C : Reader σ} {B : BReader} (c : Core F C B) (x : Err) (y : Option BErr) :
    Core F { C with err := x, chunkEnd := curOffset C } ({ B with err := y }.setEnd) := by
  obtain ⟨id, hid, hb⟩ := c.cur
  refine ⟨c.file, c.cache, c.lent, ⟨id, hid, hb⟩, c.blocked, c.cb, ?_⟩
  simp only [curOffset, hid, hb.txOffset, hb.offFile, hb.offBlock, Hts.Model.Bgzf.Reader.setEnd]

theorem readLoop_sim {cfg : Cfg} (hcfg : cfg.failReset = true) (o : CacheOps σ) {F : BFile} (hwf : WF F) :
    ∀ (n : Nat) (C : Reader σ) (B : BReader) (want : Nat) (acc : List Nat), Core F C B → C.err = .none →
      B.err = none → B.cur.hsize ≠ 0 →
      ((B.readLoop n want).2.2 = none ∨ (B.readLoop n want).2.2 = some .eof) → ∀ m, n + 1 ≤ m →
      ∃ C' flag, readLoop cfg o (ofB F) m C want acc = .ok (C', acc ++ nat8 (B.readLoop n want).2.1, flag) ∧
        Core F (finish C' flag) (B.readLoop n want).1 ∧
        ErrRel (finish C' flag).err (B.readLoop n want).1.err ∧
        (if flag then ErrClass.eof else C'.err.cls) = clsB (B.readLoop n want).2.2 ∧
        ((B.readLoop n want).1.err = none → (B.readLoop n want).1.cur.hsize ≠ 0) := by
  intro n
  induction n with
  | zero =>
    intro C B want acc _ _ _ _ hres
    simp [Hts.Model.Bgzf.Reader.readLoop] at hres
  | succ n ih =>
    intro C B want acc c hce hbe hd hres m hm
    obtain ⟨id, hid, hb⟩ := c.cur
    have hlen := hb.len hd
    cases m with
    | zero => omega
    | succ m =>
      by_cases hw : want = 0
      · subst hw
        have e2 : B.readLoop (n + 1) 0 = (B.setEnd, [], B.err) := by
          simp [Hts.Model.Bgzf.Reader.readLoop]
        rw [e2]
        refine ⟨C, false, by simp [readLoop, nat8], ?_, ?_, ?_, ?_⟩
        · exact c.fin C.err B.err
        · simp only [finish, Bool.false_eq_true, if_false, Hts.Model.Bgzf.Reader.setEnd]
          exact Or.inl ⟨hce, hbe⟩
        · simp [hce, hbe, Err.cls, clsB]
        · intro _; exact hd
      · have hw' : 0 < want := Nat.pos_of_ne_zero hw
        by_cases hp : B.cur.data.length ≤ B.cur.pos
        · -- the block is exhausted
          have hl0 : B.cur.len = 0 := by simp only [Hts.Model.Bgzf.Block.len]; omega
          have hcl : (C.heap id).len = 0 := by rw [hlen.1]; exact hl0
          rw [bReadLoop_exhausted B want n hw' hbe hp] at hres ⊢
          rw [cReadLoop_exhausted cfg o (ofB F) C want m acc id hw hce hid hlen.2.1 hcl, c.blocked]
          by_cases hbl : B.blocked = true
          · simp only [if_pos hbl] at hres ⊢
            refine ⟨C, true, by simp [nat8], ?_, ?_, ?_, ?_⟩
            · exact c.fin .none none
            · exact Or.inl ⟨rfl, rfl⟩
            · simp [clsB]
            · intro _; exact hd
          · simp only [if_neg hbl] at hres ⊢
            have nb := nextBlock_sim hcfg o hwf c hd
            revert nb hres
            cases B.nextBlock with
            | mk B' e =>
              cases e with
              | none =>
                intro hres nb
                obtain ⟨C1, h1, h2, _, _, h5⟩ := nb
                simp only [h1]
                exact ih _ _ want acc (h2.withErr .none none) rfl rfl h5 hres m (by omega)
              | some e =>
                cases e <;> intro hres nb <;> try (simp at hres)
                obtain ⟨C1, h1, h2, _, _⟩ := nb
                simp only [h1]
                have hm1 : ∃ m1, m = m1 + 1 := ⟨m - 1, by omega⟩
                obtain ⟨m1, rfl⟩ := hm1
                refine ⟨{ C1 with err := .eof }, false, by simp [readLoop, nat8], ?_, ?_, ?_, ?_⟩
                · exact (h2.withErr .eof (some .eof)).fin .eof (some .eof)
                · exact Or.inr ⟨rfl, rfl⟩
                · simp [Err.cls, clsB]
                · intro h; simp [Hts.Model.Bgzf.Reader.setEnd] at h
        · -- bytes are delivered
          have hcl : (C.heap id).len ≠ 0 := by
            rw [hlen.1]; simp only [Hts.Model.Bgzf.Block.len]; omega
          have kd := hb.kind.resolve_right (fun k => hd k.2.1)
          obtain ⟨_, _, khs, kdata, kpos, klen, ktx, kmem⟩ := kd
          have hout : ((B.cur.data.drop B.cur.pos).take want).length = min want B.cur.len := by
            simp only [List.length_take, List.length_drop, Hts.Model.Bgzf.Block.len]
          rw [bReadLoop_data B want n hw' hbe hp] at hres ⊢
          rw [cReadLoop_data cfg o (ofB F) C want m acc id hw hce hid hlen.2.1 hcl]
          simp only [hout, hlen.1] at hres ⊢
          have hk : min want B.cur.len ≤ B.cur.data.length - B.cur.pos := by
            simp only [Hts.Model.Bgzf.Block.len]; omega
          have hbytes : ((C.heap id).data.drop (C.heap id).pos).take (min want B.cur.len) =
              nat8 ((B.cur.data.drop B.cur.pos).take want) := by
            rw [kdata, hb.pos]
            simp only [nat8, List.map_take, List.map_drop]
            rw [List.take_eq_take_iff]
            simp only [List.length_drop, List.length_map, Hts.Model.Bgzf.Block.len]
            omega
          have hmod : (B.cur.tx.block + min want B.cur.len) % 65536 = B.cur.pos + min want B.cur.len := by
            rw [ktx]; apply Nat.mod_eq_of_lt; omega
          have hh : (C.setB id { C.heap id with pos := (C.heap id).pos + min want B.cur.len, offBlock := ((C.heap id).offBlock + min want B.cur.len) % 65536, used := true }).heap id = { C.heap id with pos := (C.heap id).pos + min want B.cur.len, offBlock := ((C.heap id).offBlock + min want B.cur.len) % 65536, used := true } := by
            simp [Reader.setB]
          obtain ⟨C', flag, g1, g2, g3, g4, g5⟩ :=
            ih (C.setB id { C.heap id with pos := (C.heap id).pos + min want B.cur.len, offBlock := ((C.heap id).offBlock + min want B.cur.len) % 65536, used := true }) ({ B with cur := ({ B.cur with pos := B.cur.pos + min want B.cur.len, tx := ⟨B.cur.tx.file, (B.cur.tx.block + min want B.cur.len) % 65536⟩ } : BBlock) } : BReader)
              (want - min want B.cur.len)
              (acc ++ ((C.heap id).data.drop (C.heap id).pos).take (min want B.cur.len))
              (by
                refine ⟨c.file, c.cache, c.lent, ⟨id, hid, ?_⟩, c.blocked, c.cb, c.ce⟩
                rw [hh]
                refine ⟨hb.base, hb.offFile, ?_, ?_, Or.inl ⟨hlen.2.1, hd, khs, kdata, ?_, klen, ?_, kmem⟩⟩
                · simp only [hb.offBlock, ktx]
                · simp only [hb.pos]
                · simp only; omega
                · simp only [hmod])
              hce hbe hd hres m (by omega)
          refine ⟨C', flag, ?_, g2, g3, g4, g5⟩
          rw [g1, hbytes]
          simp [nat8]

/-- the simulation relation -/
structure R (F : BFile) (C : Reader σ) (B : BReader) : Prop where
  core : Core F C B
  err : ErrRel C.err B.err
  data : B.err = none → B.cur.hsize ≠ 0

theorem length_membersFrom (F : BFile) (base : Nat) : (membersFrom base F).length = F.length := by
  induction F generalizing base with
  | nil => rfl
  | cons m rest ih => simp [membersFrom, ih]

theorem Core.begin {F : BFile} {C : Reader σ} {B : BReader} (c : Core F C B) :
    Core F { C with chunkBegin := curOffset C }
      ({ B with lastChunk := ⟨B.cur.tx, B.lastChunk.fin⟩ } : BReader) := by
  obtain ⟨id, hid, hb⟩ := c.cur
  refine ⟨c.file, c.cache, c.lent, ⟨id, hid, hb⟩, c.blocked, ?_, c.ce⟩
  simp only [curOffset, hid, hb.txOffset, hb.offFile, hb.offBlock]

theorem clsB_of_ErrRel {x : Err} {y : Option BErr} (h : ErrRel x y) : x.cls = clsB y := by
  rcases h with ⟨h1, h2⟩ | ⟨h1, h2⟩ <;> subst h1 h2 <;> rfl

/-- `Read(n)` -/
theorem read_sim {cfg : Cfg} (hcfg : cfg.failReset = true) (o : CacheOps σ) {F : BFile} (hwf : WF F)
    {C : Reader σ} {B : BReader} (r : R F C B) (n : Nat)
    (hres : (B.read n).2.2 = none ∨ (B.read n).2.2 = some .eof) :
    ∃ C', read cfg o (ofB F) C n = .ok (C', nat8 (B.read n).2.1, clsB (B.read n).2.2) ∧ R F C' (B.read n).1 := by
  rcases r.err with ⟨hce, hbe⟩ | ⟨hce, hbe⟩
  rotate_left
  · -- sticky error
    have e2 : B.read n = (B, [], some .eof) := by simp [Hts.Model.Bgzf.Reader.read, hbe]
    rw [e2]
    exact ⟨C, by simp [read, hce, Err.cls, clsB, nat8], r⟩
  have hd := r.data hbe
  have hfl : B.skipFuel ≤ fuelFor (ofB F) 0 := by
    simp only [Hts.Model.Bgzf.Reader.skipFuel, fuelFor, ofB, length_membersFrom, r.core.file]; omega
  have e2 : B.read n =
      match (B.skipEmpty B.skipFuel).err with
      | some e => (B.skipEmpty B.skipFuel, [], some e)
      | none => ({ B.skipEmpty B.skipFuel with
          lastChunk := ⟨(B.skipEmpty B.skipFuel).cur.tx, (B.skipEmpty B.skipFuel).lastChunk.fin⟩ } : BReader).readLoop
            (B.skipEmpty B.skipFuel).loopFuel n := by
    simp only [Hts.Model.Bgzf.Reader.read, hbe]; rfl
  rw [e2] at hres ⊢
  have hsk : (B.skipEmpty B.skipFuel).err = none ∨ (B.skipEmpty B.skipFuel).err = some .eof := by
    cases hE : (B.skipEmpty B.skipFuel).err with
    | none => exact Or.inl rfl
    | some e => rw [hE] at hres; simp only at hres; rcases hres with h | h <;> simp_all
  obtain ⟨C1, s1, s2, s3⟩ := skipEmpty_sim hcfg o hwf B.skipFuel C B r.core hd hce hbe hsk _ hfl
  rcases s3 with ⟨t1, t2, t3, _⟩ | ⟨t1, t2⟩
  rotate_left
  · rw [t2]
    refine ⟨C1, ?_, ⟨s2, Or.inr ⟨t1, t2⟩, fun h => by rw [t2] at h; cases h⟩⟩
    simp [read, hce, s1, t1, Err.cls, clsB, nat8]
  rw [t2] at hres ⊢
  simp only at hres ⊢
  have hfile : (B.skipEmpty B.skipFuel).file = F := s2.file
  have hstep : ∀ r3 bytes flag,
      readLoop cfg o (ofB F) (fuelFor (ofB F) n) { C1 with chunkBegin := curOffset C1 } n [] = .ok (r3, bytes, flag) →
      read cfg o (ofB F) C n = .ok (finish r3 flag, bytes, if flag then ErrClass.eof else r3.err.cls) := by
    intro r3 bytes flag h
    simp only [read]
    rw [if_neg (fun h => h hce)]
    simp only [s1]
    rw [if_neg (fun h => h t1)]
    simp only [h]
    cases flag <;> simp [finish]
  by_cases hn : n = 0
  · subst hn
    -- nothing requested: both loops leave at once
    have hl1 : ∃ k2, (B.skipEmpty B.skipFuel).loopFuel = k2 + 1 :=
      ⟨2 * (B.skipEmpty B.skipFuel).file.length + 2, rfl⟩
    obtain ⟨k2, hk2⟩ := hl1
    have e3 : ∀ (B2 : BReader), B2.readLoop (k2 + 1) 0 = (B2.setEnd, [], B2.err) := by
      intro B2; simp [Hts.Model.Bgzf.Reader.readLoop]
    rw [hk2, e3]
    have hrl : readLoop cfg o (ofB F) (fuelFor (ofB F) 0) { C1 with chunkBegin := curOffset C1 } 0 [] =
        .ok ({ C1 with chunkBegin := curOffset C1 }, [], false) := by
      simp [fuelFor, readLoop]
    rw [hstep _ _ _ hrl]
    refine ⟨finish { C1 with chunkBegin := curOffset C1 } false, by simp [t1, t2, Err.cls, clsB, nat8], ?_⟩
    refine ⟨?_, Or.inl ⟨t1, t2⟩, fun _ => t3⟩
    exact (s2.begin).fin C1.err (B.skipEmpty B.skipFuel).err
  · have hfuel : (B.skipEmpty B.skipFuel).loopFuel + 1 ≤ fuelFor (ofB F) n := by
      simp only [Hts.Model.Bgzf.Reader.loopFuel, fuelFor, ofB, length_membersFrom, hfile]
      have h2 : 2 ≤ n + 1 := by omega
      have := Nat.mul_le_mul_right (F.length + 2) h2
      omega
    obtain ⟨C3, flag, g1, g2, g3, g4, g5⟩ :=
      readLoop_sim hcfg o hwf (B.skipEmpty B.skipFuel).loopFuel { C1 with chunkBegin := curOffset C1 }
        ({ B.skipEmpty B.skipFuel with
          lastChunk := ⟨(B.skipEmpty B.skipFuel).cur.tx, (B.skipEmpty B.skipFuel).lastChunk.fin⟩ } : BReader)
        n [] s2.begin t1 t2 t3 hres _ hfuel
    rw [hstep _ _ _ g1, g4]
    exact ⟨finish C3 flag, by simp, ⟨g2, g3, g5⟩⟩

/-- the state `byteFin` leaves -/
def byteStep (C : Reader σ) (id : Nat) : Reader σ :=
  { C.setB id { C.heap id with pos := (C.heap id).pos + 1, offBlock := ((C.heap id).offBlock + 1) % 65536, used := true } with
    chunkBegin := (C.heap id).txOffset, chunkEnd := ({ C.heap id with pos := (C.heap id).pos + 1, offBlock := ((C.heap id).offBlock + 1) % 65536, used := true } : RBlk).txOffset }

/-- `ReadByte()` -/
theorem readByte_sim {cfg : Cfg} (hcfg : cfg.failReset = true) (o : CacheOps σ) {F : BFile} (hwf : WF F)
    {C : Reader σ} {B : BReader} (r : R F C B)
    (hres : B.readByte.2.2 = none ∨ B.readByte.2.2 = some .eof) :
    ∃ C', readByte cfg o (ofB F) C =
        .ok (C', (if B.readByte.2.2.isSome then [] else [B.readByte.2.1.toNat]), clsB B.readByte.2.2) ∧
      R F C' B.readByte.1 := by
  rcases r.err with ⟨hce, hbe⟩ | ⟨hce, hbe⟩
  rotate_left
  · have e2 : B.readByte = (B, 0, some .eof) := by simp [Hts.Model.Bgzf.Reader.readByte, hbe]
    rw [e2]
    exact ⟨C, by simp [readByte, hce, Err.cls, clsB], r⟩
  have hd := r.data hbe
  have hfl : B.skipFuel ≤ fuelFor (ofB F) 0 := by
    simp only [Hts.Model.Bgzf.Reader.skipFuel, fuelFor, ofB, length_membersFrom, r.core.file]; omega
  cases hE : (B.skipEmpty B.skipFuel).err with
  | some e =>
    have e2 : B.readByte = (B.skipEmpty B.skipFuel, 0, some e) := by
      simp [Hts.Model.Bgzf.Reader.readByte, hbe, hE]
    rw [e2] at hres ⊢
    have he : e = .eof := by rcases hres with h | h <;> simp_all
    subst he
    obtain ⟨C1, s1, s2, s3⟩ := skipEmpty_sim hcfg o hwf B.skipFuel C B r.core hd hce hbe (Or.inr hE) _ hfl
    rcases s3 with ⟨_, t2, _, _⟩ | ⟨t1, t2⟩
    · rw [hE] at t2; cases t2
    · refine ⟨C1, ?_, ⟨s2, Or.inr ⟨t1, t2⟩, fun h => by rw [t2] at h; cases h⟩⟩
      simp [readByte, hce, s1, t1, Err.cls, clsB]
  | none =>
    obtain ⟨C1, s1, s2, s3⟩ := skipEmpty_sim hcfg o hwf B.skipFuel C B r.core hd hce hbe (Or.inl hE) _ hfl
    rcases s3 with ⟨t1, t2, t3, t4⟩ | ⟨_, t2⟩
    rotate_left
    · rw [hE] at t2; cases t2
    obtain ⟨id, hid, hb⟩ := s2.cur
    have kd := hb.kind.resolve_right (fun k => t3 k.2.1)
    obtain ⟨khd, _, khs, kdata, kpos, klen, ktx, kmem⟩ := kd
    have hlt : (B.skipEmpty B.skipFuel).cur.pos < (B.skipEmpty B.skipFuel).cur.data.length := by
      simp only [Hts.Model.Bgzf.Block.len] at t4; omega
    cases hdrop : (B.skipEmpty B.skipFuel).cur.data.drop (B.skipEmpty B.skipFuel).cur.pos with
    | nil =>
      have := congrArg List.length hdrop
      simp only [List.length_drop, List.length_nil] at this
      omega
    | cons x t =>
      have e2 : B.readByte =
          ((({ B.skipEmpty B.skipFuel with
              lastChunk := ⟨(B.skipEmpty B.skipFuel).cur.tx, (B.skipEmpty B.skipFuel).lastChunk.fin⟩,
              cur := ({ (B.skipEmpty B.skipFuel).cur with
                pos := (B.skipEmpty B.skipFuel).cur.pos + 1,
                tx := ⟨(B.skipEmpty B.skipFuel).cur.tx.file, ((B.skipEmpty B.skipFuel).cur.tx.block + 1) % 65536⟩ } : BBlock) } : BReader)).setEnd,
            x, none) := by
        simp [Hts.Model.Bgzf.Reader.readByte, hbe, hE, Hts.Model.Bgzf.Block.readByte, hdrop]
      rw [e2]
      have hhead : ((C1.heap id).data.drop (C1.heap id).pos).head? = some x.toNat := by
        rw [kdata, hb.pos]
        simp only [nat8, ← List.map_drop, hdrop, List.map_cons, List.head?_cons]
      have hmod : ((B.skipEmpty B.skipFuel).cur.tx.block + 1) % 65536 = (B.skipEmpty B.skipFuel).cur.pos + 1 := by
        rw [ktx]; apply Nat.mod_eq_of_lt; omega
      refine ⟨byteStep C1 id, ?_, ?_⟩
      · simp only [readByte]
        rw [if_neg (fun h => h hce)]
        simp only [s1]
        rw [if_neg (fun h => h t1)]
        simp only [byteFin, hid, hhead]
        simp [clsB, byteStep]
      · have hmod' : ((B.skipEmpty B.skipFuel).cur.pos + 1) % 65536 = (B.skipEmpty B.skipFuel).cur.pos + 1 := by
          apply Nat.mod_eq_of_lt; omega
        refine ⟨⟨s2.file, s2.cache, s2.lent, ⟨id, by simp [byteStep, Reader.setB, hid], ?_⟩, s2.blocked, ?_, ?_⟩,
          Or.inl ⟨t1, t2⟩, fun _ => t3⟩
        · refine ⟨?_, ?_, ?_, ?_, Or.inl ⟨?_, t3, ?_, ?_, ?_, klen, ?_, kmem⟩⟩ <;>
            simp [byteStep, Reader.setB, Hts.Model.Bgzf.Reader.setEnd, hb.base, hb.offFile, hb.offBlock, hb.pos,
              ktx, hmod', khd, khs, kdata]
          omega
        · simp [byteStep, Reader.setB, Hts.Model.Bgzf.Reader.setEnd, hb.txOffset, hb.offFile, hb.offBlock]
        · have hsm : (C1.heap id).data.length < 65536 := by rw [kdata, nat8_length]; exact klen
          have e : (byteStep C1 id).chunkEnd = ({ C1.heap id with pos := (C1.heap id).pos + 1, offBlock := ((C1.heap id).offBlock + 1) % 65536, used := true } : RBlk).txOffset := rfl
          rw [e, txOffset_small ({ C1.heap id with pos := (C1.heap id).pos + 1, offBlock := ((C1.heap id).offBlock + 1) % 65536, used := true } : RBlk) hsm]
          simp [Hts.Model.Bgzf.Reader.setEnd, hb.offFile, hb.offBlock, ktx, hmod']

/-- the state `seekFin` leaves -/
def seekStep (C : Reader σ) (id : Nat) (file : Int) (blk : Nat) : Reader σ :=
  { C.setB id { C.heap id with pos := blk, offBlock := blk % 65536 } with
    err := .none, chunkBegin := (file, blk), chunkEnd := (file, blk) }

theorem seekFin_sim {F : BFile} {C : Reader σ} {B : BReader} (c : Core F C B) (hd : B.cur.hsize ≠ 0)
    (off : Hts.Spec.Flat.Offset) (hk : off.block ≤ B.cur.data.length) :
    ∃ C', seekFin C (off.file : Int) off.block = .ok (C', .ok) ∧
      R F C' ({ B with cur := B.cur.seek off.block, err := none, lastChunk := ⟨off, off⟩ } : BReader) := by
  obtain ⟨id, hid, hb⟩ := c.cur
  have kd := hb.kind.resolve_right (fun k => hd k.2.1)
  obtain ⟨khd, _, khs, kdata, kpos, klen, ktx, kmem⟩ := kd
  have hmod : off.block % 65536 = off.block := by apply Nat.mod_eq_of_lt; omega
  refine ⟨seekStep C id (off.file : Int) off.block, ?_, ⟨⟨c.file, c.cache, c.lent, ⟨id, ?_, ?_⟩, c.blocked, ?_, ?_⟩,
    Or.inl ⟨rfl, rfl⟩, fun _ => ?_⟩⟩
  · simp [seekFin, hid, khd, seekStep]
  · simp [seekStep, Reader.setB, hid]
  · refine ⟨?_, ?_, ?_, ?_, Or.inl ⟨?_, ?_, ?_, ?_, ?_, ?_, ?_, ?_⟩⟩ <;>
      simp [seekStep, Reader.setB, Hts.Model.Bgzf.Block.seek, hb.base, hb.offFile, hmod, khd, khs, kdata, hk, klen,
        kmem, hd]
  · simp [seekStep]
  · simp [seekStep]
  · simpa [Hts.Model.Bgzf.Block.seek] using hd

/-- `Seek` to a valid target -/
theorem seek_sim {cfg : Cfg} (hcfg : cfg.failReset = true) (o : CacheOps σ) {F : BFile} (hwf : WF F)
    {C : Reader σ} {B : BReader} (r : R F C B) (off : Hts.Spec.Flat.Offset) (m : Hts.Model.Bgzf.Member)
    (hm : memberAt F off.file = .ok m) (hk : off.block ≤ m.data.length) :
    ∃ C', seek cfg o (ofB F) C (off.file : Int) off.block = .ok (C', .ok) ∧ R F C' (B.seek off).1 ∧
      (B.seek off).2 = none := by
  obtain ⟨id, hid, hb⟩ := r.core.cur
  by_cases hc : off.file ≠ B.cur.base ∨ B.cur.hasData = false
  · have hcc : ((off.file : Int) ≠ (C.heap id).base || !(C.heap id).hasData) = true := by
      rcases hc with h | h
      · have : (off.file : Int) ≠ (C.heap id).base := by rw [hb.base]; omega
        simp [this]
      · rcases hb.kind with k | k
        · simp [Hts.Model.Bgzf.Block.hasData, k.2.1] at h
        · simp [k.1]
    have hl : B.cur.load B.file off.file = (⟨off.file, m.csize, m.data, 0, ⟨off.file, 0⟩⟩, none) := by
      simp [Hts.Model.Bgzf.Block.load, r.core.file, hm]
    have hf := fetch_sim hcfg o hwf r.core off.file
    rw [hl] at hf
    obtain ⟨C1, f1, f2, _, f4, _⟩ := hf
    have e2 : B.seek off = ({ ({ B with cur := (⟨off.file, m.csize, m.data, 0, ⟨off.file, 0⟩⟩ : BBlock) } : BReader) with
        cur := (⟨off.file, m.csize, m.data, 0, ⟨off.file, 0⟩⟩ : BBlock).seek off.block, err := none,
        lastChunk := ⟨off, off⟩ }, none) := by
      simp [Hts.Model.Bgzf.Reader.seek, hc, hl]
    obtain ⟨C2, g1, g2⟩ := seekFin_sim (C := { C1 with err := .none })
      (B := ({ B with cur := (⟨off.file, m.csize, m.data, 0, ⟨off.file, 0⟩⟩ : BBlock) } : BReader))
      ⟨f2.file, f2.cache, f2.lent, f2.cur, f2.blocked, f2.cb, f2.ce⟩ f4 off hk
    rw [e2]
    refine ⟨C2, ?_, g2, rfl⟩
    simp only [seek, hid, hcc, if_true, f1]
    simpa using g1
  · have hcc : ((off.file : Int) ≠ (C.heap id).base || !(C.heap id).hasData) = false := by
      have h1 : off.file = B.cur.base := by
        by_cases h : off.file = B.cur.base
        · exact h
        · exact absurd (Or.inl h) hc
      have h2 : B.cur.hasData = true := by
        cases h : B.cur.hasData
        · exact absurd (Or.inr h) hc
        · rfl
      have h3 : B.cur.hsize ≠ 0 := by simpa [Hts.Model.Bgzf.Block.hasData] using h2
      have kd := hb.kind.resolve_right (fun k => h3 k.2.1)
      simp [hb.base, h1, kd.1]
    have h1 : off.file = B.cur.base := by
      by_cases h : off.file = B.cur.base
      · exact h
      · exact absurd (Or.inl h) hc
    have h2 : B.cur.hasData = true := by
      cases h : B.cur.hasData
      · exact absurd (Or.inr h) hc
      · rfl
    have h3 : B.cur.hsize ≠ 0 := by simpa [Hts.Model.Bgzf.Block.hasData] using h2
    have kd := hb.kind.resolve_right (fun k => h3 k.2.1)
    have hmm : m = ⟨B.cur.data, B.cur.hsize⟩ := by
      have := kd.2.2.2.2.2.2.2
      rw [← h1, hm] at this
      cases this; rfl
    have hk' : off.block ≤ B.cur.data.length := by rw [hmm] at hk; exact hk
    have e2 : B.seek off = ({ B with cur := B.cur.seek off.block, err := none, lastChunk := ⟨off, off⟩ }, none) := by
      simp [Hts.Model.Bgzf.Reader.seek, hc]
    obtain ⟨C2, g1, g2⟩ := seekFin_sim r.core h3 off hk'
    rw [e2]
    refine ⟨C2, ?_, g2, rfl⟩
    simp only [seek, hid, hcc]
    simpa using g1

/-! ### whole histories -/

open Hts.Spec.Flat (ValidOps) in
/-- the flat-specification operation of a call of an uncached history (`none`: a dropped `SetCache`) -/
def flatOp : Op σ → Option Hts.Spec.Flat.Op
  | .seek f b => some (.seek ⟨f.toNat, b⟩)
  | .read n => some (.read n)
  | .readByte => some .readByte
  | .setBlocked b => some (.setBlocked b)
  | _ => none

/-- calls of an uncached history: no cache is attached, offsets are not negative -/
def Plain : Op σ → Prop
  | .setCache c _ => c = none
  | .reattach _ _ => False
  | .seek f _ => 0 ≤ f
  | _ => True

def chunkOf (c : Hts.Spec.Flat.Chunk) : (Int × Nat) × (Int × Nat) :=
  (((c.bgn.file : Int), c.bgn.block), ((c.fin.file : Int), c.fin.block))

/-- what C02's model returns for an operation, in C03's vocabulary (`ReadByte` returns no byte with an error) -/
def outOf (op : Hts.Spec.Flat.Op) (p : BReader × Hts.Model.Bgzf.Out) : Out :=
  ⟨(match op with
    | .readByte => if p.2.err.isSome then [] else nat8 p.2.bytes
    | _ => nat8 p.2.bytes), clsB p.2.err, chunkOf p.1.lastChunk⟩

/-- the outputs of C02's reader model along a C03 history -/
def simOuts (B : BReader) : List (Op σ) → List Out
  | [] => []
  | op :: ops =>
    match flatOp op with
    | some fop => outOf fop (B.step fop) :: simOuts (B.step fop).1 ops
    | none => ⟨[], .ok, chunkOf B.lastChunk⟩ :: simOuts B ops

theorem R.chunk {F : BFile} {C : Reader σ} {B : BReader} (r : R F C B) :
    (C.chunkBegin, C.chunkEnd) = chunkOf B.lastChunk := by
  simp only [chunkOf, r.core.cb, r.core.ce]

/-- one call -/
theorem step_sim {cfg : Cfg} (hcfg : cfg.failReset = true) (o : CacheOps σ) {F : BFile} (hwf : WF F)
    {C : Reader σ} {B : BReader} {s : Hts.Spec.Flat.State} (r : R F C B) (hs : Hts.Model.Bgzf.Sim F B s)
    (op : Op σ) (fop : Hts.Spec.Flat.Op) (hf : flatOp op = some fop) (hp : Plain op)
    (hv : Hts.Model.Bgzf.OpValid (Hts.Model.Bgzf.layoutOf F) fop) :
    ∃ C', step cfg o (ofB F) C op = .ok (C', outOf fop (B.step fop)) ∧ R F C' (B.step fop).1 := by
  have hclean := (Hts.Model.Bgzf.sim_step hwf hs fop hv).2.1
  have hcl : (B.step fop).2.err = none ∨ (B.step fop).2.err = some .eof := by
    rw [hclean]; cases (Hts.Spec.Flat.step (Hts.Model.Bgzf.flatOf F) s fop).2.eof <;> simp [Hts.Model.Bgzf.errOf]
  cases op with
  | seek f b =>
    simp only [flatOp, Option.some.injEq] at hf
    subst hf
    simp only [Plain] at hp
    simp only [Hts.Model.Bgzf.OpValid, Option.isSome_iff_exists] at hv
    obtain ⟨p, hp2⟩ := hv
    obtain ⟨pre, m, post, hF, ho, hb, _⟩ := Hts.Model.Bgzf.seekTarget_some F _ p hwf hp2
    have hm : memberAt F f.toNat = .ok m := by
      have hfile : f.toNat = csum pre := by
        have := congrArg Hts.Spec.Flat.Offset.file ho
        simpa using this
      rw [hfile, hF, Hts.Model.Bgzf.memberAt_split pre (m :: post) (Hts.Model.Bgzf.WF.append_left (hF ▸ hwf))]
      exact Hts.Model.Bgzf.memberAt_zero_cons m post
    obtain ⟨C', g1, g2, g3⟩ := seek_sim hcfg o hwf r ⟨f.toNat, b⟩ m hm hb
    have hcast : ((f.toNat : Nat) : Int) = f := Int.toNat_of_nonneg hp
    simp only [hcast] at g1
    refine ⟨C', ?_, g2⟩
    have e2 : B.step (.seek ⟨f.toNat, b⟩) = ((B.seek ⟨f.toNat, b⟩).1, ⟨[], (B.seek ⟨f.toNat, b⟩).2⟩) := rfl
    simp only [step, g1, e2, outOf, g3, clsB, nat8, List.map_nil]
    rw [← g2.chunk]
  | read n =>
    simp only [flatOp, Option.some.injEq] at hf
    subst hf
    have e2 : B.step (.read n) = ((B.read n).1, ⟨(B.read n).2.1, (B.read n).2.2⟩) := rfl
    rw [e2] at hcl ⊢
    obtain ⟨C', g1, g2⟩ := read_sim hcfg o hwf r n hcl
    refine ⟨C', ?_, g2⟩
    simp only [step, g1, outOf]
    rw [← g2.chunk]
  | readByte =>
    simp only [flatOp, Option.some.injEq] at hf
    subst hf
    have e2 : B.step .readByte = (B.readByte.1, ⟨[B.readByte.2.1], B.readByte.2.2⟩) := rfl
    rw [e2] at hcl ⊢
    obtain ⟨C', g1, g2⟩ := readByte_sim hcfg o hwf r hcl
    refine ⟨C', ?_, g2⟩
    simp only [step, g1, outOf, nat8, List.map_cons, List.map_nil]
    rw [← g2.chunk]
  | setBlocked b =>
    simp only [flatOp, Option.some.injEq] at hf
    subst hf
    refine ⟨{ C with blocked := b }, ?_, ⟨⟨r.core.file, r.core.cache, r.core.lent, r.core.cur, rfl, r.core.cb, r.core.ce⟩,
      r.err, r.data⟩⟩
    simp only [step, outOf, Hts.Model.Bgzf.Reader.step, Hts.Model.Bgzf.Reader.setBlocked, clsB, nat8, List.map_nil]
    rw [← r.chunk]
  | setCache c h => simp [flatOp] at hf
  | reattach i h => simp [flatOp] at hf

theorem validOps_filterMap_cons_some {L : Hts.Spec.Flat.Layout} {op : Op σ} {fop : Hts.Spec.Flat.Op}
    {ops : List (Op σ)} (hf : flatOp op = some fop)
    (hv : Hts.Spec.Flat.ValidOps L ((op :: ops).filterMap flatOp)) :
    Hts.Model.Bgzf.OpValid L fop ∧ Hts.Spec.Flat.ValidOps L (ops.filterMap flatOp) := by
  rw [List.filterMap_cons_some hf] at hv
  exact Hts.Model.Bgzf.validOps_cons hv

/-- a whole history: the C03 model without a cache returns what C02's reader model returns -/
theorem run_sim {cfg : Cfg} (hcfg : cfg.failReset = true) (o : CacheOps σ) {F : BFile} (hwf : WF F)
    (ops : List (Op σ)) :
    ∀ (C : Reader σ) (B : BReader) (s : Hts.Spec.Flat.State), R F C B → Hts.Model.Bgzf.Sim F B s →
      (∀ op ∈ ops, Plain op) → Hts.Spec.Flat.ValidOps (Hts.Model.Bgzf.layoutOf F) (ops.filterMap flatOp) →
      ∃ C', run cfg o (ofB F) C ops = .ok (C', simOuts B ops) := by
  induction ops with
  | nil => intro C B s _ _ _ _; exact ⟨C, rfl⟩
  | cons op ops ih =>
    intro C B s r hs hp hv
    have hp1 : Plain op := hp op (by simp)
    have hp2 : ∀ x ∈ ops, Plain x := fun x hx => hp x (by simp [hx])
    cases hf : flatOp op with
    | some fop =>
      obtain ⟨hv1, hv2⟩ := validOps_filterMap_cons_some hf hv
      obtain ⟨C1, g1, g2⟩ := step_sim hcfg o hwf r hs op fop hf hp1 hv1
      have hs' := (Hts.Model.Bgzf.sim_step hwf hs fop hv1).2.2.2
      obtain ⟨C2, g3⟩ := ih C1 (B.step fop).1 _ g2 hs' hp2 hv2
      exact ⟨C2, by simp only [run, g1, g3, simOuts, hf]⟩
    | none =>
      have hv2 : Hts.Spec.Flat.ValidOps (Hts.Model.Bgzf.layoutOf F) (ops.filterMap flatOp) := by
        rw [List.filterMap_cons_none hf] at hv; exact hv
      -- a dropped SetCache: nothing changes
      have hst : ∃ C1, step cfg o (ofB F) C op = .ok (C1, ⟨[], .ok, chunkOf B.lastChunk⟩) ∧ R F C1 B := by
        cases op with
        | setCache c h =>
          simp only [Plain] at hp1
          subst hp1
          refine ⟨{ C with cache := none, hints := h, parked := C.parked ++ C.cache.toList }, ?_,
            ⟨⟨r.core.file, rfl, r.core.lent, r.core.cur, r.core.blocked, r.core.cb, r.core.ce⟩, r.err, r.data⟩⟩
          simp only [step]
          rw [← r.chunk]
        | reattach i h => exact absurd hp1 (by simp [Plain])
        | seek f b => simp [flatOp] at hf
        | read n => simp [flatOp] at hf
        | readByte => simp [flatOp] at hf
        | setBlocked b => simp [flatOp] at hf
      obtain ⟨C1, g1, g2⟩ := hst
      obtain ⟨C2, g3⟩ := ih C1 B s g2 hs hp2 hv2
      exact ⟨C2, by simp only [run, g1, g3, simOuts, hf]⟩

/-- `NewReader` -/
theorem newReader_sim {cfg : Cfg} (o : CacheOps σ) {F : BFile} (hwf : WF F) {r0 : BReader}
    (h0 : Hts.Model.Bgzf.Reader.new F = .ok r0) :
    ∃ C0, newReader o cfg (ofB F) = .ok (C0, .none) ∧ R F C0 r0 := by
  cases hm : memberAt F 0 with
  | ok m =>
    have hfind := find_membersFrom F hwf 0 0
    rw [hm] at hfind
    simp only [Nat.zero_add] at hfind
    have hr0 : r0 = ⟨F, ⟨0, m.csize, m.data, 0, ⟨0, 0⟩⟩, ⟨⟨0, 0⟩, ⟨0, 0⟩⟩, none, false⟩ := by
      simp [Hts.Model.Bgzf.Reader.new, hm] at h0
      exact h0.symm
    have hm2 := hwf m (memberAt_ok_mem hm)
    subst hr0
    have hf' : File.find (ofB F) 0 = some ⟨0, (m.csize : Int), nat8 m.data⟩ := hfind
    have hnr : newReader o cfg (ofB F) =
        .ok (loadAt cfg (ofB F) (⟨fun _ => {}, 0, none, .none, (0, 0), (0, 0), false, none, [], none, []⟩ : Reader σ) 0) := by
      simp [newReader, nextBlockAt, skipCached]
    have h2 : (loadAt cfg (ofB F) (⟨fun _ => {}, 0, none, .none, (0, 0), (0, 0), false, none, [], none, []⟩ : Reader σ) 0).2
        = .none := by
      simp only [loadAt, lazyBlock, hf']
    refine ⟨(loadAt cfg (ofB F) (⟨fun _ => {}, 0, none, .none, (0, 0), (0, 0), false, none, [], none, []⟩ : Reader σ) 0).1,
      ?_, ?_⟩
    · rw [hnr]; exact congrArg Except.ok (Prod.ext rfl h2)
    · simp only [loadAt, lazyBlock, hf']
      refine ⟨⟨rfl, rfl, rfl, ⟨0, rfl, ?_⟩, rfl, rfl, rfl⟩, Or.inl ⟨rfl, rfl⟩, fun _ => by simp only; omega⟩
      simp only [Reader.setB, if_true]
      refine ⟨?_, ?_, ?_, rfl, Or.inl ⟨rfl, by simp only; omega, rfl, rfl, Nat.zero_le _, hm2.2, rfl, hm⟩⟩ <;>
        (simp only [rebase]; split <;> rfl)
  | eof => simp [Hts.Model.Bgzf.Reader.new, hm] at h0
  | bad => simp [Hts.Model.Bgzf.Reader.new, hm] at h0

/-! ### down to the flat-file specification -/

/-- one observation of the flat specification in C03's vocabulary -/
def flatOut (fop : Hts.Spec.Flat.Op) (ob : Hts.Spec.Flat.Obs) : Out :=
  ⟨(match fop with
    | .readByte => if ob.eof then [] else nat8 ob.bytes
    | _ => nat8 ob.bytes), if ob.eof then .eof else .ok, chunkOf ob.last⟩

/-- what `Hts.Spec.Flat` prescribes along a C03 history (cache calls return nothing and change nothing) -/
def flatOuts (FF : Hts.Spec.Flat.FlatFile) (s : Hts.Spec.Flat.State) : List (Op σ) → List Out
  | [] => []
  | op :: ops =>
    match flatOp op with
    | some fop => flatOut fop (Hts.Spec.Flat.step FF s fop).2 :: flatOuts FF (Hts.Spec.Flat.step FF s fop).1 ops
    | none => ⟨[], .ok, chunkOf s.last⟩ :: flatOuts FF s ops

theorem flatOp_uncached (op : Op σ) : flatOp op.uncached = flatOp op := by
  cases op <;> rfl

theorem filterMap_flatOp_uncached (ops : List (Op σ)) :
    (ops.map Op.uncached).filterMap flatOp = ops.filterMap flatOp := by
  induction ops with
  | nil => rfl
  | cons op ops ih =>
    simp only [List.map_cons, List.filterMap_cons, flatOp_uncached, ih]

theorem flatOuts_uncached (FF : Hts.Spec.Flat.FlatFile) (ops : List (Op σ)) :
    ∀ s, flatOuts FF s (ops.map Op.uncached) = flatOuts FF s ops := by
  induction ops with
  | nil => intro s; rfl
  | cons op ops ih =>
    intro s
    simp only [List.map_cons, flatOuts, flatOp_uncached]
    cases flatOp op with
    | none => simp only [ih]
    | some fop => simp only [ih]

theorem simOuts_eq_flatOuts {F : BFile} (hwf : WF F) (ops : List (Op σ)) :
    ∀ (B : BReader) (s : Hts.Spec.Flat.State), Hts.Model.Bgzf.Sim F B s →
      Hts.Spec.Flat.ValidOps (Hts.Model.Bgzf.layoutOf F) (ops.filterMap flatOp) →
      simOuts B ops = flatOuts (Hts.Model.Bgzf.flatOf F) s ops := by
  induction ops with
  | nil => intro B s _ _; rfl
  | cons op ops ih =>
    intro B s hs hv
    cases hf : flatOp op with
    | some fop =>
      obtain ⟨hv1, hv2⟩ := validOps_filterMap_cons_some hf hv
      obtain ⟨h1, h2, h3, h4⟩ := Hts.Model.Bgzf.sim_step hwf hs fop hv1
      simp only [simOuts, flatOuts, hf]
      rw [ih _ _ h4 hv2]
      congr 1
      simp only [outOf, flatOut, h1, h2, h3]
      cases (Hts.Spec.Flat.step (Hts.Model.Bgzf.flatOf F) s fop).2.eof <;>
        cases fop <;> simp [Hts.Model.Bgzf.errOf, clsB]
    | none =>
      have hv2 : Hts.Spec.Flat.ValidOps (Hts.Model.Bgzf.layoutOf F) (ops.filterMap flatOp) := by
        rw [List.filterMap_cons_none hf] at hv; exact hv
      simp only [simOuts, flatOuts, hf]
      rw [ih _ _ hs hv2, hs.last]

theorem plain_uncached (op : Op σ) (h : ∀ f b, op = .seek f b → 0 ≤ f) : Plain op.uncached := by
  cases op with
  | seek f b => exact h f b rfl
  | read n => trivial
  | readByte => trivial
  | setBlocked b => trivial
  | setCache c hs => rfl
  | reattach i hs => rfl

theorem fileOK_ofB {F : BFile} (hwf : WF F) : ∀ base, ∀ m ∈ membersFrom base F, 0 < m.size := by
  induction F with
  | nil => intro base m hm; simp [membersFrom] at hm
  | cons a rest ih =>
    intro base m hm
    have ⟨hc, _, hw⟩ := Hts.Model.Bgzf.WF.cons hwf
    simp only [membersFrom, List.mem_cons] at hm
    rcases hm with h | h
    · subst h; simp only; omega
    · exact ih hw _ m h

end Hts.Model.CachedReader.C02
