/-
Basic facts for the bgzf reader model: well-formed files, `memberAt` on a split file, the zipper
view of a reader state (`At`), and the layout functions of the flat specification on a split file.
-/
import Hts.Model.BgzfReader
namespace Hts.Model.Bgzf
open Hts.Spec.Flat

/-- Sum of the compressed sizes = compressed offset after these members. -/
def csum : File → Nat
  | [] => 0
  | m :: rest => m.csize + csum rest

/-- Number of uncompressed bytes. -/
def flatLen : File → Nat
  | [] => 0
  | m :: rest => m.data.length + flatLen rest

/-- Well-formed file: every member has a positive compressed size and fewer than 2^16 bytes of data
(the library's writer never exceeds `BlockSize = 0xff00`). -/
def WF (f : File) : Prop := ∀ m ∈ f, 0 < m.csize ∧ m.data.length < 65536

theorem WF.cons {m : Member} {f : File} (h : WF (m :: f)) : 0 < m.csize ∧ m.data.length < 65536 ∧ WF f :=
  ⟨(h m (by simp)).1, (h m (by simp)).2, fun x hx => h x (by simp [hx])⟩

theorem WF.append_left {f g : File} (h : WF (f ++ g)) : WF f := fun x hx => h x (by simp [hx])
theorem WF.append_right {f g : File} (h : WF (f ++ g)) : WF g := fun x hx => h x (by simp [hx])
theorem WF.mid {pre post : File} {m : Member} (h : WF (pre ++ m :: post)) :
    0 < m.csize ∧ m.data.length < 65536 := h m (by simp)

@[simp] theorem csum_append (f g : File) : csum (f ++ g) = csum f + csum g := by
  induction f with
  | nil => simp [csum]
  | cons m f ih => simp [csum, ih]; omega

@[simp] theorem flatLen_append (f g : File) : flatLen (f ++ g) = flatLen f + flatLen g := by
  induction f with
  | nil => simp [flatLen]
  | cons m f ih => simp [flatLen, ih]; omega

@[simp] theorem flatBytes_append (f g : File) : flatBytes (f ++ g) = flatBytes f ++ flatBytes g := by
  induction f with
  | nil => simp [flatBytes]
  | cons m f ih => simp [flatBytes, ih]

@[simp] theorem flatBytes_length (f : File) : (flatBytes f).length = flatLen f := by
  induction f with
  | nil => simp [flatBytes, flatLen]
  | cons m f ih => simp [flatBytes, flatLen, ih]

@[simp] theorem layoutOf_append (f g : File) : layoutOf (f ++ g) = layoutOf f ++ layoutOf g := by
  induction f with
  | nil => simp [layoutOf]
  | cons m f ih => simp [layoutOf, ih]

@[simp] theorem total_layoutOf (f : File) : total (layoutOf f) = flatLen f := by
  induction f with
  | nil => simp [layoutOf, total, flatLen]
  | cons m f ih => simp [layoutOf, total, flatLen, ih]

@[simp] theorem fileLen_layoutOf (f : File) : fileLen (layoutOf f) = csum f := by
  induction f with
  | nil => simp [layoutOf, fileLen, csum]
  | cons m f ih => simp [layoutOf, fileLen, csum, ih]

/-- Seeking the underlying file to the end of a prefix of members finds what follows. -/
theorem memberAt_append (pre post : File) (x : Nat) (h : WF pre) :
    memberAt (pre ++ post) (csum pre + x) = memberAt post x := by
  induction pre with
  | nil => simp [csum]
  | cons m pre ih =>
    have ⟨hc, _, hw⟩ := WF.cons h
    simp only [List.cons_append, csum, memberAt]
    have h1 : ¬ (m.csize + csum pre + x = 0) := by omega
    have h2 : ¬ (m.csize + csum pre + x < m.csize) := by omega
    simp only [h1, h2, if_false]
    have : m.csize + csum pre + x - m.csize = csum pre + x := by omega
    rw [this]; exact ih hw

theorem memberAt_split (pre post : File) (h : WF pre) :
    memberAt (pre ++ post) (csum pre) = memberAt post 0 := by
  simpa using memberAt_append pre post 0 h

theorem memberAt_zero_cons (m : Member) (post : File) : memberAt (m :: post) 0 = .ok m := by
  simp [memberAt]

theorem memberAt_zero_nil : memberAt [] 0 = .eof := by simp [memberAt]

/-! ### Layout functions on a split file -/

theorem Offset.shift_mk (f b c : Nat) : (Offset.mk f b).shift c = ⟨f + c, b⟩ := rfl

theorem seekTarget_split (pre post : File) (m : Member) (k : Nat) (h : WF pre)
    (hk : k ≤ m.data.length) :
    seekTarget (layoutOf (pre ++ m :: post)) ⟨csum pre, k⟩ = some (flatLen pre + k) := by
  induction pre with
  | nil => simp [layoutOf, seekTarget, csum, flatLen, hk]
  | cons a pre ih =>
    have ⟨hc, _, hw⟩ := WF.cons h
    simp only [List.cons_append, layoutOf, seekTarget, csum, flatLen]
    have h1 : ¬ (a.csize + csum pre = 0) := by omega
    have h2 : ¬ (a.csize + csum pre < a.csize) := by omega
    simp only [h1, h2, if_false]
    have : a.csize + csum pre - a.csize = csum pre := by omega
    rw [this, ih hw]; simp; omega

/-- A valid seek target splits the file at its block. -/
theorem seekTarget_some (f : File) (o : Offset) (p : Nat) (h : WF f)
    (hs : seekTarget (layoutOf f) o = some p) :
    ∃ pre m post, f = pre ++ m :: post ∧ o = ⟨csum pre, o.block⟩ ∧ o.block ≤ m.data.length ∧
      p = flatLen pre + o.block := by
  induction f generalizing o p with
  | nil => simp [layoutOf, seekTarget] at hs
  | cons a f ih =>
    have ⟨hc, _, hw⟩ := WF.cons h
    simp only [layoutOf, seekTarget] at hs
    by_cases h0 : o.file = 0
    · simp only [h0, if_true] at hs
      by_cases hb : o.block ≤ a.data.length
      · simp only [hb, if_true, Option.some.injEq] at hs
        refine ⟨[], a, f, by simp, ?_, hb, by simp [flatLen, hs]⟩
        cases o; simp_all [csum]
      · simp [hb] at hs
    · simp only [h0, if_false] at hs
      by_cases h1 : o.file < a.csize
      · simp [h1] at hs
      · simp only [h1, if_false, Option.map_eq_some_iff] at hs
        obtain ⟨q, hq, hp⟩ := hs
        obtain ⟨pre, m, post, hf, ho, hb, hq'⟩ := ih ⟨o.file - a.csize, o.block⟩ q hw hq
        refine ⟨a :: pre, m, post, by simp [hf], ?_, hb, ?_⟩
        · cases o with
          | mk file block =>
            simp only [Offset.mk.injEq] at ho
            simp only [csum, Offset.mk.injEq, and_true]
            simp at h1 ho
            omega
        · simp only [flatLen]; simp at hq'; omega

theorem offBefore_split (pre post : File) (m : Member) (k : Nat) (hk : k < m.data.length) :
    offBefore (layoutOf (pre ++ m :: post)) (flatLen pre + k) = ⟨csum pre, k⟩ := by
  induction pre with
  | nil => simp [layoutOf, offBefore, csum, flatLen, hk]
  | cons a pre ih =>
    simp only [List.cons_append, layoutOf, offBefore, csum, flatLen]
    have h1 : ¬ (a.data.length + flatLen pre + k < a.data.length) := by omega
    simp only [h1, if_false]
    have : a.data.length + flatLen pre + k - a.data.length = flatLen pre + k := by omega
    rw [this, ih, Offset.shift_mk]; simp; omega

theorem offAfter_split (pre post : File) (m : Member) (k : Nat) (hk0 : 0 < k)
    (hk : k ≤ m.data.length) :
    offAfter (layoutOf (pre ++ m :: post)) (flatLen pre + k) = ⟨csum pre, k⟩ := by
  induction pre with
  | nil => simp [layoutOf, offAfter, csum, flatLen, hk]
  | cons a pre ih =>
    simp only [List.cons_append, layoutOf, offAfter, csum, flatLen]
    have h1 : ¬ (a.data.length + flatLen pre + k ≤ a.data.length) := by omega
    simp only [h1, if_false]
    have : a.data.length + flatLen pre + k - a.data.length = flatLen pre + k := by omega
    rw [this, ih, Offset.shift_mk]; simp; omega

theorem blockRem_split (pre post : File) (m : Member) (k : Nat) (hk : k < m.data.length) :
    blockRem (layoutOf (pre ++ m :: post)) (flatLen pre + k) = m.data.length - k := by
  induction pre with
  | nil => simp [layoutOf, blockRem, flatLen, hk]
  | cons a pre ih =>
    simp only [List.cons_append, layoutOf, blockRem, flatLen]
    have h1 : ¬ (a.data.length + flatLen pre + k < a.data.length) := by omega
    simp only [h1, if_false]
    have : a.data.length + flatLen pre + k - a.data.length = flatLen pre + k := by omega
    rw [this, ih]

/-- The bytes of the flat copy from a position inside block `m`. -/
theorem flatBytes_drop_split (pre post : File) (m : Member) (k : Nat) (hk : k ≤ m.data.length) :
    (flatBytes (pre ++ m :: post)).drop (flatLen pre + k) = m.data.drop k ++ flatBytes post := by
  simp only [flatBytes_append, flatBytes]
  rw [List.drop_append]
  have : (flatBytes pre).drop (flatLen pre + k) = [] := by
    apply List.drop_eq_nil_of_le; simp
  simp only [this, List.nil_append, flatBytes_length]
  have h2 : flatLen pre + k - flatLen pre = k := by omega
  rw [h2, List.drop_append]
  have h3 : k - m.data.length = 0 := by omega
  simp [h3]

end Hts.Model.Bgzf
