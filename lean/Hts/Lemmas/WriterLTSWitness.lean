/-
Writer LTS: executable successors are complete, schedules reach reachable states (used by the `decide`d
witnesses of the unchanged protocol's dead state).
-/
import Hts.Lemmas.WriterLTSLive
namespace Hts.Model.WriterLTS

theorem finishAt_lt : ∀ {i : Nat} {q q' : List Item}, finishAt i q = some q' → i < q.length
  | _, [], _, h => by simp [finishAt] at h
  | 0, it :: q, _, _ => by simp
  | i + 1, it :: q, q', h => by
    simp only [finishAt, Option.map_eq_some_iff] at h
    obtain ⟨q1, h1, _⟩ := h
    have := finishAt_lt h1
    simp; omega

/-- every enabled step is in the executable successor list -/
theorem succs_complete {cfg : Cfg} {s t : State} {l : Label} {e : Option Ev} (h : next cfg s l = some (e, t)) :
    (l, e, t) ∈ succs cfg s := by
  simp only [succs, List.mem_filterMap]
  refine ⟨l, ?_, by simp [h]⟩
  cases l with
  | api => simp [labels]
  | em => simp [labels]
  | finE => simp [labels]
  | finQ i =>
    simp only [next, Option.map_eq_some_iff] at h
    obtain ⟨q, hq, _⟩ := h
    have := finishAt_lt hq
    simp [labels, this]

theorem no_step_of_succs_nil {cfg : Cfg} {s : State} (h : succs cfg s = []) : ¬ ∃ t, Step cfg s t := by
  rintro ⟨t, l, e, hn⟩
  have := succs_complete hn
  rw [h] at this
  simp at this

theorem runLabels_reachable {cfg : Cfg} : ∀ {ls : List Label} {s t : State},
    runLabels cfg s ls = some t → Reachable cfg s → Reachable cfg t
  | [], s, t, h, hr => by simp [runLabels] at h; exact h ▸ hr
  | l :: ls, s, t, h, hr => by
    simp only [runLabels] at h
    split at h
    · rename_i e u hn
      exact runLabels_reachable h (.step hr ⟨l, e, hn⟩)
    · cases h

/-- run a schedule, collecting the observable trace (newest event first) -/
def runTrace (cfg : Cfg) : List Ev → State → List Label → Option (List Ev × State)
  | tr, s, [] => some (tr, s)
  | tr, s, l :: ls => match next cfg s l with
    | some (e, t) => runTrace cfg (e.toList ++ tr) t ls
    | none => none

theorem runTrace_run {cfg : Cfg} : ∀ {ls : List Label} {tr tr' : List Ev} {s t : State},
    runTrace cfg tr s ls = some (tr', t) → Run cfg tr s → Run cfg tr' t
  | [], tr, tr', s, t, h, hr => by
    simp only [runTrace, Option.some.injEq, Prod.mk.injEq] at h
    exact h.1 ▸ h.2 ▸ hr
  | l :: ls, tr, tr', s, t, h, hr => by
    simp only [runTrace] at h
    split at h
    · rename_i e u hn
      exact runTrace_run h (.step hr hn)
    · cases h

end Hts.Model.WriterLTS
