/-
Lemmas about the sequential reader model (Hts.Model.BgzfSeqRead): each call delivers the next bytes
of the flat data.
-/
import Hts.Model.BgzfSeqRead
namespace Hts.Model.BgzfSeqRead
variable {α : Type}

theorem skipEmpty_none (cur : List α) (rest : List (List α)) :
    skipEmpty cur rest = none ↔ cur ++ rest.flatten = [] := by
  fun_induction skipEmpty cur rest with
  | case1 => simp
  | case2 b r ih => simpa using ih
  | case3 a cur rest => simp

theorem skipEmpty_some (cur : List α) (rest : List (List α)) (c : List α) (r : List (List α))
    (h : skipEmpty cur rest = some (c, r)) : c ≠ [] ∧ c ++ r.flatten = cur ++ rest.flatten := by
  fun_induction skipEmpty cur rest with
  | case1 => simp at h
  | case2 b r' ih => simpa using ih h
  | case3 a cur rest => simp at h; obtain ⟨rfl, rfl⟩ := h; simp

/-- What the copy loop of `Read` delivers: with `R` the undelivered data and `k` the room left in `p`,
it appends `R.take k`, leaves `R.drop k`, and ends with io.EOF exactly when `R` is shorter than `k`. -/
theorem readLoop_spec (want : Nat) (acc cur : List α) (rest : List (List α)) (hacc : acc.length ≤ want) :
    let res := readLoop want acc cur rest
    res.1 = acc ++ (cur ++ rest.flatten).take (want - acc.length) ∧
    res.2.1 ++ res.2.2.1.flatten = (cur ++ rest.flatten).drop (want - acc.length) ∧
    (res.2.2.2 = true ↔ (cur ++ rest.flatten).length < want - acc.length) := by
  fun_induction readLoop want acc cur rest with
  | case1 acc hw => simp; omega
  | case2 acc hw b r ih => simpa using ih hacc
  | case3 acc hw a t rest k ih =>
    have hk : k = min (want - acc.length) (a :: t).length := rfl
    have hk1 : k ≤ want - acc.length := by omega
    have hk2 : k ≤ (a :: t).length := by omega
    have hlen : (acc ++ List.take k (a :: t)).length = acc.length + k := by
      simp only [List.length_append, List.length_take]; omega
    have ih' := ih (by rw [hlen]; omega)
    simp only at ih'
    rw [hlen] at ih'
    obtain ⟨h1, h2, h3⟩ := ih'
    have hsplit : want - acc.length = k + (want - (acc.length + k)) := by omega
    refine ⟨?_, ?_, ?_⟩
    · rw [h1, hsplit, List.take_add, List.append_assoc]
      congr 1
      rw [List.take_append_of_le_length hk2, List.drop_append_of_le_length hk2]
    · rw [h2, hsplit, ← List.drop_drop, List.drop_append_of_le_length hk2]
    · rw [h3]
      simp only [List.length_append, List.length_drop]
      omega
  | case4 acc cur rest hw =>
    have : want - acc.length = 0 := by omega
    simp [this]

/-- Invariant: after io.EOF has been latched nothing is left. -/
def Inv (s : State α) : Prop := s.eof = true → s.remaining = []

theorem init_inv (blocks : List (List α)) (s : State α) (h : init blocks = some s) :
    Inv s ∧ s.remaining = blocks.flatten := by
  cases blocks with
  | nil => simp [init] at h
  | cons b bs => simp [init] at h; subst h; simp [Inv, State.remaining]

/-- One `Read` with a buffer of `n` bytes delivers the next `min n remaining` bytes; it returns io.EOF
exactly when fewer than `n` bytes were left or nothing was left. -/
theorem read_spec (n : Nat) (s : State α) (hs : Inv s) :
    let r := read n s
    r.2.1 = s.remaining.take n ∧ r.1.remaining = s.remaining.drop n ∧
    (r.2.2 = true ↔ (s.remaining.length < n ∨ s.remaining = [])) ∧ Inv r.1 := by
  simp only [read]
  cases he : s.eof with
  | true =>
    have := hs he
    simp [this, Inv]
  | false =>
    simp only [Bool.false_eq_true, if_false]
    cases hsk : skipEmpty s.cur s.rest with
    | none =>
      have := (skipEmpty_none _ _).mp hsk
      simp [State.remaining, this, Inv]
    | some cr =>
      obtain ⟨c, r⟩ := cr
      obtain ⟨hne, hflat⟩ := skipEmpty_some _ _ _ _ hsk
      have hsp := readLoop_spec n [] c r (by simp)
      simp only [List.length_nil, Nat.sub_zero, List.nil_append] at hsp
      obtain ⟨h1, h2, h3⟩ := hsp
      have hrem : s.remaining = c ++ r.flatten := by simp [State.remaining, hflat]
      have hne' : c ++ r.flatten ≠ [] := by simp [hne]
      simp only
      refine ⟨by rw [h1, hrem], by rw [hrem]; simp only [State.remaining]; rw [h2], ?_, ?_⟩
      · rw [h3, hrem]; simp [hne]
      · intro he'
        simp only at he'
        simp only [State.remaining]
        rw [h2]
        have := h3.mp he'
        exact List.drop_eq_nil_of_le (Nat.le_of_lt this)

/-- One `ReadByte` delivers the next byte, or io.EOF when nothing is left. -/
theorem readByte_spec (s : State α) (hs : Inv s) :
    let r := readByte s
    r.2.1 = s.remaining.head? ∧ r.1.remaining = s.remaining.drop 1 ∧
    (r.2.2 = true ↔ s.remaining = []) ∧ Inv r.1 := by
  simp only [readByte]
  cases he : s.eof with
  | true =>
    have := hs he
    simp [this, Inv]
  | false =>
    simp only [Bool.false_eq_true, if_false]
    cases hsk : skipEmpty s.cur s.rest with
    | none =>
      have := (skipEmpty_none _ _).mp hsk
      simp [State.remaining, this, Inv]
    | some cr =>
      obtain ⟨c, r⟩ := cr
      obtain ⟨hne, hflat⟩ := skipEmpty_some _ _ _ _ hsk
      have hrem : s.remaining = c ++ r.flatten := by simp [State.remaining, hflat]
      cases c with
      | nil => exact absurd rfl hne
      | cons a c => rw [hrem]; simp [State.remaining, Inv]

/-- bytes an op asks for -/
def Op.want : Op → Nat
  | .read n => n
  | .readByte => 1

theorem step_spec (s : State α) (op : Op) (hs : Inv s) :
    let r := step s op
    r.2.1 = s.remaining.take op.want ∧ r.1.remaining = s.remaining.drop op.want ∧
    (r.2.2 = true ↔ (s.remaining.length < op.want ∨ s.remaining = [])) ∧ Inv r.1 := by
  cases op with
  | read n => exact read_spec n s hs
  | readByte =>
    obtain ⟨h1, h2, h3, h4⟩ := readByte_spec s hs
    simp only [step, Op.want]
    refine ⟨?_, h2, ?_, h4⟩
    · rw [h1]; cases s.remaining <;> simp
    · rw [h3]; cases s.remaining <;> simp

/-- bytes delivered by a run, concatenated -/
def delivered (rs : List (List α × Bool)) : List α := (rs.map (·.1)).flatten

theorem run_spec (s : State α) (ops : List Op) (hs : Inv s) :
    delivered (run s ops).2 = s.remaining.take (ops.map Op.want).sum ∧
    (run s ops).1.remaining = s.remaining.drop (ops.map Op.want).sum ∧ Inv (run s ops).1 := by
  induction ops generalizing s with
  | nil => simp [run, delivered, hs]
  | cons op ops ih =>
    obtain ⟨h1, h2, _, h4⟩ := step_spec s op hs
    obtain ⟨i1, i2, i3⟩ := ih (step s op).1 h4
    simp only [run, delivered, List.map_cons, List.flatten_cons, List.sum_cons]
    simp only [delivered] at i1
    refine ⟨?_, ?_, i3⟩
    · rw [i1, h1, h2, List.take_add]
    · rw [i2, h2, List.drop_drop]

end Hts.Model.BgzfSeqRead
