/-
Read-ahead protocol without I/O faults: every block in the system is exactly the result of the sequential
load at its base, `⟨base, chain base⟩`.
-/
import Hts.Lemmas.ReaderLTSMain
namespace Hts.Model.ReadAhead

variable {cfg : Cfg} {s t : State} {ev : Option Ev}

/-- What a fault-free load at the block's base returns. -/
def Exact (chain : Chain) (b : Blk) : Prop :=
  match b.base with
  | some t => b.next = chain t
  | none => b.next = none

structure ExactInv (cfg : Cfg) (s : State) : Prop where
  cur : Exact cfg.chain s.cur
  working : ∀ b ∈ s.working, Exact cfg.chain b
  push : ∀ b, s.worker = .push b → Exact cfg.chain b

theorem doLoad_exact {tgt : Option Nat} {fail : Bool} {b : Blk} {h : Option Nat} {e : Ev}
    (hf : cfg.faults = false) (hl : doLoad cfg s tgt fail = some (b, h, e)) : Exact cfg.chain b := by
  unfold doLoad at hl
  cases tgt with
  | none =>
    by_cases hfl : fail = true
    · simp [hfl] at hl
    · simp only [hfl, if_false, Bool.false_eq_true, Option.some.injEq, Prod.mk.injEq] at hl
      obtain ⟨rfl, -, -⟩ := hl; simp [Exact]
  | some t =>
    by_cases hfl : fail = true
    · simp [hfl, hf] at hl
    · simp only [hfl, if_false, Bool.false_eq_true] at hl
      cases hc : cfg.chain t with
      | none =>
        simp only [hc, Option.some.injEq, Prod.mk.injEq] at hl
        obtain ⟨rfl, -, -⟩ := hl; simp [Exact, hc]
      | some nx =>
        simp only [hc, Option.some.injEq, Prod.mk.injEq] at hl
        obtain ⟨rfl, -, -⟩ := hl; simp [Exact, hc]

theorem exact_init : ExactInv cfg (init cfg) :=
  ⟨by simp [init, Exact], by simp [init], by simp [init]⟩

theorem exact_wk {f : Bool} (hf : cfg.faults = false) (hi : ExactInv cfg s)
    (h : wkStep cfg s f = some (ev, t)) : ExactInv cfg t := by
  have h1 := hi.working
  have h2 := hi.push
  have hcur : t.cur = s.cur := (wk_frame h).2.1
  unfold wkStep at h
  cases hw : s.worker with
  | load x =>
    simp only [hw] at h
    cases hl : doLoad cfg s x f with
    | none => simp [hl] at h
    | some r =>
      obtain ⟨b, hd, ev'⟩ := r
      simp only [hl, Option.some.injEq, Prod.mk.injEq] at h
      obtain ⟨-, rfl⟩ := h
      refine ⟨hi.cur, h1, ?_⟩
      intro b' hb'
      simp only [Worker.push.injEq] at hb'
      subst hb'
      exact doLoad_exact hf hl
  | push b =>
    simp only [hw] at h
    step_cases h
    refine ⟨hi.cur, ?_, by simp⟩
    intro b' hb'
    simp only [List.mem_append, List.mem_singleton] at hb'
    rcases hb' with hb' | rfl
    · exact h1 b' hb'
    · exact h2 b' hw
  | _ => simp only [hw] at h; step_cases h <;> exact ⟨hi.cur, h1, by simp⟩

theorem exact_api {c f : Bool} (hf : cfg.faults = false) (hi : ExactInv cfg s)
    (h : apiStep cfg s c f = some (ev, t)) : ExactInv cfg t := by
  have h0 := hi.cur
  have h1 := hi.working
  have h2 := hi.push
  unfold apiStep at h
  cases hc : s.cons with
  | fetch e =>
    simp only [hc] at h
    by_cases hcf : c = true
    · simp [hcf] at h
    · simp only [hcf, if_false, Bool.false_eq_true] at h
      cases hl : doLoad cfg s (some e) f with
      | none => simp [hl] at h
      | some r =>
        obtain ⟨b, hd, ev'⟩ := r
        simp only [hl, Option.some.injEq, Prod.mk.injEq] at h
        obtain ⟨-, rfl⟩ := h
        exact ⟨doLoad_exact hf hl, h1, h2⟩
  | sync off =>
    simp only [hc] at h
    by_cases hcf : c = true
    · simp [hcf] at h
    · simp only [hcf, if_false, Bool.false_eq_true] at h
      cases hl : doLoad cfg s (some off) f with
      | none => simp [hl] at h
      | some r =>
        obtain ⟨b, hd, ev'⟩ := r
        simp only [hl, Option.some.injEq, Prod.mk.injEq] at h
        obtain ⟨-, rfl⟩ := h
        exact ⟨doLoad_exact hf hl, h1, h2⟩
  | scan e i =>
    simp only [hc] at h
    cases hw : s.working with
    | nil => simp [hw] at h
    | cons b rest =>
      have hb : Exact cfg.chain b := h1 b (by simp [hw])
      have hr : ∀ b' ∈ rest, Exact cfg.chain b' := fun b' hb' => h1 b' (by simp [hw, hb'])
      simp only [hw] at h
      step_cases h <;> first | exact ⟨hb, hr, h2⟩ | exact ⟨h0, hr, h2⟩
  | sel off =>
    simp only [hc] at h
    cases hw : s.working with
    | nil => simp only [hw] at h; step_cases h <;> exact ⟨h0, by simp, h2⟩
    | cons b rest =>
      have hb : Exact cfg.chain b := h1 b (by simp [hw])
      have hr : ∀ b' ∈ rest, Exact cfg.chain b' := fun b' hb' => h1 b' (by simp [hw, hb'])
      simp only [hw] at h
      step_cases h <;> first | exact ⟨hb, hr, h2⟩ | exact ⟨h0, hr, h2⟩ | exact ⟨h0, by simpa [hw] using h1, h2⟩
  | _ => simp only [hc] at h; step_cases h <;> exact ⟨h0, h1, h2⟩

theorem exact_reachable (hf : cfg.faults = false) (h : Reachable cfg s) : ExactInv cfg s := by
  induction h with
  | init => exact exact_init
  | step _ hs ih =>
    obtain ⟨l, e, hn⟩ := hs
    cases l with
    | api c f => exact exact_api hf ih hn
    | wk f => exact exact_wk hf ih hn

end Hts.Model.ReadAhead
