/-
Record level of the BAM codec: the writer accepts every well-formed record and produces `size ++ fields`; the reader's
fixed-part, name, CIGAR, sequence, quality and aux steps invert the writer's (assembled from the field codecs of
Lemmas.BamBytes / Lemmas.BamAux); the length-prefix lemma.
-/
import Hts.Lemmas.BamAux
namespace Hts.Model.Bam

/-- the record after its length prefix, as a right-nested concatenation of its fields -/
def bodyOf (bin : Nat) (tags : List Byte) (r : Record) : List Byte :=
  putI32 (refID r.ref) ++ (putI32 r.pos ++ (byteOf (r.name.length + 1) :: (r.mapq :: (putU16 bin ++
  (putU16 r.cigar.length ++ (putU16 r.flags.toNat ++ (putI32 r.seqLen ++ (putI32 (refID r.mateRef) ++
  (putI32 r.matePos ++ (putI32 r.tempLen ++ (r.name ++ (0#8 :: (cigarBytes r.cigar ++ (r.seq ++
  (qualBytes r ++ tags)))))))))))))))

theorem encodeWith_eq (bin : Nat) (tags : List Byte) (r : Record) :
    encodeWith bin tags r = putI32 (recLen r tags) ++ bodyOf bin tags r := by
  simp [encodeWith, bodyOf, cigarBytes, List.append_assoc]

theorem unsafeBytes_all (xs : List Byte) : Buf.unsafeBytes ⟨xs, false⟩ xs.length = (xs, ⟨[], false⟩) := by
  simp [Buf.unsafeBytes]

theorem discard_cons (x : Byte) (rest : List Byte) : Buf.discard ⟨x :: rest, false⟩ 1 = ⟨rest, false⟩ := by
  simp [Buf.discard]

theorem refID_range {n : Nat} {o : Option Nat} (hn : n < 2147483648) (h : ∀ i, o = some i → i < n) :
    -2147483648 ≤ refID o ∧ refID o < 2147483648 := by
  cases o with
  | none => simp [refID]
  | some i => have := h i rfl; simp only [refID]; omega

theorem linkRefs_ok (n : Nat) (a b : Option Nat) (r : Record)
    (ha : ∀ i, a = some i → i < n) (hb : ∀ i, b = some i → i < n) :
    linkRefs n (refID a) (refID b) r = .ok { r with ref := a, mateRef := b } := by
  cases a with
  | none =>
    cases b with
    | none => simp [linkRefs, refID]
    | some j =>
      have := hb j rfl
      have h1 : ((j : Int) != -1) = true := by simp <;> omega
      have h2 : ((-1 : Int) == (j : Int)) = false := by simp <;> omega
      have h3 : ¬ ((j : Int) < -1) := by omega
      have h4 : ¬ ((n : Int) ≤ (j : Int)) := by omega
      simp [linkRefs, refID, h1, h2, h3, h4]
  | some i =>
    have := ha i rfl
    have g1 : ((i : Int) != -1) = true := by simp <;> omega
    have g2 : ((i : Int) == -1) = false := by simp <;> omega
    have g3 : ¬ ((i : Int) < -1) := by omega
    have g4 : ¬ ((n : Int) ≤ (i : Int)) := by omega
    cases b with
    | none => simp [linkRefs, refID, g1, g2, g3, g4]
    | some j =>
      have := hb j rfl
      have h1 : ((j : Int) != -1) = true := by simp <;> omega
      have h3 : ¬ ((j : Int) < -1) := by omega
      have h4 : ¬ ((n : Int) ≤ (j : Int)) := by omega
      by_cases hij : i = j
      · subst hij
        simp [linkRefs, refID, g1, g2, g3, g4]
      · have h5 : ((i : Int) == (j : Int)) = false := by simp <;> omega
        simp [linkRefs, refID, g1, g2, g3, g4, h1, h3, h4, h5]


theorem qualBytes_length {n : Nat} {r : Record} (h : WF n r) : (qualBytes r).length = r.seqLen := by
  unfold qualBytes
  cases hq : r.qual with
  | none => simp
  | some q => simpa using h.qual_len q hq

theorem seqLen_lt {n : Nat} {r : Record} (h : WF n r) : r.seqLen < 2147483648 := by
  have := h.size_ok; omega

/-- what the fixed part and name/CIGAR of the reader produce on an encoded body -/
theorem decodeBody_bodyOf (om : Omit) (n : Nat) (r : Record) (bin : Nat) (h : WF n r) :
    decodeBody om n (bodyOf bin (encAuxAll r.aux) r) =
      match om with
      | .none => .ok (norm r)
      | .aux => .ok (omitAux (norm r))
      | .all => .ok (omitAll r) := by
  obtain ⟨r1, r2⟩ := refID_range h.nrefs_ok h.ref_ok
  obtain ⟨m1, m2⟩ := refID_range h.nrefs_ok h.mate_ok
  obtain ⟨p1, p2⟩ := h.pos_ok
  obtain ⟨q1, q2⟩ := h.matePos_ok
  obtain ⟨t1, t2⟩ := h.tempLen_ok
  have hs := seqLen_lt h
  have hname := h.name_len
  have hnl : (byteOf (r.name.length + 1)).toNat = r.name.length + 1 := by
    rw [byteOf_toNat]; omega
  have hcig : r.cigar.length < 65536 := by have := h.cigar_count; omega
  have hfl : r.flags.toNat < 65536 := r.flags.isLt
  unfold decodeBody bodyOf
  simp only [readI32_put _ _ r1 r2, readI32_put _ _ p1 p2, readU8_cons,
    discard_append (putU16 bin) _ 2 rfl, readU16_put _ _ hcig, readU16_put _ _ hfl,
    readI32_put (r.seqLen : Int) _ (by omega) (by omega), readI32_put _ _ m1 m2, readI32_put _ _ q1 q2,
    readI32_put _ _ t1 t2, hnl]
  have hseq : r.seq.length = r.seqLen / 2 + r.seqLen % 2 := by have := h.seq_len; omega
  have hneg : ¬ ((r.seqLen : Int) < 0) := by omega
  have hn1 : ¬ (r.name.length + 1 < 1) := by omega
  simp only [hn1, hneg, ↓reduceIte, Nat.add_sub_cancel, Int.toNat_natCast,
    unsafeBytes_append r.name _ r.name.length rfl, discard_cons,
    unsafeBytes_append (cigarBytes r.cigar) _ _ (cigarBytes_length _), readCigarOps_cigarBytes,
    unsafeBytes_append r.seq _ _ hseq, unsafeBytes_append (qualBytes r) _ _ (qualBytes_length h),
    unsafeBytes_all, parseAux_encAuxAll r.aux h.aux_ok, finish, Bool.false_eq_true,
    linkRefs_ok n r.ref r.mateRef _ h.ref_ok h.mate_ok,
    BitVec.ofNat_toNat, BitVec.setWidth_eq]
  cases om <;> simp [norm, omitAux, omitAll]


theorem bodyOf_length (bin : Nat) (tags : List Byte) (r : Record) :
    (bodyOf bin tags r).length =
      32 + r.name.length + 1 + r.cigar.length * 4 + r.seq.length + (qualBytes r).length + tags.length := by
  simp only [bodyOf, List.length_append, List.length_cons, putI32_length, putU16_length, cigarBytes_length]
  omega

/-- the writer accepts every well-formed record and writes the length prefix followed by the fields -/
theorem encodeRecord_ok {n : Nat} {r : Record} (h : WF n r) :
    ∃ bin, recordBin r = bin ∧
      encodeRecord r = .ok (putI32 (recLen r (encAuxAll r.aux)) ++ bodyOf bin (encAuxAll r.aux) r) := by
  refine ⟨recordBin r, rfl, ?_⟩
  have hn := h.name_len
  have c1 : (r.name.length == 0 || decide (r.name.length > 254)) = false := by
    simp only [Bool.or_eq_false_iff, beq_eq_false_iff_ne, decide_eq_false_iff_not]
    constructor <;> omega
  unfold encodeRecord
  simp only [c1, Bool.false_eq_true, ↓reduceIte]
  split
  · rename_i q hq
    have := h.qual_len q hq
    simp [this, buildAux_ok r.aux h.aux_ok, encodeWith_eq]
  · simp [buildAux_ok r.aux h.aux_ok, encodeWith_eq]

theorem recLen_eq {n : Nat} {r : Record} (h : WF n r) (bin : Nat) :
    recLen r (encAuxAll r.aux) = (bodyOf bin (encAuxAll r.aux) r).length := by
  rw [bodyOf_length, qualBytes_length h, recLen]

theorem recLen_lt {n : Nat} {r : Record} (h : WF n r) : recLen r (encAuxAll r.aux) < 2147483648 := by
  have := h.size_ok
  rw [recLen, encAuxAll_length _ h.aux_ok]; omega

/-- length-prefix lemma: a frame `size ++ body` in front of any `rest` is split off exactly -/
theorem readRecord_frame (om : Omit) (n : Nat) (body rest : List Byte) (hpos : 0 < body.length)
    (hlt : body.length < 2147483648) :
    readRecord om n (putI32 (body.length : Int) ++ (body ++ rest)) =
      match decodeBody om n body with
      | .error f => .fault f
      | .ok r => .record r rest := by
  have hsz : toI32 (((body.length : Int) % 4294967296).toNat % 4294967296) = (body.length : Int) :=
    toI32_wrap _ (by omega) (by omega)
  have h0 : ((body.length : Int) == 0) = false := by
    simp only [beq_eq_false_iff_ne, ne_eq]; omega
  have h1 : ¬ ((body.length : Int) < 0) := by omega
  have h2 : (body ++ rest).isEmpty = false := by
    cases body with
    | nil => simp at hpos
    | cons x xs => rfl
  have h3 : ¬ ((body ++ rest).length < body.length) := by simp
  simp only [putI32, putU32, List.cons_append, List.nil_append, readRecord, getU32_put, hsz, h0, h1, h2,
    Bool.false_eq_true, ↓reduceIte, Int.toNat_natCast, h3, List.take_left', List.drop_left']
  cases decodeBody om n body <;> rfl

end Hts.Model.Bam
