/-
No-header mode of sam.Reader at record level: the records returned for the lines of expressible records
print the same lines and differ from the canonical records only in the made-up references.  Core only.
-/
import Hts.Lemmas.SamRecord
import Hts.Lemmas.SamStable
import Hts.Lemmas.SamReader
namespace Hts.Model.SamText

/-- what `seenRefs` guarantees of a resolved reference: its place in the list of names -/
theorem resolveSeen_some (seen : List Bytes) (x : Ref) (hnd : seen.Nodup) :
    ∃ seen' i ext, resolveSeen seen (some x) = (seen', some ⟨((i : Nat) : Int), x.name, 0⟩) ∧ seen'.Nodup ∧
      seen'[i]? = some x.name ∧ seen' = seen ++ ext := by
  unfold resolveSeen
  simp only
  cases hf : seen.findIdx? (· = x.name) with
  | some i =>
    refine ⟨seen, i, [], rfl, hnd, ?_, by simp⟩
    have := List.findIdx?_eq_some_iff_getElem.mp hf
    obtain ⟨hi, hp, _⟩ := this
    rw [List.getElem?_eq_getElem hi]
    simpa using hp
  | none =>
    refine ⟨seen ++ [x.name], seen.length, [x.name], rfl, ?_, by simp, rfl⟩
    have hn : x.name ∉ seen := by
      intro hm
      rw [List.findIdx?_eq_none_iff] at hf
      simpa using hf x.name hm
    rw [List.nodup_append]
    exact ⟨hnd, by simp, by intro a ha b hb; simp at hb; subst hb; intro e; exact hn (e ▸ ha)⟩

theorem nodup_index_inj (l : List Bytes) (hnd : l.Nodup) (i j : Nat) (a b : Bytes)
    (hi : l[i]? = some a) (hj : l[j]? = some b) : i = j ↔ a = b := by
  constructor
  · intro e; subst e; rw [hi] at hj; injection hj
  · intro e; subst e
    obtain ⟨hi', hia⟩ := List.getElem?_eq_some_iff.mp hi
    obtain ⟨hj', hjb⟩ := List.getElem?_eq_some_iff.mp hj
    have hp := List.pairwise_iff_getElem.mp (List.nodup_iff_pairwise_ne.mp hnd)
    rcases Nat.lt_trichotomy i j with hlt | heq | hgt
    · exact absurd (hia.trans hjb.symm) (hp i j hi' hj' hlt)
    · exact heq
    · exact absurd (hjb.trans hia.symm) (hp j i hj' hi' hgt)

theorem resolveSeen_none (seen : List Bytes) : resolveSeen seen none = (seen, none) := rfl

/-- resolving the read's and the mate's reference keeps their names and keeps "same reference" -/
theorem resolve_pair (seen : List Bytes) (hnd : seen.Nodup) (ref mate : Option Ref)
    (hinj : ∀ a b, ref = some a → mate = some b → (a = b ↔ a.name = b.name)) :
    ∃ s1 ref' s2 mate', resolveSeen seen ref = (s1, ref') ∧ resolveSeen s1 mate = (s2, mate') ∧ s2.Nodup ∧
      refName ref' = refName ref ∧ refName mate' = refName mate ∧ formatMate ref' mate' = formatMate ref mate := by
  cases ref with
  | none =>
    cases mate with
    | none => exact ⟨seen, none, seen, none, rfl, rfl, hnd, rfl, rfl, rfl⟩
    | some m =>
      obtain ⟨s2, j, _, h2, hn2, _, _⟩ := resolveSeen_some seen m hnd
      exact ⟨seen, none, s2, _, rfl, h2, hn2, rfl, rfl, by simp [formatMate]⟩
  | some x =>
    obtain ⟨s1, i, _, h1, hn1, hi, _⟩ := resolveSeen_some seen x hnd
    cases mate with
    | none => exact ⟨s1, _, s1, none, h1, rfl, hn1, rfl, rfl, rfl⟩
    | some m =>
      obtain ⟨s2, j, ext, h2, hn2, hj, hext⟩ := resolveSeen_some s1 m hn1
      refine ⟨s1, _, s2, _, h1, h2, hn2, rfl, rfl, ?_⟩
      have hi2 : s2[i]? = some x.name := by
        rw [hext]
        obtain ⟨hi', hia⟩ := List.getElem?_eq_some_iff.mp hi
        rw [List.getElem?_append_left hi', hi]
      have hidx := nodup_index_inj s2 hn2 i j x.name m.name hi2 hj
      have hxm := hinj x m rfl rfl
      unfold formatMate
      simp only
      by_cases hname : x.name = m.name
      · have : i = j := hidx.mpr hname
        subst this
        simp [hxm.mpr hname]
      · have hij : i ≠ j := fun e => hname (hidx.mp e)
        have hne : x ≠ m := fun e => hname (hxm.mp e)
        have : (i : Int) ≠ (j : Int) := by omega
        simp [hname, hne, this]

/-- a record without its references -/
def eraseRefs (r : Record) : Record := { r with ref := none, mateRef := none }

/-- no-header mode, record level: for the lines of expressible records (any flag format dec/hex), every
`Read` succeeds; the record returned prints the same line and equals the canonical record except for its
references, which carry the same names -/
theorem noHeaderLoop_records {ft : FloatText} (L : FloatLaws ft) (h : Header) (hh : HeaderOK h) (f : FlagFmt)
    (hf : f = .dec ∨ f = .hex) (rs : List Record) (he : ∀ r ∈ rs, Expressible h r) :
    ∀ seen : List Bytes, seen.Nodup →
    ∃ outs, noHeaderLoop ft (rs.map fun r => joinWith 9 (recordFields ft f r)) seen = outs.map .ok ∧
      listRel (fun r out => recordFields ft f out = recordFields ft f r ∧
        eraseRefs out = eraseRefs (canonRecord L r) ∧ refName out.ref = refName r.ref ∧
        refName out.mateRef = refName r.mateRef) rs outs := by
  induction rs with
  | nil => intro seen _; exact ⟨[], rfl, trivial⟩
  | cons r rs ih =>
    intro seen hnd
    have her := he r List.mem_cons_self
    have hp := parseRecord_format_nil L h hh f hf r her
    obtain ⟨r0, hr0⟩ : ∃ r0, r0 = fakeRefs (canonRecord L r) := ⟨_, rfl⟩
    rw [← hr0] at hp
    have hinj : ∀ a b, r0.ref = some a → r0.mateRef = some b → (a = b ↔ a.name = b.name) := by
      intro a b ha hb
      simp only [hr0, fakeRefs, canonRecord] at ha hb
      cases hx : r.ref with
      | none => rw [hx] at ha; simp at ha
      | some x =>
        cases hm : r.mateRef with
        | none => rw [hm] at hb; simp at hb
        | some m =>
          rw [hx] at ha; rw [hm] at hb
          simp only [Option.map_some, Option.some.injEq] at ha hb
          subst ha; subst hb
          simp [fakeRef]
    obtain ⟨s1, ref', s2, mate', h1, h2, hn2, hrn, hmn, hfm⟩ := resolve_pair seen hnd r0.ref r0.mateRef hinj
    obtain ⟨outs, hloop, hrel⟩ := ih (fun x hx => he x (List.mem_cons_of_mem _ hx)) s2 hn2
    refine ⟨{ r0 with ref := ref', mateRef := mate' } :: outs, ?_, ?_, hrel⟩
    · simp only [List.map_cons, noHeaderLoop, hp, h1, h2, hloop]
    · have hfields : recordFields ft f { r0 with ref := ref', mateRef := mate' } = recordFields ft f r0 := by
        unfold recordFields
        simp only [hrn, hfm]
      refine ⟨?_, by rw [hr0]; rfl, ?_, ?_⟩
      · rw [hfields, hr0, recordFields_fakeRefs h hh f (canonRecord L r) her.2.1 her.2.2.1, recordFields_canon]
      · simp only [hrn, hr0, fakeRefs, canonRecord]; cases r.ref <;> rfl
      · simp only [hmn, hr0, fakeRefs, canonRecord]; cases r.mateRef <;> rfl

end Hts.Model.SamText
