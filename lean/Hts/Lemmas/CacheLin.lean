/-
`lock_linearizable`: an object all of whose operations have the shape

    Lock() / RLock();  body (any number of small steps on the shared state);  Unlock() / RUnlock()

is linearizable with respect to its sequential specification, provided the body run alone implements
the specification and read-locked bodies do not write.  Any number of threads, any interleaving.

Linearizability is stated in its linearization-point form: a history `H` of invocation and response events is
linearizable iff one can insert, for every completed (and possibly some pending) operation, a point between
its invocation and its response such that the operations, taken in the order of their points and with the
results they returned, form a legal sequential run of the specification.  (Ordering by such points respects
the real-time order of non-overlapping operations, which is the Herlihy–Wing definition.)

What is assumed, not proved: the semantics of `sync.RWMutex` is the acquire rule of the transition system
(a writer enters only when nobody is inside, a reader only when no writer is inside), and a thread's
small steps are atomic with respect to each other (Go memory model for lock-protected data).
-/
namespace Hts.Spec.Lin

/-- an object: sequential specification + the small-step body of each operation -/
structure Obj where
  σ : Type
  Op : Type
  Ret : Type
  /-- thread-local state of a body in progress -/
  Loc : Type
  /-- sequential specification (a relation: Random's choices) -/
  spec : σ → Op → Ret → σ → Prop
  /-- the operation takes the lock for reading only -/
  isRead : Op → Bool
  init : Op → Loc
  /-- a small step that is not the last one -/
  more : Op → Loc → σ → Loc → σ → Prop
  /-- the last small step, producing the result -/
  done : Op → Loc → σ → Ret → σ → Prop

variable (O : Obj)

/-- the body run to completion without interference -/
inductive BigStep : O.Op → O.Loc → O.σ → O.Ret → O.σ → Prop
  | last {op l s r s'} : O.done op l s r s' → BigStep op l s r s'
  | next {op l s l1 s1 r s'} : O.more op l s l1 s1 → BigStep op l1 s1 r s' → BigStep op l s r s'

/-- part of a body: from `(l0, s0)` the small steps reach `(l, s)` -/
inductive Partial : O.Op → O.Loc → O.σ → O.Loc → O.σ → Prop
  | refl {op l s} : Partial op l s l s
  | snoc {op l0 s0 l s l' s'} : Partial op l0 s0 l s → O.more op l s l' s' → Partial op l0 s0 l' s'

theorem Partial.bigStep {op : O.Op} {l0 : O.Loc} {s0 : O.σ} {l : O.Loc} {s : O.σ} {r : O.Ret} {s' : O.σ}
    (p : Partial O op l0 s0 l s) (b : BigStep O op l s r s') : BigStep O op l0 s0 r s' := by
  induction p with
  | refl => exact b
  | snoc _ m ih => exact ih (BigStep.next m b)

theorem BigStep.inv {op : O.Op} {l : O.Loc} {s : O.σ} {r : O.Ret} {s' : O.σ} (b : BigStep O op l s r s') :
    O.done op l s r s' ∨ ∃ l1 s1, O.more op l s l1 s1 ∧ BigStep O op l1 s1 r s' := by
  cases b with
  | last d => exact Or.inl d
  | next m b1 => exact Or.inr ⟨_, _, m, b1⟩

structure Laws : Prop where
  /-- the body, run alone from the initial local state, implements the specification -/
  body_implements : ∀ op s r s', BigStep O op (O.init op) s r s' → O.spec s op r s'
  read_more : ∀ op l s l' s', O.isRead op = true → O.more op l s l' s' → s' = s
  read_done : ∀ op l s r s', O.isRead op = true → O.done op l s r s' → s' = s

inductive TSt
  | idle
  | pending (op : O.Op)
  /-- inside the critical section -/
  | running (op : O.Op) (l : O.Loc)
  /-- lock released, response not yet delivered -/
  | finished (op : O.Op) (r : O.Ret)

structure G where
  sh : O.σ
  th : Nat → TSt O

inductive Ev
  | inv (t : Nat) (op : O.Op)
  /-- linearization point (not part of the visible history) -/
  | lin (t : Nat) (op : O.Op) (r : O.Ret)
  | res (t : Nat) (r : O.Ret)

def upd {α : Type} (f : Nat → α) (t : Nat) (x : α) : Nat → α := fun i => if i = t then x else f i

@[simp] theorem upd_same {α : Type} (f : Nat → α) (t : Nat) (x : α) : upd f t x t = x := by simp [upd]
theorem upd_other {α : Type} (f : Nat → α) {t u : Nat} (x : α) (h : u ≠ t) : upd f t x u = f u := by
  simp [upd, h]

/-- the transition system: any thread may move at any time -/
inductive Step : G O → Option (Ev O) → G O → Prop
  | invoke (g : G O) (t : Nat) (op : O.Op) : g.th t = .idle →
      Step g (some (.inv t op)) ⟨g.sh, upd g.th t (.pending op)⟩
  /-- `Lock()` returns: nobody is inside -/
  | acquireW (g : G O) (t : Nat) (op : O.Op) : g.th t = .pending op → O.isRead op = false →
      (∀ u op' l, g.th u ≠ .running op' l) →
      Step g none ⟨g.sh, upd g.th t (.running op (O.init op))⟩
  /-- `RLock()` returns: no writer is inside -/
  | acquireR (g : G O) (t : Nat) (op : O.Op) : g.th t = .pending op → O.isRead op = true →
      (∀ u op' l, g.th u = .running op' l → O.isRead op' = true) →
      Step g none ⟨g.sh, upd g.th t (.running op (O.init op))⟩
  | micro (g : G O) (t : Nat) (op : O.Op) (l l' : O.Loc) (s' : O.σ) : g.th t = .running op l →
      O.more op l g.sh l' s' → Step g none ⟨s', upd g.th t (.running op l')⟩
  /-- last small step and `Unlock()` -/
  | finish (g : G O) (t : Nat) (op : O.Op) (l : O.Loc) (r : O.Ret) (s' : O.σ) : g.th t = .running op l →
      O.done op l g.sh r s' → Step g (some (.lin t op r)) ⟨s', upd g.th t (.finished op r)⟩
  | respond (g : G O) (t : Nat) (op : O.Op) (r : O.Ret) : g.th t = .finished op r →
      Step g (some (.res t r)) ⟨g.sh, upd g.th t .idle⟩

/-- reachable states with the events so far, newest first -/
inductive Reach (s0 : O.σ) : G O → List (Ev O) → Prop
  | init : Reach s0 ⟨s0, fun _ => .idle⟩ []
  | step {g g' : G O} {w : List (Ev O)} {lab : Option (Ev O)} :
      Reach s0 g w → Step O g lab g' → Reach s0 g' (lab.toList ++ w)

/-! ### linearization-point form of linearizability (event lists are newest first) -/

inductive ASt
  | idle
  | invoked (op : O.Op)
  | linearized (op : O.Op) (r : O.Ret)

def astate : List (Ev O) → Nat → ASt O
  | [], _ => .idle
  | .inv t op :: w, u => if u = t then .invoked op else astate w u
  | .lin t op r :: w, u => if u = t then .linearized op r else astate w u
  | .res t _ :: w, u => if u = t then .idle else astate w u

/-- per thread the events cycle invocation, point, response, with matching operation and result -/
def WellPlaced : List (Ev O) → Prop
  | [] => True
  | .inv t _ :: w => WellPlaced w ∧ astate O w t = .idle
  | .lin t op _ :: w => WellPlaced w ∧ astate O w t = .invoked op
  | .res t r :: w => WellPlaced w ∧ ∃ op, astate O w t = .linearized op r

/-- the operations in the order of their points are a run of the specification from `s0` to `s` -/
def LegalTo (s0 : O.σ) : List (Ev O) → O.σ → Prop
  | [], s => s = s0
  | .lin _ op r :: w, s => ∃ s1, LegalTo s0 w s1 ∧ O.spec s1 op r s
  | .inv _ _ :: w, s => LegalTo s0 w s
  | .res _ _ :: w, s => LegalTo s0 w s

/-- the visible history: invocations and responses only -/
def visible : List (Ev O) → List (Ev O)
  | [] => []
  | .lin _ _ _ :: w => visible w
  | e :: w => e :: visible w

def Linearizable (s0 : O.σ) (H : List (Ev O)) : Prop :=
  ∃ w, visible O w = H ∧ WellPlaced O w ∧ ∃ s, LegalTo O s0 w s

/-! ### the invariant -/

def Agree (t : TSt O) (a : ASt O) : Prop :=
  match t with
  | .idle => a = .idle
  | .pending op => a = .invoked op
  | .running op _ => a = .invoked op
  | .finished op r => a = .linearized op r

structure Inv (s0 : O.σ) (g : G O) (w : List (Ev O)) : Prop where
  placed : WellPlaced O w
  agree : ∀ t, Agree O (g.th t) (astate O w t)
  legal : ∃ sl, LegalTo O s0 w sl ∧
    ((∀ u op l, g.th u = .running op l → O.isRead op = true) → g.sh = sl) ∧
    (∀ u op l, g.th u = .running op l → Partial O op (O.init op) sl l g.sh)
  excl : ∀ u op l, g.th u = .running op l → O.isRead op = false →
    ∀ v op' l', g.th v = .running op' l' → v = u

theorem inv_init (s0 : O.σ) : Inv O s0 ⟨s0, fun _ => .idle⟩ [] := by
  refine ⟨trivial, fun t => rfl, ⟨s0, rfl, fun _ => rfl, ?_⟩, ?_⟩
  · intro u op l h; cases h
  · intro u op l h; cases h

theorem inv_step (L : Laws O) {s0 : O.σ} {g g' : G O} {w : List (Ev O)} {lab : Option (Ev O)}
    (inv : Inv O s0 g w) (st : Step O g lab g') : Inv O s0 g' (lab.toList ++ w) := by
  obtain ⟨sl, hleg, hsh, hpart⟩ := inv.legal
  cases st with
  | invoke t op hidle =>
    have ha := inv.agree t
    rw [hidle] at ha
    have hrun : ∀ u op' l, upd g.th t (TSt.pending op) u = .running op' l → g.th u = .running op' l := by
      intro u op' l h
      by_cases hu : u = t
      · subst hu; simp at h
      · rwa [upd_other _ _ hu] at h
    have hrun' : ∀ u op' l, g.th u = .running op' l → upd g.th t (TSt.pending op) u = .running op' l := by
      intro u op' l h
      by_cases hu : u = t
      · subst hu; rw [hidle] at h; cases h
      · rwa [upd_other _ _ hu]
    refine ⟨⟨inv.placed, ha⟩, ?_, ⟨sl, hleg, ?_, ?_⟩, ?_⟩
    · intro u
      by_cases hu : u = t
      · subst hu; simp [Agree, astate]
      · dsimp only; rw [upd_other _ _ hu]; simp only [Option.toList, List.singleton_append, astate, if_neg hu]
        exact inv.agree u
    · intro h; exact hsh (fun u op' l hr => h u op' l (hrun' u op' l hr))
    · intro u op' l h; exact hpart u op' l (hrun u op' l h)
    · intro u op' l h hw v op'' l' hv
      exact inv.excl u op' l (hrun u op' l h) hw v op'' l' (hrun v op'' l' hv)
  | acquireW t op hp hw hnone =>
    have ha := inv.agree t
    rw [hp] at ha
    have hsh' : g.sh = sl := hsh (fun u op' l h => absurd h (hnone u op' l))
    have hrun : ∀ u op' l, upd g.th t (TSt.running op (O.init op)) u = .running op' l →
        u = t ∧ op' = op ∧ l = O.init op := by
      intro u op' l h
      by_cases hu : u = t
      · subst hu; simp at h; exact ⟨rfl, h.1.symm, h.2.symm⟩
      · rw [upd_other _ _ hu] at h; exact absurd h (hnone u op' l)
    refine ⟨inv.placed, ?_, ⟨sl, hleg, ?_, ?_⟩, ?_⟩
    · intro u
      by_cases hu : u = t
      · subst hu; simpa [Agree] using ha
      · dsimp only; rw [upd_other _ _ hu]; exact inv.agree u
    · intro h
      have := h t op (O.init op) (by simp)
      rw [hw] at this; cases this
    · intro u op' l h
      obtain ⟨_, h2, h3⟩ := hrun u op' l h
      subst h2 h3
      simp only [hsh']
      exact Partial.refl
    · intro u op' l h _ v op'' l' hv
      rw [(hrun u op' l h).1, (hrun v op'' l' hv).1]
  | acquireR t op hp hr hreaders =>
    have ha := inv.agree t
    rw [hp] at ha
    have hsh' : g.sh = sl := hsh hreaders
    have hrun : ∀ u op' l, upd g.th t (TSt.running op (O.init op)) u = .running op' l →
        (u = t ∧ op' = op ∧ l = O.init op) ∨ (u ≠ t ∧ g.th u = .running op' l) := by
      intro u op' l h
      by_cases hu : u = t
      · subst hu; simp at h; exact Or.inl ⟨rfl, h.1.symm, h.2.symm⟩
      · rw [upd_other _ _ hu] at h; exact Or.inr ⟨hu, h⟩
    refine ⟨inv.placed, ?_, ⟨sl, hleg, fun _ => hsh', ?_⟩, ?_⟩
    · intro u
      by_cases hu : u = t
      · subst hu; simpa [Agree] using ha
      · dsimp only; rw [upd_other _ _ hu]; exact inv.agree u
    · intro u op' l h
      rcases hrun u op' l h with ⟨_, h2, h3⟩ | ⟨_, h2⟩
      · subst h2 h3; simp only [hsh']; exact Partial.refl
      · exact hpart u op' l h2
    · intro u op' l h hw v op'' l' hv
      rcases hrun u op' l h with ⟨_, h2, _⟩ | ⟨_, h2⟩
      · subst h2; rw [hr] at hw; cases hw
      · have := hreaders u op' l h2; rw [hw] at this; cases this
  | micro t op l l' s' hrun hmore =>
    have ha := inv.agree t
    rw [hrun] at ha
    have hrunning : ∀ u op' l1, upd g.th t (TSt.running op l') u = .running op' l1 →
        (u = t ∧ op' = op ∧ l1 = l') ∨ (u ≠ t ∧ g.th u = .running op' l1) := by
      intro u op' l1 h
      by_cases hu : u = t
      · subst hu; simp at h; exact Or.inl ⟨rfl, h.1.symm, h.2.symm⟩
      · rw [upd_other _ _ hu] at h; exact Or.inr ⟨hu, h⟩
    have hagree : ∀ u, Agree O (upd g.th t (TSt.running op l') u) (astate O w u) := by
      intro u
      by_cases hu : u = t
      · subst hu; simpa [Agree] using ha
      · rw [upd_other _ _ hu]; exact inv.agree u
    cases hrd : O.isRead op with
    | true =>
      have hs : s' = g.sh := L.read_more op l g.sh l' s' hrd hmore
      subst hs
      refine ⟨inv.placed, hagree, ⟨sl, hleg, ?_, ?_⟩, ?_⟩
      · intro h
        apply hsh
        intro u op' l1 hu
        by_cases hut : u = t
        · subst hut; rw [hrun] at hu; cases hu; exact hrd
        · exact h u op' l1 (by dsimp only; rwa [upd_other _ _ hut])
      · intro u op' l1 h
        rcases hrunning u op' l1 h with ⟨_, h2, h3⟩ | ⟨_, h2⟩
        · rw [h2, h3]; exact Partial.snoc (hpart t op l hrun) hmore
        · exact hpart u op' l1 h2
      · intro u op' l1 h hw v op'' l2 hv
        rcases hrunning u op' l1 h with ⟨_, h2, _⟩ | ⟨hne, h2⟩
        · subst h2; rw [hrd] at hw; cases hw
        · rcases hrunning v op'' l2 hv with ⟨h3, _, _⟩ | ⟨_, h3⟩
          · have := inv.excl u op' l1 h2 hw t op l hrun
            rw [h3]; exact this
          · exact inv.excl u op' l1 h2 hw v op'' l2 h3
    | false =>
      have honly : ∀ v op' l1, g.th v = .running op' l1 → v = t := inv.excl t op l hrun hrd
      refine ⟨inv.placed, hagree, ⟨sl, hleg, ?_, ?_⟩, ?_⟩
      · intro h
        have := h t op l' (by simp)
        rw [hrd] at this; cases this
      · intro u op' l1 h
        rcases hrunning u op' l1 h with ⟨_, h2, h3⟩ | ⟨hne, h2⟩
        · rw [h2, h3]; exact Partial.snoc (hpart t op l hrun) hmore
        · exact absurd (honly u op' l1 h2) hne
      · intro u op' l1 h _ v op'' l2 hv
        have hu : u = t := by
          rcases hrunning u op' l1 h with ⟨h1, _, _⟩ | ⟨hne, h2⟩
          · exact h1
          · exact absurd (honly u op' l1 h2) hne
        have hv' : v = t := by
          rcases hrunning v op'' l2 hv with ⟨h1, _, _⟩ | ⟨hne, h2⟩
          · exact h1
          · exact absurd (honly v op'' l2 h2) hne
        rw [hu, hv']
  | finish t op l r s' hrun hdone =>
    have ha := inv.agree t
    rw [hrun] at ha
    have hspec : O.spec sl op r s' :=
      L.body_implements op sl r s' ((hpart t op l hrun).bigStep O (BigStep.last hdone))
    have hrunning : ∀ u op' l1, upd g.th t (TSt.finished op r) u = .running op' l1 →
        u ≠ t ∧ g.th u = .running op' l1 := by
      intro u op' l1 h
      by_cases hu : u = t
      · subst hu; simp at h
      · rw [upd_other _ _ hu] at h; exact ⟨hu, h⟩
    have hplaced : WellPlaced O (Ev.lin t op r :: w) := ⟨inv.placed, ha⟩
    have hagree : ∀ u, Agree O (upd g.th t (TSt.finished op r) u) (astate O (Ev.lin t op r :: w) u) := by
      intro u
      by_cases hu : u = t
      · subst hu; simp [Agree, astate]
      · rw [upd_other _ _ hu]; simp only [astate, if_neg hu]; exact inv.agree u
    have hexcl : ∀ u op' l1, upd g.th t (TSt.finished op r) u = .running op' l1 → O.isRead op' = false →
        ∀ v op'' l2, upd g.th t (TSt.finished op r) v = .running op'' l2 → v = u := by
      intro u op' l1 h hw v op'' l2 hv
      exact inv.excl u op' l1 (hrunning u op' l1 h).2 hw v op'' l2 (hrunning v op'' l2 hv).2
    cases hrd : O.isRead op with
    | true =>
      have hs : s' = g.sh := L.read_done op l g.sh r s' hrd hdone
      have hall : ∀ u op' l1, g.th u = .running op' l1 → O.isRead op' = true := by
        intro u op' l1 hu
        cases hr' : O.isRead op' with
        | true => rfl
        | false =>
          have := inv.excl u op' l1 hu hr' t op l hrun
          subst this
          rw [hrun] at hu; cases hu; rw [hrd] at hr'; cases hr'
      have hsl : g.sh = sl := hsh hall
      refine ⟨hplaced, hagree, ⟨s', ⟨sl, hleg, hspec⟩, fun _ => rfl, ?_⟩, hexcl⟩
      intro u op' l1 h
      have := hpart u op' l1 (hrunning u op' l1 h).2
      simp only
      rw [hs, hsl]
      rw [hsl] at this
      exact this
    | false =>
      have honly : ∀ v op' l1, g.th v = .running op' l1 → v = t := inv.excl t op l hrun hrd
      refine ⟨hplaced, hagree, ⟨s', ⟨sl, hleg, hspec⟩, fun _ => rfl, ?_⟩, hexcl⟩
      intro u op' l1 h
      obtain ⟨hne, h2⟩ := hrunning u op' l1 h
      exact absurd (honly u op' l1 h2) hne
  | respond t op r hfin =>
    have ha := inv.agree t
    rw [hfin] at ha
    have hrun : ∀ u op' l, upd g.th t TSt.idle u = .running op' l → g.th u = .running op' l := by
      intro u op' l h
      by_cases hu : u = t
      · subst hu; simp at h
      · rwa [upd_other _ _ hu] at h
    have hrun' : ∀ u op' l, g.th u = .running op' l → upd g.th t TSt.idle u = .running op' l := by
      intro u op' l h
      by_cases hu : u = t
      · subst hu; rw [hfin] at h; cases h
      · rwa [upd_other _ _ hu]
    refine ⟨⟨inv.placed, op, ha⟩, ?_, ⟨sl, hleg, ?_, ?_⟩, ?_⟩
    · intro u
      by_cases hu : u = t
      · subst hu; simp [Agree, astate]
      · dsimp only; rw [upd_other _ _ hu]; simp only [Option.toList, List.singleton_append, astate, if_neg hu]
        exact inv.agree u
    · intro h; exact hsh (fun u op' l hr => h u op' l (hrun' u op' l hr))
    · intro u op' l h; exact hpart u op' l (hrun u op' l h)
    · intro u op' l h hw v op'' l' hv
      exact inv.excl u op' l (hrun u op' l h) hw v op'' l' (hrun v op'' l' hv)

theorem reach_inv (L : Laws O) {s0 : O.σ} {g : G O} {w : List (Ev O)} (r : Reach O s0 g w) :
    Inv O s0 g w := by
  induction r with
  | init => exact inv_init O s0
  | step _ st ih => exact inv_step O L ih st

/-- **every history of the lock-bracketed object is linearizable** (any number of threads, any schedule,
including histories with pending operations) -/
theorem lock_linearizable (L : Laws O) (s0 : O.σ) {g : G O} {w : List (Ev O)} (r : Reach O s0 g w) :
    Linearizable O s0 (visible O w) := by
  have inv := reach_inv O L r
  obtain ⟨sl, hleg, _⟩ := inv.legal
  exact ⟨w, rfl, inv.placed, sl, hleg⟩

end Hts.Spec.Lin
