/-
M-8: C01's member bytes under C10's byte-level reader model (Hts.Model.BgzfBytes, the model that `c10.trunc` /
`c10.subst` drive against bgzf.Reader on arbitrary bytes).  `readAll_closed`: on a closed stream the writer produced
(any header gzip.Reader accepts), `BgzfBytes.readAll` delivers exactly the written blocks' bytes and ends with the
clean io.EOF — for every variant (`Quirks`) of the reader.
-/
import Hts.Lemmas.BgzfStream
import Hts.Lemmas.BgzfBytes
namespace Hts.Model.Member
open Hts.Model

/-- C01's codec as the codec of the byte-level reader model of C10 -/
def toBytesCodec (c : CodecFns) : BgzfBytes.Codec :=
  { inflate := fun b => match c.inflate b with
      | some (p, u) => .ok p u
      | none => .fail 0 0
    crc32 := c.crc32 }

/-- length of the gzip header of a member under `h` -/
def hdrLen (h : Header) : Nat := 18 + h.extra.length + (zbytes h.name).length + (zbytes h.comment).length

theorem readString_append (i : Nat) (bs t : List Byte) (hz : ∀ b ∈ bs, b ≠ 0) (hl : i + bs.length < 512) :
    BgzfBytes.readString i (bs ++ 0 :: t) = .ok (i + bs.length + 1) := by
  induction bs generalizing i with
  | nil => simp [BgzfBytes.readString]; omega
  | cons b bs ih =>
    have hb : b ≠ 0 := hz b (by simp)
    have hi : ¬ i ≥ 512 := by simp at hl; omega
    simp only [List.cons_append, BgzfBytes.readString, hi, if_false, hb]
    rw [ih (i + 1) (fun x hx => hz x (by simp [hx])) (by simp at hl ⊢; omega)]
    simp; omega

theorem drop8 (n : Nat) (x0 x1 a b c d e f : Byte) (ex t : List Byte) (hn : n = ex.length) :
    (x0 :: x1 :: a :: b :: c :: d :: e :: f :: (ex ++ t)).drop (2 + (6 + n)) = t := by
  subst hn
  have : 2 + (6 + ex.length) = (x0 :: x1 :: a :: b :: c :: d :: e :: f :: ex).length := by simp; omega
  rw [this, show x0 :: x1 :: a :: b :: c :: d :: e :: f :: (ex ++ t) = (x0 :: x1 :: a :: b :: c :: d :: e :: f :: ex) ++ t by simp,
    List.drop_left]

theorem readExtra_cons6 (flg x0 x1 a b c d e f : Byte) (ex t : List Byte) (hf : BgzfBytes.flagSet flg 4 = true)
    (hx : x0.toNat + 256 * x1.toNat = 6 + ex.length) :
    BgzfBytes.readExtra flg (x0 :: x1 :: a :: b :: c :: d :: e :: f :: (ex ++ t)) =
      .ok (2 + (6 + ex.length), some (a :: b :: c :: d :: e :: f :: ex)) := by
  have hl : ¬ (a :: b :: c :: d :: e :: f :: (ex ++ t)).length < 6 + ex.length := by simp; omega
  have ht : (a :: b :: c :: d :: e :: f :: (ex ++ t)).take (6 + ex.length) = a :: b :: c :: d :: e :: f :: ex := by
    have : 6 + ex.length = (a :: b :: c :: d :: e :: f :: ex).length := by simp; omega
    rw [this, show a :: b :: c :: d :: e :: f :: (ex ++ t) = (a :: b :: c :: d :: e :: f :: ex) ++ t by simp, List.take_left]
  simp only [BgzfBytes.readExtra, hf, if_true, hx, hl, if_false, ht]

theorem readOptString_true (bs t : List Byte) (hz : ∀ b ∈ bs, b ≠ 0) (hl : bs.length < 512) :
    BgzfBytes.readOptString true (bs ++ 0 :: t) = .ok (bs.length + 1, bs) := by
  have := readString_append 0 bs t hz (by omega)
  simp only [BgzfBytes.readOptString, if_true, this]
  simp

theorem readOptString_false (s : List Byte) : BgzfBytes.readOptString false s = .ok (0, []) := rfl

def optz (present : Bool) (bs : List Byte) : List Byte := if present then bs ++ [0] else []

theorem readOptString_optz (pn : Bool) (nm t : List Byte) (hz : ∀ b ∈ nm, b ≠ 0) (hl : nm.length < 512) :
    BgzfBytes.readOptString pn (optz pn nm ++ t) = .ok ((optz pn nm).length, if pn then nm else []) := by
  cases pn with
  | false => simp [optz, readOptString_false]
  | true =>
    have := readOptString_true nm t hz hl
    simp only [optz, if_true, List.append_assoc, List.singleton_append, this, List.length_append, List.length_cons,
      List.length_nil]

theorem readHeader_layout (crc : List Byte → Nat) (flg m0 m1 m2 m3 xfl os x0 x1 a b c d e f : Byte)
    (ex nm cm tail : List Byte) (pn pc : Bool)
    (h4 : BgzfBytes.flagSet flg 4 = true) (h8 : BgzfBytes.flagSet flg 8 = pn) (h16 : BgzfBytes.flagSet flg 16 = pc)
    (h2 : BgzfBytes.flagSet flg 2 = false) (hx : x0.toNat + 256 * x1.toNat = 6 + ex.length)
    (hnz : ∀ b ∈ nm, b ≠ 0) (hnl : nm.length < 512) (hcz : ∀ b ∈ cm, b ≠ 0) (hcl : cm.length < 512) :
    BgzfBytes.readHeader crc (0x1f :: 0x8b :: 8 :: flg :: m0 :: m1 :: m2 :: m3 :: xfl :: os :: x0 :: x1 ::
        a :: b :: c :: d :: e :: f :: (ex ++ (optz pn nm ++ (optz pc cm ++ tail)))) =
      .ok (⟨flg, BgzfBytes.leNat [m0, m1, m2, m3], xfl, os, some (a :: b :: c :: d :: e :: f :: ex),
            if pn then nm else [], if pc then cm else []⟩,
           18 + ex.length + (optz pn nm).length + (optz pc cm).length) := by
  have hid : ¬ ((0x1f : Byte) ≠ 0x1f ∨ (0x8b : Byte) ≠ 0x8b ∨ (8 : Byte) ≠ 8) := by decide
  simp only [BgzfBytes.readHeader, hid, if_false]
  rw [readExtra_cons6 _ _ _ _ _ _ _ _ _ _ _ h4 hx]
  simp only [h8, h16]
  rw [drop8 _ _ _ _ _ _ _ _ _ _ _ rfl, readOptString_optz pn nm _ hnz hnl]
  simp only []
  rw [← List.drop_drop, drop8 _ _ _ _ _ _ _ _ _ _ _ rfl, List.drop_left, readOptString_optz pc cm _ hcz hcl]
  simp only [BgzfBytes.readHdrCrc, h2]
  simp
  omega

theorem flagSet_vals :
    BgzfBytes.flagSet 4 4 = true ∧ BgzfBytes.flagSet 4 8 = false ∧ BgzfBytes.flagSet 4 16 = false ∧ BgzfBytes.flagSet 4 2 = false ∧
    BgzfBytes.flagSet 12 4 = true ∧ BgzfBytes.flagSet 12 8 = true ∧ BgzfBytes.flagSet 12 16 = false ∧ BgzfBytes.flagSet 12 2 = false ∧
    BgzfBytes.flagSet 20 4 = true ∧ BgzfBytes.flagSet 20 8 = false ∧ BgzfBytes.flagSet 20 16 = true ∧ BgzfBytes.flagSet 20 2 = false ∧
    BgzfBytes.flagSet 28 4 = true ∧ BgzfBytes.flagSet 28 8 = true ∧ BgzfBytes.flagSet 28 16 = true ∧ BgzfBytes.flagSet 28 2 = false := by
  decide

theorem zbytes_optz (s : List Nat) : zbytes s = optz (decide (s ≠ [])) (s.map UInt8.ofNat) := by
  by_cases h : s = [] <;> simp [zbytes, optz, h]

theorem hdrLen_eq (h : Header) : hdrLen h = 18 + h.extra.length + (optz (decide (h.name ≠ [])) (h.name.map UInt8.ofNat)).length +
    (optz (decide (h.comment ≠ [])) (h.comment.map UInt8.ofNat)).length := by
  simp [hdrLen, zbytes_optz]

theorem readHeader_bytes (c : CodecFns) (h : Header) (p : List Byte) (bsz : Nat) (rest : List Byte)
    (hk : HdrOK h) (hr : ReaderOK h) :
    ∃ hd, BgzfBytes.readHeader c.crc32 (memberBytes c h p bsz ++ rest) = .ok (hd, hdrLen h) ∧
      hd.extra = some (66 :: 67 :: 2 :: 0 :: UInt8.ofNat (bsz % 256) :: UInt8.ofNat (bsz / 256 % 256) :: h.extra) := by
  have hx : 6 + h.extra.length < 65536 := by have := hk.extra_le; omega
  have hxe : (UInt8.ofNat ((6 + h.extra.length) % 256)).toNat + 256 * (UInt8.ofNat ((6 + h.extra.length) / 256 % 256)).toNat
      = 6 + h.extra.length := u16_le16 _ hx
  have hname : ∀ b ∈ h.name.map UInt8.ofNat, b ≠ 0 := by
    intro b hb; simp at hb; obtain ⟨v, hv, rfl⟩ := hb; exact ofNat_ne_zero v (hk.name_ok v hv)
  have hcomm : ∀ b ∈ h.comment.map UInt8.ofNat, b ≠ 0 := by
    intro b hb; simp at hb; obtain ⟨v, hv, rfl⟩ := hb; exact ofNat_ne_zero v (hk.comment_ok v hv)
  have hnl : (h.name.map UInt8.ofNat).length < 512 := by have := hr.1; simp; omega
  have hcl : (h.comment.map UInt8.ofNat).length < 512 := by have := hr.2; simp; omega
  have hflags : BgzfBytes.flagSet (flgOf h) 4 = true ∧ BgzfBytes.flagSet (flgOf h) 8 = decide (h.name ≠ []) ∧
      BgzfBytes.flagSet (flgOf h) 16 = decide (h.comment ≠ []) ∧ BgzfBytes.flagSet (flgOf h) 2 = false := by
    by_cases hn : h.name = [] <;> by_cases hc : h.comment = [] <;> simp [flgOf, hn, hc] <;> decide
  obtain ⟨g4, g8, g16, g2⟩ := hflags
  have hl := readHeader_layout c.crc32 (flgOf h) (UInt8.ofNat (h.mtime % 2 ^ 32 % 256)) (UInt8.ofNat (h.mtime % 2 ^ 32 / 256 % 256))
    (UInt8.ofNat (h.mtime % 2 ^ 32 / 65536 % 256)) (UInt8.ofNat (h.mtime % 2 ^ 32 / 16777216 % 256)) c.xfl h.os _ _
    66 67 2 0 (UInt8.ofNat (bsz % 256)) (UInt8.ofNat (bsz / 256 % 256)) h.extra (h.name.map UInt8.ofNat) (h.comment.map UInt8.ofNat)
    (c.deflate p ++ (le32 (c.crc32 p) ++ (le32 (p.length % 2 ^ 32) ++ rest))) _ _ g4 g8 g16 g2 hxe hname hnl hcomm hcl
  have hm : memberBytes c h p bsz ++ rest = _ :=
    (by simp only [memberBytes, afterExtra, zbytes_optz, List.cons_append, List.append_assoc] :
      memberBytes c h p bsz ++ rest = 0x1f :: 0x8b :: 8 :: flgOf h :: UInt8.ofNat (h.mtime % 2 ^ 32 % 256) ::
        UInt8.ofNat (h.mtime % 2 ^ 32 / 256 % 256) :: UInt8.ofNat (h.mtime % 2 ^ 32 / 65536 % 256) ::
        UInt8.ofNat (h.mtime % 2 ^ 32 / 16777216 % 256) :: c.xfl :: h.os ::
        UInt8.ofNat ((6 + h.extra.length) % 256) :: UInt8.ofNat ((6 + h.extra.length) / 256 % 256) ::
        66 :: 67 :: 2 :: 0 :: UInt8.ofNat (bsz % 256) :: UInt8.ofNat (bsz / 256 % 256) ::
        (h.extra ++ (optz (decide (h.name ≠ [])) (h.name.map UInt8.ofNat) ++
          (optz (decide (h.comment ≠ [])) (h.comment.map UInt8.ofNat) ++
            (c.deflate p ++ (le32 (c.crc32 p) ++ (le32 (p.length % 2 ^ 32) ++ rest)))))))
  rw [hm, hl, hdrLen_eq]
  exact ⟨_, rfl, rfl⟩

/-- what follows the gzip header in a member: DEFLATE stream and trailer -/
theorem member_split (c : CodecFns) (h : Header) (p : List Byte) (bsz : Nat) (rest : List Byte) :
    ∃ hb, hb.length = hdrLen h ∧
      memberBytes c h p bsz ++ rest = hb ++ ((c.deflate p ++ (le32 (c.crc32 p) ++ le32 (p.length % 2 ^ 32))) ++ rest) := by
  refine ⟨(memberBytes c h p bsz).take 18 ++ (h.extra ++ (zbytes h.name ++ zbytes h.comment)), ?_, ?_⟩
  · simp [memberBytes, hdrLen]; omega
  · simp [memberBytes, afterExtra]


theorem expectedMemberSize_bytes (bsz : Nat) (hb : bsz < 65536) (ex : List Byte) :
    BgzfBytes.expectedMemberSize (some (66 :: 67 :: 2 :: 0 :: UInt8.ofNat (bsz % 256) :: UInt8.ofNat (bsz / 256 % 256) :: ex))
      = some (bsz + 1) := by
  have := u16_le16 bsz hb
  simp only [u16] at this
  simp [BgzfBytes.expectedMemberSize, BgzfBytes.findSub, BgzfBytes.bgzfExtraPrefix, List.isPrefixOf]
  omega

theorem leNat_le32 (n : Nat) (h : n < 2 ^ 32) : BgzfBytes.leNat (le32 n) = n := by
  simp [le32, BgzfBytes.leNat]; omega

/-- C10's byte-level reader decodes a member the writer produced to its payload and is then positioned at the
next member (every variant of the reader). -/
theorem readBlock_bytes (q : BgzfBytes.Quirks) (c : Codec) (h : Header) (p rest : List Byte)
    (hk : HdrOK h) (hr : ReaderOK h) (hlen : memberLen c.toCodecFns h p ≤ BgzfWriter.MaxBlockSize)
    (hp : p.length ≤ BgzfWriter.MaxBlockSize) :
    BgzfBytes.readBlock q (toBytesCodec c.toCodecFns) (mb c.toCodecFns h p ++ rest) = .ok (p, rest) := by
  have h18 : 18 ≤ memberLen c.toCodecFns h p := by simp [memberLen]; omega
  have hb : memberLen c.toCodecFns h p - 1 < 65536 := by simp [BgzfWriter.MaxBlockSize] at hlen; omega
  obtain ⟨hd, hrh, hex⟩ := readHeader_bytes c.toCodecFns h p (memberLen c.toCodecFns h p - 1) rest hk hr
  obtain ⟨hbytes, hbl, hsplit⟩ := member_split c.toCodecFns h p (memberLen c.toCodecFns h p - 1) rest
  have hml : memberLen c.toCodecFns h p = hdrLen h + ((c.deflate p).length + 8) := by simp [memberLen, hdrLen]; omega
  have hbody : (c.deflate p ++ (le32 (c.crc32 p) ++ le32 (p.length % 2 ^ 32))).length = (c.deflate p).length + 8 := by
    simp [le32_length]
  have hcrc := c.crc32_lt p
  have hisz : p.length % 2 ^ 32 < 2 ^ 32 := Nat.mod_lt _ (by decide)
  have hdrop : (mb c.toCodecFns h p ++ rest).drop (hdrLen h) =
      (c.deflate p ++ (le32 (c.crc32 p) ++ le32 (p.length % 2 ^ 32))) ++ rest := by
    simp only [mb]; rw [hsplit, ← hbl, List.drop_left]
  have hne1 : ¬ memberLen c.toCodecFns h p - 1 + 1 = hdrLen h := by omega
  have hne2 : ¬ memberLen c.toCodecFns h p - 1 + 1 < hdrLen h := by omega
  have hneed : memberLen c.toCodecFns h p - 1 + 1 - hdrLen h =
      (c.deflate p ++ (le32 (c.crc32 p) ++ le32 (p.length % 2 ^ 32))).length := by rw [hbody]; omega
  have hrm : BgzfBytes.readMember q (toBytesCodec c.toCodecFns) (mb c.toCodecFns h p ++ rest) =
      .ok ⟨hd, c.deflate p ++ (le32 (c.crc32 p) ++ le32 (p.length % 2 ^ 32)), rest⟩ := by
    have hrh' : BgzfBytes.readHeader (toBytesCodec c.toCodecFns).crc32 (mb c.toCodecFns h p ++ rest) = .ok (hd, hdrLen h) := hrh
    simp only [BgzfBytes.readMember, hrh', hex, expectedMemberSize_bytes _ hb, hne1, hne2, if_false, hdrop, hneed]
    generalize c.deflate p ++ (le32 (c.crc32 p) ++ le32 (p.length % 2 ^ 32)) = B
    rw [if_pos (by simp), List.take_left, List.drop_left]
  have hgz : BgzfBytes.gzBody (toBytesCodec c.toCodecFns) (c.deflate p ++ (le32 (c.crc32 p) ++ le32 (p.length % 2 ^ 32))) =
      .ok (p, !p.isEmpty) := by
    have hinf : (toBytesCodec c.toCodecFns).inflate (c.deflate p ++ (le32 (c.crc32 p) ++ le32 (p.length % 2 ^ 32))) =
        .ok p (c.deflate p).length := by
      simp [toBytesCodec, c.inflate_deflate]
    have t4 : (le32 (c.crc32 p) ++ le32 (p.length % 2 ^ 32)).take 4 = le32 (c.crc32 p) := List.take_left' (le32_length _)
    have d4 : (le32 (c.crc32 p) ++ le32 (p.length % 2 ^ 32)).drop 4 = le32 (p.length % 2 ^ 32) := List.drop_left' (le32_length _)
    have t4' : (le32 (p.length % 2 ^ 32)).take 4 = le32 (p.length % 2 ^ 32) := rfl
    have d8 : (le32 (c.crc32 p) ++ le32 (p.length % 2 ^ 32)).drop 8 = [] := rfl
    have l8 : ¬ (le32 (c.crc32 p) ++ le32 (p.length % 2 ^ 32)).length < 8 := by simp [le32_length]
    rw [BgzfBytes.gzBody, hinf]
    simp only [List.drop_left, l8, t4, d4, t4', d8, leNat_le32 _ hcrc, leNat_le32 _ hisz, dite_false, BgzfBytes.readHeader]
    simp [toBytesCodec]
  have hp' : p.length ≤ BgzfBytes.MaxBlockSize := hp
  simp only [BgzfBytes.readBlock, hrm, hgz, BgzfBytes.readToEOF, hp', if_true]


/-- the EOF marker as a member of C10's lemma library -/
def markerM : Hts.Lemmas.BgzfBytes.Member :=
  { header := Hts.Lemmas.BgzfBytes.canonHeader 0 0 0 0 0 255 28, cdata := [3, 0], crc := [0, 0, 0, 0], isize := [0, 0, 0, 0],
    payload := [] }

theorem markerM_bytes : markerM.bytes = magicBlock := by decide

theorem markerM_wf (c : Codec) : markerM.WellFramed (toBytesCodec c.toCodecFns) :=
  { hdrOk := Hts.Lemmas.BgzfBytes.canonHeader_ok _ 0 0 0 0 0 255 (by decide) (by decide),
    crcLen := rfl, isizeLen := rfl,
    inflates := by simp [toBytesCodec, markerM, Hts.Lemmas.BgzfBytes.Member.body, c.inflate_marker],
    crcOk := by simp [toBytesCodec, markerM, BgzfBytes.leNat, c.crc32_nil],
    isizeOk := by simp [markerM, BgzfBytes.leNat],
    fits := by simp [markerM] }

theorem readBlock_marker (q : BgzfBytes.Quirks) (c : Codec) (rest : List Byte) :
    BgzfBytes.readBlock q (toBytesCodec c.toCodecFns) (magicBlock ++ rest) = .ok ([], rest) := by
  rw [← markerM_bytes]
  exact Hts.Lemmas.BgzfBytes.readBlock_member q _ (markerM_wf c) rest

open Hts.Lemmas.BgzfBytes in
/-- C10's byte-level reader on a closed stream the writer produced: all the data, then the clean io.EOF. -/
theorem readAll_closed (q : BgzfBytes.Quirks) (c : Codec) (h : Header) (hr : ReaderOK h) (ws : List (List Byte))
    (hws : ∀ p ∈ ws, Fits c.toCodecFns h p ∧ p.length ≤ BgzfWriter.MaxBlockSize) :
    BgzfBytes.readAll q (toBytesCodec c.toCodecFns) ((ws.map (mb c.toCodecFns h)).flatten ++ magicBlock) =
      (ws.flatten, .eof) := by
  induction ws with
  | nil =>
    have hm := readBlock_marker q c []
    simp only [List.append_nil] at hm
    simp only [List.map_nil, List.flatten_nil, List.nil_append]
    rw [BgzfBytes.readAll, hm]
    simp [readAll_nil, magicBlock]
  | cons p ps ih =>
    have hp := hws p (by simp)
    have hrb := readBlock_bytes q c h p ((ps.map (mb c.toCodecFns h)).flatten ++ magicBlock) hp.1.1 hr hp.1.2 hp.2
    have hl := mb_length c.toCodecFns h p
    simp only [List.map_cons, List.flatten_cons, List.append_assoc]
    rw [BgzfBytes.readAll, hrb]
    simp only [List.length_append]
    rw [dif_pos (by omega), ih (fun x hx => hws x (by simp [hx]))]

/-! ### the writer's header layout is a `HeaderOk` header of C10's lemma library (any Name/Comment/Extra) -/

/-- the gzip header bgzf.Writer writes under header settings `h`, with `bsz` in the BSIZE field -/
def writerHeader (c : CodecFns) (h : Header) (bsz : Nat) : List Byte :=
  0x1f :: 0x8b :: 8 :: flgOf h ::
  UInt8.ofNat (h.mtime % 2 ^ 32 % 256) :: UInt8.ofNat (h.mtime % 2 ^ 32 / 256 % 256) ::
  UInt8.ofNat (h.mtime % 2 ^ 32 / 65536 % 256) :: UInt8.ofNat (h.mtime % 2 ^ 32 / 16777216 % 256) ::
  c.xfl :: h.os ::
  UInt8.ofNat ((6 + h.extra.length) % 256) :: UInt8.ofNat ((6 + h.extra.length) / 256 % 256) ::
  66 :: 67 :: 2 :: 0 :: UInt8.ofNat (bsz % 256) :: UInt8.ofNat (bsz / 256 % 256) ::
  (h.extra ++ (optz (decide (h.name ≠ [])) (h.name.map UInt8.ofNat) ++
    optz (decide (h.comment ≠ [])) (h.comment.map UInt8.ofNat)))

theorem readString_short (i : Nat) (bs : List Byte) (hz : ∀ b ∈ bs, b ≠ 0) (hl : i + bs.length < 512) :
    BgzfBytes.readString i bs = .error .unexpectedEOF := by
  induction bs generalizing i with
  | nil =>
    have : ¬ i ≥ 512 := by simp at hl; omega
    simp [BgzfBytes.readString, this]
  | cons b bs ih =>
    have hb : b ≠ 0 := hz b (by simp)
    have hi : ¬ i ≥ 512 := by simp at hl; omega
    simp only [BgzfBytes.readString, hi, if_false, hb]
    exact ih (i + 1) (fun x hx => hz x (by simp [hx])) (by simp at hl ⊢; omega)

/-- a cut inside an optional NUL-terminated field is a short read -/
theorem readOptString_cut (pn : Bool) (nm : List Byte) (hz : ∀ b ∈ nm, b ≠ 0) (hl : nm.length < 512) (i : Nat)
    (hi : i < (optz pn nm).length) :
    BgzfBytes.readOptString pn ((optz pn nm).take i) = .error .unexpectedEOF := by
  cases pn with
  | false => simp [optz] at hi
  | true =>
    simp only [optz, if_true, List.length_append, List.length_cons, List.length_nil] at hi
    have ht : (optz true nm).take i = nm.take i := by
      simp only [optz, if_true]
      rw [List.take_append_of_le_length (by omega)]
    rw [ht]
    have := readString_short 0 (nm.take i) (fun b hb => hz b (List.mem_of_mem_take hb)) (by simp; omega)
    simp only [BgzfBytes.readOptString, if_true, this]

theorem take_cons6 (i2 : Nat) (a b c d e f : Byte) (ex T : List Byte) :
    (a :: b :: c :: d :: e :: f :: (ex ++ T)).take (6 + ex.length + i2) = a :: b :: c :: d :: e :: f :: (ex ++ T.take i2) := by
  have : 6 + ex.length + i2 = (a :: b :: c :: d :: e :: f :: ex).length + i2 := by simp; omega
  rw [this, show a :: b :: c :: d :: e :: f :: (ex ++ T) = (a :: b :: c :: d :: e :: f :: ex) ++ T by simp,
    List.take_length_add_append]
  simp

theorem readExtra_short (flg x0 x1 : Byte) (r : List Byte) (hf : BgzfBytes.flagSet flg 4 = true)
    (hl : r.length < x0.toNat + 256 * x1.toNat) :
    BgzfBytes.readExtra flg (x0 :: x1 :: r) = .error .unexpectedEOF := by
  simp only [BgzfBytes.readExtra, hf, if_true, hl]

theorem readHeader_layout_cut (crc : List Byte → Nat) (flg m0 m1 m2 m3 xfl os x0 x1 a b c d e f : Byte)
    (ex nm cm : List Byte) (pn pc : Bool)
    (h4 : BgzfBytes.flagSet flg 4 = true) (h8 : BgzfBytes.flagSet flg 8 = pn) (h16 : BgzfBytes.flagSet flg 16 = pc)
    (hx : x0.toNat + 256 * x1.toNat = 6 + ex.length)
    (hnz : ∀ b ∈ nm, b ≠ 0) (hnl : nm.length < 512) (hcz : ∀ b ∈ cm, b ≠ 0) (hcl : cm.length < 512)
    (k : Nat) (hk : k < 18 + ex.length + (optz pn nm).length + (optz pc cm).length) :
    BgzfBytes.readHeader crc ((0x1f :: 0x8b :: 8 :: flg :: m0 :: m1 :: m2 :: m3 :: xfl :: os :: x0 :: x1 ::
        a :: b :: c :: d :: e :: f :: (ex ++ (optz pn nm ++ optz pc cm))).take k) =
      .error (if k = 0 then .eof else .unexpectedEOF) := by
  have hid : ¬ ((0x1f : Byte) ≠ 0x1f ∨ (0x8b : Byte) ≠ 0x8b ∨ (8 : Byte) ≠ 8) := by decide
  by_cases hk10 : k < 10
  · have : k = 0 ∨ k = 1 ∨ k = 2 ∨ k = 3 ∨ k = 4 ∨ k = 5 ∨ k = 6 ∨ k = 7 ∨ k = 8 ∨ k = 9 := by omega
    rcases this with rfl | rfl | rfl | rfl | rfl | rfl | rfl | rfl | rfl | rfl <;> simp [BgzfBytes.readHeader]
  · obtain ⟨j, rfl⟩ : ∃ j, k = j + 10 := ⟨k - 10, by omega⟩
    have hk0 : ¬ j + 10 = 0 := by omega
    simp only [List.take_succ_cons, hk0, if_false, BgzfBytes.readHeader, hid]
    by_cases hj2 : j < 2
    · have : j = 0 ∨ j = 1 := by omega
      rcases this with rfl | rfl <;> simp [BgzfBytes.readExtra, h4]
    · obtain ⟨i, rfl⟩ : ∃ i, j = i + 2 := ⟨j - 2, by omega⟩
      simp only [List.take_succ_cons]
      by_cases hi : i < 6 + ex.length
      · rw [readExtra_short _ _ _ _ h4 (by rw [hx, List.length_take]; omega)]
      · obtain ⟨i2, rfl⟩ : ∃ i2, i = 6 + ex.length + i2 := ⟨i - (6 + ex.length), by omega⟩
        rw [take_cons6, readExtra_cons6 _ _ _ _ _ _ _ _ _ _ _ h4 hx]
        simp only [h8, h16]
        rw [drop8 _ _ _ _ _ _ _ _ _ _ _ rfl]
        by_cases hn : i2 < (optz pn nm).length
        · rw [List.take_append_of_le_length (by omega), readOptString_cut pn nm hnz hnl i2 hn]
        · obtain ⟨i3, rfl⟩ : ∃ i3, i2 = (optz pn nm).length + i3 := ⟨i2 - (optz pn nm).length, by omega⟩
          rw [List.take_length_add_append, readOptString_optz pn nm _ hnz hnl]
          simp only []
          rw [← List.drop_drop, drop8 _ _ _ _ _ _ _ _ _ _ _ rfl, List.drop_left,
            readOptString_cut pc cm hcz hcl i3 (by omega)]


theorem writerHeader_length (c : CodecFns) (h : Header) (bsz : Nat) : (writerHeader c h bsz).length = hdrLen h := by
  rw [hdrLen_eq]; simp [writerHeader]; omega

theorem memberBytes_eq (c : CodecFns) (h : Header) (p : List Byte) (bsz : Nat) :
    memberBytes c h p bsz = writerHeader c h bsz ++ (c.deflate p ++ (le32 (c.crc32 p) ++ le32 (p.length % 2 ^ 32))) := by
  simp only [memberBytes, afterExtra, zbytes_optz, writerHeader, List.cons_append, List.append_assoc]

/-- **The header bgzf.Writer writes — with any Name, Comment, user Extra, ModTime, OS that gzip.Writer and
gzip.Reader accept — is a `HeaderOk` header of C10's lemma library**: `readHeader` reads it completely whatever
follows, `expectedMemberSize` announces `bsz + 1`, and every proper prefix is a short read (the empty one the clean
io.EOF). -/
theorem writerHeader_ok (crc : List Byte → Nat) (c : CodecFns) (h : Header) (hk : HdrOK h) (hr : ReaderOK h) (bsz : Nat)
    (hb : bsz < 65536) : Hts.Lemmas.BgzfBytes.HeaderOk crc (writerHeader c h bsz) (bsz + 1) := by
  have hx : 6 + h.extra.length < 65536 := by have := hk.extra_le; omega
  have hxe : (UInt8.ofNat ((6 + h.extra.length) % 256)).toNat + 256 * (UInt8.ofNat ((6 + h.extra.length) / 256 % 256)).toNat
      = 6 + h.extra.length := u16_le16 _ hx
  have hname : ∀ b ∈ h.name.map UInt8.ofNat, b ≠ 0 := by
    intro b hb; simp at hb; obtain ⟨v, hv, rfl⟩ := hb; exact ofNat_ne_zero v (hk.name_ok v hv)
  have hcomm : ∀ b ∈ h.comment.map UInt8.ofNat, b ≠ 0 := by
    intro b hb; simp at hb; obtain ⟨v, hv, rfl⟩ := hb; exact ofNat_ne_zero v (hk.comment_ok v hv)
  have hnl : (h.name.map UInt8.ofNat).length < 512 := by have := hr.1; simp; omega
  have hcl : (h.comment.map UInt8.ofNat).length < 512 := by have := hr.2; simp; omega
  have hflags : BgzfBytes.flagSet (flgOf h) 4 = true ∧ BgzfBytes.flagSet (flgOf h) 8 = decide (h.name ≠ []) ∧
      BgzfBytes.flagSet (flgOf h) 16 = decide (h.comment ≠ []) ∧ BgzfBytes.flagSet (flgOf h) 2 = false := by
    by_cases hn : h.name = [] <;> by_cases hc : h.comment = [] <;> simp [flgOf, hn, hc] <;> decide
  obtain ⟨g4, g8, g16, g2⟩ := hflags
  constructor
  · intro t
    have hl := readHeader_layout crc (flgOf h) (UInt8.ofNat (h.mtime % 2 ^ 32 % 256)) (UInt8.ofNat (h.mtime % 2 ^ 32 / 256 % 256))
      (UInt8.ofNat (h.mtime % 2 ^ 32 / 65536 % 256)) (UInt8.ofNat (h.mtime % 2 ^ 32 / 16777216 % 256)) c.xfl h.os _ _
      66 67 2 0 (UInt8.ofNat (bsz % 256)) (UInt8.ofNat (bsz / 256 % 256)) h.extra (h.name.map UInt8.ofNat) (h.comment.map UInt8.ofNat)
      t _ _ g4 g8 g16 g2 hxe hname hnl hcomm hcl
    have hw : writerHeader c h bsz ++ t = _ := (by simp only [writerHeader, List.cons_append, List.append_assoc] :
      writerHeader c h bsz ++ t = 0x1f :: 0x8b :: 8 :: flgOf h :: UInt8.ofNat (h.mtime % 2 ^ 32 % 256) ::
        UInt8.ofNat (h.mtime % 2 ^ 32 / 256 % 256) :: UInt8.ofNat (h.mtime % 2 ^ 32 / 65536 % 256) ::
        UInt8.ofNat (h.mtime % 2 ^ 32 / 16777216 % 256) :: c.xfl :: h.os ::
        UInt8.ofNat ((6 + h.extra.length) % 256) :: UInt8.ofNat ((6 + h.extra.length) / 256 % 256) ::
        66 :: 67 :: 2 :: 0 :: UInt8.ofNat (bsz % 256) :: UInt8.ofNat (bsz / 256 % 256) ::
        (h.extra ++ (optz (decide (h.name ≠ [])) (h.name.map UInt8.ofNat) ++
          (optz (decide (h.comment ≠ [])) (h.comment.map UInt8.ofNat) ++ t))))
    rw [hw, hl, writerHeader_length, hdrLen_eq]
    exact ⟨_, rfl, expectedMemberSize_bytes bsz hb h.extra⟩
  · intro k hk'
    rw [writerHeader_length, hdrLen_eq] at hk'
    exact readHeader_layout_cut crc (flgOf h) _ _ _ _ c.xfl h.os _ _ 66 67 2 0 _ _ h.extra _ _ _ _ g4 g8 g16 hxe
      hname hnl hcomm hcl k hk'

/-- the member the writer produces for payload `p`, as a member of C10's lemma library -/
def blockM (c : CodecFns) (h : Header) (p : List Byte) : Hts.Lemmas.BgzfBytes.Member :=
  { header := writerHeader c h (memberLen c h p - 1), cdata := c.deflate p, crc := le32 (c.crc32 p),
    isize := le32 (p.length % 2 ^ 32), payload := p }

theorem blockM_bytes (c : CodecFns) (h : Header) (p : List Byte) : (blockM c h p).bytes = mb c h p := by
  simp only [blockM, Hts.Lemmas.BgzfBytes.Member.bytes, Hts.Lemmas.BgzfBytes.Member.body, mb, memberBytes_eq]

/-- every member the writer produces (any accepted header) is well-framed in the sense of C10's lemma library, so
C10's theorems about streams of well-framed members (`readAll_stream`, the truncation theorem `readAll_take`, …) apply
to the writer's streams under every header setting, not only the default 18-byte header. -/
theorem blockM_wf (c : Codec) (h : Header) (p : List Byte) (hk : HdrOK h) (hr : ReaderOK h)
    (hlen : memberLen c.toCodecFns h p ≤ BgzfWriter.MaxBlockSize) (hp : p.length ≤ BgzfWriter.MaxBlockSize) :
    (blockM c.toCodecFns h p).WellFramed (toBytesCodec c.toCodecFns) := by
  have h18 : 18 ≤ memberLen c.toCodecFns h p := by simp [memberLen]; omega
  have hb : memberLen c.toCodecFns h p - 1 < 65536 := by simp [BgzfWriter.MaxBlockSize] at hlen; omega
  have hsize : (blockM c.toCodecFns h p).size = memberLen c.toCodecFns h p - 1 + 1 := by
    simp only [Hts.Lemmas.BgzfBytes.Member.size, blockM, writerHeader_length]
    simp [memberLen, hdrLen]
  have hcrc := c.crc32_lt p
  have hisz : p.length % 2 ^ 32 < 2 ^ 32 := Nat.mod_lt _ (by decide)
  exact
    { hdrOk := by rw [hsize]; exact writerHeader_ok _ c.toCodecFns h hk hr _ hb
      crcLen := rfl, isizeLen := rfl,
      inflates := by simp [toBytesCodec, blockM, Hts.Lemmas.BgzfBytes.Member.body, c.inflate_deflate],
      crcOk := by simp only [blockM]; exact leNat_le32 _ hcrc,
      isizeOk := by simp only [blockM]; exact leNat_le32 _ hisz,
      fits := hp }

end Hts.Model.Member
