/-
Writer LTS: dead-lock freedom of the repaired protocol and a measure that strictly decreases on every step.
-/
import Hts.Lemmas.WriterLTSInv
namespace Hts.Model.WriterLTS

variable {cfg : Cfg} {s t : State} {e : Option Ev}

def CanStep (cfg : Cfg) (s : State) : Prop := ∃ l, (next cfg s l).isSome = true

theorem CanStep.step (h : CanStep cfg s) : ∃ t, Step cfg s t := by
  obtain ⟨l, hl⟩ := h
  obtain ⟨⟨e, t⟩, ht⟩ := Option.isSome_iff_exists.1 hl
  exact ⟨t, l, e, ht⟩

theorem canStep_api (h : (apiStep cfg s).isSome = true) : CanStep cfg s := ⟨.api, h⟩
theorem canStep_em (h : (emStep cfg s).isSome = true) : CanStep cfg s := ⟨.em, h⟩

/-- the emitter (or the compressor goroutine it waits for) can move, unless it is parked on an empty open
    queue, finished, or waiting for the block that Close has queued but not yet compressed -/
theorem em_progress (hr : cfg.repaired = true) (hi : Inv cfg s) :
    (s.em = .recv ∧ s.queue = [] ∧ s.closed = false) ∨ s.em = .done ∨
    (∃ it, s.em = .hold it ∧ it.st = .held) ∨ CanStep cfg s := by
  have hn := cfg.n_ge_two
  cases hem : s.em with
  | recv =>
    cases hq : s.queue with
    | nil =>
      cases hc : s.closed with
      | false => exact .inl ⟨rfl, rfl, rfl⟩
      | true => exact .inr (.inr (.inr (canStep_em (by simp [emStep, hem, hq, hc]))))
    | cons it q => exact .inr (.inr (.inr (canStep_em (by simp [emStep, hem, hq]))))
  | hold it =>
    cases hst : it.st with
    | compressing => exact .inr (.inr (.inr ⟨.finE, by simp [next, hem, hst]⟩))
    | flushed =>
      refine .inr (.inr (.inr (canStep_em ?_)))
      simp only [emStep, hem, hst, if_true]
      repeat' split
      all_goals rfl
    | held => exact .inr (.inr (.inl ⟨it, rfl, hst⟩))
  | failed it =>
    exact .inr (.inr (.inr (canStep_em (by simp [emStep, hem, hr]))))
  | latch it => exact absurd hem (hi.rep it).1
  | rel it => exact .inr (.inr (.inr (canStep_em (by simp [emStep, hem]))))
  | push it =>
    have hc := hi.cons
    simp only [hem, emHolds] at hc
    have : s.waiting.length < cfg.n := by omega
    exact .inr (.inr (.inr (canStep_em (by simp [emStep, hem, this]))))
  | pushx it => exact absurd hem (hi.rep it).2
  | done => exact .inr (.inl rfl)

/-- when the API goroutine is not inside Close's hand-over, the emitter never waits for a `held` block -/
theorem no_held_at_emitter (hi : Inv cfg s) (hh : apiHolding s.api = false) {it : Item} (hem : s.em = .hold it) :
    it.st ≠ .held := by
  have h := hi.held
  simp only [hh, unwritten, hem, emUnwritten, List.singleton_append] at h
  have := heldOK_false_head h
  intro hst
  simp [isHeld, hst] at this

theorem writer_deadlock_free_inv (hr : cfg.repaired = true) (hi : Inv cfg s) : AllIdle s ∨ CanStep cfg s := by
  have hn := cfg.n_ge_two
  have hcons := hi.cons
  have hact := hi.act
  have hpend := hi.pend
  have hprog := em_progress hr hi
  cases hapi : s.api with
  | idle =>
    cases hs : s.script with
    | cons op rest => exact .inr (canStep_api (by simp [apiStep, hapi, hs]))
    | nil =>
      rcases hprog with ⟨h1, h2, _⟩ | h | ⟨it, h1, h2⟩ | h
      · exact .inl ⟨⟨hapi, hs⟩, h2, by simp [hpend, h1, h2, emPend], .inl h1⟩
      · have := hi.emDone h
        exact .inl ⟨⟨hapi, hs⟩, this.2, by simp [hpend, h, this.2, emPend], .inr h⟩
      · exact absurd h2 (no_held_at_emitter hi (by simp [hapi, apiHolding]) h1)
      · exact .inr h
  | retClosed => exact .inr (canStep_api (by simp [apiStep, hapi]))
  | wLoop k =>
    refine .inr (canStep_api ?_)
    simp only [apiStep, hapi]
    split
    · rfl
    · cases k <;> rfl
  | wSub k =>
    refine .inr (canStep_api ?_)
    have hc : s.closed = false := by
      cases h : s.closed with
      | false => rfl
      | true => have := hi.closedApi h; simp [hapi, apiAfterClose] at this
    simp only [hapi, apiNoActive, hc, Bool.or_self, Bool.not_false] at hact
    obtain ⟨c, hc'⟩ := Option.isSome_iff_exists.1 hact
    simp only [activeCount, hact, if_true] at hcons
    have : s.queue.length < cfg.n := by omega
    simp [apiStep, hapi, hc', this]
  | wTake k =>
    cases hw : s.waiting with
    | cons c ws => exact .inr (canStep_api (by simp [apiStep, hapi, hw]))
    | nil =>
      have hc : s.closed = false := by
        cases h : s.closed with
        | false => rfl
        | true => have := hi.closedApi h; simp [hapi, apiAfterClose] at this
      simp only [hapi, apiNoActive, Bool.true_or, Bool.not_true] at hact
      simp only [activeCount, hact, dropped, hc, hapi, apiDropped, hw, List.length_nil] at hcons
      rcases hprog with ⟨h1, h2, _⟩ | h | ⟨it, h1, h2⟩ | h
      · simp [h1, h2, emHolds] at hcons; omega
      · have := (hi.emDone h).1; simp [hc] at this
      · exact absurd h2 (no_held_at_emitter hi (by simp [hapi, apiHolding]) h1)
      · exact .inr h
  | fChk b =>
    refine .inr (canStep_api ?_)
    simp only [apiStep, hapi]
    split
    · rfl
    · split <;> rfl
  | fSwap =>
    have hc : s.closed = false := by
      cases h : s.closed with
      | false => rfl
      | true => have := hi.closedApi h; simp [hapi, apiAfterClose] at this
    simp only [hapi, apiNoActive, hc, Bool.or_self, Bool.not_false] at hact
    obtain ⟨a, ha⟩ := Option.isSome_iff_exists.1 hact
    simp only [activeCount, hact, if_true, dropped, hc, hapi, apiDropped] at hcons
    cases hw : s.waiting with
    | cons c ws =>
      have : s.queue.length < cfg.n := by omega
      exact .inr (canStep_api (by simp [apiStep, hapi, ha, hw, this]))
    | nil =>
      simp only [hw, List.length_nil] at hcons
      rcases hprog with ⟨h1, h2, _⟩ | h | ⟨it, h1, h2⟩ | h
      · simp [h1, h2, emHolds] at hcons; omega
      · have := (hi.emDone h).1; simp [hc] at this
      · exact absurd h2 (no_held_at_emitter hi (by simp [hapi, apiHolding]) h1)
      · exact .inr h
  | fRet => exact .inr (canStep_api (by simp [apiStep, hapi]))
  | wtChk =>
    refine .inr (canStep_api ?_)
    simp only [apiStep, hapi]
    split <;> rfl
  | wtBlock =>
    by_cases hp : s.pending = 0
    · exact .inr (canStep_api (by simp [apiStep, hapi, hp]))
    · rcases hprog with ⟨h1, h2, _⟩ | h | ⟨it, h1, h2⟩ | h
      · simp [hpend, h1, h2, emPend] at hp
      · have := (hi.emDone h).2; simp [hpend, h, this, emPend] at hp
      · exact absurd h2 (no_held_at_emitter hi (by simp [hapi, apiHolding]) h1)
      · exact .inr h
  | cEnq =>
    refine .inr (canStep_api ?_)
    have hc : s.closed = false := by
      cases h : s.closed with
      | false => rfl
      | true => have := hi.closedApi h; simp [hapi, apiAfterClose] at this
    simp only [hapi, apiNoActive, hc, Bool.or_self, Bool.not_false] at hact
    obtain ⟨c, hc'⟩ := Option.isSome_iff_exists.1 hact
    simp only [activeCount, hact, if_true] at hcons
    have : s.queue.length < cfg.n := by omega
    simp [apiStep, hapi, hc', this]
  | cTake =>
    cases hw : s.waiting with
    | cons c ws => exact .inr (canStep_api (by simp [apiStep, hapi, hw]))
    | nil =>
      have hc : s.closed = false := by
        cases h : s.closed with
        | false => rfl
        | true => have := hi.closedApi h; simp [hapi, apiAfterClose] at this
      simp only [hapi, apiNoActive, Bool.true_or, Bool.not_true] at hact
      simp only [activeCount, hact, dropped, hc, hapi, apiDropped, hw, List.length_nil] at hcons
      rcases hprog with ⟨h1, h2, _⟩ | h | ⟨it, h1, h2⟩ | h
      · simp [h1, h2, emHolds] at hcons; omega
      · have := (hi.emDone h).1; simp [hc] at this
      · -- the emitter waits for Close's own block: then every other compressor is in `waiting`
        have hh := hi.held
        simp only [hapi, apiHolding, unwritten, h1, emUnwritten, List.singleton_append] at hh
        have hq := heldOK_true_head hh (by simp [isHeld, h2])
        simp [h1, hq, emHolds] at hcons
        omega
      · exact .inr h
  | cComp => exact .inr (canStep_api (by simp [apiStep, hapi]))
  | cJoin =>
    have hc : s.closed = true := hi.needsClosed (by simp [hapi, apiNeedsClosed])
    rcases hprog with ⟨_, _, h3⟩ | h | ⟨it, h1, h2⟩ | h
    · simp [hc] at h3
    · exact .inr (canStep_api (by simp [apiStep, hapi, h]))
    · exact absurd h2 (no_held_at_emitter hi (by simp [hapi, apiHolding]) h1)
    · exact .inr h
  | cEof =>
    refine .inr (canStep_api ?_)
    simp only [apiStep, hapi]
    split
    · rfl
    · split <;> rfl
  | cRet => exact .inr (canStep_api (by simp [apiStep, hapi]))

/-! ### termination measure -/

def opCost : Op → Nat
  | .write k => 12 * k + 2
  | .flush _ => 13
  | .wait => 3
  | .close => 15

def pcM : ApiPc → Nat
  | .idle => 0
  | .retClosed => 1
  | .wLoop k => 12 * k + 1
  | .wSub k => 12 * k + 11
  | .wTake k => 12 * k + 2
  | .fChk _ => 12
  | .fSwap => 11
  | .fRet => 1
  | .wtChk => 2
  | .wtBlock => 1
  | .cEnq => 14
  | .cTake => 5
  | .cComp => 4
  | .cJoin => 3
  | .cEof => 2
  | .cRet => 1

def stM : ISt → Nat
  | .flushed => 0
  | _ => 1

def emM : EmPc → Nat
  | .recv => 1
  | .hold it => 6 + stM it.st
  | .failed _ => 5
  | .latch _ => 4
  | .rel _ => 3
  | .push _ => 2
  | .pushx _ => 1
  | .done => 0

def itemM (it : Item) : Nat := 7 + stM it.st

def sumM : List Item → Nat
  | [] => 0
  | it :: q => itemM it + sumM q

def scriptM : List Op → Nat
  | [] => 0
  | op :: r => opCost op + scriptM r

/-- work left: for the API goroutine (rest of the current call and of the script), for every queued block,
    and for the emitter's current block -/
def measure (s : State) : Nat := pcM s.api + scriptM s.script + sumM s.queue + emM s.em

theorem sumM_append (a b : List Item) : sumM (a ++ b) = sumM a + sumM b := by
  induction a with
  | nil => simp [sumM]
  | cons x a ih => simp [sumM, ih]; omega

theorem stM_unhold (it : Item) : stM (unhold it).st ≤ stM it.st := by
  unfold unhold
  split
  · rename_i h; simp [h, stM]
  · exact Nat.le_refl _

theorem sumM_unhold (q : List Item) : sumM (q.map unhold) ≤ sumM q := by
  induction q with
  | nil => exact Nat.le_refl _
  | cons x q ih =>
    have := stM_unhold x
    simp only [List.map_cons, sumM, itemM]
    omega

theorem emM_unhold (em : EmPc) : emM (unholdEm em) ≤ emM em := by
  cases em <;> simp only [unholdEm, emM] <;> try exact Nat.le_refl _
  rename_i it
  have := stM_unhold it
  omega

theorem entry_pcM (op : Op) (c : Bool) : pcM (entry op c) < opCost op := by
  cases op <;> cases c <;> simp [entry, pcM, opCost]

theorem api_measure (h : apiStep cfg s = some (e, t)) : measure t < measure s := by
  unfold apiStep at h
  have h0 : pcM ApiPc.idle = 0 := rfl
  have h1 := sumM_unhold s.queue
  have h2 := emM_unhold s.em
  step_cases h
  all_goals first
    | (simp only [measure, *, pcM, scriptM, sumM_append, sumM, itemM, stM]; omega)
    | (have := entry_pcM ‹Op› s.closed; simp only [measure, *, scriptM]; omega)

theorem em_measure (h : emStep cfg s = some (e, t)) : measure t < measure s := by
  unfold emStep at h
  step_cases h
  all_goals simp only [measure, *, emM, sumM, itemM, stM]
  all_goals omega

theorem finishAt_measure : ∀ {i : Nat} {q q' : List Item}, finishAt i q = some q' → sumM q' < sumM q
  | _, [], _, h => by simp [finishAt] at h
  | 0, it :: q, q', h => by
    simp only [finishAt] at h
    split at h
    · rename_i hc; cases h; simp [sumM, itemM, stM, hc]
    · cases h
  | i + 1, it :: q, q', h => by
    simp only [finishAt, Option.map_eq_some_iff] at h
    obtain ⟨q1, h1, rfl⟩ := h
    have := finishAt_measure h1
    simp only [sumM]; omega

theorem next_measure {l : Label} (h : next cfg s l = some (e, t)) : measure t < measure s := by
  refine next_cases h api_measure em_measure ?_ ?_
  · intro i q hq _ ht
    have := finishAt_measure hq
    rw [ht]; simp only [measure]; omega
  · intro it hem hc _ ht
    rw [ht]; simp only [measure, hem, emM, hc, stM]; omega

end Hts.Model.WriterLTS
