/-
Lemmas for C10: the byte-level reader on streams made of well-framed BGZF members, and on their
prefixes.
-/
import Hts.Model.BgzfBytes
namespace Hts.Lemmas.BgzfBytes
open Hts.Model.BgzfBytes

/-! ### A BGZF member: gzip header (any layout compress/gzip reads and that announces the member size
in a BC subfield), deflate data, 8-byte trailer -/

structure Member where
  /-- the complete gzip header of the member -/
  header : Bytes
  /-- the deflate stream -/
  cdata : Bytes
  /-- CRC-32 field of the trailer (4 bytes) -/
  crc : Bytes
  /-- ISIZE field of the trailer (4 bytes) -/
  isize : Bytes
  /-- what the member holds -/
  payload : Bytes

/-- `hdr` is a gzip header that `readHeader` reads completely whatever follows it, whose Extra field
makes `expectedMemberSize` announce `size`; and every proper prefix of it is a short read (the empty
one the clean `io.EOF`, every other `io.ErrUnexpectedEOF`).  `canonHeader_ok` (the 18-byte header
bgzf.Writer writes by default) and `hdr18_ok` (the same with any FLG that keeps FEXTRA and adds only
FTEXT/reserved bits, and any BSIZE) are the proved instances; for a header with user Extra, Name or
Comment it is a hypothesis (such headers are covered by the enumeration, stream "named-header"). -/
structure HeaderOk (crc : Bytes → Nat) (hdr : Bytes) (size : Nat) : Prop where
  reads : ∀ t, ∃ h, readHeader crc (hdr ++ t) = .ok (h, hdr.length) ∧ expectedMemberSize h.extra = some size
  cut : ∀ k, k < hdr.length → readHeader crc (hdr.take k) = .error (if k = 0 then .eof else .unexpectedEOF)

namespace Member

def size (m : Member) : Nat := m.header.length + m.cdata.length + 8

def body (m : Member) : Bytes := m.cdata ++ (m.crc ++ m.isize)

def bytes (m : Member) : Bytes := m.header ++ m.body

/-- Framed with respect to the codec: the header is a gzip header announcing exactly the member's
size, the trailer fields have 4 bytes each and carry CRC-32 and length of the payload, the deflate
decoder decodes `cdata` (followed by the trailer) to the payload using exactly `cdata`.
(Nothing about the size of the payload.) -/
structure FramedOk (c : Codec) (m : Member) : Prop where
  hdrOk : HeaderOk c.crc32 m.header m.size
  crcLen : m.crc.length = 4
  isizeLen : m.isize.length = 4
  inflates : c.inflate m.body = .ok m.payload m.cdata.length
  crcOk : leNat m.crc = c.crc32 m.payload
  isizeOk : leNat m.isize = m.payload.length % 4294967296

/-- Well-framed: framed, and the payload fits a block (at most 64 KiB, as the format requires). -/
structure WellFramed (c : Codec) (m : Member) : Prop extends FramedOk c m where
  fits : m.payload.length ≤ MaxBlockSize

theorem body_length {c : Codec} {m : Member} (h : m.FramedOk c) : m.body.length = m.cdata.length + 8 := by
  simp [body, h.crcLen, h.isizeLen]

theorem bytes_length {c : Codec} {m : Member} (h : m.FramedOk c) : m.bytes.length = m.size := by
  simp [bytes, body_length h, size]; omega

end Member

/-! ### the 18-byte header bgzf.Writer writes by default -/

/-- `1f 8b 08 04 MTIME XFL OS 06 00 'B' 'C' 02 00 BSIZE` for a member of `size` bytes -/
def canonHeader (m0 m1 m2 m3 xfl os : UInt8) (size : Nat) : Bytes :=
  [0x1f, 0x8b, 0x08, 0x04, m0, m1, m2, m3, xfl, os, 0x06, 0x00, 0x42, 0x43, 0x02, 0x00,
   UInt8.ofNat ((size - 1) % 256), UInt8.ofNat ((size - 1) / 256)]

theorem canonHeader_length (m0 m1 m2 m3 xfl os : UInt8) (size : Nat) :
    (canonHeader m0 m1 m2 m3 xfl os size).length = 18 := rfl

theorem bsize_bytes {size : Nat} (h1 : 1 ≤ size) (h2 : size ≤ 65536) :
    (UInt8.ofNat ((size - 1) % 256)).toNat + 256 * (UInt8.ofNat ((size - 1) / 256)).toNat + 1 = size := by
  simp only [UInt8.toNat_ofNat']
  omega

theorem canonHeader_ok (crc : Bytes → Nat) (m0 m1 m2 m3 xfl os : UInt8) {size : Nat}
    (h1 : 1 ≤ size) (h2 : size ≤ 65536) : HeaderOk crc (canonHeader m0 m1 m2 m3 xfl os size) size := by
  have f8 : ((4 : UInt8) &&& 8 != 0) = false := by decide
  have f16 : ((4 : UInt8) &&& 16 != 0) = false := by decide
  have f2 : ((4 : UInt8) &&& 2 != 0) = false := by decide
  constructor
  · intro t
    have hl : ¬ (t.length + 1 + 1 + 1 + 1 + 1 + 1 < 6) := by omega
    refine ⟨⟨0x04, leNat [m0, m1, m2, m3], xfl, os,
      some [0x42, 0x43, 0x02, 0x00, UInt8.ofNat ((size - 1) % 256), UInt8.ofNat ((size - 1) / 256)], [], []⟩, ?_, ?_⟩
    · simp [readHeader, readExtra, readHdrCrc, canonHeader, flagSet, readOptString, f8, f16, f2, hl]
    · simp [expectedMemberSize, findSub, bgzfExtraPrefix, List.isPrefixOf]
      omega
  · intro k hk
    have hk' : k < 18 := hk
    have : k = 0 ∨ k = 1 ∨ k = 2 ∨ k = 3 ∨ k = 4 ∨ k = 5 ∨ k = 6 ∨ k = 7 ∨ k = 8 ∨ k = 9 ∨ k = 10 ∨ k = 11
        ∨ k = 12 ∨ k = 13 ∨ k = 14 ∨ k = 15 ∨ k = 16 ∨ k = 17 := by omega
    rcases this with rfl | rfl | rfl | rfl | rfl | rfl | rfl | rfl | rfl | rfl | rfl | rfl | rfl | rfl | rfl | rfl | rfl | rfl <;>
      simp [readHeader, readExtra, canonHeader, flagSet, f8, f16, f2]

/-! ### an intact member is framed, verified and delivered -/

theorem readMember_member (q : Quirks) (c : Codec) {m : Member} (h : m.FramedOk c) (t : Bytes) :
    ∃ hd, readMember q c (m.bytes ++ t) = .ok ⟨hd, m.body, t⟩ := by
  have hb := Member.body_length h
  obtain ⟨hd, hr, hs⟩ := h.hdrOk.reads (m.body ++ t)
  refine ⟨hd, ?_⟩
  have e : m.bytes ++ t = m.header ++ (m.body ++ t) := by simp [Member.bytes]
  have hdrop : (m.header ++ (m.body ++ t)).drop m.header.length = m.body ++ t := List.drop_left
  have hsz : m.size - m.header.length = m.body.length := by simp [Member.size, hb]; omega
  have h1 : ¬ m.size = m.header.length := by simp [Member.size]; omega
  have h2 : ¬ m.size < m.header.length := by simp [Member.size]; omega
  rw [readMember, e, hr]
  simp only [hs, h1, h2, if_false, hdrop, hsz]
  simp

theorem gzBody_member (c : Codec) {m : Member} (h : m.FramedOk c) :
    gzBody c m.body = .ok (m.payload, !m.payload.isEmpty) := by
  have hd : m.body.drop m.cdata.length = m.crc ++ m.isize := by
    simp [Member.body]
  have t4 : (m.crc ++ m.isize).take 4 = m.crc := List.take_left' h.crcLen
  have d4 : (m.crc ++ m.isize).drop 4 = m.isize := List.drop_left' h.crcLen
  have t4' : m.isize.take 4 = m.isize := List.take_of_length_le (by rw [h.isizeLen]; exact Nat.le_refl 4)
  have d8 : (m.crc ++ m.isize).drop 8 = [] := by
    apply List.drop_eq_nil_of_le; simp [h.crcLen, h.isizeLen]
  have l8 : ¬ (m.crc ++ m.isize).length < 8 := by simp [h.crcLen, h.isizeLen]
  rw [gzBody, h.inflates]
  simp only [hd, l8, t4, d4, t4', d8, h.crcOk, h.isizeOk, dite_false, readHeader]
  simp

theorem readBlock_member (q : Quirks) (c : Codec) {m : Member} (h : m.WellFramed c) (t : Bytes) :
    readBlock q c (m.bytes ++ t) = .ok (m.payload, t) := by
  have := h.fits
  obtain ⟨hd, hr⟩ := readMember_member q c h.toFramedOk t
  simp [readBlock, readToEOF, hr, gzBody_member c h.toFramedOk, this]

/-! ### a cut member: every proper prefix of a member is rejected, and only the empty one cleanly -/

theorem readMember_member_prefix (c : Codec) {m : Member} (h : m.FramedOk c) (k : Nat) (hk : k < m.size) :
    readMember .repaired c (m.bytes.take k) = .error (if k = 0 then .eof else .unexpectedEOF) := by
  by_cases hh : k < m.header.length
  · have e : m.bytes.take k = m.header.take k := by
      rw [Member.bytes, List.take_append_of_le_length (by omega)]
    rw [readMember, e, h.hdrOk.cut k hh]
  · have hb := Member.body_length h
    obtain ⟨hd, hr, hs⟩ := h.hdrOk.reads (m.body.take (k - m.header.length))
    have e : m.bytes.take k = m.header ++ m.body.take (k - m.header.length) := by
      rw [Member.bytes, List.take_append, List.take_of_length_le (by omega)]
    have hdrop : (m.header ++ m.body.take (k - m.header.length)).drop m.header.length
        = m.body.take (k - m.header.length) := List.drop_left
    have h1 : ¬ m.size = m.header.length := by simp [Member.size]; omega
    have h2 : ¬ m.size < m.header.length := by simp [Member.size]; omega
    have hlen : ¬ ((m.body.take (k - m.header.length)).length ≥ m.size - m.header.length) := by
      simp only [List.length_take, hb, Member.size] at hk ⊢
      omega
    have hk0 : ¬ k = 0 := by
      intro h0; subst h0
      obtain ⟨hd0, hr0, _⟩ := h.hdrOk.reads []
      have hl0 : m.header.length = 0 := by omega
      have hnil : m.header = [] := List.eq_nil_of_length_eq_zero hl0
      simp only [hnil, List.append_nil] at hr0
      simp [readHeader] at hr0
    rw [readMember, e, hr]
    simp only [hs, h1, h2, if_false, hdrop, hlen, hk0]
    simp [Quirks.repaired]

theorem readBlock_member_prefix (c : Codec) {m : Member} (h : m.FramedOk c) (k : Nat) (hk : k < m.size) :
    readBlock .repaired c (m.bytes.take k) = .error (if k = 0 then .eof else .unexpectedEOF) := by
  rw [readBlock, readMember_member_prefix c h k hk]

/-! ### streams -/

def stream (ms : List Member) : Bytes := (ms.map Member.bytes).flatten
def data (ms : List Member) : Bytes := (ms.map Member.payload).flatten
/-- stream offset of the boundary after the first `j` members -/
def offset (ms : List Member) (j : Nat) : Nat := ((ms.take j).map Member.size).sum

theorem readAll_of_error {q : Quirks} {c : Codec} {s : Bytes} {e : Err} (h : readBlock q c s = .error e) :
    readAll q c s = ([], e) := by
  rw [readAll, h]

theorem readAll_nil (q : Quirks) (c : Codec) : readAll q c [] = ([], .eof) := by
  apply readAll_of_error
  simp [readBlock, readMember, readHeader]

theorem readAll_member_append (q : Quirks) (c : Codec) {m : Member} (h : m.WellFramed c) (t : Bytes) :
    readAll q c (m.bytes ++ t) = (m.payload ++ (readAll q c t).1, (readAll q c t).2) := by
  have hl : t.length < (m.bytes ++ t).length := by
    rw [List.length_append, Member.bytes_length h.toFramedOk]; simp [Member.size]
  rw [readAll, readBlock_member q c h t]
  simp only [hl, dite_true]

theorem stream_cons (m : Member) (ms : List Member) : stream (m :: ms) = m.bytes ++ stream ms := by
  simp [stream]

theorem data_cons (m : Member) (ms : List Member) : data (m :: ms) = m.payload ++ data ms := by
  simp [data]

theorem data_take_append_drop (ms : List Member) (j : Nat) : data ms = data (ms.take j) ++ data (ms.drop j) := by
  unfold data
  rw [← List.flatten_append, ← List.map_append, List.take_append_drop]

theorem offset_zero (ms : List Member) : offset ms 0 = 0 := by simp [offset]

theorem offset_cons_succ (m : Member) (ms : List Member) (j : Nat) :
    offset (m :: ms) (j + 1) = m.size + offset ms j := by simp [offset]

theorem stream_length {c : Codec} {ms : List Member} (hwf : ∀ m ∈ ms, m.WellFramed c) :
    (stream ms).length = offset ms ms.length := by
  induction ms with
  | nil => simp [stream, offset]
  | cons m ms ih =>
    rw [stream_cons, List.length_append, Member.bytes_length (hwf m (by simp)).toFramedOk, List.length_cons,
      offset_cons_succ, ih (fun x hx => hwf x (by simp [hx]))]

/-- The intact stream reads back completely and ends cleanly (every variant of the reader). -/
theorem readAll_stream (q : Quirks) (c : Codec) {ms : List Member} (hwf : ∀ m ∈ ms, m.WellFramed c) :
    readAll q c (stream ms) = (data ms, .eof) := by
  induction ms with
  | nil => simp [stream, data, readAll_nil]
  | cons m ms ih =>
    rw [stream_cons, readAll_member_append q c (hwf m (by simp)), ih (fun x hx => hwf x (by simp [hx])), data_cons]

/-- Main lemma: reading the first `k` bytes of a stream of well-framed members (repaired reader). -/
theorem readAll_take (c : Codec) {ms : List Member} (hwf : ∀ m ∈ ms, m.WellFramed c) (k : Nat)
    (hk : k ≤ (stream ms).length) :
    ∃ j, j ≤ ms.length ∧ offset ms j ≤ k ∧ (j < ms.length → k < offset ms (j + 1)) ∧
      readAll .repaired c ((stream ms).take k) =
        (data (ms.take j), if k = offset ms j then .eof else .unexpectedEOF) := by
  induction ms generalizing k with
  | nil =>
    refine ⟨0, Nat.le_refl _, ?_, ?_, ?_⟩
    · simp [offset]
    · simp
    · have : k = 0 := by simpa [stream] using hk
      subst this
      simp [stream, data, offset, readAll_nil]
  | cons m ms ih =>
    have hm := hwf m (by simp)
    have hms : ∀ x ∈ ms, x.WellFramed c := fun x hx => hwf x (by simp [hx])
    have hbl := Member.bytes_length hm.toFramedOk
    by_cases hlt : k < m.size
    · -- the cut is inside (or at the start of) the first member
      refine ⟨0, Nat.zero_le _, ?_, ?_, ?_⟩
      · simp [offset]
      · intro _; rw [offset_cons_succ, offset_zero]; omega
      · rw [stream_cons, List.take_append_of_le_length (by omega),
          readAll_of_error (readBlock_member_prefix c hm.toFramedOk k hlt)]
        simp [data, offset]
    · -- the first member is intact
      have hk' : k - m.size ≤ (stream ms).length := by
        rw [stream_cons, List.length_append, hbl] at hk; omega
      obtain ⟨j, hj, hlo, hhi, hr⟩ := ih hms (k - m.size) hk'
      refine ⟨j + 1, by simpa using hj, ?_, ?_, ?_⟩
      · rw [offset_cons_succ]; omega
      · intro hjl
        have := hhi (by simpa using hjl)
        rw [offset_cons_succ]; omega
      · have e : (stream (m :: ms)).take k = m.bytes ++ (stream ms).take (k - m.size) := by
          rw [stream_cons, List.take_append, hbl, List.take_of_length_le (by omega)]
        rw [e, readAll_member_append .repaired c hm, hr, offset_cons_succ]
        have : (k = m.size + offset ms j) ↔ (k - m.size = offset ms j) := by omega
        simp [data, this]

/-! ### member boundaries -/

theorem size_pos (m : Member) : 8 ≤ m.size := by simp [Member.size]

theorem offset_mono (ms : List Member) {i j : Nat} (h : i ≤ j) : offset ms i ≤ offset ms j := by
  induction ms generalizing i j with
  | nil => simp [offset]
  | cons m ms ih =>
    cases i with
    | zero => simp [offset_zero]
    | succ i =>
      cases j with
      | zero => omega
      | succ j => rw [offset_cons_succ, offset_cons_succ]; have := ih (i := i) (j := j) (by omega); omega

theorem offset_strict (ms : List Member) {i j : Nat} (h : i < j) (hj : j ≤ ms.length) :
    offset ms i < offset ms j := by
  induction ms generalizing i j with
  | nil => simp at hj; omega
  | cons m ms ih =>
    cases j with
    | zero => omega
    | succ j =>
      have := size_pos m
      cases i with
      | zero => rw [offset_zero, offset_cons_succ]; omega
      | succ i =>
        rw [offset_cons_succ, offset_cons_succ]
        have := ih (i := i) (j := j) (by omega) (by simpa using hj)
        omega

theorem take_offset {c : Codec} {ms : List Member} (hwf : ∀ m ∈ ms, m.WellFramed c) (j : Nat) :
    (stream ms).take (offset ms j) = stream (ms.take j) := by
  induction ms generalizing j with
  | nil => simp [stream, offset]
  | cons m ms ih =>
    cases j with
    | zero => simp [stream, offset]
    | succ j =>
      have hm := hwf m (by simp)
      rw [offset_cons_succ, List.take_succ_cons, stream_cons, stream_cons, List.take_append,
        Member.bytes_length hm.toFramedOk, List.take_of_length_le (by rw [Member.bytes_length hm.toFramedOk]; omega)]
      rw [show m.size + offset ms j - m.size = offset ms j by omega, ih (fun x hx => hwf x (by simp [hx]))]

/-! ### HasEOF -/

theorem hasEOF_true_iff (s : Bytes) : (hasEOF s).1 = true ↔ magicBlock <:+ s := by
  have hm : magicBlock.length = 28 := rfl
  unfold hasEOF
  by_cases h : s.length < 28
  · simp only [h, if_true]
    constructor
    · intro hc; cases hc
    · intro hs; have := hs.length_le; omega
  · simp only [h, if_false, beq_iff_eq]
    constructor
    · intro he; exact ⟨s.take (s.length - 28), by rw [← he, List.take_append_drop]⟩
    · rintro ⟨t, rfl⟩
      rw [List.length_append, hm, Nat.add_sub_cancel, List.drop_left]

/-- a stream none of whose members ends with the 28 marker bytes does not end with them -/
theorem stream_no_marker_suffix (ms : List Member)
    (h : ∀ m ∈ ms, 28 ≤ m.bytes.length ∧ ¬ magicBlock <:+ m.bytes) : ¬ magicBlock <:+ stream ms := by
  have hm : magicBlock.length = 28 := rfl
  induction ms with
  | nil => intro hs; have := hs.length_le; simp [stream, hm] at this
  | cons m ms ih =>
    intro hs
    rw [stream_cons] at hs
    cases ms with
    | nil =>
      simp only [stream, List.map_nil, List.flatten_nil, List.append_nil] at hs
      exact (h m (by simp)).2 hs
    | cons m' ms' =>
      have hlen : magicBlock.length ≤ (stream (m' :: ms')).length := by
        rw [stream_cons, List.length_append, hm]
        have := (h m' (by simp)).1
        omega
      have : magicBlock <:+ stream (m' :: ms') :=
        List.suffix_of_suffix_length_le hs (List.suffix_append _ _) hlen
      exact ih (fun x hx => h x (by simp [hx])) this

end Hts.Lemmas.BgzfBytes
