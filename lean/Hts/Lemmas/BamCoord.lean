/-
The bin the BAM writer model computes (`Bam.recordBin`, over `BitVec` words) IS the record bin of C16's coordinate
model (`Coord.recordBin`, over naturals), so C16's `bin_spec` (bin = SAM reg2bin of [pos, end)) speaks about the
two bytes `encode_is_spec` takes as given.
-/
import Hts.Model.BamRecord
import Hts.Model.Coord
namespace Hts.Model.Bam

/-- a CIGAR word as C16's (type, length) pair -/
def coordOp (c : BitVec 32) : Hts.Model.Coord.CigarOp := ⟨cigarType c, cigarLen c⟩

theorem consume_agree : ∀ t : Nat, (Hts.Model.Coord.consumeTab.getD t (0, 0)).2 = consumeRefOf t
  | 0 | 1 | 2 | 3 | 4 | 5 | 6 | 7 | 8 | 9 | 10 => rfl
  | _ + 11 => rfl

theorem endLoop_agree (cs : List (BitVec 32)) : ∀ pos e : Int,
    Hts.Model.Coord.endLoop pos e (cs.map coordOp) = some (endLoop cs pos e) := by
  induction cs with
  | nil => intro pos e; rfl
  | cons c cs ih =>
    intro pos e
    simp only [List.map_cons, Hts.Model.Coord.endLoop, Hts.Model.Coord.consumes, endLoop, coordOp, consume_agree]
    exact ih _ _

theorem recordEnd_agree (r : Record) :
    Hts.Model.Coord.recordEnd (unmapped r) r.pos (r.cigar.map coordOp) = some (recordEnd r) := by
  unfold Hts.Model.Coord.recordEnd recordEnd
  cases hc : r.cigar with
  | nil => simp
  | cons c cs =>
    by_cases hu : unmapped r = true
    · simp [hu]
    · simp only [hu, Bool.false_or, List.isEmpty_cons, List.map_cons, Bool.false_eq_true, ↓reduceIte]
      have := endLoop_agree (c :: cs) r.pos r.pos
      simpa using this

theorem binFor_agree (beg end_ : Int) : Hts.Model.Coord.binFor beg end_ = (binFor beg end_).toNat := by
  unfold Hts.Model.Coord.binFor binFor Hts.Model.Coord.u32
  simp only [beq_iff_eq]
  repeat' split
  all_goals first
    | rfl
    | (simp only [BitVec.toNat_add, BitVec.toNat_ofInt, BitVec.toNat_ofNat]; omega)

/-- L-6: C16's `recordBin` on the record's flags, position and CIGAR is the bin the BAM writer writes -/
theorem recordBin_agree (r : Record) :
    Hts.Model.Coord.recordBin (unmapped r) (mateUnmapped r) r.pos (r.cigar.map coordOp) = some (recordBin r) := by
  unfold Hts.Model.Coord.recordBin recordBin
  rw [recordEnd_agree, Option.map_some, binFor_agree]

end Hts.Model.Bam
