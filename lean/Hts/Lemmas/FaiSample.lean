/-
C19: the sample file used by the non-vacuity examples of Props/C19 and Tie/C19, with its rendering computed.
-/
import Hts.Lemmas.FaiFileText
set_option linter.unusedVariables false
set_option linter.unusedSimpArgs false
namespace Hts.Lemmas.Fai
open Hts.Model.Fai
open Hts.Spec.Fasta (File Rec Entry seqLines)

/-- record `s1`: CRLF, description ` d e`, 8 bases on lines of 4 (a multiple of the width), two blank lines after -/
def sampleRec1 : Rec :=
  { name := [115, 49], desc := some [32, 100, 32, 101], bases := [65, 67, 71, 84, 65, 67, 71, 84], width := 4,
    eol := .crlf, finalNewline := true, blanksAfter := [[13], [32, 13]] }

/-- record `s2`: LF, 3 bases on lines of 2: the last line is shorter and not terminated -/
def sampleRec2 : Rec :=
  { name := [115, 50], desc := none, bases := [71, 71, 84], width := 2, eol := .lf, finalNewline := false,
    blanksAfter := [] }

/-- a blank line first, then `s1`, then `s2` -/
def sampleFile : File := { leadingBlanks := [[32]], recs := [sampleRec1, sampleRec2] }

/-- `s1` without blank lines after it -/
def sampleRec1b : Rec := { sampleRec1 with blanksAfter := [] }

/-- `s1` alone, without blank lines after it: every line terminated -/
def sampleFile1 : File := { recs := [sampleRec1b] }

theorem sample_lines1 : seqLines 4 [65, 67, 71, 84, 65, 67, 71, 84] = [[65, 67, 71, 84], [65, 67, 71, 84]] := by
  rw [seqLines_multi _ _ (by decide) (by decide)]
  simp only [List.take, List.drop]
  rw [seqLines_single _ _ (by decide) (by decide)]

theorem sample_lines2 : seqLines 2 [71, 71, 84] = [[71, 71], [84]] := by
  rw [seqLines_multi _ _ (by decide) (by decide)]
  simp only [List.take, List.drop]
  rw [seqLines_single _ _ (by decide) (by decide)]

theorem sampleRec1_render : sampleRec1.render =
    [62, 115, 49, 32, 100, 32, 101, 13, 10, 65, 67, 71, 84, 13, 10, 65, 67, 71, 84, 13, 10, 13, 10, 32, 13, 10] := by
  simp [sampleRec1, Rec.render, Rec.fileLines, Rec.lines, Rec.headerLine, sample_lines1,
    Hts.Spec.Fasta.terminate, Hts.Spec.Fasta.blankLines, Hts.Spec.Fasta.Eol.bytes, Hts.Spec.Fasta.GT,
    Hts.Spec.Fasta.LF, Hts.Spec.Fasta.CR]

theorem sampleRec2_render : sampleRec2.render = [62, 115, 50, 10, 71, 71, 10, 84] := by
  simp [sampleRec2, Rec.render, Rec.fileLines, Rec.lines, Rec.headerLine, sample_lines2,
    Hts.Spec.Fasta.terminate, Hts.Spec.Fasta.blankLines, Hts.Spec.Fasta.Eol.bytes, Hts.Spec.Fasta.GT,
    Hts.Spec.Fasta.LF]

theorem sampleFile_render : sampleFile.render =
    [32, 10, 62, 115, 49, 32, 100, 32, 101, 13, 10, 65, 67, 71, 84, 13, 10, 65, 67, 71, 84, 13, 10, 13, 10, 32, 13, 10,
     62, 115, 50, 10, 71, 71, 10, 84] := by
  simp [sampleFile, File.render, File.leading, sampleRec1_render, sampleRec2_render, Hts.Spec.Fasta.blankLines,
    Hts.Spec.Fasta.LF]

theorem sampleFile_size : 2 * sampleFile.render.length + 2 < 2 ^ 63 := by
  rw [sampleFile_render]; decide

/-- the true entries of the sample file -/
theorem sampleFile_entries :
    sampleFile.entries = [⟨[115, 49], 8, 11, 4, 6⟩, ⟨[115, 50], 3, 32, 2, 3⟩] := by
  simp [File.entries, File.leading, sampleFile, Hts.Spec.Fasta.entriesFrom, sampleRec1_render,
    Hts.Spec.Fasta.blankLines, Hts.Spec.Fasta.LF]
  simp [sampleRec1, sampleRec2, Rec.entry, Rec.headerLine, Hts.Spec.Fasta.Eol.bytes]

/-- the index record of `s1` -/
def exRec : Record := ⟨[115, 49], 8, 11, 4, 6⟩

theorem exRec_small (p : Nat) (hp : p ≤ 8) : exRec.position p < 2 ^ 63 := by
  simp only [Record.position, exRec, Nat.reduceEqDiff, if_false]
  omega

end Hts.Lemmas.Fai
