/-
ChunkReader proofs, part 5: `Read`, the client loop, `NewChunkReader`.
-/
import Hts.Lemmas.CRStep
namespace Hts.Model.Bgzf
open Hts.Spec.Flat

theorem CRInv.rem_lt {F : File} {r : Reader} {xs : List CSpec} {pos rem : Nat} (h : CRInv F r xs pos rem) :
    rem < F.length := by
  obtain ⟨pre, m, post, k, hat, _, _, hrem⟩ := h.at_
  rw [hrem, hat.split]; simp; omega

/-- One `ChunkReader.Read`. -/
theorem read_spec {F : File} (hwf : WF F) {r : Reader} {xs : List CSpec} {pos rem : Nat}
    (h : CRInv F r xs pos rem) (n : Nat) :
    StepOK F xs pos rem n ((ChunkReader.mk r (xs.map (·.c))).read n) := by
  rcases advance_spec hwf xs r pos rem h with ⟨r', ch, e1, e2⟩ | ⟨r', x, xs', pos', rem', e1, e2, e3, e4, e5⟩
  · simp only [ChunkReader.read, e1]
    refine ⟨fun hc => (by cases hc), fun e he => ?_⟩
    simp only [Option.some.injEq] at he
    exact ⟨he.symm, e2⟩
  · have hcore := readCore_spec hwf e2 e4 n
    have hread : (ChunkReader.mk r (xs.map (·.c))).read n =
        ChunkReader.readCore r' x.c (xs'.map (·.c)) n := by
      simp [ChunkReader.read, e1]
    rw [hread]
    have hmu : mu F (x :: xs') rem' pos' ≤ mu F xs rem pos := by
      rcases e5 with ⟨h1, h2, h3⟩ | h1
      · rw [h1, h2, h3]; exact Nat.le_refl _
      · simp only [mu, e3]
        have := e2.rem_lt
        have : (x :: xs').length * (F.length + 2) + (F.length + 2) ≤ xs.length * (F.length + 2) := by
          rw [← Nat.succ_mul]; exact Nat.mul_le_mul_right _ h1
        omega
    refine ⟨fun hn => ?_, fun e he => ?_⟩
    · obtain ⟨xs'', pos'', rem'', a1, a2, a3, a4⟩ := hcore.ok hn
      exact ⟨xs'', pos'', rem'', a1, a2, by rw [e3]; exact a3, fun hn0 => Nat.lt_of_lt_of_le (a4 hn0) hmu⟩
    · have := hcore.err e he
      exact ⟨this.1, by rw [e3]; exact this.2⟩

/-- **The client loop.** With any buffer sizes the bytes seen are a prefix of what is to be delivered; the
only error is `io.EOF`, and when it arrives everything has been delivered; with non-empty buffers it
arrives after at most `mu` calls. -/
theorem readAll_spec {F : File} (hwf : WF F) :
    ∀ (ns : List Nat) (r : Reader) (xs : List CSpec) (pos rem : Nat), CRInv F r xs pos rem →
      (∃ rest, todo F xs pos = ((ChunkReader.mk r (xs.map (·.c))).readAll ns).1 ++ rest) ∧
      (((ChunkReader.mk r (xs.map (·.c))).readAll ns).2 = none ∨
        ((ChunkReader.mk r (xs.map (·.c))).readAll ns).2 = some .eof) ∧
      (((ChunkReader.mk r (xs.map (·.c))).readAll ns).2 = some .eof →
        ((ChunkReader.mk r (xs.map (·.c))).readAll ns).1 = todo F xs pos) ∧
      ((∀ n ∈ ns, 0 < n) → mu F xs rem pos < ns.length →
        ((ChunkReader.mk r (xs.map (·.c))).readAll ns).2 = some .eof) := by
  intro ns
  induction ns with
  | nil =>
    intro r xs pos rem _
    exact ⟨⟨_, rfl⟩, Or.inl rfl, fun hc => (by cases hc), fun _ hlt => by simp at hlt⟩
  | cons n ns ih =>
    intro r xs pos rem h
    have hstep := read_spec hwf h n
    rcases hrd : (ChunkReader.mk r (xs.map (·.c))).read n with ⟨cr', out, e⟩
    rw [hrd] at hstep
    cases e with
    | some e =>
      have ⟨he, htd⟩ := hstep.err e rfl
      subst he
      simp only [ChunkReader.readAll, hrd]
      exact ⟨⟨[], by simp [htd]⟩, Or.inr trivial, fun _ => htd.symm, fun _ _ => trivial⟩
    | none =>
      obtain ⟨xs', pos', rem', a1, a2, a3, a4⟩ := hstep.ok rfl
      simp only at a1 a2 a3 a4
      have hcr : cr' = ChunkReader.mk cr'.r (xs'.map (·.c)) := by
        cases cr'; simp only at a1; rw [a1]
      have ⟨i1, i2, i3, i4⟩ := ih cr'.r xs' pos' rem' a2
      rw [← hcr] at i1 i2 i3 i4
      simp only [ChunkReader.readAll, hrd]
      rcases hra : cr'.readAll ns with ⟨bytes, e'⟩
      rw [hra] at i1 i2 i3 i4
      simp only at i1 i2 i3 i4 ⊢
      obtain ⟨rest, hrest⟩ := i1
      refine ⟨⟨rest, by rw [a3, hrest, List.append_assoc]⟩, i2, fun he => by rw [a3, i3 he], fun hpos hlt => ?_⟩
      apply i4 (fun m hm => hpos m (by simp [hm]))
      have := a4 (hpos n (by simp))
      simp at hlt; omega

/-- Upper bound on the number of `Read` calls with non-empty buffers before `io.EOF`. -/
def readBound (F : File) (xs : List CSpec) : Nat :=
  xs.length * (F.length + 2) + F.length + (expected F xs).length

/-- `NewChunkReader` and the whole client loop, from any state of the underlying reader. -/
theorem chunkReader_spec {F : File} (hwf : WF F) {r0 : Reader} {s : State} (hsim : Sim F r0 s)
    (xs : List CSpec) (hv : ∀ x ∈ xs, x.Valid F) (ho : Ordered xs) :
    ∃ cr, ChunkReader.new r0 (xs.map (·.c)) = .ok cr ∧ ∀ ns : List Nat,
      (∃ rest, expected F xs = (cr.readAll ns).1 ++ rest) ∧
      ((cr.readAll ns).2 = none ∨ (cr.readAll ns).2 = some .eof) ∧
      ((cr.readAll ns).2 = some .eof → (cr.readAll ns).1 = expected F xs) ∧
      ((∀ n ∈ ns, 0 < n) → readBound F xs < ns.length → (cr.readAll ns).2 = some .eof) := by
  cases xs with
  | nil =>
    refine ⟨⟨r0.setBlocked true, []⟩, rfl, fun ns => ?_⟩
    cases ns with
    | nil => exact ⟨⟨[], rfl⟩, Or.inl rfl, fun hc => (by cases hc), fun _ hlt => by simp at hlt⟩
    | cons n ns =>
      have : (ChunkReader.mk (r0.setBlocked true) []).readAll (n :: ns) = ([], some .eof) := by
        simp [ChunkReader.readAll, ChunkReader.read, ChunkReader.advance]
      rw [this]
      exact ⟨⟨[], rfl⟩, Or.inr rfl, fun _ => rfl, fun _ _ => rfl⟩
  | cons x rest =>
    have hvx := hv x (by simp)
    have hsb := sim_setBlocked hsim true
    have ⟨k1, k2, k3, pre', m', post', k4, k5, k6⟩ := seek_at hwf hsb x.c.bgn x.p hvx.bgn
    rcases hsk : (r0.setBlocked true).seek x.c.bgn with ⟨r1, e⟩
    rw [hsk] at k1 k2 k3 k4
    simp only at k1 k2 k3 k4
    subst k1
    have hinv : CRInv F r1 (x :: rest) x.p post'.length := by
      refine ⟨hv, ho, k3, ⟨pre', m', post', _, k4, k6, by rw [k2]; exact k5, rfl⟩, ?_⟩
      intro w ws hw
      simp only [List.cons.injEq] at hw
      rw [← hw.1]; exact ⟨Nat.le_refl _, hvx.le⟩
    refine ⟨⟨r1, (x :: rest).map (·.c)⟩, by simp [ChunkReader.new, hsk], fun ns => ?_⟩
    have ⟨i1, i2, i3, i4⟩ := readAll_spec hwf ns r1 (x :: rest) x.p post'.length hinv
    refine ⟨i1, i2, i3, fun hpos hlt => i4 hpos (Nat.lt_of_le_of_lt ?_ hlt)⟩
    have := hinv.rem_lt
    simp only [mu, readBound, todo_head]
    omega

end Hts.Model.Bgzf
