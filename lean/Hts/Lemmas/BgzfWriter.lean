/-
Lemmas about the sequential writer model (Hts.Model.BgzfWriter): what `writeLoop` computes, and the
invariant of the writer state over arbitrary scripts.
-/
import Hts.Model.BgzfWriter
namespace Hts.Model.BgzfWriter
variable {α : Type}

/-- every block in `e` has between 1 and `bs` elements -/
def BlocksOK (bs : Nat) (e : List (List α)) : Prop := ∀ blk ∈ e, 1 ≤ blk.length ∧ blk.length ≤ bs

theorem BlocksOK.append {bs : Nat} {e : List (List α)} {blk : List α} (he : BlocksOK bs e)
    (h1 : 1 ≤ blk.length) (h2 : blk.length ≤ bs) : BlocksOK bs (e ++ [blk]) := by
  intro x hx
  rcases List.mem_append.mp hx with h | h
  · exact he x h
  · simp at h; subst h; exact ⟨h1, h2⟩

/-- `writeLoop` loses and invents nothing. -/
theorem writeLoop_flatten (bs : Nat) (hbs : 0 < bs) (b a : List α) (e : List (List α)) :
    (writeLoop bs hbs b a e).2.flatten ++ (writeLoop bs hbs b a e).1 = e.flatten ++ a ++ b := by
  fun_induction writeLoop bs hbs b a e with
  | case1 a e => simp
  | case2 b a e hb hc n active' hemit ih =>
    rw [ih]; simp [active', List.append_assoc]
  | case3 b a e hb hc n active' hemit ih =>
    rw [ih]; simp [active', List.append_assoc]
  | case4 b a e hb hc ih =>
    rw [ih]; simp

/-- Starting below the block size with well-sized blocks, `writeLoop` ends below the block size with
well-sized blocks. -/
theorem writeLoop_blocks (bs : Nat) (hbs : 0 < bs) (b a : List α) (e : List (List α))
    (ha : a.length < bs) (he : BlocksOK bs e) :
    (writeLoop bs hbs b a e).1.length < bs ∧ BlocksOK bs (writeLoop bs hbs b a e).2 := by
  fun_induction writeLoop bs hbs b a e with
  | case1 a e => exact ⟨ha, he⟩
  | case2 b a e hb hc n active' hemit ih =>
    have hpos : 0 < b.length := List.length_pos_iff.mpr hb
    have hn : 1 ≤ n := by simp only [n]; omega
    have hl : active'.length = a.length + n := by simp [active', n] <;> omega
    apply ih hbs
    · exact BlocksOK.append he (by omega) (by simp only [n] at hl hn ⊢; omega)
  | case3 b a e hb hc n active' hemit ih =>
    have hpos : 0 < b.length := List.length_pos_iff.mpr hb
    have hl : active'.length = a.length + n := by simp [active', n] <;> omega
    apply ih _ he
    have : active'.length ≠ bs := fun h => hemit (Or.inl h)
    simp only [n] at hl; omega
  | case4 b a e hb hc ih =>
    apply ih hbs
    exact BlocksOK.append he (by omega) (by omega)

/-- A payload that fits into the room left in the active block is appended to it; the block is
queued exactly when that fills it. -/
theorem writeLoop_fits (bs : Nat) (hbs : 0 < bs) (b a : List α) (e : List (List α))
    (hb : b ≠ []) (hfit : a.length + b.length ≤ bs) :
    writeLoop bs hbs b a e = if a.length + b.length = bs then ([], e ++ [a ++ b]) else (a ++ b, e) := by
  have hpos : 0 < b.length := List.length_pos_iff.mpr hb
  have hn : min b.length (bs - a.length) = b.length := by omega
  rw [writeLoop]
  simp only [hb, dite_false, hfit, or_true, dite_true, hn, List.take_length, List.drop_length, List.length_append]
  have h0 : ¬ b.length = 0 := by omega
  simp only [h0, or_false]
  split <;> (rw [writeLoop]; simp)

/-- A payload of at most one block that does not fit into the room left makes the writer queue the
active block first and then lands in a block of its own. -/
theorem writeLoop_nofit (bs : Nat) (hbs : 0 < bs) (b a : List α) (e : List (List α))
    (ha : a ≠ []) (hal : a.length ≤ bs) (hnofit : bs < a.length + b.length) (hb : b.length ≤ bs) :
    writeLoop bs hbs b a e = if b.length = bs then ([], e ++ [a] ++ [b]) else (b, e ++ [a]) := by
  have hane : ¬ a.length = 0 := by simpa using ha
  have hbne : b ≠ [] := by intro h; subst h; simp at hnofit; omega
  rw [writeLoop]
  have hc : ¬ (a.length = 0 ∨ a.length + b.length ≤ bs) := by omega
  simp only [hbne, dite_false, hc]
  rw [writeLoop_fits bs hbs b [] _ hbne (by simpa using hb)]
  simp

/-- A payload longer than a block that arrives at an empty active block is cut at the block size. -/
theorem writeLoop_split (bs : Nat) (hbs : 0 < bs) (b : List α) (e : List (List α)) (hb : bs < b.length) :
    writeLoop bs hbs b [] e = writeLoop bs hbs (b.drop bs) [] (e ++ [b.take bs]) := by
  have hne : b ≠ [] := by intro h; subst h; simp at hb
  have hn : min b.length (bs - 0) = bs := by omega
  rw [writeLoop]
  simp only [hne, dite_false, List.length_nil, true_or, dite_true, hn, List.nil_append, List.length_take]
  rw [if_pos (Or.inl (by omega))]

/-- Invariant of the writer state at API-call boundaries. -/
structure Inv (bs : Nat) (s : State α) : Prop where
  /-- the active block is never full (a full block is queued at once) -/
  active_lt : s.active.length < bs
  /-- not closed: every queued block has 1..bs bytes -/
  open_blocks : s.closed = false → BlocksOK bs s.emitted
  /-- closed: the queue is the data blocks (1..bs bytes each) followed by the block Close queued,
  which may be empty; nothing is left in the active block -/
  closed_blocks : s.closed = true →
    s.active = [] ∧ ∃ pre last, s.emitted = pre ++ [last] ∧ BlocksOK bs pre ∧ last.length < bs

theorem Inv.init (bs : Nat) (hbs : 0 < bs) : Inv bs (State.init : State α) :=
  ⟨by simpa [State.init] using hbs, by intro _ x hx; simp [State.init] at hx, by intro h; simp [State.init] at h⟩

theorem step_inv (bs : Nat) (hbs : 0 < bs) (s : State α) (op : Op α) (h : Inv bs s) :
    Inv bs (step bs hbs s op).1 := by
  cases op with
  | write b =>
    simp only [step, write]
    cases hc : s.closed with
    | true => simpa using h
    | false =>
      have := writeLoop_blocks bs hbs b s.active s.emitted h.active_lt (h.open_blocks hc)
      simp only [Bool.false_eq_true, if_false]
      exact ⟨this.1, fun _ => this.2, by intro h'; simp at h'⟩
  | flush =>
    simp only [step, flush]
    cases hc : s.closed with
    | true => simpa using h
    | false =>
      simp only [Bool.false_eq_true, if_false]
      split
      · exact h
      · rename_i hne
        refine ⟨by simpa using hbs, fun _ => ?_, by intro h'; simp at h'⟩
        exact BlocksOK.append (h.open_blocks hc) (by omega) (Nat.le_of_lt h.active_lt)
  | wait => simpa [step, wait] using h
  | close =>
    simp only [step, close]
    cases hc : s.closed with
    | true => simpa using h
    | false =>
      simp only [Bool.false_eq_true, if_false]
      exact ⟨by simpa using hbs, by intro h'; simp at h',
        fun _ => ⟨rfl, s.emitted, s.active, rfl, h.open_blocks hc, h.active_lt⟩⟩

theorem run_inv (bs : Nat) (hbs : 0 < bs) (s : State α) (ops : List (Op α)) (h : Inv bs s) :
    Inv bs (run bs hbs s ops).1 := by
  induction ops generalizing s with
  | nil => simpa [run] using h
  | cons op ops ih =>
    simp only [run]
    exact ih _ (step_inv bs hbs s op h)

/-- bytes held by the writer: queued blocks then the active block -/
def State.held (s : State α) : List α := s.emitted.flatten ++ s.active

theorem step_held (bs : Nat) (hbs : 0 < bs) (s : State α) (op : Op α) :
    (step bs hbs s op).1.held = s.held ++ (if s.closed then [] else accepted [op]) := by
  cases op with
  | write b =>
    simp only [step, write, accepted]
    cases hc : s.closed with
    | true => simp
    | false =>
      simp only [Bool.false_eq_true, if_false, State.held]
      have := writeLoop_flatten bs hbs b s.active s.emitted
      simpa using this
  | flush =>
    simp only [step, flush, accepted, State.held]
    cases hc : s.closed <;> simp
    split <;> simp
  | wait => simp [step, wait, accepted]
  | close =>
    simp only [step, close, accepted, State.held]
    cases hc : s.closed <;> simp

theorem step_closed (bs : Nat) (hbs : 0 < bs) (s : State α) (op : Op α) :
    (step bs hbs s op).1.closed = (s.closed || match op with | .close => true | _ => false) := by
  cases op <;> simp only [step, write, flush, wait, close] <;> cases hc : s.closed <;> simp [hc]
  split <;> simp [hc]

theorem run_held_closed (bs : Nat) (hbs : 0 < bs) (s : State α) (ops : List (Op α)) (hc : s.closed = true) :
    (run bs hbs s ops).1.held = s.held := by
  induction ops generalizing s with
  | nil => simp [run]
  | cons op ops ih =>
    simp only [run]
    rw [ih _ (by rw [step_closed]; simp [hc]), step_held]; simp [hc]

/-- The writer holds exactly the accepted bytes, in order. -/
theorem run_held (bs : Nat) (hbs : 0 < bs) (s : State α) (ops : List (Op α)) (hc : s.closed = false) :
    (run bs hbs s ops).1.held = s.held ++ accepted ops := by
  induction ops generalizing s with
  | nil => simp [run, accepted]
  | cons op ops ih =>
    simp only [run]
    cases op with
    | close =>
      rw [run_held_closed _ _ _ _ (by rw [step_closed]; simp), step_held]; simp [hc, accepted]
    | write b =>
      rw [ih _ (by rw [step_closed]; simp [hc]), step_held]; simp [hc, accepted]
    | flush =>
      rw [ih _ (by rw [step_closed]; simp [hc]), step_held]; simp [hc, accepted]
    | wait =>
      rw [ih _ (by rw [step_closed]; simp [hc]), step_held]; simp [hc, accepted]

/-- a script closes the writer iff it contains a Close -/
def hasClose : List (Op α) → Bool
  | [] => false
  | .close :: _ => true
  | _ :: ops => hasClose ops

theorem run_closed (bs : Nat) (hbs : 0 < bs) (s : State α) (ops : List (Op α)) :
    (run bs hbs s ops).1.closed = (s.closed || hasClose ops) := by
  induction ops generalizing s with
  | nil => simp [run, hasClose]
  | cons op ops ih =>
    simp only [run]; rw [ih, step_closed]
    cases op <;> simp [hasClose]

/-- the writer state after a script, at the real block size -/
def after (ops : List (Op α)) : State α := (run BlockSize blockSize_pos State.init ops).1

theorem after_closed (ops : List (Op α)) : (after ops).closed = hasClose ops := by
  simpa [after, State.init] using run_closed BlockSize blockSize_pos (State.init : State α) ops

theorem after_inv (ops : List (Op α)) : Inv BlockSize (after ops) :=
  run_inv BlockSize blockSize_pos (State.init : State α) ops (Inv.init BlockSize blockSize_pos)

theorem after_held (ops : List (Op α)) : (after ops).emitted.flatten ++ (after ops).active = accepted ops := by
  have := run_held BlockSize blockSize_pos (State.init : State α) ops rfl
  simpa [after, State.held, State.init] using this

/-- after a Close every queued block has at most BlockSize bytes -/
theorem after_blocks_le (ops : List (Op α)) (hclose : hasClose ops = true) :
    ∀ p ∈ (after ops).emitted, p.length ≤ BlockSize := by
  have hcl : (after ops).closed = true := by rw [after_closed, hclose]
  obtain ⟨_, pre, last, hem, hpre, hlast⟩ := (after_inv ops).closed_blocks hcl
  intro p hp
  rw [hem] at hp
  rcases List.mem_append.mp hp with h' | h'
  · exact (hpre p h').2
  · simp at h'; subst h'; omega

/-- Demonstration script for any block size > 1: one payload of `bs + 1` bytes, Flush, Close gives blocks
of `bs`, 1 and 0 bytes. -/
theorem demo_split (bs : Nat) (hbs : 1 < bs) :
    ((run bs (by omega) State.init [Op.write (List.replicate (bs + 1) ()), Op.flush, Op.close]).1.emitted.map List.length)
    = [bs, 1, 0] := by
  have h1 : writeLoop bs (by omega) (List.replicate (bs + 1) ()) [] [] = ([()], [List.replicate bs ()]) := by
    rw [writeLoop_split _ _ _ _ (by rw [List.length_replicate]; omega)]
    rw [List.drop_replicate, List.take_replicate, Nat.add_sub_cancel_left, Nat.min_eq_left (Nat.le_succ _)]
    rw [writeLoop_fits _ _ _ _ _ (by simp) (by simp; omega)]
    have : ¬ (1 = bs) := by omega
    simp [this]
  simp only [run, step, write, flush, close, State.init, h1]
  simp

end Hts.Model.BgzfWriter
