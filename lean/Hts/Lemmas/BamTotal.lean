/-
The reader is total on arbitrary bytes: `Fault.panicAuxType` (the only panic outcome left in the model, a writer-side
one) is never an outcome of `parseAux`, `decodeBody`, `readRecord` or `readAll`; together with `*_ne_fuel` every read
ends in a record, `io.EOF` or a Go `error`.  Same case analyses as the fuel lemmas of Lemmas.BamStream.
-/
import Hts.Lemmas.BamStream
namespace Hts.Model.Bam

/-- no outcome of the `parseAux` loop is a panic -/
theorem parseAuxFuel_ne_panic : ∀ (fuel : Nat) (rest : List Byte) (acc : List (List Byte)),
    rest.length < fuel → parseAuxFuel fuel rest acc ≠ .error .panicAuxType := by
  intro fuel
  induction fuel with
  | zero => intro rest acc h; omega
  | succ f ih =>
    intro rest acc h
    unfold parseAuxFuel
    split
    · rename_i t0 t1 t v
      simp only [List.length_cons] at h
      simp only []
      split
      · split
        · simp
        · apply ih; simp only [List.length_drop, List.length_cons]; omega
      · split
        · split
          · split
            · simp
            · split
              · simp
              · split
                · split
                  · rename_i hd
                    intro hc; cases hc
                    rcases decodeHex_err _ _ hd with h' | h' <;> cases h'
                  · apply ih; simp only [List.length_drop, List.length_cons]; omega
                · apply ih; simp only [List.length_drop, List.length_cons]; omega
          · split
            · rename_i sub n0 n1 n2 n3 tl
              split
              · simp
              · rename_i he
                split
                · simp
                · rename_i hj
                  apply ih
                  have he' : isElemType sub = true := by simpa using he
                  have h1 := isElemType_jumps he'
                  have h0 : 0 ≤ (getU32 n0 n1 n2 n3 : Int) * jumps sub :=
                    Int.mul_nonneg (by omega) (by omega)
                  simp only [List.length_drop, List.length_cons] at h ⊢
                  generalize (getU32 n0 n1 n2 n3 : Int) * jumps sub = k at *
                  omega
            · simp
        · simp
    · simp

theorem parseAux_ne_panic (aux : List Byte) : parseAux aux ≠ .error .panicAuxType :=
  parseAuxFuel_ne_panic _ aux [] (by omega)


theorem linkRefs_ne_panic (n : Nat) (a b : Int) (r : Record) : linkRefs n a b r ≠ .error .panicAuxType := by
  unfold linkRefs
  repeat' split
  all_goals simp

theorem finish_ne_panic (n : Nat) (a b : Int) (bf : Buf) (r : Record) : finish n a b bf r ≠ .error .panicAuxType := by
  unfold finish
  split
  · simp
  · exact linkRefs_ne_panic _ _ _ _

theorem decodeBody_ne_panic (om : Omit) (n : Nat) (body : List Byte) : decodeBody om n body ≠ .error .panicAuxType := by
  unfold decodeBody
  simp only []
  split
  · simp
  · split
    · exact finish_ne_panic _ _ _ _ _
    · split
      · simp
      · split
        · exact finish_ne_panic _ _ _ _ _
        · split
          · rename_i hp
            intro hc; cases hc
            exact parseAux_ne_panic _ hp
          · exact finish_ne_panic _ _ _ _ _

theorem readRecord_ne_panic (om : Omit) (n : Nat) (s : List Byte) : readRecord om n s ≠ .fault .panicAuxType := by
  unfold readRecord
  split
  · simp
  · simp only []
    split
    · simp
    · split
      · simp
      · split
        · simp
        · split
          · rename_i hp
            intro hc; cases hc
            exact decodeBody_ne_panic _ _ _ hp
          · simp
  · simp


theorem readAllFuel_ne_panic (om : Omit) (n : Nat) : ∀ (fuel : Nat) (s : List Byte), s.length < fuel →
    (readAllFuel fuel om n s).2 ≠ some .panicAuxType := by
  intro fuel
  induction fuel with
  | zero => intro s h; omega
  | succ f ih =>
    intro s h
    unfold readAllFuel
    split
    · simp
    · rename_i flt hf
      simp only [ne_eq, Option.some.injEq]
      intro hc; subst hc
      exact readRecord_ne_panic om n s hf
    · rename_i r rest hr
      have := readRecord_rest_lt om n s r rest hr
      exact ih rest (by omega)

theorem readAll_ne_panic (om : Omit) (n : Nat) (s : List Byte) : (readAll om n s).2 ≠ some .panicAuxType :=
  readAllFuel_ne_panic om n _ s (by omega)

end Hts.Model.Bam
