/-
C07 helper lemmas, part 21: the clean sub-language of operations keeps every object and every header field
well-formed, so every live header of a world reached through clean operations is `ApiBuilt ∧ UriCanon`.
-/
import Hts.Lemmas.HeaderClean1
namespace Hts.Model.Header

theorem wfRef_uri_map {E : Ext} {n : Bytes} {d : RefD} (f : Nat × Bytes → Nat × Bytes) (hf : ∀ u, (f u).2 = u.2)
    (wf : WFRef E n d) : WFRef E n { d with uri := d.uri.map f } := by
  refine ⟨wf.name, wf.len, wf.md5, wf.asm, wf.sp, ?_, wf.other⟩
  intro p u hu
  cases hd : d.uri with
  | none => simp [hd] at hu
  | some pu =>
    simp only [hd, Option.map_some, Option.some.injEq] at hu
    have h2 := hf pu
    rw [hu] at h2
    simp only at h2
    exact wf.uri pu.1 u (by rw [hd, h2])

theorem wfRef_rename {E : Ext} {n n' : Bytes} {d : RefD} (hn : Clean n') (wf : WFRef E n d) : WFRef E n' d :=
  ⟨hn, wf.len, wf.md5, wf.asm, wf.sp, wf.uri, wf.other⟩

theorem wfRg_rename {E : Ext} {n n' : Bytes} {d : RgD} (hn : Clean n') (wf : WFRg E n d) : WFRg E n' d :=
  ⟨hn, wf.cn, wf.ds, wf.dt, wf.fo, wf.ks, wf.lb, wf.pg, wf.pi, wf.pl, wf.pu, wf.sm, wf.other⟩

theorem wfPg_rename {n n' : Bytes} {d : PgD} (hn : Clean n') (wf : WFPg n d) : WFPg n' d :=
  ⟨hn, wf.pn, wf.cl, wf.pp, wf.vn, wf.other⟩

theorem wfRef_inherit {E : Ext} {n n' : Bytes} {r er : RefD} (wr : WFRef E n r) (we : WFRef E n' er) :
    WFRef E n (inherit r er) := by
  unfold inherit
  refine ⟨wr.name, wr.len, ?_, ?_, ?_, ?_, ?_⟩
  · simp only; split
    · exact we.md5
    · exact wr.md5
  · simp only; split
    · exact we.asm
    · exact wr.asm
  · simp only; split
    · exact we.sp
    · exact wr.sp
  · simp only; intro p u hu
    split at hu
    · exact we.uri p u hu
    · exact wr.uri p u hu
  · simp only; split
    · exact we.other
    · exact wr.other

theorem dh_addReference {E : Ext} {k : KW RefD} (h : DH (WFRef E) k.heap) (hn o : Nat) :
    DH (WFRef E) (addReference k hn o).1.heap := by
  unfold addReference
  split
  · next r t hr _ =>
    split
    · split
      · exact h
      · next eo _ =>
        split
        · exact h
        · next er her =>
          split
          · exact h
          · split
            · exact h
            · split
              · exact h
              · refine dh_replace h _ _ _ _ _ ?_
                intro r' hr'
                rw [hr] at hr'; cases hr'
                exact wfRef_inherit (h o r hr) (h eo er her)
    · exact dh_addNew h hn o
  · exact h

theorem dh_mergeAdd {E : Ext} (hn : Nat) : ∀ (xs : List (Obj RefD)) (k : KW RefD) (p : Nat), DH (WFRef E) k.heap →
    (∀ x ∈ xs, WFRef E x.name x.dat) → DH (WFRef E) (mergeAdd k p hn xs).1.heap := by
  intro xs
  induction xs with
  | nil => intro k p h _; exact h
  | cons x xs ih =>
    intro k p h hx
    rw [mergeAdd]
    dsimp only
    have h1 : DH (WFRef E) (k.alloc { x with owner := none, id := -1, dat := freshUri p x.dat }).1.heap :=
      dh_alloc h _ (wfRef_uri_map _ (fun _ => rfl) (hx x List.mem_cons_self))
    have h2 := dh_addReference h1 hn (k.alloc { x with owner := none, id := -1, dat := freshUri p x.dat }).2
    generalize addReference _ hn _ = res at h2
    obtain ⟨k2, r⟩ := res
    cases r
    case ok => exact ih k2 (p + 1) h2 (fun y hy => hx y (List.mem_cons_of_mem _ hy))
    all_goals exact h2

theorem dh_mergeSources {E : Ext} (hn : Nat) : ∀ (ss : List Nat) (k : KW RefD) (p : Nat), DH (WFRef E) k.heap →
    DH (WFRef E) (mergeSources k p hn ss).1.heap := by
  intro ss
  induction ss with
  | nil => intro k p h; exact h
  | cons s ss ih =>
    intro k p h
    rw [mergeSources]
    have h1 := dh_mergeAdd hn (objsOf k s) k p h (fun x hx => by obtain ⟨o, ho⟩ := objsOf_mem hx; exact h o x ho)
    generalize mergeAdd k p hn (objsOf k s) = res at h1
    obtain ⟨k1, p1, r⟩ := res
    cases r
    case ok => exact ih k1 p1 h1
    all_goals exact h1

/-- the @HD fields of a header are well-formed (`WFHd` without the liveness flag) -/
structure HdOk (f : HdrF) : Prop where
  hd : f.version = [] → f.so = 0 ∧ f.go = 0 ∧ f.other = []
  ver : Clean f.version
  so : 0 ≤ f.so ∧ f.so ≤ 3
  go : 0 ≤ f.go ∧ f.go ≤ 3
  other : WFOther knownHd f.other
  comments : ∀ c ∈ f.comments, 10 ∉ c ∧ 13 ∉ c

theorem hdOk_empty : HdOk {} :=
  ⟨fun _ => ⟨rfl, rfl, rfl⟩, (by decide), (by decide), (by decide), wfOther_nil _, forall_nil⟩

theorem hdOk_dead : HdOk { dead := true } :=
  ⟨fun _ => ⟨rfl, rfl, rfl⟩, (by decide), (by decide), (by decide), wfOther_nil _, forall_nil⟩

/-- the data invariant of a world: every reference, read group, program and header is well-formed -/
structure DInv (E : Ext) (w : World) : Prop where
  refs : DH (WFRef E) w.refs.heap
  rgs : DH (WFRg E) w.rgs.heap
  pgs : DH WFPg w.pgs.heap
  hdrs : ∀ (h : Nat) (f : HdrF), w.hdrs[h]? = some f → HdOk f

theorem dinv_empty (E : Ext) : DInv E {} :=
  ⟨fun o x h => by simp at h, fun o x h => by simp at h, fun o x h => by simp at h, fun h f hf => by simp at hf⟩

theorem hdrs_snoc {w : World} (hd : ∀ (h : Nat) (f : HdrF), w.hdrs[h]? = some f → HdOk f) (f : HdrF) (hf : HdOk f) :
    ∀ (h : Nat) (f' : HdrF), (w.hdrs ++ [f])[h]? = some f' → HdOk f' := by
  intro h f' hf'
  rw [snoc_get] at hf'
  split at hf'
  · exact hd h f' hf'
  · split at hf'
    · cases hf'; exact hf
    · cases hf'

theorem hdrs_set {w : World} (hd : ∀ (h : Nat) (f : HdrF), w.hdrs[h]? = some f → HdOk f) (i : Nat) (f : HdrF)
    (hf : HdOk f) : ∀ (h : Nat) (f' : HdrF), (w.hdrs.set i f)[h]? = some f' → HdOk f' := by
  intro h f' hf'
  rw [List.getElem?_set] at hf'
  split at hf'
  · split at hf'
    · cases hf'; exact hf
    · cases hf'
  · exact hd h f' hf'

theorem dinv_pushHeader {E : Ext} {w : World} (d : DInv E w) (f : HdrF) (hf : HdOk f) : DInv E (pushHeader w f) :=
  ⟨d.refs, d.rgs, d.pgs, hdrs_snoc d.hdrs f hf⟩

theorem dinv_setHdr {E : Ext} {w : World} (d : DInv E w) (i : Nat) (f : HdrF) (hf : HdOk f) : DInv E (setHdr w i f) :=
  ⟨d.refs, d.rgs, d.pgs, hdrs_set d.hdrs i f hf⟩

theorem dinv_markDead {E : Ext} {w : World} (d : DInv E w) (i : Nat) : DInv E (markDead w i) := by
  unfold markDead
  split
  · next f hf =>
    have := d.hdrs i f hf
    exact dinv_setHdr d i _ ⟨this.hd, this.ver, this.so, this.go, this.other, this.comments⟩
  · exact d

theorem dinv_cloneHeader {E : Ext} {w : World} (d : DInv E w) (h : Nat) : DInv E (cloneHeader w h) := by
  unfold cloneHeader
  split
  · next f hf =>
    exact ⟨dh_cloneTab d.refs h, dh_cloneTab d.rgs h, dh_cloneTab d.pgs h, hdrs_snoc d.hdrs f (d.hdrs h f hf)⟩
  · exact dinv_pushHeader d _ hdOk_dead

theorem dinv_mergeInit {E : Ext} {w : World} (d : DInv E w) (s0 : Nat) : DInv E (mergeInit w s0) := by
  unfold mergeInit
  dsimp only
  have d1 := dinv_cloneHeader d s0
  split
  · next f hf =>
    have := d1.hdrs _ f hf
    exact dinv_setHdr d1 _ _ ⟨fun _ => ⟨rfl, rfl, (this.hd (by assumption)).2.2⟩, this.ver, (by simp), (by simp), this.other, this.comments⟩
  · exact d1

theorem dinv_mergeHeaders {E : Ext} {w : World} (d : DInv E w) (srcs : List Nat) : DInv E (mergeHeaders w srcs).1 := by
  unfold mergeHeaders
  split
  · next s0 s1 ss =>
    dsimp only
    have d2 := dinv_mergeInit d s0
    generalize mergeInit w s0 = w2 at d2
    have hk := dh_mergeSources (E := E) w.hdrs.length (s1 :: ss) w2.refs w2.nextUri d2.refs
    generalize mergeSources w2.refs w2.nextUri w.hdrs.length (s1 :: ss) = res at hk
    obtain ⟨k, p, r⟩ := res
    have d3 : DInv E { w2 with refs := k, nextUri := p } := ⟨hk, d2.rgs, d2.pgs, d2.hdrs⟩
    cases r
    case ok =>
      dsimp only
      split
      · exact d3
      · exact dinv_markDead d3 _
    all_goals exact dinv_markDead d3 _
  · exact dinv_pushHeader d _ hdOk_dead

theorem unmarshalText_nil (E : Ext) (w : World) (h : Nat) : unmarshalText E w h [] = (w, .ok) := by
  unfold unmarshalText
  have : splitOn 10 ([] : Bytes) = [[]] := rfl
  rw [this, parseLines]
  have : dropCR ([] : Bytes) = [] := rfl
  simp only [this, if_true, parseLines]

theorem dinv_newHeader_nil {E : Ext} {w : World} (d : DInv E w) (refs : List Nat) : DInv E (newHeader E w [] refs).1 := by
  unfold newHeader
  dsimp only
  have d1 := dinv_pushHeader d {} hdOk_empty
  split
  · exact dinv_markDead d1 _
  · rw [unmarshalText_nil]
    exact ⟨dh_foldl_addNewU _ refs _ d1.refs, d1.rgs, d1.pgs, d1.hdrs⟩

theorem dinv_refs {E : Ext} {w : World} (d : DInv E w) (k : KW RefD) (hk : DH (WFRef E) k.heap) (a b c : List (Option Nat))
    (p : Nat) : DInv E { w with refs := k, rpool := a, gpool := b, ppool := c, nextUri := p } := ⟨hk, d.rgs, d.pgs, d.hdrs⟩
theorem dinv_rgs {E : Ext} {w : World} (d : DInv E w) (k : KW RgD) (hk : DH (WFRg E) k.heap) (a b c : List (Option Nat))
    (p : Nat) : DInv E { w with rgs := k, rpool := a, gpool := b, ppool := c, nextUri := p } := ⟨d.refs, hk, d.pgs, d.hdrs⟩
theorem dinv_pgs {E : Ext} {w : World} (d : DInv E w) (k : KW PgD) (hk : DH WFPg k.heap) (a b c : List (Option Nat))
    (p : Nat) : DInv E { w with pgs := k, rpool := a, gpool := b, ppool := c, nextUri := p } := ⟨d.refs, d.rgs, hk, d.hdrs⟩
theorem dinv_pools {E : Ext} {w : World} (d : DInv E w) (a b c : List (Option Nat)) (p : Nat) :
    DInv E { w with rpool := a, gpool := b, ppool := c, nextUri := p } := ⟨d.refs, d.rgs, d.pgs, d.hdrs⟩

/-- a live header of a world with the data invariant is API-built with canonical URIs -/
theorem apiBuilt_of_dinv {E : Ext} {w : World} (d : DInv E w) {h : Nat} (hl : live w h = true) :
    ApiBuilt E (view w h) ∧ UriCanon E (view w h) := by
  unfold live at hl
  cases hf : w.hdrs[h]? with
  | none => simp [hf] at hl
  | some f =>
    simp only [hf, Bool.not_eq_true'] at hl
    have ok := d.hdrs h f hf
    have hrefs : ∀ r ∈ (view w h).refs, WFRef E r.2.1 r.2.2 := by
      intro r hr
      simp only [view, List.mem_map] at hr
      obtain ⟨e, he, rfl⟩ := hr
      obtain ⟨o, x, hx, rfl⟩ := items_mem he
      exact wfRef_uri_map _ (fun _ => rfl) (d.refs o x hx)
    refine ⟨⟨?_, ?_, ?_, ?_⟩, ?_⟩
    · have : (view w h).f = f := by simp [view, hf]
      rw [this]
      exact ⟨ok.hd, ok.ver, ok.so, ok.go, ok.other, hl, ok.comments⟩
    · intro r hr
      have a := hrefs r hr
      exact ⟨a.name, a.len, a.md5, a.asm, a.sp, fun p u hu => (a.uri p u hu).1, a.other⟩
    · intro r hr
      obtain ⟨o, x, hx, rfl⟩ := items_mem (show r ∈ items w.rgs h from hr)
      exact d.rgs o x hx
    · intro r hr
      obtain ⟨o, x, hx, rfl⟩ := items_mem (show r ∈ items w.pgs h from hr)
      exact d.pgs o x hx
    · intro r hr p u hu
      exact ((hrefs r hr).uri p u hu).2

end Hts.Model.Header

namespace Hts.Model.Header

theorem wfRef_bare (E : Ext) (n : Bytes) (l : Int) (hn : Clean n) (hl : validLen l = true) : WFRef E n { len := l } :=
  ⟨hn, hl, Or.inl rfl, (fun _ h => nomatch h), (fun _ h => nomatch h), (fun _ _ h => nomatch h), wfOther_nil _⟩

theorem wfRg_bare (E : Ext) (n : Bytes) (hn : Clean n) : WFRg E n {} :=
  ⟨hn, (by decide), (by decide), Or.inl rfl, (by decide), (by decide), (by decide), (by decide), (by decide), (by decide),
    (by decide), (by decide), wfOther_nil _⟩

theorem wfPg_bare (n : Bytes) (hn : Clean n) : WFPg n {} :=
  ⟨hn, (by decide), (by decide), (by decide), (by decide), wfOther_nil _⟩

end Hts.Model.Header
