/-
The faulty sequential reader with an empty oracle is the fault-free reader model of C02.
-/
import Hts.Model.BgzfReaderFaults
namespace Hts.Model.Bgzf
open Hts.Spec.Flat

theorem FReader.nextBlock_nofault (r : Reader) :
    (FReader.mk r []).nextBlock = (⟨r.nextBlock.1, []⟩, r.nextBlock.2) := by
  simp [FReader.nextBlock, FReader.loadAt, Reader.nextBlock]

theorem FReader.skipEmpty_nofault : ∀ (fuel : Nat) (r : Reader),
    (FReader.mk r []).skipEmpty fuel = ⟨r.skipEmpty fuel, []⟩ := by
  intro fuel
  induction fuel with
  | zero => intro r; simp [FReader.skipEmpty, Reader.skipEmpty, FReader.withR]
  | succ fuel ih =>
    intro r
    simp only [FReader.skipEmpty, Reader.skipEmpty, FReader.nextBlock_nofault]
    split
    · rcases hn : r.nextBlock with ⟨r', e⟩
      cases e with
      | some e => simp [FReader.withR]
      | none => simp only [FReader.withR]; exact ih _
    · rfl

theorem FReader.readLoop_nofault : ∀ (fuel : Nat) (r : Reader) (want : Nat),
    (FReader.mk r []).readLoop fuel want =
      (⟨(r.readLoop fuel want).1, []⟩, (r.readLoop fuel want).2.1, (r.readLoop fuel want).2.2) := by
  intro fuel
  induction fuel with
  | zero => intro r want; simp [FReader.readLoop, Reader.readLoop, FReader.withR]
  | succ fuel ih =>
    intro r want
    obtain ⟨rf, rc, rl, re, rb⟩ := r
    simp only [FReader.readLoop, Reader.readLoop]
    split
    · rcases hrd : rc.read want with ⟨out, eof, b⟩
      cases eof with
      | false => simp only [FReader.withR]; rw [ih]
      | true =>
        simp only [FReader.withR]
        by_cases h0 : want - out.length = 0
        · simp [h0]
        · simp only [h0, if_false]
          cases rb with
          | true => simp
          | false =>
            simp only [Bool.false_eq_true, if_false, FReader.nextBlock_nofault]
            rcases hn : (⟨rf, b, rl, some Err.eof, false⟩ : Reader).nextBlock with ⟨r', e⟩
            cases e with
            | some e => simp
            | none => simp only; rw [ih]
    · rfl

/-- With an empty oracle the faulty model is the fault-free model of C02 (`Reader.read`, the loops, `seek`). -/
theorem FReader.read_nofault (r : Reader) (n : Nat) :
    (FReader.mk r []).read n = (⟨(r.read n).1, []⟩, (r.read n).2.1, (r.read n).2.2) := by
  simp only [FReader.read, Reader.read]
  cases he : r.err with
  | some e => rfl
  | none =>
    simp only [FReader.skipEmpty_nofault]
    cases he2 : (r.skipEmpty r.skipFuel).err with
    | some e => rfl
    | none => simp [FReader.withR, FReader.readLoop_nofault, he2]

theorem FReader.seek_nofault (r : Reader) (o : Offset) :
    (FReader.mk r []).seek o = (⟨(r.seek o).1, []⟩, (r.seek o).2) := by
  simp only [FReader.seek, Reader.seek, FReader.loadAt]
  split
  · rcases hl : r.cur.load r.file o.file with ⟨b, e⟩
    cases e <;> simp [FReader.withR]
  · simp [FReader.withR]

end Hts.Model.Bgzf
