/-
C19 helper lemmas, part 9: `Seq.Read` over ANY `io.ReaderAt` (the reader may report io.EOF together with a complete
read that ends at the end of the file).  The bases delivered are the same; an io.EOF is only ever returned when the
segment has been delivered completely.
-/
import Hts.Lemmas.FaiRead
set_option linter.unusedVariables false
set_option linter.unusedSimpArgs false
namespace Hts.Lemmas.Fai
open Hts.Model.Fai

theorem readLoopE_lt (eager : Nat → Nat → Bool) (file : Bytes) (pos eol : Nat → Nat) (endPos stop cur k : Nat)
    (acc : Bytes) (h : cur < stop) :
    readLoopE eager file pos eol endPos stop cur k acc =
      if endPos ≤ pos cur then ⟨acc, .badLayout, cur⟩
      else
        if min (min (eol cur) (endPos - pos cur)) k = 0 then ⟨acc, .badLayout, cur⟩
        else
          if (readAt file (pos cur) (min (min (eol cur) (endPos - pos cur)) k)).length <
              min (min (eol cur) (endPos - pos cur)) k then
            ⟨acc ++ readAt file (pos cur) (min (min (eol cur) (endPos - pos cur)) k), .eof,
              cur + (readAt file (pos cur) (min (min (eol cur) (endPos - pos cur)) k)).length⟩
          else if eager (pos cur) (min (min (eol cur) (endPos - pos cur)) k) = true ∧
              pos cur + min (min (eol cur) (endPos - pos cur)) k = file.length then
            ⟨acc ++ readAt file (pos cur) (min (min (eol cur) (endPos - pos cur)) k), .eof,
              cur + (readAt file (pos cur) (min (min (eol cur) (endPos - pos cur)) k)).length⟩
          else if k - (readAt file (pos cur) (min (min (eol cur) (endPos - pos cur)) k)).length = 0 then
            ⟨acc ++ readAt file (pos cur) (min (min (eol cur) (endPos - pos cur)) k), .nil,
              cur + (readAt file (pos cur) (min (min (eol cur) (endPos - pos cur)) k)).length⟩
          else readLoopE eager file pos eol endPos stop
            (cur + (readAt file (pos cur) (min (min (eol cur) (endPos - pos cur)) k)).length)
            (k - (readAt file (pos cur) (min (min (eol cur) (endPos - pos cur)) k)).length)
            (acc ++ readAt file (pos cur) (min (min (eol cur) (endPos - pos cur)) k)) := by
  rw [readLoopE, dif_pos h]
  rfl

theorem readLoopE_ge (eager : Nat → Nat → Bool) (file : Bytes) (pos eol : Nat → Nat) (endPos stop cur k : Nat)
    (acc : Bytes) (h : ¬ cur < stop) :
    readLoopE eager file pos eol endPos stop cur k acc = ⟨acc, .eof, cur⟩ := by
  rw [readLoopE, dif_neg h]

/-- a reader that never reports io.EOF with a complete read (bytes.Reader, os.File) gives the basic model -/
theorem readLoopE_false (file : Bytes) (pos eol : Nat → Nat) (endPos stop : Nat) :
    ∀ (n cur k : Nat) (acc : Bytes), stop - cur ≤ n →
      readLoopE (fun _ _ => false) file pos eol endPos stop cur k acc =
        readLoopG file pos eol endPos stop cur k acc := by
  intro n
  induction n with
  | zero =>
    intro cur k acc hn
    have : ¬ cur < stop := by omega
    rw [readLoopE_ge _ _ _ _ _ _ _ _ _ this, readLoopG_ge _ _ _ _ _ _ _ _ this]
  | succ n ih =>
    intro cur k acc hn
    by_cases hlt : cur < stop
    · rw [readLoopE_lt _ _ _ _ _ _ _ _ _ hlt, readLoopG_lt _ _ _ _ _ _ _ _ hlt]
      simp only [Bool.false_eq_true, false_and, if_false]
      split
      · rfl
      · split
        · rfl
        · split
          · rfl
          · split
            · rfl
            · apply ih
              omega
    · rw [readLoopE_ge _ _ _ _ _ _ _ _ _ hlt, readLoopG_ge _ _ _ _ _ _ _ _ hlt]

theorem readE_false (file : Bytes) (s : Seq) (k : Nat) : s.readE (fun _ _ => false) file k = s.read file k := by
  unfold Seq.readE Seq.read readLoop
  split
  · rfl
  · split
    · rfl
    · split
      · rfl
      · exact readLoopE_false file _ _ _ _ _ _ _ _ (Nat.le_refl _)

theorem readCallsE_false (file : Bytes) (ks : List Nat) :
    ∀ (s : Seq), readCallsE (fun _ _ => false) file s ks = readCalls file s ks := by
  induction ks with
  | nil => intro s; rfl
  | cons k ks ih =>
    intro s
    simp only [readCallsE, readCalls, readE_false]
    split <;> simp_all

/-- what one `Read` call does over any reader, as properties of its result -/
structure CallOK (B : Bytes) (stop cur k : Nat) (acc : Bytes) (res : RdRes) : Prop where
  hdata : res.data = acc ++ (B.drop cur).take (min k (stop - cur))
  hcur : res.cur = cur + min k (stop - cur)
  herr : res.err = .nil ∨ res.err = .eof
  eof_done : res.err = .eof → res.cur = stop
  eof_short : stop - cur < k → res.err = .eof

theorem readLoopE_spec (eager : Nat → Nat → Bool) (F : Bytes) (R : Record) (B : Bytes) (g : Good F R B)
    (stop : Nat) (hstop : stop ≤ B.length) :
    ∀ (n cur k : Nat) (acc : Bytes), stop - cur ≤ n → cur ≤ stop → 1 ≤ k →
      CallOK B stop cur k acc
        (readLoopE eager F R.position R.endOfLineOffset (R.position stop) stop cur k acc) := by
  intro n
  induction n with
  | zero =>
    intro cur k acc hn hcs hk
    have : ¬ cur < stop := by omega
    rw [readLoopE_ge _ _ _ _ _ _ _ _ _ this]
    have e : stop - cur = 0 := by omega
    refine ⟨by simp [e], by simp [e], Or.inr rfl, fun _ => by simp only; omega, fun _ => rfl⟩
  | succ n ih =>
    intro cur k acc hn hcs hk
    by_cases hlt : cur < stop
    · have hBne : B ≠ [] := by
        intro h; rw [h] at hstop; simp at hstop; omega
      have hw := g.bpl_pos hBne
      have hL : stop ≤ R.length := by rw [g.len]; exact hstop
      obtain ⟨a1, a2, a3, a4⟩ := line_arith R.basesPerLine R.bytesPerLine cur stop R.length hw g.bpl_le hlt hL
      have hpos : ¬ (R.position stop ≤ R.position cur) := by
        rw [position_of_pos R _ hw, position_of_pos R _ hw]; omega
      have heol : R.endOfLineOffset cur =
          (if cur / R.basesPerLine = R.length / R.basesPerLine then R.length - cur
           else R.basesPerLine - cur % R.basesPerLine) := rfl
      have hsub : R.position stop - R.position cur =
          (stop / R.basesPerLine * R.bytesPerLine + stop % R.basesPerLine) -
          (cur / R.basesPerLine * R.bytesPerLine + cur % R.basesPerLine) := by
        rw [position_of_pos R _ hw, position_of_pos R _ hw]; omega
      have hwant : min (min (R.endOfLineOffset cur) (R.position stop - R.position cur)) k =
          min (min (R.endOfLineOffset cur) (stop - cur)) k := by
        rw [hsub, heol, a2]
      rw [← heol] at a3 a4
      generalize hE : R.endOfLineOffset cur = E at *
      have hgot : readAt F (R.position cur) (min (min E (stop - cur)) k) =
          (B.drop cur).take (min (min E (stop - cur)) k) := by
        apply g.slice
        · rw [g.len] at a4; omega
        · rw [hE]; omega
      have hgl : ((B.drop cur).take (min (min E (stop - cur)) k)).length = min (min E (stop - cur)) k := by
        rw [List.length_take, List.length_drop]; rw [g.len] at a4; omega
      rw [readLoopE_lt _ _ _ _ _ _ _ _ _ hlt]
      simp only [hpos, if_false, hE, hwant]
      have hw0 : ¬ (min (min E (stop - cur)) k = 0) := by omega
      simp only [hw0, if_false, hgot, hgl, Nat.lt_irrefl]
      generalize ha : min (min E (stop - cur)) k = a at *
      by_cases hearly : eager (R.position cur) a = true ∧ R.position cur + a = F.length
      · -- io.EOF together with a complete read that ends at the end of the file: the segment is complete
        simp only [hearly, and_self, if_true]
        have hdone : cur + a = stop := by
          -- otherwise base cur+a lies inside the file, after position cur + a = end of file
          apply Classical.byContradiction
          intro hne
          have hlt' : cur + a < stop := by omega
          have hq : cur + a + 1 ≤ B.length := by omega
          obtain ⟨b1, b2, b3, _⟩ := line_arith R.basesPerLine R.bytesPerLine cur (cur + a) R.length hw g.bpl_le
            (by omega) (by omega)
          rw [← heol] at b2
          have hge : R.position cur + a ≤ R.position (cur + a) := by
            rw [position_of_pos R _ hw, position_of_pos R _ hw]
            have : cur + a - cur = a := by omega
            rw [this] at b2
            omega
          obtain ⟨_, _, c3, _⟩ := line_arith R.basesPerLine R.bytesPerLine (cur + a) (cur + a + 1) R.length hw
            g.bpl_le (by omega) (by omega)
          have hs := g.slice (cur + a) 1 (by omega) c3
          have hl := congrArg List.length hs
          unfold readAt at hl
          rw [List.length_take, List.length_drop, List.length_take, List.length_drop] at hl
          omega
        refine ⟨?_, ?_, Or.inr rfl, fun _ => by simp only; omega, fun _ => rfl⟩
        · simp only; congr 2; omega
        · simp only; omega
      · simp only [hearly, if_false]
        by_cases hk0 : k - a = 0
        · simp only [hk0, if_true]
          have hmin : min k (stop - cur) = a := by omega
          refine ⟨(by rw [hmin]), (by rw [hmin]), Or.inl rfl, (fun h => by cases h), (fun h => by omega)⟩
        · simp only [hk0, if_false]
          have := ih (cur + a) (k - a) (acc ++ (B.drop cur).take a) (by omega) (by omega) (by omega)
          have hsplit : min k (stop - cur) = a + min (k - a) (stop - (cur + a)) := by omega
          refine ⟨?_, ?_, this.herr, ?_, ?_⟩
          · rw [this.hdata, hsplit, List.take_add, List.drop_drop, List.append_assoc]
          · rw [this.hcur, hsplit]; omega
          · exact this.eof_done
          · intro h; exact this.eof_short (by omega)
    · have e : stop - cur = 0 := by omega
      rw [readLoopE_ge _ _ _ _ _ _ _ _ _ hlt]
      refine ⟨by simp [e], by simp [e], Or.inr rfl, fun _ => by simp only; omega, fun _ => rfl⟩

/-- one `Read` call over any reader -/
theorem readE_spec (eager : Nat → Nat → Bool) (F : Bytes) (R : Record) (B : Bytes) (g : Good F R B) (s : Seq)
    (hs : s.rcd = R) (h1 : s.cur ≤ s.stop) (h2 : s.stop ≤ B.length) (k : Nat) (hk : 1 ≤ k) :
    CallOK B s.stop s.cur k [] (s.readE eager F k) := by
  unfold Seq.readE
  have hk0 : ¬ k = 0 := by omega
  simp only [hk0, if_false]
  by_cases hc : s.stop ≤ s.cur
  · have e : s.stop - s.cur = 0 := by omega
    simp only [hc, if_true]
    refine ⟨by simp [e], by simp [e], Or.inr rfl, fun _ => by simp only; omega, fun _ => rfl⟩
  · simp only [hc, if_false]
    have hBne : B ≠ [] := by
      intro h; rw [h] at h2; simp at h2; omega
    have hw := g.bpl_pos hBne
    rw [hs]
    have : ¬ (R.basesPerLine = 0) := by omega
    simp only [this, if_false]
    exact readLoopE_spec eager F R B g s.stop h2 (s.stop - s.cur) s.cur k [] (Nat.le_refl _) h1 hk

/-- a run of `Read` calls with positive buffer sizes over any reader: the bytes are the next
`min (stop-cur) Σk` bases; every error is nil or io.EOF; with enough buffer space the run is nil-calls followed
by exactly one io.EOF -/
theorem readCallsE_spec (eager : Nat → Nat → Bool) (F : Bytes) (R : Record) (B : Bytes) (g : Good F R B)
    (start stop : Nat) (h2 : stop ≤ B.length) (ks : List Nat) (hks : ∀ k ∈ ks, 1 ≤ k) :
    ∀ cur, cur ≤ stop →
      ((readCallsE eager F ⟨R, cur, start, stop⟩ ks).map (·.1)).flatten =
          (B.drop cur).take (min (stop - cur) ks.sum) ∧
      (stop - cur < ks.sum → ∃ pre d, readCallsE eager F ⟨R, cur, start, stop⟩ ks = pre ++ [(d, .eof)] ∧
          ∀ x ∈ pre, x.2 = .nil) ∧
      (∀ x ∈ readCallsE eager F ⟨R, cur, start, stop⟩ ks, x.2 = .nil ∨ x.2 = .eof) := by
  induction ks with
  | nil =>
    intro cur hc
    refine ⟨by simp [readCallsE], fun h => by simp at h, fun x hx => by simp [readCallsE] at hx⟩
  | cons k ks ih =>
    intro cur hc
    have hk := hks k List.mem_cons_self
    have c := readE_spec eager F R B g ⟨R, cur, start, stop⟩ rfl hc h2 k hk
    simp only at c
    simp only [readCallsE, List.sum_cons]
    rcases c.herr with he | he
    · -- nil: the buffer was filled, the run continues
      have hkle : k ≤ stop - cur := by
        apply Classical.byContradiction; intro h
        have := c.eof_short (by omega); rw [he] at this; cases this
      have hm : min k (stop - cur) = k := by omega
      rw [he]
      simp only
      rw [c.hcur, hm]
      obtain ⟨i1, i2, i3⟩ := ih (fun x hx => hks x (List.mem_cons_of_mem _ hx)) (cur + k) (by omega)
      refine ⟨?_, ?_, ?_⟩
      · simp only [List.map_cons, List.flatten_cons, i1, c.hdata, hm, List.nil_append]
        have : min (stop - cur) (k + ks.sum) = k + min (stop - (cur + k)) ks.sum := by omega
        rw [this, List.take_add, List.drop_drop]
      · intro h
        obtain ⟨pre, d, e1, e2⟩ := i2 (by omega)
        refine ⟨(_, .nil) :: pre, d, by rw [e1]; rfl, ?_⟩
        intro x hx
        rcases List.mem_cons.mp hx with rfl | hx
        · rfl
        · exact e2 x hx
      · intro x hx
        rcases List.mem_cons.mp hx with rfl | hx
        · exact Or.inl rfl
        · exact i3 x hx
    · -- io.EOF: the segment is complete and the run stops
      have hdone := c.eof_done he
      rw [c.hcur] at hdone
      rw [he]
      simp only
      refine ⟨?_, fun _ => ⟨[], _, rfl, by simp⟩, ?_⟩
      · simp only [List.map_cons, List.map_nil, List.flatten_cons, List.flatten_nil, List.append_nil, c.hdata,
          List.nil_append]
        congr 1; omega
      · intro x hx
        simp only [List.mem_singleton] at hx
        rw [hx]; exact Or.inr rfl

end Hts.Lemmas.Fai
