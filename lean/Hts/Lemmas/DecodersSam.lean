/-
C11 on the SAM text model of C06 (`Hts.Model.SamText`, tied to the code by C06's correspondence
check): no `Fault.panic` outcome is reachable from `ParseCigar`, `ParseAux`, `Record.UnmarshalSAM` or the
`sam.Reader` loops, for arbitrary bytes.  Core Lean only.

In that model the two places where the Go code could panic are explicit: `NewCigarOp` with a negative
length (`emitOps … = none`) and `Cigar.IsValid` reaching `Consumes` of an undefined operation
(`cigarIsValid … = none`); field access `f[0]..f[10]`, `f[11:]` is the pattern match on at least eleven
fields (the `len(f) < 11` test), `text[0..4]`/`text[5:]` the pattern match on at least five bytes.
-/
import Hts.Model.SamText
import Hts.Model.DecodersSam
import Hts.Lemmas.Decoders
namespace Hts.Model.SamText

theorem bind_ne_panic {α β : Type} (x : Except Fault α) (f : α → Except Fault β)
    (hx : x ≠ .error .panic) (hf : ∀ a, f a ≠ .error .panic) : (x >>= f) ≠ .error .panic := by
  cases x with
  | error e =>
    intro h
    cases e with
    | err => cases h
    | panic => exact hx rfl
  | ok a => exact hf a

theorem map_ne_panic {α β : Type} (x : Except Fault α) (f : α → β)
    (hx : x ≠ .error .panic) : (x.map f) ≠ .error .panic := by
  cases x with
  | error e =>
    intro h
    cases e with
    | err => cases h
    | panic => exact hx rfl
  | ok a => intro h; cases h

theorem ofOpt_ne_panic {α : Type} (o : Option α) : ofOpt o ≠ .error .panic := by
  cases o <;> intro h <;> cases h

theorem mapM_ne_panic {α β : Type} (f : α → Except Fault β) (hf : ∀ a, f a ≠ .error .panic) :
    ∀ l : List α, l.mapM f ≠ .error .panic := by
  intro l
  induction l with
  | nil => intro h; simp [pure, Except.pure] at h
  | cons a as ih =>
    rw [List.mapM_cons]
    apply bind_ne_panic _ _ (hf a)
    intro b
    apply bind_ne_panic _ _ ih
    intro bs h
    simp [pure, Except.pure] at h

/-! ### ParseCigar -/

theorem emitOps_nat (op v : Nat) : ∃ r, emitOps op (v : Int) = some r := by
  unfold emitOps
  rw [if_neg (by omega)]
  exact ⟨_, rfl⟩

theorem parseCigarLoop_ne_panic : ∀ (b cur : Bytes) (op : Nat) (n : Int),
    parseCigarLoop b cur op n ≠ .error .panic := by
  intro b
  induction b with
  | nil =>
    intro cur op n
    unfold parseCigarLoop
    split <;> intro h <;> cases h
  | cons c rest ih =>
    intro cur op n
    unfold parseCigarLoop
    split
    · exact ih _ _ _
    · split
      · intro h; cases h
      · rename_i v _
        simp only
        split
        · intro h; cases h
        · obtain ⟨r, hr⟩ := emitOps_nat (opOfLetter c) v
          rw [hr]
          exact map_ne_panic _ _ (ih _ _ _)

/-- `sam.ParseCigar` in C06's model: never the panic outcome -/
theorem parseCigar_ne_panic (b : Bytes) : parseCigar b ≠ .error .panic := by
  unfold parseCigar
  split
  · intro h; cases h
  · exact parseCigarLoop_ne_panic _ _ _ _

/-! ### ParseAux -/

/-- `sam.ParseAux` in C06's model: an aux field or an error -/
theorem auxResult_ne_panic (o : Option AuxVal) (t0 t1 : UInt8) :
    (match o with
      | none => (.error .err : Except Fault Aux)
      | some v => .ok ⟨t0, t1, v⟩) ≠ .error .panic := by
  cases o <;> intro h <;> cases h

theorem parseAux_ne_panic (ft : FloatText) (text : Bytes) : parseAux ft text ≠ .error .panic := by
  unfold parseAux
  split
  · split
    · intro h; cases h
    · exact auxResult_ne_panic _ _ _
  · intro h; cases h

/-! ### UnmarshalSAM -/

theorem referenceForName_ne_panic (h : Option Header) (name : Bytes) : referenceForName h name ≠ .error .panic := by
  unfold referenceForName
  split
  · intro h; cases h
  · split
    · intro h; cases h
    · split <;> intro h <;> cases h

theorem checkCigar_ne_panic (hasSeq : Bool) (cigar : List Hts.Model.Coord.CigarOp) (seqLen : Nat) :
    checkCigar hasSeq cigar seqLen ≠ .error .panic := by
  unfold checkCigar
  split
  · obtain ⟨v, hv⟩ := Hts.Model.Coord.isValidLoop_total cigar.length cigar 0 none 0 seqLen
    have : Hts.Model.Coord.cigarIsValid cigar seqLen = some v := hv
    rw [this]
    cases v <;> intro h <;> cases h
  · intro h; cases h

theorem checkQualLen_ne_panic (qual : Option Bytes) (seqLen : Nat) : checkQualLen qual seqLen ≠ .error .panic := by
  unfold checkQualLen
  split
  · split <;> intro h <;> cases h
  · intro h; cases h

theorem parseMateRef_ne_panic (h : Option Header) (ref : Option Ref) (f2 f6 : Bytes) :
    parseMateRef h ref f2 f6 ≠ .error .panic := by
  unfold parseMateRef
  split
  · intro h; cases h
  · exact referenceForName_ne_panic _ _

/-- `Record.UnmarshalSAM` in C06's model: a record or an error, for every line, with or without a header -/
theorem parseRecord_ne_panic (ft : FloatText) (h : Option Header) (b : Bytes) :
    parseRecord ft h b ≠ .error .panic := by
  unfold parseRecord
  split
  · apply bind_ne_panic _ _ (ofOpt_ne_panic _); intro flags
    apply bind_ne_panic _ _ (referenceForName_ne_panic _ _); intro ref
    apply bind_ne_panic _ _ (ofOpt_ne_panic _); intro pos
    apply bind_ne_panic _ _ (ofOpt_ne_panic _); intro mapq
    apply bind_ne_panic _ _ (parseCigar_ne_panic _); intro cigar
    apply bind_ne_panic _ _ (parseMateRef_ne_panic _ _ _ _); intro mate
    apply bind_ne_panic _ _ (ofOpt_ne_panic _); intro matePos
    apply bind_ne_panic _ _ (ofOpt_ne_panic _); intro tlen
    apply bind_ne_panic _ _ (checkCigar_ne_panic _ _ _); intro _
    apply bind_ne_panic _ _ (checkQualLen_ne_panic _ _); intro _
    apply bind_ne_panic _ _ (mapM_ne_panic _ (parseAux_ne_panic ft) _); intro aux
    intro h; cases h
  · intro h; cases h

/-! ### sam.Reader -/

theorem noHeaderLoop_ne_panic (ft : FloatText) : ∀ (ls seen : List Bytes),
    ∀ r ∈ noHeaderLoop ft ls seen, r ≠ .error .panic := by
  intro ls
  induction ls with
  | nil => intro seen r hr; simp [noHeaderLoop] at hr
  | cons l rest ih =>
    intro seen r hr
    unfold noHeaderLoop at hr
    have hp := parseRecord_ne_panic ft none l
    split at hr
    · rename_i e he
      simp only [List.mem_cons] at hr
      rcases hr with h | h
      · subst h; rw [← he]; exact hp
      · exact ih _ r h
    · simp only [List.mem_cons] at hr
      rcases hr with h | h
      · subst h; intro h'; cases h'
      · exact ih _ r h

end Hts.Model.SamText

namespace Hts.Model.Decoders
open Outcome (ok err)

theorem getLast?_eq_getElem (b : Bytes) (h : b.length ≠ 0) : b.getLast? = some (b[b.length - 1]'(by omega)) := by
  rw [List.getLast?_eq_getElem?]
  exact List.getElem?_eq_getElem (by omega)

/-- after the delimiter is cut off, the explicit version is `stripCR` of C06's model; never a panic -/
theorem readerLineIdx_terminated (line : Bytes) :
    readerLineIdx (line ++ [10]) true = ok (Hts.Model.SamText.stripCR line) := by
  unfold readerLineIdx Hts.Model.SamText.stripCR
  simp only [if_true]
  rw [sliceTo_of_le _ _ _ (by omega), bind_ok _ _ _ rfl]
  have ht : (line ++ [10]).take ((line ++ [10]).length - 1) = line := by simp
  rw [ht]
  by_cases h0 : line.length = 0
  · have : line = [] := List.eq_nil_of_length_eq_zero h0
    subst this
    rfl
  · rw [if_pos h0]
    have hi : indexInt "sam.Reader.Read:b[len(b)-1]" line ((line.length : Int) - 1) = ok (line[line.length - 1]'(by omega)) := by
      unfold indexInt
      rw [if_neg (by omega)]
      have : ((line.length : Int) - 1).toNat = line.length - 1 := by omega
      rw [this, index_of_lt _ _ _ (by omega)]
    rw [bind_ok _ _ _ hi, getLast?_eq_getElem line h0]
    by_cases hc : line[line.length - 1]'(by omega) = 13
    · rw [if_pos hc, sliceTo_of_le _ _ _ (by omega)]
      simp only [hc, if_true, List.dropLast_eq_take]
    · rw [if_neg hc]
      have : ¬ (some (line[line.length - 1]'(by omega)) = some (13 : UInt8)) := by
        intro h; injection h with h; exact hc h
      rw [if_neg this]
      rfl

theorem readerLineIdx_total (b : Bytes) (terminated : Bool) (h : terminated = true → b.getLast? = some 10) :
    (readerLineIdx b terminated).isPanic = false := by
  cases terminated with
  | true =>
    have hl := h rfl
    have hne : b ≠ [] := by intro e; subst e; cases hl
    have hb : b = b.dropLast ++ [10] := by
      have := List.dropLast_concat_getLast hne
      rw [List.getLast?_eq_some_getLast hne] at hl
      injection hl with hl
      rw [hl] at this
      exact this.symm
    rw [hb, readerLineIdx_terminated]
    rfl
  | false =>
    unfold readerLineIdx
    simp only [Bool.false_eq_true, if_false]
    split
    · rfl
    · rename_i h0
      rw [pure_eq_ok, bind_ok _ _ _ rfl]
      rw [if_pos h0]
      apply bind_total
      · unfold indexInt
        rw [if_neg (by omega)]
        exact index_total _ _ _ (by omega)
      · intro last _
        split
        · rw [sliceTo_of_le _ _ _ (by omega)]; rfl
        · rfl

end Hts.Model.Decoders
