/-
`encode` of the models equals the arithmetic specification (kernel-checked only: byte facts by
evaluation over all 256 bytes, the rest by `omega`).
-/
import Hts.Model.Itf8
import Hts.Model.Ltf8
import Hts.Spec.Itf8
import Hts.Lemmas.Bytes
open Hts.Lemmas

namespace Hts.Model.Itf8

theorem encode_is_spec (v : BitVec 32) : (encode v).map BitVec.toNat = Hts.Spec.Itf8.encode v.toNat := by
  have hv := v.isLt
  unfold encode Hts.Spec.Itf8.encode
  simp only [ult_iff32 v _ (by decide : 0x80 < 2^32), ult_iff32 v _ (by decide : 0x4000 < 2^32),
    ult_iff32 v _ (by decide : 0x200000 < 2^32), ult_iff32 v _ (by decide : 0x10000000 < 2^32),
    decide_eq_true_eq, Hts.Spec.beBytes]
  (repeat' split)
  all_goals try simp only [List.map, mask_or_3f, mask_or_1f, mask_or_0f, BitVec.toNat_setWidth,
    BitVec.toNat_ushiftRight, Nat.shiftRight_eq_div_pow, Nat.reducePow, Nat.div_one, Nat.pow_zero, Nat.pow_one]
  · simp only [List.cons.injEq, and_true]; omega
  · simp only [List.cons.injEq, and_true]; omega
  · simp only [List.cons.injEq, and_true]; omega
  · simp only [List.cons.injEq, and_true]; omega
  · have : ((v >>> 28).setWidth 8).toNat < 16 := by
      simp only [BitVec.toNat_setWidth, BitVec.toNat_ushiftRight, Nat.shiftRight_eq_div_pow]; omega
    have e := or_f0 _ this
    simp only [BitVec.toNat_setWidth, BitVec.toNat_ushiftRight, Nat.shiftRight_eq_div_pow, Nat.reducePow] at e
    rw [e]
    simp only [List.cons.injEq, and_true]; omega

end Hts.Model.Itf8

namespace Hts.Model.Ltf8

theorem encode_is_spec (v : BitVec 64) : (encode v).map BitVec.toNat = Hts.Spec.Ltf8.encode v.toNat := by
  have hv := v.isLt
  unfold encode Hts.Spec.Ltf8.encode
  simp only [ult_iff64 v _ (by decide : 0x80 < 2^64), ult_iff64 v _ (by decide : 0x4000 < 2^64),
    ult_iff64 v _ (by decide : 0x200000 < 2^64), ult_iff64 v _ (by decide : 0x10000000 < 2^64),
    ult_iff64 v _ (by decide : 0x800000000 < 2^64), ult_iff64 v _ (by decide : 0x40000000000 < 2^64),
    ult_iff64 v _ (by decide : 0x2000000000000 < 2^64), ult_iff64 v _ (by decide : 0x100000000000000 < 2^64),
    decide_eq_true_eq, Hts.Spec.beBytes]
  (repeat' split)
  all_goals simp only [List.map, mask_or_3f, mask_or_1f, mask_or_0f, mask_or_07, mask_or_03, mask_or_01,
    BitVec.toNat_setWidth, BitVec.toNat_ushiftRight, Nat.shiftRight_eq_div_pow, Nat.reducePow, Nat.div_one,
    Nat.pow_zero, Nat.pow_one, BitVec.toNat_ofNat, Nat.reduceMod]
  all_goals (simp only [List.cons.injEq, and_true]; omega)

end Hts.Model.Ltf8
