/-
Writer LTS: every step of the repaired protocol preserves `Inv`; every reachable state satisfies it.
-/
import Hts.Lemmas.WriterLTS
namespace Hts.Model.WriterLTS

variable {cfg : Cfg} {s t : State} {e : Option Ev}

/-! ### simp facts about the auxiliary functions -/

@[simp] theorem entry_noActive (op : Op) (c : Bool) : apiNoActive (entry op c) = false := by
  cases op <;> cases c <;> rfl
@[simp] theorem entry_dropped (op : Op) (c : Bool) : apiDropped (entry op c) = false := by
  cases op <;> cases c <;> rfl
@[simp] theorem entry_holding (op : Op) (c : Bool) : apiHolding (entry op c) = false := by
  cases op <;> cases c <;> rfl
theorem entry_needsClosed (op : Op) (c : Bool) : apiNeedsClosed (entry op c) = true → c = true := by
  cases op <;> cases c <;> simp [entry, apiNeedsClosed]
@[simp] theorem entry_afterClose (op : Op) : apiAfterClose (entry op true) = true := by
  cases op <;> rfl
@[simp] theorem entry_ne_cJoin (op : Op) (c : Bool) : entry op c ≠ .cJoin := by
  cases op <;> cases c <;> simp [entry]
@[simp] theorem entry_ne_cEof (op : Op) (c : Bool) : entry op c ≠ .cEof := by
  cases op <;> cases c <;> simp [entry]
theorem entry_pcOp (op : Op) (c : Bool) : pcOp (entry op c) op := by
  cases op <;> cases c <;> simp [entry, pcOp]

@[simp] theorem emHolds_unhold (em : EmPc) : emHolds (unholdEm em) = emHolds em := by cases em <;> rfl
@[simp] theorem emPend_unhold (em : EmPc) : emPend (unholdEm em) = emPend em := by cases em <;> rfl
@[simp] theorem emFailed_unhold (em : EmPc) : emFailed (unholdEm em) = emFailed em := by cases em <;> rfl
@[simp] theorem unholdEm_eq_done (em : EmPc) : unholdEm em = .done ↔ em = .done := by cases em <;> simp [unholdEm]
@[simp] theorem unholdEm_ne_latch (em : EmPc) (it : Item) : unholdEm em = .latch it ↔ em = .latch it := by
  cases em <;> simp [unholdEm]
@[simp] theorem unholdEm_ne_pushx (em : EmPc) (it : Item) : unholdEm em = .pushx it ↔ em = .pushx it := by
  cases em <;> simp [unholdEm]

theorem map_blk_unhold (l : List Item) : (l.map unhold).map (·.blk) = l.map (·.blk) := by
  simp [List.map_map, Function.comp_def, unhold_blk]

theorem order_append {l : List Item} {it : Item} {o sub : Nat}
    (h : l.map (·.blk) = List.range' o l.length ∧ o + l.length = sub) (hb : it.blk = sub) :
    (l ++ [it]).map (·.blk) = List.range' o (l ++ [it]).length ∧ o + (l ++ [it]).length = sub + 1 := by
  obtain ⟨h1, h2⟩ := h
  refine ⟨?_, by simp; omega⟩
  rw [List.map_append, h1, List.length_append, List.length_singleton, List.range'_1_concat]
  simp [hb, h2]

/-- first rewrite the auxiliary predicates on `entry op c` (before they get unfolded) -/
macro "entry_simp" : tactic =>
  `(tactic| try simp only [dropped, activeCount, entry_noActive, entry_dropped, entry_holding,
      entry_afterClose, entry_ne_cJoin, entry_ne_cEof, ne_eq, not_false_eq_true] at *)

/-! ### API goroutine steps -/

theorem api_pref (hi : Inv cfg s) (h : apiStep cfg s = some (e, t)) : t.out = List.range t.out.length := by
  have := hi.pref
  unfold apiStep at h
  step_cases h <;> exact this

theorem api_le (hi : Inv cfg s) (h : apiStep cfg s = some (e, t)) : t.out.length ≤ t.submitted := by
  have := hi.le
  unfold apiStep at h
  step_cases h <;> simp only <;> omega

theorem api_pend (hi : Inv cfg s) (h : apiStep cfg s = some (e, t)) : t.pending = t.queue.length + emPend t.em := by
  have := hi.pend
  unfold apiStep at h
  step_cases h <;> simp only [List.length_append, List.length_cons, List.length_nil, List.length_map, emPend_unhold] <;> omega

theorem api_cons (hi : Inv cfg s) (h : apiStep cfg s = some (e, t)) :
    t.waiting.length + t.queue.length + emHolds t.em + activeCount t + dropped t = cfg.n := by
  have h1 := hi.cons
  have h2 := hi.act
  have h3 := hi.closedApi
  have h4 := hi.needsClosed
  unfold apiStep at h
  step_cases h
  all_goals entry_simp
  all_goals (simp_all [apiNoActive, apiDropped, apiAfterClose, apiNeedsClosed] <;> try omega)

theorem api_act (hi : Inv cfg s) (h : apiStep cfg s = some (e, t)) :
    t.active.isSome = !(apiNoActive t.api || t.closed) := by
  have h2 := hi.act
  have h3 := hi.closedApi
  have h4 := hi.needsClosed
  unfold apiStep at h
  step_cases h
  all_goals entry_simp
  all_goals simp_all [apiNoActive, apiAfterClose, apiNeedsClosed]

theorem api_closedApi (hi : Inv cfg s) (h : apiStep cfg s = some (e, t)) :
    t.closed = true → apiAfterClose t.api = true := by
  have h3 := hi.closedApi
  unfold apiStep at h
  step_cases h
  all_goals (intro hc; first | (simp only [] at hc ⊢; rw [hc]; exact entry_afterClose _) | simp_all [apiAfterClose])

theorem api_needsClosed (hi : Inv cfg s) (h : apiStep cfg s = some (e, t)) :
    apiNeedsClosed t.api = true → t.closed = true := by
  have h4 := hi.needsClosed
  unfold apiStep at h
  step_cases h
  all_goals first
    | (intro hc; exact entry_needsClosed _ _ hc)
    | (entry_simp; simp_all [apiNeedsClosed])

theorem api_emDone (hi : Inv cfg s) (h : apiStep cfg s = some (e, t)) :
    t.em = .done → t.closed = true ∧ t.queue = [] := by
  have h1 := hi.emDone
  have h3 := hi.closedApi
  unfold apiStep at h
  step_cases h
  all_goals entry_simp
  all_goals (intro hd; simp_all [apiAfterClose])

theorem api_joined (hi : Inv cfg s) (h : apiStep cfg s = some (e, t)) :
    t.closed = true → t.api ≠ .cJoin → t.em = .done := by
  have h1 := hi.joined
  have h3 := hi.closedApi
  unfold apiStep at h
  step_cases h
  all_goals entry_simp
  all_goals simp_all [apiAfterClose]

theorem api_eofOK (hi : Inv cfg s) (h : apiStep cfg s = some (e, t)) :
    t.closed = true → t.err = false → t.api ≠ .cJoin → t.api ≠ .cEof → t.eof = true := by
  have h1 := hi.eofOK
  have h3 := hi.closedApi
  unfold apiStep at h
  step_cases h
  all_goals entry_simp
  all_goals simp_all [apiAfterClose]

theorem api_rep (hi : Inv cfg s) (h : apiStep cfg s = some (e, t)) :
    ∀ it, t.em ≠ .latch it ∧ t.em ≠ .pushx it := by
  have h1 := hi.rep
  unfold apiStep at h
  step_cases h
  all_goals (first | exact h1 | (intro it; simpa using h1 it))

theorem api_cur (hi : Inv cfg s) (h : apiStep cfg s = some (e, t)) : pcOp t.api t.cur := by
  have h1 := hi.cur
  unfold apiStep at h
  step_cases h
  all_goals (first | exact entry_pcOp _ _ | trivial | (simp_all [pcOp]; done))

theorem api_held (hi : Inv cfg s) (h : apiStep cfg s = some (e, t)) :
    heldOK (apiHolding t.api) (unwritten t) = true := by
  have h1 := hi.held
  unfold apiStep at h
  step_cases h
  all_goals simp only [unwritten, entry_holding] at h1 ⊢
  all_goals try (simp_all [apiHolding]; done)
  all_goals first
    | (rw [← List.append_assoc]; simp_all only [apiHolding]
       first | exact heldOK_append_false h1 rfl | exact heldOK_append_true h1 rfl)
    | (rw [unwritten_unhold]; exact heldOK_map_unhold _)

theorem api_order (hi : Inv cfg s) (h : apiStep cfg s = some (e, t)) :
    wedged t = false →
    (unwritten t).map (·.blk) = List.range' t.out.length (unwritten t).length ∧
    t.out.length + (unwritten t).length = t.submitted := by
  have h1 := hi.order
  unfold apiStep at h
  step_cases h
  all_goals simp only [unwritten, wedged, emFailed_unhold] at h1 ⊢
  all_goals try exact h1
  all_goals first
    | (intro hw; rw [← List.append_assoc]; exact order_append (h1 hw) rfl)
    | (intro hw; rw [unwritten_unhold, map_blk_unhold, List.length_map]; exact h1 hw)
    | (intro hw; simp at hw)

theorem api_eofClosed (hi : Inv cfg s) (h : apiStep cfg s = some (e, t)) : t.eof = true → t.closed = true := by
  have h1 := hi.eofClosed
  have h4 := hi.needsClosed
  unfold apiStep at h
  step_cases h
  all_goals simp_all [apiNeedsClosed]

theorem api_inv (hi : Inv cfg s) (h : apiStep cfg s = some (e, t)) : Inv cfg t :=
  ⟨api_pref hi h, api_le hi h, api_order hi h, api_pend hi h, api_cons hi h, api_act hi h, api_held hi h,
   api_closedApi hi h, api_needsClosed hi h, api_emDone hi h, api_joined hi h, api_eofOK hi h, api_rep hi h,
   api_cur hi h, api_eofClosed hi h⟩

/-! ### emitter goroutine steps (repaired protocol) -/

theorem em_frame (h : emStep cfg s = some (e, t)) :
    t.api = s.api ∧ t.script = s.script ∧ t.cur = s.cur ∧ t.active = s.active ∧ t.closed = s.closed ∧
    t.submitted = s.submitted ∧ t.eof = s.eof := by
  unfold emStep at h
  step_cases h <;> simp

theorem em_pend (hr : cfg.repaired = true) (hi : Inv cfg s) (h : emStep cfg s = some (e, t)) :
    t.pending = t.queue.length + emPend t.em := by
  have := hi.pend
  unfold emStep at h
  step_cases h
  all_goals simp_all [emPend]
  all_goals omega

theorem em_cons (hr : cfg.repaired = true) (hi : Inv cfg s) (h : emStep cfg s = some (e, t)) :
    t.waiting.length + t.queue.length + emHolds t.em + activeCount t + dropped t = cfg.n := by
  have := hi.cons
  unfold emStep at h
  step_cases h
  all_goals simp_all [emHolds, activeCount, dropped]
  all_goals omega

theorem em_emDone (hr : cfg.repaired = true) (hi : Inv cfg s) (h : emStep cfg s = some (e, t)) :
    t.em = .done → t.closed = true ∧ t.queue = [] := by
  have := hi.emDone
  have := hi.rep
  unfold emStep at h
  step_cases h
  all_goals simp_all

theorem em_joined (hr : cfg.repaired = true) (hi : Inv cfg s) (h : emStep cfg s = some (e, t)) :
    t.closed = true → t.api ≠ .cJoin → t.em = .done := by
  have h1 := hi.joined
  unfold emStep at h
  step_cases h
  all_goals (intro hc hj; have := h1 hc hj; simp_all)

theorem em_eofOK (hr : cfg.repaired = true) (hi : Inv cfg s) (h : emStep cfg s = some (e, t)) :
    t.closed = true → t.err = false → t.api ≠ .cJoin → t.api ≠ .cEof → t.eof = true := by
  have h1 := hi.eofOK
  have h2 := hi.joined
  unfold emStep at h
  step_cases h
  all_goals first
    | exact h1
    | (intro hc he hj hf; have := h2 hc hj; simp_all)

theorem em_rep (hr : cfg.repaired = true) (hi : Inv cfg s) (h : emStep cfg s = some (e, t)) :
    ∀ it, t.em ≠ .latch it ∧ t.em ≠ .pushx it := by
  have h1 := hi.rep
  unfold emStep at h
  step_cases h
  all_goals simp_all

theorem em_pref_order (hr : cfg.repaired = true) (hi : Inv cfg s) (h : emStep cfg s = some (e, t)) :
    t.out = List.range t.out.length ∧ t.out.length ≤ t.submitted ∧
    (wedged t = false →
      (unwritten t).map (·.blk) = List.range' t.out.length (unwritten t).length ∧
      t.out.length + (unwritten t).length = t.submitted) := by
  have h1 := hi.pref
  have h2 := hi.le
  have h3 := hi.order
  cases hem : s.em with
  | recv =>
    simp only [emStep, hem] at h
    simp only [unwritten, wedged, hem, emUnwritten, emFailed, List.nil_append, Bool.or_false] at h3
    step_cases h
    · rename_i hq
      refine ⟨h1, h2, ?_⟩
      simp only [unwritten, wedged, emUnwritten, emFailed, Bool.or_false, List.singleton_append]
      simpa [hq] using h3
    · rename_i hq _
      refine ⟨h1, h2, ?_⟩
      simp only [unwritten, wedged, emUnwritten, emFailed, Bool.or_false, List.nil_append]
      exact h3
  | hold it =>
    simp only [emStep, hem, hr, Bool.true_and, ↓reduceIte] at h
    simp only [unwritten, wedged, hem, emUnwritten, emFailed, List.singleton_append, Bool.or_false] at h3
    step_cases h
    · refine ⟨h1, h2, ?_⟩
      simp [wedged, emFailed]
    · have he : s.err = true := by assumption
      refine ⟨h1, h2, ?_⟩
      simp [wedged, he]
    · refine ⟨h1, h2, ?_⟩
      simp [wedged, emFailed]
    · have he : ¬ s.err = true := by assumption
      have he' : s.err = false := by simpa using he
      obtain ⟨h4, h5⟩ := h3 he'
      simp only [List.map_cons, List.length_cons, List.range'_succ, List.cons.injEq] at h4
      refine ⟨?_, ?_, ?_⟩
      · simp only [List.length_append, List.length_singleton, List.range_succ, h4.1]
        rw [← h1]
      · simp only [List.length_append, List.length_singleton]; simp only [List.length_cons] at h5; omega
      · intro _
        simp only [unwritten, emUnwritten, List.nil_append, List.length_append, List.length_singleton]
        simp only [List.length_cons] at h5
        exact ⟨h4.2, by omega⟩
  | failed it =>
    simp only [emStep, hem, hr, if_true] at h
    step_cases h
    exact ⟨h1, h2, by simp [wedged]⟩
  | latch it => exact absurd hem (hi.rep it).1
  | rel it =>
    simp only [emStep, hem] at h
    simp only [unwritten, wedged, hem, emUnwritten, emFailed, List.nil_append, Bool.or_false] at h3
    step_cases h
    exact ⟨h1, h2, by simpa [unwritten, wedged, emUnwritten, emFailed] using h3⟩
  | push it =>
    simp only [emStep, hem] at h
    simp only [unwritten, wedged, hem, emUnwritten, emFailed, List.nil_append, Bool.or_false] at h3
    step_cases h
    exact ⟨h1, h2, by simpa [unwritten, wedged, emUnwritten, emFailed] using h3⟩
  | pushx it => exact absurd hem (hi.rep it).2
  | done => simp [emStep, hem] at h

theorem em_held (hr : cfg.repaired = true) (hi : Inv cfg s) (h : emStep cfg s = some (e, t)) :
    heldOK (apiHolding t.api) (unwritten t) = true := by
  have h1 := hi.held
  have hf := (em_frame h).1
  rw [hf]
  cases hem : s.em with
  | recv =>
    simp only [emStep, hem] at h
    simp only [unwritten, hem, emUnwritten, List.nil_append] at h1
    step_cases h
    · rename_i hq
      simpa [unwritten, emUnwritten, hq] using h1
    · simpa [unwritten, emUnwritten] using h1
  | hold it =>
    simp only [emStep, hem, hr, Bool.true_and, ↓reduceIte] at h
    simp only [unwritten, hem, emUnwritten, List.singleton_append] at h1
    have hnh : it.st = .flushed → heldOK (apiHolding s.api) s.queue = true := by
      intro hf
      exact heldOK_tail h1 (by simp [isHeld, hf])
    step_cases h
    all_goals (have hfl : it.st = .flushed := by assumption
               simpa [unwritten, emUnwritten] using hnh hfl)
  | failed it =>
    simp only [emStep, hem, hr, if_true] at h
    simp only [unwritten, hem, emUnwritten, List.nil_append] at h1
    step_cases h
    simpa [unwritten, emUnwritten] using h1
  | latch it => exact absurd hem (hi.rep it).1
  | rel it =>
    simp only [emStep, hem] at h
    simp only [unwritten, hem, emUnwritten, List.nil_append] at h1
    step_cases h
    simpa [unwritten, emUnwritten] using h1
  | push it =>
    simp only [emStep, hem] at h
    simp only [unwritten, hem, emUnwritten, List.nil_append] at h1
    step_cases h
    simpa [unwritten, emUnwritten] using h1
  | pushx it => exact absurd hem (hi.rep it).2
  | done => simp [emStep, hem] at h

theorem em_inv (hr : cfg.repaired = true) (hi : Inv cfg s) (h : emStep cfg s = some (e, t)) : Inv cfg t := by
  obtain ⟨f1, f2, f3, f4, f5, f6, f7⟩ := em_frame h
  obtain ⟨p1, p2, p3⟩ := em_pref_order hr hi h
  refine ⟨p1, p2, p3, em_pend hr hi h, em_cons hr hi h, ?_, em_held hr hi h, ?_, ?_, em_emDone hr hi h,
    em_joined hr hi h, em_eofOK hr hi h, em_rep hr hi h, ?_, ?_⟩
  · rw [f1, f4, f5]; exact hi.act
  · rw [f1, f5]; exact hi.closedApi
  · rw [f1, f5]; exact hi.needsClosed
  · rw [f1, f3]; exact hi.cur
  · rw [f7, f5]; exact hi.eofClosed

/-! ### compressor goroutines -/

theorem finQ_inv (hi : Inv cfg s) {i : Nat} {q : List Item} (h : finishAt i s.queue = some q) :
    Inv cfg { s with queue := q } := by
  obtain ⟨hl, hb, hh, -⟩ := finishAt_spec h
  have hu : (unwritten { s with queue := q }).map (·.blk) = (unwritten s).map (·.blk) := by
    simp [unwritten, hb]
  have hul : (unwritten { s with queue := q }).length = (unwritten s).length := by
    simp [unwritten, hl]
  refine ⟨hi.pref, hi.le, ?_, ?_, ?_, hi.act, ?_, hi.closedApi, hi.needsClosed, ?_, hi.joined, hi.eofOK, hi.rep, hi.cur, hi.eofClosed⟩
  · intro hw
    rw [hu, hul]
    exact hi.order hw
  · simpa [hl] using hi.pend
  · simpa [hl, activeCount, dropped] using hi.cons
  · have : (unwritten { s with queue := q }).map isHeld = (unwritten s).map isHeld := by
      simp [unwritten, hh]
    rw [heldOK_congr this]
    exact hi.held
  · intro hd
    obtain ⟨hc, hq⟩ := hi.emDone hd
    rw [hq] at h
    simp [finishAt] at h

theorem finE_inv (hi : Inv cfg s) {it : Item} (hem : s.em = .hold it) (hc : it.st = .compressing) :
    Inv cfg { s with em := .hold { it with st := .flushed } } := by
  have hu : (unwritten { s with em := .hold { it with st := .flushed } }).map (·.blk) = (unwritten s).map (·.blk) := by
    simp [unwritten, hem, emUnwritten]
  have hul : (unwritten { s with em := .hold { it with st := .flushed } }).length = (unwritten s).length := by
    simp [unwritten, hem, emUnwritten]
  refine ⟨hi.pref, hi.le, ?_, ?_, ?_, hi.act, ?_, hi.closedApi, hi.needsClosed, ?_, ?_, hi.eofOK, ?_, hi.cur, hi.eofClosed⟩
  · intro hw
    rw [hu, hul]
    refine hi.order ?_
    simpa [wedged, hem, emFailed] using hw
  · simpa [hem, emPend] using hi.pend
  · simpa [hem, emHolds, activeCount, dropped] using hi.cons
  · have : (unwritten { s with em := .hold { it with st := .flushed } }).map isHeld = (unwritten s).map isHeld := by
      simp only [unwritten, hem, emUnwritten, isHeld, hc, List.map_append, List.map_cons, List.map_nil]
      rfl
    rw [heldOK_congr this]
    exact hi.held
  · intro hd; simp at hd
  · intro hcl hj
    have := hi.joined hcl hj
    simp [hem] at this
  · intro x; simp

/-! ### the invariant is inductive -/

theorem inv_init (cfg : Cfg) : Inv cfg (init cfg) := by
  have hn := cfg.n_ge_two
  refine ⟨rfl, Nat.le_refl _, ?_, rfl, ?_, rfl, rfl, ?_, ?_, ?_, ?_, ?_, ?_, trivial, ?_⟩
  · intro _; exact ⟨rfl, rfl⟩
  · simp [init, emHolds, activeCount, dropped, apiDropped]; omega
  all_goals simp [init, apiNeedsClosed]

theorem inv_next (hr : cfg.repaired = true) {l : Label} (hi : Inv cfg s) (h : next cfg s l = some (e, t)) :
    Inv cfg t := by
  refine next_cases h (api_inv hi) (em_inv hr hi) ?_ ?_
  · intro i q hq _ ht; rw [ht]; exact finQ_inv hi hq
  · intro it hem hc _ ht; rw [ht]; exact finE_inv hi hem hc

theorem inv_step (hr : cfg.repaired = true) (hi : Inv cfg s) (h : Step cfg s t) : Inv cfg t := by
  obtain ⟨l, e, h⟩ := h
  exact inv_next hr hi h

theorem reachable_inv (hr : cfg.repaired = true) (h : Reachable cfg s) : Inv cfg s := by
  induction h with
  | init => exact inv_init cfg
  | step _ hst ih => exact inv_step hr ih hst

theorem run_reachable {tr : List Ev} (h : Run cfg tr s) : Reachable cfg s := by
  induction h with
  | init => exact .init
  | step _ hn ih => exact .step ih ⟨_, _, hn⟩

theorem reachable_run (h : Reachable cfg s) : ∃ tr, Run cfg tr s := by
  induction h with
  | init => exact ⟨[], .init⟩
  | step _ hst ih =>
    obtain ⟨tr, hr⟩ := ih
    obtain ⟨l, e, hn⟩ := hst
    exact ⟨_, .step hr hn⟩

end Hts.Model.WriterLTS
