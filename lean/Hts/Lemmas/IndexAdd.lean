/-
Invariants of `internal.Index.Add` over coordinate-sorted input (model: Hts.Model.Index).

`RecOK`      what "positions in range, chunk well-formed" means for one record
`RecLe a r`  `a` was added before `r` in a coordinate-sorted file with monotone chunks
`RefInv`     what one reference index knows about the records added to it
`IdxInv`     the same for the whole index, plus the bookkeeping fields
-/
import Hts.Model.Index
namespace Hts.Model.Index

/-- `c` encloses `p` in virtual-offset order -/
def Chunk.encloses (c p : Chunk) : Prop := c.b ≤ p.b ∧ p.e ≤ c.e

/-- some chunk of the list encloses `p` -/
def coveredBy (cs : List Chunk) (p : Chunk) : Prop := ∃ c, c ∈ cs ∧ c.encloses p

/-- positions in the indexable range, `0 ≤ start ≤ end` for a placed record (`start = end` occurs: a mapped
read whose CIGAR consumes no reference, e.g. `5I` or `10S`, has `End() = Pos`), a non-negative reference id,
and a non-empty chunk at a non-negative offset -/
structure RecOK (r : Rec) : Prop where
  vstart : validPos r.start = true
  vstop : validPos r.stop = true
  rid : r.placed = true → 0 ≤ r.rid
  pos : r.placed = true → 0 ≤ r.start ∧ r.start ≤ r.stop
  cb : 0 ≤ r.chunk.b
  ce : r.chunk.b < r.chunk.e

/-- coordinate order and chunk order between an earlier and a later placed record -/
def RecLe (a r : Rec) : Prop :=
  a.rid ≤ r.rid ∧ (a.rid = r.rid → a.start ≤ r.start) ∧ a.chunk.e ≤ r.chunk.b

/-- `SortedInput`: every record well-formed; among the placed records reference ids are
non-decreasing, starts non-decreasing within a reference and chunks monotone -/
structure SortedInput (recs : List Rec) : Prop where
  ok : ∀ r, r ∈ recs → RecOK r
  sorted : (recs.filter (·.placed)).Pairwise RecLe

theorem recOK_iff (r : Rec) : RecOK r ↔
    (validPos r.start = true ∧ validPos r.stop = true ∧ (r.placed = true → 0 ≤ r.rid) ∧
      (r.placed = true → 0 ≤ r.start ∧ r.start ≤ r.stop) ∧ 0 ≤ r.chunk.b ∧ r.chunk.b < r.chunk.e) :=
  ⟨fun h => ⟨h.vstart, h.vstop, h.rid, h.pos, h.cb, h.ce⟩,
   fun ⟨a, b, c, d, e, f⟩ => ⟨a, b, c, d, e, f⟩⟩

instance (r : Rec) : Decidable (RecOK r) := decidable_of_iff _ (recOK_iff r).symm
instance (a r : Rec) : Decidable (RecLe a r) := by unfold RecLe; infer_instance

theorem sortedInput_iff (recs : List Rec) : SortedInput recs ↔
    ((∀ r, r ∈ recs → RecOK r) ∧ (recs.filter (·.placed)).Pairwise RecLe) :=
  ⟨fun h => ⟨h.ok, h.sorted⟩, fun ⟨a, b⟩ => ⟨a, b⟩⟩

instance (recs : List Rec) : Decidable (SortedInput recs) := decidable_of_iff _ (sortedInput_iff recs).symm

/-! ### bins -/

theorem extendChunks_append (cs : List Chunk) (c : Chunk) (h : ∀ x, x ∈ cs → x.e ≤ c.b) :
    extendChunks cs c = cs ++ [c] := by
  induction cs with
  | nil => rfl
  | cons x xs ih =>
    have hx := h x List.mem_cons_self
    have : ¬ x.e > c.b := Int.not_lt.2 hx
    simp only [extendChunks, this, if_false, List.cons_append]
    rw [ih (fun y hy => h y (List.mem_cons_of_mem _ hy))]

/-- membership in the bins after `addBin`, when no stored chunk reaches behind the new begin:
the stored chunks are kept and the new chunk is stored under its bin -/
theorem addBin_spec (bins : List Bin) (bin : Nat) (c : Chunk)
    (h : ∀ bn, bn ∈ bins → ∀ x, x ∈ bn.chunks → x.e ≤ c.b) :
    (∃ bn, bn ∈ (addBin bins bin c).1 ∧ bn.bin = bin ∧ c ∈ bn.chunks) ∧
    (∀ bn, bn ∈ bins → ∃ bn', bn' ∈ (addBin bins bin c).1 ∧ bn'.bin = bn.bin ∧ ∀ x, x ∈ bn.chunks → x ∈ bn'.chunks) ∧
    (∀ bn', bn' ∈ (addBin bins bin c).1 →
      (∃ bn, bn ∈ bins ∧ bn'.bin = bn.bin ∧ bn'.chunks.length ≤ bn.chunks.length + 1 ∧
        ∀ x, x ∈ bn'.chunks → x ∈ bn.chunks ∨ (x = c ∧ bn'.bin = bin)) ∨
      (bn' = ⟨bin, [c]⟩)) := by
  induction bins with
  | nil =>
    refine ⟨⟨⟨bin, [c]⟩, by simp [addBin], rfl, by simp⟩, by simp, ?_⟩
    intro bn' hb; right; simpa [addBin] using hb
  | cons b bs ih =>
    have hb := h b List.mem_cons_self
    have hbs : ∀ bn, bn ∈ bs → ∀ x, x ∈ bn.chunks → x.e ≤ c.b :=
      fun bn hbn => h bn (List.mem_cons_of_mem _ hbn)
    by_cases heq : b.bin = bin
    · subst heq
      simp only [addBin, if_true]
      rw [extendChunks_append _ _ hb]
      refine ⟨⟨⟨b.bin, b.chunks ++ [c]⟩, List.mem_cons_self, rfl, by simp⟩, ?_, ?_⟩
      · intro bn hbn
        rcases List.mem_cons.1 hbn with rfl | hbn
        · exact ⟨⟨bn.bin, bn.chunks ++ [c]⟩, List.mem_cons_self, rfl, fun x hx => by simp [hx]⟩
        · exact ⟨bn, List.mem_cons_of_mem _ hbn, rfl, fun x hx => hx⟩
      · intro bn' hbn'
        rcases List.mem_cons.1 hbn' with rfl | hbn'
        · left
          refine ⟨b, List.mem_cons_self, rfl, by simp, ?_⟩
          intro x hx
          simp only [List.mem_append, List.mem_singleton] at hx
          rcases hx with hx | hx
          · exact Or.inl hx
          · exact Or.inr ⟨hx, rfl⟩
        · left; exact ⟨bn', List.mem_cons_of_mem _ hbn', rfl, by omega, fun x hx => Or.inl hx⟩
    · obtain ⟨⟨bn0, hbn0, hbin0, hc0⟩, ih2, ih3⟩ := ih hbs
      simp only [addBin, heq, if_false]
      refine ⟨⟨bn0, List.mem_cons_of_mem _ hbn0, hbin0, hc0⟩, ?_, ?_⟩
      · intro bn hbn
        rcases List.mem_cons.1 hbn with rfl | hbn
        · exact ⟨bn, List.mem_cons_self, rfl, fun x hx => hx⟩
        · obtain ⟨bn', h1, h2, h3⟩ := ih2 bn hbn
          exact ⟨bn', List.mem_cons_of_mem _ h1, h2, h3⟩
      · intro bn' hbn'
        rcases List.mem_cons.1 hbn' with rfl | hbn'
        · left; exact ⟨bn', List.mem_cons_self, rfl, by omega, fun x hx => Or.inl hx⟩
        · rcases ih3 bn' hbn' with ⟨bn, h1, h2, h3, h4⟩ | h
          · left; exact ⟨bn, List.mem_cons_of_mem _ h1, h2, h3, h4⟩
          · right; exact h

/-- the bin numbers after `addBin`: unchanged when the bin existed, else the new number appended -/
theorem addBin_nums (bins : List Bin) (bin : Nat) (c : Chunk) :
    ((addBin bins bin c).1.map (·.bin) = bins.map (·.bin) ∧ bin ∈ bins.map (·.bin)) ∨
    ((addBin bins bin c).1.map (·.bin) = bins.map (·.bin) ++ [bin] ∧ bin ∉ bins.map (·.bin)) := by
  induction bins with
  | nil => right; simp [addBin]
  | cons b bs ih =>
    by_cases heq : b.bin = bin
    · left; simp [addBin, heq]
    · simp only [addBin, heq, if_false, List.map_cons]
      rcases ih with ⟨h1, h2⟩ | ⟨h1, h2⟩
      · left; exact ⟨by rw [h1], List.mem_cons_of_mem _ h2⟩
      · right
        refine ⟨by rw [h1]; rfl, ?_⟩
        intro hm
        rcases List.mem_cons.1 hm with h | h
        · exact heq h.symm
        · exact h2 h

theorem addBin_nodup (bins : List Bin) (bin : Nat) (c : Chunk) (h : (bins.map (·.bin)).Nodup) :
    ((addBin bins bin c).1.map (·.bin)).Nodup := by
  rcases addBin_nums bins bin c with ⟨h1, _⟩ | ⟨h1, h2⟩
  · rw [h1]; exact h
  · rw [h1]
    rw [List.nodup_append]
    refine ⟨h, by simp, ?_⟩
    intro a ha b hb
    simp only [List.mem_singleton] at hb
    subst hb
    intro hab; subst hab; exact h2 ha

/-! ### tiles -/

/-- Go's truncating division by the tile width, as a natural-number division -/
theorem tileOf_eq (p : Int) : tileOf p = p.toNat / 16384 := by
  unfold tileOf tileWidth
  show (Int.tdiv p 16384).toNat = _
  rcases Int.le_total 0 p with hp | hp
  · rw [Int.tdiv_eq_ediv_of_nonneg hp]; omega
  · have h : Int.tdiv p 16384 = -((-p).tdiv 16384) := by rw [Int.neg_tdiv, Int.neg_neg]
    rw [h, Int.tdiv_eq_ediv_of_nonneg (by omega)]
    omega

theorem tileOf_mono {a b : Int} (h : a ≤ b) : tileOf a ≤ tileOf b := by
  rw [tileOf_eq, tileOf_eq]
  exact Nat.div_le_div_right (by omega)

theorem tileOf_le_lastTile (s e : Int) : tileOf s ≤ lastTile s e := by
  unfold lastTile
  split
  · exact tileOf_mono (by omega)
  · exact Nat.le_refl _

theorem addTiles_length (ivs : List Int) (s e : Int) (cb : Int) :
    (addTiles ivs s e cb).length = max ivs.length (lastTile s e + 1) := by
  unfold addTiles
  simp only
  have := tileOf_le_lastTile s e
  split
  · simp only [List.length_append, List.length_replicate]
    omega
  · omega

theorem addTiles_prefix (ivs : List Int) (s e : Int) (cb : Int) (k : Nat) (hk : k < ivs.length) :
    (addTiles ivs s e cb)[k]? = ivs[k]? := by
  unfold addTiles
  simp only
  split
  · rw [List.append_assoc, List.getElem?_append_left hk]
  · rfl

theorem addTiles_mem (ivs : List Int) (s e : Int) (cb : Int) (v : Int)
    (hv : v ∈ addTiles ivs s e cb) : v ∈ ivs ∨ v = 0 ∨ v = cb := by
  unfold addTiles at hv
  simp only at hv
  split at hv
  · simp only [List.mem_append, List.mem_replicate] at hv
    rcases hv with (h | h) | h
    · exact Or.inl h
    · exact Or.inr (Or.inl h.2)
    · exact Or.inr (Or.inr h.2)
  · exact Or.inl hv

/-! ### one reference -/

/-- the statistics `Add` accumulates over the records of one reference (`h` newest first) -/
def statsOf : List Rec → Option Stats
  | [] => none
  | r :: older => some (addStats (statsOf older) r.chunk r.mapped)

/-- what a reference index knows about the records `h` added to it (newest first) -/
structure RefInv (ref : RefIndex) (h : List Rec) : Prop where
  /-- `bins_inv`: every record's chunk is stored under the record's bin -/
  bins : ∀ r, r ∈ h → ∃ bn, bn ∈ ref.bins ∧ bn.bin = r.bin ∧ r.chunk ∈ bn.chunks
  /-- every stored chunk is the chunk of a record with that bin -/
  stored : ∀ bn, bn ∈ ref.bins → ∀ x, x ∈ bn.chunks → ∃ a, a ∈ h ∧ x = a.chunk ∧ a.bin = bn.bin
  nodup : (ref.bins.map (·.bin)).Nodup
  /-- `tiles_inv`: the tile array reaches the last tile of every record … -/
  tilesLen : ∀ r, r ∈ h → lastTile r.start r.stop < ref.intervals.length
  /-- … and no entry up to that tile lies behind the record's chunk begin -/
  tilesLe : ∀ r, r ∈ h → ∀ k v, k ≤ lastTile r.start r.stop → ref.intervals[k]? = some v → v ≤ r.chunk.b
  ivBound : ∀ v, v ∈ ref.intervals → ∃ a, a ∈ h ∧ v ≤ a.chunk.b
  /-- references without records are empty -/
  empty : h = [] → ref = emptyRef
  /-- the statistics are those accumulated over exactly these records -/
  stats : ref.stats = statsOf h
  /-- sizes: at most one bin and one chunk per record, at most 2^15 tiles, no negative tile offset -/
  binsLen : ref.bins.length ≤ h.length
  binRec : ∀ bn, bn ∈ ref.bins → ∃ a, a ∈ h ∧ a.bin = bn.bin
  chunksLen : ∀ bn, bn ∈ ref.bins → bn.chunks.length ≤ h.length
  ivLen : ref.intervals.length ≤ 32768
  ivNonneg : ∀ v, v ∈ ref.intervals → 0 ≤ v

theorem refInv_empty : RefInv emptyRef [] :=
  { bins := by intro r hr; cases hr
    stored := by intro bn hb; cases hb
    nodup := List.nodup_nil
    tilesLen := by intro r hr; cases hr
    tilesLe := by intro r hr; cases hr
    ivBound := by intro v hv; cases hv
    empty := fun _ => rfl
    stats := rfl
    binsLen := Nat.le_refl _
    binRec := by intro bn hb; cases hb
    chunksLen := by intro bn hb; cases hb
    ivLen := by decide
    ivNonneg := by intro v hv; cases hv }

/-- one accepted `Add` on a reference -/
theorem refInv_step (ref : RefIndex) (h : List Rec) (last : Int) (r : Rec)
    (inv : RefInv ref h) (hok : RecOK r) (hall : ∀ a, a ∈ h → RecOK a)
    (hle : ∀ a, a ∈ h → a.chunk.e ≤ r.chunk.b) (hlast : last ≤ r.start) :
    (addRef ref last r).2.2.2 = .ok ∧ (addRef ref last r).2.1 = r.start ∧
      RefInv (addRef ref last r).1 (r :: h) := by
  have hnot : ¬ r.start < last := by omega
  have hends : ∀ bn, bn ∈ ref.bins → ∀ x, x ∈ bn.chunks → x.e ≤ r.chunk.b := by
    intro bn hbn x hx
    obtain ⟨a, ha, hxa, _⟩ := inv.stored bn hbn x hx
    rw [hxa]; exact hle a ha
  obtain ⟨⟨bn0, hbn0, hbin0, hc0⟩, keep, origin⟩ := addBin_spec ref.bins r.bin r.chunk hends
  unfold addRef
  simp only [hnot, if_false]
  refine ⟨by trivial, by trivial, ?_⟩
  refine
    { bins := ?_, stored := ?_, nodup := addBin_nodup _ _ _ inv.nodup, tilesLen := ?_, tilesLe := ?_,
      ivBound := ?_, empty := (by intro hh; cases hh), stats := (by simp only [statsOf, inv.stats]),
      binsLen := ?_, binRec := ?_, chunksLen := ?_, ivLen := ?_, ivNonneg := ?_ }
  · intro a ha
    rcases List.mem_cons.1 ha with rfl | ha
    · exact ⟨bn0, hbn0, hbin0, hc0⟩
    · obtain ⟨bn, h1, h2, h3⟩ := inv.bins a ha
      obtain ⟨bn', h1', h2', h3'⟩ := keep bn h1
      exact ⟨bn', h1', by rw [h2', h2], h3' _ h3⟩
  · intro bn' hbn' x hx
    rcases origin bn' hbn' with ⟨bn, h1, h2, _, h3⟩ | h
    · rcases h3 x hx with hx' | ⟨hxc, hb⟩
      · obtain ⟨a, ha, hxa, hab⟩ := inv.stored bn h1 x hx'
        exact ⟨a, List.mem_cons_of_mem _ ha, hxa, by rw [hab, h2]⟩
      · exact ⟨r, List.mem_cons_self, hxc, hb.symm⟩
    · subst h
      simp only [List.mem_singleton] at hx
      exact ⟨r, List.mem_cons_self, hx, rfl⟩
  · intro a ha
    simp only
    rw [addTiles_length]
    rcases List.mem_cons.1 ha with rfl | ha
    · omega
    · have := inv.tilesLen a ha; omega
  · intro a ha k v hk hv
    simp only at hv
    rcases List.mem_cons.1 ha with rfl | ha
    · rcases addTiles_mem _ _ _ _ _ (List.mem_of_getElem? hv) with h1 | h1 | h1
      · obtain ⟨b, hb, hvb⟩ := inv.ivBound v h1
        have := hle b hb
        have := (hall b hb).ce
        omega
      · have := hok.cb; omega
      · omega
    · have hlen := inv.tilesLen a ha
      rw [addTiles_prefix _ _ _ _ _ (by omega)] at hv
      exact inv.tilesLe a ha k v hk hv
  · intro v hv
    simp only at hv
    rcases addTiles_mem _ _ _ _ _ hv with h1 | h1 | h1
    · obtain ⟨b, hb, hvb⟩ := inv.ivBound v h1
      exact ⟨b, List.mem_cons_of_mem _ hb, hvb⟩
    · exact ⟨r, List.mem_cons_self, by have := hok.cb; omega⟩
    · exact ⟨r, List.mem_cons_self, by omega⟩
  · -- binsLen
    have hl : (addBin ref.bins r.bin r.chunk).1.length = ((addBin ref.bins r.bin r.chunk).1.map (·.bin)).length := by
      rw [List.length_map]
    have hl0 : ref.bins.length = (ref.bins.map (·.bin)).length := by rw [List.length_map]
    have := inv.binsLen
    simp only [List.length_cons]
    rcases addBin_nums ref.bins r.bin r.chunk with ⟨h1, _⟩ | ⟨h1, _⟩
    · rw [hl, h1, ← hl0]; omega
    · rw [hl, h1, List.length_append, ← hl0]; simp; omega
  · -- binRec
    intro bn' hbn'
    rcases origin bn' hbn' with ⟨bn, h1, h2, _, _⟩ | h
    · obtain ⟨a, ha, hab⟩ := inv.binRec bn h1
      exact ⟨a, List.mem_cons_of_mem _ ha, by rw [hab, h2]⟩
    · subst h; exact ⟨r, List.mem_cons_self, rfl⟩
  · -- chunksLen
    intro bn' hbn'
    simp only [List.length_cons]
    rcases origin bn' hbn' with ⟨bn, h1, _, h3, _⟩ | h
    · have := inv.chunksLen bn h1; omega
    · subst h; simp
  · -- ivLen
    simp only
    rw [addTiles_length]
    have := inv.ivLen
    have hv1 := hok.vstart
    have hv2 := hok.vstop
    simp only [validPos, Bool.and_eq_true, decide_eq_true_eq] at hv1 hv2
    have : lastTile r.start r.stop < 32768 := by
      unfold lastTile
      split <;> rw [tileOf_eq] <;> omega
    omega
  · -- ivNonneg
    intro v hv
    simp only at hv
    rcases addTiles_mem _ _ _ _ _ hv with h1 | h1 | h1
    · exact inv.ivNonneg v h1
    · omega
    · have := hok.cb; omega

end Hts.Model.Index
