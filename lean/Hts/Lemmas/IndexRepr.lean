/-
Every index built by `Add` from a coordinate-sorted input of reasonable size is representable in the
BAI/tabix format (`WF`): the hypotheses are on the INPUT only (number of records and reference ids
below 2^31 - 1, bin numbers as produced by `BinFor`, chunk offsets below 2^63).
-/
import Hts.Lemmas.IndexIO
import Hts.Lemmas.IndexStats
import Hts.Model.Coord
namespace Hts.Model.IndexIO
open Hts.Model.Index

theorem statsOf_bounds : ∀ (h : List Rec) (s : Stats), statsOf h = some s →
    (∃ a, a ∈ h ∧ s.chunk.b = a.chunk.b) ∧ (∃ a, a ∈ h ∧ s.chunk.e = a.chunk.e) ∧
      s.mapped ≤ h.length ∧ s.unmapped ≤ h.length := by
  intro h
  induction h with
  | nil => intro s hs; cases hs
  | cons r older ih =>
    intro s hs
    simp only [statsOf, Option.some.injEq] at hs
    subst hs
    cases hso : statsOf older with
    | none =>
      unfold addStats
      cases r.mapped
      · simp only [Bool.false_eq_true, if_false, List.length_cons]
        exact ⟨⟨r, List.mem_cons_self, rfl⟩, ⟨r, List.mem_cons_self, rfl⟩, by omega, by omega⟩
      · simp only [if_true, List.length_cons]
        exact ⟨⟨r, List.mem_cons_self, rfl⟩, ⟨r, List.mem_cons_self, rfl⟩, by omega, by omega⟩
    | some s0 =>
      obtain ⟨⟨a, ha, hab⟩, _, h3, h4⟩ := ih s0 hso
      unfold addStats
      cases r.mapped
      · simp only [Bool.false_eq_true, if_false, List.length_cons]
        exact ⟨⟨a, List.mem_cons_of_mem _ ha, hab⟩, ⟨r, List.mem_cons_self, rfl⟩, by omega, by omega⟩
      · simp only [if_true, List.length_cons]
        exact ⟨⟨a, List.mem_cons_of_mem _ ha, hab⟩, ⟨r, List.mem_cons_self, rfl⟩, by omega, by omega⟩

/-- `BinFor` never produces the pseudo-bin number (nor anything above it) on the indexable range -/
theorem binFor_lt (b e : Int) (h0 : 0 ≤ b) (h1 : b < 536870912) : Hts.Model.Coord.binFor b e < 37450 := by
  unfold Hts.Model.Coord.binFor Hts.Model.Coord.u32
  simp only [Int.shiftRight_eq_div_pow]
  (repeat' split) <;> omega

theorem onRef_length_le (hist : List Rec) (j : Nat) : (onRef hist j).length ≤ hist.length :=
  List.length_filter_le _ _

/-- `WF` of a built index from hypotheses on the input alone -/
theorem built_wf (recs : List Rec) (h : SortedInput recs) (hlen : recs.length < 2147483647)
    (hrid : ∀ r, r ∈ recs → r.rid < 2147483647)
    (hbin : ∀ r, r ∈ recs → r.placed = true → r.bin < 37450)
    (hoff : ∀ r, r ∈ recs → r.chunk.e < 9223372036854775808) : WF (addAll {} recs).1 := by
  have inv := (addAll_sorted recs h).2
  have hsub : ∀ a, a ∈ (recs.filter (·.placed)).reverse → a ∈ recs ∧ a.placed = true := by
    intro a ha
    rw [List.mem_reverse, List.mem_filter] at ha
    exact ha
  have hhl : (recs.filter (·.placed)).reverse.length ≤ recs.length := by
    rw [List.length_reverse]; exact List.length_filter_le _ _
  apply wf_of_unsorted _ inv.flag
  · -- number of references
    cases hh : (recs.filter (·.placed)).reverse with
    | nil => rw [inv.len0 hh]; simp
    | cons a rest =>
      have := (inv.last a rest hh).1
      have := hrid a (hsub a (by rw [hh]; exact List.mem_cons_self)).1
      omega
  · intro ref href
    obtain ⟨j, hj⟩ := List.mem_iff_getElem?.1 href
    have ri := inv.refInv j ref hj
    have hol := onRef_length_le (recs.filter (·.placed)).reverse j
    have hrec : ∀ a, a ∈ onRef (recs.filter (·.placed)).reverse j → a ∈ recs ∧ a.placed = true :=
      fun a ha => hsub a (mem_onRef ha).1
    have hoffok : ∀ a, a ∈ recs → OffOK a.chunk.b ∧ OffOK a.chunk.e := by
      intro a ha
      have := (h.ok a ha).cb
      have := (h.ok a ha).ce
      have := hoff a ha
      unfold OffOK; omega
    refine { nb := ?_, bins := ?_, stats := ?_, ivlen := ?_, ivs := ?_ }
    · have := ri.binsLen; split <;> omega
    · intro bn hbn
      obtain ⟨a, ha, hab⟩ := ri.binRec bn hbn
      have hb := hbin a (hrec a ha).1 (hrec a ha).2
      refine ⟨by omega, by unfold statsDummyBin; omega, ?_, ?_⟩
      · have := ri.chunksLen bn hbn; omega
      · intro c hc
        obtain ⟨a', ha', hca, _⟩ := ri.stored bn hbn c hc
        rw [hca]
        exact hoffok a' (hrec a' ha').1
    · intro s hs
      rw [ri.stats] at hs
      obtain ⟨⟨a, ha, hab⟩, ⟨a', ha', hab'⟩, h3, h4⟩ := statsOf_bounds _ s hs
      rw [hab, hab']
      exact ⟨(hoffok a (hrec a ha).1).1, (hoffok a' (hrec a' ha').1).2, by omega, by omega⟩
    · have := ri.ivLen; omega
    · intro v hv
      have h0 := ri.ivNonneg v hv
      obtain ⟨a, ha, hva⟩ := ri.ivBound v hv
      have := (hoffok a (hrec a ha).1).1
      unfold OffOK at *
      omega
  · intro n hn
    cases recs with
    | nil => simp [addAll] at hn
    | cons r rs =>
      have := addAll_unmapped (r :: rs) {} (fun x hx => ⟨(h.ok x hx).vstart, (h.ok x hx).vstop⟩) (by simp)
      rw [this] at hn
      simp only [Option.some.injEq, umCount] at hn
      have := @List.countP_le_length _ (fun r : Rec => !r.placed) (r :: rs)
      omega

end Hts.Model.IndexIO
