/-
Lemmas about whole BGZF streams: what `render`/`closeOutput` emit, how the reader model and the
specification's multi-member parser take the stream apart again, and the EOF marker test.
-/
import Hts.Lemmas.BgzfSpec
import Hts.Lemmas.BgzfWriter
namespace Hts.Model.Member
open Hts.Spec

/-- the member for payload `p` under header `h` -/
def mb (c : CodecFns) (h : Header) (p : List Byte) : List Byte := memberBytes c h p (memberLen c h p - 1)

/-- the blocks that reach the underlying writer: the longest prefix of the queue that `writeBlock`
accepts -/
def written (c : CodecFns) (h : Header) : List (List Byte) → List (List Byte)
  | [] => []
  | p :: ps =>
    match writeBlock c h p with
    | .ok _ => p :: written c h ps
    | .error _ => []

/-- `writeBlock` accepts `p` -/
def Fits (c : CodecFns) (h : Header) (p : List Byte) : Prop := HdrOK h ∧ memberLen c h p ≤ BgzfWriter.MaxBlockSize

theorem writeBlock_ok_iff (c : CodecFns) (h : Header) (p : List Byte) :
    (∃ m, writeBlock c h p = .ok m) ↔ Fits c h p := by
  rcases writeBlock_cases c h p with ⟨hk, hl, hw⟩ | ⟨hk, hl, hw⟩ | ⟨hk, hw⟩
  · exact ⟨fun _ => ⟨hk, hl⟩, fun _ => ⟨_, hw⟩⟩
  · refine ⟨fun ⟨m, hm⟩ => ?_, fun hf => ?_⟩
    · rw [hw] at hm; cases hm
    · have := hf.2; omega
  · refine ⟨fun ⟨m, hm⟩ => ?_, fun hf => absurd hf.1 hk⟩
    rw [hw] at hm; cases hm

theorem writeBlock_of_fits (c : CodecFns) (h : Header) (p : List Byte) (hf : Fits c h p) :
    writeBlock c h p = .ok (mb c h p) := writeBlock_ok c h p hf.1 hf.2

theorem writeBlock_error_not_fits (c : CodecFns) (h : Header) (p : List Byte) (e : WErr)
    (he : writeBlock c h p = .error e) : ¬ Fits c h p := by
  intro hf; rw [writeBlock_of_fits c h p hf] at he; cases he

theorem written_fits (c : CodecFns) (h : Header) (blocks : List (List Byte)) :
    ∀ p ∈ written c h blocks, Fits c h p := by
  induction blocks with
  | nil => simp [written]
  | cons p ps ih =>
    simp only [written]
    cases hw : writeBlock c h p with
    | error e => simp
    | ok m =>
      simp only [List.mem_cons]
      rintro q (rfl | hq)
      · exact (writeBlock_ok_iff c h q).mp ⟨m, hw⟩
      · exact ih q hq

theorem written_prefix (c : CodecFns) (h : Header) (blocks : List (List Byte)) :
    ∃ rest, blocks = written c h blocks ++ rest := by
  induction blocks with
  | nil => exact ⟨[], rfl⟩
  | cons p ps ih =>
    simp only [written]
    cases hw : writeBlock c h p with
    | error e => exact ⟨p :: ps, rfl⟩
    | ok m => obtain ⟨r, hr⟩ := ih; exact ⟨r, by simp [← hr]⟩

theorem render_fst (c : CodecFns) (h : Header) (blocks : List (List Byte)) :
    (render c h blocks).1 = ((written c h blocks).map (mb c h)).flatten := by
  induction blocks with
  | nil => simp [render, written]
  | cons p ps ih =>
    simp only [render, written]
    cases hw : writeBlock c h p with
    | error e => simp
    | ok m =>
      have hf := (writeBlock_ok_iff c h p).mp ⟨m, hw⟩
      rw [writeBlock_of_fits c h p hf] at hw
      cases hw
      simp [ih]

theorem render_snd_none (c : CodecFns) (h : Header) (blocks : List (List Byte)) :
    (render c h blocks).2 = none ↔ written c h blocks = blocks := by
  induction blocks with
  | nil => simp [render, written]
  | cons p ps ih =>
    simp only [render, written]
    cases hw : writeBlock c h p with
    | error e => simp
    | ok m => simp [ih]

/-- When the emitter latches an error, it is the error of the first refused block, and that block is not
among the written ones. -/
theorem render_snd_some (c : CodecFns) (h : Header) (blocks : List (List Byte)) (e : WErr)
    (he : (render c h blocks).2 = some e) :
    ∃ p rest, blocks = written c h blocks ++ p :: rest ∧ writeBlock c h p = .error e := by
  induction blocks with
  | nil => simp [render] at he
  | cons p ps ih =>
    simp only [render, written] at he ⊢
    cases hw : writeBlock c h p with
    | error e' =>
      rw [hw] at he; simp at he; subst he
      exact ⟨p, ps, rfl, hw⟩
    | ok m =>
      rw [hw] at he; simp at he
      obtain ⟨q, r, h1, h2⟩ := ih he
      exact ⟨q, r, by simp [← h1], h2⟩

theorem closeOutput_eq (c : CodecFns) (h : Header) (bl : List (List Byte)) :
    closeOutput c h bl =
      ((render c h bl).1 ++ (if (render c h bl).2 = none then magicBlock else []), (render c h bl).2) := by
  unfold closeOutput
  split <;> rename_i heq <;> simp [heq]

/-! ### the reader model on a rendered stream -/

theorem mb_cons (c : CodecFns) (h : Header) (p tail : List Byte) : ∃ x xs, mb c h p ++ tail = x :: xs := by
  simp [mb, memberBytes]

theorem readStreamAux_nil (c : CodecFns) (fuel : Nat) : readStreamAux c fuel [] = some [] := by
  cases fuel <;> simp [readStreamAux]

theorem readStreamAux_members (c : Codec) (h : Header) (hr : ReaderOK h) (ws : List (List Byte))
    (hws : ∀ p ∈ ws, Fits c.toCodecFns h p ∧ p.length ≤ BgzfWriter.MaxBlockSize) (f : Nat) (tail : List Byte) :
    readStreamAux c.toCodecFns (ws.length + f) ((ws.map (mb c.toCodecFns h)).flatten ++ tail) =
      (readStreamAux c.toCodecFns f tail).map (ws ++ ·) := by
  induction ws with
  | nil => simp
  | cons p ps ih =>
    have hp := hws p (by simp)
    obtain ⟨x, xs, hx⟩ := mb_cons c.toCodecFns h p ((ps.map (mb c.toCodecFns h)).flatten ++ tail)
    have hrm := readMember_member c h p ((ps.map (mb c.toCodecFns h)).flatten ++ tail) hp.1.1 hr hp.1.2 hp.2
    simp only [List.map_cons, List.flatten_cons, List.append_assoc, List.length_cons]
    rw [show ps.length + 1 + f = (ps.length + f) + 1 by omega, hx, readStreamAux, ← hx]
    simp only [mb] at hrm ⊢
    simp only [hrm]
    rw [ih (fun q hq => hws q (by simp [hq]))]
    cases readStreamAux c.toCodecFns f tail <;> simp

theorem mb_length (c : CodecFns) (h : Header) (p : List Byte) : 18 ≤ (mb c h p).length := by
  simp [mb, memberBytes_length, memberLen]; omega

theorem flatten_mb_length (c : CodecFns) (h : Header) (ws : List (List Byte)) :
    ws.length ≤ ((ws.map (mb c h)).flatten).length := by
  induction ws with
  | nil => simp
  | cons p ps ih =>
    have := mb_length c h p
    simp only [List.map_cons, List.flatten_cons, List.length_append, List.length_cons]; omega

/-- The sequential reader meets exactly the written blocks and then the marker as an empty block. -/
theorem readStream_closed (c : Codec) (h : Header) (hr : ReaderOK h) (ws : List (List Byte))
    (hws : ∀ p ∈ ws, Fits c.toCodecFns h p ∧ p.length ≤ BgzfWriter.MaxBlockSize) :
    readStream c.toCodecFns ((ws.map (mb c.toCodecFns h)).flatten ++ magicBlock) = some (ws ++ [[]]) := by
  have hl := flatten_mb_length c.toCodecFns h ws
  simp only [readStream]
  obtain ⟨f, hf⟩ : ∃ f, ((ws.map (mb c.toCodecFns h)).flatten ++ magicBlock).length + 1 = ws.length + (f + 1) :=
    ⟨((ws.map (mb c.toCodecFns h)).flatten ++ magicBlock).length - ws.length, by
      have : magicBlock.length = 28 := rfl
      simp only [List.length_append]; omega⟩
  rw [hf, readStreamAux_members c h hr ws hws]
  have hm := readMember_magic c []
  simp only [List.append_nil] at hm
  rw [show magicBlock = 0x1f :: magicBlock.tail from rfl, readStreamAux, ← show magicBlock = 0x1f :: magicBlock.tail from rfl, hm]
  simp [readStreamAux_nil]

/-! ### the specification's multi-member parser on a rendered stream -/

theorem parseMembersAux_nil (x : Rfc1952.Ext) (fuel : Nat) : Rfc1952.parseMembersAux x fuel [] = some [] := by
  cases fuel <;> simp [Rfc1952.parseMembersAux]

theorem parseMembersAux_members (c : Codec) (h : Header) (ws : List (List Byte))
    (hws : ∀ p ∈ ws, Fits c.toCodecFns h p) (f : Nat) (tail : List Byte) :
    Rfc1952.parseMembersAux (ext c.toCodecFns) (ws.length + f) ((ws.map (mb c.toCodecFns h)).flatten ++ tail) =
      (Rfc1952.parseMembersAux (ext c.toCodecFns) f tail).map
        (ws.map (fun p => specMember c.toCodecFns h p (memberLen c.toCodecFns h p - 1)) ++ ·) := by
  induction ws with
  | nil => simp
  | cons p ps ih =>
    have hp := hws p (by simp)
    obtain ⟨x, xs, hx⟩ := mb_cons c.toCodecFns h p ((ps.map (mb c.toCodecFns h)).flatten ++ tail)
    have hpm := parseMember_member c h p (memberLen c.toCodecFns h p - 1) ((ps.map (mb c.toCodecFns h)).flatten ++ tail) hp.1
    simp only [List.map_cons, List.flatten_cons, List.append_assoc, List.length_cons]
    rw [show ps.length + 1 + f = (ps.length + f) + 1 by omega, hx, Rfc1952.parseMembersAux, ← hx]
    simp only [mb] at hpm ⊢
    rw [hpm]
    simp only [Option.bind_some]
    rw [ih (fun q hq => hws q (by simp [hq]))]
    cases Rfc1952.parseMembersAux (ext c.toCodecFns) f tail <;> simp

/-- Members of the output when the marker was appended (`marker = true`) or not. -/
theorem parseMembers_rendered (c : Codec) (h : Header) (ws : List (List Byte))
    (hws : ∀ p ∈ ws, Fits c.toCodecFns h p) (marker : Bool) :
    Rfc1952.parseMembers (ext c.toCodecFns) ((ws.map (mb c.toCodecFns h)).flatten ++ (if marker then magicBlock else [])) =
      some (ws.map (fun p => specMember c.toCodecFns h p (memberLen c.toCodecFns h p - 1)) ++
        (if marker then [markerMember] else [])) := by
  have hl := flatten_mb_length c.toCodecFns h ws
  simp only [Rfc1952.parseMembers]
  cases marker with
  | false =>
    simp only [Bool.false_eq_true, if_false, List.append_nil]
    obtain ⟨f, hf⟩ : ∃ f, ((ws.map (mb c.toCodecFns h)).flatten).length + 1 = ws.length + f :=
      ⟨((ws.map (mb c.toCodecFns h)).flatten).length + 1 - ws.length, by omega⟩
    have := parseMembersAux_members c h ws hws f []
    simp only [List.append_nil] at this
    rw [hf, this, parseMembersAux_nil]; simp
  | true =>
    simp only [if_true]
    obtain ⟨f, hf⟩ : ∃ f, ((ws.map (mb c.toCodecFns h)).flatten ++ magicBlock).length + 1 = ws.length + (f + 1) :=
      ⟨((ws.map (mb c.toCodecFns h)).flatten ++ magicBlock).length - ws.length, by
      have : magicBlock.length = 28 := rfl
      simp only [List.length_append]; omega⟩
    rw [hf, parseMembersAux_members c h ws hws]
    have hm := parseMember_marker c []
    simp only [List.append_nil] at hm
    rw [show magicBlock = 0x1f :: magicBlock.tail from rfl, Rfc1952.parseMembersAux,
      ← show magicBlock = 0x1f :: magicBlock.tail from rfl, hm]
    simp [parseMembersAux_nil]

/-! ### the EOF marker test -/

theorem hasEOF_append_marker (out : List Byte) : hasEOF (out ++ magicBlock) = true := by
  simp [hasEOF]

theorem hasEOF_nil : hasEOF [] = false := by decide

/-- A stream that ends with the ISIZE field of a non-empty payload does not end with the marker. -/
theorem hasEOF_isize (front : List Byte) (n : Nat) (h0 : n ≠ 0) (hn : n < 2 ^ 32) :
    hasEOF (front ++ le32 n) = false := by
  cases hh : hasEOF (front ++ le32 n) with
  | false => rfl
  | true =>
    exfalso
    simp only [hasEOF, Bool.and_eq_true, decide_eq_true_eq, beq_iff_eq] at hh
    obtain ⟨hlen, hdrop⟩ := hh
    have hsplit := List.take_append_drop ((front ++ le32 n).length - magicBlock.length) (front ++ le32 n)
    rw [hdrop] at hsplit
    have hm : magicBlock = magicBlock.take 24 ++ [0, 0, 0, 0] := by decide
    rw [hm, ← List.append_assoc] at hsplit
    have := List.append_inj_right' hsplit (by simp [le32])
    simp only [le32, List.cons.injEq, and_true] at this
    obtain ⟨a, b, c', d⟩ := this
    have ha := congrArg UInt8.toNat a
    have hb := congrArg UInt8.toNat b
    have hc := congrArg UInt8.toNat c'
    have hd := congrArg UInt8.toNat d
    simp at ha hb hc hd
    omega

theorem mb_isize (c : CodecFns) (h : Header) (p : List Byte) :
    ∃ front, mb c h p = front ++ le32 (p.length % 2 ^ 32) := by
  refine ⟨(memberBytes c h p (memberLen c h p - 1)).take 18 ++ (h.extra ++ (zbytes h.name ++ (zbytes h.comment ++
    (c.deflate p ++ le32 (c.crc32 p))))), ?_⟩
  simp [mb, memberBytes, afterExtra]

/-- A non-empty stream of members of non-empty payloads does not end with the marker. -/
theorem hasEOF_members (c : CodecFns) (h : Header) (ws : List (List Byte))
    (hws : ∀ p ∈ ws, 1 ≤ p.length ∧ p.length < 2 ^ 32) :
    hasEOF ((ws.map (mb c h)).flatten) = false := by
  rcases List.eq_nil_or_concat ws with rfl | ⟨ws', p, rfl⟩
  · simp [hasEOF_nil]
  · rw [List.concat_eq_append] at hws ⊢
    have hp := hws p (by simp)
    obtain ⟨front, hf⟩ := mb_isize c h p
    simp only [List.map_append, List.flatten_append, List.map_cons, List.map_nil, List.flatten_cons,
      List.flatten_nil, List.append_nil, hf, ← List.append_assoc]
    apply hasEOF_isize
    · rw [Nat.mod_eq_of_lt hp.2]; omega
    · exact Nat.mod_lt _ (by decide)

/-! ### whole scripts -/

open BgzfWriter (after Op hasClose accepted) in
/-- what the underlying writer has received when the script's Close returns, and Close's result -/
def output (c : CodecFns) (h : Header) (wops : List (BgzfWriter.Op Byte)) : List Byte × Option WErr :=
  closeOutput c h (BgzfWriter.after wops).emitted

/-- the blocks of the script that reached the underlying writer -/
def writtenBlocks (c : CodecFns) (h : Header) (wops : List (BgzfWriter.Op Byte)) : List (List Byte) :=
  written c h (BgzfWriter.after wops).emitted

theorem output_eq (c : CodecFns) (h : Header) (wops : List (BgzfWriter.Op Byte)) :
    (output c h wops).1 = ((writtenBlocks c h wops).map (mb c h)).flatten ++
      (if (output c h wops).2 = none then magicBlock else []) := by
  simp only [output, closeOutput_eq, writtenBlocks, render_fst]

theorem writtenBlocks_sub (c : CodecFns) (h : Header) (wops : List (BgzfWriter.Op Byte)) :
    ∀ p ∈ writtenBlocks c h wops, p ∈ (BgzfWriter.after wops).emitted := by
  obtain ⟨r, hr⟩ := written_prefix c h (BgzfWriter.after wops).emitted
  intro p hp
  rw [hr]; exact List.mem_append_left _ hp

/-- with the default header and a codec within zlib's deflateBound a block of at most BlockSize bytes fits -/
theorem default_fits (c : CodecFns) (hb : Bounded c) (p : List Byte) (hp : p.length ≤ BgzfWriter.BlockSize) :
    Fits c {} p := by
  refine ⟨⟨by decide, by simp, by simp⟩, ?_⟩
  have := hb p
  simp only [memberLen, zbytes, BgzfWriter.MaxBlockSize, BgzfWriter.BlockSize] at *
  simp
  omega

theorem written_all (c : CodecFns) (h : Header) (bl : List (List Byte)) (hf : ∀ p ∈ bl, Fits c h p) :
    written c h bl = bl := by
  induction bl with
  | nil => rfl
  | cons p ps ih =>
    simp only [written, writeBlock_of_fits c h p (hf p (by simp))]
    rw [ih (fun q hq => hf q (by simp [hq]))]

theorem default_output_ok (c : CodecFns) (hb : Bounded c) (wops : List (BgzfWriter.Op Byte))
    (hclose : BgzfWriter.hasClose wops = true) : (output c {} wops).2 = none := by
  have hall := written_all c {} (BgzfWriter.after wops).emitted
    (fun p hp => default_fits c hb p (BgzfWriter.after_blocks_le wops hclose p hp))
  have := (render_snd_none c {} (BgzfWriter.after wops).emitted).mpr hall
  simpa only [output, closeOutput_eq] using this

end Hts.Model.Member
