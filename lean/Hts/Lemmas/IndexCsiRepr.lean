/-
Every CSI index built by `csi.Index.Add` from a coordinate-sorted input is representable (`CWF`) under
hypotheses on the INPUT only.  The bin-count bound (`nBins ≤ binLimit + 1`: every bin of the geometry plus
the pseudo-bin) needs a pigeonhole argument: bin numbers are pairwise distinct and below the bin limit.
-/
import Hts.Lemmas.IndexIOCsi
import Hts.Lemmas.Coord
namespace Hts.Model.IndexIO
open Hts.Model.Index Hts.Model.Csi

/-- pigeonhole: pairwise distinct naturals below `n` are at most `n` many -/
theorem nodup_length_le : ∀ (n : Nat) (l : List Nat), l.Nodup → (∀ x, x ∈ l → x < n) → l.length ≤ n := by
  intro n
  induction n with
  | zero =>
    intro l _ hl
    cases l with
    | nil => simp
    | cons a as => exact absurd (hl a List.mem_cons_self) (by omega)
  | succ n ih =>
    intro l hn hl
    have h1 := ih (l.erase n) (hn.erase n)
      (by
        intro x hx
        obtain ⟨hne, hx'⟩ := (hn.mem_erase_iff).1 hx
        have := hl x hx'
        omega)
    by_cases hm : n ∈ l
    · have := List.length_erase_of_mem hm
      omega
    · rw [List.erase_of_not_mem hm] at h1
      omega

open Hts.Spec.Coord in
/-- the specification's bin of an in-range interval is below the number of bins of the scheme -/
theorem spec_reg2binAux_lt (b e : Nat) : ∀ (l s : Nat), b < 2 ^ (s + 3 * l) →
    reg2binAux b e s l < levelOffset (l + 1) := by
  intro l
  induction l with
  | zero => intro s _; simp [reg2binAux, levelOffset]
  | succ l ih =>
    intro s hb
    unfold reg2binAux
    rw [levelOffset_succ (l + 1)]
    split
    · have : b >>> s < 2 ^ (3 * (l + 1)) := Hts.Model.Coord.shr_lt b (3 * (l + 1)) s (by
        have : 3 * (l + 1) + s = s + 3 * (l + 1) := by omega
        rw [this]; exact hb)
      rw [Hts.Model.Coord.pow8_eq (l + 1)]
      omega
    · have := ih (s + 3) (by
        have : s + 3 + 3 * l = s + 3 * (l + 1) := by omega
        rw [this]; exact hb)
      have := pow8_pos (l + 1)
      omega

/-- `csi.reg2bin` of a valid placed record is below the bin limit of the geometry (depth ≤ 10) -/
theorem reg2bin_lt_binLimit (ms d : Nat) (hd : d ≤ 10) (start stop : Int) (h0 : 0 ≤ start) (h1 : start < stop)
    (h2 : stop ≤ (2 : Int) ^ (ms + 3 * d)) : Hts.Model.Coord.reg2bin start stop ms d < csiBinLimit d := by
  have e : ((2 ^ (ms + 3 * d) : Nat) : Int) = (2 : Int) ^ (ms + 3 * d) := by
    rw [Int.natCast_pow]; rfl
  have hs := Hts.Model.Coord.reg2bin_spec start.toNat stop.toNat ms d (by omega) (by omega) (by omega)
  have e1 : ((start.toNat : Nat) : Int) = start := by omega
  have e2 : ((stop.toNat : Nat) : Int) = stop := by omega
  rw [e1, e2] at hs
  rw [hs]
  have hlim : csiBinLimit d = Hts.Spec.Coord.levelOffset (d + 1) := by
    unfold csiBinLimit Hts.Spec.Coord.levelOffset
    have hp : 2 ^ ((d + 1) * 3) = 8 ^ (d + 1) := by rw [Hts.Model.Coord.pow8_eq]; congr 1; omega
    rw [hp]
    have := Hts.Model.Coord.levelOffset_lt (d + 1) (by omega)
    unfold Hts.Spec.Coord.levelOffset at this
    omega
  rw [hlim]
  unfold Hts.Spec.Coord.reg2bin
  apply spec_reg2binAux_lt
  have : start.toNat < stop.toNat := by omega
  have : stop.toNat ≤ 2 ^ (ms + 3 * d) := by omega
  omega

theorem statsOfC_bounds : ∀ (h : List CRec) (s : Stats), statsOfC h = some s →
    (∃ a, a ∈ h ∧ s.chunk.b = a.chunk.b) ∧ (∃ a, a ∈ h ∧ s.chunk.e = a.chunk.e) ∧
      s.mapped ≤ h.length ∧ s.unmapped ≤ h.length := by
  intro h
  induction h with
  | nil => intro s hs; cases hs
  | cons r older ih =>
    intro s hs
    simp only [statsOfC, Option.some.injEq] at hs
    subst hs
    cases hso : statsOfC older with
    | none =>
      unfold addStats
      cases r.mapped
      · simp only [Bool.false_eq_true, if_false, List.length_cons]
        exact ⟨⟨r, List.mem_cons_self, rfl⟩, ⟨r, List.mem_cons_self, rfl⟩, by omega, by omega⟩
      · simp only [if_true, List.length_cons]
        exact ⟨⟨r, List.mem_cons_self, rfl⟩, ⟨r, List.mem_cons_self, rfl⟩, by omega, by omega⟩
    | some s0 =>
      obtain ⟨⟨a, ha, hab⟩, _, h3, h4⟩ := ih s0 hso
      unfold addStats
      cases r.mapped
      · simp only [Bool.false_eq_true, if_false, List.length_cons]
        exact ⟨⟨a, List.mem_cons_of_mem _ ha, hab⟩, ⟨r, List.mem_cons_self, rfl⟩, by omega, by omega⟩
      · simp only [if_true, List.length_cons]
        exact ⟨⟨a, List.mem_cons_of_mem _ ha, hab⟩, ⟨r, List.mem_cons_self, rfl⟩, by omega, by omega⟩

/-- `CWF` of a built CSI index from hypotheses on the input alone -/
theorem csi_built_cwf (ms d : Nat) (hd : d ≤ 10) (hms : ms < 2147483648) (hgeom : ms + 3 * d ≤ 62)
    (i0 : CIndex) (hi0 : i0.refs = [] ∧ i0.unmapped = none ∧ i0.isSorted = false ∧ i0.lastRecord = 0)
    (hms0 : i0.minShift = ms) (hd0 : i0.depth = d) (hver : i0.version = 1 ∨ i0.version = 2)
    (haux : i0.aux.length < 2147483648)
    (recs : List CRec) (h : CSortedInput ms d recs) (hlen : recs.length < 2147483647)
    (hrid : ∀ r, r ∈ recs → r.rid < 2147483647)
    (hoff : ∀ r, r ∈ recs → r.chunk.e < 9223372036854775808) :
    CWF (Csi.addAll Hts.Model.Coord.reg2bin i0 recs).1 := by
  have init : CIdxInv (fun x => Hts.Model.Coord.reg2bin x.start x.stop ms d) i0 [] :=
    { flag := hi0.2.2.1
      len0 := fun _ => hi0.1
      last := by intro a rest h; cases h
      ridLt := by intro a h; cases h
      refInv := by intro j ref h; rw [hi0.1] at h; simp at h }
  obtain ⟨_, hms', hd', inv⟩ := Csi.addAll_inv Hts.Model.Coord.reg2bin ms d recs i0 [] hms0 hd0 init
    (by intro a ha; cases ha) h.ok h.sorted (by intro a ha; cases ha)
  simp only [List.append_nil] at inv
  have hfix := Csi.addAll_fixed Hts.Model.Coord.reg2bin recs i0
  have hsub : ∀ a, a ∈ (recs.filter (·.placed)).reverse → a ∈ recs ∧ a.placed = true := by
    intro a ha
    rw [List.mem_reverse, List.mem_filter] at ha
    exact ha
  have hhl : (recs.filter (·.placed)).reverse.length ≤ recs.length := by
    rw [List.length_reverse]; exact List.length_filter_le _ _
  refine
    { version := by rw [hfix.1]; exact hver
      minShift := by rw [hms']; exact hms
      geom := by rw [hms', hd']; exact hgeom
      aux := by rw [hfix.2]; exact haux
      nrefs := ?_, bounds := ?_
      flag := by intro hf; rw [inv.flag] at hf; cases hf
      um := ?_ }
  · cases hh : (recs.filter (·.placed)).reverse with
    | nil => rw [inv.len0 hh]; simp
    | cons a rest =>
      have := (inv.last a rest hh).1
      have := hrid a (hsub a (by rw [hh]; exact List.mem_cons_self)).1
      omega
  · intro ref href
    rw [hfix.1, hd']
    obtain ⟨j, hj⟩ := List.mem_iff_getElem?.1 href
    have ri := inv.refInv j ref hj
    have hol : (Csi.onRef (recs.filter (·.placed)).reverse j).length ≤ (recs.filter (·.placed)).reverse.length :=
      List.length_filter_le _ _
    have hrec : ∀ a, a ∈ Csi.onRef (recs.filter (·.placed)).reverse j → a ∈ recs ∧ a.placed = true :=
      fun a ha => hsub a (Csi.mem_onRef ha).1
    have hoffok : ∀ a, a ∈ recs → OffOK a.chunk.b ∧ OffOK a.chunk.e := by
      intro a ha
      have := (h.ok a ha).cb
      have := (h.ok a ha).ce
      have := hoff a ha
      unfold OffOK; omega
    have hbinlt : ∀ bn, bn ∈ ref.bins → bn.bin < csiBinLimit d := by
      intro bn hbn
      obtain ⟨a, ha, hab, _⟩ := ri.binRec bn hbn
      rw [← hab]
      have hok := h.ok a (hrec a ha).1
      obtain ⟨h0, hlt⟩ := hok.pos (hrec a ha).2
      have hv := hok.vstop
      simp only [Csi.validPos, Csi.posBound_of_le (show ms + 3 * d ≤ 63 by omega), Bool.and_eq_true,
        decide_eq_true_eq] at hv
      exact reg2bin_lt_binLimit ms d hd a.start a.stop h0 hlt (by omega)
    have hcount : ref.bins.length ≤ csiBinLimit d := by
      have := nodup_length_le (csiBinLimit d) (ref.bins.map (·.bin)) ri.nodup
        (by
          intro x hx
          obtain ⟨bn, hbn, rfl⟩ := List.mem_map.1 hx
          exact hbinlt bn hbn)
      rwa [List.length_map] at this
    refine { nb := ?_, nb31 := ?_, bins := ?_, stats := ?_ }
    · split <;> omega
    · have := ri.binsLen; split <;> omega
    · intro bn hbn
      obtain ⟨a, ha, hab, a', ha', hl⟩ := ri.binRec bn hbn
      have hb := hbinlt bn hbn
      have hlim := csiBinLimit_lt d (by omega)
      obtain ⟨c1, c2⟩ := ri.chunksLen bn hbn
      refine ⟨by omega, by omega, ?_, by omega, by omega, ?_⟩
      · rw [hl]; exact (hoffok a' (hrec a' ha').1).1
      · intro c hc
        obtain ⟨a2, ha2, hca⟩ := ri.stored bn hbn c hc
        rw [hca]
        exact hoffok a2 (hrec a2 ha2).1
    · intro s hs
      rw [ri.stats] at hs
      obtain ⟨⟨a, ha, hab⟩, ⟨a', ha', hab'⟩, h3, h4⟩ := statsOfC_bounds _ s hs
      rw [hab, hab']
      exact ⟨(hoffok a (hrec a ha).1).1, (hoffok a' (hrec a' ha').1).2, by omega, by omega⟩
  · intro n hn
    cases recs with
    | nil => simp [Csi.addAll, hi0.2.1] at hn
    | cons r rs =>
      have := Csi.addAll_unmapped Hts.Model.Coord.reg2bin ms d (r :: rs) i0 hms0 hd0
        (fun x hx => ⟨(h.ok x hx).vstart, (h.ok x hx).vstop⟩) (by simp)
      rw [this] at hn
      simp only [Option.some.injEq, umCount, hi0.2.1] at hn
      have := @List.countP_le_length _ (fun r : CRec => !r.placed) (r :: rs)
      omega

end Hts.Model.IndexIO
