/-
Field-level round trips of the SAM text layer: sequence, qualities, every aux type.  Core only.
-/
import Hts.Lemmas.SamDec
import Hts.Lemmas.SamSplit
import Hts.Model.SamTextSpec
namespace Hts.Model.SamText
open Hts.Spec.SamLine (QNameChar RNameOK RNameChar PrintChar PrintOrSpace TagOK isAlpha isAlnum)

/-! ### sequence -/

theorem baseChar_facts : ∀ x : Fin 16, n16 (baseChar x) = x ∧ baseChar x ≠ 42 ∧ baseChar x ≠ 9 ∧
    baseChar x ≠ 10 ∧ baseChar x ≠ 13 := by decide

theorem map_n16_baseChar (s : List (Fin 16)) : (s.map baseChar).map n16 = s := by
  induction s with
  | nil => rfl
  | cons x s ih => simp only [List.map_cons, ih, (baseChar_facts x).1]

theorem formatSeq_ne_star (s : List (Fin 16)) (h : s ≠ []) : formatSeq s ≠ [42] := by
  unfold formatSeq
  cases s with
  | nil => exact absurd rfl h
  | cons x s =>
    simp only [List.isEmpty_cons, Bool.false_eq_true, if_false, List.map_cons]
    intro heq
    have : baseChar x = 42 := by injection heq
    exact (baseChar_facts x).2.1 this

/-- sequence round trip: parsing the printed sequence gives the same base codes -/
theorem parse_formatSeq (s : List (Fin 16)) :
    (if formatSeq s = [42] then [] else (formatSeq s).map n16) = s := by
  cases s with
  | nil => simp [formatSeq]
  | cons x s =>
    rw [if_neg (formatSeq_ne_star _ (by simp))]
    simp only [formatSeq, List.isEmpty_cons, Bool.false_eq_true, if_false]
    exact map_n16_baseChar _

theorem formatSeq_length (s : List (Fin 16)) (h : s ≠ []) : ((formatSeq s).map n16).length = s.length := by
  cases s with
  | nil => exact absurd rfl h
  | cons x s => simp [formatSeq]

theorem formatSeq_no_sep (s : List (Fin 16)) : ∀ c ∈ formatSeq s, c ≠ 9 ∧ c ≠ 10 ∧ c ≠ 13 := by
  intro c hc
  unfold formatSeq at hc
  split at hc
  · simp at hc; subst hc; decide
  · simp only [List.mem_map] at hc
    obtain ⟨x, _, rfl⟩ := hc
    exact ⟨(baseChar_facts x).2.2.1, (baseChar_facts x).2.2.2.1, (baseChar_facts x).2.2.2.2⟩

/-! ### qualities -/

theorem u8_add_sub (x : UInt8) : x + 33 - 33 = x := UInt8.add_sub_cancel x 33

theorem map_add_sub (q : Bytes) : (q.map (· + 33)).map (· - 33) = q := by
  induction q with
  | nil => rfl
  | cons x q ih => simp only [List.map_cons, ih, u8_add_sub]

theorem phred_facts : ∀ n : Fin 256, UInt8.ofNat n.val ≤ 93 →
    (UInt8.ofNat n.val + 33 ≠ 9 ∧ UInt8.ofNat n.val + 33 ≠ 10 ∧ UInt8.ofNat n.val + 33 ≠ 13 ∧
     UInt8.ofNat n.val ≠ 255 ∧ (UInt8.ofNat n.val + 33 = 42 → UInt8.ofNat n.val = 9)) := by decide +kernel

theorem phred_char (x : UInt8) (h : x ≤ 93) :
    x + 33 ≠ 9 ∧ x + 33 ≠ 10 ∧ x + 33 ≠ 13 ∧ x ≠ 255 ∧ (x + 33 = 42 → x = 9) := by
  have := phred_facts ⟨x.toNat, x.toNat_lt⟩
  simpa using this (by simpa using h)

theorem any_ne_false (q : Bytes) (h : q.any (· != 255) = false) : ∀ v ∈ q, v = 255 := by
  intro v hv
  rw [List.any_eq_false] at h
  have := h v hv
  simpa using this

theorem any_ne_true_not_all (q : Bytes) (h : q.any (· != 255) = true) : ¬ ∀ v ∈ q, v = 255 := by
  intro hall
  rw [List.any_eq_true] at h
  obtain ⟨v, hv, hne⟩ := h
  simp [hall v hv] at hne

theorem parseQual_star (n : Nat) :
    parseQual [42] n = if n ≠ 0 then some (List.replicate n 255) else none := by
  simp [parseQual]

/-- quality round trip: UnmarshalSAM's quality field of the printed qualities is `canonQual` -/
theorem parseQual_formatQual (r : Record) (h : QualOK r) :
    parseQual (formatQual r.qual) r.seq.length = canonQual r := by
  unfold QualOK at h
  unfold canonQual formatQual
  cases hq : r.qual with
  | none => simp [parseQual_star]
  | some q =>
    rw [hq] at h
    obtain ⟨hlen, hv⟩ := h
    simp only
    by_cases hany : q.any (· != 255) = true
    · simp only [hany, if_true]
      rcases hv with hv | ⟨hv, hne9⟩
      · exact absurd hv (any_ne_true_not_all q hany)
      · have hne : q ≠ [] := by intro e; subst e; simp at hany
        have hstar : q.map (· + 33) ≠ [42] := by
          intro heq
          cases q with
          | nil => exact hne rfl
          | cons x q =>
            cases q with
            | nil =>
              simp only [List.map_cons, List.map_nil, List.cons.injEq, and_true] at heq
              have := (phred_char x (hv x List.mem_cons_self)).2.2.2.2 heq
              exact hne9 (by rw [this])
            | cons y q => simp at heq
        have hne' : (q.map (· + 33)).isEmpty = false := by cases q <;> simp_all
        simp only [parseQual, hstar, ne_eq, not_false_eq_true, if_true, hne', Bool.false_eq_true, if_false,
          map_add_sub]
    · have hany' : q.any (· != 255) = false := by simpa using hany
      simp [hany', parseQual_star]

theorem canonQual_length (r : Record) (q' : Bytes) (h : QualOK r) (hq : canonQual r = some q') :
    q'.length = r.seq.length := by
  unfold canonQual at hq
  unfold QualOK at h
  cases hr : r.qual with
  | none =>
    rw [hr] at hq
    simp only at hq
    split at hq
    · injection hq with e; subst e; simp
    · exact absurd hq (by simp)
  | some q =>
    rw [hr] at hq h
    simp only at hq
    split at hq
    · injection hq with e; subst e; exact h.1
    · split at hq
      · injection hq with e; subst e; simp
      · exact absurd hq (by simp)

theorem formatQual_no_sep (r : Record) (h : QualOK r) : ∀ c ∈ formatQual r.qual, c ≠ 9 ∧ c ≠ 10 ∧ c ≠ 13 := by
  unfold QualOK at h
  unfold formatQual
  intro c hc
  cases hq : r.qual with
  | none => rw [hq] at hc; simp at hc; subst hc; decide
  | some q =>
    rw [hq] at hc h
    simp only at hc
    split at hc
    · rename_i hany
      rcases h.2 with hv | ⟨hv, _⟩
      · exact absurd hv (any_ne_true_not_all q hany)
      · simp only [List.mem_map] at hc
        obtain ⟨x, hx, rfl⟩ := hc
        have := phred_char x (hv x hx)
        exact ⟨this.1, this.2.1, this.2.2.1⟩
    · simp at hc; subst hc; decide

/-- re-formatting: the canonical qualities print like the original ones -/
theorem formatQual_canonQual (r : Record) : formatQual (canonQual r) = formatQual r.qual := by
  unfold canonQual formatQual
  have habs : ∀ n : Nat, (match (if n ≠ 0 then some (List.replicate n (255 : UInt8)) else none) with
      | none => [42]
      | some q => if q.any (· != 255) then q.map (· + 33) else [42]) = ([42] : Bytes) := by
    intro n
    split
    · rfl
    · rename_i q hq
      split at hq
      · injection hq with e; subst e
        have : (List.replicate n (255 : UInt8)).any (· != 255) = false := by
          rw [List.any_eq_false]; intro x hx; simp [List.eq_of_mem_replicate hx]
        simp [this]
      · exact absurd hq (by simp)
  cases hq : r.qual with
  | none => simp only; exact habs _
  | some q =>
    simp only
    by_cases hany : q.any (· != 255) = true
    · simp [hany]
    · have hany' : q.any (· != 255) = false := by simpa using hany
      simp only [hany', Bool.false_eq_true, if_false]
      exact habs _

end Hts.Model.SamText
