/-
The clients of Model/BamOverLTS.lean over the sequential reader are the functions of Model/BamChunks.lean.
-/
import Hts.Model.BamOverLTS
namespace Hts.Model.ReadAhead
open Hts.Model.Bgzf
open Hts.Spec.Flat (Offset Chunk vOffset)

theorem Client.run_bind {α β : Type} (c : Client α) (f : α → Client β) (r : Reader) :
    (c.bind f).run r = (f (c.run r).1).run (c.run r).2 := by
  induction c generalizing r with
  | done a => rfl
  | op o k ih => simp only [Client.bind, Client.run]; exact ih _ _ _

theorem cReadFull_run (n : Nat) (r : Reader) :
    (cReadFull n r).run r = (readFull r n, (readFull r n).1) := by
  unfold cReadFull readFull
  by_cases hn : n = 0
  · simp [hn, Client.run]
  · simp only [hn, if_false, Client.run, Reader.step, fullOf]
    by_cases hle : n ≤ (r.read n).2.1.length
    · simp [hle]
    · cases he : (r.read n).2.2 with
      | none => simp [hle]
      | some e => cases e <;> simp [hle]

theorem cNewBuffer_run (br : BamReader) :
    (cNewBuffer br).run br.r = (br.newBuffer, br.newBuffer.1.r) := by
  unfold cNewBuffer BamReader.newBuffer
  rw [Client.run_bind, cReadFull_run]
  simp only
  generalize readFull br.r 4 = x1
  obtain ⟨r1, szb, e1⟩ := x1
  cases e1 with
  | some e => rfl
  | none =>
    simp only
    by_cases h0 : leInt32 szb = 0
    · simp only [h0, if_true]; rfl
    · simp only [h0, if_false]
      by_cases hneg : leInt32 szb < 0
      · simp only [hneg, if_true]; rfl
      · simp only [hneg, if_false]
        rw [Client.run_bind, cReadFull_run]
        simp only
        generalize readFull r1 (leInt32 szb).toNat = x2
        obtain ⟨r2, body, e2⟩ := x2
        cases e2 <;> rfl

theorem cBamRead_run (br : BamReader) : (cBamRead br).run br.r = (br.read, br.read.1.r) := by
  unfold cBamRead BamReader.read
  cases hc : br.c with
  | none => exact cNewBuffer_run br
  | some c =>
    simp only
    split
    · rfl
    · exact cNewBuffer_run br

theorem cReadN_run : ∀ (k : Nat) (br : BamReader), (cReadN k br).run br.r = (br.readN k, (br.readN k).1.r) := by
  intro k
  induction k with
  | zero => intro br; rfl
  | succ k ih =>
    intro br
    simp only [cReadN, BamReader.readN]
    rw [Client.run_bind, cBamRead_run]
    simp only
    generalize br.read = x
    obtain ⟨br', res⟩ := x
    cases res with
    | error e => rfl
    | ok body =>
      simp only
      rw [Client.run_bind, ih]
      rfl

theorem cSetChunk_run (br : BamReader) (c : Option Chunk) :
    (cSetChunk br c).run br.r = (br.setChunk c, (br.setChunk c).1.r) := by
  cases c with
  | none => rfl
  | some c =>
    simp only [cSetChunk, BamReader.setChunk, Client.run, Reader.step]
    generalize br.r.seek c.bgn = x
    obtain ⟨r', e⟩ := x
    cases e <;> rfl

theorem cHeader_run : ∀ (hs : List Nat) (r : Reader),
    (cHeader hs r).run r = (BamReader.consumeHeader r hs, (BamReader.consumeHeader r hs).1) := by
  intro hs
  induction hs with
  | nil => intro r; rfl
  | cons n ns ih =>
    intro r
    rcases hrd : r.read n with ⟨r', out, e⟩
    simp only [cHeader, BamReader.consumeHeader, Client.run, Reader.step, hrd]
    by_cases hl : out.length ≠ n
    · simp only [if_pos hl]; rfl
    · simp only [if_neg hl]
      cases e with
      | some e => rfl
      | none => exact ih r'

theorem cBamNew_run {F : File} {r0 : Reader} (h0 : Reader.new F = .ok r0) (hs : List Nat) :
    ((cBamNew hs r0).run r0).1 = BamReader.new F hs ∧
    ∀ br, BamReader.new F hs = .ok br → ((cBamNew hs r0).run r0).2 = br.r := by
  unfold cBamNew BamReader.new
  rw [Client.run_bind, cHeader_run, h0]
  simp only
  generalize BamReader.consumeHeader r0 hs = x
  obtain ⟨r', e⟩ := x
  cases e with
  | some e => exact ⟨rfl, fun br h => by cases h⟩
  | none => exact ⟨rfl, fun br h => by cases h; rfl⟩

theorem cSeqPass_run {F : File} {r0 : Reader} (h0 : Reader.new F = .ok r0) (hs : List Nat) (k : Nat)
    (br0 : BamReader) (hb : BamReader.new F hs = .ok br0) :
    ((cSeqPass hs k r0).run r0).1 = some (br0.readN k).2 := by
  have h := cBamNew_run h0 hs
  unfold cSeqPass
  rw [Client.run_bind]
  generalize (cBamNew hs r0).run r0 = y at h
  obtain ⟨x, r1⟩ := y
  simp only at h
  obtain ⟨h1, h2⟩ := h
  rw [hb] at h1
  subst h1
  rw [h2 br0 hb]
  simp only
  rw [Client.run_bind, cReadN_run]
  rfl

theorem cReplay_run {F : File} {r0 : Reader} (h0 : Reader.new F = .ok r0) (hs : List Nat) (c : Chunk) (k : Nat)
    (br0 : BamReader) (hb : BamReader.new F hs = .ok br0) :
    ((cReplay hs c k r0).run r0).1 =
      some ((br0.setChunk (some c)).2, ((br0.setChunk (some c)).1.readN k).2) := by
  have h := cBamNew_run h0 hs
  unfold cReplay
  rw [Client.run_bind]
  generalize (cBamNew hs r0).run r0 = y at h
  obtain ⟨x, r1⟩ := y
  simp only at h
  obtain ⟨h1, h2⟩ := h
  rw [hb] at h1
  subst h1
  rw [h2 br0 hb]
  simp only
  rw [Client.run_bind, cSetChunk_run]
  simp only
  rw [Client.run_bind, cReadN_run]
  rfl

end Hts.Model.ReadAhead
