/-
Every tabix index built by `tabix.Index.Add` from a coordinate-sorted input is representable (`TWF`) under
hypotheses on the INPUT only (header fields in range, NUL-free names of bounded total length, sizes).
-/
import Hts.Lemmas.IndexTabixNames
import Hts.Lemmas.IndexIOTabix
import Hts.Lemmas.IndexRepr
namespace Hts.Model.IndexIO
open Hts.Model.Index Hts.Model.Tabix

theorem add_names_cases (binOf : Int → Int → Nat) (t : TIndex) (r : TRec) :
    (Tabix.add binOf t r).1.names = t.names ∨ (Tabix.add binOf t r).1.names = t.names ++ [r.name] := by
  unfold Tabix.add
  cases Tabix.mapGet t.nameMap r.name <;> simp only <;> split <;> first | (left; rfl) | (right; rfl)

/-- the names of the index are a sublist of the names of the records added so far -/
theorem addAll_names_sublist (binOf : Int → Int → Nat) : ∀ (recs : List TRec) (t : TIndex),
    (Tabix.addAll binOf t recs).1.names.Sublist (t.names ++ recs.map (·.name)) := by
  intro recs
  induction recs with
  | nil => intro t; simp [Tabix.addAll]
  | cons r rs ih =>
    intro t
    simp only [Tabix.addAll, List.map_cons]
    have h := ih (Tabix.add binOf t r).1
    rcases add_names_cases binOf t r with hn | hn
    · rw [hn] at h
      exact h.trans (List.Sublist.append_left (List.sublist_cons_self _ _) _)
    · rw [hn, List.append_assoc] at h
      exact h

theorem nameBlock_sublist {l₁ l₂ : List Name} (h : l₁.Sublist l₂) :
    (nameBlock l₁).length ≤ (nameBlock l₂).length := by
  induction h with
  | slnil => exact Nat.le_refl _
  | cons a _ ih => simp only [nameBlock, List.flatMap_cons, List.length_append] at ih ⊢; omega
  | cons_cons a _ ih => simp only [nameBlock, List.flatMap_cons, List.length_append] at ih ⊢; omega

/-- reference ids handed to the internal index never exceed the number of names known plus the number
of records still to come -/
theorem trace_rid_le (binOf : Int → Int → Nat) : ∀ (recs : List TRec) (t : TIndex), NameInv t →
    ∀ x, x ∈ Tabix.trace binOf t recs → x.rid ≤ ((t.names.length + recs.length : Nat) : Int) := by
  intro recs
  induction recs with
  | nil => intro t _ x hx; simp [Tabix.trace] at hx
  | cons r rs ih =>
    intro t hinv x hx
    simp only [Tabix.trace, List.mem_cons] at hx
    rcases hx with rfl | hx
    · show ((Tabix.ridOf t r.name : Nat) : Int) ≤ _
      have : Tabix.ridOf t r.name ≤ t.names.length := by
        unfold Tabix.ridOf
        cases hk : Tabix.mapGet t.nameMap r.name with
        | none => exact Nat.le_refl _
        | some id => exact Nat.le_of_lt (Tabix.nameInv_ids t hinv _ _ hk)
      simp only [List.length_cons]
      omega
    · have := ih (Tabix.add binOf t r).1 (Tabix.add_nameInv binOf t r hinv) x hx
      have hn : (Tabix.add binOf t r).1.names.length ≤ t.names.length + 1 := by
        rcases add_names_cases binOf t r with hn | hn <;> rw [hn] <;> simp
      simp only [List.length_cons]
      omega

/-- the header fields `tabix.WriteTo` can store -/
structure HeaderFieldsOK (h : Header) : Prop where
  format : h.format < 256
  nameCol : -2147483648 ≤ h.nameCol ∧ h.nameCol < 2147483648
  begCol : -2147483648 ≤ h.begCol ∧ h.begCol < 2147483648
  endCol : -2147483648 ≤ h.endCol ∧ h.endCol < 2147483648
  metaChar : -2147483648 ≤ h.metaChar ∧ h.metaChar < 2147483648
  skip : -2147483648 ≤ h.skip ∧ h.skip < 2147483648

theorem add_hdr (binOf : Int → Int → Nat) (t : TIndex) (r : TRec) : (Tabix.add binOf t r).1.hdr = t.hdr := by
  unfold Tabix.add
  cases Tabix.mapGet t.nameMap r.name <;> simp only <;> split <;> rfl

theorem addAll_hdr (binOf : Int → Int → Nat) : ∀ (recs : List TRec) (t : TIndex),
    (Tabix.addAll binOf t recs).1.hdr = t.hdr := by
  intro recs
  induction recs with
  | nil => intro t; rfl
  | cons r rs ih => intro t; simp only [Tabix.addAll]; rw [ih, add_hdr]

/-- `TWF` of a built tabix index from hypotheses on the input alone -/
theorem tabix_built_twf (hdr : Header) (hh : HeaderFieldsOK hdr) (recs : List TRec)
    (h : SortedInput (Tabix.trace Hts.Model.Coord.binFor { hdr := hdr } recs))
    (hlen : recs.length < 2147483647)
    (hoff : ∀ r, r ∈ recs → r.chunk.e < 9223372036854775808)
    (hnul : ∀ r, r ∈ recs → ∀ b, b ∈ r.name → b ≠ 0)
    (hnames : (nameBlock (recs.map (·.name))).length < 2147483648) :
    TWF (Tabix.addAll Hts.Model.Coord.binFor { hdr := hdr } recs).1 := by
  have hsub := addAll_names_sublist Hts.Model.Coord.binFor recs { hdr := hdr }
  simp only [List.nil_append] at hsub
  have hidx := (Tabix.addAll_idx Hts.Model.Coord.binFor recs { hdr := hdr }).1
  have hcount := Tabix.addAll_count Hts.Model.Coord.binFor recs { hdr := hdr } (Tabix.nameInv_empty hdr) rfl
  have htlen : (Tabix.trace Hts.Model.Coord.binFor { hdr := hdr } recs).length = recs.length := by
    suffices H : ∀ (rs : List TRec) (t : TIndex), (Tabix.trace Hts.Model.Coord.binFor t rs).length = rs.length from H _ _
    intro rs
    induction rs with
    | nil => intro t; rfl
    | cons r rs ih => intro t; simp [Tabix.trace, ih]
  refine { idx := ?_, hdr := ?_, count := hcount }
  · rw [hidx]
    apply built_wf _ h (by rw [htlen]; exact hlen)
    · intro x hx
      have := trace_rid_le Hts.Model.Coord.binFor recs { hdr := hdr } (Tabix.nameInv_empty hdr) x hx
      simp only [List.length_nil, Nat.zero_add] at this
      omega
    · intro x hx hp
      obtain ⟨k, hk⟩ := List.mem_iff_getElem?.1 hx
      have hkl : k < recs.length := by
        have := (List.getElem?_eq_some_iff.1 hk).1; omega
      obtain ⟨r, hr⟩ : ∃ r, recs[k]? = some r := ⟨recs[k], (List.getElem?_eq_some_iff).2 ⟨hkl, rfl⟩⟩
      obtain ⟨x', hx', hs, he, _, _, _, hb⟩ := Tabix.trace_get Hts.Model.Coord.binFor recs { hdr := hdr } k r hr
      rw [hk] at hx'
      cases hx'
      have hok := h.ok x hx
      obtain ⟨h0, _⟩ := hok.pos hp
      have hv := hok.vstart
      simp only [validPos, Bool.and_eq_true, decide_eq_true_eq] at hv
      rw [hb, ← hs]
      exact binFor_lt _ _ h0 (by omega)
    · intro x hx
      obtain ⟨k, hk⟩ := List.mem_iff_getElem?.1 hx
      have hkl : k < recs.length := by
        have := (List.getElem?_eq_some_iff.1 hk).1; omega
      obtain ⟨r, hr⟩ : ∃ r, recs[k]? = some r := ⟨recs[k], (List.getElem?_eq_some_iff).2 ⟨hkl, rfl⟩⟩
      obtain ⟨x', hx', _, _, hc, _⟩ := Tabix.trace_get Hts.Model.Coord.binFor recs { hdr := hdr } k r hr
      rw [hk] at hx'
      cases hx'
      rw [hc]
      exact hoff r (List.mem_of_getElem? hr)
  · rw [addAll_hdr]
    exact
      { format := hh.format, nameCol := hh.nameCol, begCol := hh.begCol, endCol := hh.endCol,
        metaChar := hh.metaChar, skip := hh.skip
        namesLen := Nat.lt_of_le_of_lt (nameBlock_sublist hsub) hnames
        noNul := by
          intro nm hnm b hb
          have hmem := hsub.subset hnm
          obtain ⟨r, hr, rfl⟩ := List.mem_map.1 hmem
          exact hnul r hr b hb }

end Hts.Model.IndexIO
