/-
C11 on the byte-level index reader model of C15 (`Hts.Model.IndexIO`, tied to the code by C15's
correspondence check): `csi.ReadFrom` never ends in `Fault.panic`, for arbitrary bytes.  Core Lean only.

In that model every `make([]T, n)` of the CSI reader is `counted n …` (a negative `n` is the error the
code returns since fixes/C11-13) or follows the `nBins < 0` / `uint32(nBins) > binLimit+1` tests of `readBins` (`rCBins`: `n < 0`, `n.toNat > binLimit + 1`);
the `bins = bins[:len(bins)-1]; i--` step of the statistics pseudo-bin is the loop counter `k` of
`rCBinLoop` going down without a bin being appended.
-/
import Hts.Model.IndexIO
namespace Hts.Model.IndexIO

/-- a parser that never panics -/
def NP {α : Type} (p : P α) : Prop := ∀ bs, p bs ≠ .error .panic

theorem rU32_np : NP rU32 := by
  intro bs
  unfold rU32
  split <;> intro h <;> cases h

theorem rI32_np : NP rI32 := by
  intro bs
  unfold rI32
  split
  · intro h; cases h
  · rename_i e he
    intro h; cases h
    exact rU32_np bs he

theorem rU64_np : NP rU64 := by
  intro bs
  unfold rU64
  split
  · rename_i lo rest _
    split
    · intro h; cases h
    · rename_i e he
      intro h; cases h
      exact rU32_np rest he
  · rename_i e he
    intro h; cases h
    exact rU32_np bs he

theorem rOff_np : NP rOff := by
  intro bs
  unfold rOff
  split
  · intro h; cases h
  · rename_i e he
    intro h; cases h
    exact rU64_np bs he

theorem rChunk_np : NP rChunk := by
  intro bs
  unfold rChunk
  split
  · rename_i b rest _
    split
    · intro h; cases h
    · rename_i e he
      intro h; cases h
      exact rOff_np rest he
  · rename_i e he
    intro h; cases h
    exact rOff_np bs he

theorem rep_np {α : Type} (p : P α) (hp : NP p) : ∀ n, NP (rep p n) := by
  intro n
  induction n with
  | zero => intro bs; unfold rep; intro h; cases h
  | succ n ih =>
    intro bs
    unfold rep
    split
    · rename_i a rest _
      split
      · intro h; cases h
      · rename_i e he
        intro h; cases h
        exact ih rest he
    · rename_i e he
      intro h; cases h
      exact hp bs he

theorem counted_np {α : Type} (n : Int) (p : P α) (hp : NP p) : NP (counted n p) := by
  intro bs
  unfold counted
  split
  · intro h; cases h
  · exact rep_np p hp _ bs

theorem rBytes_np (n : Nat) : NP (rBytes n) := by
  intro bs
  unfold rBytes
  split <;> intro h <;> cases h

theorem rChunks_np (n : Int) : NP (rChunks n) := by
  intro bs
  unfold rChunks
  split
  · intro h; cases h
  · split
    · intro h; cases h
    · rename_i e he
      intro h; cases h
      exact counted_np n rChunk rChunk_np bs he

theorem rStatsBody_np : NP rStatsBody := by
  intro bs
  unfold rStatsBody
  split
  · rename_i c r1 _
    split
    · rename_i m r2 _
      split
      · intro h; cases h
      · rename_i e he
        intro h; cases h
        exact rU64_np r2 he
    · rename_i e he
      intro h; cases h
      exact rU64_np r1 he
  · rename_i e he
    intro h; cases h
    exact rChunk_np bs he

theorem rCBinLoop_np (version dummy : Nat) : ∀ (k : Nat) acc st,
    NP (rCBinLoop version dummy k acc st) := by
  intro k
  induction k with
  | zero => intro acc st bs; unfold rCBinLoop; intro h; cases h
  | succ k ih =>
    intro acc st bs
    unfold rCBinLoop
    split
    · rename_i e he
      intro h; cases h
      exact rU32_np bs he
    · rename_i bin r1 _
      split
      · rename_i e he
        intro h; cases h
        exact rOff_np r1 he
      · rename_i left r2 _
        split
        · rename_i e he
          intro h; cases h
          split at he
          · exact rU64_np r2 he
          · cases he
        · rename_i recs r3 _
          split
          · rename_i e he
            intro h; cases h
            exact rI32_np r3 he
          · rename_i n r4 _
            split
            · split
              · intro h; cases h
              · split
                · rename_i e he
                  intro h; cases h
                  exact rStatsBody_np r4 he
                · exact ih _ _ _
            · split
              · rename_i e he
                intro h; cases h
                exact rChunks_np n r4 he
              · exact ih _ _ _

theorem rCBins_np (version binLimit : Nat) : NP (rCBins version binLimit) := by
  intro bs
  unfold rCBins
  split
  · rename_i e he
    intro h; cases h
    exact rI32_np bs he
  · rename_i n rest _
    split
    · intro h; cases h
    · split
      · intro h; cases h
      · split
        · intro h; cases h
        · split
          · rename_i e he
            intro h; cases h
            exact rCBinLoop_np version (binLimit + 1) _ _ _ rest he
          · intro h; cases h

theorem rAux_np (na : Int) : NP (rAux na) := by
  intro bs
  unfold rAux
  split
  · exact rBytes_np _ bs
  · intro h; cases h

theorem rCRef_np (version binLimit : Nat) : NP (rCRef version binLimit) := by
  intro bs
  unfold rCRef
  split
  · intro h; cases h
  · rename_i e he
    intro h; cases h
    exact rCBins_np version binLimit bs he

theorem rCRefs_np (version binLimit : Nat) (n : Int) : NP (rCRefs version binLimit n) := by
  intro bs
  unfold rCRefs
  split
  · intro h; cases h
  · exact counted_np n _ (rCRef_np version binLimit) bs

theorem rUnmapped_ne_panic (bs : Bytes) : rUnmapped bs ≠ .error .panic := by
  unfold rUnmapped
  split
  · intro h; cases h
  · split
    · intro h; cases h
    · rename_i e he
      intro h; cases h
      exact rU64_np bs he

/-- `csi.ReadFrom` in C15's model: an index or an error, for every byte string -/
theorem readCsi_ne_panic (bs : Bytes) : readCsi bs ≠ .error .panic := by
  unfold readCsi
  split
  · rename_i e he
    intro h; cases h
    exact rBytes_np 3 _ he
  · rename_i m r1 _
    split
    · intro h; cases h
    · split
      · intro h; cases h
      ·
        split
        · intro h; cases h
        · split
          · rename_i e he
            intro h; cases h
            exact rI32_np _ he
          · rename_i ms r3 _
            split
            · intro h; cases h
            · split
              · rename_i e he
                intro h; cases h
                exact rI32_np _ he
              · rename_i dp r4 _
                split
                · intro h; cases h
                · split
                  · intro h; cases h
                  · split
                    · rename_i e he
                      intro h; cases h
                      exact rI32_np _ he
                    · rename_i na r5 _
                      split
                      · rename_i e he
                        intro h; cases h
                        exact rAux_np na _ he
                      · rename_i aux r6 _
                        split
                        · rename_i e he
                          intro h; cases h
                          exact rI32_np _ he
                        · rename_i n r7 _
                          split
                          · rename_i e he
                            intro h; cases h
                            exact rCRefs_np _ _ n _ he
                          · rename_i refs r8 _
                            split
                            · rename_i e he
                              intro h; cases h
                              exact rUnmapped_ne_panic _ he
                            · intro h; cases h

end Hts.Model.IndexIO
