/-
Enclosure law of the merge strategies in the terms of C17's model (Hts.Model.Merge, offsets (file, block),
`vOff`): on a list sorted by begin every input CHUNK is enclosed by ONE output chunk.  This is stronger
than C17's positional coverage (`covers`): see `enclosed_covers` and `covers_not_enclosed` below.
C04 needs the chunk form (one returned chunk holds the record from its first to its last byte).
-/
import Hts.Lemmas.Merge
namespace Hts.Model.Merge

/-- `c` encloses `p` in virtual-offset order -/
def encloses (c p : Chunk) : Prop := vOff c.b ≤ vOff p.b ∧ vOff p.e ≤ vOff c.e

/-- one chunk of the list encloses `p` -/
def enclosedBy (cs : List Chunk) (p : Chunk) : Prop := ∃ c, c ∈ cs ∧ encloses c p

theorem encloses_mergeInto (l r p : Chunk) (hs : vOff l.b ≤ vOff r.b) (h : encloses l p ∨ encloses r p) :
    encloses (mergeInto l r) p := by
  unfold encloses mergeInto at *
  simp only
  split <;> rcases h with h | h <;> constructor <;> omega

theorem mergeLoop_enc (close : Chunk → Chunk → Bool) : ∀ (rs : List Chunk) (l : Chunk), SortedB (l :: rs) →
    ∀ p, (encloses l p ∨ ∃ x, x ∈ rs ∧ encloses x p) → enclosedBy (mergeLoop close l rs) p := by
  intro rs
  induction rs with
  | nil =>
    intro l _ p hp
    rcases hp with hp | ⟨x, hx, _⟩
    · exact ⟨l, by simp [mergeLoop], hp⟩
    · cases hx
  | cons r rs ih =>
    intro l hs p hp
    unfold mergeLoop
    split
    · apply ih _ (sortedB_merge hs)
      rcases hp with hp | ⟨x, hx, hxp⟩
      · exact Or.inl (encloses_mergeInto l r p hs.1 (Or.inl hp))
      · rcases List.mem_cons.1 hx with rfl | hx
        · exact Or.inl (encloses_mergeInto l x p hs.1 (Or.inr hxp))
        · exact Or.inr ⟨x, hx, hxp⟩
    · rcases hp with hp | ⟨x, hx, hxp⟩
      · exact ⟨l, List.mem_cons_self, hp⟩
      · obtain ⟨y, hy, hyp⟩ := ih r hs.2 p
          (by
            rcases List.mem_cons.1 hx with rfl | hx
            · exact Or.inl hxp
            · exact Or.inr ⟨x, hx, hxp⟩)
        exact ⟨y, List.mem_cons_of_mem _ hy, hyp⟩

theorem encloses_refl (c : Chunk) : encloses c c := ⟨Int.le_refl _, Int.le_refl _⟩

/-- `index.Adjacent` loses no chunk -/
theorem adjacent_enc (cs : List Chunk) (h : SortedB cs) (c : Chunk) (hc : c ∈ cs) : enclosedBy (adjacent cs) c := by
  cases cs with
  | nil => cases hc
  | cons x xs =>
    apply mergeLoop_enc _ xs x h
    rcases List.mem_cons.1 hc with rfl | hc
    · exact Or.inl (encloses_refl _)
    · exact Or.inr ⟨c, hc, encloses_refl _⟩

/-- `index.CompressorStrategy(near)` loses no chunk, for every threshold -/
theorem compressor_enc (near : Int) (cs : List Chunk) (h : SortedB cs) (c : Chunk) (hc : c ∈ cs) :
    enclosedBy (compressor near cs) c := by
  cases cs with
  | nil => cases hc
  | cons x xs =>
    apply mergeLoop_enc _ xs x h
    rcases List.mem_cons.1 hc with rfl | hc
    · exact Or.inl (encloses_refl _)
    · exact Or.inr ⟨c, hc, encloses_refl _⟩

/-- `index.Squash` loses no chunk -/
theorem squash_enc (cs : List Chunk) (h : SortedB cs) (c : Chunk) (hc : c ∈ cs) : enclosedBy (squash cs) c := by
  cases cs with
  | nil => cases hc
  | cons x xs =>
    have hm := maxEnd_ge x.e xs
    refine ⟨_, List.mem_singleton.2 rfl, ?_⟩
    unfold encloses
    simp only
    rcases List.mem_cons.1 hc with rfl | hc
    · exact ⟨Int.le_refl _, hm.1⟩
    · exact ⟨sortedB_head_le h c hc, hm.2 c hc⟩

theorem identity_enc (cs : List Chunk) (c : Chunk) (hc : c ∈ cs) : enclosedBy (identity cs) c :=
  ⟨c, hc, encloses_refl c⟩

/-! ### enclosure versus positional coverage -/

/-- enclosure implies C17's positional coverage: a strategy that loses no chunk loses no position -/
theorem enclosed_covers (s : List Chunk → List Chunk) (cs : List Chunk)
    (h : ∀ c, c ∈ cs → enclosedBy (s cs) c) (p : Int) (hp : covers cs p) : covers (s cs) p := by
  obtain ⟨c, hc, hcp⟩ := hp
  obtain ⟨c', hc', he⟩ := h c hc
  refine ⟨c', hc', ?_⟩
  unfold covers1 encloses at *
  omega

/-- the converse fails: cutting a chunk in two keeps every position covered but no single output chunk
encloses the input chunk (so C17's `*_covers` theorems alone do not give C04's "one returned chunk holds
the record") -/
theorem covers_not_enclosed :
    ∃ (s : List Chunk → List Chunk) (cs : List Chunk), SortedB cs ∧ (∀ p, covers cs p → covers (s cs) p) ∧
      ¬ ∀ c, c ∈ cs → enclosedBy (s cs) c := by
  refine ⟨fun _ => [⟨⟨0, 0⟩, ⟨1, 0⟩⟩, ⟨⟨1, 0⟩, ⟨2, 0⟩⟩], [⟨⟨0, 0⟩, ⟨2, 0⟩⟩], trivial, ?_, ?_⟩
  · intro p hp
    obtain ⟨c, hc, h1, h2⟩ := hp
    simp only [List.mem_singleton] at hc
    subst hc
    simp only [vOff] at h1 h2
    by_cases hlt : p < 65536
    · exact ⟨⟨⟨0, 0⟩, ⟨1, 0⟩⟩, by simp, by simp only [covers1, vOff]; omega⟩
    · exact ⟨⟨⟨1, 0⟩, ⟨2, 0⟩⟩, by simp, by simp only [covers1, vOff]; omega⟩
  · intro h
    obtain ⟨c, hc, h1, h2⟩ := h ⟨⟨0, 0⟩, ⟨2, 0⟩⟩ (by simp)
    simp only [List.mem_cons, List.mem_nil_iff, or_false] at hc
    rcases hc with rfl | rfl <;> simp [vOff] at h1 h2

end Hts.Model.Merge
