/-
The faulty sequential reader: Read, ReadByte and Seek from the invariant between calls.
-/
import Hts.Lemmas.FaultLoop
namespace Hts.Model.Bgzf
open Hts.Spec.Flat

/-- Invariant of the faulty reader between calls: no error latched and the reader stands at logical position
`pos`, or an error is latched on the block of a failed load. -/
structure FInv (F : File) (x : FReader) (pos : Nat) : Prop where
  file : x.r.file = F
  alive : x.r.err = none → ∃ pre m post k, At F x.r pre m post k ∧ pos = flatLen pre + k
  dead : ∀ e, x.r.err = some e → x.r.cur.hasData = false ∧ (e = .eof ∨ e = .other)

theorem ReadRes.inv {F : File} {x x' : FReader} {pos want : Nat} {bytes : List UInt8} {e : Option Err}
    (h : ReadRes F x x' pos want bytes e) : FInv F x' (pos + bytes.length) := by
  refine ⟨h.file, fun he => ?_, fun e' he' => ?_⟩
  · obtain ⟨⟨pre', m', post', k', hat, hp⟩, _⟩ := h.alive he
    exact ⟨pre', m', post', k', hat, hp.symm⟩
  · have := h.latched e' he'
    exact ⟨this.2.1, this.2.2⟩

theorem fread_spec {F : File} (hwf : WF F) {x : FReader} {pos : Nat} (hi : FInv F x pos) (n : Nat) :
    (∀ e, x.r.err = some e → x.read n = (x, [], some e)) ∧
    (x.r.err = none → ReadRes F x (x.read n).1 pos n (x.read n).2.1 (x.read n).2.2) := by
  refine ⟨fun e he => by simp [FReader.read, he], fun he => ?_⟩
  obtain ⟨pre, m, post, k, hat, hp⟩ := hi.alive he
  have hfuel : post.length < x.r.skipFuel := by
    simp only [Reader.skipFuel, hat.file, hat.split, List.length_append, List.length_cons]; omega
  have hsk := fskipEmpty_spec hwf x.r.skipFuel x pre m post k hat hfuel
  rw [← hp] at hsk
  simp only [FReader.read, he]
  generalize hx1 : x.skipEmpty x.r.skipFuel = x1 at hsk
  rcases hsk.out with ⟨pre', m', post', k', hat', hk', hpos', hpl⟩ | ⟨e, hL, he1, he2⟩
  · simp only [hat'.err]
    generalize hx2 : (x1.withR fun r => { r with lastChunk := ⟨r.cur.tx, r.lastChunk.fin⟩ }) = x2
    have hat2 : At F x2.r pre' m' post' k' := by
      subst hx2; exact ⟨hat'.file, hat'.split, hat'.cur, hat'.le, hat'.err⟩
    have hb2 : x2.r.blocked = x.r.blocked := by subst hx2; exact hsk.blocked
    have ho2 : x2.oracle = x1.oracle := by subst hx2; rfl
    have hf2 : x2.r.file = F := hat2.file
    have hloop := freadLoop_spec hwf x2.r.loopFuel x2 pre' m' post' k' n hat2
      (by simp [Reader.loopFuel]) (by intro _; simp only [Reader.loopFuel, hf2]; split <;> omega)
    rw [hpos'] at hloop
    exact ⟨hloop.bytes_ok, hloop.le, hloop.file, hloop.blocked.trans hb2,
      fun hn => hloop.noeof (by rw [ho2]; exact hsk.noeof hn),
      fun h => (by have := hloop.alive h; rw [hb2] at this; exact this), hloop.latched,
      fun h1 h2 h3 => hloop.eofEnd h1 (by rw [hb2]; exact h2) (by rw [ho2]; exact hsk.noeof h3)⟩
  · simp only [hL.1]
    refine ⟨by simp, by simp, hsk.file, hsk.blocked, hsk.noeof, fun h => (by rw [hL.1] at h; cases h), ?_, ?_⟩
    · intro e' he'
      rw [hL.1] at he'; cases he'
      exact ⟨rfl, hL.2, he1⟩
    · intro h1 _ hn
      simp only [Option.some.injEq] at h1
      simpa using he2 h1 hn

theorem freadByte_spec {F : File} (hwf : WF F) {x : FReader} {pos : Nat} (hi : FInv F x pos) :
    (∀ e, x.r.err = some e → x.readByte = (x, 0, some e)) ∧
    (x.r.err = none → ReadRes F x x.readByte.1 pos 1
      (if x.readByte.2.2 = none then [x.readByte.2.1] else []) x.readByte.2.2) := by
  refine ⟨fun e he => by simp [FReader.readByte, he], fun he => ?_⟩
  obtain ⟨pre, m, post, k, hat, hp⟩ := hi.alive he
  have hfuel : post.length < x.r.skipFuel := by
    simp only [Reader.skipFuel, hat.file, hat.split, List.length_append, List.length_cons]; omega
  have hsk := fskipEmpty_spec hwf x.r.skipFuel x pre m post k hat hfuel
  rw [← hp] at hsk
  simp only [FReader.readByte, he]
  generalize hx1 : x.skipEmpty x.r.skipFuel = x1 at hsk
  rcases hsk.out with ⟨pre', m', post', k', hat', hk', hpos', hpl⟩ | ⟨e, hL, he1, he2⟩
  · have hm : m'.data.length < 65536 := (WF.mid (hat'.split ▸ hwf)).2
    simp only [hat'.err]
    obtain ⟨xr, xo⟩ := x1
    obtain ⟨rf, rc, rl, re, rb⟩ := xr
    obtain ⟨hf, hs, hc, hle, hee⟩ := hat'
    simp only at hf hc hee
    subst hf hc hee
    have hmod : (k' + 1) % 65536 = k' + 1 := Nat.mod_eq_of_lt (by omega)
    simp only [FReader.withR, Block.readByte_mk_lt _ _ _ _ _ _ hk', hmod, if_true]
    have hbyte : [m'.data[k']] = ((flatBytes rf).drop pos).take 1 := by
      rw [← hpos', ← take_drop_flat hs k' 1 (by omega), List.drop_eq_getElem_cons hk']; rfl
    refine ⟨by simpa using hbyte, by simp, rfl, hsk.blocked, hsk.noeof, fun _ => ⟨⟨pre', m', post', k' + 1,
      ⟨rfl, hs, by simp [Reader.setEnd], by omega, rfl⟩, by simp; omega⟩, Or.inl rfl⟩, ?_, ?_⟩
    · intro e' he'; simp [Reader.setEnd] at he'
    · intro h; cases h
  · simp only [hL.1]
    refine ⟨by simp, by simp, hsk.file, hsk.blocked, hsk.noeof, fun h => (by rw [hL.1] at h; cases h), ?_, ?_⟩
    · intro e' he'
      rw [hL.1] at he'; cases he'
      exact ⟨rfl, hL.2, he1⟩
    · intro h1 _ hn
      simp only [Option.some.injEq] at h1
      simpa using he2 h1 hn

theorem seek_failed {F : File} {x x' : FReader} {p base : Nat} {e : Err} (hfile : x.r.file = F)
    (hc : x'.r = { x.r with cur := Block.failed base }) (hor : x'.oracle = x.oracle.tail)
    (hee : e = .eof ∨ e = .other) (hno : e = .eof → ¬ NoEof x.oracle) :
    (((x'.withR fun r => { r with err := some e }), some e).2 = none →
      FInv F (x'.withR fun r => { r with err := some e }) p ∧ (x'.withR fun r => { r with err := some e }).r.err = none) ∧
    (∀ e1, ((x'.withR fun r => { r with err := some e }), some e).2 = some e1 →
      FInv F (x'.withR fun r => { r with err := some e }) p ∧
      (x'.withR fun r => { r with err := some e }).r.err = some e1 ∧ (e1 = .eof ∨ e1 = .other)) ∧
    (x'.withR fun r => { r with err := some e }).r.blocked = x.r.blocked ∧
    (NoEof x.oracle → NoEof (x'.withR fun r => { r with err := some e }).oracle) ∧
    (((x'.withR fun r => { r with err := some e }), some e).2 = some .eof → ¬ NoEof x.oracle) := by
  refine ⟨(fun h => by cases h), ?_, by simp [FReader.withR, hc], ?_, ?_⟩
  · intro e1 h1
    simp only [Option.some.injEq] at h1
    subst h1
    refine ⟨⟨by simp [FReader.withR, hc, hfile], ?_, ?_⟩, by simp [FReader.withR], hee⟩
    · intro h; simp [FReader.withR] at h
    · intro e2 h2
      simp only [FReader.withR, Option.some.injEq] at h2
      subst h2
      exact ⟨by simp [FReader.withR, hc, Block.hasData, Block.failed], hee⟩
  · intro hn; simp only [FReader.withR]; rw [hor]; exact hn.tail
  · intro h; simp only [Option.some.injEq] at h; exact hno h

/-- `Seek` to a valid target under faults: the reader stands at the target, or the failed load is latched. -/
theorem fseek_spec {F : File} (hwf : WF F) {x : FReader} {pos : Nat} (hi : FInv F x pos) (o : Offset) (p : Nat)
    (hs : seekTarget (layoutOf F) o = some p) :
    ((x.seek o).2 = none → FInv F (x.seek o).1 p ∧ (x.seek o).1.r.err = none) ∧
    (∀ e, (x.seek o).2 = some e → FInv F (x.seek o).1 p ∧ (x.seek o).1.r.err = some e ∧ (e = .eof ∨ e = .other)) ∧
    (x.seek o).1.r.blocked = x.r.blocked ∧ (NoEof x.oracle → NoEof (x.seek o).1.oracle) ∧
    ((x.seek o).2 = some .eof → ¬ NoEof x.oracle) := by
  obtain ⟨pre', m', post', hF, ho, hb, hp⟩ := seekTarget_some F o p hwf hs
  have hlen : m'.data.length < 65536 := (WF.mid (hF ▸ hwf)).2
  have hmc : 0 < m'.csize := (WF.mid (hF ▸ hwf)).1
  have hmod : o.block % 65536 = o.block := Nat.mod_eq_of_lt (by omega)
  have hwpre : WF pre' := (hF ▸ hwf : WF (pre' ++ m' :: post')).append_left
  have hmem : memberAt F o.file = .ok m' := by
    rw [ho, hF]; simp only []
    rw [memberAt_split pre' (m' :: post') hwpre, memberAt_zero_cons]
  have hofile : o.file = csum pre' := by rw [ho]
  by_cases hne : o.file ≠ x.r.cur.base ∨ x.r.cur.hasData = false
  · -- load through the oracle
    have ⟨hout, hor⟩ := loadAt_out x o.file hi.file
    simp only [FReader.seek, hne, if_true]
    rcases hx : x.loadAt o.file with ⟨x', e'⟩
    rw [hx] at hout hor
    simp only at hor
    cases hout with
    | loaded m'' hm' he hc =>
      rw [hmem] at hm'; cases hm'
      simp only at he hc
      subst he
      simp only
      refine ⟨fun _ => ⟨⟨by simp [FReader.withR, hc, hi.file], fun _ => ⟨pre', m', post', o.block,
        ⟨by simp [FReader.withR, hc, hi.file], hF, by simp [FReader.withR, hc, Block.seek, hmod, hofile], hb, rfl⟩, hp⟩,
        (fun e he => by simp [FReader.withR] at he)⟩, by simp [FReader.withR]⟩, (fun e he => by cases he),
        by simp [FReader.withR, hc], (fun hn => by simp only [FReader.withR]; rw [hor]; exact hn.tail),
        (fun h => by cases h)⟩
    | realEof hm' _ _ => rw [hmem] at hm'; cases hm'
    | bad hm' _ _ => rw [hmem] at hm'; cases hm'
    | faultErr he hc =>
      simp only at he hc; subst he
      exact seek_failed hi.file hc hor (Or.inr rfl) (fun h => by cases h)
    | faultEof ho' he hc =>
      simp only at he hc; subst he
      exact seek_failed hi.file hc hor (Or.inl rfl) (fun _ hn => absurd rfl (hn _ ho'))
  · -- inside the current block
    have heq : o.file = x.r.cur.base := by
      rcases Nat.decEq o.file x.r.cur.base with h | h
      · exact absurd (Or.inl h) hne
      · exact h
    have hd : x.r.cur.hasData = true := by
      cases hh : x.r.cur.hasData with
      | true => rfl
      | false => exact absurd (Or.inr hh) hne
    have halive : x.r.err = none := by
      cases he : x.r.err with
      | none => rfl
      | some e => have := (hi.dead e he).1; rw [hd] at this; cases this
    obtain ⟨pre, m, post, k, hat, _⟩ := hi.alive halive
    have hcs : csum pre = csum pre' := by
      have := hat.cur; rw [this] at heq; simp at heq; omega
    obtain ⟨rfl, rfl, rfl⟩ := split_unique (hat.split ▸ hwf) (hat.split.symm.trans hF) hcs
    simp only [FReader.seek, hne, if_false]
    refine ⟨fun _ => ⟨⟨by simp [FReader.withR, hi.file], fun _ => ⟨pre, m, post, o.block,
      ⟨by simp [FReader.withR, hi.file], hF, by simp [FReader.withR, Block.seek, hat.cur, hmod], hb, rfl⟩, hp⟩,
      (fun e he => by simp [FReader.withR] at he)⟩, by simp [FReader.withR]⟩, (fun e he => by cases he),
      by simp [FReader.withR], (fun hn => by simpa [FReader.withR] using hn), (fun h => by cases h)⟩

end Hts.Model.Bgzf
