/-
Order lemmas for the Merger model: strict weak orders, the heap order (less, then source id), the
comparison functions of the sort orders.
-/
import Hts.Model.Merger
namespace Hts.Model.Merger

theorem StrictWeak.asymm {α : Type} {lt : α → α → Bool} (sw : StrictWeak lt) (a b : α) (h : lt a b = true) :
    lt b a = false := by
  cases hba : lt b a with
  | false => rfl
  | true => have := sw.trans _ _ _ h hba; rw [sw.irrefl] at this; cases this

/-- `a < b` and `c` not below `b` ... then `a < c` -/
theorem StrictWeak.lt_of_lt_of_not_lt {α : Type} {lt : α → α → Bool} (sw : StrictWeak lt) (a b c : α)
    (h : lt a b = true) (h' : lt c b = false) : lt a c = true := by
  cases hac : lt a c with
  | true => rfl
  | false => have := sw.negTrans _ _ _ hac h'; rw [h] at this; cases this

theorem StrictWeak.comap {α β : Type} {lt : α → α → Bool} (sw : StrictWeak lt) (f : β → α) :
    StrictWeak (fun x y => lt (f x) (f y)) :=
  ⟨fun _ => sw.irrefl _, fun _ _ _ => sw.trans _ _ _, fun _ _ _ => sw.negTrans _ _ _⟩

/-- the heap order on (source id, record): by `less`, ties by source id -/
def pairLess (less : Less) (p q : Nat × Rec) : Bool :=
  less p.2 q.2 || (decide (p.1 < q.1) && !less q.2 p.2)

theorem heapLess_eq (less : Less) (a b : Live) :
    heapLess less a b = pairLess less (a.id, a.head) (b.id, b.head) := rfl

theorem pairLess_same_id (less : Less) (i : Nat) (a b : Rec) :
    pairLess less (i, a) (i, b) = less a b := by
  simp [pairLess]

theorem pairLess_false_imp (less : Less) (p q : Nat × Rec) (h : pairLess less p q = false) :
    less p.2 q.2 = false := by
  unfold pairLess at h
  cases hl : less p.2 q.2 <;> simp_all

theorem pairLess_strictWeak (less : Less) (sw : StrictWeak less) : StrictWeak (pairLess less) := by
  refine ⟨?_, ?_, ?_⟩
  · intro a
    simp [pairLess, sw.irrefl]
  · intro a b c hab hbc
    unfold pairLess at *
    cases h1 : less a.2 b.2 <;> cases h2 : less b.2 c.2 <;> simp [h1, h2] at hab hbc
    · -- both by id, a~b, b~c
      have hac : less a.2 c.2 = false := sw.negTrans _ _ _ h1 h2
      have hca : less c.2 a.2 = false := sw.negTrans _ _ _ hbc.2 hab.2
      simp [hac, hca]; omega
    · have : less a.2 c.2 = true := by
        cases hac : less a.2 c.2 with
        | true => rfl
        | false =>
          -- c ≮ ... : b < c, a ≮ c ⇒ b < a? we know b ≮ a
          have := sw.lt_of_lt_of_not_lt _ _ _ h2 hac
          rw [hab.2] at this; cases this
      simp [this]
    · have : less a.2 c.2 = true := by
        cases hac : less a.2 c.2 with
        | true => rfl
        | false =>
          -- a < b, c ≮ b … need contradiction: a<b, a≮c ⇒ c<b
          have hcb : less c.2 b.2 = true := by
            cases hcb : less c.2 b.2 with
            | true => rfl
            | false => have := sw.negTrans _ _ _ hac hcb; rw [h1] at this; cases this
          rw [hbc.2] at hcb; cases hcb
      simp [this]
    · simp [sw.trans _ _ _ h1 h2]
  · intro a b c hab hbc
    unfold pairLess at *
    cases h1 : less a.2 b.2 <;> cases h2 : less b.2 c.2 <;> simp [h1, h2] at hab hbc
    have hac : less a.2 c.2 = false := sw.negTrans _ _ _ h1 h2
    simp only [hac, Bool.false_or, Bool.and_eq_false_imp, decide_eq_true_eq, Bool.not_eq_eq_eq_not, Bool.not_false]
    intro hlt
    -- a.1 < c.1: either a.1 < b.1 (then b < a) or b.1 ≤ a.1 < c.1 (then c < b)
    by_cases hab1 : a.1 < b.1
    · have hba := hab hab1
      cases hca : less c.2 a.2 with
      | true => rfl
      | false => have := sw.negTrans _ _ _ h2 hca; rw [hba] at this; cases this
    · have hbc1 : b.1 < c.1 := by omega
      have hcb := hbc hbc1
      cases hca : less c.2 a.2 with
      | true => rfl
      | false => have := sw.negTrans _ _ _ hca h1; rw [hcb] at this; cases this

theorem heapLess_strictWeak (less : Less) (sw : StrictWeak less) : StrictWeak (heapLess less) :=
  (pairLess_strictWeak less sw).comap (fun x : Live => (x.id, x.head))

/-! ### the comparison functions of the sort orders are strict weak orders -/

theorem bytesLt_irrefl : ∀ l, bytesLt l l = false
  | [] => rfl
  | a :: as => by simp [bytesLt, bytesLt_irrefl as]

theorem bytesLt_trans : ∀ a b c, bytesLt a b = true → bytesLt b c = true → bytesLt a c = true
  | _, [], _, h, _ => by simp [bytesLt] at h
  | _, _ :: _, [], _, h => by simp [bytesLt] at h
  | [], _ :: _, _ :: _, _, _ => by simp [bytesLt]
  | x :: xs, y :: ys, z :: zs, h1, h2 => by
    simp only [bytesLt, Bool.or_eq_true, decide_eq_true_eq, Bool.and_eq_true, beq_iff_eq] at *
    rcases h1 with h1 | ⟨rfl, h1⟩ <;> rcases h2 with h2 | ⟨rfl, h2⟩
    · left; omega
    · left; exact h1
    · left; exact h2
    · right; exact ⟨rfl, bytesLt_trans xs ys zs h1 h2⟩

theorem bytesLt_negTrans : ∀ a b c, bytesLt a b = false → bytesLt b c = false → bytesLt a c = false
  | _, _, [], _, _ => by simp [bytesLt]
  | _, [], _ :: _, _, h => by simp [bytesLt] at h
  | [], _ :: _, _ :: _, h, _ => by simp [bytesLt] at h
  | x :: xs, y :: ys, z :: zs, h1, h2 => by
    simp only [bytesLt, Bool.or_eq_false_iff, decide_eq_false_iff_not, Bool.and_eq_false_imp, beq_iff_eq] at *
    refine ⟨by omega, ?_⟩
    intro hxz
    have hxy : x = y := by omega
    have hyz : y = z := by omega
    exact bytesLt_negTrans xs ys zs (h1.2 hxy) (h2.2 hyz)

theorem lessByName_strictWeak : StrictWeak lessByName :=
  ⟨fun a => bytesLt_irrefl a.name, fun a b c => bytesLt_trans a.name b.name c.name,
   fun a b c => bytesLt_negTrans a.name b.name c.name⟩

theorem lessByCoordinate_strictWeak : StrictWeak lessByCoordinate := by
  refine ⟨?_, ?_, ?_⟩
  · intro a
    unfold lessByCoordinate
    cases a.ref <;> simp
  · intro a b c
    unfold lessByCoordinate
    cases a.ref <;> cases b.ref <;> cases c.ref <;> simp <;> omega
  · intro a b c
    unfold lessByCoordinate
    cases a.ref <;> cases b.ref <;> cases c.ref <;> simp <;> omega

/-! ### coordinate order, stated independently: unplaced last, then reference index, then position -/

/-- (0, reference index, position) for a placed record, (1, 0, 0) for an unplaced one -/
def coordKey (r : Rec) : Nat × Nat × Int :=
  match r.ref with
  | some x => (0, x, r.pos)
  | none => (1, 0, 0)

/-- lexicographic order on keys -/
def keyLt (k l : Nat × Nat × Int) : Prop :=
  k.1 < l.1 ∨ (k.1 = l.1 ∧ (k.2.1 < l.2.1 ∨ (k.2.1 = l.2.1 ∧ k.2.2 < l.2.2)))

theorem lessByCoordinate_iff_key (a b : Rec) : lessByCoordinate a b = true ↔ keyLt (coordKey a) (coordKey b) := by
  unfold lessByCoordinate coordKey keyLt
  cases a.ref <;> cases b.ref <;> simp

end Hts.Model.Merger
