/-
Read-ahead protocol: every worker step preserves `Inv`.
-/
import Hts.Lemmas.ReaderLTSInv
namespace Hts.Model.ReadAhead

variable {cfg : Cfg} {s t : State} {ev : Option Ev}

theorem wk_frame {f : Bool} (h : wkStep cfg s f = some (ev, t)) :
    t.cons = s.cons ∧ t.cur = s.cur ∧ t.ctlClosed = s.ctlClosed ∧ t.wtClosed = s.wtClosed ∧
    t.script = s.script ∧ (s.control = none → t.control = none) := by
  unfold wkStep at h
  cases hw : s.worker with
  | load x =>
    simp only [hw] at h
    cases hl : doLoad cfg s x f with
    | none => simp [hl] at h
    | some r =>
      obtain ⟨b, hd, ev'⟩ := r
      simp only [hl, Option.some.injEq, Prod.mk.injEq] at h
      obtain ⟨-, rfl⟩ := h
      simp
  | _ => simp only [hw] at h; step_cases h <;> simp_all

theorem not_closing_flags (hi : Inv cfg s) (h : ¬ Closing s.cons) : s.ctlClosed = false ∧ s.wtClosed = false := by
  constructor
  · cases hc : s.ctlClosed with
    | false => rfl
    | true => exact absurd (hi.ctl.mp hc) h
  · cases hc : s.wtClosed with
    | false => rfl
    | true =>
      exfalso; apply h
      rcases hi.wt.mp hc with h1 | h1 <;> simp [Closing, h1]

theorem wk_count {f : Bool} (hi : Inv cfg s) (h : wkStep cfg s f = some (ev, t)) :
    t.waiting + t.working.length + t.worker.holds + t.cons.holds = cfg.rd := by
  have hc := hi.count
  have hfr := (wk_frame h).1
  rw [hfr]
  unfold wkStep at h
  cases hw : s.worker with
  | load x =>
    simp only [hw] at h hc
    cases hl : doLoad cfg s x f with
    | none => simp [hl] at h
    | some r =>
      obtain ⟨b, hd, ev'⟩ := r
      simp only [hl, Option.some.injEq, Prod.mk.injEq] at h
      obtain ⟨-, rfl⟩ := h
      simpa [Worker.holds] using hc
  | _ =>
    simp only [hw] at h hc
    step_cases h <;> simp only [Worker.holds, List.length_append, List.length_singleton] at hc ⊢ <;> omega

theorem wk_wf {f : Bool} (hi : Inv cfg s) (h : wkStep cfg s f = some (ev, t)) :
    (∀ b ∈ t.working, WFBlk cfg.chain b) ∧ (∀ b, t.worker = .push b → WFBlk cfg.chain b) := by
  have h1 := hi.wfWorking
  have h2 := hi.wfPush
  unfold wkStep at h
  cases hw : s.worker with
  | load x =>
    simp only [hw] at h
    cases hl : doLoad cfg s x f with
    | none => simp [hl] at h
    | some r =>
      obtain ⟨b, hd, ev'⟩ := r
      simp only [hl, Option.some.injEq, Prod.mk.injEq] at h
      obtain ⟨-, rfl⟩ := h
      refine ⟨h1, ?_⟩
      intro b' hb'
      simp only [Worker.push.injEq] at hb'
      subst hb'
      exact (doLoad_spec hl).2
  | push b =>
    simp only [hw] at h
    step_cases h
    refine ⟨?_, by simp⟩
    intro b' hb'
    simp only [List.mem_append, List.mem_singleton] at hb'
    rcases hb' with hb' | rfl
    · exact h1 b' hb'
    · exact h2 b' hw
  | _ => simp only [hw] at h; step_cases h <;> exact ⟨h1, by simp⟩

theorem wk_exited {f : Bool} (hi : Inv cfg s) (h : wkStep cfg s f = some (ev, t)) :
    ∀ hh, t.worker = .exited hh → t.ctlClosed = true := by
  have hfr := wk_frame h
  rw [hfr.2.2.1]
  unfold wkStep at h
  cases hw : s.worker with
  | load x =>
    simp only [hw] at h
    cases hl : doLoad cfg s x f with
    | none => simp [hl] at h
    | some r =>
      obtain ⟨b, hd, ev'⟩ := r
      simp only [hl, Option.some.injEq, Prod.mk.injEq] at h
      obtain ⟨-, rfl⟩ := h
      simp
  | idle nx =>
    simp only [hw] at h
    step_cases h
    · simp
    · intro _ _
      have hwt : s.wtClosed = true := by assumption
      rcases hi.wt.mp hwt with h1 | h1 <;> exact hi.ctl.mpr (by simp [Closing, h1])
  | «have» nx =>
    simp only [hw] at h
    step_cases h <;> simp_all
  | push b => simp only [hw] at h; step_cases h; simp
  | exited hh => simp [hw] at h

theorem wk_inv {f : Bool} (hi : Inv cfg s) (h : wkStep cfg s f = some (ev, t)) : Inv cfg t := by
  have hfr := wk_frame h
  obtain ⟨hcons, hcur, hctl, hwt, hscr, hcn⟩ := hfr
  have hwf := wk_wf hi h
  refine ⟨hi.rd2, hi.mono, wk_count hi h, by rw [hcur]; exact hi.wfCur, hwf.1, hwf.2,
    by rw [hctl, hcons]; exact hi.ctl, by rw [hwt, hcons]; exact hi.wt, wk_exited hi h, ?_, ?_, ?_,
    by rw [hcons, hcur]; exact hi.atDrain, ?_, by rw [hcons]; exact hi.nopanic⟩
  · -- the worker cannot move once Close has returned
    intro hc
    rw [hcons] at hc
    obtain ⟨hh, hw⟩ := hi.closed hc
    simp [wkStep, hw] at h
  · intro hc e he
    rw [hcons] at hc; rw [hcur] at he
    have hnc : ¬ Closing s.cons := by
      rcases hc with hc | ⟨ok, hc⟩ <;> simp [Closing, hc]
    have ⟨h1, h2⟩ := not_closing_flags hi hnc
    exact wk_expect h h1 h2 (hi.expIdle hc e he)
  · intro e i hc
    rw [hcons] at hc
    have hnc : ¬ Closing s.cons := by simp [Closing, hc]
    have ⟨h1, h2⟩ := not_closing_flags hi hnc
    exact wk_expect h h1 h2 (hi.expScan e i hc)
  · intro w hc
    rw [hcons] at hc
    have := hi.atSend w hc
    exact ⟨by rw [hcur]; exact this.1, hcn this.2⟩

end Hts.Model.ReadAhead
