/-
C07 helper lemmas, part 16: the binary encoding decodes to the same view.
-/
import Hts.Lemmas.HeaderText6
namespace Hts.Model.Header

theorem rd32_le32 (i : Int) (h : -2147483648 ≤ i ∧ i < 2147483648) (rest : Bytes) :
    rd32 (le32 i ++ rest) = some (i, rest) := by
  unfold le32 rd32
  simp only [List.cons_append, List.nil_append]
  congr 1
  have hn : ((i % 4294967296).toNat : Int) = i % 4294967296 := Int.toNat_of_nonneg (Int.emod_nonneg _ (by omega))
  generalize (i % 4294967296).toNat = n at hn
  congr 1
  split <;> omega

theorem rdN_append (a rest : Bytes) (h : a ++ rest ≠ []) : rdN a.length (a ++ rest) = some (a, rest) := by
  unfold rdN
  simp [h]

theorem rdN_name (name rest : Bytes) :
    rdN (name.length + 1) (name ++ 0 :: rest) = some (name ++ [0], rest) := by
  have := rdN_append (name ++ [0]) rest (by simp)
  simpa using this

theorem readRef_one (name : Bytes) (len : Int) (rest : Bytes) (n : Nat) (h1 : (name.length : Int) + 1 < 2147483648)
    (h2 : -2147483648 ≤ len ∧ len < 2147483648) :
    readRefRecords (n + 1) (le32 ((name.length : Int) + 1) ++ (name ++ 0 :: (le32 len ++ rest))) =
      (readRefRecords n rest).map (fun l => (name, len) :: l) := by
  rw [readRefRecords, rd32_le32 _ (by omega)]
  have hpos : ¬ ((name.length : Int) + 1 < 1) := by omega
  have hlen : ((name.length : Int) + 1).toNat = name.length + 1 := by omega
  simp only [hpos, if_false, hlen, rdN_name]
  have hlast : (name ++ [0]).getLast? = some 0 := by simp
  simp only [hlast, ne_eq, not_true_eq_false, if_false, rd32_le32 _ h2, List.dropLast_concat]
  cases readRefRecords n rest <;> rfl

theorem readRefRecords_enc : ∀ (rs : List (Int × Bytes × RefD)),
    (∀ r ∈ rs, (r.2.1.length : Int) + 1 < 2147483648 ∧ validLen r.2.2.len = true) →
    readRefRecords rs.length (rs.flatMap fun x => le32 (x.2.1.length + 1) ++ x.2.1 ++ [0] ++ le32 x.2.2.len) =
      some (rs.map fun x => (x.2.1, x.2.2.len)) := by
  intro rs
  induction rs with
  | nil => intro _; rfl
  | cons r rs ih =>
    intro h
    obtain ⟨h1, h2⟩ := h r List.mem_cons_self
    simp only [validLen, Bool.and_eq_true, decide_eq_true_eq] at h2
    simp only [List.length_cons, List.flatMap_cons, List.append_assoc, List.cons_append, List.nil_append]
    have := ih (fun r' h' => h r' (List.mem_cons_of_mem _ h'))
    simp only [List.append_assoc, List.cons_append, List.nil_append] at this
    rw [readRef_one _ _ _ _ h1 (by omega), this]
    rfl

theorem items_alloc {k : KW RefD} (hk : KInv k) (x : Obj RefD) (h : Nat) : items (k.alloc x).1 h = items k h := by
  have e : (k.alloc x).1.tabs[h]? = k.tabs[h]? := rfl
  unfold items
  rw [e]
  cases ht : k.tabs[h]? with
  | none => rfl
  | some t =>
    apply filterMap_congr'
    intro o ho
    obtain ⟨j, hj⟩ := List.mem_iff_getElem?.1 ho
    obtain ⟨y, hy, _⟩ := (hk.tab h t ht).own j o hj
    rw [alloc_old k x hy, hy]

theorem option_ext_some {β : Type} {a b : Option β} (h : ∀ e, a = some e ↔ b = some e) : a = b := by
  cases a with
  | none => cases b with
    | none => rfl
    | some y => exact absurd ((h y).2 rfl) (by simp)
  | some x => exact ((h x).1 rfl).symm

/-- replacing a listed reference by one with the same name and data does not change what the header exposes -/
theorem items_replace_same {k : KW RefD} (hk : KInv k) {h eo o i : Nat} {r er : Obj RefD} {t : Tab}
    (ht : k.tabs[h]? = some t) (hi : t.items[i]? = some eo) (hr : k.heap[o]? = some r)
    (her : k.heap[eo]? = some er) (hfree : r.owner = none) (hname : r.name = er.name) :
    items (k.replace h (i : Int) eo o er.dat) h = items k h := by
  have T := hk.tab h t ht
  have hk' := kinv_replace hk er.dat ht hi hr her hfree hname
  have hne : o ≠ eo := fun e => hk.free_unlisted hr hfree ht (e ▸ hi)
  have ht' : (k.replace h (i : Int) eo o er.dat).tabs[h]? = some { t with items := t.items.set i o } := by
    rw [replace_tabs _ hr her ht, if_pos rfl]; simp
  have T' := hk'.tab h _ ht'
  have hid := (T.listed hi her).2
  apply List.ext_getElem?
  intro j
  apply option_ext_some
  intro e
  rw [items_get ht' T' j e, items_get ht T j e]
  simp only [replace_heap _ hr her ht hne, set_get _ _ _ _ _ hi]
  by_cases hij : i = j
  · subst hij
    simp only [if_true]
    constructor
    · rintro ⟨o', x', ho', hx', rfl⟩
      cases ho'
      simp only [hne.symm, if_false, if_true] at hx'; cases hx'
      exact ⟨eo, er, hi, her, by simp [hname, hid]⟩
    · rintro ⟨o', x', ho', hx', rfl⟩
      rw [hi] at ho'; cases ho'; rw [her] at hx'; cases hx'
      exact ⟨o, { r with owner := some h, id := (i : Int), dat := er.dat }, rfl, by simp only [hne.symm, if_false, if_true], by simp [hname, hid]⟩
  · simp only [hij, if_false]
    constructor
    · rintro ⟨o', x', ho', hx', rfl⟩
      have h1 : eo ≠ o' := fun e' => hij (T.inj hi (e' ▸ ho'))
      have h2 : o ≠ o' := fun e' => hk.free_unlisted hr hfree ht (e' ▸ ho')
      simp only [h1, h2, if_false] at hx'
      exact ⟨o', x', ho', hx', rfl⟩
    · rintro ⟨o', x', ho', hx', rfl⟩
      have h1 : eo ≠ o' := fun e' => hij (T.inj hi (e' ▸ ho'))
      have h2 : o ≠ o' := fun e' => hk.free_unlisted hr hfree ht (e' ▸ ho')
      exact ⟨o', x', ho', by simp only [h1, h2, if_false]; exact hx', rfl⟩

theorem inherit_bare (d : RefD) : inherit { len := d.len } d = d := by
  cases d; simp [inherit]

/-- one reference of the binary dictionary that the text already defined: the header is unchanged -/
theorem addBin_step {k : KW RefD} (hk : KInv k) {hn : Nat} {t : Tab} (ht : k.tabs[hn]? = some t) {i : Nat}
    {name : Bytes} {d : RefD} (hi : (items k hn)[i]? = some ((i : Int), name, d)) :
    ∃ k2, addReference (k.alloc { owner := none, id := (i : Int), name := name, dat := { len := d.len } }).1 hn
        (k.alloc { owner := none, id := (i : Int), name := name, dat := { len := d.len } }).2 = (k2, .ok) ∧
      items k2 hn = items k hn := by
  have T := hk.tab hn t ht
  obtain ⟨eo, er, hie, her, e⟩ := (items_get ht T i _).1 hi
  simp only [Prod.mk.injEq] at e
  obtain ⟨e1, e2, e3⟩ := e
  subst e2 e3
  have hk1 := kinv_alloc hk { owner := none, id := (i : Int), name := er.name, dat := { len := er.dat.len } } rfl
  have ho := alloc_heap k { owner := none, id := (i : Int), name := er.name, dat := { len := er.dat.len } }
  have her1 := alloc_old k { owner := none, id := (i : Int), name := er.name, dat := { len := er.dat.len } } her
  have hkn := T.known i eo er hie her
  have hne : eo ≠ k.heap.length := by have := get_lt her; omega
  unfold addReference
  simp only [ho]
  rw [show (k.alloc { owner := none, id := (i : Int), name := er.name, dat := { len := er.dat.len } }).1.tabs[hn]? = some t from ht]
  simp only [hkn, idx_nat, hie, her1]
  have hneq : (eo == (k.alloc { owner := none, id := (i : Int), name := er.name, dat := ({ len := er.dat.len } : RefD) }).2) = false := by
    simpa [KW.alloc] using hne
  rw [hneq]
  by_cases hoth : er.dat.other = []
  · have heq : equalRefs false er { owner := none, id := (i : Int), name := er.name, dat := { len := er.dat.len } } = true := by
      simp [equalRefs, ← e1, uriPtrDiffer, hoth, sortTags]
    simp only [heq, if_true]
    exact ⟨_, rfl, items_alloc hk _ hn⟩
  · have heq : equalRefs false er { owner := none, id := (i : Int), name := er.name, dat := { len := er.dat.len } } = false := by
      have : er.dat.other.length ≠ 0 := by simpa using hoth
      simp [equalRefs, ← e1, this]
    have hbare : equalRefs false { owner := none, id := (i : Int), name := er.name, dat := { len := er.dat.len } }
        (bareRef (-1) er.name er.dat.len) = true := by
      simp [equalRefs, bareRef, uriPtrDiffer, sortTags]
    simp only [heq, hbare, Bool.false_eq_true, if_false, Bool.not_true, Option.isSome_none]
    refine ⟨_, rfl, ?_⟩
    have hsame : inherit ({ len := er.dat.len } : RefD) er.dat = er.dat := inherit_bare _
    simp only [hsame]
    rw [items_replace_same hk1 ht hie ho her1 rfl rfl, items_alloc hk _ hn]

theorem addBinRefs_same (hn : Nat) : ∀ (rs : List (Bytes × Int)) (k : KW RefD) (i : Nat), KInv k →
    hn < k.tabs.length →
    (∀ (j : Nat) r, rs[j]? = some r → ∃ d, (items k hn)[i + j]? = some (((i + j : Nat) : Int), r.1, d) ∧ d.len = r.2) →
    ∃ k', addBinRefs k hn i rs = (k', .ok) ∧ KInv k' ∧ k'.tabs.length = k.tabs.length ∧ items k' hn = items k hn := by
  intro rs
  induction rs with
  | nil => intro k i hk _ _; exact ⟨k, rfl, hk, rfl, rfl⟩
  | cons r rs ih =>
    intro k i hk hlt hitems
    obtain ⟨name, len⟩ := r
    obtain ⟨t, ht⟩ := tab_exists hlt
    obtain ⟨d, hd, hdl⟩ := hitems 0 (name, len) (by simp)
    simp only [Nat.add_zero] at hd hdl
    subst hdl
    obtain ⟨k2, hk2, hit⟩ := addBin_step hk ht hd
    have hinv2 : KInv k2 := by
      have := kinv_addReference (kinv_alloc hk { owner := none, id := (i : Int), name := name, dat := { len := d.len } } rfl) hn
        (k.alloc { owner := none, id := (i : Int), name := name, dat := { len := d.len } }).2
      rw [hk2] at this; exact this
    have hlen2 : k2.tabs.length = k.tabs.length := by
      have := addReference_tabs_len (k.alloc { owner := none, id := (i : Int), name := name, dat := { len := d.len } }).1 hn
        (k.alloc { owner := none, id := (i : Int), name := name, dat := { len := d.len } }).2
      rw [hk2] at this; exact this
    rw [addBinRefs]
    dsimp only
    rw [hk2]
    dsimp only
    obtain ⟨k', h1, h2, h3, h4⟩ := ih k2 (i + 1) hinv2 (by rw [hlen2]; exact hlt) (by
      intro j r hj
      obtain ⟨d', hd', hl'⟩ := hitems (j + 1) r (by simpa using hj)
      refine ⟨d', ?_, hl'⟩
      rw [hit]
      have e : i + (j + 1) = i + 1 + j := by omega
      rw [e] at hd'; exact hd')
    exact ⟨k', h1, h2, by rw [h3, hlen2], by rw [h4, hit]⟩

end Hts.Model.Header

namespace Hts.Model.Header

theorem le32_ne_nil (i : Int) (rest : Bytes) : le32 i ++ rest ≠ [] := by simp [le32]

/-- encoding a well-formed view in binary and decoding it into a fresh header gives a header with that view -/
theorem binary_roundtrip_view (E : Ext) (w : World) (hw : WInv w) (v : View) (wf : WFView E v)
    (hs1 : ((marshalView v).length : Int) < 2147483648) (hs2 : (v.refs.length : Int) < 2147483648)
    (hs3 : ∀ r ∈ v.refs, (r.2.1.length : Int) + 1 < 2147483648) :
    ∃ w', decodeBinary E (pushHeader w {}) w.hdrs.length (encodeView v) = (w', .ok) ∧ WInv w' ∧
      view w' w.hdrs.length = v := by
  obtain ⟨w1, hu, hw1, hv1, hl1⟩ := text_roundtrip_view E w hw v wf
  unfold encodeView decodeBinary
  simp only [List.cons_append, List.nil_append, List.append_assoc]
  rw [rd32_le32 _ (by omega)]
  have hneg : ¬ (((marshalView v).length : Int) < 0) := by omega
  simp only [hneg, if_false, Int.toNat_natCast]
  rw [rdN_append _ _ (by intro e; simp only [List.append_eq_nil_iff] at e; exact absurd e.2.1 (by simp [le32]))]
  simp only [hu]
  rw [rd32_le32 _ (by omega)]
  have hneg2 : ¬ ((v.refs.length : Int) < 0) := by omega
  simp only [hneg2, if_false, Int.toNat_natCast]
  have hrr := readRefRecords_enc v.refs (fun r hr => ⟨hs3 r hr, (wf.refs r hr).1.len⟩)
  simp only [List.append_assoc, List.cons_append, List.nil_append] at hrr
  rw [hrr]
  simp only
  have hlt : w.hdrs.length < w1.refs.tabs.length := by rw [hw1.lr, hl1]; omega
  obtain ⟨k', h1, h2, h3, h4⟩ := addBinRefs_same w.hdrs.length (v.refs.map fun x => (x.2.1, x.2.2.len)) w1.refs 0
    hw1.refs hlt (by
      intro j r hj
      rw [List.getElem?_map] at hj
      cases hvj : v.refs[j]? with
      | none => simp [hvj] at hj
      | some x =>
        simp [hvj] at hj; subst hj
        have hid := wf.idr j x hvj
        have hv1r : v.refs = (items w1.refs w.hdrs.length).map fun x => (x.1, x.2.1, normRef x.2.2) := by
          rw [← hv1]; rfl
        rw [hv1r, List.getElem?_map] at hvj
        cases hij : (items w1.refs w.hdrs.length)[j]? with
        | none => simp [hij] at hvj
        | some y =>
          simp [hij] at hvj; subst hvj
          refine ⟨y.2.2, ?_, by simp [normRef]⟩
          simp only [Nat.zero_add]
          simp only at hid
          rw [← hid]
          exact hij)
  rw [h1]
  refine ⟨_, rfl, ⟨h2, hw1.rgs, hw1.pgs, by simp only; rw [h3]; exact hw1.lr, hw1.lg, hw1.lp⟩, ?_⟩
  rw [← hv1]
  unfold view
  simp only [h4]

end Hts.Model.Header
