/-
Lemmas for the ITF-8 / LTF-8 models.  Everything is kernel-checked: the bit-level inverse identities
are in Hts.Lemmas.Itf8Kernel (no bv_decide).
GENERATED skeleton (by hand-run script), then committed: this file is source, not output.
-/
import Hts.Model.Itf8
import Hts.Model.Ltf8
import Hts.Lemmas.Itf8Kernel
set_option maxHeartbeats 1000000
open Hts.GoPrim

namespace Hts.Model.Itf8
theorem width_1 (b : Byte) (h : b.ult 0x80#8 = true) : width b = 1 := by simp [width, h]
theorem width_2 (b : Byte) (h0 : b.ult 0x80#8 = false) (h : b.ult 0xc0#8 = true) : width b = 2 := by simp [width, h0, h]
theorem width_3 (b : Byte) (h0 : b.ult 0x80#8 = false) (h1 : b.ult 0xc0#8 = false) (h : b.ult 0xe0#8 = true) : width b = 3 := by simp [width, h0, h1, h]
theorem width_4 (b : Byte) (h0 : b.ult 0x80#8 = false) (h1 : b.ult 0xc0#8 = false) (h2 : b.ult 0xe0#8 = false) (h : b.ult 0xf0#8 = true) : width b = 4 := by simp [width, h0, h1, h2, h]
theorem width_5 (b : Byte) (h0 : b.ult 0x80#8 = false) (h1 : b.ult 0xc0#8 = false) (h2 : b.ult 0xe0#8 = false) (h3 : b.ult 0xf0#8 = false) : width b = 5 := by simp [width, h0, h1, h2, h3]
theorem width_range (x : Byte) : 1 ≤ width x ∧ width x ≤ 5 := by
  unfold width; (repeat' split) <;> omega
theorem decode_encode (v : BitVec 32) : decode (encode v) = (v, len v, true) :=
  Hts.Lemmas.Kernel.Itf8K.decode_encode v

theorem encode_length (v : BitVec 32) : ((encode v).length : Int) = len v := by
  unfold encode len; (repeat' split) <;> rfl

theorem decode_nil : decode [] = (0#32, 0, false) := rfl

theorem decode_fail_iff (b0 : Byte) (t : List Byte) :
    (decode (b0 :: t)).2.1 = width b0 ∧
      ((decode (b0 :: t)).2.2 = false ↔ ((t.length + 1 : Nat) : Int) < width b0) := by
  have hr := width_range b0
  have hcases : width b0 = 1 ∨ width b0 = 2 ∨ width b0 = 3 ∨ width b0 = 4 ∨ width b0 = 5 := by omega
  rcases hcases with hw | hw | hw | hw | hw <;>
    simp [decode, hw] <;> split <;> simp <;> omega

theorem decode_take (b0 : Byte) (t : List Byte) (h : width b0 ≤ ((t.length + 1 : Nat) : Int)) :
    decode ((b0 :: t).take (width b0).toNat) = decode (b0 :: t) := by
  have hr := width_range b0
  have hcases : width b0 = 1 ∨ width b0 = 2 ∨ width b0 = 3 ∨ width b0 = 4 ∨ width b0 = 5 := by omega
  rcases t with _ | ⟨b1, _ | ⟨b2, _ | ⟨b3, _ | ⟨b4, rest⟩⟩⟩⟩ <;>
    rcases hcases with hw | hw | hw | hw | hw <;>
    simp [decode, hw] at h ⊢ <;> omega
end Hts.Model.Itf8

namespace Hts.Model.Ltf8
theorem width_1 (b : Byte) (h : b.ult 0x80#8 = true) : width b = 1 := by simp [width, h]
theorem width_2 (b : Byte) (h0 : b.ult 0x80#8 = false) (h : b.ult 0xc0#8 = true) : width b = 2 := by simp [width, h0, h]
theorem width_3 (b : Byte) (h0 : b.ult 0x80#8 = false) (h1 : b.ult 0xc0#8 = false) (h : b.ult 0xe0#8 = true) : width b = 3 := by simp [width, h0, h1, h]
theorem width_4 (b : Byte) (h0 : b.ult 0x80#8 = false) (h1 : b.ult 0xc0#8 = false) (h2 : b.ult 0xe0#8 = false) (h : b.ult 0xf0#8 = true) : width b = 4 := by simp [width, h0, h1, h2, h]
theorem width_5 (b : Byte) (h0 : b.ult 0x80#8 = false) (h1 : b.ult 0xc0#8 = false) (h2 : b.ult 0xe0#8 = false) (h3 : b.ult 0xf0#8 = false) (h : b.ult 0xf8#8 = true) : width b = 5 := by simp [width, h0, h1, h2, h3, h]
theorem width_6 (b : Byte) (h0 : b.ult 0x80#8 = false) (h1 : b.ult 0xc0#8 = false) (h2 : b.ult 0xe0#8 = false) (h3 : b.ult 0xf0#8 = false) (h4 : b.ult 0xf8#8 = false) (h : b.ult 0xfc#8 = true) : width b = 6 := by simp [width, h0, h1, h2, h3, h4, h]
theorem width_7 (b : Byte) (h0 : b.ult 0x80#8 = false) (h1 : b.ult 0xc0#8 = false) (h2 : b.ult 0xe0#8 = false) (h3 : b.ult 0xf0#8 = false) (h4 : b.ult 0xf8#8 = false) (h5 : b.ult 0xfc#8 = false) (h : b.ult 0xfe#8 = true) : width b = 7 := by simp [width, h0, h1, h2, h3, h4, h5, h]
theorem width_8 (b : Byte) (h0 : b.ult 0x80#8 = false) (h1 : b.ult 0xc0#8 = false) (h2 : b.ult 0xe0#8 = false) (h3 : b.ult 0xf0#8 = false) (h4 : b.ult 0xf8#8 = false) (h5 : b.ult 0xfc#8 = false) (h6 : b.ult 0xfe#8 = false) (h : b.ult 0xff#8 = true) : width b = 8 := by simp [width, h0, h1, h2, h3, h4, h5, h6, h]
theorem width_9 (b : Byte) (h0 : b.ult 0x80#8 = false) (h1 : b.ult 0xc0#8 = false) (h2 : b.ult 0xe0#8 = false) (h3 : b.ult 0xf0#8 = false) (h4 : b.ult 0xf8#8 = false) (h5 : b.ult 0xfc#8 = false) (h6 : b.ult 0xfe#8 = false) (h7 : b.ult 0xff#8 = false) : width b = 9 := by simp [width, h0, h1, h2, h3, h4, h5, h6, h7]
theorem width_range (x : Byte) : 1 ≤ width x ∧ width x ≤ 9 := by
  unfold width; (repeat' split) <;> omega
theorem decode_encode (v : BitVec 64) : decode (encode v) = (v, len v, true) :=
  Hts.Lemmas.Kernel.Ltf8K.decode_encode v

theorem encode_length (v : BitVec 64) : ((encode v).length : Int) = len v := by
  unfold encode len; (repeat' split) <;> rfl

theorem decode_nil : decode [] = (0#64, 0, false) := rfl

theorem decode_fail_iff (b0 : Byte) (t : List Byte) :
    (decode (b0 :: t)).2.1 = width b0 ∧
      ((decode (b0 :: t)).2.2 = false ↔ ((t.length + 1 : Nat) : Int) < width b0) := by
  have hr := width_range b0
  have hcases : width b0 = 1 ∨ width b0 = 2 ∨ width b0 = 3 ∨ width b0 = 4 ∨ width b0 = 5 ∨ width b0 = 6 ∨ width b0 = 7 ∨ width b0 = 8 ∨ width b0 = 9 := by omega
  rcases hcases with hw | hw | hw | hw | hw | hw | hw | hw | hw <;>
    simp [decode, hw] <;> split <;> simp <;> omega

theorem decode_take (b0 : Byte) (t : List Byte) (h : width b0 ≤ ((t.length + 1 : Nat) : Int)) :
    decode ((b0 :: t).take (width b0).toNat) = decode (b0 :: t) := by
  have hr := width_range b0
  have hcases : width b0 = 1 ∨ width b0 = 2 ∨ width b0 = 3 ∨ width b0 = 4 ∨ width b0 = 5 ∨ width b0 = 6 ∨ width b0 = 7 ∨ width b0 = 8 ∨ width b0 = 9 := by omega
  rcases t with _ | ⟨b1, _ | ⟨b2, _ | ⟨b3, _ | ⟨b4, _ | ⟨b5, _ | ⟨b6, _ | ⟨b7, _ | ⟨b8, rest⟩⟩⟩⟩⟩⟩⟩⟩ <;>
    rcases hcases with hw | hw | hw | hw | hw | hw | hw | hw | hw <;>
    simp [decode, hw] at h ⊢ <;> omega
end Hts.Model.Ltf8

