/-
Read-ahead protocol: the invariant `Inv`, the consumer expectation `Expect`, worker steps preserve it.
-/
import Hts.Lemmas.ReaderLTS
namespace Hts.Model.ReadAhead

theorem doLoad_spec {cfg : Cfg} {s : State} {tgt : Option Nat} {fail : Bool} {b : Blk} {h : Option Nat} {ev : Ev}
    (hl : doLoad cfg s tgt fail = some (b, h, ev)) : b.base = tgt ∧ WFBlk cfg.chain b := by
  unfold doLoad at hl
  cases tgt with
  | none =>
    by_cases hf : fail = true
    · simp [hf] at hl
    · simp only [hf, if_false, Bool.false_eq_true, Option.some.injEq, Prod.mk.injEq] at hl
      obtain ⟨rfl, -, -⟩ := hl; simp [WFBlk]
  | some t =>
    by_cases hf : fail = true
    · by_cases hq : cfg.faults = true
      · simp only [hf, hq, if_true, Option.some.injEq, Prod.mk.injEq] at hl
        obtain ⟨rfl, -, -⟩ := hl; simp [WFBlk]
      · simp [hf, hq] at hl
    · simp only [hf, if_false, Bool.false_eq_true] at hl
      cases hc : cfg.chain t with
      | none =>
        simp only [hc, Option.some.injEq, Prod.mk.injEq] at hl
        obtain ⟨rfl, -, -⟩ := hl; simp [WFBlk]
      | some nx =>
        simp only [hc, Option.some.injEq, Prod.mk.injEq] at hl
        obtain ⟨rfl, -, -⟩ := hl; simp [WFBlk, hc]

theorem doLoad_enabled (cfg : Cfg) (s : State) (tgt : Option Nat) : ∃ r, doLoad cfg s tgt false = some r := by
  unfold doLoad
  cases tgt with
  | none => exact ⟨_, rfl⟩
  | some t => simp only [Bool.false_eq_true, if_false]; split <;> exact ⟨_, rfl⟩

/-- The consumer expects base `e` and has received `i` blocks in the current `nextBlock`: the delivery stream
is `old ++ new`, `new` (with what the worker does next) is the file from `T` on, `e` lies `d` members after
`T`, and `old`, `d`, `i` together leave room in the scan loop. -/
def Expect (cfg : Cfg) (s : State) (e i : Nat) : Prop :=
  ∃ (old new : List Slot) (d : Nat) (T : Option Nat),
    stream s = old ++ new ∧
    (match s.control with
     | some v => new = [] ∧ T = v
     | none => ChainFrom cfg.chain T new s.worker.natural) ∧
    adv cfg.chain d T = some e ∧
    old.length + d + i + 1 ≤ cfg.rd

def Closing (c : Cons) : Prop := c = .closeW ∨ c = .join ∨ c = .closed

structure Inv (cfg : Cfg) (s : State) : Prop where
  rd2 : 2 ≤ cfg.rd
  mono : Mono cfg.chain
  count : s.waiting + s.working.length + s.worker.holds + s.cons.holds = cfg.rd
  wfCur : WFBlk cfg.chain s.cur
  wfWorking : ∀ b ∈ s.working, WFBlk cfg.chain b
  wfPush : ∀ b, s.worker = .push b → WFBlk cfg.chain b
  ctl : s.ctlClosed = true ↔ Closing s.cons
  wt : s.wtClosed = true ↔ (s.cons = .join ∨ s.cons = .closed)
  exited : ∀ h, s.worker = .exited h → s.ctlClosed = true
  closed : s.cons = .closed → ∃ h, s.worker = .exited h
  expIdle : (s.cons = .idle ∨ ∃ ok, s.cons = .ret ok) → ∀ e, s.cur.next = some e → Expect cfg s e 0
  expScan : ∀ e i, s.cons = .scan e i → Expect cfg s e i
  atDrain : ∀ w, s.cons = .drain w → s.cur.base = some w
  atSend : ∀ w, s.cons = .send w → s.cur.base = some w ∧ s.control = none
  nopanic : s.cons ≠ .panicked

theorem stream_no_tgt {s : State} (h : s.worker.committed = []) : ∀ y, Slot.tgt y ∉ stream s := by
  intro y hy
  simp [stream, h] at hy

theorem append_eq_snoc {α} {l1 l2 w : List α} {a : α} (h : l1 ++ l2 = w ++ [a]) :
    (l2 = [] ∧ l1 = w ++ [a]) ∨ ∃ l2', l2 = l2' ++ [a] ∧ l1 ++ l2' = w := by
  rcases List.eq_nil_or_concat l2 with rfl | ⟨l2', b, rfl⟩
  · left; simpa using h
  · right
    simp only [List.concat_eq_append] at h ⊢
    rw [← List.append_assoc] at h
    have := List.append_inj' h rfl
    simp only [List.cons.injEq, and_true] at this
    exact ⟨l2', by rw [this.2], this.1⟩

/-- Worker steps keep the consumer's expectation. -/
theorem wk_expect {cfg : Cfg} {s t : State} {f : Bool} {ev : Option Ev} {e i : Nat}
    (h : wkStep cfg s f = some (ev, t)) (hnc : s.ctlClosed = false) (hwt : s.wtClosed = false)
    (hx : Expect cfg s e i) : Expect cfg t e i := by
  obtain ⟨old, new, d, T, hst, hctl, hadv, hbound⟩ := hx
  unfold wkStep at h
  cases hw : s.worker with
  | idle nx =>
    simp only [hw] at h
    step_cases h
    · exact ⟨old, new, d, T, by simpa [stream, hw, Worker.committed] using hst,
        by simpa [hw, Worker.natural] using hctl, hadv, hbound⟩
    · simp [hwt] at *
  | «have» nx =>
    simp only [hw] at h
    cases hc : s.control with
    | some v =>
      simp only [hc] at h hctl
      obtain ⟨rfl, rfl⟩ := hctl
      by_cases hf : f = true
      · simp [hf] at h
      · simp only [hf, Bool.false_eq_true, if_false] at h
        by_cases hnn : nx = none ∧ T = none
        · rw [hnn.2, adv_none] at hadv; cases hadv
        · simp only [hnn, if_false, Option.some.injEq, Prod.mk.injEq] at h
          obtain ⟨-, rfl⟩ := h
          refine ⟨old, [.tgt T], d, T, ?_, by simp [ChainFrom], hadv, hbound⟩
          simpa [stream, hw, Worker.committed] using hst
    | none =>
      simp only [hc] at h hctl
      by_cases hf : f = true
      · simp [hf] at h
      · simp only [hf, Bool.false_eq_true, if_false, hnc] at h
        cases nx with
        | none => simp at h
        | some b =>
          simp only [Option.some.injEq, Prod.mk.injEq] at h
          obtain ⟨-, rfl⟩ := h
          have hnt := stream_no_tgt (s := s) (by simp [hw, Worker.committed])
          refine ⟨old, new ++ [.tgt (some b)], d, T, ?_, ?_, hadv, hbound⟩
          · simp only [stream, hw, Worker.committed, List.append_nil] at hst ⊢
            rw [hst, List.append_assoc]
          · simp only [hc]
            apply chainFrom_append_tgt (by simpa [hw, Worker.natural] using hctl)
            intro y hy; exact hnt y (by rw [hst]; simp [hy])
  | load x =>
    simp only [hw] at h
    cases hl : doLoad cfg s x f with
    | none => simp [hl] at h
    | some r =>
      obtain ⟨b, hd, ev'⟩ := r
      simp only [hl, Option.some.injEq, Prod.mk.injEq] at h
      obtain ⟨-, rfl⟩ := h
      have ⟨hb, hwf⟩ := doLoad_spec hl
      have hst' : old ++ new = s.working.map .blk ++ [.tgt x] := by
        simpa [stream, hw, Worker.committed] using hst.symm
      rcases append_eq_snoc hst' with ⟨rfl, hold⟩ | ⟨new', rfl, hold⟩
      · cases hc : s.control with
        | some v =>
          simp only [hc] at hctl
          refine ⟨s.working.map .blk ++ [.blk b], [], d, T, by simp [stream, Worker.committed],
            by simp [hc, hctl.2], hadv, ?_⟩
          rw [hold] at hbound; simpa using hbound
        | none =>
          simp only [hc, ChainFrom, hw, Worker.natural] at hctl
          rw [← hctl, adv_none] at hadv; cases hadv
      · cases hc : s.control with
        | some v => simp [hc] at hctl
        | none =>
          simp only [hc] at hctl
          refine ⟨old, new' ++ [.blk b], d, T, ?_, ?_, hadv, by simpa using hbound⟩
          · simp only [stream, Worker.committed]; rw [← hold, List.append_assoc]
          · simp only [hc, Worker.natural]; exact chainFrom_load hctl hb hwf
  | push b =>
    simp only [hw] at h
    step_cases h
    refine ⟨old, new, d, T, ?_, by simpa [hw, Worker.natural] using hctl, hadv, hbound⟩
    simpa [stream, hw, Worker.committed] using hst
  | exited hh => simp [hw] at h

end Hts.Model.ReadAhead
