/-
Field codecs of the BAM record and their round-trip lemmas: u8 / u16 / u32 / i32 little endian, the reads of the
`buffer` type on data that starts with an encoded field, the CIGAR word list.
-/
import Hts.Model.BamRecord
namespace Hts.Model.Bam

theorem byteOf_toNat (n : Nat) : (byteOf n).toNat = n % 256 := by
  simp [byteOf]

theorem byteOf_of_toNat (b : Byte) : byteOf b.toNat = b := by
  simp [byteOf]

/-- u16: decode ∘ encode -/
theorem getU16_put (n : Nat) : getU16 (byteOf n) (byteOf (n / 256)) = n % 65536 := by
  simp only [getU16, byteOf_toNat]; omega

/-- u32: decode ∘ encode -/
theorem getU32_put (n : Nat) :
    getU32 (byteOf n) (byteOf (n / 256)) (byteOf (n / 65536)) (byteOf (n / 16777216)) = n % 4294967296 := by
  simp only [getU32, byteOf_toNat]; omega

theorem getU16_lt (a b : Byte) : getU16 a b < 65536 := by
  have := a.isLt; have := b.isLt
  simp only [getU16]; omega

theorem getU32_lt (a b c d : Byte) : getU32 a b c d < 4294967296 := by
  have := a.isLt; have := b.isLt; have := c.isLt; have := d.isLt
  simp only [getU32]; omega

/-- u32: encode ∘ decode (the four bytes of a word are recovered from its value) -/
theorem putU32_get (a b c d : Byte) : putU32 (getU32 a b c d) = [a, b, c, d] := by
  have := a.isLt; have := b.isLt; have := c.isLt; have := d.isLt
  simp only [putU32, getU32, byteOf]
  congr 1
  · apply BitVec.eq_of_toNat_eq; simp; omega
  congr 1
  · apply BitVec.eq_of_toNat_eq; simp; omega
  congr 1
  · apply BitVec.eq_of_toNat_eq; simp; omega
  congr 1
  · apply BitVec.eq_of_toNat_eq; simp; omega

/-- i32: decode ∘ encode on the int32 range -/
theorem toI32_wrap (x : Int) (h1 : -2147483648 ≤ x) (h2 : x < 2147483648) :
    toI32 ((x % 4294967296).toNat % 4294967296) = x := by
  unfold toI32
  split <;> omega

theorem putU16_length (n : Nat) : (putU16 n).length = 2 := rfl
theorem putU32_length (n : Nat) : (putU32 n).length = 4 := rfl
theorem putI32_length (x : Int) : (putI32 x).length = 4 := rfl

/-! ### the `buffer` reads on data that begins with an encoded field -/

theorem readI32_put (x : Int) (rest : List Byte) (h1 : -2147483648 ≤ x) (h2 : x < 2147483648) :
    Buf.readI32 ⟨putI32 x ++ rest, false⟩ = (x, ⟨rest, false⟩) := by
  simp only [putI32, putU32, Buf.readI32, List.cons_append, List.nil_append, getU32_put, toI32_wrap x h1 h2]

theorem readU16_put (n : Nat) (rest : List Byte) (h : n < 65536) :
    Buf.readU16 ⟨putU16 n ++ rest, false⟩ = (n, ⟨rest, false⟩) := by
  simp only [putU16, Buf.readU16, List.cons_append, List.nil_append, getU16_put, Nat.mod_eq_of_lt h]

theorem readU8_cons (x : Byte) (rest : List Byte) : Buf.readU8 ⟨x :: rest, false⟩ = (x, ⟨rest, false⟩) := rfl

theorem discard_append (xs rest : List Byte) (n : Nat) (h : xs.length = n) :
    Buf.discard ⟨xs ++ rest, false⟩ n = ⟨rest, false⟩ := by
  subst h
  simp [Buf.discard]

theorem unsafeBytes_append (xs rest : List Byte) (n : Nat) (h : xs.length = n) :
    Buf.unsafeBytes ⟨xs ++ rest, false⟩ n = (xs, ⟨rest, false⟩) := by
  subst h
  simp [Buf.unsafeBytes]

/-! ### CIGAR -/

theorem cigar_word (c : BitVec 32) :
    BitVec.ofNat 32 (getU32 (byteOf c.toNat) (byteOf (c.toNat / 256)) (byteOf (c.toNat / 65536))
      (byteOf (c.toNat / 16777216))) = c := by
  rw [getU32_put]
  apply BitVec.eq_of_toNat_eq
  have := c.isLt
  simp
  omega

def cigarBytes (cs : List (BitVec 32)) : List Byte := cs.flatMap (fun c => putU32 c.toNat)

theorem cigarBytes_length (cs : List (BitVec 32)) : (cigarBytes cs).length = cs.length * 4 := by
  induction cs with
  | nil => rfl
  | cons c cs ih => simp only [cigarBytes, List.flatMap_cons, List.length_append, putU32_length, List.length_cons] at *; omega

/-- CIGAR list: decode ∘ encode -/
theorem readCigarOps_cigarBytes (cs : List (BitVec 32)) : readCigarOps (cigarBytes cs) = cs := by
  induction cs with
  | nil => rfl
  | cons c cs ih =>
    have h : cigarBytes (c :: cs) = byteOf c.toNat :: byteOf (c.toNat / 256) :: byteOf (c.toNat / 65536) ::
        byteOf (c.toNat / 16777216) :: cigarBytes cs := by
      simp [cigarBytes, putU32]
    rw [h, readCigarOps, cigar_word, ih]

/-- the length of an operation always fits the 28 bits the format has for it -/
theorem cigarLen_lt (c : BitVec 32) : cigarLen c < 268435456 := by
  have := c.isLt
  simp only [cigarLen]; omega

theorem cigarType_lt (c : BitVec 32) : cigarType c < 16 := by
  simp only [cigarType]; omega

end Hts.Model.Bam
