/-
The repaired reader model (Model/BgzfReader64.lean) coincides with the model of C02 on files whose payloads are
shorter than 65536 bytes.
-/
import Hts.Model.BgzfReader64
namespace Hts.Model.Bgzf
open Hts.Spec.Flat (Offset Chunk Op)

/-! ### On files whose payloads are below 65536 bytes the repaired reader is the model of C02 -/

/-- Every payload the reader can meet is shorter than 65536 bytes. -/
def Small (r : Reader) : Prop := r.cur.data.length < 65536 ∧ ∀ m ∈ r.file, m.data.length < 65536

theorem Block.txOffset_small {b : Block} (h : b.data.length < 65536) : b.txOffset = b.tx := by
  unfold Block.txOffset
  rw [if_neg]
  rintro ⟨_, _, h3⟩
  omega

theorem Reader.setEnd64_small {r : Reader} (h : r.cur.data.length < 65536) : r.setEnd64 = r.setEnd := by
  simp only [Reader.setEnd64, Reader.setEnd, Block.txOffset_small h]

theorem memberAt_mem {f : File} {off : Nat} {m : Member} (h : memberAt f off = .ok m) : m ∈ f := by
  induction f generalizing off with
  | nil => cases off <;> simp [memberAt] at h
  | cons a f ih =>
    simp only [memberAt] at h
    by_cases h0 : off = 0
    · simp only [h0, if_true, Load.ok.injEq] at h; simp [h]
    · simp only [h0, if_false] at h
      by_cases h1 : off < a.csize
      · simp [h1] at h
      · simp only [h1, if_false] at h
        exact List.mem_cons_of_mem _ (ih h)

theorem small_load {f : File} (hf : ∀ m ∈ f, m.data.length < 65536) (b : Block) (base : Nat) :
    (Block.load f b base).1.data.length < 65536 := by
  unfold Block.load
  cases hm : memberAt f base with
  | ok m => exact hf m (memberAt_mem hm)
  | eof => simp [Block.failed]
  | bad => simp [Block.failed]

theorem Block.read_data (b : Block) (n : Nat) : (b.read n).2.2.data = b.data := by
  unfold Block.read; split <;> rfl

theorem Block.readByte_data (b : Block) : b.readByte.2.2.data = b.data := by
  unfold Block.readByte; split <;> rfl

theorem small_nextBlock {r : Reader} (h : Small r) : Small r.nextBlock.1 :=
  ⟨small_load h.2 r.cur r.cur.nextBase, h.2⟩

theorem small_skipEmpty : ∀ (fuel : Nat) (r : Reader), Small r → Small (r.skipEmpty fuel) := by
  intro fuel
  induction fuel with
  | zero => intro r h; exact h
  | succ fuel ih =>
    intro r h
    simp only [Reader.skipEmpty]
    split
    · have hn := small_nextBlock h
      rcases hnb : r.nextBlock with ⟨r', e⟩
      rw [hnb] at hn
      cases e with
      | some e => exact hn
      | none => exact ih _ hn
    · exact h

theorem readLoop64_eq : ∀ (fuel : Nat) (r : Reader) (want : Nat), Small r →
    r.readLoop64 fuel want = r.readLoop fuel want ∧ Small (r.readLoop fuel want).1 := by
  intro fuel
  induction fuel with
  | zero => intro r want h; exact ⟨rfl, h⟩
  | succ fuel ih =>
    intro r want h
    obtain ⟨rf, rc, rl, re, rb⟩ := r
    simp only [Reader.readLoop64, Reader.readLoop]
    split
    · have hd : (rc.read want).2.2.data = rc.data := Block.read_data rc want
      rcases hrd : rc.read want with ⟨out, eof, b⟩
      rw [hrd] at hd
      simp only at hd
      have hb : b.data.length < 65536 := by rw [hd]; exact h.1
      cases eof with
      | false =>
        simp only
        have := ih ⟨rf, b, rl, re, rb⟩ (want - out.length) ⟨hb, h.2⟩
        rw [this.1]
        exact ⟨rfl, this.2⟩
      | true =>
        simp only
        by_cases h0 : want - out.length = 0
        · simp only [h0, if_true]
          rw [Reader.setEnd64_small (by exact hb)]
          exact ⟨rfl, hb, h.2⟩
        · simp only [h0, if_false]
          cases rb with
          | true =>
            simp only [if_true]
            rw [Reader.setEnd64_small (by exact hb)]
            exact ⟨rfl, hb, h.2⟩
          | false =>
            simp only [Bool.false_eq_true, if_false]
            have hn := small_nextBlock (r := ⟨rf, b, rl, some Err.eof, false⟩) ⟨hb, h.2⟩
            rcases hnb : (⟨rf, b, rl, some Err.eof, false⟩ : Reader).nextBlock with ⟨r', e⟩
            rw [hnb] at hn
            cases e with
            | some e =>
              simp only
              rw [Reader.setEnd64_small (by exact hn.1)]
              exact ⟨rfl, hn⟩
            | none =>
              simp only
              have := ih { r' with err := none } (want - out.length) hn
              rw [this.1]
              exact ⟨rfl, this.2⟩
    · rw [Reader.setEnd64_small (by exact h.1)]
      exact ⟨rfl, h⟩

theorem read64_eq (r : Reader) (n : Nat) (h : Small r) :
    r.read64 n = r.read n ∧ Small (r.read n).1 := by
  simp only [Reader.read64, Reader.read]
  cases he : r.err with
  | some e => exact ⟨rfl, h⟩
  | none =>
    simp only
    have hs := small_skipEmpty r.skipFuel r h
    generalize r.skipEmpty r.skipFuel = r1 at hs ⊢
    obtain ⟨rf, rc, rl, re, rb⟩ := r1
    cases re with
    | some e => exact ⟨rfl, hs⟩
    | none =>
      simp only [Block.txOffset_small hs.1]
      exact readLoop64_eq _ ⟨rf, rc, ⟨rc.tx, rl.fin⟩, none, rb⟩ n hs

theorem readByte64_eq (r : Reader) (h : Small r) :
    r.readByte64 = r.readByte ∧ Small r.readByte.1 := by
  simp only [Reader.readByte64, Reader.readByte]
  cases he : r.err with
  | some e => exact ⟨rfl, h⟩
  | none =>
    simp only
    have hs := small_skipEmpty r.skipFuel r h
    generalize r.skipEmpty r.skipFuel = r1 at hs ⊢
    obtain ⟨rf, rc, rl, re, rb⟩ := r1
    cases re with
    | some e => exact ⟨rfl, hs⟩
    | none =>
      simp only [Block.txOffset_small hs.1]
      have hd : rc.readByte.2.2.data = rc.data := Block.readByte_data rc
      rcases hrd : rc.readByte with ⟨c, eof, b⟩
      rw [hrd] at hd
      simp only at hd
      have hb : b.data.length < 65536 := by rw [hd]; exact hs.1
      cases eof with
      | false =>
        simp only
        rw [Reader.setEnd64_small (by exact hb)]
        exact ⟨rfl, hb, hs.2⟩
      | true =>
        simp only
        cases rb with
        | true =>
          simp only [if_true]
          rw [Reader.setEnd64_small (by exact hb)]
          exact ⟨rfl, hb, hs.2⟩
        | false =>
          simp only [Bool.false_eq_true, if_false]
          have hn := small_nextBlock (r := ⟨rf, b, ⟨rc.tx, rl.fin⟩, some Err.eof, false⟩) ⟨hb, hs.2⟩
          rw [Reader.setEnd64_small (by exact hn.1)]
          exact ⟨rfl, hn⟩

theorem small_seek (r : Reader) (o : Offset) (h : Small r) : Small (r.seek o).1 := by
  simp only [Reader.seek]
  split
  · have hl := small_load h.2 r.cur o.file
    rcases hld : Block.load r.file r.cur o.file with ⟨b, e⟩
    rw [hld] at hl
    cases e with
    | some e => exact ⟨hl, h.2⟩
    | none => exact ⟨hl, h.2⟩
  · exact ⟨h.1, h.2⟩

theorem step64_eq (r : Reader) (op : Op) (h : Small r) :
    r.step64 op = r.step op ∧ Small (r.step op).1 := by
  cases op with
  | read n =>
    have := read64_eq r n h
    simp only [Reader.step64, Reader.step, this.1]; exact ⟨trivial, this.2⟩
  | readByte =>
    have := readByte64_eq r h
    simp only [Reader.step64, Reader.step, this.1]; exact ⟨trivial, this.2⟩
  | seek o => exact ⟨rfl, small_seek r o h⟩
  | setBlocked b => exact ⟨rfl, h⟩

/-- **The repaired reader on files with payloads below 65536 bytes is the reader model of C02.** -/
theorem run64_eq_run : ∀ (ops : List Op) (r : Reader), Small r → r.run64 ops = r.run ops := by
  intro ops
  induction ops with
  | nil => intro r _; rfl
  | cons op ops ih =>
    intro r h
    have := step64_eq r op h
    simp only [Reader.run64, Reader.run, this.1, ih _ this.2]

theorem small_new {f : File} (hf : ∀ m ∈ f, m.data.length < 65536) {r0 : Reader} (h0 : Reader.new f = .ok r0) :
    Small r0 := by
  unfold Reader.new at h0
  cases hm : memberAt f 0 with
  | ok m =>
    simp only [hm, Except.ok.injEq] at h0
    subst h0
    exact ⟨hf m (memberAt_mem hm), hf⟩
  | eof => simp [hm] at h0
  | bad => simp [hm] at h0

end Hts.Model.Bgzf
