/-
C11 on the FAI model of C19 (`Hts.Model.Fai`, tied to the code by C19's correspondence check): once
`fai.ReadFrom` has accepted a record (`Record.isValid`, /repo 38c3f30 = fixes/C11-19), neither `Seq.Read`
nor `Position` can reach the division by zero (`RdErr.panicDiv`) or the negative-slice / spinning layout
(`RdErr.badLayout`) that hostile `.fai` text used to cause.  Core Lean only.
-/
import Hts.Model.Fai
namespace Hts.Model.Fai

/-- the `fai.Record` of an accepted line (all four numbers are non-negative then) -/
def recordOf (r : RawRecord) : Record :=
  ⟨r.name, r.length.toNat, r.start.toNat, r.basesPerLine.toNat, r.bytesPerLine.toNat⟩

/-- what `Seq.Read`/`Position` need of a record: bases per line do not exceed bytes per line, and only an
empty sequence has no bases per line -/
structure Record.Sane (R : Record) : Prop where
  le : R.basesPerLine ≤ R.bytesPerLine
  pos : R.basesPerLine = 0 → R.length = 0

theorem sane_of_isValid (r : RawRecord) (h : r.isValid = true) : (recordOf r).Sane := by
  unfold RawRecord.isValid at h
  split at h
  · cases h
  · rename_i hn
    have h1 : 0 ≤ r.length := by omega
    have h3 : 0 ≤ r.basesPerLine := by omega
    have h4 : r.basesPerLine ≤ r.bytesPerLine := by omega
    constructor
    · show r.basesPerLine.toNat ≤ r.bytesPerLine.toNat
      omega
    · intro hb
      have hb' : r.basesPerLine.toNat = 0 := hb
      have hb0 : r.basesPerLine = 0 := by omega
      rw [if_pos hb0] at h
      have hl : r.length = 0 := by simpa using h
      show r.length.toNat = 0
      omega

/-! ### what `ReadFrom` returns is valid -/

theorem parseRecord_valid (seen : List RawRecord) (fs : List Bytes) (r : RawRecord)
    (h : parseRecord seen fs = .ok r) : r.isValid = true := by
  unfold parseRecord at h
  split at h
  · split at h
    · cases h
    · split at h
      · split at h
        · rename_i hv
          cases h
          exact hv
        · cases h
      · cases h
  · cases h

theorem readLines_valid : ∀ (ls : List Bytes) (seen rs : List RawRecord),
    (∀ r ∈ seen, r.isValid = true) → readLines seen ls = .ok rs → ∀ r ∈ rs, r.isValid = true := by
  intro ls
  induction ls with
  | nil =>
    intro seen rs hs h r hr
    unfold readLines at h
    cases h
    exact hs r (List.mem_reverse.mp hr)
  | cons l ls ih =>
    intro seen rs hs h
    unfold readLines at h
    split at h
    · cases h
    · rename_i fs _
      split at h
      · cases h
      · rename_i r0 hp
        apply ih (r0 :: seen) rs _ h
        intro r hr
        simp only [List.mem_cons] at hr
        rcases hr with e | e
        · subst e; exact parseRecord_valid _ _ _ hp
        · exact hs r e

theorem readFrom_valid (text : Bytes) (rs : List RawRecord) (h : readFrom text = .ok rs) :
    ∀ r ∈ rs, r.isValid = true :=
  readLines_valid _ [] rs (by intro r hr; cases hr) h

/-! ### arithmetic of `position` and `endOfLineOffset` on a sane record -/

theorem position_lt (R : Record) (hs : R.Sane) (hb : 0 < R.basesPerLine) (p q : Nat) (hpq : p < q) :
    R.position p < R.position q := by
  unfold Record.position
  rw [if_neg (by omega), if_neg (by omega)]
  have hle := hs.le
  have hdiv : p / R.basesPerLine ≤ q / R.basesPerLine := Nat.div_le_div_right (Nat.le_of_lt hpq)
  have hmp : p % R.basesPerLine < R.basesPerLine := Nat.mod_lt _ hb
  rcases Nat.lt_or_ge (p / R.basesPerLine) (q / R.basesPerLine) with hlt | hge
  · have h1 : (p / R.basesPerLine + 1) * R.bytesPerLine ≤ q / R.basesPerLine * R.bytesPerLine :=
      Nat.mul_le_mul_right _ hlt
    rw [Nat.add_mul, Nat.one_mul] at h1
    omega
  · have heq : p / R.basesPerLine = q / R.basesPerLine := Nat.le_antisymm hdiv hge
    have hp := Nat.div_add_mod p R.basesPerLine
    have hq := Nat.div_add_mod q R.basesPerLine
    rw [heq] at hp ⊢
    omega

theorem endOfLineOffset_pos (R : Record) (hb : 0 < R.basesPerLine) (p : Nat) (hp : p < R.length) :
    0 < R.endOfLineOffset p := by
  unfold Record.endOfLineOffset
  split
  · omega
  · have := Nat.mod_lt p hb
    omega

/-! ### `Seq.Read` -/

/-- the loop of `Seq.Read` on a sane record never meets the bad layout (and has no division at all once
`BasesPerLine > 0`) -/
theorem readLoop_ok (file : Bytes) (R : Record) (hs : R.Sane) (hb : 0 < R.basesPerLine) (stop : Nat)
    (hstop : stop ≤ R.length) : ∀ (n cur k : Nat) (acc : Bytes), stop - cur ≤ n → 0 < k →
    (readLoopG file R.position R.endOfLineOffset (R.position stop) stop cur k acc).err ≠ .badLayout ∧
    (readLoopG file R.position R.endOfLineOffset (R.position stop) stop cur k acc).err ≠ .panicDiv := by
  intro n
  induction n with
  | zero =>
    intro cur k acc hn hk
    unfold readLoopG
    rw [dif_neg (by omega)]
    refine ⟨?_, ?_⟩ <;> (intro h; cases h)
  | succ n ih =>
    intro cur k acc hn hk
    unfold readLoopG
    split
    · rename_i hc
      have hlt := position_lt R hs hb cur stop hc
      simp only
      rw [if_neg (by omega)]
      have heol := endOfLineOffset_pos R hb cur (by omega)
      have hwant : min (min (R.endOfLineOffset cur) (R.position stop - R.position cur)) k ≠ 0 := by
        have : 0 < R.position stop - R.position cur := by omega
        omega
      rw [dif_neg hwant]
      split
      · refine ⟨?_, ?_⟩ <;> (intro h; cases h)
      · rename_i hg
        split
        · refine ⟨?_, ?_⟩ <;> (intro h; cases h)
        · rename_i hk'
          apply ih
          · omega
          · omega
    · refine ⟨?_, ?_⟩ <;> (intro h; cases h)

/-- one `Read` call on a segment of a sane record, with any cursor and any buffer size -/
theorem seqRead_ok (file : Bytes) (s : Seq) (hs : s.rcd.Sane) (hstop : s.stop ≤ s.rcd.length) (k : Nat) :
    (s.read file k).err ≠ .badLayout ∧ (s.read file k).err ≠ .panicDiv := by
  unfold Seq.read
  split
  · refine ⟨?_, ?_⟩ <;> (intro h; cases h)
  · split
    · refine ⟨?_, ?_⟩ <;> (intro h; cases h)
    · rename_i hk hc
      have hlen : 0 < s.rcd.length := by omega
      have hb : 0 < s.rcd.basesPerLine := by
        rcases Nat.eq_zero_or_pos s.rcd.basesPerLine with h0 | h0
        · have := hs.pos h0; omega
        · exact h0
      rw [if_neg (by omega)]
      unfold readLoop
      exact readLoop_ok file s.rcd hs hb s.stop hstop _ s.cur k [] (Nat.le_refl _) (by omega)

theorem lookup_mem (idx : Index) (name : Bytes) (R : Record) (h : idx.lookup name = some R) : R ∈ idx := by
  unfold Index.lookup at h
  exact List.mem_of_find?_eq_some h

/-- a handle obtained from `File.Seq` or `File.SeqRange` covers a segment inside its record -/
theorem seq_handle (idx : Index) (name : Bytes) (s : Seq) (a b : Int)
    (h : seqWhole idx name = .ok s ∨ seqRange idx name a b = .ok s) : s.rcd ∈ idx ∧ s.stop ≤ s.rcd.length := by
  rcases h with h | h
  · unfold seqWhole at h
    split at h
    · cases h
    · rename_i R hR
      cases h
      exact ⟨lookup_mem idx name R hR, Nat.le_refl _⟩
  · unfold seqRange at h
    split at h
    · cases h
    · split at h
      · cases h
      · rename_i R hR
        split at h
        · cases h
        · rename_i hr
          cases h
          refine ⟨lookup_mem idx name R hR, ?_⟩
          show b.toNat ≤ R.length
          omega

end Hts.Model.Fai
