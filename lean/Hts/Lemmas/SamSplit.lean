/-
`bytes.Split` on a single separator byte inverts joining with that separator.  Core only.
-/
import Hts.Model.SamText
namespace Hts.Model.SamText

theorem splitOn_ne_nil (sep : UInt8) (s : Bytes) : splitOn sep s ≠ [] := by
  induction s with
  | nil => simp [splitOn]
  | cons c rest ih =>
    unfold splitOn
    split
    · simp
    · split <;> simp

/-- a field without separator followed by a separator is the first field -/
theorem splitOn_append_sep (sep : UInt8) (f rest : Bytes) (h : ∀ c ∈ f, c ≠ sep) :
    splitOn sep (f ++ sep :: rest) = f :: splitOn sep rest := by
  induction f with
  | nil => simp [splitOn]
  | cons c f ih =>
    have hc : c ≠ sep := h c List.mem_cons_self
    have := ih (fun d hd => h d (List.mem_cons_of_mem _ hd))
    simp only [List.cons_append]
    rw [splitOn]
    simp only [hc, if_false, this]

theorem splitOn_no_sep (sep : UInt8) (f : Bytes) (h : ∀ c ∈ f, c ≠ sep) : splitOn sep f = [f] := by
  induction f with
  | nil => simp [splitOn]
  | cons c f ih =>
    have hc : c ≠ sep := h c List.mem_cons_self
    rw [splitOn]
    simp only [hc, if_false, ih (fun d hd => h d (List.mem_cons_of_mem _ hd))]

theorem splitOn_joinWith (sep : UInt8) (fs : List Bytes) (hne : fs ≠ [])
    (h : ∀ f ∈ fs, ∀ c ∈ f, c ≠ sep) : splitOn sep (joinWith sep fs) = fs := by
  induction fs with
  | nil => exact absurd rfl hne
  | cons f rest ih =>
    cases rest with
    | nil => simpa [joinWith] using splitOn_no_sep sep f (h f List.mem_cons_self)
    | cons g gs =>
      rw [joinWith, splitOn_append_sep sep f _ (h f List.mem_cons_self)]
      rw [ih (by simp) (fun x hx => h x (List.mem_cons_of_mem _ hx))]

end Hts.Model.SamText
