/-
Read-ahead protocol: the file of the sequential model as its chain; bounded paths; every call returns.
-/
import Hts.Model.ReaderLTSFile
import Hts.Lemmas.ReaderLTSExact
import Hts.Lemmas.ReaderLTSTerm
import Hts.Lemmas.ReaderProps
namespace Hts.Model.ReadAhead
open Hts.Model.Bgzf

theorem memberAt_ok_lt {F : File} (hwf : WF F) {b : Nat} {m : Member} (h : memberAt F b = .ok m) :
    0 < m.csize := by
  induction F generalizing b with
  | nil => cases b <;> simp [memberAt] at h
  | cons a F ih =>
    have ⟨hc, _, hw⟩ := WF.cons hwf
    simp only [memberAt] at h
    by_cases h0 : b = 0
    · simp only [h0, if_true, Load.ok.injEq] at h; rw [← h]; exact hc
    · simp only [h0, if_false] at h
      by_cases h1 : b < a.csize
      · simp [h1] at h
      · simp only [h1, if_false] at h; exact ih hw h

/-- Member sizes are positive, so the chain of a well-formed file is strictly increasing. -/
theorem chainOf_mono {F : File} (hwf : WF F) : Mono (chainOf F) := by
  intro b b' h
  simp only [chainOf] at h
  cases hm : memberAt F b with
  | ok m =>
    simp only [hm, Option.some.injEq] at h
    have := memberAt_ok_lt hwf hm; omega
  | eof => simp [hm] at h
  | bad => simp [hm] at h

theorem cfg_ok {F : File} (hwf : WF F) (rd : Nat) (hrd : 2 ≤ rd) (script : List Op) (faults : Bool) :
    (Cfg.mk rd (chainOf F) script faults).OK := ⟨hrd, chainOf_mono hwf⟩

/-- The block `⟨e, chain e⟩` of the protocol is the block the sequential model loads at `e`
(`Block.load`: the member there with its payload, or the failed block). -/
theorem blkOf_load {F : File} (hwf : WF F) (b0 : Block) (e : Nat) :
    blkOf (Block.load F b0 e).1 = ⟨some e, chainOf F e⟩ := by
  simp only [Block.load, chainOf]
  cases hm : memberAt F e with
  | ok m =>
    have := memberAt_ok_lt hwf hm
    simp [blkOf, Block.hasData, Block.nextBase]; omega
  | eof => simp [blkOf, Block.hasData, Block.failed]
  | bad => simp [blkOf, Block.hasData, Block.failed]

/-! ### bounded paths, every call returns -/

inductive StepN (cfg : Cfg) : Nat → State → State → Prop where
  | zero {a : State} : StepN cfg 0 a a
  | succ {n : Nat} {a b c : State} : Step cfg a b → StepN cfg n b c → StepN cfg (n + 1) a c

/-- Global measure: the calls still in the script, then `mu`. -/
def gmu (cfg : Cfg) (s : State) : Nat := (7 * (7 + cfg.rd) + 1) * s.script.length + mu cfg s

theorem script_same {cfg : Cfg} {s t : State} {c f : Bool} {e : Option Ev}
    (h : apiStep cfg s c f = some (e, t)) (hne : s.cons ≠ .idle) : t.script = s.script := by
  unfold apiStep at h
  cases hc : s.cons with
  | idle => exact absurd hc hne
  | fetch b =>
    simp only [hc] at h
    by_cases hcf : c = true
    · simp [hcf] at h
    · simp only [hcf, if_false, Bool.false_eq_true] at h
      cases hl : doLoad cfg s (some b) f with
      | none => simp [hl] at h
      | some r =>
        obtain ⟨b', hd, ev'⟩ := r
        simp only [hl, Option.some.injEq, Prod.mk.injEq] at h
        obtain ⟨-, rfl⟩ := h; rfl
  | sync b =>
    simp only [hc] at h
    by_cases hcf : c = true
    · simp [hcf] at h
    · simp only [hcf, if_false, Bool.false_eq_true] at h
      cases hl : doLoad cfg s (some b) f with
      | none => simp [hl] at h
      | some r =>
        obtain ⟨b', hd, ev'⟩ := r
        simp only [hl, Option.some.injEq, Prod.mk.injEq] at h
        obtain ⟨-, rfl⟩ := h; rfl
  | _ => simp only [hc] at h; step_cases h <;> rfl

/-- A step of the consumer between calls starts the next call of the script (or passes a marker). -/
theorem api_gmu_idle {cfg : Cfg} {s t : State} {c f : Bool} {e : Option Ev}
    (h : apiStep cfg s c f = some (e, t)) (hc : s.cons = .idle) (hn : Op.nexts ∉ s.script) :
    gmu cfg t < gmu cfg s ∧ Op.nexts ∉ t.script := by
  unfold apiStep at h
  simp only [hc] at h
  by_cases hf : f = true
  · simp [hf] at h
  simp only [hf, if_false, Bool.false_eq_true] at h
  cases hs : s.script with
  | nil => simp [hs] at h
  | cons op rest =>
    rw [hs] at hn
    have hn' : Op.nexts ∉ rest := fun hh => hn (by simp [hh])
    simp only [hs] at h
    have hb : (if s.control.isSome = true then 1 else 0) ≤ 1 := ctl_le s.control
    have hmul : (7 * (7 + cfg.rd) + 1) * (rest.length + 1) =
        (7 * (7 + cfg.rd) + 1) * rest.length + (7 * (7 + cfg.rd) + 1) := Nat.mul_succ _ _
    cases op with
    | nexts => exact absurd (by simp) hn
    | next =>
      by_cases hch : c = true
      · simp [hch] at h
      simp only [hch, if_false, Bool.false_eq_true] at h
      cases hnx : s.cur.next with
      | some b =>
        simp only [hnx, Option.some.injEq, Prod.mk.injEq] at h
        obtain ⟨-, rfl⟩ := h
        exact ⟨by simp only [gmu, mu, hc, hs, consWeight, List.length_cons, hmul]; omega, hn'⟩
      | none =>
        simp only [hnx, Option.some.injEq, Prod.mk.injEq] at h
        obtain ⟨-, rfl⟩ := h
        exact ⟨by simp only [gmu, mu, hc, hs, consWeight, List.length_cons, hmul]; omega, hn'⟩
    | seek off =>
      by_cases hch : c = true
      · simp [hch] at h
      simp only [hch, if_false, Bool.false_eq_true] at h
      by_cases hfast : s.cur.base = some off ∧ good s.cur = true
      · simp only [hfast, and_self, if_true, Option.some.injEq, Prod.mk.injEq] at h
        obtain ⟨-, rfl⟩ := h
        exact ⟨by simp only [gmu, mu, hc, hs, consWeight, List.length_cons, hmul]; omega, hn'⟩
      · simp only [hfast, if_false, Option.some.injEq, Prod.mk.injEq] at h
        obtain ⟨-, rfl⟩ := h
        exact ⟨by simp only [gmu, mu, hc, hs, consWeight, List.length_cons, hmul]; omega, hn'⟩
    | close =>
      by_cases hch : c = true
      · simp [hch] at h
      simp only [hch, if_false, Bool.false_eq_true, Option.some.injEq, Prod.mk.injEq] at h
      obtain ⟨-, rfl⟩ := h
      exact ⟨by simp only [gmu, mu, hc, hs, consWeight, List.length_cons, hmul]; omega, hn'⟩
    | note id =>
      by_cases hch : c = true
      · simp [hch] at h
      simp only [hch, if_false, Bool.false_eq_true, Option.some.injEq, Prod.mk.injEq] at h
      obtain ⟨-, rfl⟩ := h
      exact ⟨by simp only [gmu, mu, hc, hs, consWeight, List.length_cons, hmul]; omega, hn'⟩

/-- Every step decreases the global measure (scripts of definite calls: no `nexts`). -/
theorem gmu_decreases {cfg : Cfg} {s t : State} {l : Label} {e : Option Ev} (hi : Inv cfg s)
    (h : next cfg s l = some (e, t)) (hn : Op.nexts ∉ s.script) :
    gmu cfg t < gmu cfg s ∧ Op.nexts ∉ t.script := by
  cases l with
  | wk f =>
    have hfr := wk_frame h
    have := wk_mu h
    exact ⟨by simp only [gmu, hfr.2.2.2.2.1]; omega, by rw [hfr.2.2.2.2.1]; exact hn⟩
  | api c f =>
    by_cases hc : s.cons = .idle
    · exact api_gmu_idle h hc hn
    · have hs := script_same h hc
      have := api_mu hi h hc
      exact ⟨by simp only [gmu, hs]; omega, by rw [hs]; exact hn⟩

theorem path_bounded {cfg : Cfg} (hc : cfg.OK) {n : Nat} {s t : State} (hr : Reachable cfg s)
    (hn : Op.nexts ∉ s.script) (h : StepN cfg n s t) : n + gmu cfg t ≤ gmu cfg s := by
  induction h with
  | zero => simp
  | succ hst _ ih =>
    obtain ⟨l, e, hnx⟩ := hst
    have := gmu_decreases (inv_reachable hc hr) hnx hn
    have := ih (Reachable.step hr ⟨l, e, hnx⟩) this.2
    omega

theorem calls_return {cfg : Cfg} (hc : cfg.OK) {s : State} (hr : Reachable cfg s)
    (hn : Op.nexts ∉ s.script) : ∃ k u, StepN cfg k s u ∧ ApiDone u := by
  generalize hm : gmu cfg s = m
  induction m using Nat.strongRecOn generalizing s with
  | _ m ih =>
    rcases inv_progress (inv_reachable hc hr) with ⟨l, e, t, hst⟩ | hdone
    · have hd := gmu_decreases (inv_reachable hc hr) hst hn
      obtain ⟨k, u, hk, hu⟩ := ih (gmu cfg t) (hm ▸ hd.1) (Reachable.step hr ⟨l, e, hst⟩) hd.2 rfl
      exact ⟨k + 1, u, .succ ⟨l, e, hst⟩ hk, hu⟩
    · exact ⟨0, s, .zero, hdone⟩

end Hts.Model.ReadAhead
