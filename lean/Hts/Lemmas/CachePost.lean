/-
Audit L-12 additions for C14:
* exact block counts for Random's Drop / Resize / Free (the victims are validated, their NUMBER is fixed);
* the StatsRecorder counters are the counts of the answers in the history, and the recorder changes nothing
  else;
* LRU/FIFO/Random calls read the heap only at the blocks the cache holds and at the argument (frame), so the
  single heap of the linearizability instances stands for every heap that agrees there — other blocks may
  be written by their owners at any time.
-/
import Hts.Lemmas.CacheHist
import Hts.Lemmas.CacheLinInst
namespace Hts.Model.Cache
open Hts.Spec.CacheContract

/-- with distinct block ids, removing one id removes exactly one entry -/
theorem filter_id_ne_length (items : List Entry) (v : Nat) (hnd : (items.map (·.id)).Nodup)
    (hv : v ∈ items.map (·.id)) : (items.filter (fun e => e.id != v)).length + 1 = items.length := by
  induction items with
  | nil => simp at hv
  | cons e t ih =>
    simp only [List.map_cons, List.nodup_cons] at hnd
    by_cases hev : e.id = v
    · have hall : t.filter (fun e => e.id != v) = t := by
        apply List.filter_eq_self.2
        intro a ha
        have : a.id ≠ v := by
          intro h; apply hnd.1; rw [hev, ← h]; exact List.mem_map.2 ⟨a, ha, rfl⟩
        simpa using this
      simp [hev, hall]
    · have hv' : v ∈ t.map (·.id) := by
        simp only [List.map_cons, List.mem_cons] at hv
        rcases hv with h | h
        · exact absurd h.symm hev
        · exact h
      have := ih hnd.2 hv'
      simp [hev]
      omega

open RCache in
theorem filter_victims_length_eq (items : List Entry) (victims : List Nat)
    (hid : (items.map (·.id)).Nodup)
    (hn : nodupB victims = true) (hsub : ∀ v ∈ victims, v ∈ items.map (·.id)) :
    (items.filter (fun e => !victims.contains e.id)).length + victims.length = items.length := by
  induction victims generalizing items with
  | nil => simp
  | cons v vs ih =>
    obtain ⟨hv, hn'⟩ := nodupB_cons hn
    have h1 := filter_id_ne_length items v hid (hsub v (by simp))
    have hid' : ((items.filter (fun e => e.id != v)).map (·.id)).Nodup :=
      hid.sublist (List.Sublist.map _ List.filter_sublist)
    have h2 : ∀ w ∈ vs, w ∈ (items.filter (fun e => e.id != v)).map (·.id) := by
      intro w hw
      have : w ∈ items.map (·.id) := hsub w (by simp [hw])
      obtain ⟨e, he, hew⟩ := List.mem_map.1 this
      refine List.mem_map.2 ⟨e, ?_, hew⟩
      simp only [List.mem_filter]
      refine ⟨he, ?_⟩
      have : e.id ≠ v := by rw [hew]; intro h; exact hv (h ▸ hw)
      simpa using this
    have h3 := ih _ hid' hn' h2
    have h4 : items.filter (fun e => !(v :: vs).contains e.id) =
        (items.filter (fun e => e.id != v)).filter (fun e => !vs.contains e.id) := by
      simp only [List.filter_filter]
      congr 1
      funext e
      by_cases hev : e.id = v <;> simp [hev, Bool.and_comm]
    rw [h4]
    simp only [List.length_cons]
    omega

namespace RCache

/-- no block is indexed twice -/
def IdsNodup (c : RCache) : Prop := (c.items.map (·.id)).Nodup

theorem dropItems_len_eq {h : Heap} {items items' : List Entry} {n : Int} {victims : List Nat}
    (hid : (items.map (·.id)).Nodup) (hd : dropItems h items n victims = some items') :
    (items'.length : Int) = items.length - min (max n 0) items.length ∧ (items'.map (·.id)).Nodup := by
  unfold dropItems at hd
  split at hd
  · rename_i hok
    cases hd
    simp only [dropOk, Bool.and_eq_true, List.all_eq_true, beq_iff_eq] at hok
    obtain ⟨⟨⟨hsub, hnd⟩, hlen⟩, _⟩ := hok
    have := filter_victims_length_eq items victims hid hnd (fun v hv => by simpa using hsub v hv)
    rw [hlen] at this
    refine ⟨?_, hid.sublist (List.Sublist.map _ List.filter_sublist)⟩
    split at this <;> omega
  · cases hd

/-- Random `Drop(n)`: exactly `min (max n 0) Len` blocks leave -/
theorem drop_post_exact {h : Heap} {c c' : RCache} {n : Int} {vs : List Nat} (hid : c.IdsNodup)
    (hd : c.drop h n vs = some c') :
    c'.cap = c.cap ∧ c'.len = c.len - min (max n 0) c.len ∧ c'.IdsNodup := by
  simp only [drop, Option.map_eq_some_iff] at hd
  obtain ⟨it, h1, h2⟩ := hd
  subst h2
  obtain ⟨hl, hn⟩ := dropItems_len_eq hid h1
  exact ⟨rfl, hl, hn⟩

/-- Random `Resize(n)`: capacity `n`, `min Len n` blocks stay -/
theorem resize_post_exact {h : Heap} {c c' : RCache} {n : Int} {vs : List Nat} (hn : 0 ≤ n)
    (hid : c.IdsNodup) (hd : c.resize h n vs = some c') :
    c'.cap = n ∧ c'.len = min c.len n ∧ c'.IdsNodup := by
  unfold resize at hd
  split at hd
  · simp only [Option.map_eq_some_iff] at hd
    obtain ⟨it, h1, h2⟩ := hd
    subst h2
    obtain ⟨hl, hnd⟩ := dropItems_len_eq hid h1
    refine ⟨rfl, ?_, hnd⟩
    simp only [RCache.len]
    omega
  · split at hd
    · cases hd
      exact ⟨rfl, by simp only [RCache.len]; omega, hid⟩
    · cases hd

/-- `cache.Free(n, c)` on Random: succeeds iff `n ≤ Cap`, then leaves at least `n` free slots, drops no
more blocks than needed, never changes the capacity -/
theorem free_post {h : Heap} {c c' : RCache} {b : Bool} {n : Int} {vs : List Nat} (w : c.WF)
    (hid : c.IdsNodup) (hd : c.free h n vs = some (c', b)) :
    c'.cap = c.cap ∧ (b = true ↔ n ≤ c.cap) ∧ (b = true → n ≤ c'.cap - c'.len) ∧
    c'.len = c.len - min (max (n - (c.cap - c.len)) 0) c.len ∧ c'.IdsNodup := by
  have hle : c.len ≤ c.cap := w.len_le
  have h0 : 0 ≤ c.len := by simp only [RCache.len]; omega
  unfold free at hd
  simp only at hd
  split at hd
  · rename_i hfit
    split at hd
    · cases hd
      refine ⟨rfl, ?_, ?_, ?_, hid⟩
      · constructor
        · intro _; omega
        · intro _; rfl
      · intro _; exact hfit
      · omega
    · cases hd
  · rename_i hfit
    simp only [Option.map_eq_some_iff] at hd
    obtain ⟨c'', h1, h2⟩ := hd
    simp only [Prod.mk.injEq] at h2
    obtain ⟨h2a, h2b⟩ := h2
    subst h2a
    obtain ⟨hc, hl, hnd⟩ := drop_post_exact hid h1
    refine ⟨hc, ?_, ?_, hl, hnd⟩
    · rw [← h2b, decide_eq_true_iff]
      constructor <;> intro _ <;> omega
    · rw [← h2b, decide_eq_true_iff]
      intro hb; omega

end RCache

/-! ### StatsRecorder: counters = counts of the answers in the history -/

/-- the calls a recorder forwards -/
inductive RecOp
  | get (k : Int)
  | put (id : Nat) (hint : Option Nat)
  | peek (k : Int)

/-- what the caller saw -/
inductive RecAns
  | get (r : Option Nat)
  | put (r : PutRes)
  | peek (b : Bool) (n : Int)
deriving DecidableEq

/-- run a history on any cache, collecting the answers (`none`: a recorded Random victim was not one
the code can pick) -/
def runAns {σ : Type} (o : CacheOps σ) (s : σ) : List (Heap × RecOp) → Option (σ × List RecAns)
  | [] => some (s, [])
  | (h, .get k) :: rest =>
    (runAns o (o.get h s k).1 rest).map (fun (t, as) => (t, .get (o.get h s k).2 :: as))
  | (h, .put id hint) :: rest =>
    (o.put h s id hint).bind (fun (s', r) => (runAns o s' rest).map (fun (t, as) => (t, .put r :: as)))
  | (h, .peek k) :: rest =>
    (runAns o s rest).map (fun (t, as) => (t, .peek (o.peek h s k).1 (o.peek h s k).2 :: as))

/-- the counters a history of answers amounts to -/
def tally (st : Stats) : List RecAns → Stats
  | [] => st
  | .get r :: rest => tally (st.onGet r) rest
  | .put r :: rest => tally (st.onPut r) rest
  | .peek _ _ :: rest => tally st rest

def count (p : RecAns → Bool) (as : List RecAns) : Nat := (as.filter p).length

def RecAns.isGet : RecAns → Bool | .get _ => true | _ => false
def RecAns.isMiss : RecAns → Bool | .get none => true | _ => false
def RecAns.isPut : RecAns → Bool | .put _ => true | _ => false
def RecAns.isRetain : RecAns → Bool | .put (.kept _) => true | _ => false
def RecAns.isEvict : RecAns → Bool | .put (.kept (some _)) => true | _ => false

theorem tally_counts (st : Stats) (as : List RecAns) :
    (tally st as).gets = st.gets + count RecAns.isGet as ∧
    (tally st as).misses = st.misses + count RecAns.isMiss as ∧
    (tally st as).puts = st.puts + count RecAns.isPut as ∧
    (tally st as).retains = st.retains + count RecAns.isRetain as ∧
    (tally st as).evictions =
      st.evictions + count RecAns.isEvict as := by
  induction as generalizing st with
  | nil => simp [tally, count]
  | cons a rest ih =>
    cases a with
    | get r =>
      obtain ⟨h1, h2, h3, h4, h5⟩ := ih (st.onGet r)
      simp only [tally, count, List.filter_cons] at *
      cases r <;> simp [Stats.onGet, RecAns.isGet, RecAns.isMiss, RecAns.isPut, RecAns.isRetain, RecAns.isEvict] at * <;> omega
    | put r =>
      obtain ⟨h1, h2, h3, h4, h5⟩ := ih (st.onPut r)
      simp only [tally, count, List.filter_cons] at *
      rcases r with _ | ev | _
      · simp [Stats.onPut, RecAns.isGet, RecAns.isMiss, RecAns.isPut, RecAns.isRetain, RecAns.isEvict] at *; omega
      · cases ev <;> simp [Stats.onPut, RecAns.isGet, RecAns.isMiss, RecAns.isPut, RecAns.isRetain, RecAns.isEvict] at * <;> omega
      · simp [Stats.onPut, RecAns.isGet, RecAns.isMiss, RecAns.isPut, RecAns.isRetain, RecAns.isEvict] at *; omega
    | peek b n =>
      obtain ⟨h1, h2, h3, h4, h5⟩ := ih st
      simp only [tally, count, List.filter_cons] at *
      simp [RecAns.isGet, RecAns.isMiss, RecAns.isPut, RecAns.isRetain, RecAns.isEvict] at *
      omega

/-- A StatsRecorder answers exactly as the cache it wraps, leaves that cache in the same state, and its
counters afterwards are the initial ones plus the tally of the answers. -/
theorem recorder_run {σ : Type} (o : CacheOps σ) (s : σ) (st : Stats) (hist : List (Heap × RecOp)) :
    runAns (recorderOps o) (s, st) hist =
      (runAns o s hist).map (fun (t, as) => ((t, tally st as), as)) := by
  induction hist generalizing s st with
  | nil => rfl
  | cons x rest ih =>
    obtain ⟨h, op⟩ := x
    have hg : ∀ k, (recorderOps o).get h (s, st) k =
        (((o.get h s k).1, st.onGet (o.get h s k).2), (o.get h s k).2) := fun _ => rfl
    have hpk : ∀ k, (recorderOps o).peek h (s, st) k = o.peek h s k := fun _ => rfl
    have hpt : ∀ id hint, (recorderOps o).put h (s, st) id hint =
        (o.put h s id hint).map (fun (c, r) => ((c, st.onPut r), r)) := fun _ _ => rfl
    cases op with
    | get k =>
      simp only [runAns, hg]
      rw [ih]
      cases runAns o (o.get h s k).1 rest <;> simp [tally]
    | put id hint =>
      simp only [runAns, hpt]
      cases hp : o.put h s id hint with
      | none => simp
      | some pr =>
        obtain ⟨s', r⟩ := pr
        simp only [Option.map_some, Option.bind_some]
        rw [ih]
        cases runAns o s' rest <;> simp [tally]
    | peek k =>
      simp only [runAns, hpk]
      rw [ih]
      cases runAns o s rest <;> simp [tally]


/-! ### the heap an operation sees -/

open Hts.Spec.Lin

theorem lookup_mem {items : List Entry} {k : Int} {e : Entry} (hl : lookup items k = some e) : e ∈ items :=
  List.mem_of_find?_eq_some hl

/-- An LRU/FIFO call reads the heap only at the blocks the cache holds and at the block being put: two
heaps that agree there give the same successor and the same answer.  (Blocks the cache does not hold
belong to their owners, who may write them while the call runs.) -/
theorem LCache.call_frame (kind : Kind) (h h' : Heap) (c : LCache) (op : Call)
    (hheld : ∀ e ∈ c.items, h e.id = h' e.id) (harg : ∀ id, op = .put id → h id = h' id) :
    LCache.call kind h c op = LCache.call kind h' c op := by
  cases op with
  | put id => simp only [LCache.call, LCache.put, harg id rfl]
  | get k =>
    simp only [LCache.call, LCache.get]
    cases hl : lookup c.items k with
    | none => rfl
    | some e => simp only [hheld e (lookup_mem hl)]
  | peek k =>
    simp only [LCache.call, LCache.peek]
    cases hl : lookup c.items k with
    | none => rfl
    | some e => simp only [hheld e (lookup_mem hl)]
  | len => rfl
  | cap => rfl
  | drop n => rfl
  | resize n => rfl

/-- LRU / FIFO as a concurrent object whose every call comes with the heap it observes: the heap may be
different at every operation (the instance `lObj kind h` is the special case of a constant heap). -/
def lObjH (kind : Kind) : Obj where
  σ := LCache
  Op := Heap × Call
  Ret := CRet
  Loc := Unit
  spec s op r s' := LCache.call kind op.1 s op.2 = (s', r)
  isRead op := op.2.isRead
  init _ := ()
  more _ _ _ _ _ := False
  done op _ s r s' := LCache.call kind op.1 s op.2 = (s', r)

theorem lObjH_laws (kind : Kind) : Laws (lObjH kind) where
  body_implements op s r s' b := by
    cases b with
    | last d => exact d
    | next m _ => exact m.elim
  read_more op l s l' s' _ m := m.elim
  read_done op l s r s' hr d := by
    obtain ⟨h, op⟩ := op
    cases op <;> simp [lObjH, Call.isRead] at hr <;> simp only [lObjH, LCache.call] at d <;>
      exact (Prod.mk.inj d).1.symm

theorem lcacheH_linearizable (kind : Kind) (n : Int) {g : G (lObjH kind)} {w : List (Ev (lObjH kind))}
    (r : Reach (lObjH kind) (LCache.new n) g w) :
    Linearizable (lObjH kind) (LCache.new n) (visible (lObjH kind) w) :=
  lock_linearizable (lObjH kind) (lObjH_laws kind) (LCache.new n) r

/-- Random, likewise -/
def rObjH : Obj where
  σ := RCache
  Op := Heap × Call
  Ret := CRet
  Loc := Unit
  spec s op r s' := ∃ choice, RCache.call op.1 s choice op.2 = some (s', r)
  isRead op := op.2.isRead
  init _ := ()
  more _ _ _ _ _ := False
  done op _ s r s' := ∃ choice, RCache.call op.1 s choice op.2 = some (s', r)

theorem rObjH_laws : Laws rObjH where
  body_implements op s r s' b := by
    cases b with
    | last d => exact d
    | next m _ => exact m.elim
  read_more op l s l' s' _ m := m.elim
  read_done op l s r s' hr d := by
    obtain ⟨h, op⟩ := op
    obtain ⟨ch, d⟩ := d
    cases op <;> simp [rObjH, Call.isRead] at hr <;> simp only [RCache.call, Option.some.injEq] at d <;>
      exact (Prod.mk.inj d).1.symm

theorem rcacheH_linearizable (n : Int) {g : G rObjH} {w : List (Ev rObjH)}
    (r : Reach rObjH (RCache.new n) g w) :
    Linearizable rObjH (RCache.new n) (visible rObjH w) :=
  lock_linearizable rObjH rObjH_laws (RCache.new n) r

end Hts.Model.Cache
